(* ChkHT.v -- T30: parseHTMLTag ends just after a '>' of the source, for a reader over a span list whose Indent spans
   cover blanks only (no sortedness / non-emptiness of the span list is needed, unlike ShapesHT.parseHTMLTag_shape). *)
From Coq Require Import List ZArith Lia Bool.
Import ListNotations.
Require Import Base Tables Utf8 Tree Rdr Link Collect Html Recog Inl3a Inl3b Inl3c Inl3d ShapesBase ShapesR ShapesHT.
Open Scope Z_scope.

(* a blank, or one of the three bytes of U+FFFD (what the NUL filling can leave in place of a blank) *)
Definition blankish (c : Z) : bool := isSpTab c || (c =? 239) || (c =? 191) || (c =? 189).
Definition indOK (src : bytes) (u : inline) : bool :=
  negb (ikind u =? IndentKind) || forallb blankish (sub src (istart u) (iend u)).
Lemma span_forall (P : Z -> bool) src n pos : forallb P (sub src (istart n) (iend n)) = true -> spanHas n pos = true ->
  len src <= pos \/ P (at_ src pos) = true.
Proof.
  intros Hb Hh. apply spanHas_range in Hh. destruct Hh as (A & B & C).
  destruct (Z.le_gt_cases (len src) pos) as [L|L]; [left; exact L|right].
  pose proof (at_forallb _ _ Hb (pos - istart n)) as H. rewrite len_sub in H by lia.
  specialize (H ltac:(lia)). rewrite at_sub in H by lia. replace (istart n + (pos - istart n)) with pos in H by lia. exact H.
Qed.
Definition indBlank (src : bytes) (l : list inline) : bool := forallb (indOK src) l.

Lemma indBlank_app_r src pre l : indBlank src (pre ++ l) = true -> indBlank src l = true.
Proof. unfold indBlank. rewrite forallb_app. intros H. apply andb_true_iff in H. tauto. Qed.
Lemma indBlank_cons src u l : indBlank src (u :: l) = true -> indOK src u = true /\ indBlank src l = true.
Proof. unfold indBlank. cbn [forallb]. apply andb_true_iff. Qed.
Lemma indBlank_from src l a : indBlank src l = true -> indBlank src (from_ l a) = true.
Proof. intros H. unfold from_. rewrite <- (firstn_skipn (Z.to_nat a) l) in H. apply indBlank_app_r in H. exact H. Qed.

Section HT.
  Variable src : bytes.
  Definition RJ (r : reader) : Prop := r_src r = src /\ indBlank src (r_spans r) = true.

  Lemma RJ_curNode r : RJ r -> RJ (snd (curNode r)).
  Proof.
    intros (A & B). destruct (curNode_cases r) as [E|(pre & n & rest & E1 & E & E3)]; rewrite E; cbn [snd]; split; cbn; try assumption.
    - reflexivity.
    - rewrite E1 in B. apply indBlank_app_r in B. exact B.
  Qed.
  Lemma RJ_current r : RJ r -> RJ (snd (current r)).
  Proof. intros H. destruct (current_snd r) as [E|E]; rewrite E; [exact H|apply RJ_curNode, H]. Qed.
  Lemma RJ_remaining r : RJ r -> RJ (snd (remainingNodeBytes r)).
  Proof. intros H. unfold remainingNodeBytes. pose proof (RJ_curNode r H) as H1. destruct (curNode r) as [[n|] r']; exact H1. Qed.
  Lemma RJ_next r : RJ r -> RJ (snd (next r)).
  Proof.
    intros (A & B). destruct (next r) as [ok r1] eqn:E. cbn [snd]. destruct ok.
    - destruct (next_true r r1 E) as (node & rest & Ec & Hh & (pre & Epre) & Es & Ep & Hcase).
      rewrite Epre in B. apply indBlank_app_r in B. split; [congruence|].
      destruct Hcase as [(_ & _ & Esp)|[(_ & _ & _ & Esp)|(pre' & j & rest' & Er & Esp & _)]]; rewrite Esp; try exact B.
      apply indBlank_cons in B. destruct B as [_ B]. rewrite Er in B. apply indBlank_app_r in B. exact B.
    - destruct (next_false r r1 E) as (S2 & S1 & _). split; [congruence|rewrite S2; reflexivity].
  Qed.

  Ltac hstep :=
    repeat match goal with
    | |- context [current ?r] =>
        match goal with Hr : RJ r |- _ =>
          let H := fresh "Hc" in let c := fresh "c" in let r' := fresh "r" in let E := fresh "Ec" in
          pose proof (RJ_current r Hr) as H; destruct (current r) as [c r'] eqn:E; cbn [snd] in H end
    | |- context [next ?r] =>
        match goal with Hr : RJ r |- _ =>
          let H := fresh "Hn" in let ok := fresh "ok" in let r' := fresh "r" in let E := fresh "En" in
          pose proof (RJ_next r Hr) as H; destruct (next r) as [ok r'] eqn:E; cbn [snd] in H end
    end.

  Lemma RJ_skipLinkSpace_loop : forall fuel r, RJ r -> RJ (snd (skipLinkSpace_loop fuel r)).
  Proof.
    induction fuel as [|f IH]; intros r H; [exact H|]. cbn [skipLinkSpace_loop]. hstep.
    destruct (isSpaceTabOrLineEnding c); [|exact Hc]. hstep. destruct ok; [apply IH; assumption|assumption].
  Qed.
  Lemma RJ_skipLinkSpace fuel r : RJ r -> RJ (snd (skipLinkSpace fuel r)).
  Proof. intros H. unfold skipLinkSpace. hstep. destruct (c =? 0); [assumption|apply RJ_skipLinkSpace_loop; assumption]. Qed.
  Lemma RJ_tagName_loop : forall fuel r, RJ r -> RJ (tagName_loop fuel r).
  Proof.
    induction fuel as [|f IH]; intros r H; [exact H|]. cbn [tagName_loop]. hstep.
    destruct (_ || _ || _); [|exact Hc]. hstep. destruct ok; [apply IH; assumption|assumption].
  Qed.
  Lemma RJ_parseHTMLTagName fuel r : RJ r -> RJ (snd (parseHTMLTagName fuel r)).
  Proof.
    intros H. unfold parseHTMLTagName. hstep. destruct (negb _); [exact Hc|]. hstep.
    destruct (negb ok); [exact Hn|]. cbn [snd]. apply RJ_tagName_loop; assumption.
  Qed.
  Lemma RJ_attrName_loop : forall fuel r, RJ r -> RJ (snd (attrName_loop fuel r)).
  Proof.
    induction fuel as [|f IH]; intros r H; [exact H|]. cbn [attrName_loop]. hstep.
    destruct (isAttrNameChar c); [|exact Hc]. hstep. destruct ok; [apply IH; assumption|assumption].
  Qed.
  Lemma RJ_untilQuote : forall fuel r q, RJ r -> RJ (snd (untilQuote fuel r q)).
  Proof.
    induction fuel as [|f IH]; intros r q H; [exact H|]. cbn [untilQuote]. hstep.
    destruct (c =? q); [cbn [snd]; assumption|]. destruct ok; [apply IH; assumption|assumption].
  Qed.
  Lemma RJ_unquoted_loop : forall fuel r, RJ r -> RJ (unquoted_loop fuel r).
  Proof.
    induction fuel as [|f IH]; intros r H; [exact H|]. cbn [unquoted_loop]. hstep.
    destruct (negb ok); [assumption|]. hstep. destruct (isUnquotedAttributeValueChar c); [apply IH; assumption|assumption].
  Qed.
  Lemma RJ_parseHTMLAttribute fuel r : RJ r -> RJ (snd (parseHTMLAttribute fuel r)).
  Proof.
    intros H. unfold parseHTMLAttribute. hstep. destruct (_ && _ && _); [exact Hc|]. hstep.
    destruct (negb ok); [exact Hn|].
    pose proof (RJ_attrName_loop fuel r1 Hn) as H3. destruct (attrName_loop fuel r1) as [cont r3]. cbn [snd] in H3.
    destruct (negb cont); [exact H3|].
    pose proof (RJ_skipLinkSpace fuel r3 H3) as H4. destruct (skipLinkSpace fuel r3) as [ok2 r4]. cbn [snd] in H4.
    destruct (negb ok2); [exact H3|]. hstep. destruct (negb (c0 =? 61)); [exact H3|]. hstep.
    destruct (negb ok0); [exact Hn0|].
    pose proof (RJ_skipLinkSpace fuel r5 Hn0) as H7. destruct (skipLinkSpace fuel r5) as [ok4 r7]. cbn [snd] in H7.
    destruct (negb ok4); [exact H7|]. hstep.
    destruct ((c1 =? 39) || (c1 =? 34)).
    - hstep. destruct (negb ok1); [exact Hn1|apply RJ_untilQuote; assumption].
    - destruct (isUnquotedAttributeValueChar c1); [cbn [snd]; apply RJ_unquoted_loop; assumption|exact Hc1].
  Qed.

  Definition gEnd (e : Z) : Prop := at_ src (e - 1) = 62.
  Lemma gEnd_cur r : RJ r -> cur r = 62 -> gEnd (r_pos r + 1).
  Proof.
    intros (Hs & _) Hc. destruct (cur_src r 62 Hc eq_refl) as (A & _). unfold gEnd.
    replace (r_pos r + 1 - 1) with (r_pos r) by lia. rewrite <- Hs. exact A.
  Qed.
  Lemma gEnd_of r c r' : RJ r -> current r = (c, r') -> c = 62 -> gEnd (r_pos r' + 1).
  Proof.
    intros H E ->. assert (Hc : cur r = 62) by (unfold cur; rewrite E; reflexivity).
    destruct (current_fields r) as (_ & P & _). cbv zeta in P. rewrite E in P. cbn [snd] in P. rewrite P. apply gEnd_cur; assumption.
  Qed.

  Lemma openTag_loop_end : forall fuel r, RJ r -> 0 <= fst (openTag_loop fuel r) -> gEnd (fst (openTag_loop fuel r)).
  Proof.
    induction fuel as [|f IH]; intros r H; [cbn; lia|]. cbn [openTag_loop].
    pose proof (RJ_skipLinkSpace (S f) r H) as H1. destruct (skipLinkSpace (S f) r) as [ok r1]. cbn [snd] in H1.
    destruct (negb ok); [cbn; lia|]. hstep.
    destruct (c =? 47).
    - destruct (negb ok0 || jumped r2); [cbn; lia|].
      destruct (Z.eqb_spec c0 62) as [E62|E62]; cbn [negb]; [|cbn; lia]. cbn [fst]. intros _.
      exact (gEnd_of r2 c0 r3 Hn Ec0 E62).
    - destruct (Z.eqb_spec c 62) as [E62|E62].
      + cbn [fst]. intros _. exact (gEnd_of r1 c r0 H1 Ec E62).
      + destruct (r_pos r0 =? r_pos r); [cbn; lia|].
        pose proof (RJ_parseHTMLAttribute (S f) r0 Hc) as H3. destruct (parseHTMLAttribute (S f) r0) as [ok3 r5]. cbn [snd] in H3.
        destruct (negb ok3); [cbn; lia|]. apply IH. exact H3.
  Qed.
  Lemma parseHTMLOpenTag_end fuel r : RJ r -> 0 <= fst (parseHTMLOpenTag fuel r) -> gEnd (fst (parseHTMLOpenTag fuel r)).
  Proof.
    intros H. unfold parseHTMLOpenTag. pose proof (RJ_parseHTMLTagName fuel r H) as H1.
    destruct (parseHTMLTagName fuel r) as [ok r1]. cbn [snd] in H1. destruct (negb ok); [cbn; lia|].
    apply openTag_loop_end. exact H1.
  Qed.
  Lemma parseHTMLClosingTag_end fuel r : RJ r -> 0 <= fst (parseHTMLClosingTag fuel r) -> gEnd (fst (parseHTMLClosingTag fuel r)).
  Proof.
    intros H. unfold parseHTMLClosingTag. hstep. destruct (negb (c =? 47)); [cbn; lia|].
    destruct (negb ok || jumped r1); [cbn; lia|].
    pose proof (RJ_parseHTMLTagName fuel r1 Hn) as H3. destruct (parseHTMLTagName fuel r1) as [ok2 r3]. cbn [snd] in H3.
    destruct (negb ok2); [cbn; lia|].
    pose proof (RJ_skipLinkSpace fuel r3 H3) as H4. destruct (skipLinkSpace fuel r3) as [ok3 r4]. cbn [snd] in H4.
    destruct (negb ok3); [cbn; lia|].
    destruct (current r4) as [c2 r5] eqn:Ec2.
    destruct (Z.eqb_spec c2 62) as [E62|E62]; cbn [negb]; [|cbn; lia]. cbn [fst]. intros _.
    exact (gEnd_of r4 c2 r5 H4 Ec2 E62).
  Qed.

  Definition okRes (start : Z) (p : Z * Z) : Prop := p = nullSpan \/ (fst p = start /\ gEnd (snd p)).

  Lemma ht_pi_ok : forall fuel r start, RJ r -> okRes start (ht_pi fuel r start).
  Proof.
    induction fuel as [|f IH]; intros r start H; [left; reflexivity|]. cbn [ht_pi].
    destruct (negb (cur r =? 63)).
    - rewrite next_current. pose proof (RJ_next r H) as Hn. destruct (next r) as [ok r1]. cbn [snd] in Hn.
      destruct (negb ok); [left; reflexivity|apply IH; exact Hn].
    - rewrite next_current. pose proof (RJ_next r H) as Hn. destruct (next r) as [ok r1]. cbn [snd] in Hn.
      destruct (negb ok || jumped r1); [left; reflexivity|].
      destruct (Z.eqb_spec (cur r1) 62) as [E|E]; [|apply IH; exact Hn].
      right. cbn [fst snd]. split; [reflexivity|apply gEnd_cur; assumption].
  Qed.
  Lemma ht_until_ok : forall fuel r r5, RJ r -> ht_until fuel r 62 = Some r5 -> gEnd (r_pos r5 + 1).
  Proof.
    induction fuel as [|f IH]; intros r r5 H E; [discriminate|]. cbn [ht_until] in E.
    destruct (Z.eqb_spec (cur r) 62) as [Ec|Ec].
    - inversion E; subst r5. destruct (current_fields r) as (_ & P & _). cbv zeta in P. rewrite P. apply gEnd_cur; assumption.
    - rewrite next_current in E. pose proof (RJ_next r H) as Hn. destruct (next r) as [ok r1]. cbn [snd] in Hn.
      destruct (negb ok); [discriminate|]. eapply IH; eassumption.
  Qed.

  Lemma rem3 r a b c : RJ r -> hasBytePrefix (fst (remainingNodeBytes r)) [a; b; c] = true -> blankish a = false ->
    let r2 := snd (next (snd (next (snd (remainingNodeBytes r))))) in
    r_pos r2 = r_pos r + 2 /\ at_ src (r_pos r + 2) = c.
  Proof.
    intros (Hs & Hok) Hp Ha. cbv zeta. unfold remainingNodeBytes in *.
    destruct (curNode_cases r) as [E|(pre & n & rest & E1 & E & E3)]; rewrite E in *; cbn [fst snd] in *; [discriminate|].
    destruct (hasBytePrefix_cons _ _ _ Hp) as (t1 & Et1 & Hp1). destruct (hasBytePrefix_cons _ _ _ Hp1) as (t2 & Et2 & Hp2).
    destruct (hasBytePrefix_cons _ _ _ Hp2) as (t3 & Et3 & _). subst t1 t2.
    pose proof (spanHas_range _ _ E3) as (R1 & R2 & R3). rewrite Hs in Et1.
    assert (Hlen : 3 <= len (sub src (r_pos r) (iend n))) by (rewrite Et1, !len_cons; pose proof (len_nonneg t3); lia).
    pose proof (len_sub_le src (r_pos r) (iend n)) as Hle.
    rewrite len_sub in Hlen by lia.
    assert (A0 : at_ src (r_pos r) = a).
    { replace (r_pos r) with (r_pos r + 0) by lia. rewrite <- (at_sub src (r_pos r) (iend n) 0) by lia. rewrite Et1. reflexivity. }
    assert (A2 : at_ src (r_pos r + 2) = c).
    { rewrite <- (at_sub src (r_pos r) (iend n) 2) by lia. rewrite Et1. reflexivity. }
    rewrite E1 in Hok. apply indBlank_app_r in Hok. apply indBlank_cons in Hok. destruct Hok as [D _].
    assert (Hk : ikind n <> IndentKind).
    { intros Ek. unfold indOK in D. rewrite Ek in D. change (IndentKind =? IndentKind) with true in D. cbn [negb orb] in D.
      destruct (span_forall blankish src n _ D E3) as [L|L]; [lia|]. rewrite A0 in L. congruence. }
    destruct (next_contig (withSpans r (n :: rest)) n rest eq_refl E3 Hk ltac:(cbn; lia)) as (r1 & N1 & S1 & P1 & Q1).
    rewrite N1. cbn [snd]. cbn [withSpans r_pos r_src] in P1, Q1.
    destruct (next_contig r1 n rest S1 ltac:(rewrite P1; apply spanHas_intro; lia) Hk ltac:(lia)) as (r2 & N2 & S2 & P2 & Q2).
    rewrite N2. cbn [snd]. split; [lia|exact A2].
  Qed.

  Lemma ht_comment_ok : forall fuel r start, RJ r -> okRes start (ht_comment fuel r start).
  Proof.
    induction fuel as [|f IH]; intros r start H; [left; reflexivity|]. cbn [ht_comment].
    pose proof (RJ_remaining r H) as H0. pose proof (rem3 r 45 45 62 H) as H3.
    destruct (remainingNodeBytes r) as [rem r0]. cbn [fst snd] in *.
    destruct (hasBytePrefix rem [45; 45; 62]).
    - right. cbn [fst snd]. split; [reflexivity|]. destruct (H3 eq_refl eq_refl) as (P & A). unfold gEnd. rewrite P.
      replace (r_pos r + 2 + 1 - 1) with (r_pos r + 2) by lia. exact A.
    - destruct (hasBytePrefix rem [45; 45]); [left; reflexivity|].
      pose proof (RJ_next r0 H0) as Hn. destruct (next r0) as [ok r1]. cbn [snd] in Hn.
      destruct (negb ok); [left; reflexivity|apply IH; exact Hn].
  Qed.
  Lemma ht_cdata_ok : forall fuel r start, RJ r -> okRes start (ht_cdata fuel r start).
  Proof.
    induction fuel as [|f IH]; intros r start H; [left; reflexivity|]. cbn [ht_cdata].
    pose proof (RJ_remaining r H) as H0. pose proof (rem3 r 93 93 62 H) as H3.
    destruct (remainingNodeBytes r) as [rem r0]. cbn [fst snd] in *.
    destruct (hasBytePrefix rem [93; 93; 62]).
    - right. cbn [fst snd]. split; [reflexivity|]. destruct (H3 eq_refl eq_refl) as (P & A). unfold gEnd. rewrite P.
      replace (r_pos r + 2 + 1 - 1) with (r_pos r + 2) by lia. exact A.
    - pose proof (RJ_next r0 H0) as Hn. destruct (next r0) as [ok r1]. cbn [snd] in Hn.
      destruct (negb ok); [left; reflexivity|apply IH; exact Hn].
  Qed.
  Lemma RJ_nextNok : forall n r r4, RJ r -> nextNok n r = Some r4 -> RJ r4.
  Proof.
    induction n as [|n IH]; intros r r4 H E; cbn [nextNok] in E; [inversion E; subst; exact H|].
    pose proof (RJ_next r H) as Hn. destruct (next r) as [ok r1]. cbn [snd] in Hn. destruct ok; [|discriminate].
    eapply IH; eassumption.
  Qed.

  Lemma htmlTag_rest_ok fuel r1 start : RJ r1 ->
    okRes start
      (let c := cur r1 in
       let r1 := snd (current r1) in
       if c =? 63 then
         let '(ok2, r2) := next r1 in if negb ok2 then nullSpan else ht_pi fuel r2 start
       else if c =? 33 then
         let '(ok2, r2) := next r1 in
         if negb ok2 || jumped r2 then nullSpan else
         let '(rem, r3) := remainingNodeBytes r2 in
         if (0 <? len rem) && isASCIILetter (at_ rem 0) then
           let r4 := snd (next r3) in
           match ht_until fuel r4 62 with Some r5 => (start, r_pos r5 + 1) | None => nullSpan end
         else if hasBytePrefix rem [45; 45] then
           let r4 := snd (next r3) in
           let '(ok3, r5) := next r4 in
           if negb ok3 || jumped r5 then nullSpan else
           let '(ts, r6) := remainingNodeBytes r5 in
           if hasBytePrefix ts [62] || hasBytePrefix ts [45; 62] then nullSpan else ht_comment fuel r6 start
         else if hasBytePrefix rem [91;67;68;65;84;65;91] then
           match nextNok 7 r3 with Some r4 => ht_cdata fuel r4 start | None => nullSpan end
         else nullSpan
       else if c =? 47 then
         let '(e, _) := parseHTMLClosingTag fuel r1 in if e <? 0 then nullSpan else (start, e)
       else
         let '(e, _) := parseHTMLOpenTag fuel r1 in if e <? 0 then nullSpan else (start, e)).
  Proof.
    intros H. cbv zeta. pose proof (RJ_current r1 H) as Hc. set (r1' := snd (current r1)) in *.
    destruct (cur r1 =? 63).
    { pose proof (RJ_next r1' Hc) as Hn. destruct (next r1') as [ok2 r2]. cbn [snd] in Hn.
      destruct (negb ok2); [left; reflexivity|apply ht_pi_ok; exact Hn]. }
    destruct (cur r1 =? 33).
    { pose proof (RJ_next r1' Hc) as Hn. destruct (next r1') as [ok2 r2]. cbn [snd] in Hn.
      destruct (negb ok2 || jumped r2); [left; reflexivity|].
      pose proof (RJ_remaining r2 Hn) as H3. destruct (remainingNodeBytes r2) as [rem r3]. cbn [snd] in H3.
      destruct ((0 <? len rem) && isASCIILetter (at_ rem 0)).
      { pose proof (RJ_next r3 H3) as H4. destruct (ht_until fuel (snd (next r3)) 62) as [r5|] eqn:Eu; [|left; reflexivity].
        right. cbn [fst snd]. split; [reflexivity|eapply ht_until_ok; eassumption]. }
      destruct (hasBytePrefix rem [45; 45]).
      { pose proof (RJ_next r3 H3) as H4. pose proof (RJ_next _ H4) as H5. destruct (next (snd (next r3))) as [ok3 r5]. cbn [snd] in H5.
        destruct (negb ok3 || jumped r5); [left; reflexivity|].
        pose proof (RJ_remaining r5 H5) as H6. destruct (remainingNodeBytes r5) as [ts r6]. cbn [snd] in H6.
        destruct (hasBytePrefix ts [62] || hasBytePrefix ts [45; 62]); [left; reflexivity|apply ht_comment_ok; exact H6]. }
      destruct (hasBytePrefix rem [91;67;68;65;84;65;91]); [|left; reflexivity].
      destruct (nextNok 7 r3) as [r4|] eqn:En; [|left; reflexivity]. apply ht_cdata_ok. eapply RJ_nextNok; eassumption. }
    destruct (cur r1 =? 47).
    { pose proof (parseHTMLClosingTag_end fuel r1' Hc) as He. destruct (parseHTMLClosingTag fuel r1') as [e rr]. cbn [fst] in He.
      destruct (Z.ltb_spec e 0); [left; reflexivity|]. right. cbn [fst snd]. split; [reflexivity|apply He; lia]. }
    pose proof (parseHTMLOpenTag_end fuel r1' Hc) as He. destruct (parseHTMLOpenTag fuel r1') as [e rr]. cbn [fst] in He.
    destruct (Z.ltb_spec e 0); [left; reflexivity|]. right. cbn [fst snd]. split; [reflexivity|apply He; lia].
  Qed.
End HT.

Theorem parseHTMLTag_gt fuel r s e :
  indBlank (r_src r) (r_spans r) = true ->
  parseHTMLTag fuel r = (s, e) -> spanValid (s, e) = true ->
  s = r_pos r /\ at_ (r_src r) s = 60 /\ at_ (r_src r) (e - 1) = 62 /\ 0 <= s.
Proof.
  intros Hok H Hv. set (src := r_src r) in *.
  assert (HRJ : RJ src r) by (split; [reflexivity|exact Hok]).
  unfold parseHTMLTag in H.
  destruct (Z.eqb_spec (cur r) 60) as [Ec|Ec]; cbn [negb] in H; [|inversion H; subst; discriminate].
  destruct (cur_src r 60 Ec eq_refl) as (A60 & Hpos & _). fold src in A60, Hpos.
  rewrite next_current in H. pose proof (RJ_next src r HRJ) as HR1. destruct (next r) as [ok r1] eqn:En. cbn [snd] in HR1.
  destruct ok; cbn [negb orb] in H; [|inversion H; subst; discriminate].
  destruct (jumped r1); [inversion H; subst; discriminate|].
  pose proof (htmlTag_rest_ok src fuel r1 (r_pos r) HR1) as Hres. cbv zeta in Hres.
  cbv zeta in H.
  rewrite H in Hres. destruct Hres as [Hn|(Hs & Hg)].
  - inversion Hn; subst. discriminate.
  - cbn [fst snd] in *. subst s. split; [reflexivity|]. split; [exact A60|]. split; [exact Hg|lia].
Qed.
Print Assumptions parseHTMLTag_gt.
