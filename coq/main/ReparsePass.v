From Coq Require Import List ZArith Lia Bool.
Import ListNotations.
Require Import Base Tree Rdr Link Collect Html Recog LP Rules Starts Driver Render L2Kind L2CC GramDefs GramTree GramLP GramLP2 GramLP3 GramLP4.
Require L2Kind2.
Require Import TDefs TInv TDesc TStarts BSLine1 TilLP1 TilLP3 TilLP6 TilLP7.
Open Scope Z_scope.

(* T50 continuation, file 6: a generic pass.  A property J of the tree and the container that is kept by the primitives of the
   line parser is kept by the eight block starts, tryStarts and the opening loop (together with GI and the cursor bounds CU). *)
Definition startK (K : Z) : Prop :=
  K = BlockQuoteKind \/ K = ATXHeadingKind \/ K = FencedCodeBlockKind \/ K = HTMLBlockKind \/ K = ThematicBreakKind \/
  K = ListKind \/ K = ListItemKind \/ K = ListMarkerKind \/ K = IndentedCodeBlockKind.
Definition endK (K : Z) : Prop := K = ATXHeadingKind \/ K = HTMLBlockKind \/ K = ThematicBreakKind \/ K = ListMarkerKind.
Definition keepsShape (f : block -> block) : Prop :=
  forall b, bkind (f b) = bkind b /\ bkids (f b) = bkids b /\ isOpen (f b) = isOpen b.

Lemma CU_fr p p' : fr p p' -> CU p -> CU p'.
Proof. intros (A & B & C & D) [H1 H2]. specialize (D H2). unfold CU. rewrite B, C. split; [exact H1|lia]. Qed.
Lemma keeps_set_bn v : keepsShape (fun b => set_bn b v). Proof. intros b; destruct b; repeat split. Qed.
Lemma keeps_set_bchar v : keepsShape (fun b => set_bchar b v). Proof. intros b; destruct b; repeat split. Qed.
Lemma keeps_set_bindent v : keepsShape (fun b => set_bindent b v). Proof. intros b; destruct b; repeat split. Qed.
Lemma keeps_set_bik (g : block -> list inline) : keepsShape (fun b => set_bik b (g b)). Proof. intros b; destruct b; repeat split. Qed.
Lemma keeps_bn_bchar v w : keepsShape (fun b => set_bn (set_bchar b v) w). Proof. intros b; destruct b; repeat split. Qed.

(* the part of startListItem after the list has been found or opened *)
Definition itemTail (p2 : lp) (delim ind mend : Z) : lp :=
  let p := updCont (openBlock p2 ListItemKind) (fun b => set_bchar b delim) in
  let p := openBlock p ListMarkerKind in
  let p := advance p mend in
  let p := endBlock p in
  if isRestBlank p then
    consumeLine (updCont p (fun b => set_bindent b (ind + mend + 1)))
  else
    let padding := indent p in
    let '(padding, p) :=
      if padding <? 1 then (1, p)
      else if 4 <? padding then (1, consumeIndent p 1)
      else (padding, consumeIndent p padding) in
    updCont p (fun b => set_bindent b (ind + mend + padding)).

Section Pass.
  Variable J : lp -> Prop.
  Hypothesis J_same : forall p p', same_tree p p' -> J p -> J p'.
  Hypothesis J_upd : forall p f, J p -> keepsShape f -> J (updCont p f).
  Hypothesis J_open : forall p K, ccP p -> J p -> st_open p -> startK K ->
    (K <> ListItemKind \/ canContain (containerKind p) K = true) -> J (openBlock p K).
  Hypothesis J_end : forall p, GI p -> CU p -> J p -> endK (containerKind p) -> J (endBlock p).
  Hypothesis J_setext : forall p, GI p -> CU p -> J p -> J (startSetext p).

  Definition Iv (p : lp) : Prop := GI p /\ CU p /\ J p.

  Lemma J_cstep p p' : cstep p p' -> J p -> J p'.
  Proof. intros (A & _) H. eapply J_same; [exact A|exact H]. Qed.
  Lemma J_opened p : J p -> J (if state p =? stOpening then withState p stOpenMatched else p).
  Proof. apply J_cstep, cstep_opened. Qed.

  Lemma J_collectInline p kind n : J p -> J (collectInline p kind n).
  Proof.
    intros H. unfold collectInline. destruct (_ =? stDescendTerminated); [eapply J_cstep; [apply cstep_panic|exact H]|]. cbv zeta.
    set (p1 := if state p =? stOpening then withState p stOpenMatched else p).
    assert (H1 : J p1) by (apply J_opened, H).
    set (p2 := if 0 <? indent p1 then _ else p1).
    assert (H2 : J p2).
    { unfold p2. destruct (0 <? indent p1); [|exact H1].
      apply (J_upd _ (fun b => set_bik b (bik b ++ [_]))); [|apply keeps_set_bik]. eapply J_cstep; [apply cstep_advance|exact H1]. }
    apply (J_upd _ (fun b => set_bik b (bik b ++ [_]))); [|apply keeps_set_bik]. eapply J_cstep; [apply cstep_advance|exact H2].
  Qed.

  Lemma I_cstep p p' : cstep p p' -> Iv p -> Iv p'.
  Proof.
    intros Hc (A & B & C). split; [|split].
    - eapply GI_same; [apply Hc|exact A].
    - eapply CU_fr; [apply fr_cstep, Hc|exact B].
    - eapply J_cstep; eassumption.
  Qed.
  Lemma I_consumeIndent p n : Iv p -> Iv (consumeIndent p n). Proof. apply I_cstep, cstep_consumeIndent. Qed.
  Lemma I_advance p n : Iv p -> Iv (advance p n). Proof. apply I_cstep, cstep_advance. Qed.
  Lemma I_consumeLine p : Iv p -> Iv (consumeLine p). Proof. apply I_cstep, cstep_consumeLine. Qed.
  Lemma I_endBlock p : Iv p -> endK (containerKind p) -> Iv (endBlock p).
  Proof.
    intros (A & B & C) Hk. split; [apply GI_endBlock, A|]. split; [eapply CU_fr; [apply fr_endBlock|exact B]|]. apply J_end; assumption.
  Qed.
  Lemma I_bindent p v : Iv p -> Iv (updCont p (fun b => set_bindent b v)).
  Proof. intros (A & B & C). split; [apply GI_updCont_bindent, A|]. split; [exact B|]. apply J_upd; [exact C|apply keeps_set_bindent]. Qed.

  (* openBlock followed by the initialisation of the new block *)
  Lemma I_openBlock_init p K g : st_open p -> Iv p -> startK K -> K <> ListMarkerKind -> K <> ListItemKind -> keepsShape g ->
    (forall pos, bkind (g (newBlock K pos)) = K /\ cc (g (newBlock K pos)) = true /\
                 gb (g (newBlock K pos)) = true /\ isOpen (g (newBlock K pos)) = true) ->
    Iv (updCont (openBlock p K) g).
  Proof.
    intros Hs (A & B & C) HK N1 N2 Hg Hinit. split; [apply GI_openBlock_init; assumption|].
    split; [apply CU_updCont; eapply CU_fr; [apply fr_openBlock|exact B]|].
    apply J_upd; [|exact Hg]. apply J_open; [apply A|exact C|exact Hs|exact HK|left; exact N2].
  Qed.
  Lemma keeps_id : keepsShape (fun b => b). Proof. intros b. repeat split. Qed.
  Lemma updCont_id p : GI p -> updCont p (fun b => b) = p.
  Proof.
    intros H. destruct (GI_wf p H) as (x & Hx & _). unfold updCont.
    assert (E : updAt (cdepth p) (fun b => b) (root p) = root p).
    { clear H. revert Hx. generalize (root p) as r. induction (cdepth p) as [|d IH]; intros r Hx; [reflexivity|].
      cbn [updAt]. cbn [getAt] in Hx. destruct (lastBlock r) as [c|] eqn:El; [|reflexivity]. rewrite (IH c Hx).
      apply lastBlock_some in El. destruct El as (pre & El). unfold set_lastBlocks. destruct r. cbn [bkids set_bkids] in *. rewrite El, removelast_snoc. reflexivity. }
    rewrite E. destruct p; reflexivity.
  Qed.

  Lemma I_openBlock_plain p K : st_open p -> Iv p -> startK K -> K <> ListMarkerKind -> K <> ListItemKind ->
    (forall pos, bkind (newBlock K pos) = K /\ cc (newBlock K pos) = true /\ gb (newBlock K pos) = true /\ isOpen (newBlock K pos) = true) ->
    Iv (openBlock p K).
  Proof.
    intros Hs H HK N1 N2 Hn.
    pose proof (I_openBlock_init p K (fun b => b) Hs H HK N1 N2 keeps_id Hn) as Hq.
    rewrite updCont_id in Hq; [exact Hq|]. apply GI_openBlock; [apply H|exact N1|exact N2|intros pos; apply Hn].
  Qed.

  Definition startOKi (f : lp -> lp) : Prop := forall p, st_open p -> Iv p -> Iv (f p).

  Lemma I_startBlockQuote : startOKi startBlockQuote.
  Proof.
    intros p Hs H. unfold startBlockQuote. cbv zeta. destruct (_ <=? _); [assumption|]. destruct (negb _); [assumption|].
    assert (H1 : Iv (openBlock (consumeIndent p (indent p)) BlockQuoteKind)).
    { apply I_openBlock_plain; [apply st_open_consumeIndent, Hs|apply I_consumeIndent, H|left; reflexivity|discriminate|discriminate|].
      intros pos; repeat split; reflexivity. }
    destruct (0 <? _); [apply I_consumeIndent|]; apply I_advance, H1.
  Qed.

  Lemma I_startThematic : startOKi startThematic.
  Proof.
    intros p Hs H. unfold startThematic. cbv zeta. destruct (_ <=? _); [assumption|]. destruct (_ <? 0); [assumption|].
    set (q := openBlock (consumeIndent p (indent p)) ThematicBreakKind).
    assert (H1 : Iv q).
    { apply I_openBlock_plain; [apply st_open_consumeIndent, Hs|apply I_consumeIndent, H|right; right; right; right; left; reflexivity|discriminate|discriminate|].
      intros pos; repeat split; reflexivity. }
    apply I_endBlock; [apply I_consumeLine, I_advance, H1|].
    assert (Ek : containerKind (consumeLine (advance q (parseThematicBreak (bytesAfterIndent p)))) = ThematicBreakKind).
    { apply containerKind_of; [apply I_consumeLine, I_advance, H1|].
      eapply ckind_same; [apply same_consumeLine|]. eapply ckind_same; [apply same_advance|]. apply ckind_openBlock, st_open_consumeIndent, Hs. }
    rewrite Ek. right; right; left; reflexivity.
  Qed.

  Lemma I_startIndented : startOKi startIndented.
  Proof.
    intros p Hs H. unfold startIndented. destruct (_ || _ || _); [assumption|].
    apply I_openBlock_plain; [apply st_open_consumeIndent, Hs|apply I_consumeIndent, H|repeat right; reflexivity|discriminate|discriminate|].
    intros pos; repeat split; reflexivity.
  Qed.

  Lemma I_collectInline p kind n K : Iv p -> ckind p K -> nikK K = false -> Iv (collectInline p kind n).
  Proof.
    intros (A & B & C) Hk Hn. split; [eapply GI_collectInline; eassumption|]. split; [apply CU_collectInline, B|apply J_collectInline, C].
  Qed.

  Lemma I_startATX : startOKi startATX.
  Proof.
    intros p Hs H. unfold startATX. cbv zeta. destruct (_ <=? _); [assumption|].
    destruct (parseATXHeading _) as [[level cs] ce] eqn:Ep. destruct (level <? 1) eqn:El; [assumption|].
    apply Z.ltb_ge in El. pose proof (atx_level_le _ _ _ _ Ep) as Hl.
    set (q1 := updCont (openBlock (consumeIndent p (indent p)) ATXHeadingKind) (fun b => set_bn b level)).
    assert (H1 : Iv q1).
    { apply I_openBlock_init; [apply st_open_consumeIndent, Hs|apply I_consumeIndent, H|right; left; reflexivity|discriminate|discriminate|apply keeps_set_bn|].
      intros pos. split; [reflexivity|]. split; [reflexivity|]. split; [apply gb_newATX; lia|reflexivity]. }
    assert (K1 : ckind q1 ATXHeadingKind).
    { apply ckind_updCont; [intros b; destruct b; reflexivity|]. apply ckind_openBlock, st_open_consumeIndent, Hs. }
    set (q3 := collectInline (advance q1 cs) UnparsedKind (ce - cs)).
    assert (H3 : Iv q3).
    { apply (I_collectInline _ _ _ ATXHeadingKind); [apply I_advance, H1| |reflexivity]. eapply ckind_same; [apply same_advance|exact K1]. }
    assert (K3 : ckind q3 ATXHeadingKind).
    { apply TStarts.ckind_collectInline. eapply ckind_same; [apply same_advance|exact K1]. }
    apply I_endBlock; [apply I_consumeLine, H3|].
    rewrite (containerKind_of (consumeLine q3) ATXHeadingKind); [left; reflexivity|apply I_consumeLine, H3|].
    eapply ckind_same; [apply same_consumeLine|exact K3].
  Qed.

  Lemma I_startFenced : startOKi startFenced.
  Proof.
    intros p Hs H. unfold startFenced. cbv zeta. destruct (_ <=? _); [assumption|].
    destruct (parseCodeFence _) as [[[fc fnn] is_] ie]. destruct (fnn =? 0); [assumption|].
    apply I_consumeLine.
    match goal with |- Iv (if _ then collectInline (advance ?Q _) _ _ else _) => set (q := Q) end.
    assert (Hq : Iv q).
    { unfold q. apply I_bindent.
      apply I_openBlock_init; [apply st_open_consumeIndent, Hs|apply I_consumeIndent, H|right; right; left; reflexivity|discriminate|discriminate|apply keeps_bn_bchar|].
      intros pos. repeat split; reflexivity. }
    destruct (spanValid _); [|exact Hq].
    eapply (I_collectInline _ _ _ FencedCodeBlockKind); [apply I_advance, Hq| |reflexivity].
    eapply ckind_same; [apply same_advance|]. unfold q.
    apply ckind_updCont; [intros b; destruct b; reflexivity|]. apply ckind_updCont; [intros b; destruct b; reflexivity|].
    apply ckind_openBlock, st_open_consumeIndent, Hs.
  Qed.

  Lemma I_startHTML : startOKi startHTML.
  Proof.
    intros p Hs H. unfold startHTML. cbv zeta. destruct (_ <=? _); [assumption|]. destruct (negb _); [assumption|].
    destruct (_ <? 0); [assumption|]. destruct (negb _ && _); [assumption|].
    match goal with |- Iv (if _ then endBlock (consumeLine (collectInline ?Q _ _)) else _) => set (q := Q) end.
    assert (Hq : Iv q).
    { unfold q. apply I_openBlock_init; [exact Hs|exact H|right; right; right; left; reflexivity|discriminate|discriminate|apply keeps_set_bn|].
      intros pos. repeat split; reflexivity. }
    assert (Kq : ckind q HTMLBlockKind).
    { unfold q. apply ckind_updCont; [intros b; destruct b; reflexivity|]. apply ckind_openBlock, Hs. }
    destruct (htmlEnd _ _); [|exact Hq].
    set (q3 := collectInline q RawHTMLKind (len (bytesAfterIndent q))).
    assert (H3 : Iv q3) by (apply (I_collectInline _ _ _ HTMLBlockKind); [exact Hq|exact Kq|reflexivity]).
    apply I_endBlock; [apply I_consumeLine, H3|].
    rewrite (containerKind_of (consumeLine q3) HTMLBlockKind); [right; left; reflexivity|apply I_consumeLine, H3|].
    eapply ckind_same; [apply same_consumeLine|]. apply TStarts.ckind_collectInline, Kq.
  Qed.

  Lemma I_startSetext : startOKi startSetext.
  Proof.
    intros p Hs (A & B & C). split; [apply GI_startSetext, A|]. split; [|apply J_setext; assumption].
    unfold startSetext. cbv zeta. destruct (negb _); [exact B|]. destruct (_ <=? _); [exact B|]. destruct (_ =? 0); [exact B|].
    destruct (negb _); [exact B|]. eapply CU_fr; [apply fr_endBlock|]. apply CU_consumeLine, CU_updCont, B.
  Qed.

  Lemma I_itemTail p2 delim ind mend : st_open p2 -> GI p2 -> CU p2 -> containerKind p2 = ListKind -> bchar (contBlock p2) = delim ->
    J (openBlock p2 ListItemKind) -> Iv (itemTail p2 delim ind mend).
  Proof.
    intros S2 G2 C2 K2 B2 J1. unfold itemTail. cbv zeta.
    set (sb := fun b : block => set_bchar b delim).
    set (q1 := openBlock p2 ListItemKind) in *. set (q := updCont q1 sb).
    assert (Hcan : canContain (containerKind p2) ListItemKind = true) by (rewrite K2; reflexivity).
    assert (Sq : st_open q) by (apply st_open_updCont, L2Kind2.st_open_openBlock, S2).
    assert (Cq : ccP q).
    { apply ccP_updCont; [apply ccP_openBlock; [apply G2|right; exact Hcan]|].
      intros x _ Hx. unfold sb. rewrite cc_set_bchar, bkind_set_bchar. tauto. }
    assert (Jq : J q) by (apply J_upd; [exact J1|apply keeps_set_bchar]).
    set (q' := openBlock q ListMarkerKind).
    assert (H3 : Iv q').
    { split; [apply (GI_openItemMarker p2 delim S2 G2 K2 B2)|]. split.
      - eapply CU_fr; [apply fr_openBlock|]. apply CU_updCont. eapply CU_fr; [apply fr_openBlock|exact C2].
      - apply J_open; [exact Cq|exact Jq|exact Sq|do 7 right; left; reflexivity|left; discriminate]. }
    assert (K3 : ckind q' ListMarkerKind) by (apply ckind_openBlock, Sq).
    match goal with |- context [endBlock ?X] => assert (H4 : Iv (endBlock X)) end.
    { apply I_endBlock; [apply I_advance, H3|].
      rewrite (containerKind_of (advance q' mend) ListMarkerKind); [repeat right; reflexivity|apply I_advance, H3|].
      eapply ckind_same; [apply same_advance|exact K3]. }
    match goal with |- context [endBlock ?X] => set (qe := endBlock X) in * end.
    destruct (isRestBlank qe); [apply I_consumeLine, I_bindent, H4|].
    destruct (indent qe <? 1); [cbv beta iota; apply I_bindent, H4|].
    destruct (4 <? indent qe); cbv beta iota; apply I_bindent, I_consumeIndent, H4.
  Qed.

  Lemma I_startListItem : startOKi startListItem.
  Proof.
    intros p Hs H. unfold startListItem. cbv zeta. destruct (_ <=? _); [assumption|].
    destruct (parseListMarker _) as [[delim n] mend]. destruct (_ || _); [assumption|]. destruct (_ && _); [assumption|].
    set (p1 := consumeIndent p (indent p)).
    assert (H1 : Iv p1) by (apply I_consumeIndent, H). assert (S1 : st_open p1) by (apply st_open_consumeIndent, Hs).
    set (cdelim := if (containerKind p1 =? ListKind) || (containerKind p1 =? ListItemKind) then bchar (contBlock p1) else 0).
    set (p2 := if negb (containerKind p1 =? ListKind) || negb (cdelim =? delim) then _ else p1).
    assert (H2 : Iv p2 /\ st_open p2 /\ containerKind p2 = ListKind /\ bchar (contBlock p2) = delim).
    { unfold p2. destruct (negb (containerKind p1 =? ListKind) || negb (cdelim =? delim)) eqn:Ec.
      - assert (Hq : Iv (updCont (openBlock p1 ListKind) (fun b => set_bchar b delim))).
        { apply I_openBlock_init; [exact S1|exact H1|do 5 right; left; reflexivity|discriminate|discriminate|apply keeps_set_bchar|].
          intros pos. repeat split; reflexivity. }
        split; [exact Hq|]. split; [apply st_open_updCont, L2Kind2.st_open_openBlock, S1|]. split.
        + apply containerKind_of; [apply Hq|].
          apply ckind_updCont; [intros b; apply bkind_set_bchar|]. apply ckind_openBlock, S1.
        + rewrite contBlock_openBlock_init; [reflexivity|exact S1|apply H1|left; discriminate].
      - apply orb_false_iff in Ec. destruct Ec as [Ec1 Ec2]. apply negb_false_iff in Ec1, Ec2.
        split; [exact H1|]. split; [exact S1|]. split; [apply Z.eqb_eq, Ec1|].
        unfold cdelim in Ec2. rewrite Ec1 in Ec2. cbn [orb] in Ec2. apply Z.eqb_eq, Ec2. }
    destruct H2 as ((G2 & C2 & J2) & S2 & K2 & B2).
    apply (I_itemTail p2 delim (indent p) mend S2 G2 C2 K2 B2).
    apply J_open; [apply G2|exact J2|exact S2|do 6 right; left; reflexivity|right; rewrite K2; reflexivity].
  Qed.

  Lemma blockStarts_oki : Forall startOKi blockStarts.
  Proof.
    unfold blockStarts.
    apply Forall_cons; [apply I_startBlockQuote|]. apply Forall_cons; [apply I_startATX|]. apply Forall_cons; [apply I_startFenced|].
    apply Forall_cons; [apply I_startHTML|]. apply Forall_cons; [apply I_startSetext|]. apply Forall_cons; [apply I_startThematic|].
    apply Forall_cons; [apply I_startListItem|]. apply Forall_cons; [apply I_startIndented|]. apply Forall_nil.
  Qed.
  Lemma I_withState p s : Iv p -> Iv (withState p s).
  Proof. apply I_cstep, cstep_withState. Qed.
  Lemma I_tryStarts : forall fs p, Forall startOKi fs -> Iv p -> Iv (snd (tryStarts fs p)).
  Proof.
    induction fs as [|f r IH]; intros p Hfs H; [assumption|]. cbn [tryStarts]. cbv zeta. inversion Hfs as [|? ? Hf Hr]; subst.
    assert (H1 : Iv (f (withState p stOpening))) by (apply Hf; [left; reflexivity|apply I_withState, H]).
    destruct (_ || _); [assumption|]. apply IH; assumption.
  Qed.
  Lemma I_opening_loop : forall fuel p, Iv p -> Iv (snd (opening_loop fuel p)).
  Proof.
    induction fuel as [|f IH]; intros p H; [assumption|]. cbn [opening_loop].
    destruct (_ || _); [|assumption].
    pose proof (I_tryStarts blockStarts p blockStarts_oki H) as H1. destruct (tryStarts blockStarts p) as [[|] p1]; cbn [snd] in H1.
    - destruct (_ =? stLineConsumed); [assumption|apply IH; assumption].
    - assumption.
  Qed.
End Pass.
