(* QInlStep0.v -- T64 (asm): the setting of the lockstep simulation of the inline tokeniser on a leaf of D and the leaf of quote D.
   Hypotheses on the entries U of the plain leaf, derived facts, the position relation, addText / addNode in terms of tr. *)
From Coq Require Import List ZArith Lia Bool.
Import ListNotations.
Require Import Base Tables Utf8 Tree Rdr Link Collect Html Recog Inl3a Inl3b Inl3c Inl3d Driver Inl3e.
Require Import ShapesBase ShapesR IFBase GI6 IS0 IS3 IS6a IS6b IS6 IFTokLoop IFTk1 IFTk2 IFTk4.
Require Import QCutsDef QCuts QIRdrBase QInlDefs QInlBytes QInlBytesEmph QInlHtml QInlTree1 QInlTree2 QInlTree3 QInlTree.
Open Scope Z_scope.

Section Setting.
  Variables (sD sQ : bytes) (sg : Z -> Z) (U : list inline).
  Hypothesis SG : SGood sD sQ sg.
  Hypothesis GP : GapSp sD sQ sg.
  Hypothesis HG : Forall (gsp sD sg U) U.
  Hypothesis HOK : spOK sD U = true.
  Hypothesis HKl : forall u, In u U -> ikids u = [].
  Hypothesis HLn : IS6b.linesOK sD U = true.
  Hypothesis HNG : NoGtBehindLast sD U.
  Set Default Proof Using "All".
  Notation tr := (QInlBytes.tr sg).
  Notation IR := (QInlDefs.IR sD sQ sg).
  Notation SL := (QInlTree1.SL sD).
  Notation eE := (QInlDefs.eE sg).
  Notation qPs := (QInlDefs.qPs sD sg).

  Lemma HW : spW sD U = true. Proof. apply spOK_spW, HOK. Qed.
  Lemma U_unp u : In u U -> ikind u = UnparsedKind.
  Proof. intros H. pose proof HG as G. rewrite Forall_forall in G. apply (G u H). Qed.
  Lemma U_gsp u : In u U -> gsp sD sg U u.
  Proof. intros H. pose proof HG as G. rewrite Forall_forall in G. apply (G u H). Qed.
  Lemma HBud0 : ibudget U = 0.
  Proof. apply ibudget_unp. rewrite Forall_forall. intros u Hu. apply U_unp, Hu. Qed.
  Lemma HBud : ibudget U <= len sD + 9.
  Proof. rewrite HBud0. pose proof (len_nonneg sD). lia. Qed.
  Lemma HUe : forallb eok U = true.
  Proof.
    apply forallb_forall. intros u Hu. unfold eok. rewrite (U_unp u Hu), (HKl u Hu). reflexivity.
  Qed.
  Lemma Hrf : len sD + ibudget U < Z.of_nat (2 * length sD + 10).
  Proof. rewrite HBud0. unfold len. lia. Qed.

  (* ---- inside an entry ---- *)
  Lemma gsp_noLF u : gsp sD sg U u -> noLFin sD (istart u) (iend u - 1).
  Proof.
    intros (A & B & C & T & _) x Hx E. pose proof (SG_lf _ _ _ SG x ltac:(lia) E) as L.
    rewrite (T x), (T (x + 1)) in L by lia. lia.
  Qed.
  Lemma tr_in u p : gsp sD sg U u -> istart u <= p < iend u -> tr u p = sg p.
  Proof. intros G H. apply (tr_sg sD sg U u G p H). Qed.
  Lemma tr_eE u a b : gsp sD sg U u -> istart u <= a -> a < b -> b <= iend u -> tr u b = eE a b.
  Proof.
    intros G Ha Hab Hb. rewrite (eE_lt sg a b Hab). replace b with (b - 1 + 1) at 1 by lia. rewrite tr_add.
    rewrite (tr_in u (b - 1) G) by lia. reflexivity.
  Qed.
  Lemma noLF_sub u a b : gsp sD sg U u -> istart u <= a -> b <= iend u -> noLFin sD a (b - 1).
  Proof. intros G Ha Hb x Hx. apply (gsp_noLF u G). lia. Qed.

  Lemma spanLen_same s : spanLen s s = 0.
  Proof. unfold spanLen. destruct (_ && _); lia. Qed.
  Lemma addNode_empty st k s kids : addNode st k s s kids = (st, -1).
  Proof. unfold addNode. rewrite spanLen_same. reflexivity. Qed.
  Lemma addText_empty st s : addText st s s = st.
  Proof. unfold addText. rewrite addNode_empty. reflexivity. Qed.
  Lemma spanLen_rev s e : e <= s -> spanLen s e = 0.
  Proof. intros H. unfold spanLen. destruct (Z.leb_spec s e); [replace e with s by lia; destruct (_ && _); lia|rewrite andb_false_r; reflexivity]. Qed.
  Lemma addText_rev st s e : e <= s -> addText st s e = st.
  Proof. intros H. unfold addText, addNode. rewrite (spanLen_rev s e H). reflexivity. Qed.

  (* addNode / addText on the two sides, positions inside one entry *)
  Lemma addNode_tr st st' u k s e kids : IR st st' -> SL (rk st) -> gsp sD sg U u -> istart u <= s -> s <= e -> e <= iend u -> SL kids ->
    IR (fst (addNode st k s e kids)) (fst (addNode st' k (tr u s) (tr u e) (qPs kids))) /\
    snd (addNode st' k (tr u s) (tr u e) (qPs kids)) = snd (addNode st k s e kids) /\
    SL (rk (fst (addNode st k s e kids))).
  Proof.
    intros HI HS G Hs Hse He HK. destruct (Z.eq_dec s e) as [<-|N].
    - rewrite !addNode_empty. cbn [fst snd]. split; [exact HI|split; [reflexivity|exact HS]].
    - pose proof G as (A & _). assert (Hn : noLFin sD s (e - 1)) by (apply (noLF_sub u); assumption || lia).
      rewrite (tr_in u s G) by lia. rewrite (tr_eE u s e G) by lia.
      destruct (IR_addNode sD sQ sg SG st st' k s e kids HI ltac:(lia) ltac:(intros _ _; exact Hn)) as [I1 I2].
      split; [exact I1|]. split; [exact I2|]. apply SL_addNode; [exact HS|exact HK|intros _ _; exact Hn].
  Qed.
  Lemma addText_tr st st' u s e : IR st st' -> SL (rk st) -> gsp sD sg U u -> istart u <= s -> s <= e -> e <= iend u ->
    IR (addText st s e) (addText st' (tr u s) (tr u e)) /\ SL (rk (addText st s e)).
  Proof.
    intros HI HS G Hs Hse He. unfold addText.
    destruct (addNode_tr st st' u TextKind s e [] HI HS G Hs Hse He ltac:(constructor)) as (A & _ & B). split; assumption.
  Qed.
End Setting.
