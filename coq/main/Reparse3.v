From Coq Require Import List ZArith Lia Bool.
Import ListNotations.
Require Import Base Tree Rdr LP Rules Starts Driver L2CC GramDefs TDefs StreamFuel SliceBase SliceReparse BlankPrefix
  ReparseLocal ReparseEof ReparseRun ReparseLineB ReparseLineL ReparseFrame ReparseShift ReparseDecomp ReparseSuffix ReparseAfter.
Open Scope Z_scope.

(* ====================================================================================================================
   T50, second round, part 2: roots from pending children.

   shift_line (ReparseShift): a line processed from no children at line start T in src
        = the line processed at line start 0 in from_ src T, every position shifted by T;
   line_decomp (ReparseDecomp): a line processed with the open root child c, closing c at its own start T
        = c closed at T (top down; up to the lastLineBlank flag at root level) ++ the line processed alone, shifted by T;
   processLine_state_irrel (ReparseSuffix): the state handed from line to line only matters when it is stDescendTerminated;
   after_lineCut / roots_after_lineCut_partial (ReparseAfter): after a root has been cut by the non-blank line that follows it,
        the pending children are the children of that line processed alone as the first line of the rest of the buffer, and
        the rest of the run (all later roots, the return code) is the run on the rest of the buffer started afresh
        (same sources and block trees; line numbers and offsets shifted).
   Hence a root that comes from pending children is a root of the re-parse of a suffix of the (padded) input, where it is
   produced by a call without pending children or again after such a cut: C16 for it reduces to C16 for that document.
   Not covered: cuts inside a paragraph that holds link reference definitions (the pending children are the rest of the
   replacement list of the paragraph, not the children of a line).
   ==================================================================================================================== *)

Corollary roots_after_shift B' bo bl f :
  allBlocks f {| buf := B'; bi := 0; boff := bo; bline := bl; pending := [] |} [] =
  (map (shiftRoot bo (bl - 1)) (fst (allBlocks f (st0 B') [])), snd (allBlocks f (st0 B') [])).
Proof.
  pose proof (allBlocks_shift bo (bl - 1) f (st0 B') []) as H. cbn [map] in H. rewrite <- H. f_equal.
  unfold shiftSt, st0. cbn [buf bi boff bline pending]. f_equal; lia.
Qed.

Lemma shiftRoot_src db dl r : rb_src (shiftRoot db dl r) = rb_src r /\ rb_blk (shiftRoot db dl r) = rb_blk r.
Proof. split; reflexivity. Qed.

Print Assumptions shift_line.
Print Assumptions line_decomp.
Print Assumptions processLine_state_irrel.
Print Assumptions suffix_nextBlock.
Print Assumptions after_lineCut.
Print Assumptions roots_after_lineCut_partial.
Print Assumptions roots_after_shift.
