From Coq Require Import List ZArith Lia Bool.
Import ListNotations.
Require Import Base Tree Driver Inl3a Inl3e EolBounded EolCRLFDefs EolCRLFFull.
Open Scope Z_scope.
Definition claim (s : bytes) : bool := beqRes (parseFull (crlf s)) (map (phiRoot s) (fst (parseFull s)), snd (parseFull s)).
Definition nocr (s : bytes) : bool := forallb (fun c => negb (c =? 13)) s.
Definition lim (s : bytes) : bool := 2 * len (crlf (Driver.pad s)) + 9 <? 999.
Definition d_para_emph_across : bytes := [42;102;111;111;10;98;97;114;42;32;97;110;100;32;42;42;115;116;114;111;110;103;10;97;99;114;111;115;115;42;42;32;108;105;110;101;115;10].
Definition d_delim_at_eol : bytes := [102;111;111;42;10;42;98;97;114;32;95;120;95;10;95;121;95;32;97;42;10;98;32;42;10;99;42;32;42;42;10;100;42;42;32;101;42;42;10].
Definition d_delim_unicode : bytes := [99;97;102;195;169;42;10;42;120;32;32;42;97;42;10;226;128;156;42;113;42;226;128;157;10;42;32;10;122;42;10].
Definition d_hard_breaks : bytes := [102;111;111;32;32;10;98;97;114;92;10;98;97;122;32;32;32;10;113;117;120;32;10;101;110;100;32;32;10].
Definition d_hard_break_end : bytes := [102;111;111;92;10;10;98;97;114;32;32;10;10;35;32;104;101;97;100;32;32;10;35;32;104;101;97;100;92;10].
Definition d_soft_breaks : bytes := [97;10;98;10;32;99;10;32;32;32;100;10;9;101;10].
Definition d_code_multi : bytes := [96;102;111;111;10;98;97;114;96;32;32;96;96;32;97;10;32;98;10;96;96;32;96;32;10;32;96;32;96;120;10].
Definition d_code_strip : bytes := [96;32;97;32;96;10;96;10;102;111;111;10;96;10;96;96;10;96;96;120;10].
Definition d_raw_html_lines : bytes := [97;32;60;98;10;99;61;34;100;10;101;34;62;32;60;33;45;45;32;99;111;109;10;109;101;110;116;32;45;45;62;32;60;63;112;105;10;120;63;62;32;60;33;91;67;68;65;84;65;91;32;97;10;98;32;93;93;62;32;60;33;68;79;67;10;120;62;32;60;47;98;10;62;32;122;10].
Definition d_raw_html_bad : bytes := [60;97;10;10;98;62;32;60;33;45;45;62;32;60;33;45;45;45;62;32;60;33;45;45;32;97;32;45;45;32;98;32;45;45;62;32;60;97;32;98;61;39;120;10;121;39;47;62;32;60;97;10;47;62;10].
Definition d_autolinks : bytes := [60;104;116;116;112;58;47;47;97;46;98;47;99;62;32;60;104;116;116;112;58;47;47;97;10;98;62;32;60;102;111;111;64;98;97;114;46;98;97;122;62;32;60;102;111;111;64;98;97;114;10;46;98;97;122;62;32;60;97;43;98;58;99;10;62;10].
Definition d_inline_link_nl : bytes := [91;97;93;40;10;47;117;114;108;10;34;116;105;116;108;101;10;109;111;114;101;34;10;41;32;91;98;93;40;47;117;10;39;120;39;41;32;91;99;93;40;60;47;97;10;98;62;41;32;91;100;93;40;47;117;32;34;116;10;10;120;34;41;10].
Definition d_ref_link_multiline : bytes := [91;102;111;111;10;98;97;114;93;58;32;47;117;114;108;32;34;116;34;10;10;91;102;111;111;10;98;97;114;93;32;91;120;93;91;70;111;111;10;32;32;66;65;82;93;32;91;102;111;111;10;98;97;114;93;91;93;32;91;102;111;111;32;32;32;98;97;114;93;10].
Definition d_ref_defs : bytes := [91;97;93;58;10;47;117;10;39;116;105;116;10;108;101;39;10;91;98;93;58;32;47;118;10;10;91;97;93;32;91;98;93;32;33;91;97;93;32;33;91;98;93;91;97;93;10].
Definition d_entities_eol : bytes := [38;97;109;112;59;10;38;97;109;112;10;59;32;38;35;49;48;59;10;38;35;120;10;65;59;32;38;99;111;112;121;59;92;10;92;38;97;109;112;59;32;92;10].
Definition d_escapes_eol : bytes := [97;92;42;98;92;10;99;32;92;92;10;100;92;10].
Definition d_images : bytes := [33;91;97;108;116;10;116;101;120;116;93;40;47;117;10;34;116;34;41;32;33;91;120;32;42;121;10;122;42;93;91;97;93;10;10;91;97;93;58;32;47;105;109;103;10].
Definition d_headings : bytes := [35;32;97;32;42;98;42;32;96;99;96;10;35;35;32;100;32;32;10;83;101;116;101;120;116;32;42;120;10;121;42;10;61;61;61;10;122;32;32;10;119;10;45;45;45;10].
Definition d_blockquote_list : bytes := [62;32;42;97;10;62;32;98;42;32;96;99;10;62;32;100;96;10;10;45;32;120;32;32;10;32;32;121;10;45;32;91;108;93;40;10;32;32;47;117;41;10;49;46;32;97;92;10;32;32;32;98;10].
Definition d_code_blocks : bytes := [32;32;32;32;105;110;100;32;42;97;42;10;32;32;32;32;98;10;10;96;96;96;120;10;42;97;42;10;96;98;10;96;96;96;10;126;126;126;10;60;98;62;10;126;126;126;10].
Definition d_html_block : bytes := [60;100;105;118;62;10;42;97;42;10;60;47;100;105;118;62;10;10;60;33;45;45;32;120;10;121;32;45;45;62;10;10;60;63;112;104;112;10;122;32;63;62;10].
Definition d_thematic_misc : bytes := [42;42;42;10;45;32;45;32;45;10;95;95;95;10;10;42;32;97;10;42;32;98;10;10;43;32;99;10].
Definition d_nested_links : bytes := [91;97;32;91;98;93;40;47;120;10;41;32;99;93;40;47;121;41;32;91;42;101;10;91;102;93;42;93;40;47;122;41;32;33;91;91;105;93;40;47;106;10;41;93;40;47;107;41;10].
Definition d_brackets_fail : bytes := [91;97;10;98;93;32;93;32;91;32;33;91;32;91;120;93;40;121;10;10;122;32;91;113;93;40;32;91;114;93;91;10;115;93;10].
Definition d_emph_nesting : bytes := [42;42;42;97;10;98;42;42;32;99;42;10;42;97;32;42;42;98;10;99;42;42;42;10;95;95;97;95;98;95;95;32;95;99;10;95;32;100;95;10].
Definition d_tabs_nul : bytes := [97;9;42;98;42;9;10;9;99;0;100;32;96;101;0;10;102;96;10].
Definition d_lazy_cont : bytes := [62;32;97;10;98;32;32;10;99;92;10;100;10;45;32;101;10;102;10].
Definition d_space_runs : bytes := [97;32;10;98;32;32;10;32;32;10;99;32;32;32;10;10;100;32;32;10;32;32;101;10].
Definition d_link_title_paren : bytes := [91;97;93;40;47;117;32;40;116;10;120;41;41;32;91;98;93;40;60;62;32;39;116;39;41;32;91;99;93;40;47;117;9;10;9;34;120;34;32;32;10;32;41;10].
Definition d_mixed_big : bytes := [35;32;84;10;10;80;97;114;97;32;42;119;105;116;104;10;101;109;112;104;42;32;97;110;100;32;96;99;111;100;101;10;115;112;97;110;96;32;97;110;100;32;60;115;112;97;110;10;99;108;97;115;115;61;120;62;32;97;110;100;32;91;108;105;110;107;93;91;114;10;114;93;32;111;107;32;32;10;110;101;120;116;92;10;108;97;115;116;10;10;91;114;32;114;93;58;32;47;117;10;10;62;32;113;10;62;32;114;10;10;49;46;32;111;110;101;10;50;46;32;116;119;111;10].
Definition d_no_final_nl : bytes := [97;32;42;98;10;99;42;32;96;100;10;101;96;32;32;10;102].
Definition d_only_eols : bytes := [10;10;10].
Definition d_empty : bytes := [].
Definition d_ws_collapse_label : bytes := [91;97;10;32;10;32;98;93;10;10;91;65;9;98;10;32;32;99;93;58;32;47;117;10;10;91;97;9;66;10;99;93;10].
Definition d_hb_many : bytes := [97;32;32;10;32;32;10;98;92;10;92;10;99;32;32;10].
Definition d_code_eol_ends : bytes := [96;10;96;97;10;10;96;97;32;10;32;98;96;10;10;96;32;10;96;10].
Definition d_tab_eol : bytes := [97;9;10;98;9;9;10;99;32;9;32;10;96;120;9;10;121;96;10].
Definition d_html_attr_lines : bytes := [60;97;10;32;104;114;101;102;61;39;120;39;10;32;116;105;116;108;101;61;34;121;10;122;34;10;62;116;60;47;97;10;62;10].
Definition d_label_inner_ws : bytes := [91;120;93;58;32;47;117;10;10;91;32;10;32;120;32;10;32;93;32;91;121;93;91;32;10;120;10;32;93;10].
Definition allDocs : list bytes := [d_para_emph_across; d_delim_at_eol; d_delim_unicode; d_hard_breaks; d_hard_break_end; d_soft_breaks; d_code_multi; d_code_strip; d_raw_html_lines; d_raw_html_bad; d_autolinks; d_inline_link_nl; d_ref_link_multiline; d_ref_defs; d_entities_eol; d_escapes_eol; d_images; d_headings; d_blockquote_list; d_code_blocks; d_html_block; d_thematic_misc; d_nested_links; d_brackets_fail; d_emph_nesting; d_tabs_nul; d_lazy_cont; d_space_runs; d_link_title_paren; d_mixed_big; d_no_final_nl; d_only_eols; d_empty; d_ws_collapse_label; d_hb_many; d_code_eol_ends; d_tab_eol; d_html_attr_lines; d_label_inner_ws].
Lemma allDocs_nocr : forallb nocr allDocs = true. Proof. vm_compute. reflexivity. Qed.
Eval vm_compute in (map lim allDocs).
Eval vm_compute in (map claim allDocs).
Lemma allDocs_lim : forallb lim allDocs = true. Proof. vm_compute. reflexivity. Qed.
Lemma parseFull_crlf_tested : forallb claim allDocs = true. Proof. vm_compute. reflexivity. Qed.
(* the documents really change: crlf s <> s on every document with a line ending *)
Eval vm_compute in (map (fun s => negb (beqL Z.eqb (crlf s) s)) allDocs).
(* the theorem instantiated on one of them *)
Example parseFull_crlf_mixed_big : parseFull (crlf d_mixed_big) = (map (phiRoot d_mixed_big) (fst (parseFull d_mixed_big)), snd (parseFull d_mixed_big)).
Proof. apply parseFull_crlf_limit; [intros H; vm_compute in H; repeat (destruct H as [H|H]; [discriminate H|]); exact H|vm_compute; reflexivity]. Qed.
Print Assumptions parseFull_crlf_tested.
Print Assumptions parseFull_crlf_mixed_big.
