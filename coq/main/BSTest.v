From Coq Require Import List ZArith Lia Bool String Ascii.
Import ListNotations.
Require Import Base Tree LP Driver Inl3e BSDef.
Open Scope Z_scope.

Fixpoint bs (s : string) : bytes :=
  match s with EmptyString => [] | String c r => Z.of_nat (nat_of_ascii c) :: bs r end.
Definition nl := String (ascii_of_nat 10) EmptyString.
Definition tab := String (ascii_of_nat 9) EmptyString.
Definition cr := String (ascii_of_nat 13) EmptyString.
Definition chk (input : bytes) : bool * Z :=
  let '(rs, code) := parseBlocks input in
  (forallb (fun r => bspans (rb_blk r) && (0 <=? bstart (rb_blk r))) rs, code).
Definition chkF (input : bytes) : bool * Z :=
  let '(rs, code) := parseFull input in
  (forallb (fun r => bspans (rb_blk r) && (0 <=? bstart (rb_blk r))) rs, code).
Fixpoint skel (b : block) : list Z := 
  match b with Blk k s e bk _ _ _ _ _ _ => [k; s; e] ++ [-100] ++ flat_map skel bk ++ [-200] end.
Definition sk (input : bytes) := map (fun r => skel (rb_blk r)) (fst (parseBlocks input)).
Open Scope string_scope.
Definition t1 := bs ("- a" ++ nl ++ "- b" ++ nl ++ nl ++ "  c" ++ nl ++ "1. x" ++ nl ++ "   - y" ++ nl).
Definition t2 := bs ("> a" ++ nl ++ "> > b" ++ nl ++ "c" ++ nl ++ nl ++ "> d" ++ nl).
Definition t3 := bs ("[foo]: /url 'title'" ++ nl ++ "[bar]: /u2" ++ nl ++ "text" ++ nl ++ "more" ++ nl).
Definition t4 := bs ("Head" ++ nl ++ "====" ++ nl ++ "[a]: /b" ++ nl ++ "h2" ++ nl ++ "---" ++ nl).
Definition t5 := bs ("```go" ++ nl ++ "x" ++ nl ++ nl ++ "y").
Definition t6 := bs (tab ++ "code" ++ nl ++ tab ++ tab ++ "c2" ++ nl ++ "- a" ++ nl ++ tab ++ "b" ++ nl ++ ">" ++ tab ++ "q" ++ nl).
Definition t7 := bs ("[a]: /b" ++ nl ++ "===" ++ nl ++ "x").
Definition t8 := bs ("<div>" ++ nl ++ "a" ++ nl ++ nl ++ "# h #" ++ nl ++ "***" ++ nl ++ "    i" ++ nl ++ nl ++ nl ++ "p").
Definition t9 := bs ("- [a]: /b" ++ nl ++ "  c" ++ nl ++ "  ===" ++ nl ++ "> [x]: /y" ++ cr ++ nl ++ "> [z]: /w 'tt" ++ nl ++ "> t'" ++ nl ++ "lazy" ++ nl).
Definition t10 := bs ("a" ++ String (ascii_of_nat 0) "" ++ "b" ++ nl ++ "- " ++ nl ++ "  x" ++ nl ++ "-" ++ nl ++ nl ++ "  foo" ++ nl).
Definition t11 := bs ("[a]: /b" ++ nl ++ "[c]: /d" ++ nl ++ "===" ++ nl).
Definition t12 := bs ("  [a]: /b" ++ nl ++ "  [c]" ++ nl ++ "===" ++ nl).
Definition t13 := bs ("1. a" ++ nl ++ nl ++ "   b" ++ nl ++ "2. c" ++ nl ++ "- x" ++ nl ++ "* y" ++ nl ++ "  > z" ++ nl ++ "  > w").
Definition t14 := bs ("[a]: /b 'x" ++ nl ++ "y" ++ nl ++ nl).
Definition t15 := bs ("[a]:" ++ nl ++ "/b" ++ nl ++ "'t'" ++ nl ++ "x" ++ nl ++ "[c]: /d" ++ nl).
Definition all := [t1;t2;t3;t4;t5;t6;t7;t8;t9;t10;t11;t12;t13;t14;t15].
Eval vm_compute in map chk all.
Eval vm_compute in map chkF all.
Eval vm_compute in sk t3.
Eval vm_compute in sk t4.
Eval vm_compute in sk t1.
Fixpoint allClosed (b : block) : bool := match b with Blk _ _ e bk _ _ _ _ _ _ => (0 <=? e)%Z && forallb allClosed bk end.
Definition chkC (input : bytes) : bool := forallb (fun r => allClosed (rb_blk r)) (fst (parseBlocks input)).
Definition t16 := bs ("[a]: /b  x" ++ nl ++ "[c]: /d 'unterminated" ++ nl ++ nl ++ "[e]: <f> (" ++ nl).
Definition t17 := bs ("> [a]: /b" ++ nl ++ "> ===" ++ nl ++ "- [x]: /y" ++ nl ++ "  [z]" ++ nl ++ "  ---" ++ nl ++ tab ++ "z").
Definition t18 := bs ("[a]: /b" ++ cr ++ "[c]: /d 't'" ++ cr ++ nl ++ "  " ++ nl ++ "[e]: /f" ++ nl ++ "'t' x" ++ nl).
Eval vm_compute in map chk [t16;t17;t18].
Eval vm_compute in map chkC (all ++ [t16;t17;t18]).
Eval vm_compute in sk t16.
