From Coq Require Import List ZArith Lia Bool.
Import ListNotations.
Require Import Base Tree Rdr Link Leaf3e RdrBound BSRdr BSRdr2.
Require ShapesR.
Open Scope Z_scope.

(* ================================================================================================
   T52, part 2 (ExRdr): the multi-line reader over a span list that is sorted and whose spans are non-empty, start at a
   non-negative offset and end inside the source.  On such a list the reader is never "lost" (NG), and the spans the link
   scanners report are ordered:  label  <=  destination  <=  end of line  (<= title <= end of line).
   Builds on BSRdr (good / adv / LB: the reader only moves forward) and ShapesR (case analyses of next).
   ================================================================================================ *)

Definition spL (L : Z) (u : inline) : Prop := 0 <= istart u /\ istart u < iend u /\ iend u <= L.
Definition NG (r : reader) : Prop := fst (curNode r) <> None \/ r_pos r <= r_prev r + 1.
Definition R (r : reader) : Prop := good r /\ Forall (spL (len (r_src r))) (r_spans r) /\ NG r.

Lemma Forall_app_r {A} (P : A -> Prop) a b : Forall P (a ++ b) -> Forall P b.
Proof. intros H. apply Forall_app in H. tauto. Qed.

Lemma curNode_src r : r_src (snd (curNode r)) = r_src r.
Proof. apply (ShapesR.curNode_fields r). Qed.
Lemma curNode_spans r : exists pre, r_spans r = pre ++ r_spans (snd (curNode r)) \/ r_spans (snd (curNode r)) = [].
Proof.
  destruct (ShapesR.curNode_cases r) as [E|(pre & n & rest & E1 & E & E3)]; rewrite E; cbn [snd ShapesR.withSpans r_spans].
  - exists []. right. reflexivity.
  - exists pre. left. exact E1.
Qed.
Lemma Forall_curNode (P : inline -> Prop) r : Forall P (r_spans r) -> Forall P (r_spans (snd (curNode r))).
Proof.
  intros H. destruct (curNode_spans r) as (pre & [E|E]); [rewrite E in H; eapply Forall_app_r; exact H|rewrite E; constructor].
Qed.

Lemma R_curNode r : R r -> R (snd (curNode r)).
Proof.
  intros (Hg & Hf & Hn). destruct (good_curNode r Hg) as [G _]. split; [exact G|]. split.
  - rewrite curNode_src. apply Forall_curNode, Hf.
  - unfold NG. destruct (curNode_pos r) as [Ep Ev]. rewrite Ep, Ev, curNode_idem. exact Hn.
Qed.
Lemma R_current r : R r -> R (snd (current r)).
Proof. intros H. destruct (current_shape r) as [E|E]; rewrite E; [exact H|apply R_curNode, H]. Qed.

Lemma next_none r : fst (curNode r) = None -> next r = (false, snd (curNode r)).
Proof. unfold next. destruct (curNode r) as [n r']. cbn [fst snd]. intros ->. reflexivity. Qed.

Lemma spL_has L j : spL L j -> spanHas j (istart j) = true.
Proof. intros (A & B & C). apply ShapesR.spanHas_intro; lia. Qed.

Lemma R_next r : R r -> R (snd (next r)).
Proof.
  intros HR. pose proof HR as (Hg & Hf & Hn). destruct (good_next r Hg) as (G & _ & _).
  destruct (next r) as [ok r1] eqn:En. cbn [snd] in *. split; [exact G|]. destruct ok.
  - destruct (ShapesR.next_true r r1 En) as (node & rest & Ec & Hh & (pre & Epre) & Es & Ep & Hcase).
    rewrite Es. rewrite Epre in Hf. apply Forall_app_r in Hf.
    destruct Hcase as [(Ek & Epos & Esp)|[(Ek & Epos & Elt & Esp)|(pre' & j & rest' & Er & Esp & Epos & Ecase)]].
    + split; [rewrite Esp; exact Hf|]. right. lia.
    + split; [rewrite Esp; exact Hf|]. right. lia.
    + assert (Hj : Forall (spL (len (r_src r))) (j :: rest')).
      { pose proof (Forall_inv_tail Hf) as Hr. rewrite Er in Hr. eapply Forall_app_r; exact Hr. }
      split; [rewrite Esp; exact Hj|]. left. rewrite (ShapesR.curNode_head j rest' r1 Esp); [discriminate|].
      rewrite Epos. eapply spL_has. exact (Forall_inv Hj).
  - destruct (fst (curNode r)) as [node|] eqn:Ecn.
    + destruct (ShapesR.next_false r r1 En) as (E1 & E2 & E3). destruct (E3 node Ecn) as (A & B & _).
      split; [rewrite E1; constructor|right; lia].
    + rewrite (next_none r Ecn) in En. inversion En; subst r1. apply R_curNode in HR. destruct HR as (_ & A & B). tauto.
Qed.

(* x is a position the reader has passed, in a way that survives every later step *)
Definition T (x : Z) (r : reader) : Prop := R r /\ x <= r_pos r /\ (x <= r_prev r + 1 \/ fst (curNode r) <> None).

Lemma T_here r : R r -> T (r_pos r) r.
Proof. intros H. split; [exact H|]. split; [lia|]. destruct H as (_ & _ & [H|H]); [right; exact H|left; exact H]. Qed.
Lemma T_le x y r : y <= x -> T x r -> T y r.
Proof. intros H (A & B & C). split; [exact A|]. split; [lia|]. destruct C as [C|C]; [left; lia|right; exact C]. Qed.
Lemma T_of_LB x r : R r -> LB x r -> T x r.
Proof. intros H [A B]. split; [exact H|]. split; [exact A|left; exact B]. Qed.

Lemma fst_curNode_current r : fst (curNode (snd (current r))) = fst (curNode r).
Proof. destruct (current_shape r) as [E|E]; rewrite E; [reflexivity|apply curNode_idem]. Qed.

Lemma T_current x r : T x r -> T x (snd (current r)).
Proof.
  intros (A & B & C). destruct (current_pos r) as [Ep Ev]. split; [apply R_current, A|]. rewrite Ep, Ev, fst_curNode_current. tauto.
Qed.
Lemma T_next_both x r : T x r -> T x (snd (next r)) /\ x <= r_prev (snd (next r)) + 1.
Proof.
  intros (A & B & C). pose proof A as (Hg & _). destruct (good_next r Hg) as (_ & [Ha _] & Hp).
  pose proof (R_next r A) as HR.
  destruct (next r) as [ok r1] eqn:En. cbn [fst snd] in *.
  assert (Hprev : x <= r_prev r1 + 1).
  { destruct ok; [rewrite (Hp eq_refl); lia|].
    destruct (fst (curNode r)) as [node|] eqn:Ecn.
    - destruct (ShapesR.next_false r r1 En) as (_ & _ & E3). destruct (E3 node Ecn) as (E & _). lia.
    - rewrite (next_none r Ecn) in En. inversion En; subst r1. destruct (curNode_pos r) as [_ Ev]. rewrite Ev.
      destruct C as [C|C]; [exact C|contradiction]. }
  split; [|exact Hprev]. split; [exact HR|]. split; [lia|left; exact Hprev].
Qed.
Lemma T_next x r : T x r -> T x (snd (next r)).
Proof. intros H. apply (T_next_both x r H). Qed.

(* ---- end of input ---- *)
Lemma nullRepl_nz v : nullRepl v <> 0.
Proof. unfold nullRepl. destruct (v =? 0); [discriminate|]. destruct (v =? 1); discriminate. Qed.
Lemma cur_zero r : R r -> fst (current r) = 0 -> fst (curNode r) = None.
Proof.
  intros (_ & Hf & _). unfold current. destruct (Z.leb_spec (len (r_src r)) (r_pos r)) as [L|L].
  - intros _. destruct (ShapesR.curNode_cases r) as [E|(pre & n & rest & E1 & E & E3)]; [rewrite E; reflexivity|]. exfalso.
    pose proof (ShapesR.spanHas_range _ _ E3) as (A & B & C). rewrite E1 in Hf. apply Forall_app_r in Hf. inversion Hf as [|? ? (P1 & P2 & P3) _]; subst. lia.
  - destruct (curNode r) as [n r']. destruct (okind n =? IndentKind); [cbn [fst]; discriminate|].
    destruct (at_ (r_src r) (r_pos r) =? 0) eqn:E0; cbn [fst]; intros H; [exfalso; eapply nullRepl_nz; exact H|].
    apply Z.eqb_neq in E0. contradiction.
Qed.
Lemma next_dead r : R r -> fst (current r) = 0 -> fst (next (snd (current r))) = false.
Proof. intros H Hc. rewrite ShapesR.next_current, (next_none r (cur_zero r H Hc)). reflexivity. Qed.

Lemma current_curNode r : fst (current (snd (curNode r))) = fst (current r).
Proof.
  unfold current. destruct (ShapesR.curNode_fields r) as (A & B & C & _). cbv zeta in A, B, C. rewrite A, B, C.
  destruct (len (r_src r) <=? r_pos r); [reflexivity|]. rewrite ShapesR.curNode_idem.
  destruct (curNode r) as [n r']. destruct (okind n =? IndentKind); [reflexivity|]. destruct (_ =? 0); reflexivity.
Qed.

(* a step from a byte that is neither the virtual space nor the end marker *)
Lemma step_T r : R r -> fst (current r) <> 0 -> fst (current r) <> 32 ->
  let r' := snd (next (snd (current r))) in
  (T (r_pos r + 1) r' \/ fst (current r') = fst (current r)) /\ (fst (next (snd (current r))) = true -> T (r_pos r + 1) r').
Proof.
  intros HR N0 N32. cbv zeta. rewrite ShapesR.next_current.
  pose proof HR as (Hg & _). pose proof (R_next r HR) as HR1.
  assert (Hni : forall n, fst (curNode r) = Some n -> ikind n <> IndentKind).
  { intros n Hn. apply (current_nonindent r N32 N0 n). rewrite fst_curNode_current. exact Hn. }
  destruct (next_nonindent r Hg Hni) as [A _]. destruct (good_next r Hg) as (_ & _ & Hp).
  destruct (next r) as [ok r1] eqn:En. cbn [fst snd] in *.
  assert (Hok : ok = true -> T (r_pos r + 1) r1).
  { intros ->. specialize (Hp eq_refl). split; [exact HR1|]. split; [lia|left; lia]. }
  split; [|exact Hok]. destruct ok; [left; apply Hok; reflexivity|].
  destruct (fst (curNode r)) as [node|] eqn:Ecn.
  - left. destruct (ShapesR.next_false r r1 En) as (_ & _ & E3). destruct (E3 node Ecn) as (E & E' & _).
    split; [exact HR1|]. split; [lia|left; lia].
  - right. rewrite (next_none r Ecn) in En. inversion En; subst r1. apply current_curNode.
Qed.

(* ================================================================ a property kept by current and next is kept by every scanner *)
Section Gen.
  Variable P : reader -> Prop.
  Hypothesis P_current : forall r, P r -> P (snd (current r)).
  Hypothesis P_next : forall r, P r -> P (snd (next r)).

  Ltac step :=
    repeat match goal with
    | |- context [current ?r] => let H := fresh "Hc" in let c := fresh "c" in let r' := fresh "r" in
        match goal with Hr : P r |- _ => pose proof (P_current r Hr) as H; destruct (current r) as [c r']; cbn [snd] in H end
    | |- context [next ?r] => let H := fresh "Hn" in let ok := fresh "ok" in let r' := fresh "r" in
        match goal with Hr : P r |- _ => pose proof (P_next r Hr) as H; destruct (next r) as [ok r']; cbn [snd] in H end
    end.

  Lemma P_skipLinkSpace_loop : forall fuel r, P r -> P (snd (skipLinkSpace_loop fuel r)).
  Proof.
    induction fuel as [|f IH]; intros r H; [exact H|]. cbn [skipLinkSpace_loop]. step.
    destruct (isSpaceTabOrLineEnding c); [|exact Hc]. step. destruct ok; [apply IH; assumption|assumption].
  Qed.
  Lemma P_skipLinkSpace fuel r : P r -> P (snd (skipLinkSpace fuel r)).
  Proof. intros H. unfold skipLinkSpace. step. destruct (c =? 0); [assumption|apply P_skipLinkSpace_loop; assumption]. Qed.
  Lemma P_skipSpacesAndTabs : forall fuel r, P r -> P (snd (skipSpacesAndTabs fuel r)).
  Proof.
    induction fuel as [|f IH]; intros r H; [exact H|]. cbn [skipSpacesAndTabs]. step.
    destruct (isSpTab c); [|exact Hc]. step. destruct ok; [apply IH; assumption|assumption].
  Qed.
  Lemma P_ll_skip : forall fuel r chars r' c', P r -> ll_skip fuel r chars = Some (r', c') -> P r'.
  Proof.
    induction fuel as [|f IH]; intros r chars r' c' H E; [discriminate|]. cbn [ll_skip] in E. revert E. step.
    destruct (negb ok); [discriminate|]. step.
    destruct (_ || _ || _); [discriminate|]. destruct (negb _); [intros E; inversion E; subst; assumption|].
    intros E. eapply IH; [|exact E]. assumption.
  Qed.
  Lemma P_ll_body : forall fuel r chars ie r' ie', P r -> ll_body fuel r chars ie = Some (r', ie') -> P r'.
  Proof.
    induction fuel as [|f IH]; intros r chars ie r' ie' H E; [discriminate|]. cbn [ll_body] in E. revert E. step.
    destruct (negb _); [intros E; inversion E; subst; assumption|].
    destruct (c =? 92).
    - step. destruct (negb ok); [discriminate|]. step. destruct (negb ok0); [discriminate|]. intros E. eapply IH; [|exact E]. assumption.
    - step. destruct (negb ok); [discriminate|]. intros E. eapply IH; [|exact E]. assumption.
  Qed.
  Lemma P_parseLinkLabel fuel r : P r -> P (snd (parseLinkLabel fuel r)).
  Proof.
    intros H. unfold parseLinkLabel. step. destruct (negb (c =? 91)); [assumption|].
    match goal with |- context [ll_skip fuel ?ra 0] => destruct (ll_skip fuel ra 0) as [[rb chars]|] eqn:E1; [|assumption] end.
    pose proof (P_ll_skip _ _ _ _ _ Hc E1) as H1.
    destruct (ll_body fuel rb chars (-1)) as [[rc ie]|] eqn:E2; [|assumption].
    pose proof (P_ll_body _ _ _ _ _ _ H1 E2) as H2. step.
    destruct (negb (_ =? 93)); [assumption|]. step. assumption.
  Qed.
  Lemma P_ld_angle : forall fuel r start, P r -> P (snd (ld_angle fuel r start)).
  Proof.
    induction fuel as [|f IH]; intros r start H; [exact H|]. cbn [ld_angle]. step.
    destruct (negb ok); [assumption|]. step. destruct (_ || _); [assumption|].
    destruct (c =? 92).
    - step. destruct (negb ok0); [assumption|]. step. destruct (_ || _); [assumption|apply IH; assumption].
    - destruct (c =? 62); [step; assumption|apply IH; assumption].
  Qed.
  Lemma P_ld_bare : forall fuel r paren, P r -> P (ld_bare fuel r paren).
  Proof.
    induction fuel as [|f IH]; intros r paren H; [exact H|]. cbn [ld_bare]. step.
    destruct (_ || _); [assumption|].
    destruct (c =? 92).
    - step. destruct (negb ok); [assumption|]. step. destruct (_ || _); [assumption|]. step. destruct ok0; [apply IH|]; assumption.
    - destruct (c =? 40); [step; destruct ok; [apply IH|]; assumption|].
      destruct (c =? 41); [destruct (_ <? 0); [assumption|]; step; destruct ok; [apply IH|]; assumption|].
      step. destruct ok; [apply IH|]; assumption.
  Qed.
  Lemma P_parseLinkDestination fuel r : P r -> P (snd (parseLinkDestination fuel r)).
  Proof.
    intros H. unfold parseLinkDestination. step. destruct (c =? 60); [apply P_ld_angle; assumption|].
    destruct (_ && _ && _); [cbn [snd]; apply P_ld_bare; assumption|assumption].
  Qed.
  Lemma P_lt_loop : forall fuel r start term, P r -> P (snd (lt_loop fuel r start term)).
  Proof.
    induction fuel as [|f IH]; intros r start term H; [exact H|]. cbn [lt_loop]. step.
    destruct (negb ok); [assumption|]. step.
    destruct (c =? 92); [step; destruct (negb ok0); [assumption|apply IH; assumption]|].
    destruct (c =? term); [step; assumption|apply IH; assumption].
  Qed.
  Lemma P_parseLinkTitle fuel r : P r -> P (snd (parseLinkTitle fuel r)).
  Proof. intros H. unfold parseLinkTitle. step. destruct (negb _); [assumption|apply P_lt_loop; assumption]. Qed.
  Lemma P_readEOL fuel r : P r -> P (snd (readEOL fuel r)).
  Proof.
    intros H. unfold readEOL. pose proof (P_skipSpacesAndTabs fuel r H) as H1.
    destruct (skipSpacesAndTabs fuel r) as [ok r1]. cbn [snd] in H1. destruct (negb ok); [assumption|]. step.
    destruct (c =? 13).
    - step. destruct (negb ok0); [assumption|]. step. destruct (c0 =? 10); [step; assumption|assumption].
    - destruct (c =? 10); [step; assumption|assumption].
  Qed.
End Gen.

(* ================================================================ instances *)
Lemma R_skipLinkSpace fuel r : R r -> R (snd (skipLinkSpace fuel r)). Proof. apply (P_skipLinkSpace R R_current R_next). Qed.
Lemma R_parseLinkLabel fuel r : R r -> R (snd (parseLinkLabel fuel r)). Proof. apply (P_parseLinkLabel R R_current R_next). Qed.
Lemma R_parseLinkDestination fuel r : R r -> R (snd (parseLinkDestination fuel r)). Proof. apply (P_parseLinkDestination R R_current R_next). Qed.
Lemma R_parseLinkTitle fuel r : R r -> R (snd (parseLinkTitle fuel r)). Proof. apply (P_parseLinkTitle R R_current R_next). Qed.
Lemma R_readEOL fuel r : R r -> R (snd (readEOL fuel r)). Proof. apply (P_readEOL R R_current R_next). Qed.
Lemma T_skipLinkSpace x fuel r : T x r -> T x (snd (skipLinkSpace fuel r)). Proof. apply (P_skipLinkSpace (T x) (T_current x) (T_next x)). Qed.
Lemma T_parseLinkDestination x fuel r : T x r -> T x (snd (parseLinkDestination fuel r)). Proof. apply (P_parseLinkDestination (T x) (T_current x) (T_next x)). Qed.
Lemma T_parseLinkTitle x fuel r : T x r -> T x (snd (parseLinkTitle fuel r)). Proof. apply (P_parseLinkTitle (T x) (T_current x) (T_next x)). Qed.
Lemma T_readEOL x fuel r : T x r -> T x (snd (readEOL fuel r)). Proof. apply (P_readEOL (T x) (T_current x) (T_next x)). Qed.

(* positions only grow *)
Definition GE (r0 r : reader) : Prop := R r /\ r_pos r0 <= r_pos r.
Lemma GE_current r0 r : GE r0 r -> GE r0 (snd (current r)).
Proof. intros [A B]. split; [apply R_current, A|]. destruct (current_pos r) as [E _]. rewrite E. exact B. Qed.
Lemma GE_next r0 r : GE r0 r -> GE r0 (snd (next r)).
Proof. intros [A B]. split; [apply R_next, A|]. destruct A as (Hg & _). destruct (good_next r Hg) as (_ & [C _] & _). lia. Qed.
Lemma GE_refl r : R r -> GE r r. Proof. intros H. split; [exact H|lia]. Qed.

(* ---- what skipSpacesAndTabs stops at ---- *)
Lemma sst_exit : forall fuel r, fst (skipSpacesAndTabs fuel r) = true ->
  exists ra, snd (skipSpacesAndTabs fuel r) = snd (current ra) /\ fst (current ra) <> 0 /\ isSpTab (fst (current ra)) = false.
Proof.
  induction fuel as [|f IH]; intros r H; [discriminate|]. cbn [skipSpacesAndTabs] in *.
  destruct (current r) as [c r1] eqn:Ec. destruct (isSpTab c) eqn:Es.
  - destruct (next r1) as [ok r2]. destruct ok; [apply IH, H|discriminate].
  - cbn [fst snd] in *. exists r. rewrite Ec. cbn [fst snd]. split; [reflexivity|]. split; [|exact Es].
    apply negb_true_iff, Z.eqb_neq in H. exact H.
Qed.

Lemma current_fix ra : current (snd (current ra)) = (fst (current ra), snd (current ra)).
Proof. rewrite ShapesR.current_current. apply surjective_pairing. Qed.

(* ---- readEOL: either it found no line ending (and the reader stands at a byte that is neither blank nor the end
        marker), or the position it reports is beyond everything the reader had passed ---- *)
Lemma readEOL_T fuel r : R r ->
  (fst (readEOL fuel r) = -1 /\
   exists ra, snd (readEOL fuel r) = snd (current ra) /\ fst (current ra) <> 0 /\ isSpaceTabOrLineEnding (fst (current ra)) = false) \/
  (forall x, T x r -> x <= fst (readEOL fuel r)).
Proof.
  intros HR. unfold readEOL.
  assert (H1 : forall x, T x r -> T x (snd (skipSpacesAndTabs fuel r))) by (intros x; apply (P_skipSpacesAndTabs (T x) (T_current x) (T_next x))).
  pose proof (sst_exit fuel r) as Hex.
  destruct (skipSpacesAndTabs fuel r) as [ok r1]. cbn [fst snd] in *. destruct ok; cbn [negb].
  2:{ right. intros x Hx. apply H1 in Hx. cbn [fst]. apply Hx. }
  destruct (Hex eq_refl) as (ra & -> & N0 & Ns). clear Hex. rewrite current_fix.
  set (c := fst (current ra)) in *. set (r1 := snd (current ra)) in *.
  destruct (Z.eqb_spec c 13) as [E13|N13].
  - right. intros x Hx. apply H1 in Hx. destruct (T_next_both x r1 Hx) as [Hx3 Hp3].
    destruct (next r1) as [ok2 r3]. cbn [snd] in *. destruct ok2; cbn [negb fst]; [|exact Hp3].
    pose proof (T_current x r3 Hx3) as Hx4. destruct (current_pos r3) as [_ Ev4].
    destruct (current r3) as [c2 r4]. cbn [snd] in *.
    destruct (c2 =? 10).
    + destruct (T_next_both x r4 Hx4) as [_ Hp5]. destruct (next r4) as [ok5 r5]. cbn [fst snd] in *. exact Hp5.
    + cbn [fst]. rewrite Ev4. exact Hp3.
  - destruct (Z.eqb_spec c 10) as [E10|N10].
    + right. intros x Hx. apply H1 in Hx. destruct (T_next_both x r1 Hx) as [_ Hp3].
      destruct (next r1) as [ok2 r3]. cbn [fst snd] in *. exact Hp3.
    + left. cbn [fst snd]. split; [reflexivity|]. exists ra. split; [reflexivity|]. split; [exact N0|].
      fold c. unfold isSpaceTabOrLineEnding. unfold isSpTab in Ns. apply orb_false_iff in Ns. destruct Ns as [A B]. rewrite A, B.
      destruct (Z.eqb_spec c 10); [contradiction|]. destruct (Z.eqb_spec c 13); [contradiction|]. reflexivity.
Qed.

(* after such a stop, skipLinkSpace succeeds *)
Lemma sls_true f ra : fst (current ra) <> 0 -> isSpaceTabOrLineEnding (fst (current ra)) = false ->
  fst (skipLinkSpace (S f) (snd (current (snd (current ra))))) = true.
Proof.
  intros N0 Ns. rewrite current_fix. cbn [snd]. unfold skipLinkSpace. rewrite current_fix.
  destruct (Z.eqb_spec (fst (current ra)) 0); [contradiction|]. cbn [skipLinkSpace_loop]. rewrite current_fix, Ns. reflexivity.
Qed.

(* ---- destination ---- *)
Lemma nonindent_after_current r : fst (current r) <> 0 -> fst (current r) <> 32 ->
  forall n, fst (curNode (snd (current r))) = Some n -> ikind n <> IndentKind.
Proof. intros A B. apply current_nonindent; assumption. Qed.

Lemma ld_angle_T : forall fuel r start, R r -> spanValid (fst (fst (ld_angle fuel r start))) = true ->
  fst (fst (fst (ld_angle fuel r start))) = start /\ T (snd (fst (fst (ld_angle fuel r start)))) (snd (ld_angle fuel r start)).
Proof.
  induction fuel as [|f IH]; intros r start HR; [cbn; discriminate|]. cbn [ld_angle].
  pose proof (R_next r HR) as H1. destruct (next r) as [ok r1]. cbn [snd] in H1.
  destruct (negb ok); [cbn; discriminate|].
  pose proof (R_current r1 H1) as H2. pose proof (nonindent_after_current r1) as Hni.
  destruct (current r1) as [c r2]. cbn [fst snd] in *.
  destruct (_ || _); [cbn; discriminate|].
  destruct (c =? 92).
  - pose proof (R_next r2 H2) as H3. destruct (next r2) as [ok2 r3]. cbn [snd] in H3. destruct (negb ok2); [cbn; discriminate|].
    pose proof (R_current r3 H3) as H4. destruct (current r3) as [c2 r4]. cbn [snd] in H4.
    destruct (_ || _); [cbn; discriminate|]. apply IH, H4.
  - destruct (Z.eqb_spec c 62) as [E|E]; [|apply IH, H2].
    pose proof (R_next r2 H2) as H3. pose proof H2 as (Hg2 & _).
    destruct (next_nonindent r2 Hg2 (Hni ltac:(lia) ltac:(lia))) as [A _].
    destruct (next r2) as [ok3 r3]. cbn [fst snd] in *. intros _. split; [reflexivity|].
    split; [exact H3|]. split; [exact A|left; lia].
Qed.
Lemma parseLinkDestination_T fuel r : R r -> spanValid (fst (fst (parseLinkDestination fuel r))) = true ->
  fst (fst (fst (parseLinkDestination fuel r))) = r_pos r /\ T (snd (fst (fst (parseLinkDestination fuel r)))) (snd (parseLinkDestination fuel r)).
Proof.
  intros HR. unfold parseLinkDestination. pose proof (R_current r HR) as H0. destruct (current_pos r) as [Ep _].
  destruct (current r) as [c r0]. cbn [snd] in *. destruct (c =? 60).
  - rewrite <- Ep. apply ld_angle_T, H0.
  - destruct (_ && _ && _); [|cbn; discriminate]. cbn [fst snd]. intros _. split; [exact Ep|].
    apply T_here. apply (P_ld_bare R R_current R_next). exact H0.
Qed.

(* ---- title ---- *)
Lemma lt_loop_T : forall fuel r start term, R r -> term <> 0 -> term <> 32 -> spanValid (fst (fst (lt_loop fuel r start term))) = true ->
  fst (fst (fst (lt_loop fuel r start term))) = start /\ T (snd (fst (fst (lt_loop fuel r start term)))) (snd (lt_loop fuel r start term)).
Proof.
  induction fuel as [|f IH]; intros r start term HR T0 T32; [cbn; discriminate|]. cbn [lt_loop].
  pose proof (R_next r HR) as H1. destruct (next r) as [ok r1]. cbn [snd] in H1.
  destruct (negb ok); [cbn; discriminate|].
  pose proof (R_current r1 H1) as H2. pose proof (nonindent_after_current r1) as Hni.
  destruct (current r1) as [c r2]. cbn [fst snd] in *.
  destruct (c =? 92).
  - pose proof (R_next r2 H2) as H3. destruct (next r2) as [ok2 r3]. cbn [snd] in H3. destruct (negb ok2); [cbn; discriminate|].
    apply IH; assumption.
  - destruct (Z.eqb_spec c term) as [E|E]; [|apply IH; assumption].
    pose proof (R_next r2 H2) as H3. pose proof H2 as (Hg2 & _).
    destruct (next_nonindent r2 Hg2 (Hni ltac:(lia) ltac:(lia))) as [A _].
    destruct (next r2) as [ok3 r3]. cbn [fst snd] in *. intros _. split; [reflexivity|].
    split; [exact H3|]. split; [exact A|left; lia].
Qed.
Lemma parseLinkTitle_T fuel r : R r -> spanValid (fst (fst (parseLinkTitle fuel r))) = true ->
  fst (fst (fst (parseLinkTitle fuel r))) = r_pos r /\ T (snd (fst (fst (parseLinkTitle fuel r)))) (snd (parseLinkTitle fuel r)).
Proof.
  intros HR. unfold parseLinkTitle. pose proof (R_current r HR) as H0. destruct (current_pos r) as [Ep _].
  destruct (current r) as [c r0]. cbn [snd] in *.
  destruct (negb ((c =? 39) || (c =? 34) || (c =? 40))) eqn:Ec; [cbn; discriminate|]. apply negb_false_iff in Ec.
  rewrite <- Ep. apply lt_loop_T; [exact H0| |].
  - destruct (Z.eqb_spec c 40); [discriminate|]. destruct (Z.eqb_spec c 39); [lia|]. destruct (Z.eqb_spec c 34); [lia|discriminate].
  - destruct (Z.eqb_spec c 40); [discriminate|]. destruct (Z.eqb_spec c 39); [lia|]. destruct (Z.eqb_spec c 34); [lia|discriminate].
Qed.

(* ---- label ---- *)
Lemma ll_skip_exit : forall fuel r chars r' c', ll_skip fuel r chars = Some (r', c') ->
  exists ra, r' = snd (current ra) /\ isSpaceTabOrLineEnding (fst (current ra)) = false /\
             fst (current ra) <> 91 /\ fst (current ra) <> 93 /\ c' < maxChars.
Proof.
  induction fuel as [|f IH]; intros r chars r' c' E; [discriminate|]. cbn [ll_skip] in E.
  destruct (next r) as [ok r1]. destruct (negb ok); [discriminate|].
  destruct (current r1) as [c r2] eqn:Ec.
  destruct (Z.leb_spec maxChars (chars + 1)) as [L|L]; [discriminate|]. cbn [orb] in E.
  destruct (Z.eqb_spec c 91) as [E91|N91]; [discriminate|]. destruct (Z.eqb_spec c 93) as [E93|N93]; [discriminate|]. cbn [orb] in E.
  destruct (isSpaceTabOrLineEnding c) eqn:Es; cbn [negb] in E.
  - apply (IH _ _ _ _ E).
  - inversion E; subst. exists r1. rewrite Ec. cbn [fst snd]. repeat split; assumption.
Qed.

Lemma isSp32 : isSpaceTabOrLineEnding 32 = true. Proof. reflexivity. Qed.

Lemma ll_body_T : forall fuel r chars ie r' ie' m, R r ->
  ((T ie r /\ m <= ie) \/
   (isSpaceTabOrLineEnding (fst (current r)) = false /\ fst (current r) <> 91 /\ fst (current r) <> 93 /\ chars < maxChars /\ m <= r_pos r + 1)) ->
  ll_body fuel r chars ie = Some (r', ie') -> T ie' r' /\ m <= ie'.
Proof.
  induction fuel as [|f IH]; intros r chars ie r' ie' m HR Hpre E; [discriminate|]. cbn [ll_body] in E.
  pose proof (step_T r HR) as Hst. pose proof (next_dead r HR) as Hdead. pose proof (R_current r HR) as H1.
  destruct (current_pos r) as [Ep1 _].
  assert (HT1 : forall x, T x r -> T x (snd (current r))) by (intros x; apply T_current).
  destruct (current r) as [c r1]. cbn [fst snd] in *.
  destruct (negb ((chars <? maxChars) && negb (c =? 91) && negb (c =? 93))) eqn:Ex.
  { inversion E; subst. destruct Hpre as [[A B]|(A & B & C & D & F)]; [split; [apply HT1, A|exact B]|].
    exfalso. apply negb_true_iff in Ex. destruct (Z.ltb_spec chars maxChars); [|lia].
    destruct (Z.eqb_spec c 91); [contradiction|]. destruct (Z.eqb_spec c 93); [contradiction|]. discriminate. }
  assert (Hm : m <= r_pos r + 1).
  { destruct Hpre as [[(_ & A & _) B]|(_ & _ & _ & _ & F)]; lia. }
  destruct (Z.eqb_spec c 92) as [E92|N92].
  - destruct (Hst ltac:(lia) ltac:(lia)) as [_ Hok].
    destruct (next r1) as [ok r2]. cbn [fst snd] in *. destruct ok; cbn [negb] in E; [|discriminate]. specialize (Hok eq_refl).
    pose proof Hok as (HR2 & Hp2 & _).
    pose proof (step_T r2 HR2) as Hst2. pose proof (next_dead r2 HR2) as Hdead2. destruct (current_pos r2) as [Ep3 _].
    pose proof (T_current _ _ Hok) as Hok3.
    destruct (current r2) as [c2 r3]. cbn [fst snd] in *.
    pose proof (T_next _ _ Hok3) as Hok4.
    destruct (next r3) as [ok2 r4]. cbn [fst snd] in *. destruct ok2; cbn [negb] in E; [|discriminate].
    rewrite Ep1, Ep3 in E.
    destruct (isSpaceTabOrLineEnding c2) eqn:Es2; cbn [negb] in E.
    + apply (IH _ _ _ _ _ m (proj1 Hok4) (or_introl (conj Hok4 Hm)) E).
    + assert (N0 : c2 <> 0) by (intros ->; specialize (Hdead2 eq_refl); discriminate).
      assert (N32 : c2 <> 32) by (intros ->; rewrite isSp32 in Es2; discriminate).
      destruct (Hst2 N0 N32) as [_ Hok5]. specialize (Hok5 eq_refl).
      assert (Hm2 : m <= r_pos r2 + 1) by lia.
      apply (IH _ _ _ _ _ m (proj1 Hok5) (or_introl (conj Hok5 Hm2)) E).
  - destruct (isSpaceTabOrLineEnding c) eqn:Es; cbn [negb] in E.
    + destruct Hpre as [[A B]|(A & _)]; [|congruence].
      pose proof (T_next _ _ (HT1 _ A)) as A2.
      destruct (next r1) as [ok r2]. cbn [fst snd] in *. destruct ok; cbn [negb] in E; [|discriminate].
      apply (IH _ _ _ _ _ m (proj1 A2) (or_introl (conj A2 B)) E).
    + assert (N0 : c <> 0) by (intros ->; specialize (Hdead eq_refl); destruct (next r1) as [ok r2]; cbn [fst] in Hdead; subst ok; discriminate).
      assert (N32 : c <> 32) by (intros ->; rewrite isSp32 in Es; discriminate).
      destruct (Hst N0 N32) as [_ Hok].
      destruct (next r1) as [ok r2]. cbn [fst snd] in *. destruct ok; cbn [negb] in E; [|discriminate]. specialize (Hok eq_refl).
      rewrite Ep1 in E. apply (IH _ _ _ _ _ m (proj1 Hok) (or_introl (conj Hok Hm)) E).
Qed.

Lemma parseLinkLabel_T fuel r : R r -> spanValid (fst (fst (parseLinkLabel fuel r))) = true ->
  let ls := fst (fst (parseLinkLabel fuel r)) in let li := snd (fst (parseLinkLabel fuel r)) in let r' := snd (parseLinkLabel fuel r) in
  fst ls = r_pos r /\ r_pos r <= fst li /\ fst li + 1 <= snd li /\ snd li <= snd ls /\ (T (snd ls) r' \/ fst (current r') = 93).
Proof.
  intros HR. unfold parseLinkLabel. pose proof (GE_current r r (GE_refl r HR)) as H0. destruct (current_pos r) as [Ep _].
  destruct (current r) as [c r0]. cbn [snd] in *.
  destruct (negb (c =? 91)); [cbn; discriminate|].
  destruct (ll_skip fuel r0 0) as [[r1 chars]|] eqn:E1; [|cbn; discriminate].
  pose proof (P_ll_skip (GE r) (GE_current r) (GE_next r) _ _ _ _ _ H0 E1) as [H1 G1].
  destruct (ll_skip_exit _ _ _ _ _ E1) as (ra & Era & Ns & N91 & N93 & Lc).
  assert (Ecur : current r1 = (fst (current ra), r1)) by (rewrite Era; apply current_fix).
  destruct (ll_body fuel r1 chars (-1)) as [[r2 ie]|] eqn:E2; [|cbn; discriminate].
  assert (Hpre : isSpaceTabOrLineEnding (fst (current r1)) = false /\ fst (current r1) <> 91 /\ fst (current r1) <> 93 /\ chars < maxChars /\ r_pos r1 + 1 <= r_pos r1 + 1).
  { rewrite Ecur. cbn [fst]. repeat split; try assumption. lia. }
  destruct (ll_body_T _ _ _ _ _ _ (r_pos r1 + 1) H1 (or_intror Hpre) E2) as [HT Hm].
  pose proof HT as (HR2 & Hp2 & _).
  pose proof (step_T r2 HR2) as Hst. destruct (current_pos r2) as [Ep3 _].
  destruct (current r2) as [c2 r3]. cbn [fst snd] in *.
  destruct (Z.eqb_spec c2 93) as [E93|N]; [|cbn; discriminate]. cbn [negb].
  destruct (Hst ltac:(lia) ltac:(lia)) as [Hor _].
  destruct (next r3) as [ok4 r4]. cbn [fst snd] in *. intros _.
  split; [exact Ep|]. split; [lia|]. split; [lia|]. split; [lia|].
  rewrite Ep3. destruct Hor as [A|A]; [left; exact A|right; rewrite A; exact E93].
Qed.

Print Assumptions parseLinkLabel_T.
Print Assumptions readEOL_T.
