From Coq Require Import List ZArith Lia Bool.
Import ListNotations.
Require Import Base Tables Utf8 Tree Rdr Link Collect Html Recog Inl3a Inl3b Inl3c Inl3d Inl3e.
Require Import ShapesBase LA2 LAInfo Leaf3a.
Require Import EolCRLFDefs EolCRLFSimBytes EolCRLFSimStream EolGenCrlfRdrStep EolGenCrlfRdrColl EolGenCrlfRdrLink EolCRLFFullNode EolCRLFFullBytes EolCRLFFullBytes1.
Open Scope Z_scope.

(* C14 (ii), CRLF clause, inline layer.  Part 3: the code-span pieces (cs_addSpan, stripCodeSpanSpace). *)

(* the trailing line ending of a piece of R: at most one LF (no CR in R) *)
Definition trimOf (t : bytes) : Z :=
  let n := len t in
  if (2 <=? n) && (at_ t (n - 2) =? 13) && (at_ t (n - 1) =? 10) then 2
  else if (1 <=? n) && ((at_ t (n - 1) =? 10) || (at_ t (n - 1) =? 13)) then 1 else 0.

Lemma cs_addSpan_eq src acc s e : cs_addSpan src acc s e =
  (let trim := trimOf (sub src s e) in
   let e' := e - trim in
   let acc := if 0 <? spanLen s e' then acc ++ [PN 0 TextKind s e' 0 [] []] else acc in
   if 0 <? trim then acc ++ [PN 0 IndentKind e' (e' + trim) 1 [] []] else acc).
Proof. reflexivity. Qed.

Lemma trimOf_R R s e : ~ In 13 R -> 0 <= s -> e <= len R ->
  trimOf (sub R s e) = (if (s <? e) && (at_ R (e - 1) =? 10) then 1 else 0).
Proof.
  intros R13 Hs He. unfold trimOf. cbv zeta. destruct (Z.ltb_spec s e) as [L|L]; cbn [andb].
  - rewrite (len_sub R s e) by lia.
    assert (A1 : at_ (sub R s e) (e - s - 1) = at_ R (e - 1)) by (rewrite (at_sub R s e) by lia; f_equal; lia).
    rewrite A1. pose proof (at_not13 R R13 (e - 1)) as N13.
    destruct (Z.eqb_spec (at_ R (e - 1)) 13) as [?|_]; [contradiction|]. rewrite orb_false_r.
    destruct (Z.leb_spec 1 (e - s)) as [_|?]; [|lia]. cbn [andb].
    destruct (Z.leb_spec 2 (e - s)) as [L2|L2]; cbn [andb]; [|reflexivity].
    assert (A2 : at_ (sub R s e) (e - s - 2) = at_ R (e - 2)) by (rewrite (at_sub R s e) by lia; f_equal; lia).
    rewrite A2. pose proof (at_not13 R R13 (e - 2)) as M13.
    destruct (Z.eqb_spec (at_ R (e - 2)) 13) as [?|_]; [contradiction|]. reflexivity.
  - rewrite (sub_nil_when R s e) by lia. reflexivity.
Qed.

Lemma trimOf_crlf R s e : ~ In 13 R -> 0 <= s -> e <= len R ->
  trimOf (sub (crlf R) (phiP R s) (phiP R e)) = (if (s <? e) && (at_ R (e - 1) =? 10) then 2 else 0).
Proof.
  intros R13 Hs He. unfold trimOf. cbv zeta. destruct (Z.ltb_spec s e) as [L|L]; cbn [andb].
  - pose proof (phiP_ge R s Hs) as G1. pose proof (phiP_lt R s e L) as G2. pose proof (phiP_mono R e (len R) He) as G3.
    rewrite <- len_R' in G3.
    rewrite (len_sub (crlf R) (phiP R s) (phiP R e)) by lia.
    assert (A1 : at_ (sub (crlf R) (phiP R s) (phiP R e)) (phiP R e - phiP R s - 1) = at_ (crlf R) (phiP R e - 1))
      by (rewrite (at_sub (crlf R) (phiP R s) (phiP R e)) by lia; f_equal; lia).
    rewrite A1. pose proof (P_succ R (e - 1)) as Hs1. replace (e - 1 + 1) with e in Hs1 by lia.
    pose proof (phiP_mono R s (e - 1) ltac:(lia)) as G4.
    destruct (Z.eqb_spec (at_ R (e - 1)) 10) as [E|E].
    + pose proof (at_P1 R (e - 1) E) as B1. replace (phiP R (e - 1) + 1) with (phiP R e - 1) in B1 by lia. rewrite B1.
      destruct (Z.leb_spec 2 (phiP R e - phiP R s)) as [_|?]; [|lia]. cbn [andb].
      assert (A2 : at_ (sub (crlf R) (phiP R s) (phiP R e)) (phiP R e - phiP R s - 2) = at_ (crlf R) (phiP R (e - 1)))
        by (rewrite (at_sub (crlf R) (phiP R s) (phiP R e)) by lia; f_equal; lia).
      rewrite A2, at_P, E. reflexivity.
    + replace (phiP R e - 1) with (phiP R (e - 1)) by lia. rewrite at_P.
      destruct (Z.eqb_spec (at_ R (e - 1)) 10) as [?|_]; [contradiction|]. cbv iota.
      destruct (Z.eqb_spec (at_ R (e - 1)) 10) as [?|_]; [contradiction|].
      pose proof (at_not13 R R13 (e - 1)) as N13.
      destruct (Z.eqb_spec (at_ R (e - 1)) 13) as [?|_]; [contradiction|]. cbn [orb]. rewrite !andb_false_r. reflexivity.
  - pose proof (phiP_mono R e s L) as G. rewrite (sub_nil_when (crlf R) (phiP R s) (phiP R e)) by lia. reflexivity.
Qed.

Theorem cs_addSpan_crlf R acc s e : ~ In 13 R -> 0 <= s -> e <= len R ->
  cs_addSpan (crlf R) (map (phiN R) acc) (phiP R s) (phiP R e) = map (phiN R) (cs_addSpan R acc s e).
Proof.
  intros R13 Hs He. rewrite !cs_addSpan_eq. cbv zeta. rewrite (trimOf_R R s e R13 Hs He), (trimOf_crlf R s e R13 Hs He).
  destruct ((s <? e) && (at_ R (e - 1) =? 10)) eqn:C.
  - apply andb_true_iff in C. destruct C as [C1 C2]. apply Z.ltb_lt in C1. apply Z.eqb_eq in C2.
    pose proof (P_succ_lf R (e - 1) C2) as Hs1. replace (e - 1 + 1) with e in Hs1 by lia.
    replace (phiP R e - 2) with (phiP R (e - 1)) by lia. replace (phiP R (e - 1) + 2) with (phiP R e) by lia.
    replace (e - 1 + 1) with e by lia. rewrite spanLen_Ppos.
    change (0 <? 2) with true. change (0 <? 1) with true. cbv iota.
    destruct (0 <? spanLen s (e - 1)); rewrite ?map_app; reflexivity.
  - rewrite !Z.sub_0_r. change (0 <? 0) with false. cbv iota. rewrite spanLen_Ppos.
    destruct (0 <? spanLen s e); rewrite ?map_app; reflexivity.
Qed.
Print Assumptions cs_addSpan_crlf.

(* ---------------------------------------------------------------- stripCodeSpanSpace *)
Definition scsFirst (sl : list pn) : list pn :=
  match sl with
  | f :: r =>
    if pkind f =? IndentKind then
      let f' := setInd f (pind f - 1) in if pind f' =? 0 then r else f' :: r
    else
      let f' := setSpan f (ps f + 1) (pe f) in if plen f' =? 0 then r else f' :: r
  | [] => []
  end.
Definition scsLast (sl1 : list pn) : list pn :=
  match rev sl1 with
  | [] => sl1
  | l :: rr =>
    if pkind l =? IndentKind then
      let l' := setInd l (pind l - 1) in if pind l' =? 0 then rev rr else rev (l' :: rr)
    else
      let l' := setSpan l (ps l) (pe l - 1) in if plen l' =? 0 then rev rr else rev (l' :: rr)
  end.
Definition scsText (src : bytes) (n : pn) : bool := negb (pkind n =? IndentKind) && negb (isOnlySpaces (sub src (ps n) (pe n))).
Definition okFirst (src : bytes) (n : pn) : bool := (pkind n =? IndentKind) || (at_ src (ps n) =? 32).
Definition okLast (src : bytes) (n : pn) : bool := (pkind n =? IndentKind) || (at_ src (pe n - 1) =? 32).

Lemma scs_eq src sl : stripCodeSpanSpace src sl =
  if negb (existsb (scsText src) sl) then sl else
  match sl, rev sl with
  | first :: _, last :: _ => if negb (okFirst src first) || negb (okLast src last) then sl else scsLast (scsFirst sl)
  | _, _ => sl
  end.
Proof. destruct sl as [|f r]; reflexivity. Qed.

Lemma isOnlySpaces_crlf t : isOnlySpaces (crlf t) = isOnlySpaces t.
Proof.
  unfold isOnlySpaces. induction t as [|c r IH]; [reflexivity|]. destruct (Z.eqb_spec c 10) as [->|N].
  - rewrite crlf_c10. reflexivity.
  - rewrite (crlf_cN c r N). cbn [forallb]. rewrite IH. reflexivity.
Qed.

Section Strip.
  Variable R : bytes.
  Hypothesis R13 : ~ In 13 R.
  Notation P := (phiP R).
  Notation N := (phiN R).

  Lemma scsText_N n : 0 <= ps n -> scsText (crlf R) (N n) = scsText R n.
  Proof.
    intros Hs. unfold scsText. rewrite pkind_N, ps_N, pe_N. f_equal. f_equal.
    destruct (Z.le_gt_cases (ps n) (pe n)) as [L|L].
    - rewrite crlf_sub by lia. apply isOnlySpaces_crlf.
    - pose proof (phiP_lt R (pe n) (ps n) L) as G. rewrite !sub_nil_when by lia. reflexivity.
  Qed.
  Lemma existsb_scsText_N sl : (forall n, In n sl -> 0 <= ps n) -> existsb (scsText (crlf R)) (map N sl) = existsb (scsText R) sl.
  Proof.
    induction sl as [|n r IH]; intros H; [reflexivity|]. cbn [map existsb].
    rewrite scsText_N by (apply H; left; reflexivity). rewrite IH by (intros m Hm; apply H; right; exact Hm). reflexivity.
  Qed.
  Lemma okFirst_N n : okFirst (crlf R) (N n) = okFirst R n.
  Proof. unfold okFirst. rewrite pkind_N, ps_N, at_m13, m13_eqb by discriminate. reflexivity. Qed.
  Lemma at_Pm1 p : (at_ (crlf R) (P p - 1) =? 32) = (at_ R (p - 1) =? 32).
  Proof.
    pose proof (P_succ R (p - 1)) as H. replace (p - 1 + 1) with p in H by lia.
    destruct (Z.eqb_spec (at_ R (p - 1)) 10) as [E|E].
    - replace (P p - 1) with (P (p - 1) + 1) by lia. rewrite (at_P1 R (p - 1) E), E. reflexivity.
    - replace (P p - 1) with (P (p - 1)) by lia. rewrite at_m13, m13_eqb by discriminate. reflexivity.
  Qed.
  Lemma okLast_N n : okLast (crlf R) (N n) = okLast R n.
  Proof. unfold okLast. rewrite pkind_N, pe_N, at_Pm1. reflexivity. Qed.

  Lemma scsFirst_N f r : okFirst R f = true -> scsFirst (map N (f :: r)) = map N (scsFirst (f :: r)).
  Proof.
    intros H. cbn [map scsFirst]. cbv zeta. rewrite pkind_N, pind_N. unfold okFirst in H.
    destruct (pkind f =? IndentKind); cbn [orb] in H.
    - rewrite setInd_N, pind_N. destruct (pind (setInd f (pind f - 1)) =? 0); reflexivity.
    - apply Z.eqb_eq in H. rewrite ps_N, pe_N.
      assert (E : P (ps f) + 1 = P (ps f + 1)) by (rewrite P_succ_n; [reflexivity|rewrite H; discriminate]).
      rewrite E, setSpan_N, plen_N0. destruct (plen (setSpan f (ps f + 1) (pe f)) =? 0); reflexivity.
  Qed.

  Definition lastOK (sl : list pn) : Prop := match rev sl with l :: _ => okLast R l = true | [] => True end.

  Lemma scsLast_N sl : lastOK sl -> scsLast (map N sl) = map N (scsLast sl).
  Proof.
    unfold lastOK, scsLast. rewrite <- map_rev. destruct (rev sl) as [|l rr]; [reflexivity|]. intros H. cbn [map]. cbv zeta.
    rewrite pkind_N, pind_N. unfold okLast in H. destruct (pkind l =? IndentKind); cbn [orb] in H.
    - rewrite setInd_N, pind_N. destruct (pind (setInd l (pind l - 1)) =? 0).
      + rewrite <- map_rev. reflexivity.
      + rewrite (map_rev N (setInd l (pind l - 1) :: rr)). reflexivity.
    - apply Z.eqb_eq in H. rewrite ps_N, pe_N.
      assert (E : P (pe l) - 1 = P (pe l - 1)).
      { pose proof (P_succ_n R (pe l - 1)) as G. replace (pe l - 1 + 1) with (pe l) in G by lia. rewrite G; [lia|rewrite H; discriminate]. }
      rewrite E, setSpan_N, plen_N0. destruct (plen (setSpan l (ps l) (pe l - 1)) =? 0).
      + rewrite <- map_rev. reflexivity.
      + rewrite (map_rev N (setSpan l (ps l) (pe l - 1) :: rr)). reflexivity.
  Qed.

  Lemma lastOK_tail f r : lastOK (f :: r) -> lastOK r.
  Proof. unfold lastOK. cbn [rev]. destruct (rev r) as [|l rr]; [intros _; exact I|]. cbn [app]. intros H; exact H. Qed.
  Lemma lastOK_head f f' r : okLast R f' = okLast R f -> lastOK (f :: r) -> lastOK (f' :: r).
  Proof. unfold lastOK. cbn [rev]. intros E. destruct (rev r) as [|l rr]; cbn [app]; [rewrite E|]; intros H; exact H. Qed.
  Lemma lastOK_scsFirst sl : lastOK sl -> lastOK (scsFirst sl).
  Proof.
    destruct sl as [|f r]; [intros H; exact H|]. intros H. cbn [scsFirst]. cbv zeta.
    destruct (pkind f =? IndentKind).
    - destruct (pind (setInd f (pind f - 1)) =? 0); [eapply lastOK_tail; exact H|].
      eapply lastOK_head; [|exact H]. destruct f; reflexivity.
    - destruct (plen (setSpan f (ps f + 1) (pe f)) =? 0); [eapply lastOK_tail; exact H|].
      eapply lastOK_head; [|exact H]. destruct f; reflexivity.
  Qed.

  Theorem stripCodeSpanSpace_crlf_gen sl : (forall n, In n sl -> 0 <= ps n) ->
    stripCodeSpanSpace (crlf R) (map N sl) = map N (stripCodeSpanSpace R sl).
  Proof.
    intros Hps. rewrite !scs_eq. rewrite (existsb_scsText_N sl Hps). destruct (negb (existsb (scsText R) sl)); [reflexivity|].
    destruct sl as [|f r]; [reflexivity|]. change (map N (f :: r)) with (N f :: map N r) at 1.
    cbv iota. change (N f :: map N r) with (map N (f :: r)). rewrite <- map_rev. destruct (rev (f :: r)) as [|l rr] eqn:Er; [reflexivity|]. cbn [map]. cbv iota.
    rewrite okFirst_N, okLast_N. destruct (okFirst R f) eqn:E1; cbn [negb orb]; [|reflexivity].
    destruct (okLast R l) eqn:E2; cbn [negb]; [|reflexivity].
    change (N f :: map N r) with (map N (f :: r)). rewrite (scsFirst_N f r E1). apply scsLast_N, lastOK_scsFirst.
    unfold lastOK. rewrite Er. exact E2.
  Qed.
End Strip.
(* (the absence of CR in R is not needed for this step) *)
Theorem stripCodeSpanSpace_crlf R sl : ~ In 13 R -> (forall n, In n sl -> 0 <= ps n) ->
  stripCodeSpanSpace (crlf R) (map (phiN R) sl) = map (phiN R) (stripCodeSpanSpace R sl).
Proof. intros _. apply stripCodeSpanSpace_crlf_gen. Qed.
Print Assumptions stripCodeSpanSpace_crlf.

(* the hypothesis of stripCodeSpanSpace_crlf holds for everything cs_addSpan produces (any source) *)
Lemma trimOf_le t : 0 <= trimOf t <= len t.
Proof.
  unfold trimOf. cbv zeta. pose proof (len_nonneg t).
  destruct (Z.leb_spec 2 (len t)); cbn [andb].
  - destruct (_ && _); [lia|]. destruct (Z.leb_spec 1 (len t)); cbn [andb]; [|lia]. destruct (_ || _); lia.
  - destruct (Z.leb_spec 1 (len t)); cbn [andb]; [|lia]. destruct (_ || _); lia.
Qed.
Lemma cs_addSpan_ps src acc s e : 0 <= s -> (forall n, In n acc -> 0 <= ps n) -> forall n, In n (cs_addSpan src acc s e) -> 0 <= ps n.
Proof.
  intros Hs Hacc n. rewrite cs_addSpan_eq. cbv zeta. pose proof (trimOf_le (sub src s e)) as Ht.
  assert (G : 0 < trimOf (sub src s e) -> 0 <= e - trimOf (sub src s e)).
  { intros Hp. destruct (Z.le_gt_cases s e) as [L|L].
    - pose proof (LAInfo.len_sub_le src s e L). lia.
    - rewrite (sub_nil_when src s e) in Ht, Hp by lia. unfold len in Ht. cbn [length] in Ht. lia. }
  assert (A : forall m, In m (if 0 <? spanLen s (e - trimOf (sub src s e)) then acc ++ [PN 0 TextKind s (e - trimOf (sub src s e)) 0 [] []] else acc) -> 0 <= ps m).
  { intros m. destruct (0 <? spanLen s (e - trimOf (sub src s e))); [|apply Hacc].
    intros Hm. apply in_app_or in Hm. destruct Hm as [Hm|[<-|[]]]; [apply Hacc, Hm|exact Hs]. }
  destruct (Z.ltb_spec 0 (trimOf (sub src s e))) as [Hp|Hp]; [|apply A].
  intros Hn. apply in_app_or in Hn. destruct Hn as [Hn|[<-|[]]]; [apply A, Hn|]. cbn [ps]. apply G, Hp.
Qed.
Print Assumptions cs_addSpan_ps.
