From Coq Require Import List ZArith Lia Bool.
Import ListNotations.
Require Import Base Tables Utf8 Tree Rdr Link Collect Html Recog Inl3a Inl3b ShapesBase ShapesR ShapesCS IFBase IFLink IFCode IFTokRes
  EolCRLFDefs EolCRLFSimBytes EolCRLFSimStream
  EolGenCrlfRdrDefs EolGenCrlfRdrStep EolGenCrlfRdrNext EolGenCrlfRdrLink EolGenCrlfRdrTlr.
Open Scope Z_scope.

(* (S1), range facts of parseCodeSpan over a span list of NON-EMPTY sorted spans (SPI): every successful step of the
   reader lands inside a node, so the content end (a reader position) and the span end (previous position + 1) are ordered. *)
Section CodeRange.
  Variable R : bytes.
  Variable Eb : Z.
  Notation SPI := (SPI R Eb).
  Notation PL := (PL R).

  Definition GR (r : reader) : Prop := PL r /\ SPI (r_spans r).
  Lemma GR_current r : GR r -> GR (snd (current r)).
  Proof. intros [A B]. split; [apply PL_current, A|apply (SPI_current R Eb), B]. Qed.
  Lemma GR_nextE r ok r1 : GR r -> next r = (ok, r1) -> GR r1 /\ r_pos r <= r_pos r1.
  Proof.
    intros [A B] E. pose proof (next_W R r A) as (W1 & W2 & _). rewrite E in W1, W2. cbn [snd] in W1, W2.
    split; [split; [exact W1|]|exact W2]. pose proof (sufx_next r) as (pre & Ep). rewrite E in Ep. cbn [snd] in Ep.
    rewrite Ep in B. eapply SPI_app_r; exact B.
  Qed.
  Lemma InNode_rng r : PL r -> InNode r -> 0 <= r_pos r /\ r_pos r + 1 <= len R.
  Proof.
    intros (_ & Hok) (n & Hn). destruct (curNode_cases r) as [E|(pre & m & rest & E1 & E & E3)]; rewrite E in Hn; cbn [fst] in Hn; [discriminate|].
    rewrite E1 in Hok. apply spW_app_r in Hok. pose proof (spW_cons _ _ _ Hok) as (A & _ & C & _).
    pose proof (spanHas_range _ _ E3) as (_ & B3 & R3). lia.
  Qed.
  Lemma prev_current r : r_prev (snd (current r)) = r_prev r.
  Proof. destruct (current_fields r) as (_ & _ & _ & D). exact D. Qed.

  Lemma cs_run_inv : forall f r k lo, GR r -> InNode r -> lo <= r_pos r -> (lo <= r_prev r /\ r_prev r + 1 <= len R) ->
    GR (fst (fst (cs_run f r k))) /\ r_pos r <= r_pos (fst (fst (cs_run f r k))) /\
    lo <= r_prev (fst (fst (cs_run f r k))) /\ r_prev (fst (fst (cs_run f r k))) + 1 <= len R.
  Proof.
    induction f as [|f IH]; intros r k lo G I L Hp; [cbn [cs_run fst]; split; [exact G|]; split; [lia|exact Hp]|].
    cbn [cs_run]. destruct (next r) as [ok r1] eqn:En. destruct (GR_nextE r ok r1 G En) as [G1 L1].
    pose proof (next_prev_in r ok r1 I En) as Ep. destruct (InNode_rng r (proj1 G) I) as [I0 I1].
    destruct ok; cbn [negb]; [|cbn [fst]; split; [exact G1|]; split; [exact L1|]; rewrite Ep; lia].
    pose proof (next_InNode R Eb r r1 (proj2 G) En) as I2.
    pose proof (GR_current r1 G1) as G2. pose proof (InNode_current r1 I2) as I3. pose proof (pos_current r1) as P2. pose proof (prev_current r1) as V2.
    destruct (cur r1 =? 96).
    - destruct (IH (snd (current r1)) (k + 1) lo G2 I3 ltac:(lia) ltac:(lia)) as (A & B & C & D).
      split; [exact A|]. split; [lia|]. split; assumption.
    - cbn [fst]. split; [exact G2|]. split; [lia|]. lia.
  Qed.
  Lemma cs_run_S_inv f r k : GR r -> InNode r ->
    GR (fst (fst (cs_run (S f) r k))) /\ r_pos r <= r_pos (fst (fst (cs_run (S f) r k))) /\
    r_pos r <= r_prev (fst (fst (cs_run (S f) r k))) /\ r_prev (fst (fst (cs_run (S f) r k))) + 1 <= len R.
  Proof.
    intros G I. cbn [cs_run]. destruct (next r) as [ok r1] eqn:En. destruct (GR_nextE r ok r1 G En) as [G1 L1].
    pose proof (next_prev_in r ok r1 I En) as Ep. destruct (InNode_rng r (proj1 G) I) as [I0 I1].
    destruct ok; cbn [negb]; [|cbn [fst]; split; [exact G1|]; split; [exact L1|]; rewrite Ep; lia].
    pose proof (next_InNode R Eb r r1 (proj2 G) En) as I2.
    pose proof (GR_current r1 G1) as G2. pose proof (InNode_current r1 I2) as I3. pose proof (pos_current r1) as P2. pose proof (prev_current r1) as V2.
    destruct (cur r1 =? 96).
    - destruct (cs_run_inv f (snd (current r1)) (k + 1) (r_pos r) G2 I3 ltac:(lia) ltac:(lia)) as (A & B & C & D).
      split; [exact A|]. split; [lia|]. split; assumption.
    - cbn [fst]. split; [exact G2|]. split; [lia|]. lia.
  Qed.

  Lemma cs_close_rng : forall f r blen lo, GR r -> InNode r -> lo <= r_pos r ->
    0 <= snd (cs_close f r blen) -> lo <= fst (cs_close f r blen) /\ fst (cs_close f r blen) <= snd (cs_close f r blen) /\ snd (cs_close f r blen) <= len R.
  Proof.
    induction f as [|f IH]; intros r blen lo G I L; [cbn [cs_close snd]; lia|]. cbn [cs_close].
    pose proof (GR_current r G) as G0. pose proof (InNode_current r I) as I0. pose proof (pos_current r) as P0.
    destruct (negb (cur r =? 96)).
    - destruct (next (snd (current r))) as [ok r1] eqn:En. destruct (GR_nextE _ ok r1 G0 En) as [G1 L1].
      destruct ok; cbn [negb]; [|cbn [snd]; lia].
      apply IH; [exact G1|apply (next_InNode R Eb _ r1 (proj2 G0) En)|lia].
    - cbv zeta. destruct (cs_run_S_inv f (snd (current r)) 1 G0 I0) as (A & B & C & D).
      destruct (cs_run (S f) (snd (current r)) 1) as [[r1 k] al]. cbn [fst] in A, B, C, D.
      destruct (k =? blen); [cbn [fst snd]; lia|].
      destruct (next r1) as [ok r2] eqn:En. destruct (GR_nextE _ ok r2 A En) as [G2 L2].
      destruct ok; cbn [negb]; [|cbn [snd]; lia].
      apply IH; [exact G2|apply (next_InNode R Eb _ r2 (proj2 A) En)|lia].
  Qed.

  Lemma cs_open_inv : forall f r n c r1 n1 c1 c2, GR r -> (0 < n -> InNode r) -> 0 <= n -> c <= r_pos r ->
    cs_open f r n c = (Some (r1, n1, c1), c2) -> GR r1 /\ (0 < n1 -> InNode r1) /\ c1 <= r_pos r1.
  Proof.
    induction f as [|f IH]; intros r n c r1 n1 c1 c2 G I N L E; [discriminate|]. cbn [cs_open] in E.
    destruct (cur r =? 96).
    - pose proof (GR_current r G) as G0. destruct (next (snd (current r))) as [ok r2] eqn:En.
      destruct (GR_nextE _ ok r2 G0 En) as [G2 L2]. destruct ok; cbn [negb] in E; [|discriminate].
      apply (IH r2 (n + 1) (r_pos r2) r1 n1 c1 c2 G2); [intros _; apply (next_InNode R Eb _ r2 (proj2 G0) En)|lia|lia|exact E].
    - inversion E; subst. split; [exact G|]. split; [exact I|exact L].
  Qed.

  Theorem parseCodeSpan_range f (st : ist) start : isrc st = R -> SPI (unpFrom st) -> 0 <= start ->
    let '(cS, cE, sE) := parseCodeSpan f st start in 0 <= cS /\ (0 <= sE -> cS <= cE /\ cE <= sE /\ sE <= len R).
  Proof.
    intros Es G H0. unfold parseCodeSpan. rewrite Es.
    assert (G0 : GR (newReader R (unpFrom st) start)) by (split; [apply PL_new, G|exact G]).
    set (r := newReader R (unpFrom st) start) in *.
    destruct (cs_open_cstart R f r 0 start (proj1 G0) ltac:(cbn; lia)) as [C1 C2].
    destruct (cs_open f r 0 start) as [[[[r1 n] c]|] d] eqn:Eo; cbn [fst snd] in C1, C2.
    - specialize (C2 _ _ _ eq_refl).
      destruct (cs_open_inv f r 0 start r1 n c d G0 ltac:(lia) ltac:(lia) ltac:(cbn; lia) Eo) as (G1 & I1 & L1).
      destruct (Z.lt_ge_cases n 1) as [Hn|Hn].
      + rewrite (cs_close_zero n Hn). split; [lia|]. lia.
      + pose proof (cs_close_rng f r1 n c G1 (I1 ltac:(lia)) L1) as Hr.
        destruct (cs_close f r1 n) as [ce se]. cbn [fst snd] in Hr. split; [lia|exact Hr].
    - split; [lia|]. lia.
  Qed.
End CodeRange.
Print Assumptions parseCodeSpan_range.
