From Coq Require Import List ZArith Lia Bool.
Import ListNotations.
Require Import Base Tree Rdr Link Collect Html Recog LP.
Open Scope Z_scope.

Definition codeBlockIndentLimit := 4.

(* canContain (blocks.go:805) ; kinds without a canContain function contain nothing *)
Definition canContain (parentKind childKind : Z) : bool :=
  if parentKind =? documentKind then negb (childKind =? ListItemKind)
  else if parentKind =? ListKind then childKind =? ListItemKind
  else if parentKind =? ListItemKind then negb (childKind =? ListItemKind)
  else if parentKind =? BlockQuoteKind then negb (childKind =? ListItemKind)
  else false.
Definition acceptsLines (k : Z) : bool :=
  (k =? FencedCodeBlockKind) || (k =? IndentedCodeBlockKind) || (k =? ATXHeadingKind) || (k =? HTMLBlockKind) || (k =? ParagraphKind).
Definition hasMatch (k : Z) : bool :=
  (k =? documentKind) || (k =? ListKind) || (k =? ListItemKind) || (k =? BlockQuoteKind) || (k =? FencedCodeBlockKind)
  || (k =? IndentedCodeBlockKind) || (k =? HTMLBlockKind) || (k =? ParagraphKind).

(* close the last child of the block at depth d with end e *)
Definition closeLastChildAt (p : lp) (d : nat) (e : Z) : lp :=
  withRoot p (updAt d (fun b => match lastBlock b with
                                | Some c => set_lastBlocks b (closeBlock (bheight (root p)) (source p) c e)
                                | None => b end) (root p)).

(* openBlock (blocks.go:518) *)
Fixpoint openBlock_up (fuel : nat) (p : lp) (kind : Z) : lp :=
  match fuel with
  | O => p
  | S f =>
    if canContain (containerKind p) kind then p else
    match cdepth p with
    | O => panic p 4         (* ran off the root: cannot happen for the kinds used *)
    | S d =>
      (* p.container.close(p.source, parent, p.lineStart); p.container = parent *)
      let p1 := closeLastChildAt p d (lineStart p) in
      openBlock_up f (withCont p1 (Some d)) kind
    end
  end.
Definition openBlock (p : lp) (kind : Z) : lp :=
  if (state p =? stDescending) || (state p =? stDescendTerminated) then panic p 5 else
  let p := if state p =? stOpening then withState p stOpenMatched else p in
  let p := openBlock_up (S (cdepth p)) p kind in
  let d := cdepth p in
  let p := closeLastChildAt p d (lineStart p) in
  let nb := newBlock kind (lineStart p + li p) in
  let p := updCont p (fun b => set_bkids b (bkids b ++ [nb])) in
  withCont p (Some (S d)).

(* EndBlock (blocks.go:608) *)
Definition endBlock (p : lp) : lp :=
  if (state p =? stDescending) || (state p =? stDescendTerminated) then panic p 6 else
  let p := if state p =? stOpening then withState p stOpenMatched else p in
  match cdepth p with
  | O => panic p 7
  | S d => withCont (closeLastChildAt p d (lineStart p + li p)) (Some d)
  end.

(* parseInfoString (inlines.go:1700) *)
Fixpoint infoString_loop (fuel : nat) (src : bytes) (i e plainStart : Z) (acc : list inline) : list inline * Z :=
  match fuel with
  | O => (acc, plainStart)
  | S f =>
    if e <=? i then (acc, plainStart) else
    let c := at_ src i in
    if c =? 92 then
      if (e <=? i + 1) || negb (isASCIIPunctuation (at_ src (i + 1))) then infoString_loop f src (i + 1) e plainStart acc
      else
        let acc := if plainStart <? i then acc ++ [mkI TextKind plainStart i] else acc in
        infoString_loop f src (i + 2) e (i + 2) (acc ++ [mkI TextKind (i + 1) (i + 2)])
    else if c =? 38 then
      let en := parseCharacterEscape (sub src i e) in
      if en <? 0 then infoString_loop f src (i + 1) e plainStart acc
      else
        let acc := if plainStart <? i then acc ++ [mkI TextKind plainStart i] else acc in
        infoString_loop f src (i + en) e (i + en) (acc ++ [mkI CharacterReferenceKind i (i + en)])
    else infoString_loop f src (i + 1) e plainStart acc
  end.
Definition parseInfoString (src : bytes) (s e : Z) : inline :=
  let '(acc, ps) := infoString_loop (S (Z.to_nat (e - s))) src s e s [] in
  Inl InfoStringKind s e 0 [] (if ps <? e then acc ++ [mkI TextKind ps e] else acc).

(* CollectInline (blocks.go:567) *)
Definition collectInline (p : lp) (kind n : Z) : lp :=
  if state p =? stDescendTerminated then panic p 8 else
  let p := if state p =? stOpening then withState p stOpenMatched else p in
  let ind := indent p in
  let p :=
    if 0 <? ind then
      let indentStart := lineStart p + li p in
      let p := advance p (indentLength (rest p)) in
      updCont p (fun b => set_bik b (bik b ++ [Inl IndentKind indentStart (lineStart p + li p) ind [] []]))
    else p in
  let start := lineStart p + li p in
  let p := advance p n in
  let node := if kind =? InfoStringKind then parseInfoString (source p) start (lineStart p + li p)
              else mkI kind start (lineStart p + li p) in
  updCont p (fun b => set_bik b (bik b ++ [node])).

(* ---- match rules (blocks.go:805-963); result: (matched, p) ---- *)
Definition matchListItem (p : lp) : bool * lp :=
  if isRestBlank p then
    if negb ((containerKind p =? ListItemKind) && (1 <? childCount (contBlock p))) then (false, p)
    else (true, consumeIndent p (indent p))
  else if bindent (contBlock p) <=? indent p then (true, consumeIndent p (bindent (contBlock p)))
  else (false, p).

Definition eatQuoteMarker (p : lp) (ind : Z) : lp :=
  let p := consumeIndent p ind in
  let p := advance p 1 in
  if 0 <? indent p then consumeIndent p 1 else p.

Definition matchBlockQuote (p : lp) : bool * lp :=
  let ind := indent p in
  if codeBlockIndentLimit <=? ind then (false, p) else
  if negb (hasBytePrefix (bytesAfterIndent p) [62]) then (false, p) else
  (true, eatQuoteMarker p ind).

Definition matchFenced (p : lp) : bool * lp :=
  let lineIndent := indent p in
  let b := contBlock p in
  let closing :=
    if lineIndent <? codeBlockIndentLimit then
      let '(fc, fnn, is, ie) := parseCodeFence (bytesAfterIndent p) in
      (0 <? fnn) && negb (spanValid (is, ie)) && (fc =? bchar b) && (bn b <=? fnn)
    else false in
  if closing then (false, consumeLine p) else
  let blockIndent := bindent b in
  (true, consumeIndent p (if lineIndent <? blockIndent then lineIndent else blockIndent)).

Definition matchIndented (p : lp) : bool * lp :=
  let ind := indent p in
  if ind <? codeBlockIndentLimit then
    if negb (isRestBlank p) then (false, p) else (true, consumeIndent p ind)
  else (true, consumeIndent p codeBlockIndentLimit).

Definition matchHTML (p : lp) : bool * lp :=
  if htmlEnd (bn (contBlock p)) (bytesAfterIndent p) then
    if isRestBlank p then (false, p)
    else (false, consumeLine (collectInline p RawHTMLKind (len (bytesAfterIndent p))))
  else (true, p).

Definition matchRule (p : lp) : bool * lp :=
  let k := containerKind p in
  if (k =? documentKind) || (k =? ListKind) then (true, p)
  else if k =? ListItemKind then matchListItem p
  else if k =? BlockQuoteKind then matchBlockQuote p
  else if k =? FencedCodeBlockKind then matchFenced p
  else if k =? IndentedCodeBlockKind then matchIndented p
  else if k =? HTMLBlockKind then matchHTML p
  else (* paragraph *) (negb (isRestBlank p), p).

(* descendOpenBlocks (parse.go:184): (allMatched, p) *)
Fixpoint descend_loop (fuel : nat) (p : lp) (parentDepth : nat) : bool * lp :=
  match fuel with
  | O => (true, withCont p (Some parentDepth))
  | S f =>
    let childDepth := S parentDepth in
    match getAt childDepth (root p) with
    | None => (true, withCont p (Some parentDepth))
    | Some c =>
      if negb (isOpen c) then (true, withCont p (Some parentDepth)) else
      let p := withCont p (Some childDepth) in
      if negb (hasMatch (bkind c)) then (false, withCont p (Some parentDepth)) else
      let p := withState p stDescending in
      let '(ok, p) := matchRule p in
      if state p =? stDescendTerminated then
        (true, withCont (closeLastChildAt p parentDepth (lineStart p + li p)) (Some parentDepth))
      else if negb ok then (false, withCont p (Some parentDepth))
      else descend_loop f p childDepth
    end
  end.
Definition descendOpenBlocks (p : lp) : bool * lp := descend_loop (bheight (root p)) p O.
