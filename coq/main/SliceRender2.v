(* SliceRender2.v -- property C06 (rendering = denotation) for documents made of SEVERAL blocks (task T70).

     Theorem C06_blocks abs c : filterOn c = false -> Forall renderClass abs -> renderDoc c (docIn abs) = denote abs.

   abs : list SliceFormat2.ablk (AP t paragraph, AH n t heading, ATB ch thematic break, AC n ls fenced code); docIn abs is the
   serialisation of SliceFormat2 (blocks separated by one blank line, text with a backslash before every punctuation byte;
   SliceFormat2.docIn_spelled).  denote is written here without reference to Render.v:
       AP t -> <p>esc(t)</p>      AH n t -> <hn>esc(t)</hn>      ATB -> <hr>      AC ls -> <pre><code>esc(lines, each with LF)</code></pre>
   blocks joined by ONE EMPTY LINE (two LF), nothing after the last block; esc replaces & < > double-quote and the apostrophe (&#39;).
   Found by vm_compute: the model renderer writes <hr> (not <hr />), no LF inside or after the tags, and joins root blocks by LF LF.
   renderClass: wfText texts, 1 <= n <= 6, ch in - * _, code: n >= 3 backticks, lines free of LF CR NUL (TABs allowed), no line
   beginning (after up to three spaces) with n or more backticks.  Any number of blocks, any order, any lengths.

     Theorem C06_blocks_ext ds c : filterOn c = false -> Forall dClass ds -> renderDoc c (docInD ds) = denoteDs ds.
   extends the class (dblk) by  (i) DE t: a paragraph that is a line of the emphasis slice (EmphSpec.okEmph t), denoted by
   <p> htmlOfNodes t (specNodes t) </p>, the HTML of the node list of the spec's process-emphasis procedure (EmphRender.v);
   (iii) DI n w ls: a fenced code block whose opening fence carries the info word w (non-empty, ASCII letters), denoted by
   <pre><code class="language-w"> ... </code></pre>.  (docInD_spelled gives the serialisation.)
   Extension (ii), block quotes, is in SliceRender3.v if present.
   Route: rOK / renderDoc_rdocs (SliceDocs.blockOK without the formatter clause), SliceFormat2.inFull + SliceBlocks/SliceParas for the
   four base kinds, EmphSlice.C11_parseInlines + EmphRender.renderF_toI for emphasis lines, parseCodeFence_info /
   startFenced_open_info / info_step / firstField_letters for info strings. *)
From Coq Require Import List ZArith Lia Bool.
Import ListNotations.
Require Import Base Tables Utf8 Tree Rdr Link Collect Html Recog LP Rules Starts Driver Inl3a Inl3b Inl3c Inl3d Inl3e Render Fmt Entry Cursor
  SliceBase SlicePara SliceText SliceCode SliceTok SliceLine SliceFormat SliceReparse SliceNest SliceSpans SliceDocs SliceParas SliceBlocks SliceFormat2.
Require Import EmphSpec EmphTok EmphSlice EmphRender.
Open Scope Z_scope.

(* ---------------------------------------------------------------------------------------------- *)
(* 1. a sequence of blocks, rendering only (SliceDocs.blockOK without the formatter clause)         *)
(* ---------------------------------------------------------------------------------------------- *)
Record rOK (c : cfg) (b : bsrc) (final : bool -> block) (html : bytes) : Prop := {
  ro_step : stepOK b;
  ro_ne : (1 <= length (bx b))%nat;
  ro_nul : noNul (bx b);
  ro_refs : forall fl acc, extractB (bheight (bb b fl)) (bb b fl) acc = acc;
  ro_rw : forall fl, rewriteB (bheight (bb b fl)) (bx b) [] (bb b fl) = final fl;
  ro_defs : forall fl acc, extractDefs (bheight (final fl)) (bx b) (final fl) acc = acc;
  ro_html : forall fl, renderB (bheight (final fl)) c [] (bx b) false (final fl) = html }.
Record rfull := { rf_b : bsrc; rf_final : bool -> block; rf_html : bytes }.
Definition rfOK (c : cfg) (x : rfull) : Prop := rOK c (rf_b x) (rf_final x) (rf_html x).

Fixpoint rRootsOf (l : list rfull) (bo bl : Z) : list rootB :=
  match l with
  | [] => []
  | x :: r => let b := rf_b x in
              {| rb_line := bl; rb_start := bo; rb_end := bo + len (bx b); rb_src := bx b; rb_blk := rf_final x (flagOf b) |}
              :: rRootsOf r (bo + len (bx b) + Z.of_nat (bk b)) (bl + lineCount (bx b) + Z.of_nat (bk b))
  end.

Section RDocs.
Variable c : cfg.
Variable l : list rfull.
Hypothesis Hok : Forall (rfOK c) l.
Hypothesis Hws : wellSep (map rf_b l).

Lemma rdocs_noNul : noNul (docOf (map rf_b l)).
Proof.
  apply noNul_docOf. apply Forall_forall. intros b Hb. apply in_map_iff in Hb. destruct Hb as (x & <- & Hx).
  pose proof Hok as Hok'. rewrite Forall_forall in Hok'. apply (ro_nul _ _ _ _ (Hok' x Hx)).
Qed.

Theorem parseFull_rdocs : parseFull (docOf (map rf_b l)) = (rRootsOf l 0 1, 0).
Proof.
  unfold parseFull. rewrite (parseBlocks_docs (map rf_b l)).
  - assert (Gr : forall (l' : list rfull) bo bln acc, Forall (rfOK c) l' ->
      fold_left (fun a r => extractB (bheight (rb_blk r)) (rb_blk r) a) (rootsOf (map rf_b l') bo bln) acc = acc).
    { induction l' as [|x r IH]; intros bo bln acc H; [reflexivity|]. apply Forall_cons_iff in H. destruct H as [Hx Hr].
      cbn [map rootsOf fold_left rb_blk]. rewrite (ro_refs _ _ _ _ Hx). apply IH. exact Hr. }
    rewrite (Gr l 0 1 [] Hok). f_equal.
    assert (G : forall (l' : list rfull) bo bln, Forall (rfOK c) l' ->
      map (fun r => {| rb_line := rb_line r; rb_start := rb_start r; rb_end := rb_end r; rb_src := rb_src r;
                       rb_blk := rewriteB (bheight (rb_blk r)) (rb_src r) [] (rb_blk r) |}) (rootsOf (map rf_b l') bo bln) = rRootsOf l' bo bln).
    { induction l' as [|x r IH]; intros bo bln H; [reflexivity|]. apply Forall_cons_iff in H. destruct H as [Hx Hr].
      cbn [map rootsOf rRootsOf rb_line rb_start rb_end rb_src rb_blk]. rewrite (ro_rw _ _ _ _ Hx). f_equal. apply IH. exact Hr. }
    apply G. exact Hok.
  - apply Forall_forall. intros b Hb. apply in_map_iff in Hb. destruct Hb as (x & <- & Hx). rewrite Forall_forall in Hok. apply (ro_step _ _ _ _ (Hok x Hx)).
  - exact Hws.
  - apply Forall_forall. intros b Hb. apply in_map_iff in Hb. destruct Hb as (x & <- & Hx). rewrite Forall_forall in Hok. apply (ro_ne _ _ _ _ (Hok x Hx)).
  - exact rdocs_noNul.
Qed.

Theorem renderDoc_rdocs : renderDoc c (docOf (map rf_b l)) = joinBlocks (map rf_html l).
Proof.
  unfold renderDoc. rewrite parseFull_rdocs.
  assert (Gd : forall (l' : list rfull) bo bln acc, Forall (rfOK c) l' ->
    fold_left (fun a r => extractDefs (bheight (rb_blk r)) (rb_src r) (rb_blk r) a) (rRootsOf l' bo bln) acc = acc).
  { induction l' as [|x r IH]; intros bo bln acc H; [reflexivity|]. apply Forall_cons_iff in H. destruct H as [Hx Hr].
    cbn [rRootsOf fold_left rb_blk rb_src]. rewrite (ro_defs _ _ _ _ Hx). apply IH. exact Hr. }
  rewrite (Gd l 0 1 [] Hok). f_equal.
  assert (G : forall (l' : list rfull) bo bln, Forall (rfOK c) l' ->
    map (fun r => renderB (bheight (rb_blk r)) c [] (rb_src r) false (rb_blk r)) (rRootsOf l' bo bln) = map rf_html l').
  { induction l' as [|x r IH]; intros bo bln H; [reflexivity|]. apply Forall_cons_iff in H. destruct H as [Hx Hr].
    cbn [rRootsOf map rb_blk rb_src]. rewrite (ro_html _ _ _ _ Hx). f_equal. apply IH. exact Hr. }
  apply G. exact Hok.
Qed.
End RDocs.

Definition ofFull (x : bfull) : rfull := {| rf_b := bf_b x; rf_final := bf_final x; rf_html := bf_html x |}.
Lemma full_rfOK c x : fullOK c x -> noNul (bx (bf_b x)) -> rfOK c (ofFull x).
Proof.
  intros H Hn. constructor; cbn [ofFull rf_b rf_final rf_html].
  - apply (bo_step _ _ _ _ _ H).
  - apply (bo_ne _ _ _ _ _ H).
  - exact Hn.
  - apply (bo_refs _ _ _ _ _ H).
  - apply (bo_rw _ _ _ _ _ H).
  - apply (bo_defs _ _ _ _ _ H).
  - apply (bo_html _ _ _ _ _ H).
Qed.

(* ---------------------------------------------------------------------------------------------- *)
(* 2. the denotation of a document (written without reference to Render.v)                          *)
(* ---------------------------------------------------------------------------------------------- *)
(* HTML character data: ampersand, less-than, greater-than, double quote and apostrophe are replaced (the apostrophe by &#39;) *)
Definition escB (c : Z) : bytes :=
  if c =? 38 then [38;97;109;112;59] else if c =? 60 then [38;108;116;59] else if c =? 62 then [38;103;116;59]
  else if c =? 34 then [38;113;117;111;116;59] else if c =? 39 then [38;35;51;57;59] else [c].
Definition escT (t : bytes) : bytes := flat_map escB t.
Definition tagO (name : bytes) : bytes := [60] ++ name ++ [62].            (* <name>  *)
Definition tagC (name : bytes) : bytes := [60; 47] ++ name ++ [62].        (* </name> *)
Definition hName (n : nat) : bytes := [104; 48 + Z.of_nat n].              (* h1 .. h6 *)
Definition codeText (ls : list bytes) : bytes := concat (map (fun l => l ++ [10]) ls).
Definition denoteA (a : ablk) : bytes :=
  match a with
  | AP t => tagO [112] ++ escT t ++ tagC [112]                                                    (* <p>text</p> *)
  | AH n t => tagO (hName n) ++ escT t ++ tagC (hName n)                                          (* <hn>text</hn> *)
  | ATB _ => tagO [104; 114]                                                                      (* <hr> *)
  | AC _ ls => tagO [112;114;101] ++ tagO [99;111;100;101] ++ escT (codeText ls) ++ tagC [99;111;100;101] ++ tagC [112;114;101]
  end.
(* blocks are separated by one empty line; nothing after the last block (the model renderer's convention, found by vm_compute) *)
Fixpoint joinNL (xs : list bytes) : bytes := match xs with [] => [] | [x] => x | x :: r => x ++ [10; 10] ++ joinNL r end.
Definition denote (abs : list ablk) : bytes := joinNL (map denoteA abs).

Lemma escT_escapeHTML t : escT t = escapeHTML t.
Proof.
  unfold escT, escapeHTML. apply flat_map_ext. intros c. unfold escB.
  destruct (c =? 38); [reflexivity|]. destruct (c =? 39) eqn:E39.
  - destruct (c =? 60) eqn:E60; [apply Z.eqb_eq in E39, E60; lia|]. destruct (c =? 62) eqn:E62; [apply Z.eqb_eq in E39, E62; lia|].
    destruct (c =? 34) eqn:E34; [apply Z.eqb_eq in E39, E34; lia|]. reflexivity.
  - reflexivity.
Qed.
Lemma joinNL_joinBlocks xs : joinNL xs = joinBlocks xs.
Proof. induction xs as [|x r IH]; [reflexivity|]. cbn [joinNL joinBlocks]. destruct r; [reflexivity|]. rewrite IH. reflexivity. Qed.

(* the class: as SliceFormat2.blockClass, but code may contain TABs *)
Definition codeClassR (n : nat) (ls : list bytes) : Prop :=
  (3 <= n)%nat /\ Forall (fun l => Forall (fun c => c <> 10 /\ c <> 13 /\ c <> 0) l) ls /\
  Forall (fun l => countWhile (fun c => c =? 96) (stripSp 3 l) < Z.of_nat n) ls.
Definition renderClass (a : ablk) : Prop :=
  match a with
  | AP t => wfText t
  | AH n t => (1 <= n <= 6)%nat /\ wfText t
  | ATB ch => ch = 45 \/ ch = 42 \/ ch = 95
  | AC n ls => codeClassR n ls
  end.
Lemma codeClassR_ok n ls : codeClassR n ls -> codeOK n ls.
Proof.
  intros (Hn & Hb & Hf). split; [exact Hn|]. split.
  - eapply Forall_impl; [|exact Hb]. intros l Hl. eapply Forall_impl; [|exact Hl]. cbv beta. intros c Hc. lia.
  - split; [eapply Forall_impl; [|exact Hb]; intros l Hl; eapply Forall_impl; [|exact Hl]; cbv beta; intros c Hc; lia|].
    eapply Forall_impl; [|exact Hf]. intros l Hl. apply noFenceLine_closes. exact Hl.
Qed.

Lemma inFull_rfOK c a k : filterOn c = false -> renderClass a -> rfOK c (ofFull (inFull a k)).
Proof.
  intros Hc Ha. destruct a as [t|n t|ch|n ls]; cbn [renderClass] in Ha.
  - apply full_rfOK; [apply (inFull_ok c Hc (AP t) k Ha)|apply (in_noNul (AP t) k Ha)].
  - apply full_rfOK; [apply (inFull_ok c Hc (AH n t) k Ha)|apply (in_noNul (AH n t) k Ha)].
  - apply full_rfOK; [apply (inFull_ok c Hc (ATB ch) k Ha)|apply (in_noNul (ATB ch) k Ha)].
  - pose proof (codeClassR_ok n ls Ha) as Hok. apply full_rfOK; [apply (code_ok c n ls k Hc Hok)|].
    cbn. apply noNul_codeDoc. destruct Hok as (_ & _ & Hn & _). exact Hn.
Qed.
Lemma html_denote a k : bf_html (inFull a k) = denoteA a.
Proof.
  destruct a as [t|n t|ch|n ls]; cbn [inFull denoteA].
  - cbn [paraFull bf_html]. unfold pTag, tagO, tagC. rewrite escT_escapeHTML. reflexivity.
  - cbn [headFull bf_html]. unfold tagO, tagC, hName, hTagB. rewrite escT_escapeHTML. reflexivity.
  - reflexivity.
  - cbn [codeFull bf_html]. unfold preCode, tagO, tagC, codeText. rewrite escT_escapeHTML. unfold codeBody. cbn [app]. rewrite <- ?app_assoc. reflexivity.
Qed.

Theorem C06_blocks abs c : filterOn c = false -> Forall renderClass abs -> renderDoc c (docIn abs) = denote abs.
Proof.
  intros Hc H. unfold docIn.
  assert (Hm : map bf_b (inL abs) = map rf_b (map ofFull (inL abs))) by (rewrite map_map; reflexivity).
  rewrite Hm. rewrite (renderDoc_rdocs c (map ofFull (inL abs))).
  - unfold denote. rewrite <- joinNL_joinBlocks. f_equal.
    clear. induction abs as [|a r IH]; [reflexivity|]. cbn [inL map ofFull rf_html]. rewrite html_denote. f_equal. exact IH.
  - clear Hm. induction abs as [|a r IH]; [constructor|]. apply Forall_cons_iff in H. destruct H as [Ha Hr]. cbn [inL map].
    constructor; [apply (inFull_rfOK c a _ Hc Ha)|apply IH; exact Hr].
  - rewrite <- Hm. apply wellSep_inL.
Qed.
Print Assumptions C06_blocks.

(* ---------------------------------------------------------------------------------------------- *)
(* 3. extension (i): a paragraph that is a line of the emphasis slice                               *)
(* ---------------------------------------------------------------------------------------------- *)
Lemma okEmph_lineFacts t : okEmph t = true -> lineFacts (t ++ [10]) /\ noNul (t ++ [10]).
Proof.
  intros Hok. destruct (okEmph_parts t Hok) as (c & r & Et & Hc & Ha & Hd).
  assert (Hrange : Forall (fun x => 32 <= x < 128) t).
  { apply Forall_forall. intros x Hx. rewrite forallb_forall in Ha. apply inA_range. apply Ha. exact Hx. }
  pose proof (letter_range c Hc) as Hr.
  assert (Hnn : noNul t) by (eapply Forall_impl; [|exact Hrange]; cbv beta; intros; lia).
  split; [|apply noNul_app; [exact Hnn|constructor; [lia|constructor]]].
  exists c, r. rewrite Et in *. split; [reflexivity|]. split; [eapply Forall_impl; [|exact Hrange]; cbv beta; intros; lia|].
  split; [exact Hnn|]. split; [apply paraStartByte_2, plain_paraStart, letter_plainCh; exact Hc|]. split; [lia|].
  cbn [app]. unfold parseListMarker.
  assert (E1 : (c =? 45) || (c =? 43) || (c =? 42) = false).
  { repeat match goal with |- context [c =? ?k] => destruct (Z.eqb_spec c k); [exfalso; lia|] end. reflexivity. }
  rewrite E1. assert (E2 : isASCIIDigit c = false).
  { unfold isASCIIDigit. destruct (Z.leb_spec 48 c), (Z.leb_spec c 57); try reflexivity. lia. }
  rewrite E2. cbn; lia.
Qed.

Definition emphFull (t : bytes) (k : nat) : rfull :=
  let X := t ++ [10] in
  {| rf_b := paraB X k; rf_final := fun fl => paraBlk (len X) fl (specForest t);
     rf_html := t_p ++ htmlOfNodes t (specNodes t) ++ t_p' |}.

Lemma emph_rfOK c t k : filterOn c = false -> okEmph t = true -> rfOK c (emphFull t k).
Proof.
  intros Hc Hok. destruct (okEmph_lineFacts t Hok) as [HF Hnul]. set (X := t ++ [10]) in *.
  pose proof (lf_len X HF) as HlX. unfold len in HlX.
  destruct (C11_parseInlines t Hok) as [_ Hpi]. cbv zeta in Hpi. fold X in Hpi.
  constructor; unfold emphFull; cbn [rf_b rf_final rf_html]; fold X.
  - constructor; unfold paraB; cbn [bx bb bp].
    + intros f bo bl Hf. destruct f as [|[|[|f]]]; try lia.
      rewrite (skipLoop_para_last X HF). rewrite (lf_lineCount X HF). reflexivity.
    + intros R f bo bl Hf. destruct f as [|[|[|f]]]; try lia.
      rewrite (skipLoop_para_more X HF). rewrite (lf_lineCount X HF). reflexivity.
  - unfold paraB. cbn [bx]. lia.
  - exact Hnul.
  - intros fl acc. reflexivity.
  - intros fl. unfold paraB. cbn [bx bb]. change (bheight (paraBlk (len X) fl (unp1 X))) with 1%nat. cbn [rewriteB].
    change ((0 <? len (bik (paraBlk (len X) fl (unp1 X)))) && hasUnparsed (paraBlk (len X) fl (unp1 X))) with true. cbv iota.
    change (parseInlines X [] (paraBlk (len X) fl (unp1 X))) with (parseInlines X [] (paraClosed 0 (len X) (len X))). rewrite Hpi. reflexivity.
  - intros fl acc. reflexivity.
  - intros fl. unfold paraB. cbn [bx]. set (b' := paraBlk (len X) fl (specForest t)). change (bheight b') with 1%nat.
    cbn [renderB]. change (bkind b') with ParagraphKind. change (bkids b') with (@nil block). change (bik b') with (specForest t).
    change (ParagraphKind =? ParagraphKind) with true. cbv iota.
    unfold specForest, X. rewrite (renderF_toI c [] t [10] (specNodes t) Hc (specNodes_inB t)).
    rewrite (openTag_nf c _ Hc), (closeTag_nf c _ Hc). reflexivity.
Qed.

(* ---------------------------------------------------------------------------------------------- *)
(* 4. extension (iii): a fenced code block with a one-word info string of letters                   *)
(* ---------------------------------------------------------------------------------------------- *)
Definition letters (w : bytes) : Prop := w <> [] /\ Forall (fun c => isASCIILetter c = true) w.
Definition infoLine (n : nat) (w : bytes) : bytes := fence n ++ w ++ [10].

Lemma letter_rng c : isASCIILetter c = true -> (65 <= c <= 90) \/ (97 <= c <= 122).
Proof.
  unfold isASCIILetter. intros H. apply orb_true_iff in H. destruct H as [H|H]; apply andb_true_iff in H; destruct H as [A B];
    apply Z.leb_le in A; apply Z.leb_le in B; lia.
Qed.
Lemma letters_rng w : Forall (fun c => isASCIILetter c = true) w -> Forall (fun c => 65 <= c <= 122) w.
Proof. intros H. eapply Forall_impl; [|exact H]. intros c Hc. apply letter_rng in Hc. lia. Qed.

Lemma parseCodeFence_info n w : (3 <= n)%nat -> letters w ->
  parseCodeFence (infoLine n w) = (96, Z.of_nat n, Z.of_nat n, Z.of_nat n + len w).
Proof.
  intros Hn (Hne & Hw). pose proof (letters_rng w Hw) as Hr. unfold parseCodeFence, infoLine.
  destruct n as [|n']; [lia|]. rewrite fence_S. cbn [app]. set (n := S n') in *.
  destruct w as [|c0 w']; [contradiction|]. assert (Hc0 : (65 <= c0 <= 90) \/ (97 <= c0 <= 122)) by (apply Forall_cons_iff in Hw; destruct Hw as [Hw _]; apply letter_rng; exact Hw).
  set (w := c0 :: w') in *. pose proof (sl_len_nonneg w') as Hw0.
  assert (Hlw : len w = len w' + 1) by (unfold w; rewrite sl_len_cons; reflexivity).
  set (X := 96 :: fence n' ++ w ++ [10]).
  assert (HX : X = fence n ++ c0 :: (w' ++ [10])) by reflexivity.
  assert (HX2 : X = fence n ++ w ++ [10]) by reflexivity.
  assert (Hl : len X = Z.of_nat n + len w + 1).
  { rewrite HX, sl_len_app, len_fence, sl_len_cons, sl_len_app. change (len [10]) with 1. lia. }
  rewrite Hl. destruct (Z.ltb_spec (Z.of_nat n + len w + 1) 3); [lia|].
  change (negb ((96 =? 96) || (96 =? 126))) with false. cbn [orb].
  assert (Hcw : countWhile (fun c => c =? 96) X = Z.of_nat n) by (rewrite HX; apply countWhile_fence; lia). rewrite Hcw.
  destruct (Z.ltb_spec (Z.of_nat n) 3); [lia|].
  assert (Hfrom : from_ X (Z.of_nat n) = c0 :: (w' ++ [10])) by (rewrite HX, <- len_fence; apply sl_from_app_len).
  rewrite Hfrom. cbn [firstNonWs].
  assert (Hws0 : isSpaceTabOrLineEnding c0 = false).
  { unfold isSpaceTabOrLineEnding. destruct (Z.eqb_spec c0 32); [lia|]. destruct (Z.eqb_spec c0 9); [lia|]. destruct (Z.eqb_spec c0 10); [lia|]. destruct (Z.eqb_spec c0 13); [lia|]. reflexivity. }
  rewrite Hws0. destruct (Z.ltb_spec (Z.of_nat n) 0); [lia|].
  (* trimEndWs: the LF is dropped, the last letter stays *)
  assert (Hfl : exists f, length X = S f) by (unfold X; eexists; reflexivity). destruct Hfl as [f Hfl]. rewrite Hfl.
  cbn [trimEndWs]. destruct (Z.leb_spec (Z.of_nat n + len w + 1) (Z.of_nat n)); [lia|].
  assert (Hat10 : at_ X (Z.of_nat n + len w + 1 - 1) = 10).
  { replace X with ((fence n ++ w) ++ [10]) by (rewrite HX2, <- app_assoc; reflexivity).
    replace (Z.of_nat n + len w + 1 - 1) with (len (fence n ++ w)) by (rewrite sl_len_app, len_fence; lia). apply sl_at_app_len. }
  rewrite Hat10. change (isSpaceTabOrLineEnding 10) with true. cbv iota.
  destruct (exists_last (l := w)) as (w0 & z & Ew); [discriminate|].
  assert (Hz : 65 <= z <= 122). { rewrite Ew in Hr. apply Forall_app in Hr. destruct Hr as [_ Hr]. apply Forall_cons_iff in Hr. apply Hr. }
  assert (Hatz : at_ X (Z.of_nat n + len w + 1 - 1 - 1) = z).
  { replace X with ((fence n ++ w0) ++ z :: [10]) by (rewrite HX2, Ew, <- !app_assoc; reflexivity).
    replace (Z.of_nat n + len w + 1 - 1 - 1) with (len (fence n ++ w0)) by (rewrite Ew, !sl_len_app, len_fence; change (len [z]) with 1; lia). apply sl_at_app_len. }
  assert (Hwsz : isSpaceTabOrLineEnding z = false).
  { unfold isSpaceTabOrLineEnding. destruct (Z.eqb_spec z 32); [lia|]. destruct (Z.eqb_spec z 9); [lia|]. destruct (Z.eqb_spec z 10); [lia|]. destruct (Z.eqb_spec z 13); [lia|]. reflexivity. }
  destruct (Z.leb_spec (Z.of_nat n + len w + 1 - 1) (Z.of_nat n)); [lia|]. rewrite Hatz, Hwsz.
  replace (Z.of_nat n + len w + 1 - 1) with (Z.of_nat n + len w) by lia.
  assert (Hsub : sub X (Z.of_nat n) (Z.of_nat n + len w) = w).
  { rewrite HX2. rewrite <- len_fence. apply sl_sub_app. }
  rewrite Hsub.
  assert (Hnb : existsb (fun c => c =? 96) w = false).
  { clear -Hw. induction w as [|x t IH]; [reflexivity|]. apply Forall_cons_iff in Hw. destruct Hw as [Hx Ht]. cbn [existsb]. apply letter_rng in Hx.
    destruct (Z.eqb_spec x 96); [lia|]. apply IH. exact Ht. }
  rewrite Hnb. reflexivity.
Qed.

Lemma infoString_loop_letters src e : forall fuel i ps acc, (forall j, i <= j < e -> (65 <= at_ src j <= 90) \/ (97 <= at_ src j <= 122)) ->
  infoString_loop fuel src i e ps acc = (acc, ps).
Proof.
  induction fuel as [|f IH]; intros i ps acc H; [reflexivity|]. cbn [infoString_loop]. destruct (Z.leb_spec e i); [reflexivity|].
  specialize (H i ltac:(lia)) as Hi. destruct (Z.eqb_spec (at_ src i) 92); [lia|]. destruct (Z.eqb_spec (at_ src i) 38); [lia|].
  apply IH. intros j Hj. apply H. lia.
Qed.
Lemma parseInfoString_letters src s e : s < e -> (forall j, s <= j < e -> (65 <= at_ src j <= 90) \/ (97 <= at_ src j <= 122)) ->
  parseInfoString src s e = Inl InfoStringKind s e 0 [] [mkI TextKind s e].
Proof.
  intros Hse H. unfold parseInfoString. rewrite (infoString_loop_letters src e _ s s [] H). destruct (Z.ltb_spec s e); [reflexivity|lia].
Qed.

Lemma startFenced_open_info p n w r : (3 <= n)%nat -> letters w -> atLine p 96 r -> 96 :: r = infoLine n w ->
  container p = Some O -> root p = rootDoc [] -> state p = stOpening ->
  exists cl tr, startFenced p =
    setLP p (rootDoc [fencedOpen (lineStart p + li p) (Z.of_nat n)
                        [parseInfoString (source p) (lineStart p + Z.of_nat n) (lineStart p + (Z.of_nat n + len w))]])
          (Some 1%nat) (len (line p)) cl tr stLineConsumed (panicked p).
Proof.
  intros Hn Hw Hal Hline Hcont Hroot Hst. unfold startFenced.
  rewrite (al_indent p 96 r Hal eq_refl). cbn [codeBlockIndentLimit Z.leb Z.compare].
  rewrite (al_bai p 96 r Hal eq_refl). rewrite Hline, (parseCodeFence_info n w Hn Hw).
  destruct (Z.eqb_spec (Z.of_nat n) 0); [lia|].
  rewrite (consumeIndent_le0 p 0) by lia.
  rewrite (openBlock_empty_doc p FencedCodeBlockKind Hcont Hroot (or_introl Hst) eq_refl).
  pose proof (sl_len_nonneg w) as Hw0. destruct Hw as [Hwne Hwl].
  assert (Hlw : 0 < len w) by (destruct w; [contradiction|rewrite sl_len_cons; pose proof (sl_len_nonneg w); lia]).
  assert (Hsv : spanValid (Z.of_nat n, Z.of_nat n + len w) = true).
  { unfold spanValid. cbn [fst snd]. repeat (apply andb_true_iff; split); apply Z.leb_le; lia. }
  rewrite Hsv.
  set (p2 := updCont (updCont (setLP p (rootDoc [newBlock FencedCodeBlockKind (lineStart p + li p)]) (Some 1%nat) (li p) (col p) (tabRem p) stOpenMatched (panicked p))
                       (fun b => set_bn (set_bchar b 96) (Z.of_nat n))) (fun b => set_bindent b 0)).
  destruct Hal as [Hli Hln].
  assert (HlenL : len (line p) = Z.of_nat n + len w + 1).
  { rewrite Hln, Hline. unfold infoLine. rewrite !sl_len_app, len_fence. change (len [10]) with 1. lia. }
  destruct (advance_spec p2 (Z.of_nat n)) as (cl3 & tr3 & E3).
  { lia. } { change (li p2) with (li p). change (line p2) with (line p). rewrite Hli, HlenL. lia. }
  rewrite E3. change (state p2 =? stOpening) with false. cbv iota. change (li p2) with (li p). rewrite Hli, Z.add_0_l.
  set (p3 := setLP p2 (root p2) (container p2) (Z.of_nat n) cl3 tr3 (state p2) (panicked p2)).
  unfold collectInline. change (state p3 =? stDescendTerminated) with false. cbv iota. change (state p3 =? stOpening) with false. cbv iota.
  destruct w as [|c0 w']; [contradiction|]. apply Forall_cons_iff in Hwl. destruct Hwl as [Hc0 Hwl']. apply letter_rng in Hc0.
  assert (Hal3 : atLineK p3 (fence n) c0 (w' ++ [10])).
  { split; [change (li p3) with (Z.of_nat n); rewrite len_fence; reflexivity|]. change (line p3) with (line p). rewrite Hln, Hline. reflexivity. }
  assert (Hsp0 : isSpTab c0 = false) by (unfold isSpTab; destruct (Z.eqb_spec c0 32); [lia|]; destruct (Z.eqb_spec c0 9); [lia|reflexivity]).
  rewrite (alk_indent p3 _ c0 _ Hal3 Hsp0). change (0 <? 0) with false. cbv iota.
  replace (Z.of_nat n + len (c0 :: w') - Z.of_nat n) with (len (c0 :: w')) by lia.
  destruct (advance_spec p3 (len (c0 :: w'))) as (cl4 & tr4 & E4).
  { lia. } { change (li p3) with (Z.of_nat n). change (line p3) with (line p). rewrite HlenL. lia. }
  rewrite E4. change (state p3 =? stOpening) with false. cbv iota. change (InfoStringKind =? InfoStringKind) with true. cbv iota.
  set (p4 := setLP p3 (root p3) (container p3) (li p3 + len (c0 :: w')) cl4 tr4 (state p3) (panicked p3)).
  set (p5 := updCont p4 _).
  destruct (consumeLine_spec p5) as (cl & tr & E).
  { change (li p5) with (Z.of_nat n + len (c0 :: w')). lia. }
  { change (li p5) with (Z.of_nat n + len (c0 :: w')). change (line p5) with (line p). rewrite HlenL. lia. }
  rewrite E. exists cl, tr. subst p5 p4 p3 p2. destruct p as [src rt cont ls ln i cl' tr' st pn]. cbn [li line container root state] in *. subst i cont rt st.
  reflexivity.
Qed.

Lemma processLine_fence_open_info src ls n w r : (3 <= n)%nat -> letters w -> from_ src ls = 96 :: r -> 96 :: r = infoLine n w ->
  processLine 0 [] ls src =
  ([fencedOpen ls (Z.of_nat n) [parseInfoString src (ls + Z.of_nat n) (ls + (Z.of_nat n + len w))]], stLineConsumed, 0).
Proof.
  intros Hn Hw Hl Hline. unfold processLine, resetLP. rewrite Hl.
  rewrite (computeTabRem_0 96 r 0 eq_refl).
  set (p0 := {| source := src; root := Blk documentKind 0 (-1) [] [] 0 0 0 false false; container := Some 0%nat;
               lineStart := ls; line := 96 :: r; li := 0; col := 0; tabRem := 0; state := 0; panicked := 0 |}).
  assert (Hd : descendOpenBlocks p0 = (true, p0)) by reflexivity.
  rewrite Hd. change (negb (state p0 =? stDescendTerminated)) with true. cbv iota.
  assert (Hal : atLine (withState p0 stOpening) 96 r) by (split; reflexivity).
  destruct (startFenced_open_info (withState p0 stOpening) n w r Hn Hw Hal Hline eq_refl eq_refl eq_refl) as (cl & tr & Esf).
  assert (Ets : tryStarts blockStarts p0 = (true, startFenced (withState p0 stOpening))).
  { unfold blockStarts. cbn [tryStarts].
    rewrite (st_bq' (withState p0 stOpening) 96 r Hal eq_refl) by lia.
    change (state (withState p0 stOpening)) with stOpening.
    change ((stOpening =? stOpenMatched) || (stOpening =? stLineConsumed)) with false. cbv iota.
    change (withState (withState p0 stOpening) stOpening) with (withState p0 stOpening).
    rewrite (st_atx' (withState p0 stOpening) 96 r Hal eq_refl) by lia.
    change (state (withState p0 stOpening)) with stOpening.
    change ((stOpening =? stOpenMatched) || (stOpening =? stLineConsumed)) with false. cbv iota.
    change (withState (withState p0 stOpening) stOpening) with (withState p0 stOpening).
    rewrite Esf. cbn [state setLP]. change ((stLineConsumed =? stOpenMatched) || (stLineConsumed =? stLineConsumed)) with true.
    reflexivity. }
  unfold openNewBlocks. change (len (line p0) =? 0) with (len (96 :: r) =? 0).
  destruct (Z.eqb_spec (len (96 :: r)) 0) as [E|_]; [rewrite sl_len_cons in E; pose proof (sl_len_nonneg r); lia|].
  change (length (line p0)) with (length (96 :: r)). cbn [length opening_loop].
  change (containerKind p0) with documentKind.
  change ((documentKind =? ParagraphKind) || negb (acceptsLines documentKind)) with true. cbv iota.
  rewrite Ets, Esf. cbn [state setLP]. change (stLineConsumed =? stLineConsumed) with true. cbv iota.
  cbn [root setLP bkids rootDoc state panicked withState p0 lineStart li source]. rewrite Z.add_0_r. reflexivity.
Qed.

Definition infoNode (n : nat) (w : bytes) : inline :=
  Inl InfoStringKind (Z.of_nat n) (Z.of_nat n + len w) 0 [] [mkI TextKind (Z.of_nat n) (Z.of_nat n + len w)].
Definition infoDoc (n : nat) (w : bytes) (ls : list bytes) : bytes := infoLine n w ++ codeBody ls ++ fence n ++ [10].
Definition infoBlk (n : nat) (w : bytes) (ls : list bytes) : block :=
  fencedClosed 0 (len (infoDoc n w ls)) (Z.of_nat n) ([infoNode n w] ++ textsOf (len (infoLine n w)) ls).

Lemma at_mid_list (a b c : bytes) k : 0 <= k < len b -> at_ (a ++ b ++ c) (len a + k) = at_ b k.
Proof.
  intros Hk. unfold at_. pose proof (sl_len_nonneg a). destruct (Z.ltb_spec (len a + k) 0); [lia|]. destruct (Z.ltb_spec k 0); [lia|].
  unfold len in *. rewrite app_nth2 by lia. replace (Z.to_nat (Z.of_nat (length a) + k) - length a)%nat with (Z.to_nat k) by lia.
  apply app_nth1. lia.
Qed.
Lemma at_Forall' (P : Z -> Prop) (l : bytes) k : Forall P l -> 0 <= k < len l -> P (at_ l k).
Proof.
  intros H Hk. unfold at_. destruct (Z.ltb_spec k 0); [lia|]. rewrite Forall_forall in H. apply H. apply nth_In. unfold len in Hk. lia.
Qed.

Lemma infoNode_parse n w : letters w -> parseInfoString (infoLine n w) (0 + Z.of_nat n) (0 + (Z.of_nat n + len w)) = infoNode n w.
Proof.
  intros (Hne & Hw). rewrite !Z.add_0_l.
  assert (Hlw : 0 < len w) by (destruct w; [contradiction|rewrite sl_len_cons; pose proof (sl_len_nonneg w); lia]).
  apply parseInfoString_letters; [lia|]. intros j Hj. unfold infoLine. replace j with (len (fence n) + (j - Z.of_nat n)) by (rewrite len_fence; lia).
  rewrite at_mid_list by lia. apply (at_Forall' (fun c => (65 <= c <= 90) \/ (97 <= c <= 122)) w); [|lia].
  eapply Forall_impl; [|exact Hw]. intros c Hc. apply letter_rng. exact Hc.
Qed.

Lemma info_step n w ls R f bo bl : letters w -> codeOK n ls -> noNul w -> (length (infoDoc n w ls) + 2 <= f)%nat ->
  let X := infoDoc n w ls in
  skipLoop f {| buf := X ++ R; bi := 0; boff := bo; bline := bl; pending := [] |} =
  NBBlock {| rb_line := bl; rb_start := bo; rb_end := bo + len X; rb_src := X; rb_blk := infoBlk n w ls |}
          {| buf := R; bi := 0; boff := bo + len X; bline := bl + lineCount X; pending := [] |}.
Proof.
  intros Hw (Hn & Heol & Hnul & Hcl) Hwn Hf X.
  pose proof Hw as (Hwne & Hwl).
  assert (HweoL : noEolB w).
  { eapply Forall_impl; [|exact Hwl]. intros c Hc. apply letter_rng in Hc. lia. }
  pose (l1 := infoLine n w).
  assert (HX : X = l1 ++ codeBody ls ++ fence n ++ [10]) by reflexivity.
  assert (HB : X ++ R = l1 ++ codeBody ls ++ fence n ++ [10] ++ R) by (rewrite HX; rewrite <- !app_assoc; reflexivity).
  assert (HnulX : noNul X).
  { rewrite HX. apply noNul_app; [unfold l1, infoLine; apply noNul_app; [apply noNul_fence|apply noNul_app; [exact Hwn|constructor; [lia|constructor]]]|].
    apply noNul_app; [apply noNul_codeBody; exact Hnul|]. apply noNul_app; [apply noNul_fence|constructor; [lia|constructor]]. }
  destruct n as [|n']; [lia|].
  assert (Hl1 : l1 = 96 :: (fence n' ++ w ++ [10])) by reflexivity.
  assert (Hlen1 : 0 < len l1) by (rewrite Hl1, sl_len_cons; pose proof (sl_len_nonneg (fence n' ++ w ++ [10])); lia).
  assert (HlenX : (length ls + length l1 <= length X)%nat).
  { rewrite HX. rewrite !app_length. pose proof (length_codeBody ls). lia. }
  assert (Hl1n : (1 <= length l1)%nat) by (rewrite Hl1; cbn [length]; lia).
  fold X in Hf. destruct f as [|f]; [lia|].
  rewrite sl_skipLoop_S. cbv zeta. cbn [buf bi boff bline pending].
  assert (Hle : lineEnd (X ++ R) 0 = len l1).
  { change 0 with (len (@nil Z)) at 1. replace (X ++ R) with ([] ++ (fence (S n') ++ w) ++ 10 :: (codeBody ls ++ fence (S n') ++ [10] ++ R)).
    - rewrite lineEnd_lf; [|apply Forall_app; split; [apply noEolB_fence|exact HweoL]]. unfold l1, infoLine. rewrite (@sl_len_nil Z), !sl_len_app. change (len [10]) with 1. lia.
    - rewrite HB. unfold l1, infoLine. rewrite <- !app_assoc. reflexivity. }
  rewrite Hle. destruct (Z.ltb_spec 0 (len l1)); [|lia]. cbn [negb].
  assert (Hup : upto (X ++ R) (len l1) = l1) by (rewrite HB; apply sl_upto_app_len).
  rewrite Hup. assert (Hnb : isBlankLine l1 = false) by (rewrite Hl1; reflexivity). rewrite Hnb.
  destruct f as [|f]; [lia|].
  rewrite sl_lineLoop_S. cbn [buf bi boff bline pending]. rewrite Hup.
  rewrite (processLine_fence_open_info l1 0 (S n') w (fence n' ++ w ++ [10]) Hn Hw Hl1 eq_refl).
  assert (Hnode : parseInfoString l1 (0 + Z.of_nat (S n')) (0 + (Z.of_nat (S n') + len w)) = infoNode (S n') w) by (apply infoNode_parse; exact Hw).
  rewrite Hnode.
  change (negb (0 =? 0)) with false. cbv iota.
  change (makeRoot [fencedOpen 0 (Z.of_nat (S n')) [infoNode (S n') w]] {| buf := X ++ R; bi := len l1; boff := bo; bline := bl; pending := [] |})
    with (@None (rootB * bpst)). cbv iota.
  rewrite HB at 2. rewrite (nextLine_lineEndR (S n') ls l1 R Heol).
  pose proof (lineLoop_codeR (S n') R Hn ls l1 [infoNode (S n') w] stLineConsumed f bo bl (X ++ R) HB Heol Hcl ltac:(lia)) as HLL.
  cbv zeta in HLL. rewrite <- HX in HLL. rewrite HLL.
  rewrite (unpadded_noNul X HnulX), (fillNulls_noNul X HnulX). reflexivity.
Qed.

Lemma range_out lo hi c : c < lo \/ hi < c -> (lo <=? c) && (c <=? hi) = false.
Proof. intros H. destruct (Z.leb_spec lo c), (Z.leb_spec c hi); try reflexivity. lia. Qed.
Lemma isSpaceRune_letter c : (65 <= c <= 90) \/ (97 <= c <= 122) -> isSpaceRune c = false.
Proof.
  intros H. unfold isSpaceRune, inRanges, rangesSpace. cbn [existsb fst snd].
  rewrite !range_out by lia. reflexivity.
Qed.
Definition isLet (c : Z) : Prop := (65 <= c <= 90) \/ (97 <= c <= 122).
Lemma firstField_letters (s : bytes) : forall s' pre f st, s = pre ++ s' -> Forall isLet s' -> (length s' < f)%nat ->
  firstField (runes f s' (len pre)) s st = s'.
Proof.
  induction s' as [|c r IH]; intros pre f st Hs Hl Hf; (destruct f as [|f]; [cbn [length] in Hf; lia|]); [reflexivity|].
  apply Forall_cons_iff in Hl. destruct Hl as [Hc Hr]. cbn [runes]. unfold decodeRune at 1. destruct (Z.ltb_spec c 128); [|unfold isLet in Hc; lia].
  change (1 <? 1) with false. cbv iota. change (from_ (c :: r) 1) with r. cbn [firstField]. rewrite (isSpaceRune_letter c Hc).
  assert (Hsub : sub s (len pre) (len pre + 1) = [c]) by (rewrite Hs; change (c :: r) with ([c] ++ r); apply sl_sub_app'; reflexivity).
  rewrite Hsub. replace (len pre + 1) with (len (pre ++ [c])) by (rewrite sl_len_app; reflexivity).
  rewrite (IH (pre ++ [c]) f true); [reflexivity|rewrite Hs, <- app_assoc; reflexivity|exact Hr|cbn [length] in Hf; lia].
Qed.
Lemma escapeString_letters w : Forall isLet w -> escapeString w = w.
Proof.
  induction 1 as [|c r Hc Hr IH]; [reflexivity|]. unfold escapeString in *. cbn [flat_map]. rewrite IH. unfold isLet in Hc.
  destruct (Z.eqb_spec c 38); [lia|]. destruct (Z.eqb_spec c 39); [lia|]. destruct (Z.eqb_spec c 60); [lia|]. destruct (Z.eqb_spec c 62); [lia|].
  destruct (Z.eqb_spec c 34); [lia|]. reflexivity.
Qed.

Definition infoB (n : nat) (w : bytes) (ls : list bytes) (k : nat) : bsrc :=
  {| bx := infoDoc n w ls; bb := fun _ => infoBlk n w ls; bp := false; bk := k |}.
Definition infoFull (n : nat) (w : bytes) (ls : list bytes) (k : nat) : rfull :=
  {| rf_b := infoB n w ls k; rf_final := fun _ => infoBlk n w ls;
     rf_html := [60;112;114;101;62] ++ ([60;99;111;100;101] ++ [32;99;108;97;115;115;61;34;108;97;110;103;117;97;103;101;45] ++ w ++ [34] ++ [62]) ++
                escapeHTML (codeBody ls) ++ [60;47;99;111;100;101;62;60;47;112;114;101;62] |}.

Lemma info_rfOK c n w ls k : filterOn c = false -> letters w -> codeOK n ls -> rfOK c (infoFull n w ls k).
Proof.
  intros Hc Hw Hok. pose proof Hok as (Hn & Heol & Hnul & Hcl). pose proof Hw as (Hwne & Hwl).
  assert (HwL : Forall isLet w) by (eapply Forall_impl; [|exact Hwl]; intros x Hx; apply letter_rng; exact Hx).
  assert (Hwn : noNul w) by (eapply Forall_impl; [|exact HwL]; unfold isLet; cbv beta; intros; lia).
  set (X := infoDoc n w ls). set (texts := textsOf (len (infoLine n w)) ls).
  assert (HX : X = infoLine n w ++ codeBody ls ++ (fence n ++ [10])) by reflexivity.
  assert (HT : Forall (fun i => ikind i = TextKind) texts) by apply textsOf_kind.
  assert (HnulX : noNul X).
  { rewrite HX. apply noNul_app; [unfold infoLine; apply noNul_app; [apply noNul_fence|apply noNul_app; [exact Hwn|constructor; [lia|constructor]]]|].
    apply noNul_app; [apply noNul_codeBody; exact Hnul|]. apply noNul_app; [apply noNul_fence|constructor; [lia|constructor]]. }
  constructor; unfold infoFull; cbn [rf_b rf_final rf_html].
  - constructor; unfold infoB; cbn [bx bb bp].
    + intros f bo bl Hf. pose proof (info_step n w ls [] f bo bl Hw Hok Hwn Hf) as H. cbv zeta in H. rewrite app_nil_r in H. exact H.
    + intros R f bo bl Hf. apply (info_step n w ls (10 :: R) f bo bl Hw Hok Hwn Hf).
  - unfold infoB. cbn [bx]. unfold infoDoc, infoLine. rewrite !app_length. cbn [length]. lia.
  - exact HnulX.
  - intros fl acc. reflexivity.
  - intros fl. unfold infoB. cbn [bx bb]. unfold infoBlk at 1. change (bheight (fencedClosed _ _ _ _)) with 1%nat. cbn [rewriteB].
    unfold hasUnparsed. change (bik (infoBlk n w ls)) with ([infoNode n w] ++ texts). cbn [app existsb infoNode ikind].
    change (InfoStringKind =? UnparsedKind) with false. cbn [orb]. rewrite (noUnparsed_texts texts HT). rewrite andb_false_r. reflexivity.
  - intros fl acc. reflexivity.
  - intros fl. unfold infoB. cbn [bx]. fold X. set (cb := infoBlk n w ls). change (bheight cb) with 1%nat.
    cbn [renderB]. change (bkind cb) with FencedCodeBlockKind. change (bkids cb) with (@nil block). change (bik cb) with (infoNode n w :: texts).
    change (FencedCodeBlockKind =? ParagraphKind) with false. change (FencedCodeBlockKind =? ThematicBreakKind) with false.
    change (isHeading FencedCodeBlockKind) with false. change (isCode FencedCodeBlockKind) with true.
    change (FencedCodeBlockKind =? FencedCodeBlockKind) with true. cbv iota.
    change (ikind (infoNode n w) =? InfoStringKind) with true. cbv iota.
    assert (Htc : textOfChildren X (infoNode n w) = w).
    { unfold textOfChildren, infoNode. cbn [ikids flat_map mkI ikind]. change (TextKind =? TextKind) with true. cbv iota. rewrite app_nil_r.
      unfold spanOf. cbn [istart iend]. rewrite HX. unfold infoLine. rewrite <- !app_assoc. rewrite <- len_fence. apply sl_sub_app. }
    rewrite Htc. pose proof (firstField_letters w w [] (S (length w)) false eq_refl HwL ltac:(lia)) as Hff. change (len (@nil Z)) with 0 in Hff. rewrite Hff.
    assert (Hlw : 0 < len w) by (destruct w; [contradiction|rewrite sl_len_cons; pose proof (sl_len_nonneg w); lia]).
    destruct (Z.ltb_spec 0 (len w)); [|lia]. rewrite (escapeString_letters w HwL).
    cbn [flat_map]. change (renderI (isize (infoNode n w)) c [] X (infoNode n w)) with (@nil Z). cbn [app].
    unfold texts. rewrite HX. rewrite (render_texts c ls (infoLine n w) (fence n ++ [10])).
    rewrite (openTag_nf c _ Hc), (openTagAttr_nf c _ Hc), !(closeTag_nf c _ Hc). cbn [app]. rewrite <- ?app_assoc. reflexivity.
Qed.

(* ---------------------------------------------------------------------------------------------- *)
(* 5. the extended class: + emphasis paragraphs, + code blocks with an info word                    *)
(* ---------------------------------------------------------------------------------------------- *)
Inductive dblk :=
| DB (a : ablk)                                   (* paragraph of escaped text, heading, thematic break, code block *)
| DE (t : bytes)                                  (* a paragraph that is a line of the emphasis slice (EmphSpec.okEmph) *)
| DI (n : nat) (w : bytes) (ls : list bytes).     (* a fenced code block with the info word w *)

Definition dClass (d : dblk) : Prop :=
  match d with
  | DB a => renderClass a
  | DE t => okEmph t = true
  | DI n w ls => letters w /\ codeClassR n ls
  end.
Definition dFull (d : dblk) (k : nat) : rfull :=
  match d with
  | DB a => ofFull (inFull a k)
  | DE t => emphFull t k
  | DI n w ls => infoFull n w ls k
  end.
Definition dSrc (d : dblk) : bytes :=
  match d with
  | DB a => srcIn a
  | DE t => t ++ [10]
  | DI n w ls => repeat 96 n ++ w ++ [10] ++ concat (map (fun l => l ++ [10]) ls) ++ repeat 96 n ++ [10]
  end.
(* the denotation: for an emphasis line the HTML of the node list denoted by the spec's process-emphasis procedure (EmphRender.v) *)
Definition denoteD (d : dblk) : bytes :=
  match d with
  | DB a => denoteA a
  | DE t => tagO [112] ++ htmlOfNodes t (specNodes t) ++ tagC [112]
  | DI _ w ls => tagO [112;114;101] ++ ([60;99;111;100;101] ++ [32;99;108;97;115;115;61;34;108;97;110;103;117;97;103;101;45] ++ w ++ [34;62]) ++
                 escT (codeText ls) ++ tagC [99;111;100;101] ++ tagC [112;114;101]      (* <pre><code class="language-w">...</code></pre> *)
  end.
Fixpoint dL (ds : list dblk) : list rfull :=
  match ds with [] => [] | d :: r => dFull d (match r with [] => 0 | _ => 1 end) :: dL r end.
Definition docInD (ds : list dblk) : bytes := docOf (map rf_b (dL ds)).
Definition denoteDs (ds : list dblk) : bytes := joinNL (map denoteD ds).

Lemma docInD_spelled ds : docInD ds = joinBlank (map dSrc ds).
Proof.
  unfold docInD. induction ds as [|d r IH]; [reflexivity|]. cbn [dL map docOf joinBlank]. rewrite IH.
  assert (Hs : forall k, bx (rf_b (dFull d k)) = dSrc d).
  { intros k. destruct d as [a|t|n w ls]; [destruct a; reflexivity|reflexivity|].
    cbn [dFull infoFull rf_b infoB bx dSrc]. unfold infoDoc, infoLine, fence, codeBody. rewrite <- !app_assoc. reflexivity. }
  assert (Hk : forall k, bk (rf_b (dFull d k)) = k) by (intros k; destruct d as [a|t|n w ls]; [destruct a; reflexivity|reflexivity|reflexivity]).
  rewrite Hs, Hk. destruct r as [|d2 r']; [cbn [repeat app map joinBlank]; rewrite app_nil_r; reflexivity|]. reflexivity.
Qed.

Lemma dFull_ok c d k : filterOn c = false -> dClass d -> rfOK c (dFull d k).
Proof.
  intros Hc Hd. destruct d as [a|t|n w ls]; cbn [dClass dFull] in *.
  - apply (inFull_rfOK c a k Hc Hd).
  - apply (emph_rfOK c t k Hc Hd).
  - destruct Hd as [Hw Hcl]. apply (info_rfOK c n w ls k Hc Hw (codeClassR_ok n ls Hcl)).
Qed.
Lemma dHtml d k : rf_html (dFull d k) = denoteD d.
Proof.
  destruct d as [a|t|n w ls]; cbn [dFull denoteD].
  - cbn [ofFull rf_html]. apply html_denote.
  - reflexivity.
  - cbn [infoFull rf_html]. unfold tagO, tagC, codeText. rewrite escT_escapeHTML. unfold codeBody. cbn [app]. rewrite <- ?app_assoc. reflexivity.
Qed.
Lemma wellSep_dL : forall ds, wellSep (map rf_b (dL ds)).
Proof.
  induction ds as [|d r IH]; [exact I|]. cbn [dL map wellSep]. split; [|exact IH].
  destruct r; [intros H; contradiction|intros _]. destruct d as [a|t|n w ls]; [destruct a; cbn; lia|cbn; lia|cbn; lia].
Qed.

Theorem C06_blocks_ext ds c : filterOn c = false -> Forall dClass ds -> renderDoc c (docInD ds) = denoteDs ds.
Proof.
  intros Hc H. unfold docInD. rewrite (renderDoc_rdocs c (dL ds)).
  - unfold denoteDs. rewrite <- joinNL_joinBlocks. f_equal.
    clear. induction ds as [|d r IH]; [reflexivity|]. cbn [dL map]. rewrite dHtml. f_equal. exact IH.
  - induction ds as [|d r IH]; [constructor|]. apply Forall_cons_iff in H. destruct H as [Hd Hr]. cbn [dL].
    constructor; [apply (dFull_ok c d _ Hc Hd)|apply IH; exact Hr].
  - apply wellSep_dL.
Qed.
Print Assumptions C06_blocks_ext.

(* ---------------------------------------------------------------------------------------------- *)
(* 6. examples                                                                                     *)
(* ---------------------------------------------------------------------------------------------- *)
Example ex_blocks :
  let abs := [AH 2 [97;32;35]; AP [49;46;32;60;98;62]; ATB 95; AC 3 [[32;32;9;60;38;62]; []; [96;96]]; AP [43]] in
  renderDoc c0 (docIn abs) = denote abs.
Proof. vm_compute. reflexivity. Qed.
Example ex_blocks_ext :
  let ds := [DE [97;32;42;98;42;32;95;95;99;95;95]; DI 3 [103;111] [[120;32;60;32;121]]; DB (ATB 45); DE [113]] in
  renderDoc c0 (docInD ds) = denoteDs ds /\ Forall dClass ds.
Proof.
  split; [vm_compute; reflexivity|].
  repeat constructor; try reflexivity; try discriminate; try lia; try (left; reflexivity); cbn; lia.
Qed.
