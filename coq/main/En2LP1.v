From Coq Require Import List ZArith Lia Bool.
Import ListNotations.
Require Import Base Tree Rdr Link Collect Html Recog LP Rules Starts Driver L2Kind L2CC BSDef BSRdr BSTree BSOcp BSOrph BSClose BSLine1 BSLine2 BSLine3
  GramTree GramLP GramLP2 Cursor CursorX NoPanic12 ShDef ShRdr ShClose ShEnv ShLine1 ShLine2 ShFresh ShStarts2.
Require Import ShapesBase EntBase EntOcpDefs En2Tree EntCur.
Open Scope Z_scope.

(* ================================================================================================
   T28, part 4: the line machine, primitives.  EP bundles what every step keeps:
   the environment (line of B), cursor inside the line, canContain closure (L2CC), cursor arithmetic (NoPanic12.G)
   and the entry invariant relative to the start of the line.
   ================================================================================================ *)
Definition EP (B : bytes) (p : lp) : Prop :=
  envB B p /\ curP p /\ ccP p /\ Itab p /\ en B (lineStart p) (root p).

Lemma EP_parts B p : EP B p -> envB B p /\ curP p /\ ccP p /\ Itab p /\ en B (lineStart p) (root p).
Proof. intros H; exact H. Qed.

(* same tree, same environment, cursor moved to the right inside the line *)
Lemma EP_cstep B p p' : cstep p p' -> Itab p' -> EP B p -> EP B p'.
Proof.
  intros Hc HG (A & A1 & A2 & _ & A4). destruct (cstep_Mc p p' Hc A1) as (C1 & _ & E1 & E2).
  pose proof Hc as ((R1 & R2) & _ & _).
  split; [eapply envB_env; [apply env_of_cstep, Hc|exact A]|]. split; [exact C1|]. split; [eapply ccP_same; [split; eassumption|exact A2]|].
  split; [exact HG|]. rewrite R1, E1. exact A4.
Qed.

(* same cursor and environment, new tree / container *)
Lemma EP_tree B p p' : envOf p' = envOf p -> curS p p' -> ccP p' -> en B (lineStart p) (root p') -> EP B p -> EP B p'.
Proof.
  intros E Hc Hcc Hen (A & A1 & A2 & A3 & A4). destruct (env_parts _ _ E) as (E1 & E2 & E3). pose proof Hc as (C1 & C2 & _).
  split; [eapply envB_env; eassumption|]. split; [unfold curP in *; rewrite E2, E3, C1; exact A1|]. split; [exact Hcc|].
  split; [eapply Itab_curS; eassumption|]. rewrite E2. exact Hen.
Qed.

Lemma curS_tree p p' : li p' = li p -> line p' = line p -> col p' = col p -> tabRem p' = tabRem p -> curS p p'.
Proof. intros. repeat split; assumption. Qed.

(* ---- closing the last child of the block at depth d ---- *)
Lemma src_of B p : envB B p -> source p = upto B (lineStart p + len (line p)) /\ lineStart p + len (line p) <= len B /\ 0 <= lineStart p.
Proof. intros (A & _ & A2 & A3 & _). tauto. Qed.

Lemma bdy_ls B p : envB B p -> bdy B (lineStart p).
Proof.
  intros (_ & _ & _ & _ & [E|[E|E]] & _); [left; lia|right; right; destruct E as [E|E]; rewrite E; discriminate|right; left; lia].
Qed.
Lemma bdy_H B p : envB B p -> bdy B (lineStart p + len (line p)).
Proof.
  intros He. pose proof He as (_ & _ & _ & _ & _ & (_ & _ & _ & _ & [E|[E1 E2]])); [right; left; lia|].
  right. right. destruct E2 as [E|E]; rewrite E; discriminate.
Qed.

Lemma en_closeAt B p d e : envB B p -> en B (lineStart p) (root p) -> lineStart p <= e <= lineStart p + len (line p) -> bdy B e ->
  en B (lineStart p) (updAt d (closeF p e) (root p)).
Proof.
  intros He Hen Hb Hbd. destruct (src_of B p He) as (S1 & S2 & S3).
  apply en_updAt_at; [exact Hen|]. intros x _ Hx. unfold closeF. destruct (lastBlock x) as [c|] eqn:El; [|exact Hx].
  eapply en_set_lastBlocks; [exact Hx|exact El|].
  apply (en_closeBlock B (lineStart p) (lineStart p + len (line p)) (source p) e S1 S2 ltac:(lia) ltac:(lia) Hbd (bdy_H B p He)).
  eapply en_lastBlock; eassumption.
Qed.

Lemma ppT_closeAt B p d e : ccP p -> en B (lineStart p) (root p) -> 0 <= e -> (exists x, getAt d (root p) = Some x) ->
  ppT (updAt d (closeF p e) (root p)) -> ppT (root p).
Proof.
  intros (_ & Hcc & _) Hen He Hd. apply ppT_updAt_cut; [exact Hd|].
  intros x Hx. split; [apply closeF_bend|]. split; [apply closeF_kind|]. intros z Hz. left.
  unfold closeF in Hz. destruct (lastBlock x) as [c|] eqn:El.
  - pose proof (lastBlock_set_lastBlocks x _ z (closeBlock_nonnil (source p) e (bheight (root p)) c) Hz) as Hin.
    destruct (bheight_S (root p)) as (h & Eh).
    assert (Hcl : closedL (closeBlock (bheight (root p)) (source p) c e)).
    { apply (closeBlock_closedL B (lineStart p)); [exact He|rewrite Eh; lia| |].
      - eapply cc_lastBlock; [eapply cc_getAt; eassumption|exact El].
      - eapply en_lastBlock; [eapply en_getAt; eassumption|exact El]. }
    exact (allP_In _ _ _ Hcl Hin).
  - rewrite El in Hz. discriminate.
Qed.

Lemma root_closeAt p d e : root (closeLastChildAt p d e) = updAt d (closeF p e) (root p).
Proof. rewrite closeLastChildAt_eq. reflexivity. Qed.

Lemma EP_closeAt B p d e d' : EP B p -> (d' <= d)%nat -> (d <= cdepth p)%nat -> lineStart p <= e <= lineStart p + len (line p) -> bdy B e ->
  EP B (withCont (closeLastChildAt p d e) (Some d')) /\
  (ppT (root (withCont (closeLastChildAt p d e) (Some d'))) -> ppT (root p)).
Proof.
  intros HE Hd' Hd He Hbd. pose proof HE as (A & A1 & A2 & A3 & A4).
  assert (Hx : exists x, getAt d (root p) = Some x) by (apply wf_le; assumption).
  assert (Hx' : exists x, getAt d' (root p) = Some x) by (apply wf_le; [assumption|lia]).
  split.
  - apply (EP_tree B p); [reflexivity|repeat split|apply ccP_closeAt; assumption| |exact HE].
    change (root (withCont (closeLastChildAt p d e) (Some d'))) with (root (closeLastChildAt p d e)). rewrite root_closeAt.
    apply en_closeAt; assumption.
  - change (root (withCont (closeLastChildAt p d e) (Some d'))) with (root (closeLastChildAt p d e)). rewrite root_closeAt.
    apply (ppT_closeAt B); [exact A2|exact A4|destruct A1; lia|exact Hx].
Qed.

Lemma EP_same_cd B p p' : root p' = root p -> cdepth p' = cdepth p -> envOf p' = envOf p -> curS p p' -> EP B p -> EP B p'.
Proof.
  intros R C E Hc HE. pose proof HE as (A & A1 & A2 & A3 & A4).
  apply (EP_tree B p); try assumption; [eapply ccP_same_cd; eassumption|rewrite R; exact A4].
Qed.

Lemma EP_closeHere B p e : EP B p -> lineStart p <= e <= lineStart p + len (line p) -> bdy B e ->
  EP B (closeLastChildAt p (cdepth p) e) /\ (ppT (root (closeLastChildAt p (cdepth p) e)) -> ppT (root p)).
Proof.
  intros HE He Hbd. destruct (EP_closeAt B p (cdepth p) e (cdepth p) HE ltac:(lia) ltac:(lia) He Hbd) as [H1 H2]. split; [|exact H2].
  eapply (EP_same_cd B _ _ _ _ _ _ H1).
  Unshelve. all: try reflexivity. repeat split.
Qed.

(* ---- openBlock ---- *)
Lemma EP_opened B p : EP B p -> EP B (if state p =? stOpening then withState p stOpenMatched else p).
Proof. intros H. apply (EP_cstep B p); [apply cstep_opened|apply Itab_opened, H|exact H]. Qed.

Lemma EP_openBlock_up B : forall fuel p kind, EP B p ->
  EP B (openBlock_up fuel p kind) /\ (ppT (root (openBlock_up fuel p kind)) -> ppT (root p)).
Proof.
  induction fuel as [|f IH]; intros p kind HE; [split; [exact HE|tauto]|]. cbn [openBlock_up].
  destruct (canContain _ _); [split; [exact HE|tauto]|].
  destruct (cdepth p) as [|d] eqn:Ed.
  { split; [|tauto]. apply (EP_cstep B p); [apply cstep_panic| |exact HE]. destruct HE as (_ & _ & _ & G1 & _). exact G1. }
  pose proof HE as (A & A1 & A2 & A3 & A4).
  destruct (EP_closeAt B p d (lineStart p) d HE ltac:(lia) ltac:(lia) ltac:(pose proof (len_nonneg (line p)); lia) (bdy_ls B p A)) as [H1 H2].
  destruct (IH (withCont (closeLastChildAt p d (lineStart p)) (Some d)) kind H1) as [H3 H4].
  split; [exact H3|]. intros Hp. apply H2, H4, Hp.
Qed.

Lemma EP_obPre B p K : EP B p -> EP B (obPre p K) /\ (ppT (root (obPre p K)) -> ppT (root p)).
Proof.
  intros HE. unfold obPre. cbv zeta. pose proof (EP_opened B p HE) as H0.
  set (p0 := if state p =? stOpening then withState p stOpenMatched else p) in *.
  destruct (EP_openBlock_up B (S (cdepth p0)) p0 K H0) as [H1 H2]. set (p2 := openBlock_up (S (cdepth p0)) p0 K) in *.
  destruct (EP_closeHere B p2 (lineStart p2) H1 ltac:(pose proof (len_nonneg (line p2)); lia) (bdy_ls B p2 ltac:(apply H1))) as [H3 H4].
  split; [exact H3|]. intros Hp. assert (Er : root p0 = root p) by (unfold p0; destruct (_ =? _); reflexivity). rewrite <- Er. apply H2, H4, Hp.
Qed.

Lemma en_newBlock' B M K s : K <> SetextHeadingKind -> K <> ATXHeadingKind -> (K = ParagraphKind -> 0 <= s <= M) -> en B M (newBlock K s).
Proof.
  intros N N2 Hs. unfold newBlock. cbn [en]. split; [|exact I]. split; [|split; [|split; [|split]]].
  - intros [HK|HK]; [|contradiction]. split; [exact I|]. split; [intros u []|intros _; apply Hs, HK].
  - intros E. contradiction.
  - intros _. exact N.
  - intros; lia.
  - intros _ _. apply noU_nil.
Qed.

Lemma curS_openBlock p K : curS p (openBlock p K).
Proof.
  unfold openBlock. destruct (_ || _); [repeat split|]. cbv zeta.
  set (p0 := if state p =? stOpening then withState p stOpenMatched else p).
  destruct (openBlock_up_cur (S (cdepth p0)) p0 K) as [Hc _]. pose proof (curS_opened p) as H0. fold p0 in H0.
  eapply curS_trans; [exact H0|]. eapply curS_trans; [exact Hc|]. repeat split.
Qed.
Lemma curS_endBlock p : curS p (endBlock p).
Proof.
  unfold endBlock. destruct (_ || _); [repeat split|]. cbv zeta. pose proof (curS_opened p) as H0.
  set (p0 := if state p =? stOpening then withState p stOpenMatched else p) in *. destruct (cdepth p0); (eapply curS_trans; [exact H0|repeat split]).
Qed.

(* Itab through consumeIndent, without any no-panic side condition *)
Lemma Itab_consumeIndent_loop : forall fuel p n, Itab p -> Itab (consumeIndent_loop fuel p n).
Proof.
  induction fuel as [|f IH]; intros p n H; [exact H|]. cbn [consumeIndent_loop].
  destruct (Z.leb_spec n 0) as [Ln|Ln]; [exact H|]. cbv zeta.
  set (p0 := if state p =? stOpening then withState p stOpenMatched else p).
  assert (A : Itab p0) by (apply Itab_opened, H).
  destruct (Z.ltb_spec (li p0) (len (line p0))) as [L|L]; cbn [andb]; [|exact A].
  assert (Hstep : forall cl, Itab (withCursor p0 (li p0 + 1) cl (computeTabRem (line p0) (li p0 + 1) cl))).
  { intros cl. apply Itab_cursor. destruct A; lia. }
  destruct (at_ (line p0) (li p0) =? 32); [apply IH, Hstep|].
  destruct (Z.eqb_spec (at_ (line p0) (li p0)) 9) as [E9|N9]; [|exact A].
  destruct (Z.ltb_spec n (tabRem p0)) as [Lp|Lp]; [|apply IH, Hstep].
  destruct A as [A0 A1]. split; [cbn; exact A0|].
  cbn [li col tabRem line withCursor setLP]. intros _ _. rewrite (A1 L E9) in *. rewrite (ts_same (col p0) (col p0 + n)) by lia. lia.
Qed.
Lemma Itab_consumeIndent p n : Itab p -> Itab (consumeIndent p n). Proof. apply Itab_consumeIndent_loop. Qed.

Lemma EP_openBlock B p K : EP B p -> st_open p -> K <> SetextHeadingKind -> K <> ParagraphKind -> K <> ATXHeadingKind ->
  (K <> ListItemKind \/ canContain (containerKind p) K = true) ->
  EP B (openBlock p K) /\ (ppT (root (openBlock p K)) -> ppT (root p)).
Proof.
  intros HE Hs N1 N2 N3 Hk. destruct (EP_obPre B p K HE) as [H1 H2]. pose proof H1 as (A & A1 & A2 & A3 & A4).
  destruct (frs_openBlock p K Hs) as (F1 & F2 & F3). pose proof A2 as (_ & _ & (x0 & Hx0)).
  pose proof (curS_openBlock p K) as Hcs.
  split.
  - destruct HE as (B0 & B1 & B2 & B3 & B4).
    split; [eapply envB_env; [apply env_openBlock|exact B0]|]. split.
    { unfold curP. destruct (env_parts _ _ (env_openBlock p K)) as (_ & E2 & E3). rewrite E2, E3, li_openBlock. exact B1. }
    split; [apply ccP_openBlock; assumption|]. split; [eapply Itab_curS; eassumption|].
    destruct (env_parts _ _ (env_openBlock p K)) as (_ & E2 & _). destruct (env_parts _ _ (env_obPre p K)) as (_ & E2' & _).
    rewrite E2, F1. rewrite E2' in A4. apply en_updAt_at; [exact A4|]. intros x _ Hx. apply en_append; [exact Hx|].
    apply en_newBlock'; [exact N1|exact N3|intros; contradiction].
  - intros Hp. apply H2. rewrite F1 in Hp. revert Hp. apply ppT_updAt_cut; [eauto|].
    intros x _. split; [apply bend_set_bkids|]. split; [apply bkind_set_bkids|]. intros z Hz. rewrite lastBlock_appendB in Hz. inversion Hz; subst z.
    right. split; [exact N2|reflexivity].
Qed.

(* the fresh block is the container: no paragraph is reachable when it is not one itself *)
Lemma noPara_fresh q p Y : ccP p -> frs q p Y -> ccP q -> bkind Y <> ParagraphKind -> bkids Y = [] -> ~ ppT (root p).
Proof.
  intros Hp (F1 & F2 & F3) (_ & _ & (x0 & Hx0)) Hk Hn.
  assert (HY : getAt (cdepth p) (root p) = Some Y).
  { rewrite F1, F2. replace (S (cdepth q)) with (cdepth q + 1)%nat by lia. rewrite (getAt_updAt_ge _ _ 1 _ x0 Hx0).
    rewrite getAt_S, lastBlock_appendB. reflexivity. }
  apply noPara; [exact Hp| |].
  - unfold containerKind, contBlock. rewrite HY. exact Hk.
  - intros c Hc. exfalso. rewrite getAt_S_last, HY in Hc. unfold lastBlock in Hc. rewrite Hn in Hc. discriminate.
Qed.

(* ---- endBlock ---- *)
Lemma EP_endBlock B p : EP B p -> bdy B (lineStart p + li p) -> EP B (endBlock p) /\ (ppT (root (endBlock p)) -> ppT (root p)).
Proof.
  intros HE Hbd. unfold endBlock. destruct (_ || _).
  { split; [|tauto]. apply (EP_cstep B p); [apply cstep_panic| |exact HE]. destruct HE as (_ & _ & _ & G1 & _). exact G1. }
  cbv zeta. pose proof (EP_opened B p HE) as H0. set (p0 := if state p =? stOpening then withState p stOpenMatched else p) in *.
  assert (Er : root p0 = root p) by (unfold p0; destruct (_ =? _); reflexivity).
  destruct (cdepth p0) as [|d] eqn:Ed.
  { split; [|cbn [root panic setLP]; rewrite Er; tauto]. apply (EP_cstep B p0); [apply cstep_panic| |exact H0]. destruct H0 as (_ & _ & _ & G1 & _). exact G1. }
  pose proof H0 as (_ & (C0 & C1) & _).
  assert (Hbd0 : bdy B (lineStart p0 + li p0)) by (unfold p0; destruct (state p =? stOpening); exact Hbd).
  destruct (EP_closeAt B p0 d (lineStart p0 + li p0) d H0 ltac:(lia) ltac:(lia) ltac:(lia) Hbd0) as [H1 H2].
  split; [exact H1|]. intros Hp. rewrite <- Er. apply H2, Hp.
Qed.

(* the container after endBlock has a closed last child *)
Lemma endBlock_cont B p : EP B p -> bdy B (lineStart p + li p) -> nd p -> (1 <= cdepth p)%nat ->
  containerKind (endBlock p) <> ParagraphKind /\ ~ ppT (root (endBlock p)).
Proof.
  intros HE Hbd Hn Hd. destruct (EP_endBlock B p HE Hbd) as [H1 _]. pose proof H1 as (_ & _ & Hcc & _).
  revert Hcc. unfold endBlock.
  replace ((state p =? stDescending) || (state p =? stDescendTerminated)) with false by (destruct Hn as [-> |[-> | ->]]; reflexivity).
  cbv zeta. pose proof (EP_opened B p HE) as H0. set (p0 := if state p =? stOpening then withState p stOpenMatched else p) in *.
  assert (Ec : cdepth p0 = cdepth p) by (unfold p0; destruct (_ =? _); reflexivity).
  destruct (cdepth p0) as [|d] eqn:Ed; [lia|]. intros Hcc.
  pose proof H0 as (A & (C0 & C1) & A2 & A3 & A4). pose proof A2 as (_ & Hc0 & (x1 & Hx1)). unfold wf in Hx1. rewrite Ed in Hx1.
  destruct (getAt_prefix d (root p0) x1 Hx1) as (x0 & Hx0).
  assert (Hl : lastBlock x0 = Some x1) by (rewrite getAt_S_last, Hx0 in Hx1; exact Hx1).
  assert (Hk : containerKind (withCont (closeLastChildAt p0 d (lineStart p0 + li p0)) (Some d)) <> ParagraphKind).
  { unfold containerKind, contBlock. change (cdepth (withCont (closeLastChildAt p0 d (lineStart p0 + li p0)) (Some d))) with d.
    change (root (withCont (closeLastChildAt p0 d (lineStart p0 + li p0)) (Some d))) with (root (closeLastChildAt p0 d (lineStart p0 + li p0))).
    rewrite root_closeAt, getAt_updAt_same, Hx0. cbn [option_map]. rewrite closeF_kind.
    intros E. pose proof (cc_spine d (root p0) x0 x1 Hc0 Hx0 Hx1) as Hcan. rewrite E, canContain_para in Hcan. discriminate. }
  split; [exact Hk|].
  apply noPara; [exact Hcc|exact Hk|].
  intros c Hc. left. change (cdepth (withCont (closeLastChildAt p0 d (lineStart p0 + li p0)) (Some d))) with d in Hc.
  change (root (withCont (closeLastChildAt p0 d (lineStart p0 + li p0)) (Some d))) with (root (closeLastChildAt p0 d (lineStart p0 + li p0))) in Hc.
  rewrite root_closeAt, getAt_S_updAt, Hx0 in Hc. unfold closeF in Hc. rewrite Hl in Hc.
  pose proof (lastBlock_set_lastBlocks x0 _ c (closeBlock_nonnil (source p0) _ (bheight (root p0)) x1) Hc) as Hin.
  destruct (bheight_S (root p0)) as (h & Eh).
  assert (Hcl : closedL (closeBlock (bheight (root p0)) (source p0) x1 (lineStart p0 + li p0))).
  { apply (closeBlock_closedL B (lineStart p0)); [lia|rewrite Eh; lia| |].
    - eapply cc_getAt; eassumption.
    - eapply en_getAt; eassumption. }
  exact (allP_In _ _ _ Hcl Hin).
Qed.

(* ---- updates of the container that keep span, kind, children ---- *)
Lemma EP_updCont B p f : EP B p -> keeps f -> (forall M x, en B M x -> en B M (f x)) ->
  EP B (updCont p f) /\ (ppT (root (updCont p f)) -> ppT (root p)).
Proof.
  intros HE Hk Hf. pose proof HE as (A & A1 & A2 & A3 & A4). pose proof A2 as (_ & _ & Hw).
  split.
  - apply (EP_tree B p); [reflexivity|repeat split| |exact (en_updAt_at B _ f _ _ A4 (fun x _ Hx => Hf _ x Hx))|exact HE].
    apply ccP_updCont; [exact A2|]. intros x _ Hx. destruct (Hk x) as (K1 & K2 & K3 & K4). split; [|exact K4].
    rewrite (cc_ext (f x) x K3 K4). exact Hx.
  - rewrite root_updCont. apply ppT_updAt_keep; [exact Hw|]. intros x _. destruct (Hk x) as (K1 & K2 & K3 & K4).
    split; [exact K2|]. split; [exact K3|rewrite K4; tauto].
Qed.

Lemma en_keep_field B f : (forall x, bkind (f x) = bkind x /\ bstart (f x) = bstart x /\ bend (f x) = bend x /\ bik (f x) = bik x /\ bkids (f x) = bkids x) ->
  forall M x, en B M x -> en B M (f x).
Proof. intros Hf M x. rewrite !en_eq. destruct (Hf x) as (E1 & E2 & E3 & E4 & E5). rewrite E1, E2, E3, E4, E5. tauto. Qed.

Lemma EP_set_bn B p v : EP B p -> EP B (updCont p (fun b => set_bn b v)) /\ (ppT (root (updCont p (fun b => set_bn b v))) -> ppT (root p)).
Proof. intros H. apply EP_updCont; [exact H|apply keeps_bn|]. apply en_keep_field. intros x. destruct x; repeat split. Qed.
Lemma EP_set_bchar B p v : EP B p -> EP B (updCont p (fun b => set_bchar b v)) /\ (ppT (root (updCont p (fun b => set_bchar b v))) -> ppT (root p)).
Proof. intros H. apply EP_updCont; [exact H|apply keeps_bchar|]. apply en_keep_field. intros x. destruct x; repeat split. Qed.
Lemma EP_set_bindent B p v : EP B p -> EP B (updCont p (fun b => set_bindent b v)) /\ (ppT (root (updCont p (fun b => set_bindent b v))) -> ppT (root p)).
Proof. intros H. apply EP_updCont; [exact H|apply keeps_bindent|]. apply en_keep_field. intros x. destruct x; repeat split. Qed.
Lemma EP_set_fence B p fc fnn : EP B p -> EP B (updCont p (fun b => set_bn (set_bchar b fc) fnn)) /\ (ppT (root (updCont p (fun b => set_bn (set_bchar b fc) fnn))) -> ppT (root p)).
Proof. intros H. apply EP_updCont; [exact H|apply keeps_fence|]. apply en_keep_field. intros x. destruct x; repeat split. Qed.

(* adding entries to a container whose kind carries no condition *)
Lemma EP_addik_free B p g K : EP B p -> ckind p K -> freeK K -> (forall b, noU (bik b) -> noU (g b)) ->
  EP B (updCont p (fun b => set_bik b (g b))) /\ (ppT (root (updCont p (fun b => set_bik b (g b)))) -> ppT (root p)).
Proof.
  intros HE Hck HK Hg. pose proof HE as (A & A1 & A2 & A3 & A4). pose proof A2 as (_ & _ & Hw).
  split.
  - apply (EP_tree B p); [reflexivity|repeat split|apply ccP_updCont_ik, A2| |exact HE].
    rewrite root_updCont. apply en_updAt_at; [exact A4|]. intros x Hx Hen. apply en_set_bik_free; [rewrite (Hck x Hx); exact HK| |exact Hen].
    intros NL. apply Hg. apply (en_noU B _ x Hen); [rewrite (Hck x Hx); exact HK|exact NL].
  - rewrite root_updCont. apply ppT_updAt_keep; [exact Hw|]. intros x _. destruct x; repeat split; tauto.
Qed.
