(* QS2FlagA.v -- T58b (lastLineBlank flag of the last top-level child), part A: tree lemmas.
   - bp f: f keeps the end of a block; getAt/updAt below the update depth
   - POr n r: every block at depth 1..n of the right spine of r is open
   - topOK M r / topDone M r: the property of the last child of the root that the theorem is about
   - closeBlock on an open block that is not a paragraph keeps the end it is given; the setext case *)
From Coq Require Import List ZArith Lia Bool.
Import ListNotations.
Require Import Base Tree Rdr Link Collect Html Recog LP Rules Starts Driver L2Kind2 L2CC TDefs TOcp TInv TDesc BSOrph.
Open Scope Z_scope.

Definition blastOf (b : block) : bool := match b with Blk _ _ _ _ _ _ _ _ _ lb => lb end.
Lemma blastOf_eq b : blastOf b = blastBlank b. Proof. destruct b; reflexivity. Qed.

(* ---- functions that keep the end ---- *)
Definition bp (f : block -> block) : Prop := forall x, bend (f x) = bend x.

Lemma isOpen_bend x y : bend y = bend x -> isOpen y = isOpen x.
Proof. intros E. unfold isOpen. rewrite E. reflexivity. Qed.

Lemma lastBlock_ne r c : lastBlock r = Some c -> bkids r <> [].
Proof. intros El E. unfold lastBlock in El. rewrite E in El. discriminate. Qed.

Lemma getAt_updAt_bp f : bp f -> forall d d' r y, (d' <= d)%nat -> getAt d' (updAt d f r) = Some y ->
  exists x, getAt d' r = Some x /\ bend y = bend x.
Proof.
  intros Hf. induction d as [|d IH]; intros d' r y Hle H.
  - replace d' with O in * by lia. cbn [updAt getAt] in *. inversion H; subst. exists r. split; [reflexivity|apply Hf].
  - destruct d' as [|d'].
    + cbn [getAt] in H. exists r. split; [reflexivity|]. assert (E : y = updAt (S d) f r) by congruence. rewrite E. apply bend_updAt. intros E0. discriminate.
    + rewrite getAt_S in H. cbn [updAt] in H. destruct (lastBlock r) as [c|] eqn:El.
      * rewrite lastBlock_set_last in H by (eapply lastBlock_ne; exact El).
        destruct (IH d' c y ltac:(lia) H) as (x & Hx & Hb). exists x. split; [rewrite getAt_S, El; exact Hx|exact Hb].
      * rewrite El in H. discriminate.
Qed.

(* ---- the open path ---- *)
Definition POr (n : nat) (r : block) : Prop := forall d x, (1 <= d <= n)%nat -> getAt d r = Some x -> isOpen x = true.
Definition PO (p : lp) : Prop := POr (cdepth p) (root p).

Lemma POr_le n n' r : (n' <= n)%nat -> POr n r -> POr n' r.
Proof. intros Hle H d x Hd. apply H. lia. Qed.
Lemma POr_0 r : POr 0 r. Proof. intros d x Hd. lia. Qed.
Lemma POr_updAt_bp f n d r : bp f -> (n <= d)%nat -> POr n r -> POr n (updAt d f r).
Proof.
  intros Hf Hle H d0 y Hd0 Hy. destruct (getAt_updAt_bp f Hf d d0 r y ltac:(lia) Hy) as (x & Hx & Hb).
  rewrite (isOpen_bend x y Hb). apply (H d0 x Hd0 Hx).
Qed.
Lemma POr_S n r : POr n r -> (forall x, getAt (S n) r = Some x -> isOpen x = true) -> POr (S n) r.
Proof.
  intros H Hn d x Hd Hx. destruct (Nat.eq_dec d (S n)) as [->|N]; [apply Hn, Hx|]. apply (H d x); [lia|exact Hx].
Qed.

(* ---- the property of the last child of the root ---- *)
Definition topOK (M : Z) (r : block) : Prop :=
  forall b, lastBlock r = Some b -> isOpen b = true \/ M <= bend b \/ blastBlank b = true.
Definition topDone (M : Z) (r : block) : Prop :=
  forall b, lastBlock r = Some b -> isOpen b = false /\ (M <= bend b \/ blastBlank b = true).

Lemma getAt_1 r : getAt 1 r = lastBlock r.
Proof. rewrite getAt_S. destruct (lastBlock r); reflexivity. Qed.
Lemma topOK_POr M r : POr 1 r -> topOK M r.
Proof. intros H b Hb. left. apply (H 1%nat b); [lia|rewrite getAt_1; exact Hb]. Qed.
Lemma topOK_done M r : topDone M r -> topOK M r.
Proof. intros H b Hb. destruct (H b Hb) as [_ [A|A]]; [right; left; exact A|right; right; exact A]. Qed.
Lemma topOK_lastBlock M r r' : lastBlock r' = lastBlock r -> topOK M r -> topOK M r'.
Proof. intros E H b Hb. apply H. rewrite <- E. exact Hb. Qed.
Lemma topDone_lastBlock M r r' : lastBlock r' = lastBlock r -> topDone M r -> topDone M r'.
Proof. intros E H b Hb. apply H. rewrite <- E. exact Hb. Qed.
Lemma lastBlock_kids r r' : bkids r' = bkids r -> lastBlock r' = lastBlock r.
Proof. intros E. unfold lastBlock. rewrite E. reflexivity. Qed.

(* ---- the closing function ---- *)
Lemma bp_closeF p e : bp (TInv.closeF p e).
Proof. intros x. unfold TInv.closeF. destruct (lastBlock x); [apply bend_set_lastBlocks|reflexivity]. Qed.
Lemma bp_appendNb nb : bp (appendNb nb). Proof. intros x. destruct x; reflexivity. Qed.

Lemma blast_set_lastBlocks b repl : blastBlank (set_lastBlocks b repl) = blastBlank b. Proof. destruct b; reflexivity. Qed.
Lemma blast_set_bend b e : blastBlank (set_bend b e) = blastBlank b. Proof. destruct b; reflexivity. Qed.
Lemma blast_onCloseList b : blastBlank (onCloseList b) = blastBlank b.
Proof. unfold onCloseList. cbv zeta. destruct (_ || _); [|reflexivity]. destruct b; reflexivity. Qed.
Lemma blast_onCloseIndented src b : blastBlank (onCloseIndented src b) = blastBlank b.
Proof. unfold onCloseIndented. destruct b; reflexivity. Qed.

(* closing an open block that is not a paragraph: one block, with the end that was given *)
Lemma closeBlock_keep_end fuel src c e : isOpen c = true -> bkind c <> ParagraphKind -> bkind c <> SetextHeadingKind ->
  exists x, closeBlock (S fuel) src c e = [x] /\ bend x = e /\ blastBlank x = blastBlank c.
Proof.
  intros Ho N1 N2. cbn [closeBlock]. rewrite Ho. cbn [negb]. cbv zeta. rewrite !bkind_set_bend.
  assert (Hcl : forall x, bend (match lastBlock x with Some c0 => set_lastBlocks x (closeBlock fuel src c0 e) | None => x end) = bend x /\
                          blastBlank (match lastBlock x with Some c0 => set_lastBlocks x (closeBlock fuel src c0 e) | None => x end) = blastBlank x).
  { intros x. destruct (lastBlock x); [split; [apply bend_set_lastBlocks|apply blast_set_lastBlocks]|split; reflexivity]. }
  destruct (bkind c =? ListKind).
  { eexists. split; [reflexivity|]. destruct (Hcl (onCloseList (set_bend c e))) as [A B]. rewrite A, B, bend_onCloseList, blast_onCloseList, bend_set_bend, blast_set_bend. tauto. }
  destruct (bkind c =? IndentedCodeBlockKind).
  { eexists. split; [reflexivity|]. destruct (Hcl (onCloseIndented src (set_bend c e))) as [A B]. rewrite A, B, bend_onCloseIndented, blast_onCloseIndented, bend_set_bend, blast_set_bend. tauto. }
  replace ((bkind c =? ParagraphKind) || (bkind c =? SetextHeadingKind)) with false.
  2:{ symmetry. apply orb_false_iff. split; apply Z.eqb_neq; assumption. }
  eexists. split; [reflexivity|]. destruct (Hcl (set_bend c e)) as [A B]. rewrite A, B, bend_set_bend, blast_set_bend. tauto.
Qed.

(* ---- onCloseParagraph: when the paragraph run leaves paragraph content, the run on any block with the same entries ends with
        that block (restarted), which keeps its end ---- *)
Lemma bend_cut o pos ik : bend (set_bik (set_bstart o pos) ik) = bend o. Proof. destruct o; reflexivity. Qed.

Lemma ocp_last_keep : forall fuel rfuel src o1 o2 orphan r res1 res2,
  bik o1 = bik o2 ->
  lastIsPara (ocp_loop fuel rfuel src o1 None r res1) = true ->
  exists pre x, ocp_loop fuel rfuel src o2 orphan r res2 = pre ++ [x] /\ bend x = bend o2.
Proof.
  induction fuel as [|f IH]; intros rfuel src o1 o2 orphan r res1 res2 Hik H.
  { cbn [ocp_loop]. exists res2, o2. split; reflexivity. }
  assert (Hexit : exists pre x, res2 ++ [o2] = pre ++ [x] /\ bend x = bend o2) by (exists res2, o2; split; reflexivity).
  revert H. cbn [ocp_loop]. cbv zeta. rewrite <- Hik.
  destruct (parseLinkLabel rfuel r) as [[lspan linner] r1].
  destruct (negb (spanValid lspan)); [intros _; exact Hexit|].
  destruct (current r1) as [c r2]. destruct (negb (c =? 58)); [intros _; exact Hexit|].
  destruct (next r2) as [? r3]. destruct (skipLinkSpace rfuel r3) as [ok r4]. destruct (negb ok); [intros _; exact Hexit|].
  destruct (parseLinkDestination rfuel r4) as [[dspan dtext] r5]. destruct (negb (spanValid dspan)); [intros _; exact Hexit|].
  destruct (readEOL rfuel r5) as [destEOL r6]. destruct (current r6) as [c6 r7].
  destruct (_ && _ && _); [intros _; exact Hexit|].
  set (labelInline := Inl LinkLabelKind _ _ 0 _ _). set (destInline := Inl LinkDestinationKind _ _ 0 [] _).
  destruct (skipLinkSpace rfuel r7) as [ok2 r8].
  destruct (negb ok2); [rewrite lastIsPara_snoc; discriminate|].
  destruct (parseLinkTitle rfuel r8) as [[tspan ttext] r9].
  destruct (negb (spanValid tspan)).
  { destruct (destEOL <? 0); [intros _; exact Hexit|].
    destruct (nodeIndexForPosition (bik o1) (r_pos r6) <? 0); [rewrite lastIsPara_snoc; discriminate|].
    intros H. destruct (IH rfuel src _ (set_bik (set_bstart o2 (r_pos r6)) (from_ (bik o1) (nodeIndexForPosition (bik o1) (r_pos r6)))) orphan r6 _
                           (res2 ++ [refDefBlock (fst lspan) destEOL [labelInline; destInline]]) ltac:(rewrite !cut_bik; reflexivity) H) as (pre & x & E & Hb).
    exists pre, x. split; [exact E|rewrite Hb; apply bend_cut]. }
  destruct (readEOL rfuel r9) as [titleEOL r10].
  destruct (titleEOL <? 0).
  { destruct (destEOL <? 0); [intros _; exact Hexit|].
    destruct (nodeIndexForPosition (bik o1) (r_pos r6) <? 0); [rewrite lastIsPara_snoc; discriminate|].
    intros _. eexists (res2 ++ [_]), _. split; [rewrite <- app_assoc; reflexivity|apply bend_cut]. }
  set (titleInline := Inl LinkTitleKind _ _ 0 [] _).
  destruct (nodeIndexForPosition (bik o1) (r_pos r10) <? 0); [rewrite lastIsPara_snoc; discriminate|].
  intros H. destruct (IH rfuel src _ (set_bik (set_bstart o2 (r_pos r10)) (from_ (bik o1) (nodeIndexForPosition (bik o1) (r_pos r10)))) orphan r10 _
                         (res2 ++ [refDefBlock (fst lspan) titleEOL [labelInline; destInline; titleInline]]) ltac:(rewrite !cut_bik; reflexivity) H) as (pre & x & E & Hb).
  exists pre, x. split; [exact E|rewrite Hb; apply bend_cut].
Qed.

Lemma onCloseParagraph_last_keep src o1 o2 : bik o1 = bik o2 -> bkind o1 <> SetextHeadingKind ->
  lastIsPara (onCloseParagraph src o1) = true ->
  exists pre x, onCloseParagraph src o2 = pre ++ [x] /\ bend x = bend o2.
Proof.
  intros Hik Hk H. unfold onCloseParagraph in *. rewrite <- Hik. destruct (bik o1) as [|first rest] eqn:Eb.
  { exists [], o2. split; reflexivity. }
  cbv zeta in *. replace (bkind o1 =? SetextHeadingKind) with false in H by (symmetry; apply Z.eqb_neq; exact Hk).
  eapply ocp_last_keep; [|exact H]. rewrite Eb. exact Hik.
Qed.

(* closing a setext heading whose paragraph had content *)
Lemma closeBlock_setext_end fuel src c0 c e : isOpen c = true -> bkind c = SetextHeadingKind -> bik c = bik c0 ->
  bkind c0 <> SetextHeadingKind -> lastIsPara (onCloseParagraph src c0) = true ->
  exists pre x, closeBlock (S fuel) src c e = pre ++ [x] /\ bend x = e.
Proof.
  intros Ho Hk Hik Hk0 Hl. cbn [closeBlock]. rewrite Ho. cbn [negb]. cbv zeta. rewrite !bkind_set_bend, Hk.
  change (SetextHeadingKind =? ListKind) with false. change (SetextHeadingKind =? IndentedCodeBlockKind) with false.
  change ((SetextHeadingKind =? ParagraphKind) || (SetextHeadingKind =? SetextHeadingKind)) with true. cbv iota.
  destruct (onCloseParagraph_last_keep src c0 (set_bend c e) ltac:(rewrite bik_set_bend; symmetry; exact Hik) Hk0 Hl) as (pre & x & E & Hb).
  exists pre, x. split; [exact E|rewrite Hb; apply bend_set_bend].
Qed.

(* the last child after set_lastBlocks with a list that ends in x *)
Lemma lastBlock_set_lastBlocks_snoc r pre x : lastBlock (set_lastBlocks r (pre ++ [x])) = Some x.
Proof.
  unfold lastBlock, set_lastBlocks. destruct r as [K s e bk ik a n ch l lb]. cbn [set_bkids bkids].
  rewrite app_assoc, rev_app_distr. reflexivity.
Qed.
