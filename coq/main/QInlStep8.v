(* QInlStep8.v -- T64 (asm): the tokeniser loop (Inl3e.iloop) and the loop over the entries (Inl3e.outer) on the two sides,
   given the statement of the ']' branch (QInlStep5.BracketOK). *)
From Coq Require Import List ZArith Lia Bool.
Import ListNotations.
Require Import Base Tables Utf8 Tree Rdr Link Collect Html Recog Inl3a Inl3b Inl3c Inl3d Driver Inl3e.
Require Import ShapesBase ShapesR IFBase IFCollect Leaf3f GI4 GI6 IS0 IS3 IS6a IS6b IS6 IS7 IFTokDef IFTokAux IFTokUm IFFrame IFTokLoop IFTokFuel PEProof IFTree IFPe IFTk1 IFTk2 IFTk3 IFTk4 IFTk5.
Require Import SpanSmall.
Require Import QCutsDef QCuts QIRdrBase QIRdrLink QIRdrCollect QInlDefs QInlBytes QInlBytesEmph QInlHtml QInlTree1 QInlTree2 QInlTree3 QInlTree.
Require Import QInlStep0 QInlStep1 QInlStep2 QInlStep3 QInlStep4 QInlStepF QInlStep5.
Open Scope Z_scope.

Section Step8.
  Variables (sD sQ : bytes) (sg : Z -> Z) (U : list inline).
  Hypothesis SG : SGood sD sQ sg.
  Hypothesis GP : GapSp sD sQ sg.
  Hypothesis HG : Forall (gsp sD sg U) U.
  Hypothesis HOK : spOK sD U = true.
  Hypothesis HKl : forall u, In u U -> ikids u = [].
  Hypothesis HLn : IS6b.linesOK sD U = true.
  Hypothesis HNG : NoGtBehindLast sD U.
  Set Default Proof Using "All".
  Local Notation Hy l := (l sD sQ sg U SG GP HG HOK HKl HLn HNG) (only parsing).
  Notation tr := (QInlBytes.tr sg).
  Notation IR := (QInlDefs.IR sD sQ sg).
  Notation SL := (QInlTree1.SL sD).
  Notation curU := QInlTree3.curU.
  Notation Ctx := (Ctx sD sQ sg U).
  Notation T3 := (T3 sD sQ sg U).
  Notation PosR := (PosR sg U).
  Hypothesis HB : BracketOK sD sQ sg U.

  Definition LInv (st st' : ist) (pos pl pos' pl' : Z) : Prop :=
    IR st st' /\ SL (rk st) /\ LI sD U st pos /\ TKL sD U st pos /\ (forall v, In v U -> iend v <= rootEnd st) /\ PosR st st' pos pl pos' pl'.

  Lemma LI_unp st pos : LI sD U st pos -> unp st = U /\ isrc st = sD /\ 0 <= upos st <= len U.
  Proof. intros [A B C D E]. split; [apply (j_unp _ _ _ _ C)|]. split; [apply (j_src _ _ _ _ C)|exact D]. Qed.

  Lemma iloop_stop f st pos pl : (upos st <? len (unp st)) && (pos <? spanEnd st) = false -> iloop f st pos pl = (st, pl).
  Proof. intros H. destruct f as [|f]; [reflexivity|]. cbn [iloop]. rewrite H. reflexivity. Qed.

  (* the loop condition is the same on the two sides *)
  Lemma cond_q st st' pos pl pos' pl' : LInv st st' pos pl pos' pl' ->
    ((upos st' <? len (unp st')) && (pos' <? spanEnd st')) = ((upos st <? len (unp st)) && (pos <? spanEnd st)).
  Proof.
    intros (HI & HS & HLI & HT & HR & HP). destruct (LI_unp st pos HLI) as (Eu & Es & Hu).
    rewrite (loopCond_q sD sQ sg st st' HI). rewrite Eu.
    destruct (Z.ltb_spec (upos st) (len U)) as [Lu|Lu]; cbn [andb]; [|reflexivity].
    destruct HP as [HP1 _]. specialize (HP1 Lu). cbv zeta in HP1. destruct HP1 as (P1 & P2 & P3 & P4 & P5).
    assert (HC : Ctx st st' (curU st)) by (split; [exact HI|split; [exact HS|split; [exact Eu|split; [lia|reflexivity]]]]).
    destruct ((Hy Ctx_facts) st st' _ HC) as (Hin & Gu & _ & _ & Ee & Ee' & _).
    rewrite Ee, Ee', P4. apply tr_ltb.
  Qed.
  Lemma cond_true st pos : LI sD U st pos -> (upos st <? len (unp st)) && (pos <? spanEnd st) = true ->
    upos st < len U /\ pos < spanEnd st /\ spanEnd st <= len sD.
  Proof.
    intros HLI H. destruct (LI_unp st pos HLI) as (Eu & Es & Hu). rewrite Eu in H. apply andb_true_iff in H. destruct H as [A B].
    apply Z.ltb_lt in A, B. split; [exact A|]. split; [exact B|].
    rewrite (spanEnd_in U st Eu) by lia. destruct (nthU_range sD U HOK (upos st) ltac:(lia)) as (_ & _ & R). exact R.
  Qed.

  Lemma iloop_q : forall f f' st st' pos pl pos' pl', len sD - pos < Z.of_nat f -> (f <= f')%nat -> LInv st st' pos pl pos' pl' ->
    exists posF posF', LInv (fst (iloop f st pos pl)) (fst (iloop f' st' pos' pl')) posF (snd (iloop f st pos pl)) posF' (snd (iloop f' st' pos' pl')).
  Proof.
    induction f as [|f IH]; intros f' st st' pos pl pos' pl' Hf Hff HL.
    { pose proof HL as (_ & _ & HLI & _).
      destruct ((upos st <? len (unp st)) && (pos <? spanEnd st)) eqn:Ec; [destruct (cond_true st pos HLI Ec) as (_ & A & B); lia|].
      pose proof (cond_q _ _ _ _ _ _ HL) as Ec'. rewrite Ec in Ec'. rewrite (iloop_stop f' st' pos' pl' Ec'). exists pos, pos'. exact HL. }
    destruct f' as [|f']; [lia|]. cbn [iloop]. rewrite (cond_q _ _ _ _ _ _ HL).
    destruct ((upos st <? len (unp st)) && (pos <? spanEnd st)) eqn:Ec; [|exists pos, pos'; exact HL].
    pose proof HL as (HI & HS & HLI & HT & HR & HP). destruct (cond_true st pos HLI Ec) as (Lu & Lp & Le).
    destruct (LI_unp st pos HLI) as (Eu & Es & Hu).
    destruct HP as [HP1 HP2]. specialize (HP1 Lu). cbv zeta in HP1. destruct HP1 as (P1 & P2 & P3 & P4 & P5).
    set (u := curU st) in *.
    assert (HC : Ctx st st' u) by (split; [exact HI|split; [exact HS|split; [exact Eu|split; [lia|reflexivity]]]]).
    destruct ((Hy Ctx_facts) st st' u HC) as (Hin & Gu & _ & _ & Ee & Ee' & _).
    rewrite P4, P5. rewrite Ee in Lp.
    pose proof ((Hy istep_q) st st' u pos pl HB HC HLI HT HR P1 P2 Lp) as HT3.
    pose proof (LI_K sD sQ sg U SG GP HG HOK HKl HLn HNG st pos HLI) as HK.
    pose proof (istepF_prog sD U HOK (rfuelOf st) (rfuelOf st) ltac:(unfold rfuelOf; rewrite Es; apply (Hy Hrf)) st pos pl HK Lu ltac:(rewrite Ee; exact Lp)) as [Hprog _].
    pose proof (istepF_TKL sD U HOK (rfuelOf st) (rfuelOf st) ltac:(unfold rfuelOf; rewrite Es; apply (Hy Hrf)) st pos pl HK Lu ltac:(rewrite Ee; exact Lp) HT) as HT1.
    rewrite istepF_model in Hprog, HT1.
    pose proof (rE_istep st pos pl) as [HR1 _].
    pose proof (istep_LI sD U (Hy HUe) HOK (Hy HBud) HLn st pos pl) as HLI1.
    destruct (istep st pos pl) as [[s1 p1] q1]. destruct (istep st' (tr u pos) (tr u pl)) as [[s1' p1'] q1'].
    specialize (HLI1 s1 p1 q1 HLI Lu ltac:(rewrite Ee; exact Lp) eq_refl). cbn [fst snd] in *.
    destruct HT3 as (A1 & A2 & A3). cbn [fst snd] in A1, A2, A3.
    apply IH; [lia|lia|]. split; [exact A1|]. split; [exact A2|]. split; [exact HLI1|]. split; [exact HT1|]. split; [|exact A3].
    intros v Hv. rewrite HR1. apply HR, Hv.
  Qed.

  (* ---------------------------------------------------------------- the loop over the entries *)
  Definition OInv (st st' : ist) : Prop :=
    IR st st' /\ SL (rk st) /\ IS7.OI sD U st /\ IFTk5.OI sD U st /\ (forall v, In v U -> iend v <= rootEnd st).

  Lemma addText_end st st' posF pl posF' pl' : LInv st st' posF pl posF' pl' ->
    IR (addText st pl (spanEnd st)) (addText st' pl' (spanEnd st')) /\ SL (rk (addText st pl (spanEnd st))).
  Proof.
    intros (HI & HS & HLI & HT & HR & HP1 & HP2). destruct (LI_unp st posF HLI) as (Eu & Es & Hu).
    destruct (Z.lt_ge_cases (upos st) (len U)) as [Lu|Lu].
    - specialize (HP1 Lu). cbv zeta in HP1. destruct HP1 as (P1 & P2 & P3 & P4 & P5).
      assert (HC : Ctx st st' (curU st)) by (split; [exact HI|split; [exact HS|split; [exact Eu|split; [lia|reflexivity]]]]).
      destruct ((Hy Ctx_facts) st st' _ HC) as (Hin & Gu & _ & _ & Ee & Ee' & _). rewrite Ee, Ee', P5.
      apply ((Hy addText_tr) st st' (curU st) pl (iend (curU st)) HI HS Gu); lia.
    - destruct (HP2 Lu) as [A B]. rewrite !(Hy addText_rev) by assumption. split; assumption.
  Qed.

  Lemma Unparsed_ne0 : (UnparsedKind =? 0) = false. Proof. reflexivity. Qed.
  Lemma Unparsed_neI : (UnparsedKind =? IndentKind) = false. Proof. reflexivity. Qed.

  Lemma obody_q st st' : OInv st st' -> upos st < len U ->
    let u := nth (Z.to_nat (upos st)) (unp st) (mkI 0 0 0) in
    let u' := nth (Z.to_nat (upos st')) (unp st') (mkI 0 0 0) in
    let pos := if ign st then skipSpTab (length (isrc st)) (isrc st) (istart u) (spanEnd st) else istart u in
    let pos' := if ign st' then skipSpTab (length (isrc st')) (isrc st') (istart u') (spanEnd st') else istart u' in
    let r := iloop (S (length (isrc (setIgn st false)))) (setIgn st false) pos pos in
    let r' := iloop (S (length (isrc (setIgn st' false)))) (setIgn st' false) pos' pos' in
    let st2 := addText (fst r) (snd r) (spanEnd (fst r)) in
    let st2' := addText (fst r') (snd r') (spanEnd (fst r')) in
    ikind u = UnparsedKind /\ ikind u' = UnparsedKind /\ OInv (setUpos st2 (upos st2 + 1)) (setUpos st2' (upos st2' + 1)).
  Proof.
    intros (HI & HS & HO7 & HO5 & HR) Lu. cbv zeta.
    destruct HO7 as (HM & HIS & H0 & h & HJ & Hh). destruct HO5 as (Es & Eu & _ & T & HL). specialize (Hh Lu).
    assert (HC : Ctx st st' (curU st)) by (split; [exact HI|split; [exact HS|split; [exact Eu|split; [lia|reflexivity]]]]).
    destruct ((Hy Ctx_facts) st st' _ HC) as (Hin & Gu & _ & Es' & Ee & Ee' & _ & _ & Eup & Ua & Ub & Uc).
    pose proof (curU_q sD sQ sg st st' HI ltac:(rewrite Eu; lia)) as Ecu'. unfold QInlTree3.curU in Ecu', Hin, Gu, Ee, Ee', Ua, Ub, Uc, HC.
    set (u := nth (Z.to_nat (upos st)) (unp st) (mkI 0 0 0)) in *. rewrite Ecu'.
    split; [apply (Hy U_unp), Hin|]. split; [rewrite ikind_mvS; apply (Hy U_unp), Hin|].
    assert (Ei : ign st' = ign st) by apply HI. rewrite Ei, Es, Es', Ee, Ee', istart_mvS.
    set (pos := if ign st then skipSpTab (length sD) sD (istart u) (iend u) else istart u).
    assert (Hpos : istart u <= pos <= iend u).
    { unfold pos. destruct (ign st); [|lia]. destruct (skipSpTab_range sD sg U u Gu (istart u) (iend u) ltac:(lia) ltac:(lia) ltac:(lia)) as (R & _). exact R. }
    assert (Epos' : (if ign st then skipSpTab (length sQ) sQ (sg (istart u)) (tr u (iend u)) else sg (istart u)) = tr u pos).
    { unfold pos. destruct (ign st); [|unfold QInlBytes.tr; lia]. rewrite <- (tr_start sg u). apply (skipSpTab_tr sD sQ sg U SG u Gu); lia. }
    rewrite Epos'. change (isrc (setIgn st false)) with (isrc st). change (isrc (setIgn st' false)) with (isrc st'). rewrite Es, Es'.
    assert (Enu : u = nthU U (upos st)) by (unfold u, IS6a.nthU; rewrite Eu; reflexivity).
    (* the invariants at the start of the entry *)
    assert (HLI0 : LI sD U (setIgn st false) pos).
    { constructor.
      - apply MI_setIgn, HM.
      - apply Leaf3f.S_setIgn, HIS.
      - apply J_setIgn. apply (J_hi sD U h); [|exact HJ]. change (spanEnd (setIgn st false)) with (spanEnd st). rewrite Ee. rewrite <- Enu in Hh. lia.
      - cbn [setIgn upos]. lia.
      - cbn [setIgn upos]. intros _. rewrite <- Enu. split; [lia|]. rewrite ((Hy U_unp) u Hin). discriminate. }
    assert (HSb : IFTk5.Sb sD U st = istart u).
    { unfold IFTk5.Sb. destruct (Z.ltb_spec (upos st) (len U)); [|lia]. unfold u. rewrite Eu. reflexivity. }
    assert (HT0 : TKL sD U (setIgn st false) pos).
    { destruct (G_setIgn (nid st) st st false (Good_refl _ _ T)) as [TQ Q]. split; [exact TQ|]. split; [lia|].
      unfold IFTk4.Eb. cbn [setIgn upos]. destruct (Z.ltb_spec (upos st) (len U)); [|lia]. rewrite <- Eu. fold u. lia. }
    assert (HL0 : LInv (setIgn st false) (setIgn st' false) pos pos (tr u pos) (tr u pos)).
    { split; [apply (IR_setIgn sD sQ sg), HI|]. split; [exact HS|]. split; [exact HLI0|]. split; [exact HT0|]. split; [exact HR|]. split.
      - intros _. cbv zeta. unfold QInlTree3.curU. cbn [setIgn upos unp]. fold u. repeat split; lia.
      - cbn [setIgn upos]. intros; lia. }
    destruct (iloop_q (S (length sD)) (S (length sQ)) (setIgn st false) (setIgn st' false) pos pos (tr u pos) (tr u pos) ltac:(unfold len; lia) ltac:(pose proof (Hy fuel_le); lia) HL0) as (posF & posF' & HL1).
    destruct (addText_end _ _ _ _ _ _ HL1) as [I2 S2].
    destruct HL1 as (HI1 & HS1 & HLI1 & HT1 & HR1 & HP1).
    set (st1 := fst (iloop (S (length sD)) (setIgn st false) pos pos)) in *. set (pl1 := snd (iloop (S (length sD)) (setIgn st false) pos pos)) in *.
    set (st1' := fst (iloop (S (length sQ)) (setIgn st' false) (tr u pos) (tr u pos))) in *. set (pl1' := snd (iloop (S (length sQ)) (setIgn st' false) (tr u pos) (tr u pos))) in *.
    destruct (LI_unp st1 posF HLI1) as (Eu1 & Es1 & Hu1).
    destruct (addText_sameF st1 pl1 (spanEnd st1)) as (AU & AN & AS).
    assert (AU' : upos (addText st1' pl1' (spanEnd st1')) = upos st1) by (rewrite upos_addText; apply HI1).
    rewrite AU, AU'.
    split; [apply (IR_setUpos sD sQ sg), I2|]. split; [exact S2|].
    destruct HLI1 as [A B C D E]. split; [|split].
    - (* IS7.OI *)
      split; [apply MI_setUpos, MI_addText, A|]. split; [apply Leaf3f.S_setUpos, Leaf3f.S_addText, B|].
      split; [cbn [setUpos upos]; lia|]. exists (spanEnd st1). split.
      + apply J_setUpos, J_addText; [apply (J_hi sD U (Z.min posF (spanEnd st1))); [lia|exact C]|]. apply (IS7.spanEnd_le sD U HOK); assumption.
      + cbn [setUpos upos]. intros Hlt2. rewrite (spanEnd_in U st1 Eu1) by lia. apply (nthU_sorted sD U HOK (upos st1) (upos st1 + 1)); lia.
    - (* IFTk5.OI *)
      destruct HT1 as (T' & L1' & L2').
      assert (Ga : Good (nid st1) st1 (addText st1 pl1 (spanEnd st1))) by (apply G_addText, Good_refl, T').
      destruct (G_nid _ _ _ Ga) as [Ta La]. destruct (G_setUpos _ _ _ (upos st1 + 1) (Good_refl _ _ Ta)) as [Tb Lb].
      split; [cbn [isrc setUpos]; congruence|]. split; [cbn [unp setUpos]; congruence|]. split; [cbn [upos setUpos]; lia|]. split; [exact Tb|].
      unfold IFTk5.Sb. cbn [upos setUpos].
      assert (HE1 : IFTk4.Eb sD U (addText st1 pl1 (spanEnd st1)) = IFTk4.Eb sD U st1) by (unfold IFTk4.Eb; rewrite AU; reflexivity).
      destruct (Z.ltb_spec (upos st1 + 1) (len U)) as [L|L].
      + pose proof (Eb_next sD U HOK (2 * length sD + 10) st1 ltac:(lia) L). lia.
      + pose proof (Eb_le sD U HOK (2 * length sD + 10) st1 ltac:(lia)). lia.
    - intros v Hv. cbn [setUpos rootEnd]. destruct (rE_addText st1 pl1 (spanEnd st1)) as [-> _]. apply HR1, Hv.
  Qed.

  Lemma outer_q : forall f st st', OInv st st' -> OInv (outer f st) (outer f st').
  Proof.
    induction f as [|f IH]; intros st st' HO; [exact HO|]. cbn [outer]. pose proof HO as (HI & HS & HO7 & HO5 & HR).
    destruct HO5 as (Es & Eu & Hu0 & _).
    assert (Ec : (len (unp st') <=? upos st') = (len (unp st) <=? upos st)).
    { pose proof (loopCond_q sD sQ sg st st' HI) as X. rewrite !Z.leb_antisym. rewrite X. reflexivity. }
    rewrite Ec. destruct (Z.leb_spec (len (unp st)) (upos st)) as [Lu|Lu]; [exact HO|]. rewrite Eu in Lu.
    pose proof (obody_q st st' HO Lu) as H. cbv zeta in H. destruct H as (K1 & K2 & K3). cbv zeta.
    rewrite K1, K2, Unparsed_ne0, Unparsed_neI, Z.eqb_refl.
    destruct (iloop (S (length (isrc (setIgn st false)))) (setIgn st false) _ _) as [s1 p1].
    destruct (iloop (S (length (isrc (setIgn st' false)))) (setIgn st' false) _ _) as [s1' p1'].
    cbn [fst snd] in K3. apply IH, K3.
  Qed.

  (* ---------------------------------------------------------------- the whole inline pass on a leaf *)
  Theorem parseInlines_q (b c : block) m : bik b = U -> bik c = map (mvS sg) U -> 0 < bend b -> bend c = sg (bend b - 1) + 1 ->
    (forall v, In v U -> iend v <= bend b) ->
    parseInlines sQ m c = flat_map (QInlDefs.qI3 sD sg) (parseInlines sD m b).
  Proof.
    intros Eb Ec Hb0 Hbe HRE. unfold parseInlines. cbv zeta. rewrite Ec, Eb, map_length.
    set (st0 := {| rk := []; isrc := sD; unp := U; upos := 0; stk := []; ign := false; nid := 1; rootEnd := bend b; matcher := m |}).
    set (st0' := {| rk := []; isrc := sQ; unp := map (mvS sg) U; upos := 0; stk := []; ign := false; nid := 1; rootEnd := bend c; matcher := m |}).
    assert (HO : OInv st0 st0').
    { split; [unfold QInlDefs.IR; cbn; repeat split; try reflexivity; [exact Hb0|exact Hbe]|]. split; [constructor|].
      split; [|split].
      - assert (H0 : MI true U st0) by (constructor; cbn; try reflexivity; try lia; try (intros ? []); try constructor).
        assert (HS0 : Leaf3f.InvS sD U st0) by (split; [reflexivity|split; [reflexivity|split; [cbn; lia|reflexivity]]]).
        assert (HJ0 : J sD U 0 st0) by (constructor; cbn; try reflexivity; try lia; constructor).
        split; [exact H0|]. split; [exact HS0|]. split; [cbn; lia|]. exists 0. split; [exact HJ0|]. cbn [upos st0]. intros Hlt.
        destruct (nthU_range sD U HOK 0 ltac:(lia)) as (R1 & _). exact R1.
      - split; [reflexivity|]. split; [reflexivity|]. split; [cbn; lia|]. split.
        + split; [split; [intros x _; cbn; lia|intros h []]|]. split; [cbn; lia|]. split; intros d [].
        + unfold load, IFTk5.Sb. cbn [stk st0 sumW upos]. unfold len at 1. cbn [length].
          destruct (Z.ltb_spec 0 (len U)) as [Lt|Lt]; [|pose proof (ShapesBase.len_nonneg sD); lia].
          destruct (IFTokAux.spOK_In sD U _ HOK (IFTokAux.nth_In_Z U 0 (mkI 0 0 0) ltac:(lia))) as (A & _). cbn in A |- *. lia.
      - intros v Hv. apply HRE, Hv. }
    pose proof (outer_q (S (length U)) st0 st0' HO) as (HI & HS & HO7 & HO5 & HR).
    set (stF := outer (S (length U)) st0) in *. set (stF' := outer (S (length U)) st0') in *.
    destruct HO7 as (_ & _ & _ & h & HJ & _). destruct HO5 as (Es & Eu & Hu & T & HL).
    pose proof (Sb_le sD U HOK (2 * length sD + 10) (8 * length sD + 8) ltac:(lia) stF Hu) as HSb.
    destruct (IR_processEmphasis sD sQ sg SG U h stF stF' 0 HI HJ HS ltac:(lia) (TKb_TI _ _ T) ltac:(rewrite Es; unfold load in HL; lia)) as (I2 & _ & _).
    destruct I2 as (_ & _ & _ & _ & _ & _ & _ & _ & _ & Erk). rewrite Erk. apply toInline_qPs.
  Qed.
End Step8.
