From Coq Require Import List ZArith Lia Bool.
Import ListNotations.
Require Import Base Tree Rdr Link Collect Html Recog LP Rules Starts Driver Leaf3e RdrBound L2Kind L2Kind2 L2CC L2Bnd L2BndS
  TRdr TDefs TOcp TInv TDesc TStarts TLine TLine2.
Open Scope Z_scope.

(* ---- offsetTree and the shallow invariant ---- *)
Lemma bend_shiftB n c : bend (shiftB n c) = if 0 <=? bend c then bend c + n else bend c.
Proof. destruct c; reflexivity. Qed.
Lemma bik_shiftB n c : bik (shiftB n c) = map (shiftI n) (bik c). Proof. destruct c; reflexivity. Qed.
Lemma istart_shiftI n u : istart (shiftI n u) = istart u + n. Proof. destruct u; reflexivity. Qed.
Lemma iend_shiftI n u : iend (shiftI n u) = if 0 <=? iend u then iend u + n else iend u. Proof. destruct u; reflexivity. Qed.

Lemma srt_shift n : 0 <= n -> forall l, srt l -> Forall (fun u => n <= istart u) l -> srt (map (shiftI (- n)) l).
Proof.
  intros Hn. induction l as [|a r IH]; intros Hs Hl; [exact I|]. cbn [map srt]. destruct Hs as [Ha Hr]. inversion Hl as [|? ? La Lr]; subst.
  split; [|apply IH; assumption]. apply Forall_forall. intros b' Hb'. apply in_map_iff in Hb'. destruct Hb' as (b & <- & Hb).
  rewrite Forall_forall in Ha, Lr. specialize (Ha b Hb). specialize (Lr b Hb). rewrite istart_shiftI, iend_shiftI.
  destruct (Z.leb_spec 0 (iend a)); lia.
Qed.

Lemma GoodL_shift n : 0 <= n -> forall l lo, n <= lo -> GoodL lo l -> GoodL (lo - n) (map (shiftB (- n)) l).
Proof.
  intros Hn. induction l as [|c rest IH]; intros lo Hlo H; [exact I|]. cbn [map GoodL] in *.
  unfold isOpen in *. rewrite bend_shiftB.
  destruct (Z.ltb_spec (bend c) 0) as [L|L].
  - replace (0 <=? bend c) with false by (symmetry; apply Z.leb_gt; exact L).
    replace (bend c <? 0) with true by (symmetry; apply Z.ltb_lt; exact L).
    destruct H as (E & Hns & Hp). split; [rewrite E; reflexivity|]. unfold paraOK. rewrite bkind_shiftB, bik_shiftB.
    split; [exact Hns|]. intros Hk. destruct (Hp Hk) as [Hs Hl]. split.
    + apply srt_shift; [exact Hn|exact Hs|]. revert Hl. apply Forall_impl. intros u Hu. lia.
    + apply Forall_forall. intros u' Hu'. apply in_map_iff in Hu'. destruct Hu' as (u & <- & Hu). rewrite istart_shiftI.
      rewrite Forall_forall in Hl. specialize (Hl u Hu). lia.
  - destruct H as [Hlt Hr].
    replace (0 <=? bend c) with true by (symmetry; apply Z.leb_le; exact L).
    replace (bend c + - n <? 0) with false by (symmetry; apply Z.ltb_ge; lia).
    split; [lia|]. replace (bend c + - n) with (bend c - n) by lia. apply IH; [lia|exact Hr].
Qed.

(* in a GoodL list above n, closed blocks stay closed and open blocks stay open under the shift by -n *)
Lemma GoodL_closed_gt lo l : GoodL lo l -> Forall (fun c => isOpen c = false -> lo < bend c) l.
Proof.
  revert lo. induction l as [|c rest IH]; intros lo H; [constructor|]. cbn [GoodL] in H. destruct (isOpen c) eqn:Eo.
  - destruct H as [-> _]. constructor; [intros E; congruence|constructor].
  - destruct H as [Hlt Hr]. constructor; [intros _; exact Hlt|]. specialize (IH _ Hr). revert IH. apply Forall_impl. intros x Hx Hc. specialize (Hx Hc). lia.
Qed.
Lemma isOpen_shiftB n c : 0 <= n -> (isOpen c = false -> n < bend c) -> isOpen (shiftB (- n) c) = isOpen c.
Proof.
  intros Hn H. unfold isOpen in *. rewrite bend_shiftB. destruct (Z.ltb_spec (bend c) 0) as [L|L].
  - replace (0 <=? bend c) with false by (symmetry; apply Z.leb_gt; exact L). apply Z.ltb_lt. exact L.
  - specialize (H eq_refl). replace (0 <=? bend c) with true by (symmetry; apply Z.leb_le; exact L). apply Z.ltb_ge. lia.
Qed.

(* ---- bounds of the existing invariant give the upper bounds used here ---- *)
Lemma UB_of_bnd H ns l : 0 <= H -> bndL H ns l = true -> UB H false l.
Proof.
  intros H0 Hb. unfold UB. destruct (rev l) as [|c rpre] eqn:Er; [exact I|].
  assert (Hall : forall x, In x l -> bnd H ns x = true) by (unfold bndL in Hb; rewrite forallb_forall in Hb; exact Hb).
  assert (Hin : forall x, In x (c :: rpre) -> In x l) by (intros x Hx; apply in_rev; rewrite Er; exact Hx).
  split.
  - apply Forall_forall. intros x Hx. destruct (bnd_end H ns x (Hall x (Hin x (or_intror Hx)))); lia.
  - pose proof (Hall c (Hin c (or_introl eq_refl))) as Hc. split.
    + intros _. left. destruct (bnd_end H ns c Hc) as [E|E]; [|exact E]. lia.
    + intros _ Hk. apply bnd_parts in Hc. destruct Hc as [Hc _]. unfold loc in Hc. apply andb_true_iff in Hc. destruct Hc as [_ Hc].
      rewrite Hk in Hc. change (ParagraphKind =? LinkReferenceDefinitionKind) with false in Hc. cbn [orb] in Hc.
      rewrite forallb_forall in Hc. apply Forall_forall. intros u Hu. apply (entOK_le H ns u (Hc u Hu)).
Qed.
