From Coq Require Import List ZArith Lia Bool.
Import ListNotations.
Require Import Base Tree Rdr Link Collect Html Recog LP Rules Starts Driver Inl3e Stream C01a C01b Rec16 Rec17 Rec18 L2Bnd L2BndS StreamRd.
Open Scope Z_scope.

(* ================================================================================================== *)
(* Part 2: one NextBlock call.  Everything besides readline touches only buf[:bi], common to both sides *)
(* ================================================================================================== *)

Definition mkS (b : bpst) (ss : sst) : sst := {| sbp := b; serr := serr ss; srdr := srdr ss |}.

(* the in-memory parser at end of input: nothing pending, cursor at 0, no further line *)
Definition atEOF (sm : bpst) : Prop := pending sm = [] /\ bi sm = 0 /\ lineEnd (buf sm) 0 <= 0.

Definition res_rel (fin : Z) (rm : nb) (rs : nbS) : Prop :=
  match rm, rs with
  | NBBlock r1 sm', SBlock r2 ss' => r1 = r2 /\ R fin sm' ss' /\ exists ns, SI sm' (pending sm') ns
  | NBEof sm', SEnd e ss' => e = fin /\ R fin sm' ss' /\ atEOF sm'
  | NBStuck, SStuck => True
  | NBPanic a, SPanic b => a = b
  | _, _ => False
  end.

Lemma R_upto fin sm ss n : R fin sm ss -> n <= bi (sbp ss) -> upto (buf sm) n = upto (buf (sbp ss)) n.
Proof. intros (_ & _ & _ & _ & Hle & Hbuf & _) Hn. rewrite Hbuf. apply upto_app_l. lia. Qed.

Lemma makeRoot_sim fin children sm ss ns : R fin sm ss -> SI sm children ns ->
  match makeRoot children sm, makeRoot children (sbp ss) with
  | None, None => True
  | Some (r1, sm'), Some (r2, b') => r1 = r2 /\ R fin sm' (mkS b' ss) /\ SI sm' (pending sm') ns
  | _, _ => False
  end.
Proof.
  intros HR HS.
  destruct (makeRoot children sm) as [[r1 sm']|] eqn:Em.
  - destruct (SI_makeRoot _ _ _ _ _ HS Em) as [_ HS'].
    unfold makeRoot in *. destruct children as [|b rest]; [discriminate|].
    destruct (isOpen b) eqn:Eo; [discriminate|]. inversion Em; subst r1 sm'; clear Em. cbv zeta.
    destruct HS as (Hb & Hc & _).
    unfold isOpen in Eo. apply Z.ltb_ge in Eo.
    unfold bndL in Hc. cbn [forallb] in Hc. apply andb_true_iff in Hc. destruct Hc as [Hb1 _].
    destruct (bnd_end _ _ _ Hb1) as [E|E]; [lia|].
    pose proof HR as (Hbi & Hoff & Hline & Hpend & Hle & Hbuf & Hfin & Herrs & Hsmall).
    rewrite (R_upto fin sm ss (bend b) HR ltac:(lia)), Hoff, Hline.
    split; [reflexivity|]. split; [|exact HS'].
    unfold R, mkS. cbn [sbp serr srdr buf bi boff bline pending].
    repeat split; try assumption; try lia.
    + rewrite len_from by lia. lia.
    + rewrite Hbuf. apply from_app_l. lia.
    + pose proof (len_from_le (buf sm) (bend b)). lia.
  - unfold makeRoot in *. destruct children as [|b rest]; [exact I|].
    destruct (isOpen b); [exact I|discriminate].
Qed.

Lemma withBi_self s : withBi s (bi s) = s. Proof. destruct s; reflexivity. Qed.

Lemma lineLoop_sim fin : fin <> 0 -> forall fuel st children ls sm ss ns,
  R fin sm ss -> 0 <= ls <= len (buf sm) -> bi sm = lineEnd (buf sm) ls ->
  bndL ls ns children = true -> (ns = false -> ls = len (buf sm)) ->
  res_rel fin (lineLoop fuel st children ls sm) (lineLoopS fuel st children ls ss).
Proof.
  intros Hfin0. induction fuel as [|f IH]; intros st children ls sm ss ns HR Hls Hbi Hc Hn; [exact I|].
  cbn [lineLoop lineLoopS].
  pose proof HR as (Hbi' & Hoff & Hline & Hpend & Hle & Hbuf & Hfin & Herrs & Hsmall).
  rewrite <- (R_upto fin sm ss (bi (sbp ss)) HR ltac:(lia)), <- Hbi'.
  (* the bound on the children after this line, exactly as in SI_lineLoop *)
  destruct (lineEnd_spec (buf sm) ls Hls) as [A B]. rewrite <- Hbi in A, B.
  set (ln := from_ (upto (buf sm) (bi sm)) ls).
  destruct (line_of (buf sm) ls (bi sm) ltac:(lia) ltac:(lia)) as [Ll _]. fold ln in Ll.
  set (ns' := if ns then hasByteSuffixEOL ln else false).
  assert (Hc' : bndL (bi sm) ns' children = true).
  { unfold ns'. destruct ns.
    - pose proof (bndL_mono ls (bi sm) children ltac:(lia) Hc) as Hm. destruct (hasByteSuffixEOL ln); [exact Hm|apply bndL_weaken, Hm].
    - rewrite (Hn eq_refl) in *. replace (bi sm) with (len (buf sm)) by lia. exact Hc. }
  assert (Hn' : ns' = false -> bi sm = len (buf sm)).
  { unfold ns'. destruct ns; [|intros _; rewrite (Hn eq_refl) in *; lia].
    intros Ee. destruct (Z.lt_ge_cases (bi sm) (len (buf sm))) as [Lt|Ge]; [|lia].
    exfalso. rewrite Hbi in Lt. pose proof (line_hasEOL (buf sm) ls Hls Lt) as Hh. rewrite <- Hbi in Hh. fold ln in Hh. congruence. }
  pose proof (bnd_processLine (bi sm) ns' st children ls (upto (buf sm) (bi sm)) ltac:(lia) ltac:(lia) ltac:(fold ln; lia)
                ltac:(rewrite len_upto by lia; lia) ltac:(unfold ns'; fold ln; destruct ns; [tauto|discriminate]) Hc') as H1.
  destruct (processLine st children ls (upto (buf sm) (bi sm))) as [[children' st'] pn]. cbn [fst] in H1.
  destruct (negb (pn =? 0)); [reflexivity|].
  assert (HS : SI sm children' ns') by (repeat split; try lia; assumption).
  pose proof (makeRoot_sim fin children' sm ss ns' HR HS) as Hmr.
  destruct (makeRoot children' sm) as [[r1 sm']|], (makeRoot children' (sbp ss)) as [[r2 b']|]; try contradiction.
  - destruct Hmr as (E & HR' & HS'). cbn [res_rel]. split; [exact E|]. split; [exact HR'|eauto].
  - destruct (readlineS_sim fin Hfin0 (rfuel ss) sm ss HR (rfuel_ok ss)) as (ss' & E1 & HR' & _).
    rewrite E1.
    apply (IH st' children' (bi sm) _ ss' ns'); cbn [withBi buf bi]; try assumption; try lia; reflexivity.
Qed.

Lemma skipLoop_sim fin : fin <> 0 -> forall fuel sm ss,
  R fin sm ss -> bi sm = 0 -> pending sm = [] ->
  res_rel fin (skipLoop fuel sm) (skipLoopS fuel ss).
Proof.
  intros Hfin0. induction fuel as [|f IH]; intros sm ss HR Hb0 Hp0; [exact I|].
  cbn [skipLoop skipLoopS]. cbv zeta.
  destruct (readlineS_sim fin Hfin0 (rfuel ss) sm ss HR (rfuel_ok ss)) as (ss' & E1 & HR' & Herr).
  rewrite E1.
  pose proof HR as (_ & _ & _ & _ & Hle & Hbuf & _).
  assert (Hi : 0 <= bi sm <= len (buf sm)).
  { rewrite Hb0. pose proof (len_nonneg (buf sm)). lia. }
  destruct (lineEnd_spec (buf sm) (bi sm) Hi) as [A _].
  destruct (Z.ltb_spec (bi sm) (lineEnd (buf sm) (bi sm))) as [Lt|Ge]; cbn [negb].
  - set (e := lineEnd (buf sm) (bi sm)) in *.
    pose proof HR' as (Hbi' & Hoff' & Hline' & Hpend' & Hle' & Hbuf' & Hfin' & Herrs' & Hsmall').
    cbn [withBi buf bi boff bline pending] in Hbi', Hoff', Hline', Hpend', Hbuf', Hsmall'.
    pose proof (R_upto fin _ ss' (bi (sbp ss')) HR' ltac:(lia)) as Hu. cbn [withBi buf] in Hu.
    rewrite <- Hu, <- Hbi'.
    destruct (isBlankLine (upto (buf sm) e)).
    + apply IH; [|reflexivity|exact Hp0].
      unfold R. cbn [sbp serr srdr buf bi boff bline pending].
      rewrite <- Hoff', <- Hline', <- Hpend'.
      repeat split; try assumption; try lia.
      * rewrite len_from by lia. lia.
      * rewrite Hbuf', Hbi'. apply from_app_l. lia.
      * pose proof (len_from_le (buf sm) e). lia.
    + apply (lineLoop_sim fin Hfin0 f 0 [] 0 _ ss' true); cbn [withBi buf bi]; try assumption; try lia.
      * unfold e. rewrite Hb0. reflexivity.
      * reflexivity.
  - cbn [res_rel]. assert (Ee : lineEnd (buf sm) (bi sm) = bi sm) by lia.
    rewrite Ee, withBi_self in HR'.
    split; [apply Herr; reflexivity|]. split; [exact HR'|].
    unfold atEOF. rewrite Hb0 in Ee. rewrite Ee. repeat split; try assumption; lia.
Qed.

Theorem nextBlock_sim fin : fin <> 0 -> forall fuel sm ss ns,
  R fin sm ss -> SI sm (pending sm) ns ->
  res_rel fin (nextBlock fuel sm) (nextBlockS fuel ss).
Proof.
  intros Hfin0 fuel sm ss ns HR HS. unfold nextBlock, nextBlockS. cbv zeta.
  pose proof HR as (Hbi & Hoff & Hline & Hpend & Hle & Hbuf & Hfin & Herrs & Hsmall).
  pose proof (makeRoot_sim fin (pending sm) sm ss ns HR HS) as Hmr.
  rewrite <- Hpend.
  destruct (makeRoot (pending sm) sm) as [[r1 sm']|], (makeRoot (pending sm) (sbp ss)) as [[r2 b']|]; try contradiction.
  - destruct Hmr as (E & HR' & HS'). cbn [res_rel]. split; [exact E|]. split; [exact HR'|eauto].
  - destruct (pending sm) as [|b0 rest] eqn:Ep.
    + rewrite <- (R_upto fin sm ss (bi (sbp ss)) HR ltac:(lia)), <- Hbi, <- Hoff, <- Hline.
      apply skipLoop_sim; [exact Hfin0| |reflexivity|reflexivity].
      unfold R. cbn [sbp serr srdr buf bi boff bline pending].
      repeat split; try assumption; try lia.
      * rewrite Hbi, len_from by lia. lia.
      * rewrite Hbuf, Hbi. apply from_app_l. lia.
      * pose proof (len_from_le (buf sm) (bi sm)). lia.
    + destruct (readlineS_sim fin Hfin0 (rfuel ss) sm ss HR (rfuel_ok ss)) as (ss' & E1 & HR' & _).
      rewrite E1, <- Hbi.
      destruct HS as (Hb & Hc & Hn).
      apply (lineLoop_sim fin Hfin0 fuel 0 (b0 :: rest) (bi sm) _ ss' ns); cbn [withBi buf bi]; try assumption; try lia.
      rewrite <- Ep. exact HR'.
Qed.
Print Assumptions nextBlock_sim.
