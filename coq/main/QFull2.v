(* QFull2.v -- T64: the facts about the blocks of D that QFull1.parseFull_quote_of needs, apart from the inline pass itself:
     qI_qI3D      the two inline maps agree on trees whose RawHTML nodes lie in one line;
     EntSame_holds, KidsNil_holds. *)
From Coq Require Import List ZArith Lia Bool.
Import ListNotations.
Require Import Base Tree Rdr Link Collect LP Rules Driver Inl3a Inl3e L2CC SliceBase SpanHypDef LADef LA1 LA12 LA13 DefSpans DefSpansOcp DefSpansWalk
  ExInv1 ExDrv QuoteSimDefs QuoteSimMap QuoteSimReloc QuoteSimLines QuoteSimDrv1 QuoteSimDrv2 QuoteSimSpec QCutsDef QCuts QIRdrBase QInlDefs
  QS2Reloc QS2Drv1 QS2Drv2 QS2Spec QS2Drv5 QS2Spec2 QFullDefs QFull1.
Open Scope Z_scope.

Section General.
  Variable D : bytes.
  Hypothesis D_cr : noCR D.
  Lemma D_crat : forall x, 0 <= x < len D -> at_ D x <> 13.
  Proof. intros x Hx. apply (Forall_at (fun c => c <> 13)); [exact D_cr|exact Hx]. Qed.

  (* valid spans inside D; RawHTML nodes in one line *)
  Fixpoint okE (i : inline) : Prop :=
    match i with Inl k s e _ _ ks =>
      0 <= s <= e /\ e <= len D /\ (k = RawHTMLKind -> noLFin D s (e - 1)) /\
      (fix go (l : list inline) : Prop := match l with [] => True | x :: r => okE x /\ go r end) ks end.
  Lemma okE_eq i : okE i <-> 0 <= istart i <= iend i /\ iend i <= len D /\ (ikind i = RawHTMLKind -> noLFin D (istart i) (iend i - 1)) /\ Forall okE (ikids i).
  Proof.
    destruct i as [k s e ind rf ks]. cbn [okE istart iend ikind ikids].
    assert (E : forall l0, (fix go (l : list inline) : Prop := match l with [] => True | x :: r => okE x /\ go r end) l0 <-> Forall okE l0).
    { induction l0 as [|x r IH]; [split; [constructor|exact (fun _ => I)]|]. split.
      - intros [A B]. constructor; [exact A|apply IH, B].
      - intros H. inversion H as [|? ? Ha Hb]. split; [exact Ha|apply IH; exact Hb]. }
    split; intros (A & B & C & F); (split; [exact A|split; [exact B|split; [exact C|apply E, F]]]).
  Qed.

  Lemma eps_eE s e : 0 <= e -> epsilon D s e = eE (sigma D) s e.
  Proof. intros He. unfold epsilon, eE. destruct (Z.ltb_spec e 0); [lia|reflexivity]. Qed.

  Lemma qI_qI3D : forall i, okE i -> qI D i = qI3D D i.
  Proof.
    fix IH 1. intros i H. apply okE_eq in H. destruct H as (Hse & He & Hr & Hk). destruct i as [k s e ind rf ks]. cbn [istart iend ikind ikids] in *.
    unfold qI3D. cbn [qI qI3]. cbv zeta.
    assert (Ek : flat_map (qI D) ks = flat_map (qI3 D (sigma D)) ks).
    { clear -IH Hk. induction ks as [|c r IHr]; [reflexivity|]. inversion Hk as [|? ? Hc Hrest]; subst. cbn [flat_map]. rewrite (IH c Hc), (IHr Hrest). reflexivity. }
    rewrite Ek. unfold splitK.
    destruct (Z.eqb_spec k TextKind) as [Et|Nt]; cbn [orb andb].
    - destruct (Z.ltb_spec s e) as [L|L]; [|rewrite eps_eE by lia; reflexivity].
      rewrite <- (cuts_splitAt D s e D_crat ltac:(lia) L He). apply map_ext_in. intros p Hp.
      destruct (cuts_bounds D s e p L Hp) as (B1 & B2 & B3). f_equal. unfold epsilon. destruct (Z.ltb_spec (snd p) 0); [lia|]. destruct (Z.ltb_spec (fst p) (snd p)); [reflexivity|lia].
    - destruct (Z.eqb_spec k RawHTMLKind) as [Er|Nr]; cbn [andb].
      + destruct (Z.ltb_spec s e) as [L|L]; [|rewrite eps_eE by lia; reflexivity].
        rewrite (cuts_single D s e L (Hr Er)). cbn [map fst snd]. unfold epsilon. destruct (Z.ltb_spec e 0); [lia|]. destruct (Z.ltb_spec s e); [reflexivity|lia].
      + rewrite eps_eE by lia. reflexivity.
  Qed.
  Lemma qI_qI3D_list l : Forall okE l -> flat_map (qI D) l = flat_map (qI3D D) l.
  Proof. induction 1 as [|x r Hx Hr IH]; [reflexivity|]. cbn [flat_map]. rewrite (qI_qI3D x Hx), IH. reflexivity. Qed.
End General.

(* ---- what is known about every block of D ---- *)
Definition SubFacts (D : bytes) (o : Z) (b : block) : Prop :=
  exists sD' sQ' M B, len sD' <= len D - o /\ M <= len sD' /\ QS2Reloc.ceB0 sD' sQ' (sgO D o) b /\ la sD' M b /\ invD b = true /\ cc b = true /\
                      ExInv1.inv B b = true.
Lemma SubFacts_sub D o b b0 : subB b b0 -> SubFacts D o b0 -> SubFacts D o b.
Proof.
  induction 1 as [b|b c b0 Hs IH Hc]; intros H; [exact H|]. specialize (IH H). destruct IH as (sD' & sQ' & M & B & F1 & F2 & F3 & F4 & F5 & F6 & F7).
  exists sD', sQ', M, B. split; [exact F1|]. split; [exact F2|].
  apply QS2Reloc.ceB0_eq in F3. destruct F3 as (_ & _ & _ & F3). unfold QS2Reloc.ceL0 in F3. rewrite Forall_forall in F3.
  apply la_eq in F4. destruct F4 as (_ & _ & _ & _ & F4). apply QuoteSimDrv2.allQ_Forall in F4. rewrite Forall_forall in F4.
  apply invD_parts in F5. destruct F5 as [_ F5]. unfold invDL in F5. rewrite forallb_forall in F5.
  apply cc_parts in F6. destruct F6 as [_ F6]. unfold ccL in F6. rewrite forallb_forall in F6.
  apply ExInv1.inv_parts in F7. destruct F7 as [_ F7]. unfold ExInv1.invL in F7. rewrite forallb_forall in F7.
  split; [apply F3, Hc|]. split; [apply F4, Hc|]. split; [apply F5, Hc|]. split; [apply F6, Hc|apply F7, Hc].
Qed.

Section Doc.
  Variable D : bytes.
  Hypothesis HT : tabFree D.
  Hypothesis Hne : D <> [].
  Lemma D_tab : noTab D. Proof. unfold tabFree in HT. unfold noTab. eapply Forall_impl; [|exact HT]. cbv beta. tauto. Qed.
  Lemma D_cr : noCR D. Proof. unfold tabFree in HT. unfold noCR. eapply Forall_impl; [|exact HT]. cbv beta. tauto. Qed.
  Lemma D_nul : noNul D. Proof. unfold tabFree in HT. unfold noNul. eapply Forall_impl; [|exact HT]. cbv beta. tauto. Qed.

  Lemma root_SubFacts r : In r (fst (parseBlocks D)) -> 0 <= rb_start r /\ SubFacts D (rb_start r) (rb_blk r).
  Proof.
    intros Hr. destruct (parseBlocks_quote_sim3 D D_tab D_cr D_nul Hne) as (lb & _ & G). rewrite Forall_forall in G.
    destruct (G r Hr) as (Go & sD' & sQ' & M & G1 & G2 & G3 & G4 & G5 & G6).
    pose proof (parseBlocks_okRX D) as HX. rewrite Forall_forall in HX. destruct (HX r Hr) as (B & M' & _ & _ & _ & _ & Hi & _).
    split; [exact Go|]. exists sD', sQ', M, B. repeat split; assumption.
  Qed.
  Lemma sub_SubFacts r b : In r (fst (parseBlocks D)) -> subB b (rb_blk r) -> 0 <= rb_start r /\ SubFacts D (rb_start r) b.
  Proof. intros Hr Hb. destruct (root_SubFacts r Hr) as [Ho H]. split; [exact Ho|apply (SubFacts_sub D _ b (rb_blk r) Hb H)]. Qed.

  (* a block with an Unparsed entry is a leaf: no block children *)
  Theorem KidsNil_holds : KidsNilAt D.
  Proof.
    intros r b Hr Hb El. destruct (sub_SubFacts r b Hr Hb) as (Ho & sD' & sQ' & M & B & F1 & F2 & F3 & F4 & F5 & F6 & F7).
    apply (nokids b F6). apply la_eq in F4. destruct F4 as (_ & _ & _ & Hbody & _). unfold body in Hbody.
    destruct (isLeafK (bkind b)) eqn:Ek; [apply leaf_notCont, Ek|]. exfalso.
    unfold isLeafU in El. apply andb_true_iff in El. destruct El as [El1 El2].
    destruct (bkind b =? ListMarkerKind); [destruct Hbody as [_ E]; rewrite E in El1; discriminate El1|].
    destruct (Z.eqb_spec (bkind b) LinkReferenceDefinitionKind) as [E|N].
    - (* the entries of a definition block are link parts *)
      apply QS2Reloc.ceB0_eq in F3. destruct F3 as (_ & _ & L4 & _). unfold hasUnparsed in El2. apply existsb_exists in El2. destruct El2 as (u & Hu & Ku).
      rewrite Forall_forall in L4. destruct (L4 u Hu) as [_ Lp]. specialize (Lp E). apply Z.eqb_eq in Ku. rewrite Ku in Lp. discriminate Lp.
    - destruct Hbody as [_ E]. rewrite E in El1. discriminate El1.
  Qed.

  (* the entries of the blocks that the inline pass leaves alone *)
  Lemma lp_not_raw k : QuoteSimMap.isLinkPart k = true -> k <> RawHTMLKind.
  Proof. intros H E. subst k. discriminate H. Qed.
  Lemma entry_okE r b u : In r (fst (parseBlocks D)) -> subB b (rb_blk r) -> In u (bik b) -> okE D (shiftI (rb_start r) u).
  Proof.
    intros Hr Hb Hu. destruct (sub_SubFacts r b Hr Hb) as (Ho & sD' & sQ' & M & B & F1 & F2 & F3 & F4 & F5 & F6 & F7).
    set (o := rb_start r) in *. assert (HlD' : 0 <= len sD') by (unfold len; lia).
    apply QS2Reloc.ceB0_eq in F3. destruct F3 as (Ci & _ & L4 & _).
    destruct (Z.eq_dec (bkind b) LinkReferenceDefinitionKind) as [Ek|Nk].
    - (* a definition block *)
      rewrite Forall_forall in L4. destruct (L4 u Hu) as [Lk Lp]. specialize (Lp Ek). specialize (Lk Lp).
      apply la_eq in F4. destruct F4 as (B1 & B2 & _ & _ & _).
      apply invD_parts in F5. destruct F5 as [Hloc _]. unfold locD in Hloc. rewrite Ek in Hloc. change (LinkReferenceDefinitionKind =? LinkReferenceDefinitionKind) with true in Hloc. cbn [negb orb] in Hloc.
      destruct (Z.leb_spec 0 (bstart b)) as [_|]; [|lia]. cbn [negb orb] in Hloc. apply andb_true_iff in Hloc. destruct Hloc as [Hloc HD]. apply andb_true_iff in Hloc. destruct Hloc as [Hse HO].
      apply Z.leb_le in Hse.
      assert (Hvs : forall x, In x (bik b) -> istart x <= iend x).
      { intros x Hx. rewrite forallb_forall in HD. specialize (HD x Hx). unfold entD in HD. apply andb_true_iff in HD. destruct HD as [HD _]. apply andb_true_iff in HD. destruct HD as [HD _]. apply Z.leb_le, HD. }
      destruct (ordX_In _ _ _ u HO Hvs Hu) as [P1 P2]. specialize (Hvs u Hu).
      rewrite forallb_forall in HD. specialize (HD u Hu). unfold entD in HD. apply andb_true_iff in HD. destruct HD as [HD HV]. apply andb_true_iff in HD. destruct HD as [_ HOk].
      assert (Hev : forall x, In x (ikids u) -> istart x <= iend x) by (intros x Hx; rewrite forallb_forall in HV; specialize (HV x Hx); unfold vkid in HV; apply Z.leb_le, HV).
      apply ExInv1.inv_parts in F7. destruct F7 as [F7 _]. rewrite forallb_forall in F7. specialize (F7 u Hu). unfold ExInv1.eE in F7.
      assert (Hex : ExInv1.isExK (ikind u) = true).
      { unfold QuoteSimMap.isLinkPart in Lp. unfold ExInv1.isExK. destruct (ikind u =? LinkLabelKind), (ikind u =? LinkDestinationKind), (ikind u =? LinkTitleKind); try discriminate Lp; rewrite ?orb_true_r; reflexivity. }
      rewrite Hex in F7. rewrite forallb_forall in F7.
      assert (Hbe : bend b <= len D - o) by (destruct B2 as [B2|[B2 _]]; lia).
      destruct u as [k s e ind rf kids]. cbn [istart iend ikind ikids] in *. cbn [shiftI]. destruct (Z.leb_spec 0 e); [|lia].
      apply okE_eq. cbn [istart iend ikind ikids]. split; [lia|]. split; [lia|]. split; [intros E; exfalso; apply (lp_not_raw k Lp E)|].
      apply Forall_forall. intros c' Hc'. apply in_map_iff in Hc'. destruct Hc' as (c & <- & Hc).
      destruct (ordX_In _ _ _ c HOk Hev Hc) as [Q1 Q2]. specialize (Hev c Hc). rewrite Forall_forall in Lk. specialize (Lk c Hc).
      specialize (F7 c Hc). unfold ExInv1.kidOK in F7. apply andb_true_iff in F7. destruct F7 as [F7 _]. apply andb_true_iff in F7. destruct F7 as [_ F7k].
      destruct c as [kc sc ec ic rc kc']. cbn [istart iend ikids ikind] in *. subst kc'. cbn [shiftI map]. destruct (Z.leb_spec 0 ec); [|lia].
      apply okE_eq. cbn [istart iend ikind ikids]. split; [lia|]. split; [lia|]. split; [|constructor].
      intros E. exfalso. subst kc. discriminate F7k.
    - (* any other block: the entry lies in one line *)
      specialize (Ci Nk). rewrite Forall_forall in Ci. destruct (Ci u Hu) as (A1 & I0 & Bse & Ce & _ & _ & _ & K1 & K2).
      destruct u as [k s e ind rf kids]. cbn [istart iend ikind ikids] in *. unfold insideI, kidsIn in *. cbn [istart iend ikids] in *.
      assert (Hnl : forall x, s <= x < e -> nl D (o + x) = nl D (o + s)).
      { intros x Hx. pose proof (K2 x Hx) as E. rewrite !(QuoteSimSpec.sgO_nn D o Ho) in E by lia. unfold sigma in E. lia. }
      assert (Hnolf : forall a c0, s <= a -> a <= c0 -> c0 <= e -> noLFin D (a + o) (c0 + o - 1)).
      { intros a c0 H1 H2 H3 q Hq. destruct (Z.lt_ge_cases a (c0 - 1)) as [L|L]; [|lia].
        apply (nl_const_noLF D (a + o) (c0 + o - 1)); [lia|lia| |exact Hq].
        replace (c0 + o - 1) with (o + (c0 - 1)) by lia. replace (a + o) with (o + a) by lia. rewrite (Hnl (c0 - 1)), (Hnl a) by lia. reflexivity. }
      cbn [shiftI]. destruct (Z.leb_spec 0 e); [|lia].
      apply okE_eq. cbn [istart iend ikind ikids]. split; [lia|]. split; [lia|]. split; [intros _; apply Hnolf; lia|].
      apply Forall_forall. intros c' Hc'. apply in_map_iff in Hc'. destruct Hc' as (c & <- & Hc). rewrite Forall_forall in I0, K1.
      destruct (I0 c Hc) as (_ & _ & Hck). destruct (K1 c Hc) as (K3 & K4 & K5).
      destruct c as [kc sc ec ic rc kc']. cbn [istart iend ikids ikind] in *. subst kc'. cbn [shiftI map]. destruct (Z.leb_spec 0 ec); [|lia].
      apply okE_eq. cbn [istart iend ikind ikids]. split; [lia|]. split; [lia|]. split; [intros _; apply Hnolf; lia|constructor].
  Qed.

  Theorem EntSame_holds : EntSameAt D.
  Proof.
    intros r b Hr Hb _. apply (qI_qI3D_list D D_cr). apply Forall_forall. intros v Hv. apply in_map_iff in Hv. destruct Hv as (u & <- & Hu).
    apply (entry_okE r b u Hr Hb Hu).
  Qed.
End Doc.

Print Assumptions KidsNil_holds.
Print Assumptions EntSame_holds.
