From Coq Require Import List ZArith Lia Bool.
Import ListNotations.
Require Import Base Tables Utf8 Tree Rdr Link Collect Html Recog LP Driver Props.
Require Import ShapesBase BlockShapesNul BndDefs BndUtf8.
Open Scope Z_scope.

(* ================================================================== *)
(* BndBDefs: the block layer works on the NUL-padded buffer B.          *)
(*   gdb B p : p is a character boundary of B (NUL is an ASCII byte,    *)
(*             so B is valid UTF-8 whenever the input is) and p does    *)
(*             not lie between two NUL bytes (so it cannot fall inside  *)
(*             one of the 3-byte runs that become U+FFFD).              *)
(*   gI g / gB g : every span end of an inline / block tree satisfies g *)
(* ================================================================== *)

Definition nnulb (B : bytes) (p : Z) : bool :=
  (p <=? 0) || (len B <=? p) || negb (at_ B (p - 1) =? 0) || negb (at_ B p =? 0).
Definition gdb (B : bytes) (p : Z) : bool := boundary_ok B p && nnulb B p.

Fixpoint gI (g : Z -> bool) (i : inline) : bool :=
  match i with Inl _ s e _ _ ks => g s && g e && forallb (gI g) ks end.
Fixpoint gB (g : Z -> bool) (b : block) : bool :=
  match b with Blk _ s e bk ik _ _ _ _ _ => g s && g e && forallb (gB g) bk && forallb (gI g) ik end.
Definition gL (g : Z -> bool) (l : list block) : bool := forallb (gB g) l.

Lemma gI_eq g i : gI g i = g (istart i) && g (iend i) && forallb (gI g) (ikids i). Proof. destruct i; reflexivity. Qed.
Lemma gB_eq g b : gB g b = g (bstart b) && g (bend b) && gL g (bkids b) && forallb (gI g) (bik b). Proof. destruct b; reflexivity. Qed.
Lemma gB_parts g b : gB g b = true -> g (bstart b) = true /\ g (bend b) = true /\ gL g (bkids b) = true /\ forallb (gI g) (bik b) = true.
Proof.
  rewrite gB_eq. intros H. apply andb_true_iff in H. destruct H as [H H4]. apply andb_true_iff in H. destruct H as [H H3].
  apply andb_true_iff in H. tauto.
Qed.
Lemma gB_mk g b : g (bstart b) = true -> g (bend b) = true -> gL g (bkids b) = true -> forallb (gI g) (bik b) = true -> gB g b = true.
Proof. intros A B C D. rewrite gB_eq, A, B, C, D. reflexivity. Qed.
Lemma gI_parts g i : gI g i = true -> g (istart i) = true /\ g (iend i) = true /\ forallb (gI g) (ikids i) = true.
Proof. rewrite gI_eq. intros H. apply andb_true_iff in H. destruct H as [H H3]. apply andb_true_iff in H. tauto. Qed.
Lemma gI_mkI g k s e : g s = true -> g e = true -> gI g (mkI k s e) = true.
Proof. intros A B. unfold mkI. cbn [gI forallb]. rewrite A, B. reflexivity. Qed.

(* implication between position predicates *)
Lemma gI_impl (g h : Z -> bool) : (forall p, g p = true -> h p = true) -> forall i, gI g i = true -> gI h i = true.
Proof.
  intros Hgh. fix IH 1. intros [k s e ind r ks]. cbn [gI]. intros H.
  apply andb_true_iff in H. destruct H as [H H3]. apply andb_true_iff in H. destruct H as [H1 H2].
  rewrite (Hgh _ H1), (Hgh _ H2). cbn [andb].
  induction ks as [|x l IHl]; [reflexivity|]. cbn [forallb] in *. apply andb_true_iff in H3. destruct H3 as [Hx Hl].
  rewrite (IH x Hx), (IHl Hl). reflexivity.
Qed.
Lemma gB_impl (g h : Z -> bool) : (forall p, g p = true -> h p = true) -> forall b, gB g b = true -> gB h b = true.
Proof.
  intros Hgh. fix IH 1. intros [k s e bk ik a n c l lb]. cbn [gB]. intros H.
  apply andb_true_iff in H. destruct H as [H H4]. apply andb_true_iff in H. destruct H as [H H3]. apply andb_true_iff in H. destruct H as [H1 H2].
  rewrite (Hgh _ H1), (Hgh _ H2). cbn [andb].
  assert (Hk : forallb (gB h) bk = true).
  { induction bk as [|x r IHr]; [reflexivity|]. cbn [forallb] in *. apply andb_true_iff in H3. destruct H3 as [Hx Hr].
    rewrite (IH x Hx), (IHr Hr). reflexivity. }
  rewrite Hk. cbn [andb]. apply forallb_forall. intros x Hx. rewrite forallb_forall in H4. apply (gI_impl g h Hgh), H4, Hx.
Qed.

(* the checkers of BndDefs are the instances at boundary_ok *)
Lemma bndI_gI src : forall i, bndI src i = gI (boundary_ok src) i.
Proof.
  fix IH 1. intros [k s e ind r ks]. cbn [bndI gI]. f_equal.
  induction ks as [|x l IHl]; [reflexivity|]. cbn [forallb]. rewrite (IH x), IHl. reflexivity.
Qed.
Lemma bndB_gB src : forall b, bndB src b = gB (boundary_ok src) b.
Proof.
  fix IH 1. intros [k s e bk ik a n c l lb]. cbn [bndB gB]. f_equal; [f_equal|].
  - induction bk as [|x r IHr]; [reflexivity|]. cbn [forallb]. rewrite (IH x), IHr. reflexivity.
  - induction ik as [|x r IHr]; [reflexivity|]. cbn [forallb]. rewrite (bndI_gI src x), IHr. reflexivity.
Qed.

(* ---- gdb ---- *)
Lemma gdb_neg B p : p <= 0 -> boundary_ok B 0 = true -> gdb B p = true.
Proof.
  intros Hp H0. unfold gdb, nnulb. replace (p <=? 0) with true by (symmetry; apply Z.leb_le; lia). cbn [orb]. rewrite andb_true_r.
  destruct (Z.eq_dec p 0) as [->|N]; [exact H0|apply bok_neg; lia].
Qed.
Lemma gdb_neg' B p : p < 0 -> gdb B p = true.
Proof.
  intros Hp. unfold gdb, nnulb. replace (p <=? 0) with true by (symmetry; apply Z.leb_le; lia). cbn [orb]. rewrite andb_true_r. apply bok_neg, Hp.
Qed.
Lemma gdb_end B p : len B <= p -> gdb B p = true.
Proof.
  intros Hp. unfold gdb, nnulb. rewrite (bok_end B p Hp). replace (len B <=? p) with true by (symmetry; apply Z.leb_le; lia).
  rewrite orb_true_r. reflexivity.
Qed.
(* after an ASCII byte that is not NUL *)
Lemma gdb_prev B p : asciiOK B -> at_ B (p - 1) <> 0 -> at_ B (p - 1) < 128 -> gdb B p = true.
Proof.
  intros HV H0 H1. unfold gdb, nnulb.
  assert (Hp : 1 <= p) by (pose proof (at_nonzero_lt B (p - 1) H0); lia).
  rewrite (HV p Hp H1). replace (at_ B (p - 1) =? 0) with false by (symmetry; apply Z.eqb_neq; exact H0).
  cbn [negb]. rewrite orb_true_r. reflexivity.
Qed.
(* at an ASCII byte that is not NUL *)
Lemma gdb_cur B p : at_ B p <> 0 -> at_ B p < 128 -> gdb B p = true.
Proof.
  intros H0 H1. unfold gdb, nnulb. rewrite (bok_at B p H1). replace (at_ B p =? 0) with false by (symmetry; apply Z.eqb_neq; exact H0).
  cbn [negb]. rewrite orb_true_r. reflexivity.
Qed.

(* cutting the buffer at n: positions of the rest *)
Lemma gdb_shift B n p : 0 <= n <= len B -> n <= p -> gdb B p = true -> boundary_ok (from_ B n) 0 = true -> gdb (from_ B n) (p - n) = true.
Proof.
  intros Hn Hp H H0. destruct (Z.eq_dec p n) as [->|N].
  - replace (n - n) with 0 by lia. apply gdb_neg; [lia|exact H0].
  - unfold gdb, nnulb, boundary_ok in *. rewrite len_from by lia. rewrite !at_from by lia.
    replace (n + (p - n)) with p by lia. replace (n + (p - n - 1)) with (p - 1) by lia.
    apply andb_true_iff in H. destruct H as [H1 H2]. apply andb_true_iff. split.
    + destruct (Z.ltb_spec p (len B)), (Z.ltb_spec (p - n) (len B - n)); try lia; try reflexivity. exact H1.
    + apply orb_true_iff in H2. destruct H2 as [H2|H2]; [|rewrite H2; apply orb_true_r].
      apply orb_true_iff in H2. destruct H2 as [H2|H2]; [|rewrite H2; rewrite orb_true_r; reflexivity].
      apply orb_true_iff in H2. destruct H2 as [H2|H2].
      * apply Z.leb_le in H2. lia.
      * apply Z.leb_le in H2. replace (len B - n <=? p - n) with true by (symmetry; apply Z.leb_le; lia). rewrite orb_true_r. reflexivity.
Qed.

(* ---- from the padded buffer to the source of the root block ---- *)
Lemma gdb_fill B n p : 0 <= n <= len B -> tri (upto B n) -> gdb B p = true -> boundary_ok (fillNulls (upto B n)) p = true.
Proof.
  intros Hn Ht H. set (S := upto B n) in *.
  assert (HlS : len S = n) by (unfold S; rewrite len_upto; lia).
  unfold boundary_ok. rewrite (len_fillNulls S Ht), HlS.
  destruct (Z.ltb_spec p n) as [L|L]; [|reflexivity].
  destruct (Z.lt_ge_cases p 0) as [Ln|Ln]; [rewrite at_neg by lia; reflexivity|].
  unfold gdb in H. apply andb_true_iff in H. destruct H as [H1 H2].
  unfold boundary_ok in H1. replace (p <? len B) with true in H1 by (symmetry; apply Z.ltb_lt; lia). apply negb_true_iff in H1.
  rewrite (fill_at S Ht p ltac:(lia)); [reflexivity| |unfold S; rewrite at_upto by lia; exact H1].
  unfold nnulb in H2. unfold S.
  apply orb_true_iff in H2. destruct H2 as [H2|H2]; [|left; rewrite at_upto by lia; apply negb_true_iff, Z.eqb_neq in H2; exact H2].
  apply orb_true_iff in H2. destruct H2 as [H2|H2]; [|right; right; rewrite at_upto by lia; apply negb_true_iff, Z.eqb_neq in H2; exact H2].
  apply orb_true_iff in H2. destruct H2 as [H2|H2]; apply Z.leb_le in H2; [right; left; lia|lia].
Qed.

Lemma gB_fill B n b : 0 <= n <= len B -> tri (upto B n) -> gB (gdb B) b = true -> bndB (fillNulls (upto B n)) b = true.
Proof.
  intros Hn Ht H. rewrite bndB_gB. eapply gB_impl; [|exact H]. intros p Hp. apply (gdb_fill B n p Hn Ht Hp).
Qed.
