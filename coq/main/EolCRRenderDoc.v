From Coq Require Import List ZArith Lia Bool.
Import ListNotations.
Require Import Base Tables Utf8 Tree Rdr Link Collect Html Recog LP Rules Starts Driver Inl3e Render Props
  EolCRDefs EolCRBytes EolCRRdr EolCRLP EolCR EolCRRenderDefs EolCRRenderRE EolCRRenderI.
Require C05Full.
Open Scope Z_scope.

(* ====================================================================================================
   C14, CR clause, renderer, part 3: renderDoc, from
     (H1) parseFull_cr_statement : the inline pass commutes with cr (trees equal, sources mapped) -- EolCRFull.v,
     (H2) destOK_statement       : destination / autolink texts contain no line ending -- EolCRRenderTree.v.
   ==================================================================================================== *)
Definition parseFull_cr_statement : Prop :=
  forall s, ~ In 13 s -> parseFull (cr s) = (map (mapSrc cr) (fst (parseFull s)), snd (parseFull s)).

Definition renderDoc_cr_statement : Prop := forall c s, ~ In 13 s -> RE (renderDoc c s) (renderDoc c (cr s)).

(* ---- the sources of the root blocks are crRel-related to their images ---- *)
Lemma parseBlocks_rootR s : ~ In 13 s -> Forall2 rootR (fst (parseBlocks s)) (fst (parseBlocks (cr s))).
Proof.
  intros Hs. unfold parseBlocks.
  pose proof (cr_pad _ _ (crRel_cr s Hs)) as Hp. rewrite (crRel_length _ _ Hp).
  set (s0 := {| buf := pad s; bi := 0; boff := 0; bline := 1; pending := [] |}).
  set (s0' := {| buf := pad (cr s); bi := 0; boff := 0; bline := 1; pending := [] |}).
  assert (HS : relS s0 s0') by (repeat split; exact Hp).
  assert (HI : L2BndS.SI s0 (pending s0) true).
  { unfold L2BndS.SI, s0. cbn [buf bi pending]. pose proof (Rec17.len_nonneg (pad s)). repeat split; try lia; try discriminate. }
  destruct (sim_allBlocks (S (length (pad s))) s0 s0' [] [] true HS HI (Forall2_nil _)) as [A _]. exact A.
Qed.
Lemma rootR_srcs l l' : Forall2 rootR l l' -> Forall (fun x => crRel x (cr x)) (map rb_src l).
Proof.
  induction 1 as [|r r' l l' (_ & _ & _ & D & _) H IH]; [constructor|]. cbn [map]. constructor; [|exact IH].
  rewrite <- (crRel_is_cr _ _ D). exact D.
Qed.
Lemma parseFull_srcs s : map rb_src (fst (parseFull s)) = map rb_src (fst (parseBlocks s)).
Proof.
  unfold parseFull. destruct (parseBlocks s) as [roots code]. cbn [fst]. rewrite map_map. cbn [rb_src]. reflexivity.
Qed.
Lemma parseFull_crRel s : ~ In 13 s -> forall r, In r (fst (parseFull s)) -> crRel (rb_src r) (cr (rb_src r)).
Proof.
  intros Hs r Hr. pose proof (rootR_srcs _ _ (parseBlocks_rootR s Hs)) as H. rewrite <- parseFull_srcs in H.
  rewrite Forall_forall in H. apply H. apply in_map. exact Hr.
Qed.

(* ---- the node grammar gives the kind of the second entry of a definition block ---- *)
Lemma gramB_refK src : forall b pk, gramB src pk b = true -> refK b = true.
Proof.
  fix IH 1. intros b pk H. rewrite C05Full.gramB_eq in H.
  apply andb_true_iff in H. destruct H as [H _]. apply andb_true_iff in H. destruct H as [H Hk]. apply andb_true_iff in H. destruct H as [_ Hc].
  rewrite refK_eq. apply andb_true_iff. split.
  - destruct (Z.eqb_spec (bkind b) LinkReferenceDefinitionKind) as [E|_]; [|reflexivity].
    unfold C05Full.kindC in Hc. cbv zeta in Hc. rewrite E in Hc.
    change (LinkReferenceDefinitionKind =? ListKind) with false in Hc. change (LinkReferenceDefinitionKind =? ListItemKind) with false in Hc.
    change (LinkReferenceDefinitionKind =? ListMarkerKind) with false in Hc. change (LinkReferenceDefinitionKind =? BlockQuoteKind) with false in Hc.
    change (LinkReferenceDefinitionKind =? LinkReferenceDefinitionKind) with true in Hc. cbv iota in Hc.
    apply andb_true_iff in Hc. destruct Hc as [_ Hc].
    destruct (bik b) as [|l [|d [|t [|u r]]]]; try discriminate.
    + apply andb_true_iff in Hc. tauto.
    + apply andb_true_iff in Hc. destruct Hc as [Hc _]. apply andb_true_iff in Hc. tauto.
  - destruct b as [k s e bk ik a n ch lo lb]. cbn [bkids bkind] in *. clear Hc.
    induction bk as [|x l IHl]; [reflexivity|]. cbn [forallb] in *. apply andb_true_iff in Hk. destruct Hk as [Hx Hl].
    rewrite (IH x k Hx). apply IHl. exact Hl.
Qed.
Lemma parseFull_refK input : forall r, In r (fst (parseFull input)) -> refK (rb_blk r) = true.
Proof.
  intros r Hr. pose proof (C05Full.C05_full input) as H. rewrite forallb_forall in H. specialize (H r Hr).
  unfold chk_C05_root in H. apply andb_true_iff in H. destruct H as [_ H]. apply (gramB_refK _ _ _ H).
Qed.

(* ---- the reference map over all root blocks ---- *)
Lemma fold_defs_rel : forall roots acc acc',
  (forall r, In r roots -> crRel (rb_src r) (cr (rb_src r)) /\ dokB (rb_src r) (rb_blk r) = true /\ refK (rb_blk r) = true) ->
  refsR acc acc' ->
  refsR (fold_left (fun a r => extractDefs (bheight (rb_blk r)) (rb_src r) (rb_blk r) a) roots acc)
        (fold_left (fun a r => extractDefs (bheight (rb_blk r)) (rb_src r) (rb_blk r) a) (map (mapSrc cr) roots) acc').
Proof.
  induction roots as [|r roots IH]; intros acc acc' H Ha; [exact Ha|]. cbn [map fold_left]. apply IH.
  - intros x Hx. apply H. right. exact Hx.
  - destruct (H r (or_introl eq_refl)) as (A & B & C). unfold mapSrc at 1 2 3. cbn [rb_blk rb_src].
    apply (extractDefs_rel (rb_src r) (cr (rb_src r)) A); assumption.
Qed.

Theorem renderDoc_cr_of : parseFull_cr_statement -> destOK_statement -> renderDoc_cr_statement.
Proof.
  intros H1 H2 c s Hs. unfold renderDoc. rewrite (H1 s Hs).
  pose proof (parseFull_crRel s Hs) as Hcr. pose proof (parseFull_refK s) as Hrk. pose proof (H2 s) as Hd. rewrite forallb_forall in Hd.
  destruct (parseFull s) as [roots code]. cbn [fst snd] in *.
  assert (Hall : forall r, In r roots -> crRel (rb_src r) (cr (rb_src r)) /\ dokB (rb_src r) (rb_blk r) = true /\ refK (rb_blk r) = true).
  { intros r Hr. split; [apply Hcr, Hr|]. split; [apply Hd, Hr|apply Hrk, Hr]. }
  pose proof (fold_defs_rel roots [] [] Hall (Forall2_nil _)) as Hrefs.
  set (refs := fold_left _ roots []) in *. set (refs' := fold_left _ (map (mapSrc cr) roots) []) in *. clearbody refs refs'.
  apply joinBlocks_RE. rewrite map_map. clear Hcr Hrk Hd.
  induction roots as [|r roots IH]; [constructor|]. cbn [map]. constructor.
  - destruct (Hall r (or_introl eq_refl)) as (A & B & _). unfold mapSrc. cbn [rb_blk rb_src].
    apply (renderB_RE c (rb_src r) (cr (rb_src r)) A refs refs' Hrefs); exact B.
  - apply IH. intros x Hx. apply Hall. right. exact Hx.
Qed.

(* the normalised form the property test compares, for every cfg (in particular the safe-mode cfg) *)
Theorem renderDoc_cr_norm_of : renderDoc_cr_statement -> forall c s, ~ In 13 s -> normEol (renderDoc c (cr s)) = normEol (renderDoc c s).
Proof. intros H c s Hs. apply normEol_RE, H, Hs. Qed.
