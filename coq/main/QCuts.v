(* QCuts.v -- T58a: lemmas about cutting a span at line feeds (cutsF / cuts / cutsDone of QCutsDef.v). *)
From Coq Require Import List ZArith Lia Bool.
Import ListNotations.
Require Import Base Tree LP Driver QuoteSimDefs QCutsDef.
Require Import L2BndS EntBase EntDrv.
Open Scope Z_scope.

Section CutsLemmas.
  Variable src : bytes.

  (* ---- one unfolding step ---- *)
  Lemma cutsF_S n a x e :
    cutsF src (S n) a x e =
    if e <=? x + 1 then [(a, e)]
    else if at_ src x =? 10 then (a, x + 1) :: cutsF src n (x + 1) (x + 1) e
    else cutsF src n a (x + 1) e.
  Proof. reflexivity. Qed.

  Lemma cutsF_end n a x e : e <= x + 1 -> cutsF src n a x e = [(a, e)].
  Proof.
    intros H. destruct n as [|n]; [reflexivity|]. rewrite cutsF_S.
    destruct (Z.leb_spec e (x + 1)) as [L|L]; [reflexivity|exfalso; lia].
  Qed.

  (* ---- no line feed before the last byte: one piece (any fuel) ---- *)
  Lemma cutsF_noLF : forall n a x e, noLFin src x (e - 1) -> cutsF src n a x e = [(a, e)].
  Proof.
    induction n as [|n IH]; intros a x e H; [reflexivity|]. rewrite cutsF_S.
    destruct (Z.leb_spec e (x + 1)) as [L|L]; [reflexivity|].
    destruct (Z.eqb_spec (at_ src x) 10) as [E|E].
    - exfalso. apply (H x); [lia|exact E].
    - apply IH. intros y Hy. apply H. lia.
  Qed.

  (* ---- the result does not depend on the fuel once it is adequate ---- *)
  Lemma cutsF_fuel : forall n m a x e, Z.of_nat n >= e - x -> Z.of_nat m >= e - x -> cutsF src n a x e = cutsF src m a x e.
  Proof.
    induction n as [|n IH]; intros m a x e Hn Hm.
    - rewrite (cutsF_end m) by lia. reflexivity.
    - destruct m as [|m]; [rewrite (cutsF_end (S n)) by lia; reflexivity|]. rewrite !cutsF_S.
      destruct (Z.leb_spec e (x + 1)) as [L|L]; [reflexivity|].
      destruct (Z.eqb_spec (at_ src x) 10) as [E|E].
      + f_equal. apply IH; lia.
      + apply IH; lia.
  Qed.

  (* ---- a byte that is not a line feed is skipped; a line feed that is not the last byte cuts ---- *)
  Lemma cutsF_step_other n a x e : Z.of_nat n >= e - x -> at_ src x <> 10 -> cutsF src n a x e = cutsF src n a (x + 1) e.
  Proof.
    intros Hn Hx. destruct (Z.le_gt_cases e (x + 1)) as [L|L]; [rewrite !cutsF_end by lia; reflexivity|].
    destruct n as [|n]; [exfalso; lia|]. rewrite cutsF_S.
    destruct (Z.leb_spec e (x + 1)) as [L'|L']; [exfalso; lia|].
    destruct (Z.eqb_spec (at_ src x) 10) as [E|E]; [contradiction|]. apply cutsF_fuel; lia.
  Qed.

  Lemma cutsF_step_lf n a x e : Z.of_nat n >= e - x -> x + 1 < e -> at_ src x = 10 ->
    cutsF src n a x e = (a, x + 1) :: cutsF src n (x + 1) (x + 1) e.
  Proof.
    intros Hn L Hx. destruct n as [|n]; [exfalso; lia|]. rewrite cutsF_S.
    destruct (Z.leb_spec e (x + 1)) as [L'|L']; [exfalso; lia|].
    destruct (Z.eqb_spec (at_ src x) 10) as [E|E]; [|contradiction]. f_equal. apply cutsF_fuel; lia.
  Qed.

  Lemma cutsF_skip_nat : forall (k : nat) n a x e, Z.of_nat n >= e - x -> noLFin src x (x + Z.of_nat k) ->
    cutsF src n a x e = cutsF src n a (x + Z.of_nat k) e.
  Proof.
    induction k as [|k IH]; intros n a x e Hn H.
    - replace (x + Z.of_nat 0) with x by lia. reflexivity.
    - rewrite cutsF_step_other; [|exact Hn|apply H; lia].
      replace (x + Z.of_nat (S k)) with (x + 1 + Z.of_nat k) by lia. apply IH; [lia|].
      intros y Hy. apply H. lia.
  Qed.

  Lemma cutsF_skip n a x y e : Z.of_nat n >= e - x -> x <= y -> noLFin src x y -> cutsF src n a x e = cutsF src n a y e.
  Proof.
    intros Hn Hxy H. replace y with (x + Z.of_nat (Z.to_nat (y - x))) by lia. apply cutsF_skip_nat; [exact Hn|].
    intros z Hz. apply H. lia.
  Qed.

  (* ---- splitting the scan at a line feed: [y, m) ends with a line feed, [m, x) is one piece ---- *)
  Lemma cutsF_cut : forall n n' a y m x, Z.of_nat n >= x - y -> Z.of_nat n' >= m - y -> y < m -> m < x ->
    at_ src (m - 1) = 10 -> noLFin src m (x - 1) ->
    cutsF src n a y x = cutsF src n' a y m ++ [(m, x)].
  Proof.
    induction n as [|n IH]; intros n' a y m x Hn Hn' Hym Hmx Hlf Hno; [exfalso; lia|].
    destruct (Z.eq_dec (y + 1) m) as [E|N].
    - rewrite (cutsF_end n') by lia. rewrite cutsF_step_lf; [|lia|lia|replace y with (m - 1) by lia; exact Hlf].
      rewrite E. rewrite cutsF_noLF by exact Hno. reflexivity.
    - destruct n' as [|n']; [exfalso; lia|]. rewrite !cutsF_S.
      destruct (Z.leb_spec x (y + 1)) as [L1|L1]; [exfalso; lia|].
      destruct (Z.leb_spec m (y + 1)) as [L2|L2]; [exfalso; lia|].
      destruct (Z.eqb_spec (at_ src y) 10) as [E|E].
      + cbn [app]. f_equal. apply IH; try lia; assumption.
      + apply IH; try lia; assumption.
  Qed.

  (* ---- every piece is non-empty, inside [a, e), and has no line feed before its last byte ---- *)
  Lemma cutsF_inv : forall n a x e p, Z.of_nat n >= e - x -> a <= x -> x < e -> noLFin src a x -> In p (cutsF src n a x e) ->
    a <= fst p /\ fst p < snd p /\ snd p <= e /\ noLFin src (fst p) (snd p - 1).
  Proof.
    induction n as [|n IH]; intros a x e p Hn Hax Hxe Hno Hin; [exfalso; lia|]. rewrite cutsF_S in Hin.
    destruct (Z.leb_spec e (x + 1)) as [L|L].
    - destruct Hin as [<-|[]]. cbn [fst snd]. repeat split; try lia. intros y Hy. apply Hno. lia.
    - destruct (Z.eqb_spec (at_ src x) 10) as [E|E].
      + destruct Hin as [<-|Hin].
        * cbn [fst snd]. repeat split; try lia. intros y Hy. apply Hno. lia.
        * destruct (IH (x + 1) (x + 1) e p) as (A & B & C & D); [lia|lia|lia|intros y Hy; exfalso; lia|exact Hin|].
          repeat split; try lia. exact D.
      + apply (IH a (x + 1) e p); [lia|lia|lia| |exact Hin].
        intros y Hy. destruct (Z.eq_dec y x) as [->|Ny]; [exact E|apply Hno; lia].
  Qed.

  (* ================= the requested lemmas ================= *)

  (* (1) *)
  Lemma cuts_single : forall a e, a < e -> noLFin src a (e - 1) -> cuts src a e = [(a, e)].
  Proof. intros a e _ H. unfold cuts. apply cutsF_noLF. exact H. Qed.

  (* (2) *)
  Lemma cuts_cut : forall ps m x, ps <= m -> m < x -> (m = ps \/ at_ src (m - 1) = 10) -> noLFin src m (x - 1) ->
    cuts src ps x = cutsDone src ps m ++ [(m, x)].
  Proof.
    intros ps m x Hpm Hmx Hb Hno. unfold cutsDone. destruct (Z.ltb_spec ps m) as [L|L].
    - destruct Hb as [Hb|Hb]; [exfalso; lia|]. unfold cuts. apply cutsF_cut; try lia; assumption.
    - assert (m = ps) by lia. subst m. cbn [app]. apply cuts_single; [lia|exact Hno].
  Qed.

  (* (4) and (5) *)
  Lemma cuts_inv a e p : a < e -> In p (cuts src a e) ->
    a <= fst p /\ fst p < snd p /\ snd p <= e /\ noLFin src (fst p) (snd p - 1).
  Proof.
    intros Hae Hin. unfold cuts in Hin. apply (cutsF_inv (Z.to_nat (e - a)) a a e p); [lia|lia|exact Hae| |exact Hin].
    intros y Hy. exfalso. lia.
  Qed.

  Lemma cuts_bounds : forall a e p, a < e -> In p (cuts src a e) -> a <= fst p /\ fst p < snd p /\ snd p <= e.
  Proof. intros a e p Hae Hin. destruct (cuts_inv a e p Hae Hin) as (A & B & C & _). repeat split; assumption. Qed.

  Lemma cuts_noLF : forall a e p, a < e -> In p (cuts src a e) -> noLFin src (fst p) (snd p - 1).
  Proof. intros a e p Hae Hin. destruct (cuts_inv a e p Hae Hin) as (_ & _ & _ & D). exact D. Qed.

  (* ---- cutting at a line feed, then continuing with a fresh scan ---- *)
  Lemma cuts_lf a m e : a < m -> m < e -> noLFin src a (m - 1) -> at_ src (m - 1) = 10 -> cuts src a e = (a, m) :: cuts src m e.
  Proof.
    intros Ham Hme Hno Hlf. unfold cuts. rewrite (cutsF_skip _ a a (m - 1) e); [|lia|lia|exact Hno].
    rewrite cutsF_step_lf; [|lia|lia|exact Hlf]. replace (m - 1 + 1) with m by lia. f_equal. apply cutsF_fuel; lia.
  Qed.

  (* ---- (3): without CR the pieces are those of splitAt ---- *)
  Definition noCRat : Prop := forall x, 0 <= x < len src -> at_ src x <> 13.

  Lemma lineEnd_noCR s : noCRat -> 0 <= s <= len src ->
    s <= lineEnd src s <= len src /\
    (lineEnd src s < len src -> s < lineEnd src s /\ at_ src (lineEnd src s - 1) = 10) /\
    noLFin src s (lineEnd src s - 1).
  Proof.
    intros Hcr Hs. destruct (lineEnd_spec src s Hs) as [A B]. split; [exact A|]. split.
    - intros L. destruct (B L) as [B1 B2]. split; [exact B1|]. apply isEOLb_z in B2. destruct B2 as [B2|B2]; [exact B2|].
      exfalso. apply (Hcr (lineEnd src s - 1)); [lia|exact B2].
    - destruct (lineEnd_lineOK src s Hs) as (_ & _ & _ & C & _). intros y Hy E.
      destruct (C y) as [C1|(C1 & C2 & _)]; [lia|left; exact E|lia|]. apply (Hcr y); [lia|exact C2].
  Qed.

  Lemma cuts_splitAt_gen : noCRat -> forall f s e, Z.of_nat f >= e - s -> 0 <= s -> s < e -> e <= len src ->
    cuts src s e = splitAt src f s e.
  Proof.
    intros Hcr. induction f as [|f IH]; intros s e Hf Hs Hse He; [exfalso; lia|].
    destruct (lineEnd_noCR s Hcr ltac:(lia)) as (A & B & C). cbn [splitAt]. cbv zeta.
    destruct (Z.ltb_spec s (lineEnd src s)) as [L1|L1]; destruct (Z.ltb_spec (lineEnd src s) e) as [L2|L2]; cbn [andb].
    - destruct (B ltac:(lia)) as [_ B2]. rewrite (cuts_lf s (lineEnd src s) e L1 L2 C B2). f_equal. apply IH; lia.
    - apply cuts_single; [exact Hse|]. intros y Hy. apply C. lia.
    - exfalso. assert (L3 : lineEnd src s < len src) by lia. destruct (B L3) as [B1 _]. lia.
    - apply cuts_single; [exact Hse|]. intros y Hy. apply C. lia.
  Qed.

  Lemma cuts_splitAt : forall s e, (forall x, 0 <= x < len src -> at_ src x <> 13) -> 0 <= s -> s < e -> e <= len src ->
    cuts src s e = splitAt src (Z.to_nat (e - s)) s e.
  Proof. intros s e Hcr Hs Hse He. apply cuts_splitAt_gen; [exact Hcr|lia|exact Hs|exact Hse|exact He]. Qed.
End CutsLemmas.

Check cuts_single. Check cuts_cut. Check cuts_splitAt. Check cuts_bounds. Check cuts_noLF.
Print Assumptions cuts_single.
Print Assumptions cuts_bounds.
Print Assumptions cuts_noLF.
Print Assumptions cuts_cut.
Print Assumptions cuts_splitAt.
