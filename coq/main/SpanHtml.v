From Coq Require Import List ZArith Lia Bool.
Import ListNotations.
Require Import Base Tables Utf8 Tree Rdr Link Collect Html Recog Inl3a Inl3b Inl3c Inl3d Inl3e Leaf3a Leaf3e RdrBound.
Require Import SpanForest SpanIds SpanStack SpanEmph SpanSmall SpanTok SpanRdr SpanCollect SpanScan.
Open Scope Z_scope.

(* ================================================================================================
   Layer 4, part 4: the raw HTML tag scanner.
   ================================================================================================ *)
Section HtmlScan.
  Variables (src : bytes) (U : list inline) (lo hi : Z).
  Hypothesis HEC : EC src U lo hi.
  Notation nU := (nthU U).
  Notation P := (SpanRdr.P src U).
  Notation AliveAt := (SpanRdr.AliveAt src U).
  Notation RS := (SpanRdr.RS src U).

  Ltac stepc :=
    match goal with
    | H : SpanRdr.RS src U ?s ?r |- context [current ?r] =>
      let Hc := fresh "Hc" in let Hp := fresh "Hp" in let Hv := fresh "Hv" in let H41 := fresh "H41" in let Hs := fresh "Hs" in let Hcc := fresh "Hcc" in
      destruct (RS_current src U lo hi HEC s r H) as (Hc & Hp & Hv & H41 & Hs & Hcc);
      let c := fresh "c" in let r' := fresh "r" in
      destruct (current r) as [c r']; cbn [fst snd] in Hc, Hp, Hv, H41, Hs, Hcc; cbn [fst snd]
    end.
  Ltac stepn :=
    match goal with
    | H : SpanRdr.RS src U ?s ?r |- context [next ?r] =>
      let Hn := fresh "Hn" in let Hm := fresh "Hm" in let Hok := fresh "Hok" in let Hfl := fresh "Hfl" in
      destruct (RS_next src U lo hi HEC s r H) as (Hn & Hm & Hok & Hfl);
      let ok := fresh "ok" in let r' := fresh "r" in
      destruct (next r) as [ok r']; cbn [fst snd] in Hn, Hm, Hok, Hfl; cbn [fst snd]
    end.

  (* byte classes that are not blank *)
  Lemma letter_notws c : isASCIILetter c = true -> isSpaceTabOrLineEnding c = false /\ c <> 0.
  Proof.
    unfold isASCIILetter, isSpaceTabOrLineEnding. intros H. apply orb_true_iff in H.
    assert (65 <= c) by (destruct H as [H|H]; apply andb_true_iff in H; destruct H as [H _]; apply Z.leb_le in H; lia).
    split; [|lia]. replace (c =? 32) with false by (symmetry; apply Z.eqb_neq; lia). replace (c =? 9) with false by (symmetry; apply Z.eqb_neq; lia).
    replace (c =? 10) with false by (symmetry; apply Z.eqb_neq; lia). replace (c =? 13) with false by (symmetry; apply Z.eqb_neq; lia). reflexivity.
  Qed.
  Lemma ge33_notws c : 33 <= c -> isSpaceTabOrLineEnding c = false /\ c <> 0.
  Proof.
    intros H. split; [|lia]. unfold isSpaceTabOrLineEnding. replace (c =? 32) with false by (symmetry; apply Z.eqb_neq; lia).
    replace (c =? 9) with false by (symmetry; apply Z.eqb_neq; lia). replace (c =? 10) with false by (symmetry; apply Z.eqb_neq; lia).
    replace (c =? 13) with false by (symmetry; apply Z.eqb_neq; lia). reflexivity.
  Qed.
  Lemma tagchar_ge33 c : isASCIILetter c || isASCIIDigit c || (c =? 45) = true -> 33 <= c.
  Proof.
    unfold isASCIILetter, isASCIIDigit. rewrite !orb_true_iff, !andb_true_iff, !Z.leb_le, Z.eqb_eq. lia.
  Qed.
  Lemma attrchar_ge33 c : isAttrNameChar c = true -> 33 <= c.
  Proof. unfold isAttrNameChar, isASCIILetter, isASCIIDigit. rewrite !orb_true_iff, !andb_true_iff, !Z.leb_le, !Z.eqb_eq. lia. Qed.
  Lemma unq_notws c : isUnquotedAttributeValueChar c = true -> isSpaceTabOrLineEnding c = false.
  Proof. unfold isUnquotedAttributeValueChar. intros H. apply andb_true_iff in H. destruct H as [H _]. apply negb_true_iff in H. exact H. Qed.

  Definition Mono (r r' : reader) : Prop := RS true r' /\ r_pos r <= r_pos r'.

  Lemma tagName_loop_spec : forall fuel r, RS true r -> Mono r (tagName_loop fuel r).
  Proof.
    induction fuel as [|f IH]; intros r HR; cbn [tagName_loop]; [split; [exact HR|lia]|].
    stepc. destruct (isASCIILetter c || isASCIIDigit c || (c =? 45)) eqn:Ec; [|split; [exact Hc|lia]].
    destruct (ge33_notws c (tagchar_ge33 c Ec)) as (Nw & N0).
    stepn. destruct ok.
    - destruct (Hok eq_refl) as (Hr1 & _). destruct (IH _ Hr1) as (I1 & I2). split; [exact I1|lia].
    - rewrite Hcc in Hfl. split; [apply Hfl; [reflexivity|exact Nw]|lia].
  Qed.
  Lemma parseHTMLTagName_spec fuel r : RS true r -> Mono r (snd (parseHTMLTagName fuel r)).
  Proof.
    intros HR. unfold parseHTMLTagName. stepc. destruct (isASCIILetter c) eqn:Ec; cbn [negb]; [|cbn [snd]; split; [exact Hc|lia]].
    destruct (letter_notws c Ec) as (Nw & N0). stepn. destruct ok; cbn [negb snd].
    - destruct (Hok eq_refl) as (Hr1 & _). destruct (tagName_loop_spec fuel _ Hr1) as (I1 & I2). split; [exact I1|lia].
    - rewrite Hcc in Hfl. split; [apply Hfl; [reflexivity|exact Nw]|lia].
  Qed.
  Lemma attrName_loop_spec : forall fuel r, RS true r -> Mono r (snd (attrName_loop fuel r)).
  Proof.
    induction fuel as [|f IH]; intros r HR; cbn [attrName_loop]; [cbn [snd]; split; [exact HR|lia]|].
    stepc. destruct (isAttrNameChar c) eqn:Ec; [|cbn [snd]; split; [exact Hc|lia]].
    destruct (ge33_notws c (attrchar_ge33 c Ec)) as (Nw & N0).
    stepn. destruct ok.
    - destruct (Hok eq_refl) as (Hr1 & _). destruct (IH _ Hr1) as (I1 & I2). split; [exact I1|lia].
    - cbn [snd]. rewrite Hcc in Hfl. split; [apply Hfl; [reflexivity|exact Nw]|lia].
  Qed.
  Lemma untilQuote_spec q : 33 <= q -> forall fuel r, RS true r -> fst (untilQuote fuel r q) = true -> Mono r (snd (untilQuote fuel r q)).
  Proof.
    intros Hq. induction fuel as [|f IH]; intros r HR; cbn [untilQuote]; [cbn; discriminate|].
    stepc. destruct (Z.eqb_spec c q) as [Eq|Nq].
    - intros _. cbn [snd]. destruct (ge33_notws c ltac:(lia)) as (Nw & N0). stepn. cbn [snd]. destruct ok.
      + destruct (Hok eq_refl) as (Hr1 & _). split; [exact Hr1|lia].
      + rewrite Hcc in Hfl. split; [apply Hfl; [reflexivity|exact Nw]|lia].
    - stepn. destruct ok; [|cbn; discriminate]. destruct (Hok eq_refl) as (Hr1 & _). intros E. destruct (IH _ Hr1 E) as (I1 & I2). split; [exact I1|lia].
  Qed.
  Lemma unquoted_loop_spec : forall fuel r, RS true r -> isSpaceTabOrLineEnding (fst (current r)) = false -> Mono r (unquoted_loop fuel r).
  Proof.
    induction fuel as [|f IH]; intros r HR Nw; cbn [unquoted_loop]; [split; [exact HR|lia]|].
    stepn. destruct ok; cbn [negb].
    - destruct (Hok eq_refl) as (Hr1 & _). stepc. destruct (isUnquotedAttributeValueChar c) eqn:Ec; [|split; [exact Hc|lia]].
      destruct (IH _ Hc ltac:(rewrite Hcc; apply unq_notws; exact Ec)) as (I1 & I2). split; [exact I1|lia].
    - split; [apply Hfl; [reflexivity|exact Nw]|lia].
  Qed.

  Lemma parseHTMLAttribute_spec fuel r : RS true r -> fst (parseHTMLAttribute fuel r) = true -> Mono r (snd (parseHTMLAttribute fuel r)).
  Proof.
    intros HR. unfold parseHTMLAttribute. stepc.
    destruct (negb (isASCIILetter c) && negb (c =? 95) && negb (c =? 58)) eqn:Ec; [cbn; discriminate|].
    assert (H33 : 33 <= c).
    { destruct (isASCIILetter c) eqn:El; [apply tagchar_ge33; rewrite El; reflexivity|]. cbn [negb andb] in Ec.
      destruct (Z.eqb_spec c 95); [lia|]. destruct (Z.eqb_spec c 58); [lia|discriminate]. }
    destruct (ge33_notws c H33) as (Nw & N0).
    stepn. destruct ok; cbn [negb].
    2:{ intros _. cbn [snd]. rewrite Hcc in Hfl. split; [apply Hfl; [reflexivity|exact Nw]|lia]. }
    destruct (Hok eq_refl) as (Hr1 & _).
    destruct (attrName_loop_spec fuel _ Hr1) as (A1 & A2). destruct (attrName_loop fuel r1) as [cont r3]. cbn [snd] in A1, A2.
    destruct cont; cbn [negb]; [|intros _; cbn [snd]; split; [exact A1|lia]].
    destruct (skipLinkSpace_spec src U lo hi HEC fuel true r3 A1) as (K1 & K2 & K3). destruct (skipLinkSpace fuel r3) as [ok2 r4]. cbn [fst snd] in *.
    destruct ok2; cbn [negb]; [|intros _; cbn [snd]; split; [exact A1|lia]].
    specialize (K3 eq_refl). stepc. destruct (c0 =? 61); cbn [negb]; [|intros _; cbn [snd]; split; [exact A1|lia]].
    stepn. destruct ok; cbn [negb]; [|cbn; discriminate]. destruct (Hok0 eq_refl) as (Hr6 & _).
    destruct (skipLinkSpace_spec src U lo hi HEC fuel true _ Hr6) as (L1 & L2 & L3).
    match goal with |- context [skipLinkSpace fuel ?rr] => destruct (skipLinkSpace fuel rr) as [ok4 r7] end. cbn [fst snd] in *.
    destruct ok4; cbn [negb]; [|cbn; discriminate]. specialize (L3 eq_refl). stepc.
    destruct ((c1 =? 39) || (c1 =? 34)) eqn:Eq.
    - assert (Hq : 33 <= c1) by (apply orb_true_iff in Eq; destruct Eq as [X|X]; apply Z.eqb_eq in X; lia).
      stepn. destruct ok; cbn [negb]; [|cbn; discriminate]. destruct (Hok1 eq_refl) as (Hr9 & _).
      intros E. match goal with |- Mono _ (snd (untilQuote fuel ?rr c1)) => destruct (untilQuote_spec c1 Hq fuel rr Hr9 E) as (I1 & I2) end.
      split; [exact I1|lia].
    - destruct (isUnquotedAttributeValueChar c1) eqn:Eu; [|cbn; discriminate]. intros _. cbn [snd].
      match goal with |- Mono _ (unquoted_loop fuel ?rr) => destruct (unquoted_loop_spec fuel rr ltac:(assumption) ltac:(rewrite Hcc1; apply unq_notws; exact Eu)) as (I1 & I2) end.
      split; [exact I1|lia].
  Qed.

  Lemma cur62_alive r : RS true r -> fst (current r) = 62 -> r_pos r + 1 <= P.
  Proof.
    intros HR E. destruct (RS_current src U lo hi HEC true r HR) as (_ & Ep & _ & _ & Hs & _).
    destruct (Hs eq_refl ltac:(rewrite E; discriminate) ltac:(rewrite E; reflexivity)) as (k & A).
    pose proof (alive_pos src U lo hi HEC _ _ A) as (_ & _ & AP & _). lia.
  Qed.

  Lemma openTag_loop_spec : forall fuel r, RS true r -> 0 <= fst (openTag_loop fuel r) -> r_pos r <= fst (openTag_loop fuel r) <= P.
  Proof.
    induction fuel as [|f IH]; intros r HR; cbn [openTag_loop]; [cbn; lia|].
    destruct (skipLinkSpace_spec src U lo hi HEC (S f) true r HR) as (K1 & K2 & K3). destruct (skipLinkSpace (S f) r) as [ok r1]. cbn [fst snd] in *.
    destruct ok; cbn [negb]; [|cbn; lia]. specialize (K3 eq_refl).
    pose proof (cur62_alive r1 K3) as H62. stepc.
    destruct (c =? 47).
    - stepn. destruct ok; cbn [negb orb]; [|cbn; lia]. destruct (Hok eq_refl) as (Hr3 & _). destruct (jumped r2); [cbn; lia|].
      pose proof (cur62_alive r2 Hr3) as H62b. stepc. destruct (Z.eqb_spec c0 62) as [E|N]; cbn [negb]; [|cbn; lia].
      intros _. cbn [fst]. specialize (H62b E). lia.
    - destruct (Z.eqb_spec c 62) as [E|N].
      + intros _. cbn [fst]. specialize (H62 E). lia.
      + match goal with |- context [if ?b then _ else _] => destruct b end; [cbn; lia|].
        pose proof (parseHTMLAttribute_spec (S f) r0 Hc) as HA. destruct (parseHTMLAttribute (S f) r0) as [ok3 r3]. cbn [fst snd] in HA.
        destruct ok3; cbn [negb]; [|cbn; lia]. destruct (HA eq_refl) as (A1 & A2). intros E. specialize (IH r3 A1 E). lia.
  Qed.
  Lemma parseHTMLOpenTag_spec fuel r : RS true r -> 0 <= fst (parseHTMLOpenTag fuel r) -> r_pos r <= fst (parseHTMLOpenTag fuel r) <= P.
  Proof.
    intros HR. unfold parseHTMLOpenTag. destruct (parseHTMLTagName_spec fuel r HR) as (A1 & A2). destruct (parseHTMLTagName fuel r) as [ok r1]. cbn [snd] in *.
    destruct ok; cbn [negb]; [|cbn; lia]. intros E. pose proof (openTag_loop_spec fuel r1 A1 E). lia.
  Qed.
  Lemma parseHTMLClosingTag_spec fuel r : RS true r -> 0 <= fst (parseHTMLClosingTag fuel r) -> r_pos r <= fst (parseHTMLClosingTag fuel r) <= P.
  Proof.
    intros HR. unfold parseHTMLClosingTag. stepc. destruct (c =? 47); cbn [negb]; [|cbn; lia].
    stepn. destruct ok; cbn [negb orb]; [|cbn; lia]. destruct (Hok eq_refl) as (Hr2 & _). destruct (jumped r1); [cbn; lia|].
    destruct (parseHTMLTagName_spec fuel r1 Hr2) as (A1 & A2). destruct (parseHTMLTagName fuel r1) as [ok2 r3]. cbn [snd] in *.
    destruct ok2; cbn [negb]; [|cbn; lia].
    destruct (skipLinkSpace_spec src U lo hi HEC fuel true r3 A1) as (K1 & K2 & K3). destruct (skipLinkSpace fuel r3) as [ok3 r4]. cbn [fst snd] in *.
    destruct ok3; cbn [negb]; [|cbn; lia]. specialize (K3 eq_refl). pose proof (cur62_alive r4 K3) as H62. stepc.
    destruct (Z.eqb_spec c0 62) as [E|N]; cbn [negb]; [|cbn; lia]. intros _. cbn [fst]. specialize (H62 E). lia.
  Qed.

  Lemma ht_pi_spec : forall fuel r start, RS true r ->
    spanValid (ht_pi fuel r start) = true -> fst (ht_pi fuel r start) = start /\ r_pos r <= snd (ht_pi fuel r start) <= P.
  Proof.
    induction fuel as [|f IH]; intros r start HR; cbn [ht_pi]; [cbn; discriminate|]. unfold cur.
    stepc. destruct (negb (c =? 63)).
    - stepn. destruct ok; cbn [negb]; [|cbn; discriminate]. destruct (Hok eq_refl) as (Hr1 & _). intros E. destruct (IH _ start Hr1 E) as (I1 & I2). split; [exact I1|lia].
    - stepn. destruct ok; cbn [negb orb]; [|cbn; discriminate]. destruct (Hok eq_refl) as (Hr1 & _). destruct (jumped r1); [cbn; discriminate|].
      pose proof (cur62_alive r1 Hr1) as H62. destruct (Z.eqb_spec (fst (current r1)) 62) as [E|N].
      + intros _. cbn [fst snd]. specialize (H62 E). lia.
      + intros E. destruct (IH _ start Hr1 E) as (I1 & I2). split; [exact I1|lia].
  Qed.
  Lemma ht_until_spec : forall fuel r r5, RS true r -> ht_until fuel r 62 = Some r5 -> r_pos r <= r_pos r5 /\ r_pos r5 + 1 <= P.
  Proof.
    induction fuel as [|f IH]; intros r r5 HR; cbn [ht_until]; [discriminate|]. unfold cur.
    stepc. destruct (Z.eqb_spec c 62) as [E|N].
    - intros X. inversion X; subst. pose proof (cur62_alive _ Hc E). lia.
    - stepn. destruct ok; cbn [negb]; [|discriminate]. destruct (Hok eq_refl) as (Hr1 & _). intros X. destruct (IH _ _ Hr1 X). lia.
  Qed.

  (* the bytes left in the current entry *)
  Lemma RS_remaining s r : RS s r ->
    RS s (snd (remainingNodeBytes r)) /\ r_pos (snd (remainingNodeBytes r)) = r_pos r /\
    (fst (remainingNodeBytes r) <> [] -> exists k, AliveAt (snd (remainingNodeBytes r)) k /\ fst (remainingNodeBytes r) = sub src (r_pos r) (iend (nU k))).
  Proof.
    intros ([(k & A)|[A HB]] & B).
    - rewrite (remaining_alive src U lo hi HEC r k A). cbn [fst snd]. pose proof (AliveAt_foc src U r k A) as A'.
      split; [split; [left; exists k; exact A'|exact B]|]. split; [reflexivity|]. intros _. exists k. split; [exact A'|reflexivity].
    - rewrite (remaining_off src U r A). cbn [fst snd]. split; [split; [right; split; [apply Off_dead; exact A|exact HB]|exact B]|].
      split; [reflexivity|]. intros X. contradiction.
  Qed.
  Lemma prefix_len : forall (p b : bytes), hasBytePrefix b p = true -> len p <= len b.
  Proof.
    induction p as [|x p IH]; intros b H; [rewrite len_nil; apply len_nonneg|]. destruct b as [|y b]; [discriminate|].
    cbn [hasBytePrefix] in H. apply andb_true_iff in H. destruct H as [_ H]. rewrite !len_cons. specialize (IH b H). lia.
  Qed.
  Lemma nextN_pos : forall n r k, AliveAt r k -> ikind (nU k) <> IndentKind -> r_pos r + Z.of_nat n < iend (nU k) ->
    AliveAt (nextN n r) k /\ r_pos (nextN n r) = r_pos r + Z.of_nat n.
  Proof.
    induction n as [|n IH]; intros r k A Ni Hp; cbn [nextN]; [split; [exact A|lia]|].
    pose proof (alive_pos src U lo hi HEC r k A) as (A1 & A2 & _).
    destruct (next_alive src U lo hi HEC r k A) as (_ & _ & [(X & Y & [[Z _]|[_ Z]])|[(X & Hk & Ep & [Hl|Hl] & Y)|(X & Hk & Y & Ep & EP & [Hl|Hl])]]); try contradiction; try lia.
    destruct (IH (snd (next r)) k Y Ni ltac:(lia)) as (I1 & I2). split; [exact I1|lia].
  Qed.
  (* after a prefix of three bytes has been seen in the current entry, two steps stay inside it *)
  Lemma two_steps r p3 : RS true r -> len p3 = 3 -> hasBytePrefix (fst (remainingNodeBytes r)) p3 = true ->
    r_pos r <= r_pos (snd (next (snd (next (snd (remainingNodeBytes r)))))) /\ r_pos (snd (next (snd (next (snd (remainingNodeBytes r)))))) + 1 <= P.
  Proof.
    intros HR H3 Hpre. destruct (RS_remaining true r HR) as (R1 & R2 & R3). pose proof (prefix_len _ _ Hpre) as Hl.
    destruct (R3 ltac:(intros X; rewrite X in Hl; cbn in Hl; lia)) as (k & A & Er).
    pose proof (alive_pos src U lo hi HEC _ _ A) as (A1 & A2 & _). destruct (eb src U lo hi HEC k A2) as (B1 & B2 & B3). pose proof (ec_hi _ _ _ _ HEC).
    pose proof (ec_lo _ _ _ _ HEC). rewrite Er in Hl. rewrite len_sub in Hl; [|lia|lia].
    assert (Ni : ikind (nU k) <> IndentKind) by (intros Ei; pose proof (ec_width _ _ _ _ HEC k A2 Ei); lia).
    destruct (nextN_pos 2 _ k A Ni ltac:(lia)) as (N1 & N2). cbn [nextN] in N1, N2.
    pose proof (alive_pos src U lo hi HEC _ _ N1) as (_ & _ & AP & _). lia.
  Qed.

  Lemma ht_comment_spec : forall fuel r start, RS true r ->
    spanValid (ht_comment fuel r start) = true -> fst (ht_comment fuel r start) = start /\ r_pos r <= snd (ht_comment fuel r start) <= P.
  Proof.
    induction fuel as [|f IH]; intros r start HR; cbn [ht_comment]; [cbn; discriminate|].
    pose proof (two_steps r [45; 45; 62] HR eq_refl) as H2. destruct (RS_remaining true r HR) as (R1 & R2 & _).
    destruct (remainingNodeBytes r) as [rem r0]. cbn [fst snd] in *.
    destruct (hasBytePrefix rem [45; 45; 62]); [intros _; cbn [fst snd]; specialize (H2 eq_refl); lia|].
    destruct (hasBytePrefix rem [45; 45]); [cbn; discriminate|].
    stepn. destruct ok; cbn [negb]; [|cbn; discriminate]. destruct (Hok eq_refl) as (Hr1 & _). intros E. destruct (IH _ start Hr1 E) as (I1 & I2). split; [exact I1|lia].
  Qed.
  Lemma ht_cdata_spec : forall fuel r start, RS true r ->
    spanValid (ht_cdata fuel r start) = true -> fst (ht_cdata fuel r start) = start /\ r_pos r <= snd (ht_cdata fuel r start) <= P.
  Proof.
    induction fuel as [|f IH]; intros r start HR; cbn [ht_cdata]; [cbn; discriminate|].
    pose proof (two_steps r [93; 93; 62] HR eq_refl) as H2. destruct (RS_remaining true r HR) as (R1 & R2 & _).
    destruct (remainingNodeBytes r) as [rem r0]. cbn [fst snd] in *.
    destruct (hasBytePrefix rem [93; 93; 62]); [intros _; cbn [fst snd]; specialize (H2 eq_refl); lia|].
    stepn. destruct ok; cbn [negb]; [|cbn; discriminate]. destruct (Hok eq_refl) as (Hr1 & _). intros E. destruct (IH _ start Hr1 E) as (I1 & I2). split; [exact I1|lia].
  Qed.
  Lemma nextNok_spec : forall n r r', RS true r -> nextNok n r = Some r' -> RS true r' /\ r_pos r <= r_pos r'.
  Proof.
    induction n as [|n IH]; intros r r' HR; cbn [nextNok]; [intros X; inversion X; subst; split; [exact HR|lia]|].
    stepn. destruct ok; [|discriminate]. destruct (Hok eq_refl) as (Hr1 & _). intros X. destruct (IH _ _ Hr1 X) as (I1 & I2). split; [exact I1|lia].
  Qed.

  Lemma next_fail_true r k : AliveAt r k -> fst (next r) = false -> isSpaceTabOrLineEnding (at_ src (r_pos r)) = false -> RS true (snd (next r)).
  Proof.
    intros A Hf Nw. pose proof (alive_pos src U lo hi HEC r k A) as (A1 & A2 & A3 & A4 & A5).
    destruct (next_alive src U lo hi HEC r k A) as (_ & Epv & [(X & _)|[(X & _)|(_ & Hk & Y & Ep & EP & Hl)]]); [congruence|congruence|].
    assert (HN : U <> []) by (apply (U_ne U k); lia).
    split; [|lia]. right. split; [exact Y|]. intros _.
    destruct (HT src U lo hi HEC HN) as [B|(T1 & T2 & T3 & T4)]; [exact B|]. exfalso.
    replace (SpanRdr.P src U - 1) with (r_pos r) in T3 by (unfold SpanRdr.P in *; lia). rewrite T3 in Nw. discriminate.
  Qed.
  Lemma at_sub0 a b : 0 <= a < b -> b <= len src -> at_ (sub src a b) 0 = at_ src a.
  Proof. intros H1 H2. rewrite at_sub by lia. f_equal. lia. Qed.

  Lemma parseHTMLTag_spec fuel r : RS true r ->
    spanValid (parseHTMLTag fuel r) = true -> fst (parseHTMLTag fuel r) = r_pos r /\ r_pos r <= snd (parseHTMLTag fuel r) <= P.
  Proof.
    intros HR. unfold parseHTMLTag, cur. stepc. destruct (negb (c =? 60)); [cbn; discriminate|].
    stepn. destruct ok; cbn [negb orb]; [|cbn; discriminate]. destruct (Hok eq_refl) as (Hr1 & _).
    destruct (jumped r1); [cbn; discriminate|]. stepc.
    destruct (c0 =? 63).
    { stepn. destruct ok; cbn [negb]; [|cbn; discriminate]. destruct (Hok0 eq_refl) as (Hr3 & _).
      intros E. destruct (ht_pi_spec fuel _ (r_pos r) Hr3 E) as (I1 & I2). split; [exact I1|lia]. }
    destruct (c0 =? 33).
    { stepn. destruct ok; cbn [negb orb]; [|cbn; discriminate]. destruct (Hok0 eq_refl) as (Hr3 & _). destruct (jumped r3); [cbn; discriminate|].
      destruct (RS_remaining true r3 Hr3) as (R1 & R2 & R3). destruct (remainingNodeBytes r3) as [rem r4]. cbn [fst snd] in *.
      destruct ((0 <? len rem) && isASCIILetter (at_ rem 0)) eqn:El.
      - apply andb_true_iff in El. destruct El as [El1 El2]. apply Z.ltb_lt in El1.
        destruct (R3 ltac:(intros X; rewrite X in El1; cbn in El1; lia)) as (k & A & Er).
        pose proof (alive_pos src U lo hi HEC _ _ A) as (A1 & A2 & _). destruct (eb src U lo hi HEC k A2) as (B1 & B2 & B3).
        pose proof (ec_hi _ _ _ _ HEC). pose proof (ec_lo _ _ _ _ HEC).
        rewrite Er, at_sub0 in El2 by lia. destruct (letter_notws _ El2) as (Nw & _).
        assert (HR5 : RS true (snd (next r4))).
        { destruct (RS_next src U lo hi HEC true r4 R1) as (_ & _ & Hok5 & _). destruct (fst (next r4)) eqn:Eo; [apply Hok5; reflexivity|].
          apply (next_fail_true r4 k A Eo). rewrite R2. exact Nw. }
        destruct (RS_next src U lo hi HEC true r4 R1) as (_ & Hm5 & _).
        destruct (ht_until fuel (snd (next r4)) 62) as [r5|] eqn:Eu; [|cbn; discriminate].
        destruct (ht_until_spec fuel _ _ HR5 Eu) as (I1 & I2). intros _. cbn [fst snd]. lia.
      - destruct (hasBytePrefix rem [45; 45]).
        + stepn. stepn. destruct ok0; cbn [negb orb]; [|cbn; discriminate]. destruct (Hok2 eq_refl) as (Hr6 & _). destruct (jumped r6); [cbn; discriminate|].
          destruct (RS_remaining true r6 Hr6) as (Q1 & Q2 & _). destruct (remainingNodeBytes r6) as [ts r7]. cbn [fst snd] in *.
          destruct (_ || _); [cbn; discriminate|]. intros E. destruct (ht_comment_spec fuel _ (r_pos r) Q1 E) as (I1 & I2). split; [exact I1|lia].
        + destruct (hasBytePrefix rem [91; 67; 68; 65; 84; 65; 91]); [|cbn; discriminate].
          destruct (nextNok 7 r4) as [r5|] eqn:En; [|cbn; discriminate]. destruct (nextNok_spec _ _ _ R1 En) as (N1 & N2).
          intros E. destruct (ht_cdata_spec fuel _ (r_pos r) N1 E) as (I1 & I2). split; [exact I1|lia]. }
    destruct (c0 =? 47).
    { pose proof (parseHTMLClosingTag_spec fuel _ Hc0) as H. destruct (parseHTMLClosingTag fuel r2) as [e r']. cbn [fst] in H.
      destruct (Z.ltb_spec e 0); [cbn; discriminate|]. intros _. cbn [fst snd]. specialize (H ltac:(lia)). lia. }
    pose proof (parseHTMLOpenTag_spec fuel _ Hc0) as H. destruct (parseHTMLOpenTag fuel r2) as [e r']. cbn [fst] in H.
    destruct (Z.ltb_spec e 0); [cbn; discriminate|]. intros _. cbn [fst snd]. specialize (H ltac:(lia)). lia.
  Qed.

  Theorem SpecHTML_holds : SpecHTML src U.
  Proof.
    intros st pos HE. destruct (inEntry_reader src U st pos HE) as (Eu & Es & Hj & Hp & Hse). rewrite Eu.
    pose proof (RS_new src U lo hi HEC true pos (upos st) (upos st) ltac:(lia) ltac:(lia) Hp) as HR.
    pose proof (parseHTMLTag_spec (rfuelOf st) _ HR) as H.
    destruct (parseHTMLTag (rfuelOf st) (newReader src (from_ U (upos st)) pos)) as [ts te]. cbn [fst snd r_pos newReader] in H.
    intros Hv. destruct (H Hv) as (H1 & H2). subst ts. split; [reflexivity|]. split; [lia|]. split; [unfold SpanRdr.P in H2; lia|].
    apply (collect_new_okF src U lo hi HEC (rfuelOf st) (upos st) pos te RawHTMLKind false
             (RS_weaken src U true _ HR) (fuel_ok src U lo hi HEC st (upos st) Es Hj) ltac:(discriminate) pos te); lia.
  Qed.
End HtmlScan.
