(* ChkE3.v -- T30, stage 3: the entry bounds through the primitives of the line parser. *)
From Coq Require Import List ZArith Lia Bool.
Import ListNotations.
Require Import Base Tree Rdr Link Collect Html Recog LP Rules Starts Driver L2Kind2 L2CC ShapesBase ShEnv GramDefs GramTree
  GramLP Cursor CursorX NoPanic12 BSLine1 ChkW1 ChkW2 ChkW3 ChkE1 ChkE2.
Open Scope Z_scope.

Definition ES (p : lp) : Prop := ER (Mc p) (lineStart p) (root p) = true.

Lemma ES_tree p p' : root p' = root p -> lineStart p' = lineStart p -> li p <= li p' -> ES p -> ES p'.
Proof. unfold ES, Mc. intros -> -> Hl H. eapply ER_mono; [|apply Z.le_refl|exact H]. lia. Qed.

(* ---- the cursor only moves forward ---- *)
Lemma li_advance_ge p n : li p <= li (advance p n).
Proof. destruct (li_advance p n) as [E|(A & B & E)]; lia. Qed.
Lemma li_consumeLine_ge p : CUR p -> li p <= li (consumeLine p).
Proof. intros (_ & _ & C). rewrite (li_consumeLine p C). lia. Qed.
Lemma li_consumeIndent_loop_ge : forall fuel p n, li p <= li (consumeIndent_loop fuel p n).
Proof.
  induction fuel as [|f IH]; intros p n; [cbn [consumeIndent_loop]; lia|]. cbn [consumeIndent_loop]. destruct (n <=? 0); [lia|]. cbv zeta.
  set (p0 := if state p =? stOpening then withState p stOpenMatched else p).
  assert (E0 : li p0 = li p) by (unfold p0; destruct (state p =? stOpening); reflexivity).
  destruct ((li p0 <? len (line p0)) && (at_ (line p0) (li p0) =? 32)).
  - eapply Z.le_trans; [|apply IH]. cbn [li withCursor setLP]. lia.
  - destruct ((li p0 <? len (line p0)) && (at_ (line p0) (li p0) =? 9)); [|unfold panic; cbn [li setLP]; lia].
    destruct (n <? tabRem p0); [cbn [li withCursor setLP]; lia|]. eapply Z.le_trans; [|apply IH]. cbn [li withCursor setLP]. lia.
Qed.
Lemma li_consumeIndent_ge p n : li p <= li (consumeIndent p n). Proof. apply li_consumeIndent_loop_ge. Qed.

Lemma ES_advance p n : ES p -> ES (advance p n).
Proof. apply ES_tree; [apply same_advance|apply (env_src p _ (env_advance p n))|apply li_advance_ge]. Qed.
Lemma ES_consumeLine p : CUR p -> ES p -> ES (consumeLine p).
Proof. intros HC. apply ES_tree; [apply same_consumeLine|apply (env_src p _ (env_consumeLine p))|apply li_consumeLine_ge, HC]. Qed.
Lemma ES_consumeIndent p n : ES p -> ES (consumeIndent p n).
Proof. apply ES_tree; [apply same_consumeIndent|apply (env_src p _ (env_consumeIndent p n))|apply li_consumeIndent_ge]. Qed.
Lemma ES_opened p : ES p -> ES (if state p =? stOpening then withState p stOpenMatched else p).
Proof. destruct (state p =? stOpening); tauto. Qed.

(* ---- closing ---- *)
Lemma CLf_eq h s0 e b : CLf h s0 e b = CLf' h s0 e b. Proof. reflexivity. Qed.
Lemma ES_closeLastChildAt p d e : 0 <= e -> lineStart p <= e -> ES p -> ES (closeLastChildAt p d e).
Proof.
  intros He Hl H. unfold ES, closeLastChildAt, Mc. cbn [root lineStart li withRoot setLP].
  change (fun b : block => match lastBlock b with Some c => set_lastBlocks b (closeBlock (bheight (root p)) (source p) c e) | None => b end)
    with (CLf' (bheight (root p)) (source p) e).
  apply ER_updAt_at; [intros x; apply (E_CLf (lineStart p + li p) (lineStart p) (bheight (root p)) (source p) e He Hl x)|exact H| |].
  - intros _. apply (E_CLf (lineStart p + li p) (lineStart p) (bheight (root p)) (source p) e He Hl (root p)). exact H.
  - intros x _ _. apply (E_CLf (lineStart p + li p) (lineStart p) (bheight (root p)) (source p) e He Hl x).
Qed.
Lemma ES_openBlock_up : forall fuel p kind, 0 <= lineStart p -> ES p -> ES (openBlock_up fuel p kind).
Proof.
  induction fuel as [|f IH]; intros p kind Hl H; [assumption|]. cbn [openBlock_up].
  destruct (canContain _ _); [assumption|]. destruct (cdepth p); [exact H|].
  apply IH; [exact Hl|]. apply (ES_closeLastChildAt p n (lineStart p) Hl ltac:(lia) H).
Qed.

Lemma Eb_newBlock M U kind pos : pos <= M -> Eb M U (newBlock kind pos) = true.
Proof. intros H. unfold newBlock. apply Eb_mk; [exact H|reflexivity|reflexivity]. Qed.
Lemma hasRefB_append b nb : hasRefB b = true -> hasRefB (set_bkids b (bkids b ++ [nb])) = true.
Proof.
  intros H. rewrite hasRefB_set_bkids, hasRefL_app. rewrite hasRefB_eq in H. apply orb_true_iff in H. destruct H as [H|H]; rewrite H; rewrite ?orb_true_r; reflexivity.
Qed.
Lemma ES_append p nb : Eb (Mc p) (lineStart p) nb = true -> ES p -> ES (updCont p (fun b => set_bkids b (bkids b ++ [nb]))).
Proof.
  intros Hn H. unfold ES, updCont, Mc in *. cbn [root lineStart li withRoot setLP].
  apply ER_updAt_at; [intros x; apply hasRefB_append|exact H| |].
  - intros _. apply ER_parts in H. destruct H as (A & B & C). apply ER_mk; [destruct (root p); exact A|destruct (root p); exact B|].
    replace (bkids (set_bkids (root p) (bkids (root p) ++ [nb]))) with (bkids (root p) ++ [nb]) by (destruct (root p); reflexivity).
    apply EP_snoc; assumption.
  - intros x _ _ Hx. right. apply Eb_parts in Hx. destruct Hx as (A & B & C). apply Eb_mk; [destruct x; exact A|destruct x; exact B|].
    replace (bkids (set_bkids x (bkids x ++ [nb]))) with (bkids x ++ [nb]) by (destruct x; reflexivity).
    rewrite EbL_app, C. cbn [EbL forallb]. rewrite Hn. reflexivity.
Qed.

Lemma ES_openBlock p kind : CUR p -> ES p -> ES (openBlock p kind).
Proof.
  intros HC H. unfold openBlock. destruct (_ || _); [exact H|]. cbv zeta.
  set (p0 := if state p =? stOpening then withState p stOpenMatched else p).
  assert (H0 : ES p0) by (apply ES_opened, H).
  assert (L0 : lineStart p0 = lineStart p) by (unfold p0; destruct (state p =? stOpening); reflexivity).
  set (p1 := openBlock_up (S (cdepth p0)) p0 kind).
  assert (Hl : 0 <= lineStart p) by (destruct HC as (_ & B & _); lia).
  assert (H1 : ES p1) by (apply ES_openBlock_up; [lia|exact H0]).
  assert (L1 : lineStart p1 = lineStart p) by (unfold p1; rewrite (proj2 (env_openBlock_up' _ _ _)); exact L0).
  set (p2 := closeLastChildAt p1 (cdepth p1) (lineStart p1)).
  assert (H2 : ES p2) by (apply ES_closeLastChildAt; [lia|lia|exact H1]).
  apply (ES_tree (updCont p2 (fun b => set_bkids b (bkids b ++ [newBlock kind (lineStart p2 + li p2)])))); [reflexivity|reflexivity|cbn; lia|].
  apply ES_append; [|exact H2]. apply Eb_newBlock. unfold Mc. lia.
Qed.
Lemma ES_endBlock p : CUR p -> ES p -> ES (endBlock p).
Proof.
  intros HC H. unfold endBlock. destruct (_ || _); [exact H|]. cbv zeta.
  set (p0 := if state p =? stOpening then withState p stOpenMatched else p).
  assert (H0 : ES p0) by (apply ES_opened, H).
  assert (E0 : lineStart p0 = lineStart p /\ li p0 = li p) by (unfold p0; destruct (state p =? stOpening); split; reflexivity).
  destruct E0 as [E1 E2]. destruct HC as (_ & B & C).
  destruct (cdepth p0) eqn:Ed; [exact H0|].
  apply (ES_tree (closeLastChildAt p0 n (lineStart p0 + li p0))); [reflexivity|reflexivity|cbn; lia|].
  apply ES_closeLastChildAt; [lia|lia|exact H0].
Qed.

(* setters that change neither spans, entries nor children *)
Lemma ES_updCont_ext p f : (forall b, bstart (f b) = bstart b /\ bend (f b) = bend b /\ bik (f b) = bik b /\ bkids (f b) = bkids b) ->
  (forall b, hasRefB b = true -> hasRefB (f b) = true) -> ES p -> ES (updCont p f).
Proof.
  intros Hf Hp H. unfold ES, updCont, Mc. cbn [root lineStart li withRoot setLP].
  apply ER_updAt_at; [exact Hp|exact H| |].
  - intros _. destruct (Hf (root p)) as (A & B & C & D). unfold ER. rewrite A, B, C, D. exact H.
  - intros x _ _ Hx. right. destruct (Hf x) as (A & B & C & D). rewrite (Eb_ext _ _ x (f x) A B C D). exact Hx.
Qed.

(* ---- collectInline: the root afterwards, with the positions of the new entries ---- *)
Lemma parseInfoString_span src s e : istart (parseInfoString src s e) = s /\ iend (parseInfoString src s e) = e.
Proof. unfold parseInfoString. destruct (infoString_loop _ _ _ _ _ _). split; reflexivity. Qed.

Lemma collectInline_root_pos p kind n : CUR p -> (state p =? stDescendTerminated) = false ->
  exists extra, root (collectInline p kind n) = updAt (cdepth p) (fun c => set_bik c (bik c ++ extra)) (root p) /\
    forall u, In u extra -> lineStart p + li p <= istart u /\ iend u <= lineStart p + li (collectInline p kind n).
Proof.
  intros HC Hst. unfold collectInline. rewrite Hst. cbv zeta.
  set (p0 := if state p =? stOpening then withState p stOpenMatched else p).
  assert (E0 : root p0 = root p /\ cdepth p0 = cdepth p /\ lineStart p0 = lineStart p /\ li p0 = li p)
    by (unfold p0; destruct (state p =? stOpening); repeat split; reflexivity).
  destruct E0 as (R0 & D0 & L0 & I0).
  set (node := fun q : lp => if kind =? InfoStringKind then parseInfoString (source (advance q n)) (lineStart q + li q) (lineStart (advance q n) + li (advance q n))
                             else mkI kind (lineStart q + li q) (lineStart (advance q n) + li (advance q n))).
  assert (Hnode : forall q, lineStart q = lineStart p -> istart (node q) = lineStart p + li q /\ iend (node q) = lineStart p + li (advance q n)).
  { intros q Hq. unfold node. destruct (env_src q _ (env_advance q n)) as (_ & E2 & _). rewrite E2, Hq.
    destruct (kind =? InfoStringKind); [apply parseInfoString_span|split; reflexivity]. }
  destruct (0 <? indent p0) eqn:Ei.
  - set (q := advance p0 (indentLength (rest p0))).
    set (I := Inl IndentKind (lineStart p0 + li p0) (lineStart q + li q) (indent p0) [] []).
    set (q' := updCont q (fun b => set_bik b (bik b ++ [I]))).
    assert (Eq : lineStart q = lineStart p /\ li p <= li q).
    { unfold q. destruct (env_src p0 _ (env_advance p0 (indentLength (rest p0)))) as (_ & E2 & _). split; [congruence|].
      rewrite <- I0. apply li_advance_ge. }
    destruct Eq as [Eq1 Eq2].
    exists [I; node q']. split.
    + cbn [root updCont withRoot setLP cdepth container].
      assert (Rq : root q = root p) by (unfold q; rewrite (proj1 (same_advance p0 _)); exact R0).
      assert (Dq : cdepth q = cdepth p) by (unfold q, cdepth; rewrite (proj2 (same_advance p0 _)); exact D0).
      assert (Dq2 : cdepth (advance q' n) = cdepth p) by (unfold cdepth; rewrite (proj2 (same_advance _ _)); exact Dq).
      fold q'. fold (cdepth (advance q' n)). rewrite Dq2.
      rewrite (proj1 (same_advance _ _)). unfold q'. cbn [root updCont withRoot setLP]. fold (cdepth q). rewrite Dq, Rq.
      rewrite updAt_fuse. apply updAt_ext. intros x. destruct x. cbn [set_bik bik]. rewrite <- app_assoc. reflexivity.
    + fold q'. cbn [li updCont withRoot setLP]. fold q'.
      assert (Hq' : lineStart q' = lineStart p /\ li q' = li q) by (split; [exact Eq1|reflexivity]). destruct Hq' as [Hq1 Hq2].
      pose proof (li_advance_ge q' n) as Hge.
      intros u [<-|[<-|[]]].
      * unfold I. cbn [istart iend]. rewrite L0, I0, Eq1. lia.
      * destruct (Hnode q' Hq1) as [N1 N2]. rewrite N1, N2. lia.
  - exists [node p0]. split.
    + cbn [root updCont withRoot setLP]. rewrite (proj1 (same_advance _ _)).
      assert (Dq2 : cdepth (advance p0 n) = cdepth p) by (unfold cdepth; rewrite (proj2 (same_advance _ _)); exact D0).
      rewrite Dq2, R0. reflexivity.
    + cbn [li updCont withRoot setLP]. intros u [<-|[]]. destruct (Hnode p0 L0) as [N1 N2]. rewrite N1, N2, I0. pose proof (li_advance_ge p0 n). lia.
Qed.

(* ---- collectInline fused with the close of the container that follows it ---- *)
Lemma hasRefB_add_entries c extra : hasRefB (set_bik c (bik c ++ extra)) = hasRefB c.
Proof. apply hasRefB_set_bik. Qed.
Lemma Eb_closed_add M U c extra e : isOpen c = true -> 0 <= e -> U <= e -> Eb M U c = true ->
  (forall u, In u extra -> bstart c <= istart u /\ iend u <= e) ->
  Eb M U (set_bend (set_bik c (bik c ++ extra)) e) = true.
Proof.
  intros Ho He HU H Hx. apply Eb_parts in H. destruct H as (A & B & C). unfold isOpen in Ho. apply Z.ltb_lt in Ho.
  apply Eb_mk; [destruct c; exact A| |destruct c; exact C].
  replace (bstart (set_bend (set_bik c (bik c ++ extra)) e)) with (bstart c) by (destruct c; reflexivity).
  replace (bend (set_bend (set_bik c (bik c ++ extra)) e)) with e by (destruct c; reflexivity).
  replace (bik (set_bend (set_bik c (bik c ++ extra)) e)) with (bik c ++ extra) by (destruct c; reflexivity).
  rewrite forallb_app. apply andb_true_iff. split.
  - rewrite forallb_forall in *. intros u Hu. apply (eb_close _ (bend c)); [exact Ho|exact He|exact HU|apply B, Hu].
  - apply forallb_forall. intros u Hu. destruct (Hx u Hu) as [X1 X2]. unfold eb. apply orb_true_iff. right.
    replace (e <? 0) with false by (symmetry; apply Z.ltb_ge; lia). apply andb_true_iff. split; apply Z.leb_le; lia.
Qed.

Lemma collect_close_E p kind n d e (q : lp) :
  CUR p -> (state p =? stDescendTerminated) = false -> cdepth p = S d ->
  lineStart p + li (collectInline p kind n) <= e ->
  (forall c, getAt (S d) (root p) = Some c -> isOpen c = true) ->
  root q = root (collectInline p kind n) -> ES p ->
  ER (lineStart p + li p) (lineStart p) (updAt d (CLf (bheight (root q)) (source q) e) (root q)) = true.
Proof.
  intros HC Hst Hd He Hc Hq HW.
  destruct (collectInline_root_pos p kind n HC Hst) as (extra & Hroot & Hpos).
  assert (Hge : li p <= li (collectInline p kind n)).
  { unfold collectInline. rewrite Hst. cbv zeta. cbn [li updCont withRoot setLP].
    set (p0 := if state p =? stOpening then withState p stOpenMatched else p).
    assert (I0 : li p0 = li p) by (unfold p0; destruct (state p =? stOpening); reflexivity).
    eapply Z.le_trans; [|apply li_advance_ge]. destruct (0 <? indent p0); [|lia].
    cbn [li updCont withRoot setLP]. rewrite <- I0. apply li_advance_ge. }
  destruct HC as (_ & HB & HCl).
  assert (He0 : 0 <= e) by lia. assert (HU : lineStart p <= e) by lia.
  rewrite Hq, Hroot, Hd. rewrite updAt_S, updAt_fuse. change CLf with CLf'.
  set (G := fun c : block => set_bik c (bik c ++ extra)).
  set (h := bheight _). set (s0 := source q).
  assert (Hpers : forall x, hasRefB x = true -> hasRefB (CLf' h s0 e (liftLast G x)) = true).
  { intros x Hx. apply (E_CLf (lineStart p + li p) (lineStart p) h s0 e He0 HU). unfold liftLast.
    destruct (lastBlock x) as [c|] eqn:El; [|exact Hx].
    apply (hasRefB_set_lastBlocks x c _ El Hx). intros Hcc. cbn [hasRefL existsb]. unfold G. rewrite hasRefB_add_entries, Hcc. reflexivity. }
  (* the block at depth d: its last child is the container *)
  assert (Hstep : forall x c, getAt d (root p) = Some x -> lastBlock x = Some c ->
            CLf' h s0 e (liftLast G x) = set_lastBlocks x (closeBlock h s0 (G c) e) /\
            (EbH (lineStart p + li p) (lineStart p) c -> EP (lineStart p + li p) (lineStart p) (closeBlock h s0 (G c) e) = true) /\
            (hasRefB c = true -> hasRefL (closeBlock h s0 (G c) e) = true)).
  { intros x c Hx El. split.
    - unfold liftLast, CLf'. rewrite El. rewrite lastBlock_set_last by (eapply lastBlock_nonempty; exact El). apply set_last_twice_l.
    - assert (Hgc : getAt (S d) (root p) = Some c) by (rewrite getAt_S_last, Hx; exact El).
      pose proof (Hc c Hgc) as Ho.
      assert (Eh : exists f', h = S f').
      { unfold h. match goal with |- exists f', bheight ?X = S f' => destruct (bheight_S X) as (f' & E'); exists f'; exact E' end. }
      destruct Eh as (f' & Eh). rewrite Eh.
      destruct (E_closeBlock_closed (lineStart p + li p) (lineStart p) s0 e f' (G c) He0 HU ltac:(destruct c; exact Ho)) as [I1 I2].
      split.
      + intros Hcc. apply I1. destruct Hcc as [Hcc|Hcc]; [left; rewrite hasRefB_set_bend; unfold G; rewrite hasRefB_add_entries; exact Hcc|].
        right. unfold G. apply Eb_closed_add; try assumption. intros u Hu. destruct (Hpos u Hu) as [P1 P2].
        apply Eb_parts in Hcc. destruct Hcc as (A & _). lia.
      + intros Hcc. apply I2. unfold G. rewrite hasRefB_add_entries. exact Hcc. }
  apply ER_updAt_at; [exact Hpers|exact HW| |].
  - intros E0. subst d. unfold liftLast, CLf'. destruct (lastBlock (root p)) as [c|] eqn:El; [|rewrite El; exact HW].
    destruct (Hstep (root p) c eq_refl El) as (E1 & E2 & E3). unfold liftLast, CLf' in E1. rewrite El in E1. rewrite E1.
    apply (ER_set_lastBlocks _ _ (root p) c _ El HW); assumption.
  - intros x Hd0 Hx HEx. unfold liftLast, CLf'. destruct (lastBlock x) as [c|] eqn:El; [|rewrite El; right; exact HEx].
    destruct (Hstep x c Hx El) as (E1 & E2 & E3). unfold liftLast, CLf' in E1. rewrite El in E1. rewrite E1.
    apply (EbH_set_lastBlocks _ _ x c _ El (or_intror HEx)); [|exact E3]. apply E2. right. eapply EbH_lastBlock; eassumption.
Qed.
