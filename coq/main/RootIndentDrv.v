From Coq Require Import List ZArith Lia Bool.
Import ListNotations.
Require Import Base Tables Utf8 Tree Rdr Link Collect Html Recog LP Rules Starts Driver Rec16 Rec17 Rec18 L2Kind L2CC L2Bnd L2BndS BSDef BSRdr BSTree BSShift.
Require Import GramDefs GramTree GramLP4 GramBlocks.
Require Import GI0 SpanHypDef LADef LA1 LA2 LARec LAR1 LA6 LA11 LA12 LAPad LA13 LAOcp TilBase TilDefs ExOcp DefSpansOcp DefSpansDrv.
Require Import ComposeC02 RootIndentDefs RootIndentOcp RootIndentWalk.
Open Scope Z_scope.

(* ================================================================================================
   T56 (b), part 4 (RootIndentDrv): the stream layer.  Between lines the pending root children satisfy PX (all but the
   last closed, spaces/tabs between them, the open root paragraph has RootP); LinesAccounted's invariant la gives the
   order of starts and ends and GoodP of the open paragraph.
   ================================================================================================ *)

(* ---- spaces/tabs and the NUL filling ---- *)
Lemma fill_spt : forall (l : bytes) m, sptR l 0 m -> forallb isSpTab (upto (fillNulls l) m) = true.
Proof.
  unfold fillNulls, upto. induction l as [|b r IH]; intros m H; [destruct (Z.to_nat m); reflexivity|].
  destruct (Z.to_nat m) as [|k] eqn:Em; [reflexivity|].
  pose proof (H 0 ltac:(lia)) as H0. rewrite at_cons0 in H0.
  assert (Nz : (b =? 0) = false) by (destruct (Z.eqb_spec b 0) as [->|]; [discriminate|reflexivity]).
  cbn [fill_aux]. rewrite Nz. cbn [firstn forallb]. rewrite H0. cbn [andb].
  specialize (IH (m - 1)). replace (Z.to_nat (m - 1)) with k in IH by lia. apply IH.
  intros i Hi. specialize (H (i + 1) ltac:(lia)). rewrite at_consS in H by lia. exact H.
Qed.
Lemma sptR_agree (a b : bytes) n lo hi : (forall q, 0 <= q < n -> at_ a q = at_ b q) -> 0 <= lo -> hi <= n -> sptR a lo hi -> sptR b lo hi.
Proof. intros Hag Hlo Hhi H i Hi. rewrite <- Hag by lia. apply H, Hi. Qed.
Lemma sptR_shift src n a b : 0 <= n <= a -> sptR src a b -> sptR (from_ src n) (a - n) (b - n).
Proof. intros Hn H q Hq. replace q with ((q + n) - n) by lia. rewrite at_from' by lia. apply H. lia. Qed.

(* ---- the shift of the pending blocks ---- *)
Lemma bstart_shiftB d c : bstart (shiftB d c) = bstart c + d. Proof. destruct c; reflexivity. Qed.
Lemma bend_shiftB d c : bend (shiftB d c) = if 0 <=? bend c then bend c + d else bend c. Proof. destruct c; reflexivity. Qed.
Lemma bkind_shiftB d c : bkind (shiftB d c) = bkind c. Proof. destruct c; reflexivity. Qed.
Lemma bik_shiftB d c : bik (shiftB d c) = map (shiftI d) (bik c). Proof. destruct c; reflexivity. Qed.
Lemma removelast_map {A B} (f : A -> B) : forall l, removelast (map f l) = map f (removelast l).
Proof. induction l as [|x [|y r] IH]; [reflexivity|reflexivity|]. cbn [map removelast] in *. rewrite IH. reflexivity. Qed.
Lemma lastL_map (f : block -> block) l : lastL (map f l) = option_map f (lastL l).
Proof. unfold lastL. rewrite <- map_rev. destruct (rev l); reflexivity. Qed.

Lemma tchain_ends src op : forall l lo hi c, tchain src op lo hi l -> In c l -> lo <= bstart c /\ (0 <= bend c -> bstart c <= bend c).
Proof.
  induction l as [|x r IH]; intros lo hi c H Hin; [destruct Hin|]. destruct H as (A & _ & C).
  destruct Hin as [->|Hin].
  - split; [exact A|]. intros Hb. destruct (Z.ltb_spec (bend c) 0); [lia|]. tauto.
  - destruct (Z.ltb_spec (bend x) 0); [destruct C as [_ ->]; destruct Hin|]. destruct C as [C1 C2]. destruct (IH _ _ c C2 Hin) as [I1 I2]. split; [lia|exact I2].
Qed.
Lemma gaps_shift src op n : 0 <= n -> forall l lo hi, n <= lo -> tchain src op lo hi l -> gaps src lo l ->
  gaps (from_ src n) (lo - n) (map (shiftB (- n)) l).
Proof.
  intros Hn. induction l as [|c r IH]; intros lo hi Hlo Ht Hg; [exact I|]. cbn [map gaps] in *. destruct Ht as (A & _ & C). destruct Hg as [G1 G2].
  rewrite bstart_shiftB, bend_shiftB. split; [replace (bstart c + - n) with (bstart c - n) by lia; apply sptR_shift; [lia|exact G1]|].
  destruct (Z.ltb_spec (bend c) 0) as [L|L].
  - destruct C as [_ ->]. exact I.
  - destruct C as [C1 C2]. destruct (Z.leb_spec 0 (bend c)); [|lia]. replace (bend c + - n) with (bend c - n) by lia. apply (IH (bend c) hi); [lia|exact C2|exact G2].
Qed.
Lemma tcl_shift src op n lo hi l : 0 <= n <= lo -> tchain src op lo hi l -> tcl l -> tcl (map (shiftB (- n)) l).
Proof.
  intros Hn Ht H c Hc. rewrite removelast_map in Hc. apply in_map_iff in Hc. destruct Hc as (x & <- & Hx). specialize (H x Hx).
  destruct (tchain_ends src op l lo hi x Ht (removelast_In _ _ Hx)) as [E1 E2]. specialize (E2 H).
  rewrite bend_shiftB. destruct (Z.leb_spec 0 (bend x)); lia.
Qed.
Lemma inEnt_shift n ik q : (forall u, In u ik -> 0 <= iend u) -> (inEnt (map (shiftI (- n)) ik) (q - n) <-> inEnt ik q).
Proof.
  intros Hb. split.
  - intros (u' & Hu' & Hq). apply in_map_iff in Hu'. destruct Hu' as (u & <- & Hu). exists u. split; [exact Hu|]. specialize (Hb u Hu).
    destruct u as [k a b i r ks]. cbn [shiftI istart iend] in *. destruct (Z.leb_spec 0 b); lia.
  - intros (u & Hu & Hq). exists (shiftI (- n) u). split; [apply in_map, Hu|]. specialize (Hb u Hu).
    destruct u as [k a b i r ks]. cbn [shiftI istart iend] in *. destruct (Z.leb_spec 0 b); lia.
Qed.
Lemma RootP_shift src n H s ik : 0 <= n <= s -> (forall u, In u ik -> n <= istart u /\ 0 <= iend u) -> RootP src H s ik ->
  RootP (from_ src n) (H - n) (s - n) (map (shiftI (- n)) ik).
Proof.
  intros Hn Hb [R1 R2]. split.
  - intros q Hq Hne. replace q with ((q + n) - n) by lia. rewrite at_from' by lia. apply R1; [lia|]. intros Hin. apply Hne.
    replace q with ((q + n) - n) by lia. apply inEnt_shift; [intros u Hu; apply Hb, Hu|exact Hin].
  - intros u' Hu' Hk. apply in_map_iff in Hu'. destruct Hu' as (u & <- & Hu). destruct (Hb u Hu) as [B1 B2].
    assert (Hk' : ikind u = UnparsedKind) by (destruct u; exact Hk). destruct (R2 u Hu Hk') as (w & Hw & Hwb).
    exists (w - n). split; [destruct u as [k a b i r ks]; cbn [shiftI istart iend] in *; destruct (Z.leb_spec 0 b); lia|].
    rewrite at_from' by lia. exact Hwb.
Qed.
Lemma RootP_agree (a b : bytes) H s ik : (forall q, 0 <= q < H -> at_ a q = at_ b q) -> 0 <= s -> (forall u, In u ik -> 0 <= istart u /\ iend u <= H) ->
  RootP a H s ik -> RootP b H s ik.
Proof.
  intros Hag Hs Hb [R1 R2]. split.
  - intros q Hq Hne. rewrite <- Hag by lia. apply R1; assumption.
  - intros u Hu Hk. destruct (R2 u Hu Hk) as (w & Hw & Hwb). destruct (Hb u Hu) as [B1 B2]. exists w. split; [exact Hw|]. rewrite <- Hag by lia. exact Hwb.
Qed.

(* ---- the invariants of the stream layer ---- *)
Definition LASTQ (src : bytes) (H : Z) (l : list block) : Prop :=
  forall c, lastL l = Some c -> bend c < 0 -> bkind c = ParagraphKind -> RootP src H (bstart c) (bik c) /\ bik c <> [].
Definition PX (src : bytes) (H : Z) (l : list block) : Prop := tcl l /\ gaps src 0 l /\ LASTQ src H l.
Definition LIN (src : bytes) (ls st : Z) (children : list block) : Prop :=
  (children = [] /\ ls = 0 /\ isBlankLine (from_ src 0) = false /\ st <> stDescendTerminated) \/
  (exists c, children = [c] /\ bend c < 0 /\ sptR src 0 (bstart c) /\
             (bkind c = ParagraphKind -> RootP src ls (bstart c) (bik c) /\ bik c <> []) /\
             (st = stDescendTerminated -> isPSb (bkind c) = false)).
Definition okR (r : rootB) : Prop := forallb isSpTab (upto (rb_src r) (bstart (rb_blk r))) = true.
Definition RS (s : bpst) : Prop := SL Gd s /\ gbL (pending s) = true /\ PX (upto (buf s) (bi s)) (bi s) (pending s).
Definition okNR (x : nb) : Prop := match x with NBBlock r s' => okR r /\ RS s' | _ => True end.

(* the entries of an open paragraph lie inside it *)
Lemma good_bounds src M s ik : GoodP src M s ik -> forall u, In u ik -> s <= istart u /\ istart u <= iend u /\ iend u <= M.
Proof.
  intros (_ & _ & T & _) u Hu. apply (tileS_In src s M (map ispan ik) (ispan u) T). apply in_map. exact Hu.
Qed.
Lemma la_open_para src M c : M <= len src -> la src M c -> bend c < 0 -> bkind c = ParagraphKind -> GoodP src M (bstart c) (bik c).
Proof.
  intros HM Hla Ho Hk. apply (la_good src M HM c Hla). rewrite openPS_eq. apply in_or_app. left.
  destruct (Z.ltb_spec (bend c) 0); [|lia]. rewrite Hk. left. reflexivity.
Qed.

(* ---- one line, from the facts of the stream layer ---- *)
Lemma R_line src ls st children : 0 <= ls <= len src -> ccF children = true -> gbL children = true -> la src ls (docRoot children) ->
  LIN src ls st children ->
  let r := processLine st children ls src in
  PX src (len src) (fst (fst r)) /\ fst (fst r) <> [] /\ (snd (fst r) = stDescendTerminated -> NUl (fst (fst r))).
Proof.
  intros Hls Hc Hg Hla [(-> & -> & Hnb & Hst)|(c & -> & Ho & Hsp & HRp & Hst)]; cbv zeta.
  - pose proof (L_processLine src 0 0 [] False (fun X => False_ind _ (X eq_refl)) (fun X => False_ind _ (X eq_refl)) false st [] Hls Hc Hg) as L. cbv zeta in L.
    destruct L as ((T1 & T2 & _) & L2 & L3 & L4).
    + unfold TVl, tcl, r6, r7, idl, nel. cbn [removelast gaps lastL rev]. split; [intros x []|]. split; [exact I|]. split; [intros x Hx; discriminate|].
      split; [intros _; apply sptR_empty; lia|]. split; [intros x Hx; discriminate|intros []].
    + discriminate.
    + intros E. contradiction.
    + intros _. exact Hnb.
    + split; [split; [exact T1|split; [exact T2|exact L2]]|]. split; [apply L4; reflexivity|exact L3].
  - apply docRoot_parts in Hla. destruct Hla as (_ & _ & [Lc _]). pose proof Lc as Lc'. rewrite la_eq in Lc'. destruct Lc' as (_ & _ & L3 & _).
    destruct (Z.eq_dec (bkind c) ParagraphKind) as [Ek|Nk].
    + destruct (HRp Ek) as [HR Hne]. pose proof (la_open_para src ls c ltac:(lia) Lc Ho Ek) as HG.
      pose proof (L_processLine src ls (bstart c) (bik c) True (fun _ => HG) (fun _ => HR) false st [c] Hls Hc Hg) as L. cbv zeta in L.
      destruct L as ((T1 & T2 & T3) & L2 & L3' & _).
      * unfold TVl, tcl, r6, r7, idl, nel. cbn [removelast gaps]. change (lastL [c]) with (Some c). split; [intros x []|]. split; [split; [exact Hsp|exact I]|].
        split; [intros x Hx Hb; inversion Hx; subst x; lia|]. split; [discriminate|]. split; [|intros _; discriminate].
        intros x Hx _ _. inversion Hx; subst x. split; [left; split; [reflexivity|split; [reflexivity|exact Hne]]|]. intros E. rewrite Ek in E. discriminate.
      * discriminate.
      * intros E. specialize (Hst E). rewrite Ek in Hst. discriminate.
      * discriminate.
      * split; [split; [exact T1|split; [exact T2|exact L2]]|]. split; [apply T3; exact I|exact L3'].
    + assert (Hnp : isPSb (bkind c) = false).
      { unfold isPSb. apply orb_false_iff. split; apply Z.eqb_neq; [exact Nk|apply L3, Ho]. }
      pose proof (L_processLine src ls 0 [] True (fun X => False_ind _ (X eq_refl)) (fun X => False_ind _ (X eq_refl)) true st [c] Hls Hc Hg) as L. cbv zeta in L.
      destruct L as ((T1 & T2 & T3) & L2 & L3' & _).
      * unfold TVl, tcl, r6, r7, idl, nel. cbn [removelast gaps]. change (lastL [c]) with (Some c). split; [intros x []|]. split; [split; [exact Hsp|exact I]|].
        split; [intros x Hx Hb; inversion Hx; subst x; lia|]. split; [discriminate|]. split; [|intros _; discriminate].
        intros x Hx _ Hp. inversion Hx; subst x. congruence.
      * intros _. split; [discriminate|]. intros x Hx _ Hp. change (lastL [c]) with (Some c) in Hx. inversion Hx; subst x. congruence.
      * reflexivity.
      * discriminate.
      * split; [split; [exact T1|split; [exact T2|exact L2]]|]. split; [apply T3; exact I|exact L3'].
Qed.

Lemma lastL_cons2 (b : block) rest : rest <> [] -> lastL (b :: rest) = lastL rest.
Proof. intros H. change (b :: rest) with ([b] ++ rest). apply lastL_app, H. Qed.
Lemma tcl_single c rest : tcl (c :: rest) -> bend c < 0 -> rest = [].
Proof.
  intros H Ho. destruct rest as [|x r]; [reflexivity|]. exfalso. specialize (H c). cbn [removelast] in H. specialize (H (or_introl eq_refl)). lia.
Qed.

(* ---- a root block is cut off ---- *)
Lemma R_makeRoot s children r s' : 0 <= bi s <= len (buf s) -> ccF children = true ->
  la (upto (buf s) (bi s)) (bi s) (docRoot children) -> bnd0 (buf s) (bi s) -> PadF (buf s) -> lbd (buf s) (bi s) ->
  gbL children = true -> PX (upto (buf s) (bi s)) (bi s) children -> makeRoot children s = Some (r, s') -> okR r /\ RS s'.
Proof.
  intros Hbi Hcc Hla Hbb Hpf Hlb Hg (P1 & P2 & P3) Hm.
  destruct (SL_makeRoot Gd Gd_upto Gd_from s children r s' Hbi I Hcc Hla Hbb Hpf Hlb Hm) as [_ HL].
  destruct (gF_makeRoot children s r s' (conj Hcc Hg) Hm) as [_ [_ Hg']].
  unfold makeRoot in Hm. destruct children as [|b rest]; [discriminate|].
  destruct (isOpen b) eqn:Eo; [discriminate|]. inversion Hm; subst. clear Hm. unfold isOpen in Eo. apply Z.ltb_ge in Eo.
  apply docRoot_parts in Hla. destruct Hla as (H0 & Hch & Ha). pose proof Hch as Hch0. cbn [tchain allQ] in Hch, Ha. destruct Hch as (C1 & C2 & C3). destruct Ha as [Lb Lr].
  destruct (Z.ltb_spec (bend b) 0); [lia|]. destruct C3 as [C3 C4]. pose proof (la_bounds _ _ _ Lb) as Bb.
  set (n := bend b) in *. set (src := upto (buf s) (bi s)) in *. cbn [gaps] in P2. destruct P2 as [G1 G2].
  split.
  - unfold okR. cbn [rb_src rb_blk]. apply fill_spt. apply (sptR_agree src (upto (buf s) n) (bstart b)); [|lia|lia|exact G1].
    intros q Hq. unfold src. rewrite !at_upto' by lia. reflexivity.
  - split; [exact HL|]. split; [exact Hg'|]. cbn [buf bi pending]. rewrite <- from_upto by lia. fold src.
    split; [|split].
    + apply (tcl_shift src true n n (bi s) rest); [lia|exact C4|]. intros c Hc. apply P1. destruct rest as [|x r0]; [destruct Hc|]. right. exact Hc.
    + replace 0 with (n - n) by lia. apply (gaps_shift src true n ltac:(lia) rest n (bi s)); [lia|exact C4|exact G2].
    + intros c' Hc' Ho' Hk'. rewrite lastL_map in Hc'. destruct (lastL rest) as [c|] eqn:El; [|discriminate]. cbn [option_map] in Hc'. inversion Hc'; subst c'. clear Hc'.
      assert (Hr : rest <> []) by (intros N; rewrite N in El; discriminate).
      pose proof (lastL_In _ _ El) as Hin. destruct (tchain_ends src true rest n (bi s) c C4 Hin) as [T1 T2].
      rewrite bend_shiftB in Ho'. rewrite bkind_shiftB in Hk'. rewrite bstart_shiftB, bik_shiftB.
      assert (Ho : bend c < 0) by (destruct (Z.leb_spec 0 (bend c)); [specialize (T2 ltac:(lia)); lia|exact Ho']).
      destruct (P3 c ltac:(rewrite lastL_cons2 by exact Hr; exact El) Ho Hk') as [HR Hne].
      pose proof (allQ_In _ _ _ Lr Hin) as Lc. pose proof (la_open_para src (bi s) c ltac:(unfold src; rewrite len_upto by lia; lia) Lc Ho Hk') as HG.
      split; [|destruct (bik c); [contradiction|discriminate]].
      replace (bstart c + - n) with (bstart c - n) by lia. apply RootP_shift; [lia| |exact HR].
      intros u Hu. destruct (good_bounds _ _ _ _ HG u Hu) as (B1 & B2 & B3). lia.
Qed.

Lemma R_lineLoop : forall fuel st children ls s, 0 <= ls <= len (buf s) -> bi s = lineEnd (buf s) ls -> ccF children = true ->
  la (upto (buf s) (bi s)) ls (docRoot children) -> bnd0 (buf s) ls -> PadF (buf s) ->
  (st = stDescendTerminated -> exists c1, getAt 1 (docRoot children) = Some c1 /\ bend c1 < 0 /\ hasMatch (bkind c1) = true) ->
  gbL children = true -> LIN (upto (buf s) (bi s)) ls st children ->
  okNR (lineLoop fuel st children ls s).
Proof.
  induction fuel as [|f IH]; intros st children ls s Hls Hbi Hcc Hla Hb0 Hpf Hst Hg Hlin; [exact I|]. cbn [lineLoop].
  destruct (lineEnd_spec (buf s) ls Hls) as [A B]. rewrite <- Hbi in A, B.
  set (src := upto (buf s) (bi s)) in *.
  assert (Hlen : len src = bi s) by (apply len_upto; lia).
  assert (Hlbi : lbd (buf s) (bi s)).
  { destruct (Z.eq_dec (bi s) (len (buf s))) as [E|N]; [right; left; exact E|]. destruct (B ltac:(lia)) as [B1 B2]. right; right. exact B2. }
  pose proof (lbd_bnd0 _ _ Hlbi) as Hbbi.
  set (ln := from_ src ls).
  destruct (line_of (buf s) ls (bi s) ltac:(lia) ltac:(lia)) as [Ll _]. fold src in Ll. fold ln in Ll.
  assert (Hll : ls + len (from_ src ls) = bi s) by (fold ln; lia).
  pose proof (la_processLine st children ls src ltac:(lia) (Gd_ocp _ I)
                ltac:(unfold src; apply bnd0_upto; [lia|lia|exact Hb0|intros El; lia])
                ltac:(unfold src; rewrite Hbi; apply eolEnd_line, Hls) Hcc Hla Hst) as HP.
  pose proof (cc_processLine st children ls src Hcc) as H3. cbv zeta in HP. rewrite Hll in HP.
  pose proof (gb_processLine st children ls src Hcc Hg) as H4.
  pose proof (R_line src ls st children ltac:(lia) Hcc Hg Hla Hlin) as H6. cbv zeta in H6. rewrite Hlen in H6.
  destruct (processLine st children ls src) as [[children' st'] pn]. cbn [fst snd] in HP, H3, H4, H6. destruct HP as [HP1 HP2]. destruct H6 as (X1 & X2 & X3).
  destruct (negb (pn =? 0)); [exact I|].
  destruct (makeRoot children' s) as [[r s']|] eqn:Em.
  - cbn [okNR]. apply (R_makeRoot s children' r s'); try assumption. lia.
  - assert (Hls' : 0 <= bi s <= len (buf s)) by lia. destruct (lineEnd_spec (buf s) (bi s) Hls') as [A' _].
    unfold makeRoot in Em. destruct children' as [|c' rest']; [contradiction|].
    destruct (isOpen c') eqn:Eo; [|discriminate]. unfold isOpen in Eo. apply Z.ltb_lt in Eo.
    destruct X1 as (P1 & P2 & P3). pose proof (tcl_single c' rest' P1 Eo) as Er. subst rest'.
    assert (Hla' : la (upto (buf s) (lineEnd (buf s) (bi s))) (bi s) (docRoot [c'])).
    { apply (la_agree src); [apply agree_upto; lia| | |exact HP1]; [intros e0 He0 Hbe0; unfold src in Hbe0; apply (bnd0_grow (buf s) (bi s)); try lia; assumption|].
      apply growOK_upto; [lia|lia|exact Hlbi|]. intros El. lia. }
    apply (IH st' [c'] (bi s) _); cbn [buf bi]; try assumption; try reflexivity; try lia.
    + intros Est. destruct (HP2 Est) as (c1 & E1 & E2). exists c1. split; [exact E1|]. cbn in E1. inversion E1; subst c1. split; [exact Eo|apply E2, Eo].
    + right. exists c'. split; [reflexivity|]. split; [exact Eo|].
      pose proof HP1 as HPd. apply docRoot_parts in HPd. destruct HPd as (_ & _ & [Lc _]). pose proof (la_bounds _ _ _ Lc) as Bc.
      assert (Hag : forall q, 0 <= q < bi s -> at_ src q = at_ (upto (buf s) (lineEnd (buf s) (bi s))) q).
      { intros q Hq. unfold src. rewrite !at_upto' by lia. reflexivity. }
      cbn [gaps] in P2. destruct P2 as [G1 _].
      split; [apply (sptR_agree src _ (bi s) 0 (bstart c') Hag); [lia|lia|exact G1]|]. split.
      * intros Ek. destruct (P3 c' eq_refl Eo Ek) as [HR Hne]. split; [|exact Hne].
        pose proof (la_open_para src (bi s) c' ltac:(lia) Lc Eo Ek) as HG.
        apply (RootP_agree src _ (bi s) (bstart c') (bik c') Hag); [lia| |exact HR].
        intros u Hu. destruct (good_bounds _ _ _ _ HG u Hu) as (B1 & B2 & B3). lia.
      * intros Est. destruct (X3 Est) as [_ N]. destruct (isPSb (bkind c')) eqn:Ep; [|reflexivity]. exfalso. apply (N c' eq_refl Eo Ep).
Qed.

Lemma R_skipLoop : forall fuel s, bi s = 0 -> PadF (buf s) -> okNR (skipLoop fuel s).
Proof.
  induction fuel as [|f IH]; intros s Hb Hpf; [exact I|]. cbn [skipLoop]. cbv zeta.
  pose proof (len_nonneg (buf s)) as Hl.
  destruct (negb _); [exact I|]. destruct (isBlankLine _) eqn:Eb.
  { apply IH; [reflexivity|]. cbn [buf]. destruct (lineEnd_spec (buf s) (bi s) ltac:(lia)) as [A B].
    apply (PadF_cut (buf s) _ Hpf); [lia|]. destruct (Z.eq_dec (lineEnd (buf s) (bi s)) (len (buf s))) as [E|N]; [right; left; exact E|].
    destruct (B ltac:(lia)) as [B1 B2]. right; right. unfold isEOLb in B2. apply orb_true_iff in B2. destruct B2 as [B2|B2]; apply Z.eqb_eq in B2; rewrite B2; discriminate. }
  apply (R_lineLoop f 0 [] 0 _); cbn [buf bi]; [lia|rewrite Hb; reflexivity|reflexivity| |left; reflexivity|exact Hpf|discriminate|reflexivity|].
  - apply docRoot_parts. split; [lia|]. split; [cbn [tchain]; split; [lia|apply NT_empty; lia]|exact I].
  - left. split; [reflexivity|]. split; [reflexivity|]. split; [exact Eb|discriminate].
Qed.

Lemma R_nextBlock fuel s : RS s -> okNR (nextBlock fuel s).
Proof.
  intros ((Hb & Hg & Hcc & Hla & Hbb & Hpf & Hlb) & Hgb & HP). unfold nextBlock. destruct (makeRoot (pending s) s) as [[r s']|] eqn:Em.
  - cbn [okNR]. apply (R_makeRoot s (pending s) r s'); assumption.
  - destruct (pending s) as [|b0 rest] eqn:Ep; [apply R_skipLoop; [reflexivity|apply (PadF_cut (buf s) (bi s) Hpf Hb Hbb)]|].
    destruct (lineEnd_spec (buf s) (bi s) Hb) as [A' _].
    unfold makeRoot in Em. destruct (isOpen b0) eqn:Eo; [|discriminate]. unfold isOpen in Eo. apply Z.ltb_lt in Eo.
    destruct HP as (P1 & P2 & P3). pose proof (tcl_single b0 rest P1 Eo) as Er. subst rest.
    set (src := upto (buf s) (bi s)) in *.
    assert (Hla' : la (upto (buf s) (lineEnd (buf s) (bi s))) (bi s) (docRoot [b0])).
    { apply (la_agree src); [apply agree_upto; lia| | |exact Hla]; [intros e0 He0 Hbe0; apply (bnd0_grow (buf s) (bi s)); try lia; assumption|].
      apply growOK_upto; [lia|lia|exact Hlb|]. intros El. lia. }
    apply (R_lineLoop fuel 0 [b0] (bi s) _); cbn [buf bi]; try assumption; try reflexivity; [discriminate|].
    right. exists b0. split; [reflexivity|]. split; [exact Eo|].
    pose proof Hla as HPd. apply docRoot_parts in HPd. destruct HPd as (_ & _ & [Lc _]). pose proof (la_bounds _ _ _ Lc) as Bc.
    assert (Hag : forall q, 0 <= q < bi s -> at_ src q = at_ (upto (buf s) (lineEnd (buf s) (bi s))) q).
    { intros q Hq. unfold src. rewrite !at_upto' by lia. reflexivity. }
    cbn [gaps] in P2. destruct P2 as [G1 _].
    split; [apply (sptR_agree src _ (bi s) 0 (bstart b0) Hag); [lia|lia|exact G1]|]. split; [|discriminate].
    intros Ek. destruct (P3 b0 eq_refl Eo Ek) as [HR Hne]. split; [|exact Hne].
    pose proof (la_open_para src (bi s) b0 ltac:(unfold src; rewrite len_upto by lia; lia) Lc Eo Ek) as HG.
    apply (RootP_agree src _ (bi s) (bstart b0) (bik b0) Hag); [lia| |exact HR].
    intros u Hu. destruct (good_bounds _ _ _ _ HG u Hu) as (B1 & B2 & B3). lia.
Qed.

Lemma R_allBlocks : forall fuel s acc, RS s -> Forall okR acc -> Forall okR (fst (allBlocks fuel s acc)).
Proof.
  induction fuel as [|f IH]; intros s acc HS Ha; [exact Ha|]. cbn [allBlocks].
  pose proof (R_nextBlock (3 + length (buf s)) s HS) as Hn.
  destruct (nextBlock _ s) as [r s'| | |]; try exact Ha.
  destruct Hn as [Hr Hs']. apply IH; [exact Hs'|]. apply Forall_app. split; [exact Ha|]. constructor; [exact Hr|constructor].
Qed.

Theorem rootIndent_all : forall input, rootIndentRoots (fst (parseBlocks input)) = true.
Proof.
  intros input. unfold rootIndentRoots. apply forallb_forall. intros r Hr.
  assert (H : Forall okR (fst (parseBlocks input))).
  { unfold parseBlocks. apply R_allBlocks; [|constructor]. pose proof (len_nonneg (pad input)) as Hl.
    split; [|split; [reflexivity|]].
    - split; [cbn [buf bi]; lia|]. split; [exact I|]. split; [reflexivity|].
      split; [|split; [left; reflexivity|split; [exists input; reflexivity|left; reflexivity]]]. cbn [buf bi pending]. apply docRoot_parts. split; [lia|]. split; [cbn [tchain]; split; [lia|apply NT_empty; lia]|exact I].
    - cbn [pending]. split; [intros x []|]. split; [exact I|intros c Hc; discriminate]. }
  rewrite Forall_forall in H. apply (H r Hr).
Qed.
Print Assumptions rootIndent_all.
