From Coq Require Import List ZArith Lia Bool.
Import ListNotations.
Require Import Base Tables Utf8 Tree Rdr Link Collect Html Recog Inl3a Inl3b Inl3c Inl3d Inl3e Render.
Open Scope Z_scope.

(* C17, first clause, for whole documents: with a tag filter, the output is the unfiltered output in which some '<'
   have been replaced by "&lt;" and nothing else has changed *)
Inductive lx : bytes -> bytes -> Prop :=
| lx_nil : lx [] []
| lx_same c a b : lx a b -> lx (c :: a) (c :: b)
| lx_esc a b : lx a b -> lx (60 :: a) (38 :: 108 :: 116 :: 59 :: b).

Lemma lx_refl a : lx a a. Proof. induction a; constructor; assumption. Qed.
Lemma lx_app a b a' b' : lx a b -> lx a' b' -> lx (a ++ a') (b ++ b').
Proof. induction 1; intros H'; cbn [app]; [assumption|apply lx_same; auto|apply lx_esc; auto]. Qed.
Lemma lx_flat_map {A} (f g : A -> bytes) l : (forall x, In x l -> lx (f x) (g x)) -> lx (flat_map f l) (flat_map g l).
Proof.
  induction l as [|x l IH]; intros H; [constructor|]. cbn [flat_map]. apply lx_app; [apply H; left; reflexivity|].
  apply IH. intros y Hy. apply H. right. exact Hy.
Qed.

Definition unf (c : cfg) : cfg := {| softBreak := softBreak c; ignoreRaw := ignoreRaw c; filterOn := false; filterP := filterP c |}.

Lemma lx_filterRaw c s : lx s (filterRaw c s).
Proof.
  induction s as [|b r IH]; [constructor|]. cbn [filterRaw]. destruct (Z.eqb_spec b 60) as [->|N]; [|apply lx_same; exact IH].
  destruct (filterP c _); cbn [app]; [apply lx_esc|apply lx_same]; exact IH.
Qed.
Lemma lx_openTagAttr c n : lx (openTagAttr (unf c) n) (openTagAttr c n).
Proof. unfold openTagAttr, reject. cbn [filterOn unf andb]. destruct (filterOn c && filterP c n); cbn [app]; [apply lx_esc|apply lx_same]; apply lx_refl. Qed.
Lemma lx_openTag c n : lx (openTag (unf c) n) (openTag c n).
Proof. unfold openTag. apply lx_app; [apply lx_openTagAttr|apply lx_refl]. Qed.
Lemma lx_closeTag c n : lx (closeTag (unf c) n) (closeTag c n).
Proof.
  unfold closeTag, reject. cbn [filterOn unf andb]. destruct (filterOn c && filterP c (47 :: n)); cbn [app]; [apply lx_esc|apply lx_same]; apply lx_same, lx_refl.
Qed.

Ltac lxs := repeat first [assumption | apply lx_openTag | apply lx_openTagAttr | apply lx_closeTag | apply lx_refl | apply lx_app].

Lemma lx_renderI refs src : forall fuel c i, lx (renderI fuel (unf c) refs src i) (renderI fuel c refs src i).
Proof.
  induction fuel as [|f IH]; intros c i; [constructor|]. cbn [renderI]. cbv zeta.
  assert (Hk : lx (flat_map (renderI f (unf c) refs src) (ikids i)) (flat_map (renderI f c refs src) (ikids i))).
  { apply lx_flat_map. intros x _. apply IH. }
  cbn [softBreak ignoreRaw filterOn unf].
  destruct (_ || _); [apply lx_refl|]. destruct (_ =? CharacterReferenceKind); [apply lx_refl|].
  destruct (_ =? RawHTMLKind).
  { destruct (ignoreRaw c); [constructor|]. destruct (filterOn c); [apply lx_filterRaw|apply lx_refl]. }
  destruct (_ =? SoftLineBreakKind); [destruct (softBreak c =? 2); [lxs|apply lx_refl]|]. destruct (_ =? HardLineBreakKind); [lxs|].
  destruct (_ =? EmphasisKind); [lxs|]. destruct (_ =? StrongKind); [lxs|]. destruct (_ =? CodeSpanKind); [lxs|].
  destruct (_ =? LinkKind); [lxs|]. destruct (_ =? ImageKind); [lxs|]. destruct (_ =? AutolinkKind); [lxs|].
  destruct (_ =? IndentKind); [apply lx_refl|]. destruct (_ =? HTMLTagKind); [exact Hk|constructor].
Qed.

Lemma lx_renderB refs src : forall fuel c pt b, lx (renderB fuel (unf c) refs src pt b) (renderB fuel c refs src pt b).
Proof.
  induction fuel as [|f IH]; intros c pt b; [constructor|]. cbn [renderB]. cbv zeta.
  assert (HkB : lx (flat_map (renderB f (unf c) refs src (isTightList b)) (bkids b)) (flat_map (renderB f c refs src (isTightList b)) (bkids b))).
  { apply lx_flat_map. intros x _. apply IH. }
  assert (HkI : lx (flat_map (fun i => renderI (isize i) (unf c) refs src i) (bik b)) (flat_map (fun i => renderI (isize i) c refs src i) (bik b))).
  { apply lx_flat_map. intros x _. apply lx_renderI. }
  assert (Hk : lx (match bkids b with [] => flat_map (fun i => renderI (isize i) (unf c) refs src i) (bik b) | _ :: _ => flat_map (renderB f (unf c) refs src (isTightList b)) (bkids b) end)
                  (match bkids b with [] => flat_map (fun i => renderI (isize i) c refs src i) (bik b) | _ :: _ => flat_map (renderB f c refs src (isTightList b)) (bkids b) end))
    by (destruct (bkids b); assumption).
  cbn [ignoreRaw unf].
  destruct (_ =? ParagraphKind); [destruct pt; [exact Hk|lxs]|].
  destruct (_ =? ThematicBreakKind); [lxs|]. destruct (isHeading _); [lxs|].
  destruct (isCode _); [lxs|]. destruct (_ =? BlockQuoteKind); [lxs|].
  destruct (_ =? ListKind); [destruct (isOrdered b); lxs|].
  destruct (_ =? ListItemKind); [lxs|]. destruct (_ =? HTMLBlockKind); [destruct (ignoreRaw c); [constructor|exact Hk]|constructor].
Qed.

Theorem C17_only_lt_escaped c refs src fuel b : lx (renderB fuel (unf c) refs src false b) (renderB fuel c refs src false b).
Proof. apply lx_renderB. Qed.
Print Assumptions C17_only_lt_escaped.
