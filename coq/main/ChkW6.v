(* ChkW6.v -- T30, stage 2: the invariant W through openNewBlocks, addLineText and processLine. *)
From Coq Require Import List ZArith Lia Bool.
Import ListNotations.
Require Import Base Tree Rdr Link Collect Html Recog LP Rules Starts Driver L2Kind2 L2CC ShapesBase ShEnv GramDefs GramTree
  GramLP GramLP2 GramLP3 GramLP4 Cursor CursorX NoPanic12 BSLine1 BSOrph StreamFuel ChkW1 ChkW2 ChkW3 ChkW4 ChkW5.
Open Scope Z_scope.

Lemma CUR_of p p' : envOf p' = envOf p -> G p' -> CUR p -> CUR p'.
Proof.
  intros E ((H0 & _) & HL & _) (A & B & _). destruct (env_src p p' E) as (E1 & E2 & E3).
  unfold CUR. rewrite E1, E2, E3. repeat split; try tauto; try lia. rewrite <- E3. exact HL.
Qed.

(* the bundle of side facts *)
Definition FA (p : lp) : Prop := CUR p /\ G p /\ GI p.

Record startAll (f : lp -> lp) : Prop := {
  sa_w : startW f; sa_G : startOKG f; sa_g : startOKg f; sa_env : forall q, envOf (f q) = envOf q }.

Lemma blockStarts_all : Forall startAll blockStarts.
Proof.
  unfold blockStarts.
  repeat (apply Forall_cons; [split;
    [first [exact W_startBlockQuote|exact W_startATX|exact W_startFenced|exact W_startHTML|exact W_startSetext|exact W_startThematic|exact W_startListItem|exact W_startIndented]
    |first [exact G_startBlockQuote|exact G_startATX|exact G_startFenced|exact G_startHTML|exact G_startSetext|exact G_startThematic|exact G_startListItem|exact G_startIndented]
    |intros p Hs H; first [apply GI_startBlockQuote|apply GI_startATX|apply GI_startFenced|apply GI_startHTML|apply GI_startSetext|apply GI_startThematic|apply GI_startListItem|apply GI_startIndented]; assumption
    |first [apply env_startBlockQuote|apply env_startATX|apply env_startFenced|apply env_startHTML|apply env_startSetext|apply env_startThematic|apply env_startListItem|apply env_startIndented]]|]).
  apply Forall_nil.
Qed.

Lemma FA_withOpening p : FA p -> FA (withState p stOpening).
Proof.
  intros (A & B & C). split; [exact A|]. split; [apply (G_tree p); [repeat split|reflexivity|exact B]|].
  apply (GI_same p); [split; reflexivity|exact C].
Qed.

Lemma W_tryStarts : forall fs p, Forall startAll fs -> FA p -> WY false p ->
  FA (snd (tryStarts fs p)) /\ envOf (snd (tryStarts fs p)) = envOf p /\
  WY (XL p) (snd (tryStarts fs p)) /\
  ((fst (tryStarts fs p) = false \/ state (snd (tryStarts fs p)) <> stLineConsumed) -> WY false (snd (tryStarts fs p))).
Proof.
  induction fs as [|f r IH]; intros p Hfs HF HW.
  { cbn [tryStarts fst snd]. split; [exact HF|]. split; [reflexivity|]. split; [apply Wb_weaken, HW|intros _; exact HW]. }
  cbn [tryStarts]. cbv zeta. inversion Hfs as [|? ? Hf Hr]; subst. destruct Hf as [Hw HG Hg He].
  set (p0 := withState p stOpening).
  assert (HF0 : FA p0) by (apply FA_withOpening, HF).
  assert (Hs0 : st_open p0) by (left; reflexivity).
  destruct HF0 as (C0 & G0 & I0).
  destruct (Hw p0 Hs0 C0 G0 I0 HW) as [W1 W2]. change (XL p0) with (XL p) in W1.
  assert (E1 : envOf (f p0) = envOf p) by (rewrite He; reflexivity).
  assert (HF1 : FA (f p0)).
  { split; [apply (CUR_of p); [exact E1|apply HG, G0|apply HF]|]. split; [apply HG, G0|apply Hg; assumption]. }
  destruct ((state (f p0) =? stOpenMatched) || (state (f p0) =? stLineConsumed)) eqn:Est.
  - cbn [fst snd]. split; [exact HF1|]. split; [exact E1|]. split; [exact W1|]. intros [N|N]; [discriminate|apply W2, N].
  - apply orb_false_iff in Est. destruct Est as [_ Est]. apply Z.eqb_neq in Est.
    destruct (IH (f p0) Hr HF1 (W2 Est)) as (A & B & C & D).
    split; [exact A|]. split; [rewrite B; exact E1|]. rewrite (XL_env p (f p0) E1) in C. split; assumption.
Qed.

Lemma W_opening_loop : forall fuel p, FA p -> WY false p ->
  FA (snd (opening_loop fuel p)) /\ envOf (snd (opening_loop fuel p)) = envOf p /\
  WY (XL p) (snd (opening_loop fuel p)) /\ (fst (opening_loop fuel p) = true -> WY false (snd (opening_loop fuel p))).
Proof.
  induction fuel as [|f IH]; intros p HF HW.
  { cbn [opening_loop fst snd]. split; [exact HF|]. split; [reflexivity|]. split; [apply Wb_weaken, HW|intros _; exact HW]. }
  cbn [opening_loop].
  destruct (_ || _); [|cbn [fst snd]; split; [exact HF|]; split; [reflexivity|]; split; [apply Wb_weaken, HW|intros _; exact HW]].
  destruct (W_tryStarts blockStarts p blockStarts_all HF HW) as (A & B & C & D).
  destruct (tryStarts blockStarts p) as [[|] p1]; cbn [fst snd] in *.
  - destruct (Z.eqb_spec (state p1) stLineConsumed) as [E|E].
    + cbn [fst snd]. split; [exact A|]. split; [exact B|]. split; [exact C|discriminate].
    + destruct (IH p1 A (D (or_intror E))) as (A' & B' & C' & D').
      split; [exact A'|]. split; [rewrite B'; exact B|]. rewrite (XL_env p p1 B) in C'. split; assumption.
  - split; [exact A|]. split; [exact B|]. split; [exact C|]. intros _. apply D. left. reflexivity.
Qed.

Lemma WY_deferredClose y p : CUR p -> WY y p -> WY y (deferredClose p).
Proof.
  intros HC H. unfold deferredClose. cbv zeta. destruct (_ && _); [exact H|].
  apply WY_closeLastChildAt; [destruct HC as (_ & B & _); lia|exact H].
Qed.

Lemma W_closeRoot y p : CUR p -> WY y p ->
  Wb (source p) y (match closeBlock (bheight (root p)) (source p) (root p) (lineStart p) with b :: _ => b | [] => root p end) = true.
Proof.
  intros HC H. pose proof (W_closeBlock (source p) (source p) (lineStart p) ltac:(destruct HC as (_ & B & _); lia) (bheight (root p)) y (root p) H) as Hc.
  destruct (closeBlock _ _ _ _) as [|b r]; [exact H|]. destruct r as [|b2 r]; [exact Hc|].
  rewrite WL_cons in Hc by discriminate. apply andb_true_iff in Hc. destruct Hc as [Hc _]. apply Wb_weaken, Hc.
Qed.

Lemma W_openNewBlocks p am : FA p -> WY false p ->
  WY (XL p) (snd (openNewBlocks p am)) /\ (fst (openNewBlocks p am) = true -> WY false (snd (openNewBlocks p am))) /\
  envOf (snd (openNewBlocks p am)) = envOf p /\ G (snd (openNewBlocks p am)).
Proof.
  intros HF HW. pose proof (G_openNewBlocks p am (proj1 (proj2 HF))) as HG'. pose proof (env_openNewBlocks p am) as He'.
  split; [|split; [|split; assumption]].
  - unfold openNewBlocks. destruct (_ =? 0).
    + cbn [snd]. unfold WY. cbn [root source withCont withRoot setLP]. apply W_closeRoot; [apply HF|apply Wb_weaken, HW].
    + destruct (W_opening_loop (S (length (line p))) p HF HW) as (A & B & C & D).
      destruct (opening_loop _ p) as [ht p1]. cbn [fst snd] in *.
      destruct am; cbn [snd]; [exact C|]. apply WY_deferredClose; [apply A|exact C].
  - unfold openNewBlocks. destruct (_ =? 0); [cbn [fst]; discriminate|].
    destruct (W_opening_loop (S (length (line p))) p HF HW) as (A & B & C & D).
    destruct (opening_loop _ p) as [ht p1]. cbn [fst snd] in *.
    destruct am; cbn [fst snd]; intros Ht; [apply D, Ht|]. apply WY_deferredClose; [apply A|apply D, Ht].
Qed.

(* ---- addLineText ---- *)
Lemma W_setLastBlankUpTo src y v : forall d rt, Wb src y rt = true -> Wb src y (setLastBlankUpTo d v rt) = true.
Proof.
  induction d as [|d IH]; intros rt H; cbn [setLastBlankUpTo].
  - cbn [updAt]. rewrite Wb_set_blast. exact H.
  - apply IH. apply W_updAt; [intros b Hb; rewrite Wb_set_blast; exact Hb|exact H].
Qed.

(* appending one entry to the (open) container *)
Lemma W_append_entry z q u : GI q -> WY false q ->
  eok (source q) (containerKind q) z z u = true ->
  WY z (updCont q (fun b => set_bik b (bik b ++ [u]))).
Proof.
  intros HI HW Hu. destruct (GI_wf q HI) as (c & Ec & Ho).
  unfold WY, updCont. cbn [root source withRoot setLP]. apply W_updAt_raise; [exact HW|].
  intros c' Ec' HWc. rewrite Ec in Ec'. inversion Ec'; subst c'.
  apply W_set_bik; [apply Wb_weaken, HWc|].
  apply Wb_parts in HWc. destruct HWc as [HL _]. unfold loc in HL. apply andb_true_iff in HL. destruct HL as [HE _]. rewrite Ho in *. cbn [negb orb] in *.
  apply ents_snoc; [exact HE|]. rewrite orb_false_r.
  unfold containerKind in Hu. rewrite (contBlock_at q c Ec) in Hu. exact Hu.
Qed.

Lemma eok_line_entry q K : CUR q ->
  eok (source q) K (XL q) (XL q)
    (mkI (if isCode K then TextKind else if K =? HTMLBlockKind then RawHTMLKind else UnparsedKind) (lineStart q + li q) (lineStart q + len (line q))) = true.
Proof.
  intros HC. unfold eok. destruct (isCode K) eqn:Ec; [reflexivity|]. destruct (K =? HTMLBlockKind) eqn:Eh.
  - cbn [mkI ikind]. change (RawHTMLKind =? UnparsedKind) with false. change (RawHTMLKind =? RawHTMLKind) with true. cbv iota. cbn [andb].
    destruct (XL q) eqn:EX; [apply orb_true_r|]. rewrite (gd_line_end q RawHTMLKind _ HC EX). reflexivity.
  - cbn [mkI ikind]. change (UnparsedKind =? UnparsedKind) with true. cbv iota. cbn [negb andb].
    destruct (XL q) eqn:EX; [apply orb_true_r|]. rewrite (gd_line_end q UnparsedKind _ HC EX). reflexivity.
Qed.

Lemma W_go q : GI q -> CUR q -> nikK (containerKind q) = false -> WY false q ->
  WY (XL q) (let k := containerKind q in
        let inlineKind := if isCode k then TextKind else if k =? HTMLBlockKind then RawHTMLKind else UnparsedKind in
        let q' := updCont q (fun b => set_bik b (bik b ++ [mkI inlineKind (lineStart q + li q) (lineStart q + len (line q))])) in
        if isCode k && negb (hasByteSuffixEOL (line q')) then
          updCont q' (fun b => set_bik b (bik b ++ [mkI SoftLineBreakKind (lineStart q' + len (line q')) (lineStart q' + len (line q'))]))
        else q').
Proof.
  intros HI HC Hn HW. cbv zeta.
  pose proof (eok_line_entry q (containerKind q) HC) as Hent.
  destruct (isCode (containerKind q)) eqn:Ec; cbn [andb].
  - (* code: both entries are of unconstrained kinds *)
    set (q' := updCont q _).
    assert (HW' : WY false q') by (apply W_append_entry; [exact HI|exact HW|reflexivity]).
    assert (HI' : GI q') by (apply (GI_updCont_ik q (fun b => bik b ++ [_]) (containerKind q)); [exact HI|apply ckind_self|exact Hn]).
    destruct (negb _); [|apply Wb_weaken, HW'].
    apply Wb_weaken. apply (W_append_entry false q'); [exact HI'|exact HW'|reflexivity].
  - apply W_append_entry; [exact HI|exact HW|exact Hent].
Qed.

Lemma W_addLineText p : FA p -> goodSt p -> WY false p -> WY (XL p) (addLineText p).
Proof.
  intros (HC & HG & HI) Hst HW. unfold addLineText. cbv zeta.
  set (p1 := if isRestBlank p then _ else p).
  assert (H1 : GI p1 /\ WY false p1).
  { unfold p1. destruct (isRestBlank p); [|split; assumption]. split.
    - apply GI_updCont; [assumption| |].
      + intros b _ Hcb Hgb. destruct (lastBlock b) as [c|] eqn:El; [|split; [exact Hcb|split; [exact Hgb|apply sameAs_refl]]].
        split; [|split; [|apply sameAs_set_lastBlocks]].
        * eapply cc_set_lastBlocks; [exact Hcb|exact El|]. constructor; [|constructor].
          rewrite cc_set_blast, bkind_set_blast. split; [eapply cc_lastBlock; eassumption|apply compat_refl].
        * eapply gb_set_lastBlocks; [exact Hgb|exact El|]. apply okRepl_one; [|left; apply sameAs_set_blast].
          rewrite gb_set_blast. eapply gb_lastBlock; eassumption.
      + intros x. destruct (lastBlock x); [destruct x; reflexivity|reflexivity].
    - unfold WY, updCont. cbn [root source withRoot setLP]. apply W_updAt; [|exact HW]. intros b Hb.
      destruct (lastBlock b) as [c|] eqn:El; [|exact Hb]. apply W_set_lastBlocks; [exact Hb|]. cbn [WL]. rewrite Wb_set_blast.
      eapply W_lastBlock; eassumption. }
  destruct H1 as [HI1 HW1].
  assert (K1 : containerKind p1 = containerKind p).
  { unfold p1. destruct (isRestBlank p); [|reflexivity]. apply containerKind_updCont.
    intros b. destruct (lastBlock b); [destruct b; reflexivity|reflexivity]. }
  assert (S1 : state p1 = state p) by (unfold p1; destruct (isRestBlank p); reflexivity).
  assert (HC1 : CUR p1) by (unfold p1; destruct (isRestBlank p); exact HC).
  assert (EX1 : XL p1 = XL p) by (unfold p1; destruct (isRestBlank p); reflexivity).
  set (llb := isRestBlank p && _).
  set (p2 := withRoot p1 (setLastBlankUpTo (cdepth p1) llb (root p1))).
  assert (HI2 : GI p2) by (apply GI_setLastBlank, HI1).
  assert (HW2 : WY false p2) by (unfold WY, p2; cbn [root source withRoot setLP]; apply W_setLastBlankUpTo, HW1).
  assert (HC2 : CUR p2) by exact HC1.
  assert (K2 : containerKind p2 = containerKind p).
  { rewrite <- K1. unfold containerKind, contBlock, p2, cdepth. cbn [root container withRoot setLP]. fold (cdepth p1).
    match goal with |- bkind (match getAt ?k (setLastBlankUpTo ?d ?v ?r) with _ => _ end) = _ =>
      pose proof (kindAt_setLastBlankUpTo v d k r) as E end.
    destruct (getAt (cdepth p1) (setLastBlankUpTo _ _ _)); destruct (getAt (cdepth p1) (root p1)); cbn in E; try congruence; reflexivity. }
  assert (S2 : state p2 = state p) by exact S1.
  change (bkind (contBlock p1)) with (containerKind p1). rewrite K1.
  assert (EX2 : XL p2 = XL p) by exact EX1. rewrite <- EX2.
  destruct (acceptsLines (containerKind p)) eqn:Ea.
  - match goal with |- WY _ (let k := _ in _) => idtac | _ => idtac end.
    set (p3 := if (li p2 <? len (line p2)) && (at_ (line p2) (li p2) =? 9) && (0 <? tabRem p2) && (tabRem p2 <? 4) then _ else p2).
    assert (H3 : GI p3 /\ CUR p3 /\ WY false p3 /\ containerKind p3 = containerKind p /\ XL p3 = XL p2).
    { unfold p3. destruct ((li p2 <? len (line p2)) && (at_ (line p2) (li p2) =? 9) && (0 <? tabRem p2) && (tabRem p2 <? 4)) eqn:Et;
        [|split; [exact HI2|split; [exact HC2|split; [exact HW2|split; [exact K2|reflexivity]]]]].
      apply andb_true_iff in Et. destruct Et as [Et _]. apply andb_true_iff in Et. destruct Et as [Et _]. apply andb_true_iff in Et. destruct Et as [T1 T2].
      apply Z.ltb_lt in T1. apply Z.eqb_eq in T2.
      set (I := Inl IndentKind (lineStart p2 + li p2) (lineStart p2 + li p2 + 1) (tabRem p2) [] []).
      assert (HIq : GI (updCont p2 (fun b => set_bik b (bik b ++ [I])))).
      { apply (GI_updCont_ik p2 (fun b => bik b ++ [_]) (containerKind p2)); [exact HI2|apply ckind_self|]. rewrite K2. apply acceptsLines_nik, Ea. }
      split; [apply GI_consumeIndent, HIq|]. split; [apply CUR_consumeIndent, CUR_updCont, HC2|]. split; [|split].
      - apply WY_consumeIndent. apply W_append_entry; [exact HI2|exact HW2|]. unfold eok, I. cbn [ikind].
        change (IndentKind =? UnparsedKind) with false. change (IndentKind =? RawHTMLKind) with false. change (IndentKind =? IndentKind) with true. cbv iota.
        replace (lineStart p2 + li p2 + 1) with (lineStart p2 + (li p2 + 1)) by lia.
        apply ib_line; [exact HC2|destruct HC2 as (_ & _ & C); lia|lia|lia|].
        intros i Hi. replace i with (li p2) by lia. rewrite T2. reflexivity.
      - rewrite (containerKind_same _ _ (same_consumeIndent _ _)), containerKind_updCont; [exact K2|]. intros b. apply bkind_set_bik.
      - apply XL_env. rewrite env_consumeIndent. reflexivity. }
    destruct H3 as (HI3 & HC3 & HW3 & K3 & EX3). rewrite <- EX3.
    apply W_go; [exact HI3|exact HC3|rewrite K3; apply acceptsLines_nik, Ea|exact HW3].
  - destruct (negb (isRestBlank p)); [|apply Wb_weaken, HW2].
    assert (So : st_open p2) by (unfold st_open; rewrite S2; exact (Hst Ea)).
    set (p3 := consumeIndent (openBlock p2 ParagraphKind) (indent (openBlock p2 ParagraphKind))).
    assert (HI3 : GI p3).
    { unfold p3. apply GI_consumeIndent. apply GI_openBlock; [exact HI2|discriminate|discriminate|intros; reflexivity]. }
    assert (HC3 : CUR p3) by (unfold p3; cchainC).
    assert (HW3 : WY false p3).
    { unfold p3. apply WY_consumeIndent. apply WY_openBlock; [discriminate|destruct HC2 as (_ & B & _); lia|exact HW2]. }
    assert (EX3 : XL p3 = XL p2) by (apply XL_env; unfold p3; rewrite env_consumeIndent; apply env_openBlock).
    assert (Ck : ckind p3 ParagraphKind).
    { eapply ckind_same; [apply same_consumeIndent|]. apply ckind_openBlock, So. }
    rewrite <- EX3. apply W_go; [exact HI3|exact HC3| |exact HW3].
    unfold containerKind, contBlock.
    match goal with |- nikK (bkind (match getAt ?d ?r with _ => _ end)) = false => destruct (getAt d r) as [x|] eqn:Ex end;
      [rewrite (Ck x Ex); reflexivity|reflexivity].
Qed.

(* ---- one line ---- *)
Lemma src_addLineText p : source (addLineText p) = source p.
Proof.
  unfold addLineText. cbv zeta.
  set (p1 := if isRestBlank p then _ else p).
  assert (E1 : source p1 = source p) by (unfold p1; destruct (isRestBlank p); reflexivity).
  set (p2 := withRoot p1 _). assert (E2 : source p2 = source p) by exact E1. clearbody p2.
  assert (Hgo : forall q, source (let k := containerKind q in
        let inlineKind := if isCode k then TextKind else if k =? HTMLBlockKind then RawHTMLKind else UnparsedKind in
        let q' := updCont q (fun b => set_bik b (bik b ++ [mkI inlineKind (lineStart q + li q) (lineStart q + len (line q))])) in
        if isCode k && negb (hasByteSuffixEOL (line q')) then
          updCont q' (fun b => set_bik b (bik b ++ [mkI SoftLineBreakKind (lineStart q' + len (line q')) (lineStart q' + len (line q'))]))
        else q') = source q).
  { intros q. cbv zeta. match goal with |- source (if ?c then _ else _) = _ => destruct c end; reflexivity. }
  destruct (acceptsLines _).
  - rewrite Hgo. match goal with |- source (if ?c then _ else _) = _ => destruct c end; [|exact E2].
    rewrite (proj1 (env_src _ _ (env_consumeIndent _ _))). exact E2.
  - destruct (negb (isRestBlank p)); [|exact E2]. rewrite Hgo. rewrite (proj1 (env_src _ _ (env_consumeIndent _ _))).
    rewrite (proj1 (env_src _ _ (env_openBlock _ _))). exact E2.
Qed.
Lemma Wb_root0 src y K : Wb src y (Blk documentKind 0 (-1) K [] 0 0 0 false false) = WL src y K.
Proof. rewrite Wb_eq. reflexivity. Qed.

Theorem W_processLine st children ls src : 0 <= ls <= len src -> ccF children = true -> gbL children = true ->
  WL src false children = true ->
  WL src (negb (hasByteSuffixEOL (from_ src ls))) (fst (fst (processLine st children ls src))) = true.
Proof.
  intros Hls Hc Hg HW. unfold processLine. cbv zeta.
  set (p0 := resetLP st children ls src).
  assert (HI0 : GI p0).
  { split; [|split].
    - unfold ccP, wf, p0, resetLP, cdepth. cbn [root container]. split; [reflexivity|split; [exact Hc|eexists; reflexivity]].
    - unfold p0, resetLP. cbn [root]. apply gb_intro; [reflexivity|exact Hg].
    - reflexivity. }
  assert (HG0 : G p0).
  { unfold p0, resetLP. split; [split; [cbn; lia|]|split; [cbn; apply len_nonneg|split; cbn; discriminate]].
    cbn [li line col tabRem]. intros Hl Ht. apply computeTabRem_spec; [lia|exact Hl|exact Ht]. }
  assert (HC0 : CUR p0).
  { unfold CUR, p0, resetLP. cbn [line source lineStart li]. split; [reflexivity|]. split; [exact Hls|]. pose proof (len_nonneg (from_ src ls)). lia. }
  assert (HW0 : WY false p0) by (unfold WY, p0, resetLP; cbn [source root]; rewrite Wb_root0; exact HW).
  change (negb (hasByteSuffixEOL (from_ src ls))) with (XL p0).
  change src with (source p0) at 1.
  destruct (W_descend_loop (bheight (root p0)) p0 O HC0 HG0 HW0) as [D1 D2].
  pose proof (G_descend_loop (bheight (root p0)) p0 O HG0) as G1.
  pose proof (GI_descend_loop (bheight (root p0)) p0 O HI0 eq_refl) as I1.
  pose proof (env_descend_loop (bheight (root p0)) p0 O) as E1.
  fold (descendOpenBlocks p0) in D1, D2, G1, I1, E1.
  destruct (descendOpenBlocks p0) as [am p1]. cbn [snd] in D1, D2, G1, I1, E1.
  assert (C1 : CUR p1) by (apply (CUR_of p0); assumption).
  assert (Es1 : source p1 = source p0) by (apply (env_src p0 p1 E1)).
  assert (H2 : WY (XL p0) (let '(hasText, q) := if negb (state p1 =? stDescendTerminated) then openNewBlocks p1 am else (false, p1) in
                           if hasText then addLineText q else q) /\
               source (let '(hasText, q) := if negb (state p1 =? stDescendTerminated) then openNewBlocks p1 am else (false, p1) in
                           if hasText then addLineText q else q) = source p0).
  { destruct (Z.eqb_spec (state p1) stDescendTerminated) as [Et|Et]; cbn [negb].
    - split; [exact D1|exact Es1].
    - assert (HF1 : FA p1) by (split; [exact C1|split; [exact G1|exact I1]]).
      destruct (W_openNewBlocks p1 am HF1 (D2 Et)) as (A & B & Ee & Gg).
      destruct (GI_openNewBlocks p1 am I1) as [_ Ig]. pose proof (openNewBlocks_good p1 am) as Gd.
      destruct (openNewBlocks p1 am) as [ht p2]. cbn [fst snd] in *.
      rewrite (XL_env p0 p1 E1) in A.
      assert (Es2 : source p2 = source p0) by (rewrite (proj1 (env_src p1 p2 Ee)); exact Es1).
      destruct ht.
      + split.
        * replace (XL p0) with (XL p2) by (rewrite (XL_env p1 p2 Ee); apply (XL_env p0 p1 E1)).
          apply W_addLineText; [split; [apply (CUR_of p1); assumption|split; [exact Gg|apply Ig; reflexivity]]|apply Gd; reflexivity|apply B; reflexivity].
        * rewrite src_addLineText. exact Es2.
      + split; [exact A|exact Es2]. }
  destruct (if negb (state p1 =? stDescendTerminated) then openNewBlocks p1 am else (false, p1)) as [ht p2].
  destruct H2 as [H2 Es]. unfold WY in H2. rewrite Es in H2. apply Wb_parts in H2. cbn [fst]. tauto.
Qed.

(* the call at the end of the input only closes blocks *)
Theorem W_processLine_eof st children ls src y : 0 <= ls -> from_ src ls = [] ->
  WL src y children = true -> WL src y (fst (fst (processLine st children ls src))) = true.
Proof.
  intros Hls He HW. rewrite (processLine_eof st children ls src He). cbn [fst]. unfold eofK.
  destruct (_ =? stDescendTerminated); [exact HW|].
  assert (H0 : Wb src y (root0 children) = true) by (unfold root0; rewrite Wb_root0; exact HW).
  pose proof (W_closeBlock src src ls Hls (bheight (root0 children)) y (root0 children) H0) as Hc.
  destruct (closeBlock _ _ _ _) as [|b r]; [exact HW|]. destruct r as [|b2 r].
  - cbn [WL] in Hc. apply Wb_parts in Hc. tauto.
  - rewrite WL_cons in Hc by discriminate. apply andb_true_iff in Hc. destruct Hc as [Hc _].
    pose proof (Wb_weaken src b Hc y) as Hc'. apply Wb_parts in Hc'. tauto.
Qed.
