(* QInlCode.v -- T64 (code spans): the two results packaged for the backtick case of Inl3e.istep.
     let '(cS, cE, sE) := parseCodeSpan fuel st pos in
     if 0 <=? sE then let st := addText st plainStart pos in let st := collectCodeSpan st pos sE cS cE in (st, sE, sE) else (st, cS, plainStart)
   st1 / st1' below stand for the states after addText (same entries and same entry index as st / st'). *)
From Coq Require Import List ZArith Lia Bool.
Import ListNotations.
Require Import Base Tables Utf8 Tree Rdr Link Collect Html Recog Inl3a Inl3b Inl3c Inl3d Driver Inl3e ShapesBase ShapesR IFBase QCutsDef QIRdrBase QInlDefs QInlCode1 QInlCode2.
Open Scope Z_scope.

Lemma CSValid_ext sD st st1 pos cS cE sE : unp st1 = unp st -> upos st1 = upos st -> CSValid sD st pos cS cE sE -> CSValid sD st1 pos cS cE sE.
Proof. intros E1 E2 H. unfold CSValid, unpFrom in *. rewrite E1, E2. exact H. Qed.

Section Step.
  Variables (sD sQ : bytes) (sg : Z -> Z).
  Hypothesis SG : SGood sD sQ sg.
  Variables (st st' st1 st1' : ist) (pos : Z) (f f' : nat).
  Hypothesis HIR : IR sD sQ sg st st'.
  Hypothesis G : Forall (gsp sD sg (unp st)) (unp st).
  Hypothesis W : spW sD (unp st) = true.
  Hypothesis Hup : 0 <= upos st < len (unp st).
  Hypothesis Hpos : istart (nth (Z.to_nat (upos st)) (unp st) (mkI 0 0 0)) <= pos < iend (nth (Z.to_nat (upos st)) (unp st) (mkI 0 0 0)).
  Hypothesis HIR1 : IR sD sQ sg st1 st1'.
  Hypothesis Eu1 : unp st1 = unp st.
  Hypothesis Ep1 : upos st1 = upos st.

  Lemma q_codeSpan_of : parseCodeSpan f' st' (sg pos) = csMap sg pos (parseCodeSpan f st pos) /\ CSFacts sD st pos (parseCodeSpan f st pos) ->
    forall cS cE sE, parseCodeSpan f st pos = (cS, cE, sE) ->
    exists cS' cE' sE', parseCodeSpan f' st' (sg pos) = (cS', cE', sE') /\ (0 <=? sE') = (0 <=? sE) /\
      pos <= cS <= iend (nth (Z.to_nat (upos st)) (unp st) (mkI 0 0 0)) /\ (forall y, pos <= y < cS -> at_ sD y = 96) /\
      cS' = sg pos + (cS - pos) /\ cS' = sgE sD sg cS /\ (pos < cS -> cS' = sg (cS - 1) + 1) /\
      (sE < 0 -> cE = -1 /\ sE = -1 /\ cE' = -1 /\ sE' = -1) /\
      (0 <= sE -> CSValid sD st pos cS cE sE /\ cS' = sg cS /\ cE' = sg cE /\ sE' = sg (sE - 1) + 1 /\
                  IR sD sQ sg (collectCodeSpan st1 pos sE cS cE) (collectCodeSpan st1' (sg pos) sE' cS' cE')).
  Proof.
    intros [E F] cS cE sE Ep. rewrite Ep in E, F. unfold csMap in E. unfold CSFacts in F. cbv zeta in F. destruct F as (F1 & F2 & F3).
    eexists _, _, _. split; [exact E|].
    assert (Hsg : sg pos + (cS - pos) = sgE sD sg cS) by (apply (csMap_cS_sgE sD sQ sg SG st G Hup pos cS Hpos F1 F2)).
    assert (Hsg1 : pos < cS -> sg pos + (cS - pos) = sg (cS - 1) + 1) by (intros L; apply (csMap_cS sD sg st G Hup pos cS); lia).
    destruct F3 as [[-> ->]|HV].
    - change (-1 <? 0) with true. cbv iota. split; [reflexivity|]. split; [exact F1|]. split; [exact F2|]. split; [reflexivity|]. split; [exact Hsg|]. split; [exact Hsg1|].
      split; [intros _; repeat split|intros L; lia].
    - pose proof HV as (V1 & V2 & V3 & V4 & V5 & V6 & V7 & V8 & V9 & V10 & _).
      pose proof (u0_gsp sD sg st G Hup) as (A0 & _). assert (HsE : 0 <= sE) by lia. destruct (Z.ltb_spec sE 0) as [L|L]; [lia|].
      assert (N : 0 <= sg (sE - 1)) by (apply (SG_nn _ _ _ SG); lia).
      split; [destruct (Z.leb_spec 0 (sg (sE - 1) + 1)); destruct (Z.leb_spec 0 sE); lia || reflexivity|].
      split; [exact F1|]. split; [exact F2|]. split; [reflexivity|]. split; [exact Hsg|]. split; [exact Hsg1|]. split; [intros L0; lia|]. intros _.
      assert (EcS : sg pos + (cS - pos) = sg cS) by (apply (csMap_cS_valid sD sg st G Hup pos cS); lia).
      split; [exact HV|]. split; [exact EcS|]. split; [reflexivity|]. split; [reflexivity|]. rewrite EcS.
      apply (q_collectCodeSpan sD sQ sg SG st1 st1' pos cS cE sE HIR1); [rewrite Eu1; exact G|rewrite Eu1; exact W|rewrite Eu1, Ep1; exact Hup|].
      apply (CSValid_ext sD st st1); assumption.
  Qed.
End Step.

(* the same fuel on both sides, any fuel *)
Theorem q_codeSpan_any sD sQ sg (SG : SGood sD sQ sg) st st' st1 st1' pos f :
  IR sD sQ sg st st' -> Forall (gsp sD sg (unp st)) (unp st) -> spW sD (unp st) = true -> 0 <= upos st < len (unp st) ->
  istart (nth (Z.to_nat (upos st)) (unp st) (mkI 0 0 0)) <= pos < iend (nth (Z.to_nat (upos st)) (unp st) (mkI 0 0 0)) ->
  IR sD sQ sg st1 st1' -> unp st1 = unp st -> upos st1 = upos st ->
  forall cS cE sE, parseCodeSpan f st pos = (cS, cE, sE) ->
  exists cS' cE' sE', parseCodeSpan f st' (sg pos) = (cS', cE', sE') /\ (0 <=? sE') = (0 <=? sE) /\
    pos <= cS <= iend (nth (Z.to_nat (upos st)) (unp st) (mkI 0 0 0)) /\ (forall y, pos <= y < cS -> at_ sD y = 96) /\
    cS' = sg pos + (cS - pos) /\ cS' = sgE sD sg cS /\ (pos < cS -> cS' = sg (cS - 1) + 1) /\
    (sE < 0 -> cE = -1 /\ sE = -1 /\ cE' = -1 /\ sE' = -1) /\
    (0 <= sE -> CSValid sD st pos cS cE sE /\ cS' = sg cS /\ cE' = sg cE /\ sE' = sg (sE - 1) + 1 /\
                IR sD sQ sg (collectCodeSpan st1 pos sE cS cE) (collectCodeSpan st1' (sg pos) sE' cS' cE')).
Proof.
  intros HIR G W Hup Hpos HIR1 Eu1 Ep1. apply (q_codeSpan_of sD sQ sg SG st st' st1 st1' pos f f G W Hup Hpos HIR1 Eu1 Ep1).
  apply (q_parseCodeSpan_any sD sQ sg SG st st' HIR G W Hup f pos Hpos).
Qed.
Print Assumptions q_codeSpan_any.

(* the fuels of the tokeniser (Inl3e.rfuelOf) *)
Theorem q_codeSpan_rfuel sD sQ sg (SG : SGood sD sQ sg) st st' st1 st1' pos :
  IR sD sQ sg st st' -> Forall (gsp sD sg (unp st)) (unp st) -> spW sD (unp st) = true -> 0 <= upos st < len (unp st) ->
  istart (nth (Z.to_nat (upos st)) (unp st) (mkI 0 0 0)) <= pos < iend (nth (Z.to_nat (upos st)) (unp st) (mkI 0 0 0)) ->
  IR sD sQ sg st1 st1' -> unp st1 = unp st -> upos st1 = upos st ->
  forall cS cE sE, parseCodeSpan (rfuelOf st) st pos = (cS, cE, sE) ->
  exists cS' cE' sE', parseCodeSpan (rfuelOf st') st' (sg pos) = (cS', cE', sE') /\ (0 <=? sE') = (0 <=? sE) /\
    pos <= cS <= iend (nth (Z.to_nat (upos st)) (unp st) (mkI 0 0 0)) /\ (forall y, pos <= y < cS -> at_ sD y = 96) /\
    cS' = sg pos + (cS - pos) /\ cS' = sgE sD sg cS /\ (pos < cS -> cS' = sg (cS - 1) + 1) /\
    (sE < 0 -> cE = -1 /\ sE = -1 /\ cE' = -1 /\ sE' = -1) /\
    (0 <= sE -> CSValid sD st pos cS cE sE /\ cS' = sg cS /\ cE' = sg cE /\ sE' = sg (sE - 1) + 1 /\
                IR sD sQ sg (collectCodeSpan st1 pos sE cS cE) (collectCodeSpan st1' (sg pos) sE' cS' cE')).
Proof.
  intros HIR G W Hup Hpos HIR1 Eu1 Ep1. apply (q_codeSpan_of sD sQ sg SG st st' st1 st1' pos (rfuelOf st) (rfuelOf st') G W Hup Hpos HIR1 Eu1 Ep1).
  apply (q_parseCodeSpan_rfuel sD sQ sg SG st st' HIR G W Hup pos Hpos).
Qed.
Print Assumptions q_codeSpan_rfuel.
