From Coq Require Import List ZArith Lia Bool.
Import ListNotations.
Require Import Base Tables Utf8 Tree Rdr Link Collect Html Recog Inl3a Inl3b Inl3c Inl3d Inl3e Props Leaf3a Leaf3e RdrBound.
Require Import SpanForest SpanIds SpanStack SpanEmph SpanSmall SpanTok SpanRdr SpanCollect SpanScan CoverLeaves CoverEmph CoverUpos CoverTok CoverCollect CoverScan CoverFuel.
Open Scope Z_scope.

(* ================================================================================================
   T41, part 2, scanner layer 4: the tail of an inline link, "(" destination title ")".
   Outside the texts of the destination and of the title the scanner passes only blanks, brackets
   and quotes; a destination or a title that fails leaves the reader where no ")" can be read --
   provided the scanner does not stop for want of fuel (colsOK, see CoverFuel).
   ================================================================================================ *)

Section CLink.
  Variables (src : bytes) (U : list inline) (lo hi : Z).
  Hypothesis HEC : EC src U lo hi.
  Notation nU := (nthU U).
  Notation P := (SpanRdr.P src U).
  Notation AliveAt := (SpanRdr.AliveAt src U).
  Notation Off := (SpanRdr.Off src U).
  Notation RS := (SpanRdr.RS src U).
  Notation EU := (CoverTok.EU U).
  Notation Need := (CoverTok.Need src U).
  Notation NoNeed := (CoverScan.NoNeed src U).
  Notation FB := (CoverFuel.FB src U).

  Ltac stepc :=
    match goal with
    | H : SpanRdr.RS src U ?s ?r |- context [current ?r] =>
      let Hc := fresh "Hc" in let Hp := fresh "Hp" in let Hv := fresh "Hv" in let H41 := fresh "H41" in let Hs := fresh "Hs" in let Hcc := fresh "Hcc" in
      let Hh := fresh "Hh" in let Hvp := fresh "Hvp" in let Hfb := fresh "Hfb" in let Hco := fresh "Hco" in
      pose proof (NoNeed_here src U lo hi HEC s r H) as Hh;
      pose proof (vpos_current r) as Hvp;
      pose proof (fun f => FB_current src U lo hi HEC s r f H) as Hfb;
      pose proof (fun HO => proj1 (proj2 (current_off src U r HO))) as Hco;
      destruct (RS_current src U lo hi HEC s r H) as (Hc & Hp & Hv & H41 & Hs & Hcc);
      let c := fresh "c" in let r' := fresh "r" in
      destruct (current r) as [c r']; cbn [fst snd] in Hc, Hp, Hv, H41, Hs, Hcc, Hh, Hvp, Hfb, Hco
    end.
  Ltac stepn :=
    match goal with
    | H : SpanRdr.RS src U ?s ?r |- context [next ?r] =>
      let Hn := fresh "Hn" in let Hm := fresh "Hm" in let Hok := fresh "Hok" in let Hfl := fresh "Hfl" in let Hg := fresh "Hg" in
      let Hvn := fresh "Hvn" in let Hfn := fresh "Hfn" in let Hfs := fresh "Hfs" in let Hof := fresh "Hof" in
      pose proof (NoNeed_next src U lo hi HEC s r H) as Hg;
      pose proof (vpos_next r) as Hvn;
      pose proof (fun f => FB_next src U lo hi HEC s r f H) as Hfn;
      pose proof (fun f => FB_next_same src U lo hi HEC s r f H) as Hfs;
      pose proof (next_fail_off src U lo hi HEC s r H) as Hof;
      destruct (RS_next src U lo hi HEC s r H) as (Hn & Hm & Hok & Hfl);
      let ok := fresh "ok" in let r' := fresh "r" in
      destruct (next r) as [ok r']; cbn [fst snd] in Hn, Hm, Hok, Hfl, Hg, Hvn, Hfn, Hfs, Hof
    end.

  Lemma valid_span a b : 0 <= a -> a <= b -> spanValid (a, b) = true.
  Proof. intros H1 H2. unfold spanValid. cbn [fst snd]. rewrite !andb_true_iff, !Z.leb_le. lia. Qed.

  (* ---- skipLinkSpace passes only blanks ---- *)
  Lemma skipLinkSpace_loop_cov : forall fuel s r, RS s r ->
    NoNeed (r_pos r) (r_pos (snd (skipLinkSpace_loop fuel r))) /\ (0 <= r_vpos r -> 0 <= r_vpos (snd (skipLinkSpace_loop fuel r))).
  Proof.
    induction fuel as [|f IH]; intros s r HR; cbn [skipLinkSpace_loop].
    - cbn [snd]. split; [apply NoNeed_empty; lia|exact (fun H => H)].
    - stepc. destruct (isSpaceTabOrLineEnding c) eqn:Ew.
      + stepn. destruct ok.
        * destruct (Hok eq_refl) as (Hr1 & _). destruct (IH true r1 Hr1) as (I1 & I2). split.
          -- apply (NoNeed_app _ _ _ (r_pos r + 1)); [apply Hh; apply ws_nontextual; exact Ew|]. rewrite <- Hp.
             apply (NoNeed_app _ _ _ (r_pos r1)); [exact Hg|exact I1].
          -- intros Hv0. apply I2. apply Hvn. lia.
        * cbn [snd]. split; [|intros Hv0; apply Hvn; lia].
          apply (NoNeed_app _ _ _ (r_pos r + 1)); [apply Hh; apply ws_nontextual; exact Ew|]. rewrite <- Hp. exact Hg.
      + cbn [snd]. split; [apply NoNeed_empty; lia|intros; lia].
  Qed.
  Lemma skipLinkSpace_cov fuel s r : RS s r ->
    NoNeed (r_pos r) (r_pos (snd (skipLinkSpace fuel r))) /\ (0 <= r_vpos r -> 0 <= r_vpos (snd (skipLinkSpace fuel r))).
  Proof.
    intros HR. unfold skipLinkSpace. stepc. destruct (c =? 0).
    - cbn [snd]. split; [apply NoNeed_empty; lia|intros; lia].
    - destruct (skipLinkSpace_loop_cov fuel s r0 Hc) as (I1 & I2). rewrite Hp in I1. split; [exact I1|intros; apply I2; lia].
  Qed.

  (* ---- a reader at which neither a title nor the closing parenthesis can be read ---- *)
  Definition Stuck (r : reader) : Prop := Off r \/ isEOLb (fst (current r)) = true.

  Lemma Off_not41 r : U <> [] -> Off r -> fst (current r) <> 41.
  Proof.
    intros HN HO. destruct (current_off src U r HO) as (E & _). rewrite E. unfold byteOff.
    destruct (Z.leb_spec (len src) P) as [L|L]; [discriminate|].
    destruct (SpanRdr.HT src U lo hi HEC HN) as [[B|B]|(_ & _ & _ & B)].
    - lia.
    - destruct (Z.eqb_spec (at_ src P) 0) as [E0|N0]; [rewrite E0 in B; discriminate|]. intros X. rewrite X in B. discriminate.
    - destruct (at_ src P =? 0); [|exact B]. unfold nullRepl. destruct (_ =? 0); [discriminate|]. destruct (_ =? 1); discriminate.
  Qed.
  Lemma Stuck_not41 r : U <> [] -> Stuck r -> fst (current r) <> 41.
  Proof. intros HN [HO|HE]; [apply Off_not41; assumption|]. intros X. rewrite X in HE. discriminate. Qed.

  Lemma spanValid_null : spanValid nullSpan = false. Proof. reflexivity. Qed.

  (* ---- the title ---- *)
  Lemma lt_loop_cov term : textual term = false -> isSpaceTabOrLineEnding term = false -> term <> 0 ->
    forall fuel s r start, RS s r -> FB fuel r -> 0 <= start <= r_pos r ->
    let '(tspan, ttext, r') := lt_loop fuel r start term in
    ((spanValid tspan = false /\ Off r') \/ (spanValid tspan = true /\ NoNeed (snd ttext) (r_pos r') /\ fst ttext = start + 1)) /\ 0 <= r_vpos r'.
  Proof.
    intros Ht1 Ht2 Ht3. induction fuel as [|f IH]; intros s r start HR HF Hst; cbn [lt_loop].
    - split; [left; split; [reflexivity|apply (FB_zero_off src U lo hi HEC s r HR HF)]|apply HF].
    - stepn. destruct ok; cbn [negb]; [|split; [left; split; [reflexivity|apply Hof; reflexivity]|apply Hvn, HF]].
      destruct (Hok eq_refl) as (Hr0 & Hpv & Hal & _). pose proof (Hfn f HF eq_refl) as HF0. stepc. pose proof (Hfb f HF0) as HF1.
      destruct (Z.eqb_spec c 92) as [E92|N92].
      + stepn. destruct ok; cbn [negb]; [|split; [left; split; [reflexivity|apply Hof0; reflexivity]|apply Hvn0; destruct HF1; lia]].
        destruct (Hok0 eq_refl) as (Hr2 & _). pose proof (Hfs0 f HF1 eq_refl) as HF2.
        exact (IH true r2 start Hr2 HF2 ltac:(lia)).
      + destruct (Z.eqb_spec c term) as [Et|Nt].
        * destruct (Hs eq_refl ltac:(rewrite Et; exact Ht3) ltac:(rewrite Et; exact Ht2)) as (k & A).
          pose proof (next_prev_alive src U lo hi HEC r1 k A) as Epv.
          stepn. cbn [fst snd] in *. split; [|apply Hvn0; destruct HF1; lia]. right. rewrite Epv.
          split; [apply valid_span; lia|]. split; [|reflexivity].
          rewrite <- Hp in Hh. apply (NoNeed_app _ _ _ (r_pos r1 + 1)); [apply Hh; rewrite Et; exact Ht1|exact Hg0].
        * exact (IH true r1 start Hc HF1 ltac:(lia)).
  Qed.

  Lemma parseLinkTitle_cov fuel s r : RS s r -> FB fuel r ->
    let '(tspan, ttext, r') := parseLinkTitle fuel r in
    ((spanValid tspan = false /\ (r_pos r' = r_pos r \/ Off r')) \/
     (spanValid tspan = true /\ NoNeed (r_pos r) (fst ttext) /\ NoNeed (snd ttext) (r_pos r'))) /\ 0 <= r_vpos r'.
  Proof.
    intros HR HF. unfold parseLinkTitle. pose proof (RS_pos0 src U lo hi HEC s r HR) as Hp0. stepc. pose proof (Hfb fuel HF) as HF0.
    destruct ((c =? 39) || (c =? 34) || (c =? 40)) eqn:Eq; cbn [negb].
    2:{ split; [left; split; [reflexivity|left; exact Hp]|destruct HF; lia]. }
    set (term := if c =? 40 then 41 else c).
    assert (Hterm : textual term = false /\ isSpaceTabOrLineEnding term = false /\ term <> 0 /\ textual c = false).
    { unfold term. destruct (Z.eqb_spec c 40) as [->|N40]; [repeat split; discriminate|].
      destruct (Z.eqb_spec c 39) as [->|N39]; [repeat split; discriminate|]. destruct (Z.eqb_spec c 34) as [->|N34]; [repeat split; discriminate|]. discriminate. }
    destruct Hterm as (T1 & T2 & T3 & T4).
    pose proof (lt_loop_cov term T1 T2 T3 fuel s r0 (r_pos r0) Hc HF0 ltac:(lia)) as H.
    destruct (lt_loop fuel r0 (r_pos r0) term) as [[tspan ttext] r']. destruct H as (H1 & H2). split; [|exact H2].
    destruct H1 as [(V & O)|(V & N & E)]; [left; split; [exact V|right; exact O]|right].
    split; [exact V|]. split; [|exact N]. rewrite E, Hp. apply Hh. exact T4.
  Qed.

  Lemma Stuck_title fuel s r : RS s r -> Stuck r ->
    let '(tspan, ttext, r') := parseLinkTitle fuel r in spanValid tspan = false /\ Stuck r'.
  Proof.
    intros HR HS. unfold parseLinkTitle. unfold Stuck in HS. stepc. cbn [fst] in HS.
    destruct ((c =? 39) || (c =? 34) || (c =? 40)) eqn:Eq; cbn [negb].
    2:{ split; [reflexivity|]. destruct HS as [HO|HE]; [left; apply Hco; exact HO|right; rewrite Hcc; exact HE]. }
    assert (HO : Off r0).
    { destruct HS as [HO|HE]; [apply Hco; exact HO|]. exfalso.
      destruct (Z.eqb_spec c 40) as [->|N40]; [discriminate|]. destruct (Z.eqb_spec c 39) as [->|N39]; [discriminate|].
      destruct (Z.eqb_spec c 34) as [->|N34]; [discriminate|]. discriminate. }
    destruct fuel as [|f]; cbn [lt_loop]; [split; [reflexivity|left; exact HO]|].
    destruct (next_off src U r0 HO) as (X & Y & _). destruct (next r0) as [ok r1]. cbn [fst snd] in X, Y. subst ok. cbn [negb].
    split; [reflexivity|left; exact Y].
  Qed.

  (* ---- the destination ---- *)
  Lemma isEOLb_1310 c : (c =? 13) || (c =? 10) = true -> isEOLb c = true.
  Proof. unfold isEOLb. rewrite orb_comm. exact (fun H => H). Qed.
  Lemma isEOLb_1013 c : (c =? 10) || (c =? 13) = true -> isEOLb c = true.
  Proof. exact (fun H => H). Qed.

  Lemma ld_angle_cov : forall fuel s r start, RS s r -> FB fuel r -> 0 <= start <= r_pos r ->
    let '(dspan, dtext, r') := ld_angle fuel r start in
    ((spanValid dspan = false /\ Stuck r') \/ (spanValid dspan = true /\ NoNeed (snd dtext) (r_pos r') /\ fst dtext = start + 1)) /\ 0 <= r_vpos r'.
  Proof.
    induction fuel as [|f IH]; intros s r start HR HF Hst; cbn [ld_angle].
    - split; [left; split; [reflexivity|left; apply (FB_zero_off src U lo hi HEC s r HR HF)]|apply HF].
    - stepn. destruct ok; cbn [negb]; [|split; [left; split; [reflexivity|left; apply Hof; reflexivity]|apply Hvn, HF]].
      destruct (Hok eq_refl) as (Hr0 & Hpv & Hal & _). pose proof (Hfn f HF eq_refl) as HF0. stepc. pose proof (Hfb f HF0) as HF1.
      destruct ((c =? 13) || (c =? 10)) eqn:Eeol.
      { split; [left; split; [reflexivity|right; rewrite Hcc; apply isEOLb_1310; exact Eeol]|destruct HF1; lia]. }
      destruct (Z.eqb_spec c 92) as [E92|N92].
      + stepn. destruct ok; cbn [negb]; [|split; [left; split; [reflexivity|left; apply Hof0; reflexivity]|apply Hvn0; destruct HF1; lia]].
        destruct (Hok0 eq_refl) as (Hr2 & _). pose proof (Hfs0 f HF1 eq_refl) as HF2. stepc. pose proof (Hfb0 f HF2) as HF3.
        destruct ((c0 =? 10) || (c0 =? 13)) eqn:Eeol2.
        { split; [left; split; [reflexivity|right; rewrite Hcc0; apply isEOLb_1013; exact Eeol2]|destruct HF3; lia]. }
        exact (IH true r3 start Hc0 HF3 ltac:(lia)).
      + destruct (Z.eqb_spec c 62) as [E62|N62].
        * destruct (Hs eq_refl ltac:(lia) ltac:(rewrite E62; reflexivity)) as (k & A).
          pose proof (next_prev_alive src U lo hi HEC r1 k A) as Epv.
          stepn. cbn [fst snd] in *. split; [|apply Hvn0; destruct HF1; lia]. right. rewrite Epv.
          split; [apply valid_span; lia|]. split; [|reflexivity].
          rewrite <- Hp in Hh. apply (NoNeed_app _ _ _ (r_pos r1 + 1)); [apply Hh; rewrite E62; reflexivity|exact Hg0].
        * exact (IH true r1 start Hc HF1 ltac:(lia)).
  Qed.

  Lemma ld_bare_mono : forall fuel s r paren, RS s r ->
    r_pos r <= r_pos (ld_bare fuel r paren) /\ (0 <= r_vpos r -> 0 <= r_vpos (ld_bare fuel r paren)).
  Proof.
    induction fuel as [|f IH]; intros s r paren HR; cbn [ld_bare]; [split; [lia|exact (fun H => H)]|].
    stepc. destruct (isASCIIControl c || (c =? 32)); [split; [lia|intros; lia]|].
    assert (Hstep : forall paren', let '(ok, r2) := next r0 in
              r_pos r <= r_pos (if ok then ld_bare f r2 paren' else r2) /\ (0 <= r_vpos r -> 0 <= r_vpos (if ok then ld_bare f r2 paren' else r2))).
    { intros paren'. stepn. destruct ok.
      - destruct (Hok eq_refl) as (Hr2 & _). destruct (IH true r1 paren' Hr2) as (I1 & I2). split; [lia|intros; apply I2; apply Hvn; lia].
      - split; [lia|intros; apply Hvn; lia]. }
    destruct (Z.eqb_spec c 92) as [E92|N92].
    - stepn. destruct ok; cbn [negb]; [|split; [lia|intros; apply Hvn; lia]].
      destruct (Hok eq_refl) as (Hr2 & _). stepc.
      destruct (isASCIIControl c0 || (c0 =? 32)); [split; [lia|intros; rewrite Hvp0; apply Hvn; lia]|].
      stepn. destruct ok.
      + destruct (Hok0 eq_refl) as (Hr4 & _). destruct (IH true r3 paren Hr4) as (I1 & I2). split; [lia|intros; apply I2; apply Hvn0; rewrite Hvp0; apply Hvn; lia].
      + split; [lia|intros; apply Hvn0; rewrite Hvp0; apply Hvn; lia].
    - destruct (c =? 40).
      { pose proof (Hstep (paren + 1)) as H. destruct (next r0) as [ok r2]. destruct ok; exact H. }
      destruct (c =? 41).
      { destruct (paren - 1 <? 0); [split; [lia|intros; lia]|].
        pose proof (Hstep (paren - 1)) as H. destruct (next r0) as [ok r2]. destruct ok; exact H. }
      pose proof (Hstep paren) as H. destruct (next r0) as [ok r2]. destruct ok; exact H.
  Qed.

  Lemma parseLinkDestination_cov fuel s r : RS s r -> FB fuel r ->
    let '(dspan, dtext, r') := parseLinkDestination fuel r in
    ((spanValid dspan = false /\ (r_pos r' = r_pos r \/ Stuck r')) \/
     (spanValid dspan = true /\ NoNeed (r_pos r) (fst dtext) /\ NoNeed (snd dtext) (r_pos r'))) /\ 0 <= r_vpos r'.
  Proof.
    intros HR HF. unfold parseLinkDestination. pose proof (RS_pos0 src U lo hi HEC s r HR) as Hp0. stepc. pose proof (Hfb fuel HF) as HF0.
    destruct (Z.eqb_spec c 60) as [E60|N60].
    - pose proof (ld_angle_cov fuel s r0 (r_pos r0) Hc HF0 ltac:(lia)) as H.
      destruct (ld_angle fuel r0 (r_pos r0)) as [[dspan dtext] r']. destruct H as (H1 & H2). split; [|exact H2].
      destruct H1 as [(V & O)|(V & N & E)]; [left; split; [exact V|right; exact O]|right].
      split; [exact V|]. split; [|exact N]. rewrite E, Hp. apply Hh. rewrite E60. reflexivity.
    - destruct (negb (isASCIIControl c) && negb (c =? 32) && negb (c =? 41)).
      + destruct (ld_bare_mono fuel s r0 0 Hc) as (B1 & B2). cbn [fst snd]. split; [|apply B2; destruct HF; lia].
        right. split; [apply valid_span; lia|]. split; apply NoNeed_empty; lia.
      + split; [left; split; [reflexivity|left; exact Hp]|destruct HF; lia].
  Qed.

  (* ---- the node of a destination or a title covers its text ---- *)
  Lemma textNode_cov fuel j kind (span text : Z * Z) p : RS false (newReader src (from_ U j) (fst text)) -> (Z.to_nat P + 4 <= fuel)%nat ->
    fst span <= fst text -> snd text <= snd span -> Need p -> fst text <= p < snd text ->
    covN p (PN 0 kind (fst span) (snd span) 0 []
               (if spanValid text then kidsOf (collectTextNodes fuel (newReader src (from_ U j) (fst text)) (snd text) TextKind true) else [])).
  Proof.
    intros HR Hf H1 H2 Hn Hq.
    set (kids := if spanValid text then _ else _).
    assert (Hk : kids <> [] -> covF p kids).
    { unfold kids. destruct (spanValid text); [|intros X; contradiction]. intros _.
      apply (collect_new_cov src U lo hi HEC fuel j (fst text) (snd text) TextKind true HR Hf p Hn Hq). }
    destruct kids as [|k0 kr]; [apply covN_leaf; lia|]. apply covN_kids; [discriminate|]. apply Hk. discriminate.
  Qed.
  Hypothesis HF : colsOK src U = true.

  Theorem CSpecInline_holds : CSpecInline src U.
  Proof.
    intros st s HE Hs H40. destruct (inEntry_reader src U st (s - 1) HE) as (Eu & Es & Hj & Hp & Hse). rewrite Hse in Hs.
    unfold parseInlineLink. rewrite Es, Eu.
    set (j := upos st) in *. set (fuel := rfuelOf st).
    assert (Hfuel : (Z.to_nat P + 4 <= fuel)%nat) by (apply (fuel_ok src U lo hi HEC st j); assumption).
    assert (HN : U <> []) by (apply (U_ne U j); lia).
    assert (HFB : forall r, 0 <= r_vpos r -> FB fuel r) by (intros r Hv; apply (FB_init src U lo hi HEC st r HF Es Hv)).
    destruct (eb src U lo hi HEC j Hj) as (Bj1 & Bj2 & Bj3). pose proof (ec_lo _ _ _ _ HEC) as Hlo.
    assert (HR0 : RS false (newReader src (from_ U j) (s + 1))).
    { destruct (Z.lt_ge_cases (s + 1) (iend (nU j))) as [L|L]; [apply (RS_new src U lo hi HEC false (s + 1) j j); lia|].
      assert (Ni : ikind (nU j) <> IndentKind) by (intros Ei; pose proof (ec_width _ _ _ _ HEC j Hj Ei); lia).
      assert (Hlast : j + 1 = len U).
      { destruct (Z.eq_dec (j + 1) (len U)) as [X|X]; [exact X|]. exfalso. destruct (ec_eol _ _ _ _ HEC j ltac:(lia) ltac:(lia)) as (_ & He). specialize (He Ni).
        replace (iend (nU j) - 1) with s in He by lia. rewrite H40 in He. discriminate. }
      replace (s + 1) with P by (rewrite (P_last src U lo hi HEC HN); replace (len U - 1) with j by lia; lia).
      pose proof (P_ge src U lo hi HEC j Hj) as Pg. apply (RS_at_P src U lo hi HEC); lia. }
    assert (N0 : NoNeed s (s + 1)).
    { intros q Hq (_ & Ht). replace q with s in Ht by lia. rewrite H40 in Ht. discriminate. }
    destruct (skipLinkSpace_spec src U lo hi HEC fuel false _ HR0) as (K1 & K2 & _). cbn [r_pos newReader] in K2.
    destruct (skipLinkSpace_cov fuel false _ HR0) as (C1 & V1). cbn [r_pos r_vpos newReader] in C1, V1. specialize (V1 ltac:(lia)).
    destruct (skipLinkSpace fuel (newReader src (from_ U j) (s + 1))) as [ok r1]. cbn [fst snd] in *.
    destruct ok; cbn [negb]; [|cbn; discriminate].
    pose proof (parseLinkDestination_spec src U lo hi HEC fuel false r1 K1 ltac:(lia)) as HD.
    pose proof (parseLinkDestination_cov fuel false r1 K1 (HFB r1 V1)) as HDc.
    destruct (parseLinkDestination fuel r1) as [[dspan dtext] r2]. destruct HD as ((D1 & D2 & D3) & D4). destruct HDc as (Dc & V2).
    destruct (optSkip_spec src U lo hi HEC fuel (spanValid dspan) r2 D1) as (O1 & O2).
    assert (Oc : NoNeed (r_pos r2) (r_pos (snd (if spanValid dspan then skipLinkSpace fuel r2 else (true, r2)))) /\
                 0 <= r_vpos (snd (if spanValid dspan then skipLinkSpace fuel r2 else (true, r2))) /\
                 (spanValid dspan = false -> snd (if spanValid dspan then skipLinkSpace fuel r2 else (true, r2)) = r2)).
    { destruct (spanValid dspan).
      - destruct (skipLinkSpace_cov fuel false r2 D1) as (X & Y). split; [exact X|]. split; [apply Y; exact V2|discriminate].
      - cbn [snd]. split; [apply NoNeed_empty; lia|]. split; [exact V2|reflexivity]. }
    destruct (if spanValid dspan then skipLinkSpace fuel r2 else (true, r2)) as [ok2 r3]. cbn [fst snd] in *.
    destruct Oc as (Oc & V3 & Oe).
    destruct ok2; cbn [negb]; [|cbn; discriminate].
    pose proof (parseLinkTitle_spec src U lo hi HEC fuel false r3 O1) as HTt.
    pose proof (parseLinkTitle_cov fuel false r3 O1 (HFB r3 V3)) as HTc.
    pose proof (Stuck_title fuel false r3 O1) as HTs.
    destruct (parseLinkTitle fuel r3) as [[tspan ttext] r4]. destruct HTt as ((T1 & T2 & T3) & T4). destruct HTc as (Tc & V4).
    destruct (optSkip_spec src U lo hi HEC fuel (spanValid tspan) r4 T1) as (Q1 & Q2).
    assert (Qc : NoNeed (r_pos r4) (r_pos (snd (if spanValid tspan then skipLinkSpace fuel r4 else (true, r4)))) /\
                 (spanValid tspan = false -> snd (if spanValid tspan then skipLinkSpace fuel r4 else (true, r4)) = r4)).
    { destruct (spanValid tspan).
      - destruct (skipLinkSpace_cov fuel false r4 T1) as (X & Y). split; [exact X|discriminate].
      - cbn [snd]. split; [apply NoNeed_empty; lia|reflexivity]. }
    destruct (if spanValid tspan then skipLinkSpace fuel r4 else (true, r4)) as [ok3 r5]. cbn [fst snd] in *.
    destruct Qc as (Qc & Qe).
    destruct ok3; cbn [negb]; [|cbn; discriminate].
    pose proof (NoNeed_here src U lo hi HEC false r5 Q1) as N5. unfold cur.
    destruct (Z.eqb_spec (fst (current r5)) 41) as [E41|N41]; cbn [negb]; [|cbn; discriminate].
    specialize (N5 ltac:(rewrite E41; reflexivity)).
    intros _ p Hn Hq. cbn [fst snd] in Hq.
    (* the failing cases in which the reader has moved cannot end at a closing parenthesis *)
    assert (Tc' : (spanValid tspan = false /\ r_pos r4 = r_pos r3) \/
                  (spanValid tspan = true /\ NoNeed (r_pos r3) (fst ttext) /\ NoNeed (snd ttext) (r_pos r4))).
    { destruct Tc as [(V & [X|X])|Y]; [left; tauto| |right; exact Y].
      exfalso. rewrite (Qe V) in E41. exact (Off_not41 r4 HN X E41). }
    assert (Dc' : (spanValid dspan = false /\ r_pos r2 = r_pos r1) \/
                  (spanValid dspan = true /\ NoNeed (r_pos r1) (fst dtext) /\ NoNeed (snd dtext) (r_pos r2))).
    { destruct Dc as [(V & [X|X])|Y]; [left; tauto| |right; exact Y].
      exfalso. rewrite (Oe V) in HTs. destruct (HTs X) as (Vt & St). rewrite (Qe Vt) in E41. exact (Stuck_not41 r4 HN St E41). }
    clear Tc Dc HTs.
    pose proof (NoNeed_app _ _ _ _ _ N0 C1) as A1.
    pose proof (NoNeed_app _ _ _ _ _ Qc N5) as A3.
    unfold linkExtras.
    assert (HDn : spanValid dspan = true -> fst dtext <= p < snd dtext -> covN p (destNode src fuel (from_ U j) dspan dtext)).
    { intros Hv Hr. destruct (D3 Hv) as (E1 & E2 & E3 & E4 & E5 & E6 & E7). unfold destNode.
      apply (textNode_cov fuel j LinkDestinationKind dspan dtext p); try assumption. apply (D4 Hv j Hj). lia. }
    assert (HTn : spanValid tspan = true -> fst ttext <= p < snd ttext -> covN p (titleNode src fuel (from_ U j) tspan ttext)).
    { intros Hv Hr. destruct (T3 Hv) as (E1 & E2 & E3 & E4 & E5 & E6 & E7). unfold titleNode.
      apply (textNode_cov fuel j LinkTitleKind tspan ttext p); try assumption. apply (T4 Hv j Hj). lia. }
    destruct Dc' as [(Ed & Epd)|(Ed & Nd1 & Nd2)]; destruct Tc' as [(Et & Ept)|(Et & Nt1 & Nt2)]; rewrite Ed, Et; cbn [app].
    - exfalso. rewrite <- Epd in A1. pose proof (NoNeed_app _ _ _ _ _ A1 Oc) as A2. rewrite <- Ept in A2.
      pose proof (NoNeed_app _ _ _ _ _ A2 A3) as A4. apply (A4 p); [lia|exact Hn].
    - rewrite <- Epd in A1. pose proof (NoNeed_app _ _ _ _ _ (NoNeed_app _ _ _ _ _ A1 Oc) Nt1) as A2.
      pose proof (NoNeed_app _ _ _ _ _ Nt2 A3) as A4.
      apply covF_cons. left. apply (HTn Et).
      destruct (Z.lt_ge_cases p (fst ttext)) as [L1|L1]; [exfalso; apply (A2 p); [lia|exact Hn]|].
      destruct (Z.lt_ge_cases p (snd ttext)) as [L2|L2]; [lia|exfalso; apply (A4 p); [lia|exact Hn]].
    - pose proof (NoNeed_app _ _ _ _ _ A1 Nd1) as A2.
      pose proof (NoNeed_app _ _ _ _ _ Nd2 Oc) as A4. rewrite <- Ept in A4. pose proof (NoNeed_app _ _ _ _ _ A4 A3) as A5.
      apply covF_cons. left. apply (HDn Ed).
      destruct (Z.lt_ge_cases p (fst dtext)) as [L1|L1]; [exfalso; apply (A2 p); [lia|exact Hn]|].
      destruct (Z.lt_ge_cases p (snd dtext)) as [L2|L2]; [lia|exfalso; apply (A5 p); [lia|exact Hn]].
    - pose proof (NoNeed_app _ _ _ _ _ A1 Nd1) as A2.
      pose proof (NoNeed_app _ _ _ _ _ (NoNeed_app _ _ _ _ _ Nd2 Oc) Nt1) as A4.
      pose proof (NoNeed_app _ _ _ _ _ Nt2 A3) as A5.
      destruct (Z.lt_ge_cases p (fst dtext)) as [L1|L1]; [exfalso; apply (A2 p); [lia|exact Hn]|].
      destruct (Z.lt_ge_cases p (snd dtext)) as [L2|L2]; [apply covF_cons; left; apply (HDn Ed); lia|].
      destruct (Z.lt_ge_cases p (fst ttext)) as [L3|L3]; [exfalso; apply (A4 p); [lia|exact Hn]|].
      destruct (Z.lt_ge_cases p (snd ttext)) as [L4|L4]; [|exfalso; apply (A5 p); [lia|exact Hn]].
      apply covF_cons. right. apply covF_cons. left. apply (HTn Et). lia.
  Qed.
End CLink.
Print Assumptions CSpecInline_holds.
