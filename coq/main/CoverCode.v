From Coq Require Import List ZArith Lia Bool.
Import ListNotations.
Require Import Base Tables Utf8 Tree Rdr Link Collect Html Recog Inl3a Inl3b Inl3c Inl3d Inl3e Props Leaf3a Leaf3e RdrBound.
Require Import SpanForest SpanIds SpanStack SpanEmph SpanSmall SpanTok SpanRdr SpanCollect SpanScan SpanCode CoverLeaves CoverEmph CoverUpos CoverTok CoverCollect.
Open Scope Z_scope.

(* ================================================================================================
   T41, part 2, scanner layer 2: code spans.  The fences consist of backticks, the pieces of the
   content cover every byte of the Unparsed entries between the fences, and stripCodeSpanSpace takes
   away only a space byte or a line ending.
   ================================================================================================ *)

Section Pieces.
  Variable src : bytes.

  Definition goodP (n : pn) : Prop :=
    pkids n = [] /\ (pkind n = IndentKind -> forall q, ps n <= q < pe n -> textual (at_ src q) = false).

  Lemma covN_good q n : goodP n -> (covN q n <-> ps n <= q < pe n).
  Proof. intros [Hk _]. rewrite covN_iff, Hk. split; [intros [[_ H]|[H _]]; [exact H|contradiction]|intros H; left; split; [reflexivity|exact H]]. Qed.

  Lemma addSpan_degenerate acc s e : e < s -> cs_addSpan src acc s e = acc.
  Proof.
    intros Lse. unfold cs_addSpan. cbv zeta. rewrite (sub_nil_ge src s e) by lia. change (len (@nil Z)) with 0.
    replace (2 <=? 0) with false by reflexivity. replace (1 <=? 0) with false by reflexivity. cbn [andb]. rewrite Z.sub_0_r.
    assert (E0 : spanLen s e = 0) by (unfold spanLen; destruct (0 <=? s); destruct (0 <=? e); cbn [andb]; try reflexivity; destruct (Z.leb_spec s e); [lia|reflexivity]).
    rewrite E0. reflexivity.
  Qed.

  Definition posF (l : list pn) : Prop := Forall (fun n => 0 <= ps n /\ 0 <= pe n) l.

  Lemma addSpan_spec acc s e : Forall goodP acc -> 0 <= s -> e <= len src ->
    Forall goodP (cs_addSpan src acc s e) /\ (posF acc -> posF (cs_addSpan src acc s e)) /\
    (forall q, covF q acc -> covF q (cs_addSpan src acc s e)) /\
    (forall q, s <= q < e -> covF q (cs_addSpan src acc s e)).
  Proof.
    intros Hg Hs He.
    destruct (Z.lt_ge_cases e s) as [Lse|Lse].
    { rewrite addSpan_degenerate by exact Lse. split; [exact Hg|]. split; [exact (fun H => H)|]. split; [intros q H; exact H|intros q H; lia]. }
    unfold cs_addSpan. cbv zeta. rewrite (len_sub src s e) by lia.
    set (trim := if (2 <=? e - s) && (at_ (sub src s e) (e - s - 2) =? 13) && (at_ (sub src s e) (e - s - 1) =? 10) then 2
                 else if (1 <=? e - s) && ((at_ (sub src s e) (e - s - 1) =? 10) || (at_ (sub src s e) (e - s - 1) =? 13)) then 1 else 0).
    assert (Ht : 0 <= trim <= e - s /\ forall q, e - trim <= q < e -> textual (at_ src q) = false).
    { unfold trim. destruct ((2 <=? e - s) && (at_ (sub src s e) (e - s - 2) =? 13) && (at_ (sub src s e) (e - s - 1) =? 10)) eqn:E2.
      - apply andb_true_iff in E2. destruct E2 as [E2 E3]. apply andb_true_iff in E2. destruct E2 as [E1 E2].
        apply Z.leb_le in E1. apply Z.eqb_eq in E2, E3. rewrite at_sub in E2, E3 by lia. split; [lia|].
        intros q Hq. destruct (Z.eq_dec q (e - 2)) as [->|N].
        + replace (e - 2) with (s + (e - s - 2)) by lia. rewrite E2. reflexivity.
        + replace q with (s + (e - s - 1)) by lia. rewrite E3. reflexivity.
      - destruct ((1 <=? e - s) && ((at_ (sub src s e) (e - s - 1) =? 10) || (at_ (sub src s e) (e - s - 1) =? 13))) eqn:E1.
        + apply andb_true_iff in E1. destruct E1 as [E1 E3]. apply Z.leb_le in E1. rewrite at_sub in E3 by lia. split; [lia|].
          intros q Hq. replace q with (s + (e - s - 1)) by lia. apply orb_true_iff in E3. destruct E3 as [E3|E3]; apply Z.eqb_eq in E3; rewrite E3; reflexivity.
        + split; [lia|intros q Hq; lia]. }
    destruct Ht as [Ht Hnt].
    set (acc1 := if 0 <? spanLen s (e - trim) then acc ++ [PN 0 TextKind s (e - trim) 0 [] []] else acc).
    assert (H1 : Forall goodP acc1 /\ (posF acc -> posF acc1) /\ (forall q, covF q acc -> covF q acc1) /\ (forall q, s <= q < e - trim -> covF q acc1)).
    { unfold acc1. destruct (Z.ltb_spec 0 (spanLen s (e - trim))) as [L|L].
      - split; [apply Forall_app; split; [exact Hg|constructor; [split; [reflexivity|discriminate]|constructor]]|].
        split; [intros Hp; apply Forall_app; split; [exact Hp|constructor; [cbn [ps pe]; lia|constructor]]|].
        split; [intros q H; apply covF_app; left; exact H|].
        intros q Hq. apply covF_app. right. apply covF_cons. left. apply covN_leaf. exact Hq.
      - split; [exact Hg|]. split; [exact (fun H => H)|]. split; [intros q H; exact H|]. intros q Hq. exfalso. unfold spanLen in L.
        destruct (Z.leb_spec 0 s); [|lia]. destruct (Z.leb_spec 0 (e - trim)); [|lia]. destruct (Z.leb_spec s (e - trim)); [|lia]. cbn [andb] in L. lia. }
    destruct H1 as (G1 & Q1 & M1 & C1).
    destruct (Z.ltb_spec 0 trim) as [Lt|Lt].
    - split; [apply Forall_app; split; [exact G1|constructor; [|constructor]]|].
      { split; [reflexivity|]. intros _ q Hq. cbn [ps pe] in Hq. apply Hnt. lia. }
      split; [intros Hp; apply Forall_app; split; [exact (Q1 Hp)|constructor; [cbn [ps pe]; lia|constructor]]|].
      split; [intros q H; apply covF_app; left; apply M1; exact H|].
      intros q Hq. apply covF_app. destruct (Z.lt_ge_cases q (e - trim)) as [L|L]; [left; apply C1; lia|].
      right. apply covF_cons. left. apply covN_leaf. lia.
    - split; [exact G1|]. split; [exact Q1|]. split; [exact M1|]. intros q Hq. apply C1. lia.
  Qed.

  Lemma goodP_setInd n v : goodP n -> goodP (setInd n v).
  Proof. destruct n as [i k s e ind r ks]. exact (fun H => H). Qed.
  Lemma goodP_setSpan n s e : goodP n -> pkind n <> IndentKind -> goodP (setSpan n s e).
  Proof. destruct n as [i k s0 e0 ind r ks]. cbn [setSpan]. intros [Hk _] Hn. split; [exact Hk|]. cbn [pkind] in *. intros X; contradiction. Qed.
  Lemma pkind_setSpan n s e : pkind (setSpan n s e) = pkind n. Proof. destruct n; reflexivity. Qed.
  Lemma pkind_setInd n v : pkind (setInd n v) = pkind n. Proof. destruct n; reflexivity. Qed.

  Lemma spanLen_zero s e : spanLen s e =? 0 = true -> 0 <= s -> 0 <= e -> e <= s.
  Proof.
    unfold spanLen. intros H A B. destruct (Z.leb_spec 0 s); [|lia]. destruct (Z.leb_spec 0 e); [|lia]. destruct (Z.leb_spec s e); [|lia].
    cbn [andb] in H. apply Z.eqb_eq in H. lia.
  Qed.

  (* the first step of the strip: the head loses its first byte (a space) or one unit of indent *)
  Lemma strip_first f r q : goodP f -> 0 <= ps f -> 0 <= pe f -> (pkind f = IndentKind \/ at_ src (ps f) = 32) -> textual (at_ src q) = true ->
    covF q (f :: r) ->
    covF q (if pkind f =? IndentKind
            then if pind (setInd f (pind f - 1)) =? 0 then r else setInd f (pind f - 1) :: r
            else if plen (setSpan f (ps f + 1) (pe f)) =? 0 then r else setSpan f (ps f + 1) (pe f) :: r).
  Proof.
    intros Hg P1 P2 Hc Ht H. apply covF_cons in H. destruct H as [H|H].
    2:{ destruct (pkind f =? IndentKind); [destruct (_ =? 0)|destruct (_ =? 0)]; try exact H; apply covF_cons; right; exact H. }
    apply (covN_good q f Hg) in H.
    destruct (Z.eqb_spec (pkind f) IndentKind) as [Ei|Ni].
    - exfalso. destruct Hg as [_ Hg]. rewrite (Hg Ei q H) in Ht. discriminate.
    - destruct Hc as [Hc|Hc]; [contradiction|].
      assert (Nq : q <> ps f) by (intros ->; rewrite Hc in Ht; discriminate).
      destruct (plen (setSpan f (ps f + 1) (pe f)) =? 0) eqn:Ep.
      + exfalso. unfold plen in Ep. rewrite ps_setSpan, pe_setSpan in Ep. apply spanLen_zero in Ep; lia.
      + apply covF_cons. left. apply (covN_good q _ (goodP_setSpan f _ _ Hg Ni)). rewrite ps_setSpan, pe_setSpan. lia.
  Qed.
  Lemma strip_last l rr q : goodP l -> 0 <= ps l -> 0 <= pe l -> (pkind l = IndentKind \/ at_ src (pe l - 1) = 32) -> textual (at_ src q) = true ->
    covF q (rev rr ++ [l]) ->
    covF q (if pkind l =? IndentKind
            then if pind (setInd l (pind l - 1)) =? 0 then rev rr else rev (setInd l (pind l - 1) :: rr)
            else if plen (setSpan l (ps l) (pe l - 1)) =? 0 then rev rr else rev (setSpan l (ps l) (pe l - 1) :: rr)).
  Proof.
    intros Hg P1 P2 Hc Ht H. apply covF_app in H. destruct H as [H|H].
    { destruct (pkind l =? IndentKind); [destruct (_ =? 0)|destruct (_ =? 0)]; try exact H; cbn [rev]; apply covF_app; left; exact H. }
    apply covF_cons in H. destruct H as [H|H]; [|destruct (covF_nil q H)].
    apply (covN_good q l Hg) in H.
    destruct (Z.eqb_spec (pkind l) IndentKind) as [Ei|Ni].
    - exfalso. destruct Hg as [_ Hg]. rewrite (Hg Ei q H) in Ht. discriminate.
    - destruct Hc as [Hc|Hc]; [contradiction|].
      assert (Nq : q <> pe l - 1) by (intros ->; rewrite Hc in Ht; discriminate).
      destruct (plen (setSpan l (ps l) (pe l - 1)) =? 0) eqn:Ep.
      + exfalso. unfold plen in Ep. rewrite ps_setSpan, pe_setSpan in Ep. apply spanLen_zero in Ep; lia.
      + cbn [rev]. apply covF_app. right. apply covF_cons. left.
        apply (covN_good q _ (goodP_setSpan l _ _ Hg Ni)). rewrite ps_setSpan, pe_setSpan. lia.
  Qed.

  Lemma strip_cov sl q : Forall goodP sl -> posF sl -> textual (at_ src q) = true -> covF q sl -> covF q (stripCodeSpanSpace src sl).
  Proof.
    intros Hg Hp Ht H. unfold stripCodeSpanSpace.
    destruct (negb (existsb _ sl)); [exact H|].
    destruct sl as [|f r]; [exact H|].
    destruct (rev (f :: r)) as [|lst rr0] eqn:Er; [exact H|].
    destruct (negb ((pkind f =? IndentKind) || (at_ src (ps f) =? 32)) || negb ((pkind lst =? IndentKind) || (at_ src (pe lst - 1) =? 32))) eqn:Ec; [exact H|].
    apply orb_false_iff in Ec. destruct Ec as [Ec1 Ec2]. apply negb_false_iff in Ec1, Ec2.
    assert (Hcf : pkind f = IndentKind \/ at_ src (ps f) = 32) by (apply orb_true_iff in Ec1; destruct Ec1 as [X|X]; apply Z.eqb_eq in X; tauto).
    assert (Hcl : pkind lst = IndentKind \/ at_ src (pe lst - 1) = 32) by (apply orb_true_iff in Ec2; destruct Ec2 as [X|X]; apply Z.eqb_eq in X; tauto).
    cbv zeta.
    inversion Hg as [|? ? Hgf Hgr]; subst. inversion Hp as [|? ? [Pf1 Pf2] Hpr]; subst.
    pose proof (strip_first f r q Hgf Pf1 Pf2 Hcf Ht H) as H1.
    set (sl1 := if pkind f =? IndentKind then _ else _) in *.
    (* the last node of sl1 is the old last node, up to the modification of the head *)
    assert (Hl1 : forall l rr, rev sl1 = l :: rr -> goodP l /\ 0 <= ps l /\ 0 <= pe l /\ (pkind l = IndentKind \/ at_ src (pe l - 1) = 32)).
    { intros l rr Erl.
      assert (Hhead : forall f', goodP f' -> 0 <= ps f' -> pkind f' = pkind f -> pe f' = pe f -> forall l0 rr1, rev (f' :: r) = l0 :: rr1 ->
                goodP l0 /\ 0 <= ps l0 /\ 0 <= pe l0 /\ (pkind l0 = IndentKind \/ at_ src (pe l0 - 1) = 32)).
      { intros f' Gf' Pf' Kf' Ef' l0 rr1 E. destruct r as [|g r'].
        - cbn in E, Er. inversion E; subst. inversion Er; subst. rewrite Kf', Ef'. split; [exact Gf'|]. split; [exact Pf'|]. split; [assumption|assumption].
        - cbn [rev] in E, Er. destruct (rev r' ++ [g]) as [|x y] eqn:Ex; [destruct (rev r'); discriminate|].
          cbn [app] in E, Er. injection E as E1 _. injection Er as E2 _. assert (El : l0 = lst) by congruence. rewrite El.
          assert (Hin : In lst (g :: r')). { apply in_rev. cbn [rev]. rewrite Ex. left. exact E2. }
          rewrite Forall_forall in Hgr. unfold posF in Hpr. rewrite Forall_forall in Hpr. destruct (Hpr _ Hin). split; [apply Hgr; exact Hin|]. tauto. }
      assert (Htail : forall l0 rr1, rev r = l0 :: rr1 -> goodP l0 /\ 0 <= ps l0 /\ 0 <= pe l0 /\ (pkind l0 = IndentKind \/ at_ src (pe l0 - 1) = 32)).
      { intros l0 rr1 E. cbn [rev] in Er. rewrite E in Er. cbn [app] in Er. injection Er as E2 _. rewrite E2.
        assert (Hin : In lst r). { apply in_rev. rewrite E. left. exact E2. }
        rewrite Forall_forall in Hgr. unfold posF in Hpr. rewrite Forall_forall in Hpr. destruct (Hpr _ Hin). split; [apply Hgr; exact Hin|]. tauto. }
      unfold sl1 in Erl. destruct (Z.eqb_spec (pkind f) IndentKind) as [Ei|Ni].
      - destruct (pind (setInd f (pind f - 1)) =? 0); [apply (Htail l rr Erl)|].
        apply (Hhead (setInd f (pind f - 1))) with (rr1 := rr); [apply goodP_setInd; exact Hgf|rewrite ps_setInd; exact Pf1|apply pkind_setInd|apply pe_setInd|exact Erl].
      - destruct (plen (setSpan f (ps f + 1) (pe f)) =? 0); [apply (Htail l rr Erl)|].
        apply (Hhead (setSpan f (ps f + 1) (pe f))) with (rr1 := rr); [apply goodP_setSpan; assumption|rewrite ps_setSpan; lia|apply pkind_setSpan|apply pe_setSpan|exact Erl]. }
    destruct (rev sl1) as [|l rr] eqn:Er1; [exact H1|].
    destruct (Hl1 l rr eq_refl) as (G & Q1 & Q2 & Q3).
    assert (E1 : sl1 = rev rr ++ [l]) by (rewrite <- (rev_involutive sl1), Er1; reflexivity).
    rewrite E1 in H1. exact (strip_last l rr q G Q1 Q2 Q3 Ht H1).
  Qed.
End Pieces.

Section CCode.
  Variables (src : bytes) (U : list inline) (lo hi : Z).
  Hypothesis HEC : EC src U lo hi.
  Notation nU := (nthU U).
  Notation P := (SpanRdr.P src U).
  Notation AliveAt := (SpanRdr.AliveAt src U).
  Notation RS := (SpanRdr.RS src U).
  Notation EU := (CoverTok.EU U).
  Notation Need := (CoverTok.Need src U).

  (* the opening run: every byte of an Unparsed entry before the content is a backtick *)
  Lemma cs_open_ticks : forall fuel r n, RS true r ->
    match cs_open fuel r n (r_pos r) with
    | (None, _) => True
    | (Some (r1, n', cs'), _) => forall q, r_pos r <= q < cs' -> EU q -> at_ src q = 96
    end.
  Proof.
    induction fuel as [|f IH]; intros r n HR; cbn [cs_open]; [exact I|]. unfold cur.
    destruct (RS_current src U lo hi HEC true r HR) as (Hc & Hp & _ & _ & Hs & Hcc).
    destruct (Z.eqb_spec (fst (current r)) 96) as [E|N]; [|intros q Hq; lia].
    destruct (Hs eq_refl ltac:(rewrite E; discriminate) ltac:(rewrite E; reflexivity)) as (k & A).
    destruct (cur_src src U lo hi HEC _ k 96 A ltac:(rewrite Hcc; exact E) ltac:(lia) ltac:(lia)) as (Es & Ni).
    pose proof (next_gap src U lo hi HEC _ k A) as Hg.
    destruct (RS_next src U lo hi HEC true _ Hc) as (Hn & Hm & Hok & _).
    destruct (next (snd (current r))) as [ok r1]. cbn [fst snd] in *. destruct ok; cbn [negb]; [|exact I].
    destruct (Hok eq_refl) as (Hr1 & _). specialize (IH r1 (n + 1) Hr1).
    destruct (cs_open f r1 (n + 1) (r_pos r1)) as [[[[r2 n2] cs2]|] cs3]; [|exact I].
    intros q Hq Hu. rewrite Hp in *.
    destruct (Z.eq_dec q (r_pos r)) as [->|Nq]; [exact Es|].
    destruct (Z.lt_ge_cases q (r_pos r1)) as [L|L]; [exfalso; apply (Hg q); [lia|exact Hu]|apply IH; [lia|exact Hu]].
  Qed.

  Lemma cs_run_ticks : forall fuel r cnt k, RS true r -> AliveAt r k -> at_ src (r_pos r) = 96 -> ikind (nU k) <> IndentKind -> (fuel = O -> r_prev r < r_pos r) ->
    let '(r1, cnt', al) := cs_run fuel r cnt in forall q, r_pos r <= q <= r_prev r1 -> at_ src q = 96.
  Proof.
    induction fuel as [|f IH]; intros r cnt k HR A E96 Ni Hpv; cbn [cs_run].
    - intros q Hq. specialize (Hpv eq_refl). lia.
    - destruct (next_backtick src U lo hi HEC r k A E96 Ni) as (N1 & N2 & N3).
      destruct (RS_next src U lo hi HEC true r HR) as (Hn & Hm & Hok & _).
      destruct (next r) as [ok r1]. cbn [fst snd] in *. destruct ok; cbn [negb].
      + destruct (Hok eq_refl) as (Hr1 & _). destruct (N3 eq_refl) as (A1 & Ep1).
        destruct (RS_current src U lo hi HEC true r1 Hr1) as (Hc & Hp & Hv & _ & _ & Hcc). unfold cur.
        destruct (Z.eqb_spec (fst (current r1)) 96) as [E|N].
        * destruct (cur_src src U lo hi HEC r1 k 96 A1 E ltac:(lia) ltac:(lia)) as (Es1 & _).
          assert (A1' : AliveAt (snd (current r1)) k) by (rewrite (current_alive src U lo hi HEC r1 k A1); cbn [snd]; apply AliveAt_foc; exact A1).
          pose proof (IH (snd (current r1)) (cnt + 1) k Hc A1' ltac:(rewrite Hp; exact Es1) Ni ltac:(intros _; lia)) as HI.
          destruct (cs_run f (snd (current r1)) (cnt + 1)) as [[r2 c2] al2].
          intros q Hq. destruct (Z.eq_dec q (r_pos r)) as [->|Nq]; [exact E96|apply HI; lia].
        * intros q Hq. replace q with (r_pos r) by lia. exact E96.
      + intros q Hq. replace q with (r_pos r) by lia. exact E96.
  Qed.

  Lemma cs_close_ticks : forall fuel r blen, RS true r ->
    let '(ce, se) := cs_close fuel r blen in 0 <= se -> forall q, ce <= q < se -> at_ src q = 96.
  Proof.
    induction fuel as [|f IH]; intros r blen HR; cbn [cs_close]; [lia|]. unfold cur.
    destruct (RS_current src U lo hi HEC true r HR) as (Hc & Hp & Hv & _ & Hs & Hcc).
    destruct (Z.eqb_spec (fst (current r)) 96) as [E|N]; cbn [negb].
    - destruct (Hs eq_refl ltac:(rewrite E; discriminate) ltac:(rewrite E; reflexivity)) as (k & A).
      destruct (cur_src src U lo hi HEC _ k 96 A ltac:(rewrite Hcc; exact E) ltac:(lia) ltac:(lia)) as (Es & Ni).
      pose proof (cs_run_spec src U lo hi HEC f (snd (current r)) 1 k Hc A Es Ni) as HRun.
      pose proof (cs_run_ticks (S f) (snd (current r)) 1 k Hc A Es Ni ltac:(discriminate)) as HT.
      destruct (cs_run (S f) (snd (current r)) 1) as [[r1 cnt] al]. destruct HRun as (R1 & R2 & R3 & R4).
      destruct (cnt =? blen).
      + intros _ q Hq. rewrite Hp in *. apply (HT q). lia.
      + destruct (RS_next src U lo hi HEC false r1 R1) as (_ & Hm & Hok & _). destruct (next r1) as [ok r2]. cbn [fst snd] in *.
        destruct ok; cbn [negb]; [|lia]. destruct (Hok eq_refl) as (Hr2 & _). specialize (IH r2 blen Hr2).
        destruct (cs_close f r2 blen) as [ce se]. exact IH.
    - destruct (RS_next src U lo hi HEC true _ Hc) as (_ & Hm & Hok & _). destruct (next (snd (current r))) as [ok r1]. cbn [fst snd] in *.
      destruct ok; cbn [negb]; [|lia]. destruct (Hok eq_refl) as (Hr1 & _). specialize (IH r1 blen Hr1).
      destruct (cs_close f r1 blen) as [ce se]. exact IH.
  Qed.
  Lemma collectCodeSpan_cov st1 pos sE cS cE j k : unp st1 = U -> isrc st1 = src -> upos st1 = j -> 0 <= j <= k -> k < len U ->
    istart (nU j) <= pos < iend (nU j) -> pos <= cS -> cS <= cE -> istart (nU k) <= cE < iend (nU k) -> cE < sE <= iend (nU k) ->
    exists st2 kids, collectCodeSpan st1 pos sE cS cE = fst (addNode st2 CodeSpanKind pos sE kids) /\
      (st2 = st1 \/ exists up, st2 = setUpos st1 up) /\
      forall q, Need q -> cS <= q < cE -> covF q kids.
  Proof.
    intros Eu Es Ej Hjk Hk Hpos HcS HcE HkE HsE.
    pose proof (ec_hi _ _ _ _ HEC) as Hhi. pose proof (ec_lo _ _ _ _ HEC) as Hlo.
    destruct (eb src U lo hi HEC j ltac:(lia)) as (Bj1 & Bj2 & Bj3). destruct (eb src U lo hi HEC k ltac:(lia)) as (Bk1 & Bk2 & Bk3).
    unfold collectCodeSpan. cbv zeta. unfold unpFrom. rewrite Eu, Es, Ej.
    assert (Hh : spanHas (nU k) cE = true) by (apply (has_nU src U lo hi HEC k cE); lia).
    unfold nodeIndexForPosition. rewrite (nodeIdx_alive src U lo hi HEC (Z.to_nat (k - j)) j k cE 0 eq_refl ltac:(lia) Hk Hh).
    assert (G0 : Forall (goodP src) []) by constructor. assert (P0 : posF []) by constructor.
    destruct (Z.eqb_spec (0 + (k - j)) 0) as [E0|N0].
    - (* within one entry *)
      assert (k = j) by lia. subst k.
      destruct (addSpan_spec src [] cS cE G0 ltac:(lia) ltac:(lia)) as (K1 & K2 & K3 & K4).
      eexists. eexists. split; [reflexivity|]. split; [left; reflexivity|].
      intros q (_ & Ht) Hq. apply strip_cov; [exact K1|exact (K2 P0)|exact Ht|apply K4; exact Hq].
    - (* several entries *)
      destruct (addSpan_spec src [] cS (iend (nU j)) G0 ltac:(lia) ltac:(lia)) as (K1 & K2 & K3 & K4).
      change (nth (Z.to_nat j) U (mkI 0 0 0)) with (nU j).
      match goal with |- context [?F (Z.to_nat (0 + (k - j) - 1)) (cs_addSpan src [] cS (iend (nU j))) j] =>
        assert (HM : forall n acc up, j <= up -> up + Z.of_nat n < k -> Forall (goodP src) acc -> posF acc ->
                  Forall (goodP src) (fst (F n acc up)) /\ posF (fst (F n acc up)) /\ snd (F n acc up) = up + Z.of_nat n /\
                  (forall q, covF q acc -> covF q (fst (F n acc up))) /\
                  (forall q i, up < i <= up + Z.of_nat n -> ikind (nU i) = UnparsedKind -> istart (nU i) <= q < iend (nU i) -> covF q (fst (F n acc up))));
        [|destruct (HM (Z.to_nat (0 + (k - j) - 1)) (cs_addSpan src [] cS (iend (nU j))) j ltac:(lia) ltac:(lia) K1 (K2 P0)) as (M1 & M2 & M3 & M4 & M5);
          destruct (F (Z.to_nat (0 + (k - j) - 1)) (cs_addSpan src [] cS (iend (nU j))) j) as [acc up] ]
      end.
      { induction n as [|n IHn]; intros acc up Hup Hn Hacc Hpos'.
        - cbn [fst snd]. replace (up + Z.of_nat 0) with up by lia. split; [exact Hacc|]. split; [exact Hpos'|]. split; [reflexivity|].
          split; [intros q H; exact H|intros q i Hi; lia].
        - change (nth (Z.to_nat (up + 1)) U (mkI 0 0 0)) with (nU (up + 1)).
          destruct (eb src U lo hi HEC (up + 1) ltac:(lia)) as (C1 & C2 & C3).
          set (acc' := if ikind (nU (up + 1)) =? UnparsedKind then cs_addSpan src acc (istart (nU (up + 1))) (iend (nU (up + 1))) else acc).
          assert (Hnext : Forall (goodP src) acc' /\ posF acc' /\ (forall q, covF q acc -> covF q acc') /\
                          (forall q, ikind (nU (up + 1)) = UnparsedKind -> istart (nU (up + 1)) <= q < iend (nU (up + 1)) -> covF q acc')).
          { unfold acc'. destruct (Z.eqb_spec (ikind (nU (up + 1))) UnparsedKind) as [Ek|Nk].
            - destruct (addSpan_spec src acc (istart (nU (up + 1))) (iend (nU (up + 1))) Hacc ltac:(lia) ltac:(lia)) as (X1 & X2 & X3 & X4).
              split; [exact X1|]. split; [exact (X2 Hpos')|]. split; [exact X3|]. intros q _ Hq. apply X4. exact Hq.
            - split; [exact Hacc|]. split; [exact Hpos'|]. split; [intros q H; exact H|]. intros q X; contradiction. }
          destruct Hnext as (Hn1 & Hn2 & Hn3 & Hn4).
          destruct (IHn acc' (up + 1) ltac:(lia) ltac:(lia) Hn1 Hn2) as (I1 & I2 & I3 & I4 & I5).
          replace (up + Z.of_nat (S n)) with (up + 1 + Z.of_nat n) by lia. split; [exact I1|]. split; [exact I2|]. split; [exact I3|].
          split; [intros q H; apply I4; apply Hn3; exact H|].
          intros q i Hi Eki Hq. destruct (Z.eq_dec i (up + 1)) as [->|Ni]; [apply I4; apply Hn4; assumption|apply (I5 q i); [lia|exact Eki|exact Hq]]. }
      cbn [fst snd] in M1, M2, M3, M4, M5. replace (j + Z.of_nat (Z.to_nat (0 + (k - j) - 1))) with (k - 1) in M3, M5 by lia.
      subst up. replace (k - 1 + 1) with k by lia. change (nth (Z.to_nat k) U (mkI 0 0 0)) with (nU k).
      destruct (addSpan_spec src acc (istart (nU k)) cE M1 ltac:(lia) ltac:(lia)) as (L1 & L2 & L3 & L4).
      eexists. eexists. split; [reflexivity|]. split; [right; eexists; reflexivity|].
      intros q ((i & Hi & Eki & Hin) & Ht) Hq. apply strip_cov; [exact L1|exact (L2 M2)|exact Ht|].
      assert (Hij : j <= i).
      { destruct (Z.le_gt_cases j i) as [L|L]; [exact L|]. pose proof (eo src U lo hi HEC i j ltac:(lia) L ltac:(lia)). lia. }
      assert (Hik : i <= k).
      { destruct (Z.le_gt_cases i k) as [L|L]; [exact L|]. pose proof (eo src U lo hi HEC k i ltac:(lia) L ltac:(lia)). lia. }
      destruct (Z.eq_dec i j) as [->|Nj]; [apply L3; apply M4; apply K4; lia|].
      destruct (Z.eq_dec i k) as [->|Nk]; [apply L4; lia|].
      apply L3. apply (M5 q i); [lia|exact Eki|exact Hin].
  Qed.

  Lemma textual_96 : textual 96 = false. Proof. reflexivity. Qed.

  Theorem CSpecCode_holds : CSpecCode src U.
  Proof.
    intros st pos HE. destruct (inEntry_reader src U st pos HE) as (Eu & Es & Hj & Hp & Hse).
    unfold parseCodeSpan. rewrite Es, Eu.
    pose proof (RS_new src U lo hi HEC true pos (upos st) (upos st) ltac:(lia) ltac:(lia) Hp) as HR.
    pose proof (cs_open_spec src U lo hi HEC (rfuelOf st) _ 0 HR) as HO. cbn [r_pos newReader] in HO.
    pose proof (cs_open_ticks (rfuelOf st) _ 0 HR) as HOt. cbn [r_pos newReader] in HOt.
    destruct (cs_open (rfuelOf st) (newReader src (from_ U (upos st)) pos) 0 pos) as [[[[r1 n] cs']|] cs2].
    - destruct HO as (I1 & I2 & I3). pose proof (cs_close_spec src U lo hi HEC (rfuelOf st) r1 n I1) as HC.
      pose proof (cs_close_ticks (rfuelOf st) r1 n I1) as HCt.
      destruct (cs_close (rfuelOf st) r1 n) as [ce se]. intros Hse0 st1 (S1 & S2 & S3).
      destruct (HC Hse0) as (C1 & k & Ck & C2 & C3 & C4). specialize (HCt Hse0).
      destruct HE as (EU' & _).
      assert (Hjk : upos st <= k).
      { destruct (Z.le_gt_cases (upos st) k) as [L|L]; [exact L|]. pose proof (eo src U lo hi HEC k (upos st) ltac:(lia) L ltac:(lia)). lia. }
      destruct (collectCodeSpan_cov st1 pos se cs' ce (upos st) k ltac:(congruence) ltac:(congruence) S2 ltac:(lia) ltac:(lia) Hp I2 ltac:(lia) ltac:(lia) ltac:(lia))
        as (st2 & kids & E1 & E2 & E3).
      exists st2, kids. split; [exact E1|]. split; [exact E2|].
      intros p id Hn Hq.
      destruct kids as [|k0 kids']; [apply covN_leaf; exact Hq|]. apply covN_kids; [discriminate|].
      apply E3; [exact Hn|]. destruct Hn as (Hu & Ht).
      destruct (Z.lt_ge_cases p cs') as [L1|L1]; [exfalso; rewrite (HOt p ltac:(lia) Hu), textual_96 in Ht; discriminate|].
      destruct (Z.lt_ge_cases p ce) as [L2|L2]; [lia|]. exfalso. rewrite (HCt p ltac:(lia)), textual_96 in Ht. discriminate.
    - lia.
  Qed.
End CCode.
Print Assumptions CSpecCode_holds.
