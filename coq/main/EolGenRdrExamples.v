(* C14 (i), final newline, onCloseParagraph: the statement of EolGenRdrMain.ocp_fin checked by computation on hand-built
   paragraphs (definitions with and without title, several definitions, failing titles, labels / destinations that end with
   the source, Indent entries, the setext case with the orphan block), one instance obtained from the theorem itself
   (its hypotheses are satisfiable and the conclusion is not trivial), and the witness that the hypothesis
   "the source does not end in a line ending" cannot be dropped. *)
From Coq Require Import List ZArith Lia Bool String Ascii.
Import ListNotations.
Require Import Base Tree Rdr Link Collect LP Driver Props LADef EolFinalDefs EolBounded EolGenRdrMain.
Open Scope Z_scope.
Definition nlS := String (ascii_of_nat 10) EmptyString.
Definition tbS := String (ascii_of_nat 9) EmptyString.
Fixpoint bsS (s : string) : bytes := match s with EmptyString => [] | String c r => Z.of_nat (nat_of_ascii c) :: bsS r end.
Fixpoint lineSpans (l : bytes) (pos start : Z) : list (Z * Z) :=
  match l with
  | [] => if start <? pos then [(start, pos)] else []
  | c :: r => if c =? 10 then (start, pos + 1) :: lineSpans r (pos + 1) (pos + 1) else lineSpans r (pos + 1) start
  end.
(* a paragraph-kind block over the lines of src up to hi, with end e *)
Definition paraOf (K : Z) (src : bytes) (hi e : Z) : block :=
  Blk K 0 e [] (map (fun se => Inl UnparsedKind (fst se) (snd se) 0 [] []) (lineSpans (upto src hi) 0 0)) 0 0 0 false false.
Definition chk (src : bytes) (b : block) : bool :=
  beqL beqB (onCloseParagraph (src ++ [10]) (finB (len src) b)) (map (finB (len src)) (onCloseParagraph src b)).
Definition chkP (s : string) : bool :=
  let src := bsS s in chk src (paraOf ParagraphKind src (len src) (-1)) && chk src (paraOf ParagraphKind src (len src) (len src)).
Open Scope string_scope.
Definition tests : list string := [
 "[a]: b"; "[a]: b 'c'"; "[a]: b" ++ nlS ++ "'c'"; "[a]: b 'c' x"; "[a]: b" ++ nlS ++ "'c"; "[a]:" ++ nlS ++ "b"; "[a]: <b";
 "[a]: b" ++ nlS ++ "[c]: d"; "x" ++ nlS ++ "[a]: b";  "[a]: b" ++ tbS; "[a]: b 'c' ";
 "[a]: b '" ++ nlS ++ "c'"; "[a]"; "[a]: b\"; "[a]: b" ++ nlS ++ "c"; "[a]: b 'c'" ++ nlS ++ "d"; "[a]: b" ++ nlS ++ "'c' d";
 "[a]: b" ++ nlS ++ "'c' "; "[a]:"; "[a]: "; "[a" ; "[a]: b (c)"; "[a]: b (c"; "[a]: b" ++ nlS ++ "(c)"; "[a]: <b> 'c'"; "[a]: <b>'c'";
 "[a]: b" ++ nlS ++ "   'c'";  "  [a]: b";
 "[a]: b" ++ nlS ++ "[c]"; "[a]: b" ++ nlS ++ "[c]:"; "[a]: b" ++ nlS ++ "[c]: "; "[a]: b" ++ nlS ++ "[c]: d 'e";
 "[\]: b"; "[a\]: b"; "[a]: b 'c\"; "[a]: b 'c\'"; "[ ]: b"; "[a]: <b>"; "[a]: <b\"; "[a]: <"; "[a]: &amp"; "[a]: &amp;"; "[a]: &"; "[a]: &#"; "[a]: &#1";
 "[a]: &#x"; "[&]: b"; "[a]: b '&"; "[a]: b '&'";
 "[a]: b 'c'" ++ nlS ++ "[d]: e 'f";  "[a]: b" ++ nlS ++ " ";
 "[a]: b 'c" ++ nlS ++ "d"; "[a]: b" ++ nlS ++ "[c]: d" ++ nlS ++ "e"; "[a]: b" ++ nlS ++ "[c]: d" ++ nlS ++ "'e"; "[a]: (" ; "[a]: \"; "[a]: b(\"; "[a]: b '\"
].
Close Scope string_scope.
Theorem ocp_fin_examples : forallb chkP tests = true.
Proof. vm_compute. reflexivity. Qed.

(* setext heading: the orphan block gets the bumped end *)
Definition chkS (s : string) (hi : Z) : bool := let src := bsS s in chk src (paraOf SetextHeadingKind src hi (len src)).
Open Scope string_scope.
Theorem ocp_fin_examples_setext :
  chkS ("[a]: b" ++ nlS ++ "===") 7 && chkS ("[a]: b" ++ nlS ++ "'c'" ++ nlS ++ "===") 11 && chkS ("[a]: b" ++ nlS ++ "x" ++ nlS ++ "===") 9 &&
  chkS ("[a]: b" ++ nlS ++ "  ") 7 = true.
Proof. vm_compute. reflexivity. Qed.
(* Indent entries (the rest of a partially consumed tab) *)
Definition indPara (ents : list inline) : block := Blk ParagraphKind 0 (-1) [] ents 0 0 0 false false.
Theorem ocp_fin_examples_indent :
  (let src := bsS (tbS ++ "[a]: b") in chk src (indPara [Inl IndentKind 0 1 2 [] []; Inl UnparsedKind 1 7 0 [] []])) &&
  (let src := bsS ("[a]:" ++ nlS ++ tbS ++ "b") in chk src (indPara [Inl UnparsedKind 0 5 0 [] []; Inl IndentKind 5 6 3 [] []; Inl UnparsedKind 6 7 0 [] []])) &&
  (let src := bsS ("[a]: b" ++ nlS ++ tbS ++ "'c'") in chk src (indPara [Inl UnparsedKind 0 7 0 [] []; Inl IndentKind 7 8 3 [] []; Inl UnparsedKind 8 11 0 [] []])) = true.
Proof. vm_compute. reflexivity. Qed.
Close Scope string_scope.

(* ---------- an instance obtained from the theorem ---------- *)
Definition exSrc : bytes := [91; 97; 93; 58; 32; 98].       (* [a]: b *)
Definition exB : block := Blk ParagraphKind 0 (-1) [] [Inl UnparsedKind 0 6 0 [] []] 0 0 0 false false.
Lemma exSrc_hyps :
  exSrc <> [] /\ endsEol exSrc = false /\ isParaK (bkind exB) = true /\ bkids exB = [] /\
  tileS exSrc 0 6 (map ispan (bik exB)) /\ Forall (eok exSrc (bkind exB)) (bik exB) /\ indOK (bik exB).
Proof.
  split; [discriminate|]. split; [reflexivity|]. split; [reflexivity|]. split; [reflexivity|]. split; [|split].
  - cbn [exB bik map ispan istart iend tileS fst snd]. split; [lia|]. split; [intros q Hq; lia|]. split; [lia|]. split; [lia|intros q Hq; lia].
  - constructor; [|constructor]. split; [intros E; discriminate E|]. split.
    + intros _. right. split; [reflexivity|]. cbn [istart iend]. split; [lia|]. split; [reflexivity|]. split; [|left; reflexivity].
      intros q Hq He. exfalso. assert (Hc : q = 0 \/ q = 1 \/ q = 2 \/ q = 3 \/ q = 4 \/ q = 5) by lia.
      destruct Hc as [->|[->|[->|[->|[->| ->]]]]]; discriminate He.
    + unfold lvOK. vm_compute. repeat split; discriminate.
  - cbn [exB bik indOK]. split; [intros E; discriminate E|exact I].
Qed.
Theorem ocp_fin_instance :
  onCloseParagraph (exSrc ++ [10]) (finB (len exSrc) exB) = map (finB (len exSrc)) (onCloseParagraph exSrc exB).
Proof.
  destruct exSrc_hyps as (A & B & C & D & E & G & H).
  apply (ocp_fin exSrc exB 0 6 A B C D ltac:(lia) ltac:(vm_compute; discriminate) E G H). intros K. discriminate K.
Qed.
(* the conclusion is not trivial: the definition block ends at 6 = len src in the run without the newline and at 7 with it *)
Lemma ocp_fin_instance_values :
  onCloseParagraph exSrc exB =
    [Blk LinkReferenceDefinitionKind 0 6 []
       [Inl LinkLabelKind 1 2 0 [97] [Inl TextKind 1 2 0 [] []]; Inl LinkDestinationKind 5 6 0 [] [Inl TextKind 5 6 0 [] []]] 0 0 0 false false] /\
  onCloseParagraph (exSrc ++ [10]) (finB (len exSrc) exB) =
    [Blk LinkReferenceDefinitionKind 0 7 []
       [Inl LinkLabelKind 1 2 0 [97] [Inl TextKind 1 2 0 [] []]; Inl LinkDestinationKind 5 6 0 [] [Inl TextKind 5 6 0 [] []]] 0 0 0 false false].
Proof. split; vm_compute; reflexivity. Qed.

(* ---------- "src does not end in a line ending" is needed ---------- *)
Definition cexSrc : bytes := [91; 97; 93; 58; 32; 98; 92; 10].    (* [a]: b\ LF *)
Definition cexB : block := Blk ParagraphKind 0 (-1) [] [Inl UnparsedKind 0 8 0 [] []] 0 0 0 false false.
Lemma ocp_fin_eol_counterexample :
  endsEol cexSrc = true /\
  onCloseParagraph (cexSrc ++ [10]) (finB (len cexSrc) cexB) <> map (finB (len cexSrc)) (onCloseParagraph cexSrc cexB).
Proof. split; [reflexivity|]. intros E. vm_compute in E. discriminate E. Qed.

(* ---------- a setext heading must have no entry that ends at the end of the source (finB does not move its entries) ---------- *)
Definition cexS : block := Blk SetextHeadingKind 0 6 [] [Inl UnparsedKind 0 6 0 [] []] 0 0 0 false false.
Lemma ocp_fin_setext_counterexample :
  endsEol exSrc = false /\
  onCloseParagraph (exSrc ++ [10]) (finB (len exSrc) cexS) <> map (finB (len exSrc)) (onCloseParagraph exSrc cexS).
Proof. split; [reflexivity|]. intros E. vm_compute in E. discriminate E. Qed.

Print Assumptions ocp_fin_setext_counterexample.
Print Assumptions ocp_fin_examples. Print Assumptions ocp_fin_instance. Print Assumptions ocp_fin_eol_counterexample.
