From Coq Require Import List ZArith Lia Bool.
Import ListNotations.
Require Import Base Tree LP Driver SliceBase SliceReparse.
Open Scope Z_scope.

(* ================= C16 at the block layer: statements ================= *)

(* the root re-based to line 1 / offset 0; the block tree is already relative to the root's Source *)
Definition rebase (r : rootB) : rootB :=
  {| rb_line := 1; rb_start := 0; rb_end := len (rb_src r); rb_src := rb_src r; rb_blk := rb_blk r |}.
(* SliceReparse.aloneOf r = rebase r with the root's lastLineBlank flag cleared *)
Lemma aloneOf_rebase r : aloneOf r = {| rb_line := 1; rb_start := 0; rb_end := len (rb_src r); rb_src := rb_src r; rb_blk := set_blast (rb_blk r) false |}.
Proof. reflexivity. Qed.

(* the exception of the task: a paragraph or setext heading that directly follows a link reference definition root *)
Definition exceptionalAfter (p r : rootB) : Prop :=
  bkind (rb_blk p) = LinkReferenceDefinitionKind /\ rb_end p = rb_start r /\
  (bkind (rb_blk r) = ParagraphKind \/ bkind (rb_blk r) = SetextHeadingKind).
Definition exceptional (input : bytes) (r : rootB) : Prop :=
  exists pre p post, fst (parseBlocks input) = pre ++ p :: r :: post /\ exceptionalAfter p r.

(* the statement as WANTED in the task (normal form aloneOf: the flag of the root is cleared on the right-hand side only) *)
Definition C16_blocks_literal : Prop :=
  forall input, noNul input -> forall r, In r (fst (parseBlocks input)) -> ~ exceptional input r -> parseBlocks (rb_src r) = ([aloneOf r], 0).

(* the statement that survives testing: the flag of the root is disregarded on both sides.  (The flag records whether the
   line before the end of the block was blank.  For a root whose Source ends with its trailing blank line - lists, indented
   code, quotes closed after a blank line - the re-parse sets it again; for a paragraph closed by a blank line the blank line
   is not part of the Source and the re-parse does not set it.) *)
Definition C16_blocks_statement : Prop :=
  forall input, noNul input -> forall r, In r (fst (parseBlocks input)) -> ~ exceptional input r ->
    exists r', parseBlocks (rb_src r) = ([r'], 0) /\ aloneOf r' = aloneOf r.

(* FINDING: the literal form is false.  "- a\n\npara\n": the first root is the list with Source "- a\n\n" (the blank line
   belongs to it); parsed alone it has lastLineBlank = true, aloneOf clears it. *)
Definition listDoc : bytes := [45; 32; 97; 10; 10; 112; 97; 114; 97; 10].
Lemma no_def_not_exceptional input r :
  forallb (fun p => negb (bkind (rb_blk p) =? LinkReferenceDefinitionKind)) (fst (parseBlocks input)) = true -> ~ exceptional input r.
Proof.
  intros H (pre & p & post & E & (K & _)). rewrite forallb_forall in H.
  assert (Hin : In p (fst (parseBlocks input))) by (rewrite E; apply in_or_app; right; left; reflexivity).
  specialize (H p Hin). rewrite K in H. discriminate H.
Qed.
Theorem C16_blocks_literal_refuted : ~ C16_blocks_literal.
Proof.
  intros H. specialize (H listDoc).
  assert (Hn : noNul listDoc) by (repeat constructor; discriminate).
  specialize (H Hn).
  assert (Hex : forall r, ~ exceptional listDoc r) by (intros r; apply no_def_not_exceptional; vm_compute; reflexivity).
  remember (fst (parseBlocks listDoc)) as roots eqn:Er. vm_compute in Er.
  destruct roots as [|r0 rest]; [discriminate|]. injection Er as E0 Erest.
  specialize (H r0 (or_introl eq_refl) (Hex r0)). subst r0. vm_compute in H. discriminate H.
Qed.
Print Assumptions C16_blocks_literal_refuted.
