From Coq Require Import List ZArith Lia Bool.
Import ListNotations.
Require Import Base Tree Driver Props LADef EolFinalDefs EolFinalGenOcp EolFinalGenTree EolFinalGenClose EolFinalGenLine EolFinalGenEof
  EolFinalGenHypTn EolFinalGenHypSc EolFinalGenStream3.
Require EolGenRdrMain.
Open Scope Z_scope.

(* C14 (i), final newline, EVERY input: appending LF to an input that does not end in a line ending (nor in '>') changes only
   the last root block, by the explicit tree map finRoots.
   Ingredients: the two-run commutation of the link-reference-definition parser (EolGenRdrMain.ocp_fin),
   the containment invariant for every input (EolGenCt files), this refactored simulation (EolFinalGen files). *)
Global Instance ocpFin_inst : OcpFinC := EolGenRdrMain.ocp_fin.

Theorem parseBlocks_final_newline : parseBlocks_final_newline_statement.
Proof.
  intros s Hne He Hl. apply (final_newline_conditional (fun st K ls src => tn_processLine st K ls src) (fun st K ls src L SS => sc_processLine st K ls src L SS) s Hne He Hl).
Qed.
Print Assumptions parseBlocks_final_newline.

(* the per-line simulation and the step at the end of the input, in their general form *)
Definition fin_processLine_gen := @fin_processLine ocpFin_inst.
Definition fin_eof_gen := @fin_eof ocpFin_inst.
Check fin_processLine_gen. Check fin_eof_gen.
Print Assumptions fin_processLine_gen. Print Assumptions fin_eof_gen.
