From Coq Require Import List ZArith Lia Bool.
Import ListNotations.
Require Import Base Tree Inl3a Render Props PEProof GI0 GI1.
Open Scope Z_scope.

(* ================================================================== *)
(* GI2: the forest operations (updNode / wrapIn / removeId) on a level *)
(* bundle: position of the stack identities + grammar.                 *)
(* ================================================================== *)

Lemma lpb_spec X H is : lpb X H is = true <-> fl H is = [] \/ (fl X is = [] /\ fl H is = H).
Proof.
  unfold lpb. rewrite orb_true_iff, andb_true_iff, !nilb_true, eqbL_true. tauto.
Qed.

(* ---------------------------------------------------------------- body / tail of a link level *)
Lemma tailShape_pid0 tw x r : tailShape tw (x :: r) = true -> pid x = 0 /\ forall y, In y r -> pid y = 0.
Proof.
  destruct r as [|y [|z r]]; cbn [tailShape]; intros H; try discriminate.
  - apply andb_true_iff in H. destruct H as [_ H]. apply Z.eqb_eq in H. split; [exact H|intros ? []].
  - apply andb_true_iff in H. destruct H as [H H2]. apply andb_true_iff in H. destruct H as [_ H1].
    apply Z.eqb_eq in H1, H2. split; [exact H1|]. intros y' [<-|[]]. exact H2.
Qed.
Lemma bodyTail_nz tw : forall x n r, bodyTail tw (x ++ n :: r) = true -> pid n <> 0 ->
  forallb phr (x ++ [n]) = true /\ bodyTail tw r = true.
Proof.
  induction x as [|a x IH]; intros n r H Hn; cbn [app bodyTail forallb] in *.
  - destruct (phr n); [split; [reflexivity|exact H]|]. apply tailShape_pid0 in H. destruct H as [H _]. contradiction.
  - destruct (phr a); [apply IH; assumption|]. apply tailShape_pid0 in H. destruct H as [_ H].
    exfalso. apply Hn, H. apply in_or_app. right. left. reflexivity.
Qed.
Lemma bodyTail_build tw : forall x r, forallb phr x = true -> bodyTail tw r = true -> bodyTail tw (x ++ r) = true.
Proof.
  induction x as [|a x IH]; intros r Hx Hr; [exact Hr|]. cbn [app bodyTail forallb] in *.
  apply andb_true_iff in Hx. destruct Hx as [Ha Hx]. rewrite Ha. apply IH; assumption.
Qed.
Lemma tailShape_bodyTail tw t : tailShape tw t = true -> bodyTail tw t = true.
Proof.
  destruct t as [|x r]; [reflexivity|]. intros H. cbn [bodyTail].
  destruct (phr x) eqn:Ep; [|exact H]. exfalso. unfold phr in Ep.
  destruct r as [|y [|z r]]; cbn [tailShape] in H; try discriminate.
  - apply andb_true_iff in H. destruct H as [H _].
    repeat (apply orb_true_iff in H; destruct H as [H|H]); try (apply andb_true_iff in H; destruct H as [_ H]);
      apply Z.eqb_eq in H; rewrite H in Ep; discriminate.
  - apply andb_true_iff in H. destruct H as [H _]. apply andb_true_iff in H. destruct H as [H _].
    apply andb_true_iff in H. destruct H as [H _]. apply Z.eqb_eq in H. rewrite H in Ep. discriminate.
Qed.
Lemma filter_id_in {A} (p : A -> bool) l : (forall x, In x l -> p x = true) -> filter p l = l.
Proof. induction l as [|x l IH]; intros H; [reflexivity|]. cbn. rewrite (H x (or_introl eq_refl)). f_equal. apply IH. intros y Hy. apply H. right. exact Hy. Qed.
Lemma bodyTail_filter tw id : id <> 0 -> forall l, bodyTail tw l = true -> bodyTail tw (filter (fun n => negb (pid n =? id)) l) = true.
Proof.
  intros Hid. induction l as [|a l IH]; intros H; [reflexivity|]. cbn [bodyTail] in H.
  destruct (phr a) eqn:Ea.
  - cbn [filter]. destruct (negb (pid a =? id)); [cbn [bodyTail]; rewrite Ea|]; apply IH, H.
  - rewrite filter_id_in; [cbn [bodyTail]; rewrite Ea; exact H|].
    apply tailShape_pid0 in H. destruct H as [H1 H2]. intros x [<-|Hx].
    + rewrite H1. apply negb_true_iff. apply Z.eqb_neq. lia.
    + rewrite (H2 x Hx). apply negb_true_iff. apply Z.eqb_neq. lia.
Qed.

(* ---------------------------------------------------------------- monotonicity in the stack *)
Lemma lvs_impl X H X' H' :
  (forall is, nilb (fl X is) && lpb X H is = true -> nilb (fl X' is) && lpb X' H' is = true) ->
  forall n, lvs X H n = true -> lvs X' H' n = true.
Proof.
  intros Himp. fix IH 1. intros [id k s e ind r ks] H0. cbn [lvs] in *. destruct (cont k); [|reflexivity].
  apply andb_true_iff in H0. destruct H0 as [H1 Hk]. rewrite (Himp _ H1). cbn [andb]. clear H1.
  induction ks as [|x l IHl]; [reflexivity|]. cbn [forallb] in *. apply andb_true_iff in Hk. destruct Hk as [Hx Hl].
  rewrite (IH x Hx). apply IHl, Hl.
Qed.
Lemma lvs_impl_b b X H X' H' :
  (forall is, (forall x, In x is -> 0 <= x < b) -> nilb (fl X is) && lpb X H is = true -> nilb (fl X' is) && lpb X' H' is = true) ->
  forall n, idb b n = true -> lvs X H n = true -> lvs X' H' n = true.
Proof.
  intros Himp. fix IH 1. intros [id k s e ind r ks] Hb H0. cbn [lvs idb] in *. destruct (cont k); [|reflexivity].
  apply andb_true_iff in Hb. destruct Hb as [_ Hb].
  apply andb_true_iff in H0. destruct H0 as [H1 Hk]. rewrite (Himp _ (idb_ids b ks Hb) H1). cbn [andb]. clear H1.
  induction ks as [|x l IHl]; [reflexivity|]. cbn [forallb] in *. apply andb_true_iff in Hk. destruct Hk as [Hx Hl].
  apply andb_true_iff in Hb. destruct Hb as [Hbx Hbl].
  rewrite (IH x Hbx Hx). apply IHl; assumption.
Qed.

Lemma lpb_del X S1 S2 S3 is : NoDup (S1 ++ S2 ++ S3) -> lpb X (S1 ++ S2 ++ S3) is = true -> lpb X (S1 ++ S3) is = true.
Proof.
  intros Hn H. apply lpb_spec in H. apply lpb_spec. destruct H as [H|[Hx H]].
  - left. apply (fl_nil_sub _ (S1 ++ S2 ++ S3)); [|exact H].
    intros x Hx. apply in_app_or in Hx. apply in_or_app. destruct Hx; [left; assumption|right; apply in_or_app; right; assumption].
  - right. split; [exact Hx|]. apply (al_del S1 S2 S3); assumption.
Qed.
Lemma lvs_del X S1 S2 S3 n : NoDup (S1 ++ S2 ++ S3) -> lvs X (S1 ++ S2 ++ S3) n = true -> lvs X (S1 ++ S3) n = true.
Proof.
  intros Hn. apply lvs_impl. intros is H. apply andb_true_iff in H. destruct H as [H1 H2]. rewrite H1. cbn [andb].
  apply (lpb_del X S1 S2 S3); assumption.
Qed.
Lemma lvsF_del X S1 S2 S3 l : NoDup (S1 ++ S2 ++ S3) -> forallb (lvs X (S1 ++ S2 ++ S3)) l = true -> forallb (lvs X (S1 ++ S3)) l = true.
Proof. intros Hn. apply forallb_imp. intros x _. apply lvs_del, Hn. Qed.

(* ---------------------------------------------------------------- nl under the operations *)
Lemma sAt_app id l : let '(a, b) := splitAtId id l in l = a ++ b.
Proof. induction l as [|n r IH]; [reflexivity|]. cbn [splitAtId]. destruct (pid n =? id); [reflexivity|].
       destruct (splitAtId id r) as [a b]. cbn. f_equal. exact IH. Qed.
Lemma sBefore_app id l : let '(a, b) := splitBeforeId id l in l = a ++ b.
Proof. induction l as [|n r IH]; [reflexivity|]. cbn [splitBeforeId]. destruct id as [i|].
       - destruct (pid n =? i); [reflexivity|]. destruct (splitBeforeId (Some i) r) as [a b]. cbn. f_equal. exact IH.
       - destruct (splitBeforeId None r) as [a b]. cbn. f_equal. exact IH. Qed.
Lemma nlF_app a b : forallb nl (a ++ b) = forallb nl a && forallb nl b. Proof. apply forallb_app. Qed.

Lemma wrapLevel_nl newId kind o endId es pe0 l : cont kind = true -> kind <> LinkKind ->
  forallb nl (wrapLevel newId kind o endId es pe0 l) = forallb nl l.
Proof.
  intros Hc Hk. unfold wrapLevel.
  pose proof (sAt_app o l) as E1. destruct (splitAtId o l) as [pre post].
  pose proof (sBefore_app endId post) as E2. destruct (splitBeforeId endId post) as [mid rest].
  subst l post. rewrite !nlF_app. cbn [forallb nl]. rewrite Hc.
  replace (kind =? LinkKind) with false by (symmetry; apply Z.eqb_neq; exact Hk). rewrite andb_true_r. reflexivity.
Qed.
Lemma nl_setKids n ks : (pkind n =? LinkKind) = false -> cont (pkind n) = true -> nl (setKids n ks) = forallb nl ks.
Proof. destruct n as [i k s e ind r ks0]. cbn [pkind setKids nl]. intros -> ->. reflexivity. Qed.
Lemma wrapIn_nl newId kind o endId es : cont kind = true -> kind <> LinkKind ->
  forall fuel pe0 l, forallb nl (wrapIn fuel newId kind o endId es pe0 l) = forallb nl l.
Proof.
  intros Hc Hk. induction fuel as [|f IH]; intros pe0 l; [reflexivity|]. cbn [wrapIn].
  destruct (hasId o l); [apply wrapLevel_nl; assumption|].
  apply forallb_map_ext. intros n _. destruct n as [i k s e ind r ks]. cbn [setKids pkids nl pe].
  destruct (k =? LinkKind); [reflexivity|]. destruct (cont k); [apply IH|reflexivity].
Qed.
Lemma removeId_nl id : forall fuel l, forallb nl l = true -> forallb nl (removeId fuel id l) = true.
Proof.
  induction fuel as [|f IH]; intros l H; [exact H|]. cbn [removeId]. destruct (hasId id l).
  - rewrite forallb_forall in *. intros x Hx. apply filter_In in Hx. apply H. tauto.
  - rewrite forallb_forall in *. intros x Hx. apply in_map_iff in Hx. destruct Hx as (n & <- & Hn). specialize (H n Hn).
    destruct n as [i k s e ind r ks]. cbn [setKids pkids nl] in *.
    destruct (k =? LinkKind); [discriminate|]. destruct (cont k); [apply IH, H|reflexivity].
Qed.

Lemma hd2_map_setKids (F : pn -> list pn) l : map hd2 (map (fun n => setKids n (F n)) l) = map hd2 l.
Proof. rewrite map_map. apply map_ext. intros n. unfold hd2. rewrite pid_setKids, pkind_setKids. reflexivity. Qed.
Lemma ids_map_setKids (F : pn -> list pn) l : ids (map (fun n => setKids n (F n)) l) = ids l.
Proof. apply ids_hd, hd2_map_setKids. Qed.

Lemma ids_filter id l : ids (filter (fun n => negb (pid n =? id)) l) = filter (fun x => negb (x =? id)) (ids l).
Proof.
  induction l as [|n l IH]; [reflexivity|]. cbn [filter ids map]. destruct (negb (pid n =? id)); cbn [ids map]; [f_equal|]; exact IH.
Qed.
Lemma fl_filter_ne S o is : ~ In o S -> fl S (filter (fun x => negb (x =? o)) is) = fl S is.
Proof.
  intros Ho. induction is as [|y l IH]; [reflexivity|]. cbn [filter]. destruct (Z.eqb_spec y o) as [->|Hne]; cbn [negb].
  - unfold fl at 2. cbn [filter]. replace (memZ o S) with false by (symmetry; apply memZ_false, Ho). exact IH.
  - unfold fl in *. cbn [filter]. destruct (memZ y S); [f_equal|]; exact IH.
Qed.
Lemma fl_filter_nil S o is : fl S is = [] -> fl S (filter (fun x => negb (x =? o)) is) = [].
Proof.
  intros H. apply fl_nil_iff. intros x Hx. apply filter_In in Hx. destruct Hx as [Hx _]. revert x Hx. apply fl_nil_iff. exact H.
Qed.

(* ---------------------------------------------------------------- the level bundle *)
Section Bundle.
  Variable tw : bool.
  Variable X : list Z.

  Definition LB (Hs : list Z) (P : Z) (rf : bytes) (l : list pn) : Prop :=
    lpb X Hs (ids l) = true /\ forallb (lvs X Hs) l = true /\ lvlG tw P rf l = true /\ forallb (gk tw) l = true.

  (* a container node's children form a bundle *)
  Lemma LB_kids Hs n : cont (pkind n) = true -> lvs X Hs n = true -> gk tw n = true ->
    LB Hs (pkind n) (pref n) (pkids n) /\ fl X (ids (pkids n)) = [].
  Proof.
    intros Hc Hl Hg. rewrite lvs_eq, Hc in Hl. rewrite gk_eq, Hc in Hg.
    apply andb_true_iff in Hl. destruct Hl as [Hl L3]. apply andb_true_iff in Hl. destruct Hl as [L1 L2].
    apply andb_true_iff in Hg. destruct Hg as [_ Hg]. apply andb_true_iff in Hg. destruct Hg as [G1 G2].
    split; [repeat split; assumption|]. apply nilb_true. exact L1.
  Qed.
  Lemma LB_node Hs n ks : cont (pkind n) = true -> gk tw n = true -> LB Hs (pkind n) (pref n) ks -> fl X (ids ks) = [] ->
    lvs X Hs (setKids n ks) = true /\ gk tw (setKids n ks) = true.
  Proof.
    intros Hc Hg (B1 & B2 & B3 & B4) Hx. rewrite lvs_eq, gk_eq, pkind_setKids, pref_setKids, pkids_setKids, Hc.
    rewrite gk_eq in Hg. apply andb_true_iff in Hg. destruct Hg as [G0 _].
    apply nilb_true in Hx. rewrite Hx, B1, B2, G0, B3, B4. split; reflexivity.
  Qed.

  (* ---- removal of one stack identity ---- *)
  Section Remove.
    Variables (S1 S3 : list Z) (o : Z).
    Let H := S1 ++ [o] ++ S3.
    Let H' := S1 ++ S3.
    Hypothesis HN : NoDup H.
    Hypothesis Ho0 : o <> 0.

    Lemma o_notin_H' : ~ In o H'.
    Proof.
      unfold H, H' in *. intros Hi. apply in_app_or in Hi. destruct Hi as [Hi|Hi].
      - apply (NoDup_app_disj S1 ([o] ++ S3) o HN Hi). left. reflexivity.
      - apply NoDup_app_r in HN. cbn in HN. inversion HN; subst. contradiction.
    Qed.

    Lemma removeId_LB : forall fuel l P rf, LB H P rf l ->
      LB H' P rf (removeId fuel o l) /\ (fl X (ids l) = [] -> fl X (ids (removeId fuel o l)) = []).
    Proof.
      induction fuel as [|f IH]; intros l P rf (B1 & B2 & B3 & B4).
      { cbn [removeId]. split; [|tauto]. repeat split; try assumption.
        - apply (lpb_del X S1 [o] S3); assumption.
        - apply (lvsF_del X S1 [o] S3); assumption. }
      cbn [removeId]. destruct (hasId o l) eqn:Eh.
      - (* removed at this level *)
        apply hasId_In in Eh.
        assert (HoH : In o H) by (unfold H; apply in_or_app; right; left; reflexivity).
        apply lpb_spec in B1. destruct B1 as [B1|[Bx B1]].
        { exfalso. assert (Hi : In o (fl H (ids l))) by (apply fl_In; tauto). rewrite B1 in Hi. exact Hi. }
        split.
        + repeat split.
          * apply lpb_spec. right. rewrite ids_filter. split; [apply fl_filter_nil; exact Bx|].
            rewrite fl_filter_ne by exact o_notin_H'. apply (al_del S1 [o] S3); assumption.
          * apply (lvsF_del X S1 [o] S3 _ HN). rewrite forallb_forall in *. intros x Hx. apply filter_In in Hx. apply B2. tauto.
          * unfold lvlG in *. destruct (isLI P).
            -- apply andb_true_iff in B3. destruct B3 as [B3 G3]. apply andb_true_iff in B3. destruct B3 as [G1 G2].
               rewrite (bodyTail_filter tw o Ho0 l G1). cbn [andb].
               apply andb_true_iff. split.
               ++ apply orb_true_iff in G2. apply orb_true_iff. destruct G2 as [G2|G2]; [left; exact G2|right].
                  rewrite forallb_forall in *. intros x Hx. apply filter_In in Hx. apply G2. tauto.
               ++ apply orb_true_iff in G3. apply orb_true_iff. destruct G3 as [G3|G3]; [left; exact G3|right].
                  rewrite forallb_forall in *. intros x Hx. apply filter_In in Hx. apply G3. tauto.
            -- rewrite forallb_forall in *. intros x Hx. apply filter_In in Hx. apply B3. tauto.
          * rewrite forallb_forall in *. intros x Hx. apply filter_In in Hx. apply B4. tauto.
        + intros _. rewrite ids_filter. apply fl_filter_nil. exact Bx.
      - (* below *)
        set (phi := fun n : pn => setKids n (removeId f o (pkids n))).
        assert (Hnode : forall n, In n l -> lvs X H' (phi n) = true /\ gk tw (phi n) = true).
        { intros n Hn. rewrite forallb_forall in B2, B4. specialize (B2 n Hn). specialize (B4 n Hn). unfold phi.
          destruct (cont (pkind n)) eqn:Ec.
          - destruct (LB_kids H n Ec B2 B4) as [HB Hx]. destruct (IH (pkids n) _ _ HB) as [HB' Hx'].
            apply LB_node; [assumption|assumption|exact HB'|apply Hx', Hx].
          - rewrite gk_eq, Ec in B4. apply andb_true_iff in B4. destruct B4 as [G0 G]. apply andb_true_iff in G. destruct G as [G1 G2].
            rewrite (removeId_zid o Ho0 f _ G2), setKids_same. split.
            + rewrite lvs_eq, Ec. reflexivity.
            + rewrite gk_eq, Ec, G0, G1, G2. reflexivity. }
        split; [|intros Hx; unfold phi; rewrite ids_map_setKids; exact Hx].
        repeat split.
        + unfold phi. rewrite ids_map_setKids. apply (lpb_del X S1 [o] S3); assumption.
        + rewrite forallb_forall. intros x Hx. apply in_map_iff in Hx. destruct Hx as (n & <- & Hn). apply Hnode, Hn.
        + apply (lvlG_hd tw P rf l); [symmetry; apply hd2_map_setKids| |exact B3].
          intros Hnl. pose proof (removeId_nl o (S f) l Hnl) as Hr. cbn [removeId] in Hr. rewrite Eh in Hr. exact Hr.
        + rewrite forallb_forall. intros x Hx. apply in_map_iff in Hx. destruct Hx as (n & <- & Hn). apply Hnode, Hn.
    Qed.
  End Remove.
End Bundle.

(* ---------------------------------------------------------------- wrapping an emphasis between opener and closer *)
Section Wrap.
  Variable tw : bool.
  Variables (X D1 D2 D3 : list Z) (o c newId kind : Z).
  Let H := D1 ++ o :: D2 ++ c :: D3.
  Let H' := D1 ++ o :: c :: D3.
  Hypothesis HN : NoDup H.
  Hypothesis H0 : ~ In 0 H.
  Hypothesis HnewH : ~ In newId H.
  Hypothesis HnewX : ~ In newId X.
  Hypothesis Hkind : kind = EmphasisKind \/ kind = StrongKind.

  Let EH : H = (D1 ++ [o]) ++ D2 ++ c :: D3.
  Proof. unfold H. rewrite <- app_assoc. reflexivity. Qed.
  Let EH' : H' = (D1 ++ [o]) ++ c :: D3.
  Proof. unfold H'. rewrite <- app_assoc. reflexivity. Qed.
  Let HN2 : NoDup ((D1 ++ [o]) ++ D2 ++ c :: D3).
  Proof. rewrite <- EH. exact HN. Qed.

  Lemma kind_facts : cont kind = true /\ kind <> LinkKind /\ isLI kind = false /\ phrasing kind = true /\ negb (kind =? UnparsedKind) = true.
  Proof. destruct Hkind as [-> | ->]; repeat split; try reflexivity; discriminate. Qed.

  Lemma H'_sub x : In x H' -> In x H.
  Proof.
    unfold H, H'. intros Hi. apply in_app_or in Hi. apply in_or_app. destruct Hi as [Hi|Hi]; [left; exact Hi|right].
    destruct Hi as [<-|Hi]; [left; reflexivity|]. right. apply in_or_app. right. exact Hi.
  Qed.
  Lemma oH : In o H. Proof. unfold H. apply in_or_app. right. left. reflexivity. Qed.
  Lemma cH : In c H. Proof. unfold H. apply in_or_app. right. right. apply in_or_app. right. left. reflexivity. Qed.
  Lemma o_ne0 : o <> 0. Proof. intros E. apply H0. rewrite <- E. exact oH. Qed.
  Lemma c_ne0 : c <> 0. Proof. intros E. apply H0. rewrite <- E. exact cH. Qed.

  Lemma lpb_H' is : lpb X H is = true -> lpb X H' is = true.
  Proof. rewrite EH, EH'. apply lpb_del. exact HN2. Qed.
  Lemma lvsF_H' l : forallb (lvs X H) l = true -> forallb (lvs X H') l = true.
  Proof. rewrite EH, EH'. apply lvsF_del. exact HN2. Qed.

  (* members of H' among the members of H *)
  Lemma flH'_D1 : fl H' D1 = D1.
  Proof. apply fl_all. intros x Hx. unfold H'. apply in_or_app. left. exact Hx. Qed.
  Lemma flH'_D3 : fl H' D3 = D3.
  Proof. apply fl_all. intros x Hx. unfold H'. apply in_or_app. right. right. right. exact Hx. Qed.
  Lemma flH'_D2 : fl H' D2 = [].
  Proof.
    apply fl_nil_iff. intros x Hx Hi. unfold H' in Hi. apply in_app_or in Hi. destruct Hi as [Hi|[Hi|[Hi|Hi]]].
    - apply (NoDup_app_disj D1 (o :: D2 ++ c :: D3) x HN Hi). right. apply in_or_app. left. exact Hx.
    - subst x. pose proof HN as Hn. unfold H in Hn. apply NoDup_app_r in Hn. inversion Hn as [|? ? Hno _]; subst. apply Hno, in_or_app. left. exact Hx.
    - subst x. pose proof HN as Hn. unfold H in Hn. apply NoDup_app_r in Hn. inversion Hn as [|? ? _ Hn']; subst.
      destruct (NoDup_mid_notin _ _ _ Hn') as [Hc _]. contradiction.
    - pose proof HN as Hn. unfold H in Hn. apply NoDup_app_r in Hn. inversion Hn as [|? ? _ Hn']; subst.
      apply (NoDup_app_disj D2 (c :: D3) x Hn' Hx). right. exact Hi.
  Qed.

  Lemma wrapLevel_LB es pe0 l P rf : hasId o l = true -> LB tw X H P rf l ->
    LB tw X H' P rf (wrapLevel newId kind o (Some c) es pe0 l) /\ fl X (ids (wrapLevel newId kind o (Some c) es pe0 l)) = [].
  Proof.
    intros Eh (B1 & B2 & B3 & B4). destruct kind_facts as (Kc & Kl & Ki & Kp & Ku).
    apply hasId_In in Eh.
    apply lpb_spec in B1. destruct B1 as [B1|[Bx B1]].
    { exfalso. assert (Hi : In o (fl H (ids l))) by (apply fl_In; split; [exact Eh|exact oH]). rewrite B1 in Hi. exact Hi. }
    unfold wrapLevel.
    destruct (splitAtId o l) as [pre post] eqn:Es.
    destruct (splitAtId_spec o l pre post Es Eh) as (A & no & Epre & Eno & HoA & El).
    assert (Hcp : In c (ids post)).
    { apply (wrap_closer_found H D1 o D2 c D3 (ids A) (ids post) eq_refl HN); [|exact HoA].
      rewrite <- Eno. rewrite El in B1. rewrite ids_app in B1. exact B1. }
    destruct (splitBeforeId (Some c) post) as [mid rest] eqn:Eb.
    destruct (splitBeforeId_spec c post mid rest Eb) as (Epost & HcM & Hrest).
    destruct Hrest as [->|(nc & r & -> & Enc)].
    { exfalso. rewrite app_nil_r in Epost. subst post. contradiction. }
    subst pre post.
    set (new := PN newId kind (pe match rev (A ++ [no]) with n :: _ => n | [] => PN 0 0 0 0 0 [] [] end)
                   match es with Some v => v | None => pe0 end 0 [] mid).
    assert (Eids : ids l = ids A ++ o :: ids mid ++ c :: ids r).
    { rewrite El. rewrite ids_app. cbn [ids map]. rewrite Eno. f_equal. f_equal. fold (ids (mid ++ nc :: r)). rewrite ids_app. cbn [ids map]. rewrite Enc. reflexivity. }
    rewrite Eids in B1.
    destruct (wrap_mid H D1 o D2 c D3 (ids A) (ids mid) (ids r) eq_refl HN B1 HoA HcM) as (FA & FM & FR).
    assert (Eids' : ids ((A ++ [no]) ++ [new] ++ nc :: r) = ids A ++ o :: newId :: c :: ids r).
    { rewrite !ids_app. cbn [ids map pid app]. rewrite Eno, Enc, <- app_assoc. reflexivity. }
    assert (HXl' : fl X (ids ((A ++ [no]) ++ [new] ++ nc :: r)) = []).
    { rewrite Eids'. apply fl_nil_iff. intros x Hx Hxx.
      assert (Hcases : x = newId \/ In x (ids l)).
      { rewrite Eids. apply in_app_or in Hx. destruct Hx as [Hx|[Hx|[Hx|[Hx|Hx]]]].
        - right. apply in_or_app. left. exact Hx.
        - right. apply in_or_app. right. left. exact Hx.
        - left. symmetry. exact Hx.
        - right. apply in_or_app. right. right. apply in_or_app. right. left. exact Hx.
        - right. apply in_or_app. right. right. apply in_or_app. right. right. exact Hx. }
      destruct Hcases as [->|Hl]; [contradiction|]. exact (proj1 (fl_nil_iff X (ids l)) Bx x Hl Hxx). }
    (* positions in the grammar of the level *)
    assert (El' : l = (A ++ no :: mid) ++ nc :: r) by (rewrite El, <- app_assoc; reflexivity).
    assert (Hmidphr : forallb phr mid = true /\ lvlG tw P rf ((A ++ [no]) ++ [new] ++ nc :: r) = true).
    { assert (Hnew : phr new = true) by exact Kp.
      assert (Hnlnew : nl new = forallb nl mid).
      { unfold new. cbn [nl]. rewrite Kc. replace (kind =? LinkKind) with false by (symmetry; apply Z.eqb_neq; exact Kl). reflexivity. }
      assert (Hphr_all : forallb phr l = true -> forallb phr mid = true /\ forallb phr ((A ++ [no]) ++ [new] ++ nc :: r) = true).
      { rewrite El. rewrite !forallb_app. cbn [forallb]. rewrite !forallb_app. cbn [forallb]. intros Hp.
        apply andb_true_iff in Hp. destruct Hp as [HA Hp]. apply andb_true_iff in Hp. destruct Hp as [Hno Hp].
        apply andb_true_iff in Hp. destruct Hp as [HM Hp]. rewrite HA, Hno, HM, Hnew, Hp. split; reflexivity. }
      assert (Hnl_all : forallb nl l = true -> forallb nl ((A ++ [no]) ++ [new] ++ nc :: r) = true).
      { rewrite El. rewrite !forallb_app. cbn [forallb]. rewrite !forallb_app. cbn [forallb]. rewrite Hnlnew. intros Hp.
        apply andb_true_iff in Hp. destruct Hp as [HA Hp]. apply andb_true_iff in Hp. destruct Hp as [Hno Hp].
        apply andb_true_iff in Hp. destruct Hp as [HM Hp]. rewrite HA, Hno, HM, Hp. reflexivity. }
      unfold lvlG in *. destruct (isLI P).
      - apply andb_true_iff in B3. destruct B3 as [B3 G3]. apply andb_true_iff in B3. destruct B3 as [G1 G2].
        rewrite El' in G1. destruct (bodyTail_nz tw _ nc r G1) as [Gp Gr]; [rewrite Enc; exact c_ne0|].
        assert (Gin : forall x, In x ((A ++ no :: mid) ++ [nc]) -> phr x = true) by (apply forallb_forall; exact Gp).
        assert (GA' : forallb phr A = true) by (apply forallb_forall; intros x Hx; apply Gin; rewrite !in_app_iff; cbn [In]; tauto).
        assert (Gno' : phr no = true) by (apply Gin; rewrite !in_app_iff; cbn [In]; tauto).
        assert (HM : forallb phr mid = true) by (apply forallb_forall; intros x Hx; apply Gin; rewrite !in_app_iff; cbn [In]; tauto).
        assert (Gnc' : phr nc = true) by (apply Gin; rewrite !in_app_iff; cbn [In]; tauto).
        split; [exact HM|].
        assert (Gb : bodyTail tw ((A ++ [no]) ++ [new] ++ nc :: r) = true).
        { replace ((A ++ [no]) ++ [new] ++ nc :: r) with (((A ++ [no]) ++ [new] ++ [nc]) ++ r) by (rewrite <- !app_assoc; reflexivity).
          apply bodyTail_build; [|exact Gr].
          rewrite !forallb_app. cbn [forallb]. rewrite GA', Gno', Hnew, Gnc'. reflexivity. }
        rewrite Gb. cbn [andb]. apply andb_true_iff. split.
        + apply orb_true_iff in G2. apply orb_true_iff. destruct G2 as [G2|G2]; [left; exact G2|right; apply Hphr_all, G2].
        + apply orb_true_iff in G3. apply orb_true_iff. destruct G3 as [G3|G3]; [left; exact G3|right; apply Hnl_all, G3].
      - apply Hphr_all, B3. }
    destruct Hmidphr as [HM HG].
    split; [|exact HXl'].
    assert (B2' : forallb (lvs X H') l = true) by (apply lvsF_H'; exact B2).
    rewrite El in B2', B4. rewrite !forallb_app in B2', B4. cbn [forallb] in B2', B4. rewrite !forallb_app in B2', B4. cbn [forallb] in B2', B4.
    apply andb_true_iff in B2'. destruct B2' as [LA B2']. apply andb_true_iff in B2'. destruct B2' as [Lno B2'].
    apply andb_true_iff in B2'. destruct B2' as [LM B2'].
    apply andb_true_iff in B4. destruct B4 as [GA B4]. apply andb_true_iff in B4. destruct B4 as [Gno B4].
    apply andb_true_iff in B4. destruct B4 as [GM B4].
    repeat split.
    - (* alignment of the new level *)
      apply lpb_spec. right. split; [exact HXl'|]. rewrite Eids'.
      change (o :: newId :: c :: ids r) with ([o] ++ [newId] ++ [c] ++ ids r). rewrite !fl_app.
      rewrite (fl_sub H' H (ids A) H'_sub), FA, flH'_D1.
      rewrite (fl_sub H' H (ids r) H'_sub), FR, flH'_D3.
      rewrite (fl_one_in H' o) by (unfold H'; apply in_or_app; right; left; reflexivity).
      rewrite (fl_one_in H' c) by (unfold H'; apply in_or_app; right; right; left; reflexivity).
      rewrite (fl_one_out H' newId) by (intros Hi; apply HnewH, H'_sub, Hi).
      reflexivity.
    - (* lvs *)
      rewrite !forallb_app. cbn [forallb]. rewrite LA, Lno, B2'. cbn [andb]. rewrite andb_true_r.
      unfold new. cbn [lvs]. rewrite Kc.
      assert (HxM : fl X (ids mid) = []).
      { apply fl_nil_iff. intros x Hx'. apply (proj1 (fl_nil_iff X (ids l)) Bx). rewrite Eids.
        apply in_or_app. right. right. apply in_or_app. left. exact Hx'. }
      rewrite HxM. cbn [nilb andb]. rewrite LM, ?andb_true_r.
      apply lpb_spec. left. rewrite (fl_sub H' H (ids mid) H'_sub), FM. apply flH'_D2.
    - exact HG.
    - rewrite !forallb_app. cbn [forallb]. rewrite GA, Gno, B4. cbn [andb]. rewrite andb_true_r.
      unfold new. cbn [gk]. rewrite Ku, Kc. unfold lvlG. rewrite Ki, HM, GM. reflexivity.
  Qed.

  Lemma wrapIn_LB es : forall fuel pe0 l P rf, LB tw X H P rf l ->
    LB tw X H' P rf (wrapIn fuel newId kind o (Some c) es pe0 l) /\
    (fl X (ids l) = [] -> fl X (ids (wrapIn fuel newId kind o (Some c) es pe0 l)) = []).
  Proof.
    destruct kind_facts as (Kc & Kl & Ki & Kp & Ku).
    induction fuel as [|f IH]; intros pe0 l P rf HB.
    { cbn [wrapIn]. split; [|tauto]. destruct HB as (B1 & B2 & B3 & B4). repeat split; try assumption.
      - apply lpb_H'; assumption.
      - apply lvsF_H'; assumption. }
    cbn [wrapIn]. destruct (hasId o l) eqn:Eh.
    { destruct (wrapLevel_LB es pe0 l P rf Eh HB) as [HB' Hx]. split; [exact HB'|intros _; exact Hx]. }
    destruct HB as (B1 & B2 & B3 & B4).
    set (phi := fun n : pn => setKids n (wrapIn f newId kind o (Some c) es (pe n) (pkids n))).
    assert (Hnode : forall n, In n l -> lvs X H' (phi n) = true /\ gk tw (phi n) = true).
    { intros n Hn. rewrite forallb_forall in B2, B4. specialize (B2 n Hn). specialize (B4 n Hn). unfold phi.
      destruct (cont (pkind n)) eqn:Ec.
      - destruct (LB_kids tw X H n Ec B2 B4) as [HB Hx]. destruct (IH (pe n) (pkids n) _ _ HB) as [HB' Hx'].
        apply LB_node; [assumption|assumption|exact HB'|apply Hx', Hx].
      - rewrite gk_eq, Ec in B4. apply andb_true_iff in B4. destruct B4 as [G0 G]. apply andb_true_iff in G. destruct G as [G1 G2].
        rewrite (wrapIn_zid newId kind o (Some c) es o_ne0 f _ _ G2), setKids_same. split.
        + rewrite lvs_eq, Ec. reflexivity.
        + rewrite gk_eq, Ec, G0, G1, G2. reflexivity. }
    split; [|intros Hx; unfold phi; rewrite ids_map_setKids; exact Hx].
    repeat split.
    - unfold phi. rewrite ids_map_setKids. apply lpb_H'; assumption.
    - rewrite forallb_forall. intros x Hx. apply in_map_iff in Hx. destruct Hx as (n & <- & Hn). apply Hnode, Hn.
    - apply (lvlG_hd tw P rf l); [symmetry; apply hd2_map_setKids| |exact B3].
      intros Hnl. pose proof (wrapIn_nl newId kind o (Some c) es Kc Kl (S f) pe0 l) as Hr. cbn [wrapIn] in Hr. rewrite Eh in Hr.
      fold phi in Hr. rewrite Hr. exact Hnl.
    - rewrite forallb_forall. intros x Hx. apply in_map_iff in Hx. destruct Hx as (n & <- & Hn). apply Hnode, Hn.
  Qed.
End Wrap.
