From Coq Require Import List ZArith Lia Bool.
Import ListNotations.
Require Import Base Tree LP Rules Starts Driver Rec17 Rec18 Cursor L2Bnd L2BndS L2CC StreamFuel BlankPrefix TDefs Total TilBase SliceBase SliceReparse
  ReparseDefs ReparseLocal ReparseFirst.
Open Scope Z_scope.

(* ================= the calls of NextBlock of a run; roots cut at the position read so far ================= *)

(* the states of the run: s0 --NextBlock--> s1 --NextBlock--> ... *)
Inductive Reach (s0 : bpst) : bpst -> Prop :=
| Reach_refl : Reach s0 s0
| Reach_step s r s' : Reach s0 s -> nextBlock (3 + length (buf s)) s = NBBlock r s' -> Reach s0 s'.

Lemma allBlocks_roots : forall fuel s0 s acc r, Reach s0 s -> In r (fst (allBlocks fuel s acc)) ->
  In r acc \/ exists s1 s1', Reach s0 s1 /\ nextBlock (3 + length (buf s1)) s1 = NBBlock r s1'.
Proof.
  induction fuel as [|f IH]; intros s0 s acc r HR Hin; [left; exact Hin|]. rewrite allBlocks_S in Hin.
  destruct (nextBlock (3 + length (buf s)) s) as [r1 s1| | |k] eqn:En; cbn [fst] in Hin; try (left; exact Hin).
  destruct (IH s0 s1 (acc ++ [r1]) r (Reach_step s0 s r1 s1 HR En) Hin) as [H|H]; [|right; exact H].
  apply in_app_or in H. destruct H as [H|[<-|[]]]; [left; exact H|]. right. exists s, s1. split; assumption.
Qed.
Lemma parseBlocks_roots input r : In r (fst (parseBlocks input)) ->
  exists s s', Reach (st0 (pad input)) s /\ nextBlock (3 + length (buf s)) s = NBBlock r s'.
Proof.
  intros Hin. rewrite parseBlocks_st0 in Hin. destruct (allBlocks_roots _ _ _ _ _ (Reach_refl _) Hin) as [[]|H]. exact H.
Qed.

Definition suffixOf (b B : bytes) : Prop := exists k, b = from_ B k.
Lemma suffix_from b B n : suffixOf b B -> suffixOf (from_ b n) B.
Proof.
  intros (k & ->). destruct (Z.le_gt_cases n 0) as [L|L]; [exists k; unfold from_; replace (Z.to_nat n) with O by lia; reflexivity|].
  destruct (Z.le_gt_cases k 0) as [L2|L2]; [exists n; unfold from_; replace (Z.to_nat k) with O by lia; reflexivity|].
  exists (k + n). symmetry. rewrite <- from_from by lia. reflexivity.
Qed.

(* what a call leaves behind: the buffer is a suffix of the old one *)
Lemma lineLoop_suffix : forall f st ch ls s r s', lineLoop f st ch ls s = NBBlock r s' -> suffixOf (buf s') (buf s).
Proof.
  induction f as [|f IH]; intros st ch ls s r s' E; [discriminate|]. cbn [lineLoop] in E.
  destruct (processLine st ch ls (upto (buf s) (bi s))) as [[ch' st'] pn]. destruct (negb (pn =? 0)); [discriminate|].
  destruct (makeRoot ch' s) as [[r1 s1]|] eqn:Em.
  - inversion E; subst. unfold makeRoot in Em. destruct ch' as [|b rest]; [discriminate|]. destruct (isOpen b); [discriminate|]. inversion Em; subst.
    cbn [buf]. eexists. reflexivity.
  - apply IH in E. exact E.
Qed.
Lemma skipLoop_suffix : forall f s r s', skipLoop f s = NBBlock r s' -> suffixOf (buf s') (buf s).
Proof.
  induction f as [|f IH]; intros s r s' E; [discriminate|]. cbn [skipLoop] in E. cbv zeta in E.
  destruct (negb _); [discriminate|]. destruct (isBlankLine _).
  - apply IH in E. cbn [buf] in E. destruct E as (k & E). rewrite E. apply suffix_from. eexists. reflexivity.
  - apply lineLoop_suffix in E. exact E.
Qed.
Lemma nextBlock_suffix f s r s' : nextBlock f s = NBBlock r s' -> suffixOf (buf s') (buf s).
Proof.
  unfold nextBlock. destruct (makeRoot (pending s) s) as [[r1 s1]|] eqn:Em.
  - intros E. inversion E; subst. unfold makeRoot in Em. destruct (pending s) as [|b rest]; [discriminate|]. destruct (isOpen b); [discriminate|]. inversion Em; subst.
    cbn [buf]. eexists. reflexivity.
  - destruct (pending s).
    + intros E. apply skipLoop_suffix in E. cbn [buf] in E. destruct E as (k & E). rewrite E. apply suffix_from. eexists. reflexivity.
    + intros E. apply lineLoop_suffix in E. exact E.
Qed.

Lemma DI_init input : DI (st0 (pad input)).
Proof.
  split; [exists true; unfold SI; cbn [buf bi pending st0]; pose proof (len_nonneg (pad input)); repeat split; try lia|].
  split; [reflexivity|]. split; [exact I|]. intros pre c E. cbn [pending st0] in E. destruct pre; discriminate.
Qed.
Lemma Reach_inv input s : noNul input -> Reach (st0 (pad input)) s -> DI s /\ noNul (buf s).
Proof.
  intros Hn HR. induction HR as [|s r s' HR IH En].
  - split; [apply DI_init|]. cbn [buf st0]. rewrite (pad_noNul input Hn). exact Hn.
  - destruct IH as [HD HN]. pose proof (nextBlock_total s HD) as H. rewrite En in H. cbn [okNB2] in H. split; [apply H|].
    destruct (nextBlock_suffix _ _ _ _ En) as (k & ->). apply noNul_from, HN.
Qed.

(* ---- skipLoop ends in a lineLoop from the empty list of children ---- *)
Lemma skipLoop_cut : forall f s r s', bi s = 0 -> skipLoop f s = NBBlock r s' ->
  exists B f' bo bl, suffixOf B (buf s) /\ 0 < lineEnd B 0 /\ isBlankLine (upto B (lineEnd B 0)) = false /\
    lineLoop f' 0 [] 0 {| buf := B; bi := lineEnd B 0; boff := bo; bline := bl; pending := pending s |} = NBBlock r s'.
Proof.
  induction f as [|f IH]; intros s r s' Hb E; [discriminate|]. cbn [skipLoop] in E. cbv zeta in E. rewrite Hb in E.
  destruct (Z.ltb_spec 0 (lineEnd (buf s) 0)) as [L|L]; cbn [negb] in E; [|discriminate].
  destruct (isBlankLine (upto (buf s) (lineEnd (buf s) 0))) eqn:Ebl.
  - match type of E with skipLoop f ?S1 = _ => destruct (IH S1 r s' eq_refl E) as (B & f' & bo & bl & HS & H1 & H2 & H3) end. cbn [buf pending] in *.
    exists B, f', bo, bl. split; [|split; [exact H1|split; [exact H2|exact H3]]].
    destruct HS as (k & ->). apply suffix_from. eexists. reflexivity.
  - exists (buf s), f, (boff s), (bline s). split; [exists 0; reflexivity|]. split; [exact L|]. split; [exact Ebl|exact E].
Qed.

Lemma DI_bi0_pending s : DI s -> bi s = 0 -> pending s = [].
Proof.
  intros ((ns & (Hb & Hbnd & _)) & _ & HG & HP) H0. destruct (pending s) as [|c t] eqn:Ep; [reflexivity|exfalso].
  cbn [GoodL] in HG. destruct (isOpen c) eqn:Eo.
  - destruct HG as [-> _]. destruct (HP [] c eq_refl Eo) as [X _]. lia.
  - destruct HG as [X _]. unfold bndL in Hbnd. cbn [forallb] in Hbnd. apply andb_true_iff in Hbnd. destruct Hbnd as [Hb1 _].
    unfold isOpen in Eo. apply Z.ltb_ge in Eo. destruct (bnd_end _ _ _ Hb1); lia.
Qed.

(* ---- a root that starts a fresh line loop and is cut at the position read so far ---- *)
Theorem reparse_clean_call s r s' : DI s -> noNul (buf s) -> pending s = [] ->
  nextBlock (3 + length (buf s)) s = NBBlock r s' -> bi s' = 0 ->
  parseBlocks (rb_src r) = ([rebase r], 0).
Proof.
  intros HD HN Hp En Hb0.
  pose proof (nextBlock_total s HD) as HT. rewrite En in HT. cbn [okNB2] in HT. destruct HT as [HD' _].
  pose proof (DI_bi0_pending s' HD' Hb0) as Hp'.
  unfold nextBlock in En. rewrite Hp in En. cbn [makeRoot] in En.
  match type of En with skipLoop ?F ?S1 = _ => destruct (skipLoop_cut F S1 r s' eq_refl En) as (B & f' & bo & bl & (k & EB) & H1 & H2 & H3) end. cbn [buf pending] in *.
  assert (HNB : noNul B) by (rewrite EB; apply noNul_from, noNul_from, HN).
  set (sB := {| buf := B; bi := lineEnd B 0; boff := bo; bline := bl; pending := [] |}) in *.
  apply (lineLoop_cutOf f' 0 [] 0 sB r s' eq_refl) in H3. destruct H3 as (b & rest & bij & st' & Hcut & Er).
  unfold rootAt in Er. cbn [buf boff bline sB] in Er. inversion Er as [[E1 E2]].
  rewrite E2 in Hb0, Hp'. cbn [bi pending] in Hb0, Hp'. apply map_eq_nil in Hp'. subst rest.
  pose proof (len_nonneg B) as HlB.
  destruct (cutOf_bounds f' 0 [] 0 B b [] bij st' ltac:(lia) Hcut) as [Hbb Hcl].
  assert (Hbe : bend b = bij) by lia.
  pose proof (reparse_cut_at_read B f' b st' bij HNB Hcut Hbe H1 H2) as HP.
  unfold rebase. try rewrite E1. cbn [rb_src rb_blk]. rewrite Hbe, (fillNulls_noNul _ (noNul_upto B bij HNB)), HP.
  rewrite (len_upto B bij ltac:(lia)). reflexivity.
Qed.

(* the same for the roots of a whole run *)
Definition cleanCut (input : bytes) (r : rootB) : Prop :=
  exists s s', Reach (st0 (pad input)) s /\ pending s = [] /\ nextBlock (3 + length (buf s)) s = NBBlock r s' /\ bi s' = 0.

Theorem C16_cleanCut_partial input r : noNul input -> cleanCut input r -> parseBlocks (rb_src r) = ([rebase r], 0).
Proof.
  intros Hn (s & s' & HR & Hp & En & Hb). destruct (Reach_inv input s Hn HR) as [HD HN]. exact (reparse_clean_call s r s' HD HN Hp En Hb).
Qed.
Print Assumptions C16_cleanCut_partial.
