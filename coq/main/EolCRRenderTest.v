From Coq Require Import List ZArith Lia Bool String Ascii.
Import ListNotations.
Require Import Base Tree Driver Inl3e Render BSTest EolCRDefs.
Open Scope Z_scope.

Fixpoint REb (a b : bytes) : bool :=
  match a, b with
  | [], [] => true
  | x :: a', y :: b' => ((y =? x) || ((x =? 10) && (y =? 13))) && REb a' b'
  | _, _ => false
  end.
Definition c0 := {| softBreak := 0; ignoreRaw := false; filterOn := false; filterP := fun _ => false |}.
Definition c1 := {| softBreak := 1; ignoreRaw := false; filterOn := false; filterP := fun _ => false |}.
Definition c2 := {| softBreak := 2; ignoreRaw := false; filterOn := true; filterP := fun n => Utf8.bytes_eqb n [115;99;114;105;112;116] |}.
Definition c3 := {| softBreak := 0; ignoreRaw := true; filterOn := false; filterP := fun _ => false |}.
Definition cfgs := [c0;c1;c2;c3].
Definition tst (d : bytes) : list bool := map (fun c => REb (renderDoc c d) (renderDoc c (EolCRDefs.cr d))) cfgs.
Definition treeEq (d : bytes) : bool :=
  let '(r, c) := parseFull d in let '(r', c') := parseFull (EolCRDefs.cr d) in
  (c =? c') && (Nat.eqb (List.length r) (List.length r')).
(* positions at which the outputs differ *)
Fixpoint diffs (i : Z) (a b : bytes) : list (Z * Z * Z) :=
  match a, b with x :: a', y :: b' => (if y =? x then [] else [(i, x, y)]) ++ diffs (i + 1) a' b' | _, _ => [] end.
Open Scope string_scope.
Definition d1 := bs ("para line one" ++ nl ++ "line two  " ++ nl ++ "line three\" ++ nl ++ "four" ++ nl ++ nl ++ "second *emph" ++ nl ++ "over* lines" ++ nl).
Definition d2 := bs ("# heading" ++ nl ++ nl ++ "Setext" ++ nl ++ "two lines" ++ nl ++ "===" ++ nl ++ "---" ++ nl ++ "## h2 ##" ++ nl).
Definition d3 := bs ("```go lang" ++ nl ++ "code 1" ++ nl ++ nl ++ "code <2>" ++ nl ++ "```" ++ nl ++ nl ++ "    indented" ++ nl ++ nl ++ "    more" ++ nl ++ "text" ++ nl).
Definition d4 := bs ("<div>" ++ nl ++ "html *x*" ++ nl ++ "</div>" ++ nl ++ nl ++ "<!-- c" ++ nl ++ "d -->" ++ nl ++ "<script>" ++ nl ++ "a" ++ nl ++ nl ++ "b</script>" ++ nl).
Definition d5 := bs ("> quote" ++ nl ++ "lazy" ++ nl ++ "> > nested" ++ nl ++ nl ++ "> - a" ++ nl ++ ">   b" ++ nl).
Definition d6 := bs ("- a" ++ nl ++ "- b" ++ nl ++ "  - c" ++ nl ++ "  - d" ++ nl ++ nl ++ "* x" ++ nl ++ nl ++ "* y" ++ nl ++ nl ++ "  z" ++ nl).
Definition d7 := bs ("3. three" ++ nl ++ "4. four" ++ nl ++ nl ++ "12) twelve" ++ nl ++ nl ++ "    para" ++ nl ++ "0. zero" ++ nl ++ "1. one" ++ nl).
Definition d8 := bs ("[foo]: /url 'title" ++ nl ++ "over lines'" ++ nl ++ nl ++ "[bar]:" ++ nl ++ "  </u rl>" ++ nl ++ "  ""t &amp; &#10; x" ++ nl ++ "y""" ++ nl ++ nl ++ "[foo] and [bar] and [x][foo] ![im" ++ nl ++ "g][bar]" ++ nl).
Definition d9 := bs ("a `code" ++ nl ++ "span` b ``x" ++ nl ++ " y``" ++ nl ++ "<a href=""x""" ++ nl ++ "  b='c" ++ nl ++ "d'> raw <!-- co" ++ nl ++ "mment --> <?pi" ++ nl ++ "?> <script x>" ++ nl).
Definition d10 := bs ("[link](/dest ""ti" ++ nl ++ "tle"") [l2](<a b> 'x" ++ nl ++ "y') [l3](" ++ nl ++ "  /d" ++ nl ++ "  (t" ++ nl ++ "t)" ++ nl ++ " ) ![alt *over" ++ nl ++ "lines*  " ++ nl ++ "hard](/img)" ++ nl).
Definition d11 := bs ("<http://a.b/c?d=e&f> <foo@bar.com> <http://x" ++ nl ++ "y> &amp; &#10; &#13; &#xA; &copy &notit; &" ++ nl ++ "amp; &#" ++ nl ++ "10;" ++ nl).
Definition d12 := bs ("[a](/u%0Ax%zz ""&#10;&#13;"") [b](/x&#10;y) [c](</x" ++ nl ++ "y>) [d](/x" ++ nl ++ "y)" ++ nl).
Definition d13 := bs ("~~~ a&#10;b c" ++ nl ++ "x" ++ nl ++ "~~~" ++ nl ++ "``` &#13;z" ++ nl ++ "```" ++ nl ++ "~~~ tab" ++ tab ++ "x" ++ nl).
Definition d14 := bs ("**strong" ++ nl ++ "_nested" ++ nl ++ "em_** \" ++ nl ++ "x\" ++ nl ++ nl ++ "trail  " ++ nl ++ nl ++ "a\" ++ nl).
Definition d15 := bs ("- [x]: /y ""t" ++ nl ++ "  t""" ++ nl ++ "- [x]" ++ nl ++ nl ++ "> [q]: <>" ++ nl ++ "> 'a" ++ nl ++ "> b'" ++ nl ++ nl ++ "[q] [Q] [q][]" ++ nl).
Definition d16 := bs ("no final newline").
Definition d17 := bs (nl ++ nl ++ "  " ++ nl ++ "x" ++ nl ++ nl ++ nl).
Definition d18 := bs ("a" ++ tab ++ "b" ++ nl ++ tab ++ "code" ++ tab ++ "x" ++ nl ++ "- " ++ tab ++ "y" ++ nl ++ ">" ++ tab ++ "z" ++ nl).
Definition d19 := bs ("[a" ++ nl ++ "b]: /u" ++ nl ++ nl ++ "[a" ++ nl ++ "b] [A  B] [a b][]" ++ nl ++ "[x](y" ++ nl ++ "z)" ++ nl).
Definition d20 := bs ("* * *" ++ nl ++ "___" ++ nl ++ "1. " ++ nl ++ "   x" ++ nl ++ "-" ++ nl ++ "  y" ++ nl ++ "+ ```" ++ nl ++ "  c" ++ nl ++ nl ++ "  d" ++ nl ++ "  ```" ++ nl).
Definition d21 := bs ("<b" ++ nl ++ "c>text</b" ++ nl ++ "> <![CDATA[x" ++ nl ++ "y]]> <!X a" ++ nl ++ "b>" ++ nl).
Definition d22 := bs ("![a `c" ++ nl ++ "d` <b" ++ nl ++ ">&amp;[in" ++ nl ++ "ner](/u)](/i ""T"")" ++ nl).
Definition d23 := bs ("<http://a/" ++ tab ++ "b> <mailto:x" ++ nl ++ "y> <a+b:" ++ nl ++ "> &#0; &#x110000; &#128; &bogus;" ++ nl).
Definition docs := [d1;d2;d3;d4;d5;d6;d7;d8;d9;d10;d11;d12;d13;d14;d15;d16;d17;d18;d19;d20;d21;d22;d23].
Eval vm_compute in map tst docs.
Eval vm_compute in map treeEq docs.
Eval vm_compute in map (fun d => diffs 0 (renderDoc c0 d) (renderDoc c0 (EolCRDefs.cr d))) docs.
