From Coq Require Import List ZArith Lia Bool String Ascii.
Import ListNotations.
Require Import Base Tree Driver Inl3e Render BSTest EolFinalDefs EolFinalFullDefs EolFinalRenderBase EolFinalRenderTest.
Open Scope Z_scope.

Fixpoint isPre (p l : bytes) : option bytes :=
  match p, l with [], _ => Some l | x :: p', y :: l' => if x =? y then isPre p' l' else None | _, [] => None end.
(* a necessary condition of LFI (sbr c) o n that is cheap to evaluate: delete the bytes of sbr c that are not LF
   wherever they occur as the substring (sbr c minus its LF), then delete LF, and compare *)
Fixpoint dropSub (fuel : nat) (pat l : bytes) : bytes :=
  match fuel with O => l | S f =>
    match l with [] => [] | x :: r => match isPre pat l with Some r' => dropSub f pat r' | None => x :: dropSub f pat r end end end.
Definition nrm (c : cfg) (l : bytes) : bytes :=
  let pat := delLF (sbr c) in match pat with [] => delLF l | _ => delLF (dropSub (S (List.length l)) pat l) end.
Definition chk (c : cfg) (d : bytes) : bool := beq (nrm c (renderDoc c (d ++ [10])%list)) (nrm c (renderDoc c d)).
Open Scope string_scope.
Definition h1 := bs ("*emph  *  ").
Definition h2 := bs ("**a** <b>  ").
Definition h3 := bs ("# head  ").
Definition h4 := bs ("x" ++ nl ++ "===  ").
Definition h5 := bs ("> a *b*   ").
Definition h6 := bs ("[a](/u)  ").
Definition h7 := bs ("`c`  ").
Definition h8 := bs ("a&amp;  ").
Definition h9 := bs ("- a" ++ nl ++ nl ++ "  b  ").
Definition h10 := bs ("<div>" ++ nl ++ "x  ").
Definition h11 := bs ("```" ++ nl ++ "x  ").
Close Scope string_scope.
Definition docs2 : list bytes := [f1;f2;f3;f4;f5;f6;f7;f8;f9;f10;f11;f12;f13;f14;f15;f16;f17;f18;f19;f20;f21;f22;f23;f24;f25;f27;f28;f29;f30;f31;f32;f33;f34;f35;f36;f37;f38;f39;f40;h1;h2;h3;h4;h5;h6;h7;h8;h9;h10;h11].
(* the main relation LFI (sbr c), all five configurations *)
Eval vm_compute in forallb (fun d => forallb (fun c => chk c d) cfgs) docs2.
(* inputs ending in '>' (outside the hypotheses): the same relation, tested only *)
Eval vm_compute in map (fun d => map (fun c => chk c d) cfgs) gdocs.
(* literal equality in safe mode / default soft breaks when the input does not end in two spaces *)
Eval vm_compute in forallb (fun d => hbTail d || beq (renderDoc c3 (d ++ [10])) (renderDoc c3 d)) (docs2 ++ gdocs).
(* delLF equality, softBreak 0 (c0 raw, c3 safe); delWs equality, softBreak 1 (c1) *)
Eval vm_compute in forallb (fun d => beq (delLF (renderDoc c0 (d ++ [10]))) (delLF (renderDoc c0 d)) && beq (delLF (renderDoc c3 (d ++ [10]))) (delLF (renderDoc c3 d))
                                  && beq (delWs (renderDoc c1 (d ++ [10]))) (delWs (renderDoc c1 d))) (docs2 ++ gdocs).
