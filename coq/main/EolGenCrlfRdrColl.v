From Coq Require Import List ZArith Lia Bool.
Import ListNotations.
Require Import Base Tables Utf8 Tree Rdr Link Collect ShapesBase ShapesR IFBase IFLink IFCollect LARpce IS8b EolCRLFDefs EolCRLFSimBytes EolCRLFSimStream
  EolGenCrlfRdrDefs EolGenCrlfRdrStep EolGenCrlfRdrNext EolGenCrlfRdrLink.
Open Scope Z_scope.

(* C14 (ii), CRLF clause: Collect.v (text collection, label normalisation) on the two readers. *)

(* ---------------------------------------------------------------- parseCharacterEscape does not look past a line ending *)
Lemma crlf_c10 l : crlf (10 :: l) = 13 :: 10 :: crlf l. Proof. reflexivity. Qed.
Lemma crlf_cN c l : c <> 10 -> crlf (c :: l) = c :: crlf l.
Proof. intros H. change (crlf (c :: l)) with ((if c =? 10 then [13; 10] else [c]) ++ crlf l). destruct (Z.eqb_spec c 10); [contradiction|reflexivity]. Qed.
Lemma pce_named_crlf : forall l i acc, pce_named (crlf l) i acc = pce_named l i acc.
Proof.
  induction l as [|c l IH]; intros i acc; [reflexivity|]. destruct (Z.eq_dec c 10) as [->|N].
  - rewrite crlf_c10. reflexivity.
  - rewrite crlf_cN by exact N. cbn [pce_named]. rewrite IH. reflexivity.
Qed.
Lemma pce_num_crlf p : p 10 = false -> p 13 = false -> forall n l i ds, pce_num p (firstn n (crlf l)) i ds = pce_num p (firstn n l) i ds.
Proof.
  intros P10 P13. induction n as [|n IH]; intros l i ds; [reflexivity|]. destruct l as [|c l]; [reflexivity|].
  destruct (Z.eq_dec c 10) as [->|N].
  - rewrite crlf_c10. cbn [firstn pce_num]. rewrite P10, P13. reflexivity.
  - rewrite crlf_cN by exact N. cbn [firstn pce_num]. rewrite IH. reflexivity.
Qed.
Lemma len3 {A} (l : list A) : (len l <? 3) = match l with _ :: _ :: _ :: _ => false | _ => true end.
Proof. destruct l as [|a [|b [|c r]]]; try reflexivity. rewrite !len_cons. pose proof (len_nonneg r). apply Z.ltb_ge. lia. Qed.
Lemma pce_crlf t : parseCharacterEscape (crlf t) = parseCharacterEscape t.
Proof.
  destruct t as [|a t]; [reflexivity|].
  destruct (Z.eq_dec a 10) as [->|Na].
  { (* starts with LF: not an ampersand in either *)
    rewrite crlf_c10. unfold parseCharacterEscape. change (at_ (13 :: 10 :: crlf t) 0) with 13. change (at_ (10 :: t) 0) with 10.
    cbn [Z.eqb Pos.eqb negb]. rewrite !orb_true_r. reflexivity. }
  rewrite crlf_cN by exact Na. destruct t as [|b t].
  { reflexivity. }
  destruct (Z.eq_dec b 10) as [->|Nb].
  { rewrite crlf_c10. unfold parseCharacterEscape. rewrite !len3.
    change (at_ (a :: 13 :: 10 :: crlf t) 0) with a. change (at_ (a :: 10 :: t) 0) with a.
    change (at_ (a :: 13 :: 10 :: crlf t) 1) with 13. change (at_ (a :: 10 :: t) 1) with 10.
    change (from_ (a :: 13 :: 10 :: crlf t) 1) with (13 :: 10 :: crlf t). change (from_ (a :: 10 :: t) 1) with (10 :: t).
    cbn [pce_named Z.eqb Pos.eqb negb isASCIILetter isASCIIDigit Z.leb Z.compare Pos.compare Pos.compare_cont andb orb].
    destruct t; cbn [orb]; destruct (negb (a =? 38)); reflexivity. }
  rewrite crlf_cN by exact Nb. destruct t as [|c t].
  { reflexivity. }
  destruct (Z.eq_dec c 10) as [->|Nc].
  { rewrite crlf_c10. unfold parseCharacterEscape. rewrite !len3. cbn [orb].
    change (at_ (a :: b :: 13 :: 10 :: crlf t) 0) with a. change (at_ (a :: b :: 10 :: t) 0) with a.
    change (at_ (a :: b :: 13 :: 10 :: crlf t) 1) with b. change (at_ (a :: b :: 10 :: t) 1) with b.
    change (at_ (a :: b :: 13 :: 10 :: crlf t) 2) with 13. change (at_ (a :: b :: 10 :: t) 2) with 10.
    change (from_ (a :: b :: 13 :: 10 :: crlf t) 1) with (b :: 13 :: 10 :: crlf t). change (from_ (a :: b :: 10 :: t) 1) with (b :: 10 :: t).
    change (from_ (a :: b :: 13 :: 10 :: crlf t) 2) with (13 :: 10 :: crlf t). change (from_ (a :: b :: 10 :: t) 2) with (10 :: t).
    destruct (negb (a =? 38)); [reflexivity|]. destruct (negb (b =? 35)).
    - change (b :: 13 :: 10 :: crlf t) with (b :: crlf (10 :: t)). rewrite <- (crlf_cN b (10 :: t) Nb). apply pce_named_crlf.
    - cbn [Z.eqb Pos.eqb orb]. unfold upto. change (Z.to_nat 8) with 8%nat. cbn [firstn pce_num Z.eqb Pos.eqb isASCIIDigit Z.leb Z.compare Pos.compare Pos.compare_cont andb negb]. reflexivity. }
  rewrite crlf_cN by exact Nc. unfold parseCharacterEscape. rewrite !len3. cbn [orb].
  change (at_ (a :: b :: c :: crlf t) 0) with a. change (at_ (a :: b :: c :: t) 0) with a.
  change (at_ (a :: b :: c :: crlf t) 1) with b. change (at_ (a :: b :: c :: t) 1) with b.
  change (at_ (a :: b :: c :: crlf t) 2) with c. change (at_ (a :: b :: c :: t) 2) with c.
  change (from_ (a :: b :: c :: crlf t) 1) with (b :: c :: crlf t). change (from_ (a :: b :: c :: t) 1) with (b :: c :: t).
  change (from_ (a :: b :: c :: crlf t) 2) with (c :: crlf t). change (from_ (a :: b :: c :: t) 2) with (c :: t).
  change (from_ (a :: b :: c :: crlf t) 3) with (crlf t). change (from_ (a :: b :: c :: t) 3) with t.
  destruct (negb (a =? 38)); [reflexivity|]. destruct (negb (b =? 35)).
  - rewrite <- (crlf_cN c t Nc), <- (crlf_cN b (c :: t) Nb). apply pce_named_crlf.
  - destruct ((c =? 120) || (c =? 88)).
    + unfold upto. apply pce_num_crlf; reflexivity.
    + rewrite <- (crlf_cN c t Nc). unfold upto. apply pce_num_crlf; reflexivity.
Qed.

Section CollSim.
  Variable R : bytes.
  Variable Eb : Z.
  Hypothesis R13 : ~ In 13 R.
  Notation P := (phiP R).
  Notation R' := (crlf R).
  Notation F := (phiI R).
  Notation RR := (RR R Eb).
  Notation RM := (RM R Eb).
  Notation PVc := (PVc R).
  Notation SPI := (SPI R Eb).
  Notation W := (W R Eb).

  Ltac f0 HW := exfalso; destruct (W_PL R Eb _ _ HW) as [?P1 ?P2]; first [eapply (fuel0 R); eassumption|eapply (fuel0 R'); eassumption].

  Lemma P_add_noLF p : forall n : nat, (forall k, 0 <= k < Z.of_nat n -> at_ R (p + k) <> 10) -> P (p + Z.of_nat n) = P p + Z.of_nat n.
  Proof.
    induction n as [|n IH]; intros H; [rewrite Z.add_0_r; lia|].
    replace (p + Z.of_nat (S n)) with (p + Z.of_nat n + 1) by lia. rewrite P_succ_n by (apply H; lia). rewrite IH by (intros k Hk; apply H; lia). lia.
  Qed.

  Lemma jumped_sim r r' : RR r r' -> jumped r' = jumped r.
  Proof.
    intros ((_ & _ & _ & D & _) & E). unfold jumped. unfold EolGenCrlfRdrStep.PVc in E. rewrite D.
    assert (A : (0 <=? r_prev r') = (0 <=? r_prev r)).
    { pose proof (phiP_ltb R 0 (r_prev r + 1)) as Q. rewrite phiP_0 in Q.
      destruct (Z.leb_spec 0 (r_prev r)) as [L|L].
      - apply Z.leb_le. destruct (Z.ltb_spec 0 (P (r_prev r + 1))) as [L2|L2]; [lia|]. destruct (Z.ltb_spec 0 (r_prev r + 1)); [discriminate|lia].
      - apply Z.leb_gt. destruct (Z.ltb_spec 0 (P (r_prev r + 1))) as [L2|L2]; [|lia]. destruct (Z.ltb_spec 0 (r_prev r + 1)); [lia|discriminate]. }
    assert (B : (1 <? P (r_pos r) - r_prev r') = (1 <? r_pos r - r_prev r)).
    { pose proof (phiP_ltb R (r_prev r + 1) (r_pos r)) as Q.
      destruct (Z.ltb_spec 1 (r_pos r - r_prev r)) as [L|L].
      - apply Z.ltb_lt. destruct (Z.ltb_spec (P (r_prev r + 1)) (P (r_pos r))) as [L2|L2]; [lia|]. destruct (Z.ltb_spec (r_prev r + 1) (r_pos r)); [discriminate|lia].
      - apply Z.ltb_ge. destruct (Z.ltb_spec (P (r_prev r + 1)) (P (r_pos r))) as [L2|L2]; [|lia]. destruct (Z.ltb_spec (r_prev r + 1) (r_pos r)); [lia|discriminate]. }
    rewrite A, B. reflexivity.
  Qed.
  Lemma RM_not_jumped r m : RM r m -> jumped m = false.
  Proof.
    intros (_ & _ & _ & D & _ & _ & _ & E & _). unfold jumped. rewrite D, E.
    replace (P (r_pos r) + 1 - P (r_pos r)) with 1 by lia. rewrite andb_false_r. reflexivity.
  Qed.

  (* ---- curNode on either kind of pair ---- *)
  Lemma RM_curNode r m : RM r m -> fst (curNode m) = option_map F (fst (curNode r)) /\ RM (snd (curNode r)) (snd (curNode m)).
  Proof.
    intros H. destruct (RM_cn R Eb r m H) as [X Y]. split; [exact X|].
    destruct H as (A & B & C & D & E & G & H10 & Hpv & Hex).
    destruct (curNode_fields r) as (A1 & A2 & A3 & A4). destruct (curNode_fields m) as (B1 & B2 & B3 & B4). cbv zeta in *.
    unfold EolGenCrlfRdrStep.RM. rewrite curNode_idem, Y, A1, A2, A3, B1, B2, B3, B4.
    repeat (split; [assumption|]). split; [apply (SPI_curNode R Eb), G|]. repeat (split; [assumption|]). exact Hex.
  Qed.
  Lemma curNodeE_W r r' cn r0 cn' r0' : W r r' -> curNode r = (cn, r0) -> curNode r' = (cn', r0') ->
    cn' = option_map F cn /\ (RR r r' -> RR r0 r0') /\ (RM r r' -> RM r0 r0') /\ nu R r0 = nu R r /\ nu R' r0' = nu R' r' /\
    r_pos r0 = r_pos r /\ fst (curNode r0) = cn.
  Proof.
    intros HW E E'. assert (E0 : r0 = snd (curNode r)) by (rewrite E; reflexivity). assert (E0' : r0' = snd (curNode r')) by (rewrite E'; reflexivity).
    assert (Ecn : cn = fst (curNode r)) by (rewrite E; reflexivity). assert (Ecn' : cn' = fst (curNode r')) by (rewrite E'; reflexivity).
    subst r0 r0' cn cn'. split.
    - destruct HW as [H|H]; [apply (RR_curNode R Eb r r' H)|apply (RM_curNode r r' H)].
    - split; [intros H; apply (RR_curNode R Eb r r' H)|]. split; [intros H; apply (RM_curNode r r' H)|].
      split; [apply nu_curNode|]. split; [apply nu_curNode|]. split; [apply pos_curNode|rewrite curNode_idem; reflexivity].
  Qed.

  (* ---- remainingNodeBytes ---- *)
  Lemma rnb_sim r r' : RR r r' ->
    fst (remainingNodeBytes r') = crlf (fst (remainingNodeBytes r)) /\ RR (snd (remainingNodeBytes r)) (snd (remainingNodeBytes r')).
  Proof.
    intros H. pose proof (RR_curNode R Eb r r' H) as [X Y]. pose proof H as ((A & B & C & D & _) & _). unfold remainingNodeBytes.
    destruct (curNode_cases r) as [Ec|(pre & n & rest & E1 & Ec & E3)]; rewrite Ec in X, Y |- *; cbn [fst snd] in X, Y;
      destruct (curNode r') as [n' r1']; cbn [fst snd] in X, Y; subst n'; cbn [option_map fst snd]; (split; [|exact Y]); [reflexivity|].
    pose proof (spanHas_range _ _ E3) as (S1 & S2 & S3). rewrite A, B, D, iend_phiI. apply crlf_sub; lia.
  Qed.

  (* ---- skipSameNode: only ever called on an Indent node ---- *)
  Lemma cur_ind_ne10 r : okind (fst (curNode r)) = IndentKind -> cur r <> 10.
  Proof. intros K E. destruct (cur_indent r K) as [Q|Q]; rewrite Q in E; discriminate. Qed.
  Lemma skipSameNode_sim : forall f' f r r' node, RR r r' -> okind (fst (curNode r)) = IndentKind -> ikind node = IndentKind ->
    nu R r < Z.of_nat f -> nu R' r' < Z.of_nat f' -> RR (skipSameNode f r node) (skipSameNode f' r' (F node)).
  Proof.
    induction f' as [|f' IH]; intros f r r' node H K Kn Hn Hn'; [f0 (or_introl H : W r r')|]. destruct f as [|f]; [f0 (or_introl H : W r r')|].
    cbn [skipSameNode]. destruct (next r) as [ok r1] eqn:En. destruct (next r') as [ok' r1'] eqn:En'.
    destruct (nextE_RR R Eb _ _ _ _ _ _ H (cur_ind_ne10 r K) En En') as (-> & H1 & _ & [U1 U2] & [U1' U2']).
    destruct ok; cbn [negb]; [|exact H1]. specialize (U2 eq_refl). specialize (U2' eq_refl).
    destruct (curNode r1) as [cn r2] eqn:Ec. destruct (curNode r1') as [cn' r2'] eqn:Ec'.
    destruct (curNodeE_W r1 r1' cn r2 cn' r2' (or_introl H1) Ec Ec') as (-> & Q1 & _ & N2 & N2' & _ & Ecn). specialize (Q1 H1).
    destruct cn as [m|]; cbn [option_map]; [|exact Q1].
    rewrite !ikind_phiI, !istart_phiI, !iend_phiI, !P_eqb.
    destruct (Z.eqb_spec (ikind m) (ikind node)) as [Ek|Ek]; cbn [andb]; [|exact Q1].
    destruct ((istart m =? istart node) && (iend m =? iend node)); [|exact Q1].
    apply IH; [exact Q1|rewrite Ecn; cbn [okind]; congruence|exact Kn|lia|lia].
  Qed.

  (* ---- nextN over bytes that are not LF ---- *)
  Lemma nextN_sim : forall n r r', RR r r' -> (forall k, (k < n)%nat -> at_ R (r_pos (nextN k r)) <> 10) -> RR (nextN n r) (nextN n r').
  Proof.
    induction n as [|n IH]; intros r r' H Hk; [exact H|]. cbn [nextN].
    assert (N10 : cur r <> 10).
    { intros E. destruct (cur_10 R r ltac:(apply H) E) as [Q _]. exact (Hk 0%nat ltac:(lia) Q). }
    destruct (RR_next_n R Eb r r' H N10) as [_ H1]. apply IH; [exact H1|]. intros k Hlt. apply (Hk (S k)). lia.
  Qed.
End CollSim.
