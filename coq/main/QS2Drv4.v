(* QS2Drv4.v -- T58: QuoteSimDrv4 redone for documents that may contain '[' (link reference definitions are split off paragraphs).
   The run of parseBlocks on D (no tab, CR, NUL) is followed through allBlocks / nextBlock / lineLoop / skipLoop
   (skeleton of Total.v, with the "lines accounted" invariant of LA13.v carried along for the lower bounds needed when a root
   block is cut off); the run on quote D is one lineLoop under the open quote. *)
From Coq Require Import List ZArith Lia Bool Arith.
Import ListNotations.
Require Import Base Tree Rdr Link Collect Html Recog LP Rules Starts Driver Rec16 Rec17 Rec18 L2Kind L2Kind2 L2CC L2Bnd L2BndS NoPanicAll StreamFuel SliceBase
  TPanicRange TDefs TInv TDesc TLine2 TShift Total LADef LA1 LA11 LA12 LA13 LAOcp LAPad
  DefSpansOcp DefSpansWalk DefSpansDrv
  QuoteSimDefs QuoteSimTree QuoteSimNest QuoteSimQLine QuoteSimMap QuoteSimReloc QuoteSimAux QuoteSimLines QuoteSimDrv1 QuoteSimDrv2 QuoteSimDrv3
  QRdrBase QRdrCollect QRdrOcp QS2Reloc QS2Drv1 QS2Drv2.
Require BlankPrefix QuoteSimDrv4.
Open Scope Z_scope.

Section Drv.
  Variable D : bytes.
  Hypothesis D_tab : noTab D.
  Hypothesis D_cr : noCR D.
  Hypothesis D_nul : noNul D.
  Notation Q := (Qd D).

  (* ---- bytes ---- *)
  Lemma noNul_from o : noNul (from_ D o). Proof. apply Forall_from, D_nul. Qed.
  Lemma noNul_upto (l : bytes) n : noNul l -> noNul (upto l n). Proof. apply Forall_upto. Qed.
  Lemma PadF_noNul l : noNul l -> PadF l. Proof. intros H. exists l. symmetry. apply pad_noNul, H. Qed.
  Lemma bnd0_noNul l e : noNul l -> 0 <= e <= len l -> bnd0 l e.
  Proof.
    intros H He. destruct (Z.eq_dec e 0) as [->|N]; [left; reflexivity|]. right. right. unfold noNul in H. rewrite Forall_forall in H. apply H.
    unfold at_. destruct (Z.ltb_spec (e - 1) 0); [lia|]. apply nth_In. unfold len in He. lia.
  Qed.
  Lemma Q_nul : noNul Q. Proof. apply Forall_quoteAux; [discriminate|discriminate|exact D_nul]. Qed.

  (* ---- absolute line boundaries ---- *)
  Definition LBA (a : Z) : Prop := a = 0 \/ (0 < a <= len D /\ at_ D (a - 1) = 10) \/ a = len D.
  Lemma lineEnd_from o ls : 0 <= o <= len D -> 0 <= ls -> lineEnd (from_ D o) ls = lineEnd D (o + ls) - o.
  Proof.
    intros Ho Hls. pose proof (lineEnd_app_shift (upto D o) (from_ D o) ls Hls) as X. rewrite upto_from, len_upto' in X by lia. lia.
  Qed.
  Lemma line_geom o ls : 0 <= o -> 0 <= ls -> o + ls < len D -> (o + ls = 0 \/ at_ D (o + ls - 1) = 10) ->
    exists pre body eol post, lineAt D (o + ls) pre body eol post /\ lineEnd (from_ D o) ls = ls + len body + len eol /\
      lineEnd Q (epsB D (o + ls)) = epsB D (o + (ls + len body + len eol)) /\
      epsB D (o + (ls + len body + len eol)) = epsB D (o + ls) + 2 + len body + len eol /\
      LBA (o + (ls + len body + len eol)) /\ o + (ls + len body + len eol) <= len D.
  Proof.
    intros Ho Hls Hlt Hb. destruct (lineAt_exists D (o + ls) ltac:(lia) Hb) as (pre & body & eol & post & L).
    exists pre, body, eol, post. split; [exact L|]. pose proof L as (ED & Ha & Hbn & He & Hp & Hne).
    pose proof (lineAt_lineEnd D _ _ _ _ _ D_cr L) as E1.
    destruct (lineAt_Q D _ _ _ _ _ D_cr L) as (Q1 & Q2 & Q3 & Q4). pose proof (len_nonneg body) as Hlb. pose proof (len_nonneg eol) as Hle.
    assert (Hlen : o + ls + len body + len eol <= len D) by (rewrite ED, !len_app; pose proof (len_nonneg post); lia).
    assert (Hpos : 0 < len body + len eol) by (destruct body; [destruct eol; [contradiction|rewrite len_cons; pose proof (len_nonneg eol); lia]|rewrite len_cons; pose proof (len_nonneg body); lia]).
    assert (E3 : epsB D (o + (ls + len body + len eol)) = epsB D (o + ls) + 2 + len body + len eol).
    { replace (o + (ls + len body + len eol)) with (o + ls + (len body + len eol)) by lia. rewrite (lineAt_epsB_in D _ _ _ _ _ (len body + len eol) L) by lia. lia. }
    split; [rewrite lineEnd_from by lia; lia|]. split; [rewrite E3; exact Q2|]. split; [exact E3|]. split; [|lia].
    destruct He as [->|[-> ->]].
    - right. left. change (len [10]) with 1 in *. split; [lia|]. rewrite ED. replace (o + (ls + len body + 1) - 1) with (len (pre ++ body) + 0) by (rewrite len_app; lia).
      rewrite app_assoc. rewrite at_app_shift by lia. reflexivity.
    - right. right. rewrite ED, !len_app. change (len (@nil Z)) with 0. lia.
  Qed.

  (* ---- progress of the quoted run ---- *)
  Definition QStep (lsq stQ : Z) (bq : block) (k : nat) (lsq' stQ' : Z) (bq' : block) : Prop :=
    (forall f, QL Q (k + f) stQ bq lsq = QL Q f stQ' bq' lsq') /\ Z.of_nat k <= lsq' - lsq.
  Definition QDone (lsq stQ : Z) (bq : block) (k : nat) (bqF : block) : Prop :=
    (forall f, QL Q (k + S f) stQ bq lsq = NBBlock (qroot Q bqF) (qend Q (len Q) bqF)) /\ Z.of_nat k <= len Q - lsq.
  Lemma QStep_refl lsq stQ bq : QStep lsq stQ bq 0 lsq stQ bq.
  Proof. split; [intros f; reflexivity|lia]. Qed.
  Lemma QStep_trans l1 s1 b1 k1 l2 s2 b2 k2 l3 s3 b3 : QStep l1 s1 b1 k1 l2 s2 b2 -> QStep l2 s2 b2 k2 l3 s3 b3 -> QStep l1 s1 b1 (k1 + k2) l3 s3 b3.
  Proof. intros [A1 A2] [B1 B2]. split; [intros f; rewrite <- Nat.add_assoc, A1, B1; reflexivity|lia]. Qed.
  Lemma QStep_Done l1 s1 b1 k1 l2 s2 b2 k2 bF : QStep l1 s1 b1 k1 l2 s2 b2 -> QDone l2 s2 b2 k2 bF -> QDone l1 s1 b1 (k1 + k2) bF.
  Proof. intros [A1 A2] [B1 B2]. split; [intros f; rewrite <- Nat.add_assoc, A1, B1; reflexivity|lia]. Qed.

  (* ---- the correspondence between the children of the open quote and the children of the plain document ---- *)
  Definition CorrK (o : Z) (buf0 : bytes) (bi0 : Z) (ks done : list block) (bq : block) : Prop :=
    bkind bq = BlockQuoteKind /\ isOpen bq = true /\ auxOf bq = skel /\
    (exists done', map er done' = map er done /\ Forall closedB done' /\ bkids bq = done' ++ map (MO2 D o) ks) /\
    QS2Reloc.ceL0 (upto buf0 bi0) (upto Q (epsB D (o + bi0))) (sgO D o) ks.

  Lemma HM_HMk ks : HM ks -> HMk ks.
  Proof. intros (pre & c & -> & Ho & Hh). unfold HMk. rewrite rev_app_distr. cbn. tauto. Qed.

  (* one line of both runs *)
  Lemma step_line o ls st stQ ks done bq : 0 <= o -> 0 <= ls -> o + ls < len D -> (o + ls = 0 \/ at_ D (o + ls - 1) = 10) ->
    ccF ks = true -> (st = stDescendTerminated -> HMk ks) -> CorrK o (from_ D o) ls ks done bq ->
    la (upto (from_ D o) (lineEnd (from_ D o) ls)) ls (docRoot ks) ->
    let bi := lineEnd (from_ D o) ls in
    let r := processLine st ks ls (upto (from_ D o) bi) in
    exists bq', processLine stQ [bq] (epsB D (o + ls)) (upto Q (lineEnd Q (epsB D (o + ls)))) = ([bq'], snd (fst r), snd r) /\
                CorrK o (from_ D o) bi (fst (fst r)) done bq' /\
                lineEnd Q (epsB D (o + ls)) = epsB D (o + bi) /\ epsB D (o + ls) < epsB D (o + bi) /\ ls < bi /\ LBA (o + bi) /\ o + bi <= len D.
  Proof.
    intros Ho Hls Hlt Hb Hcc Hst (K1 & K2 & K3 & (dn & E1 & E2 & E3) & Hce) Hla. cbv zeta.
    destruct (line_geom o ls Ho Hls Hlt Hb) as (pre & body & eol & post & L & G1 & G2 & G3 & G4 & G5).
    pose proof (len_nonneg body) as Hlb. pose proof (len_nonneg eol) as Hle.
    assert (Hpos : 0 < len body + len eol).
    { destruct L as (_ & _ & _ & _ & _ & Hne). destruct body; [destruct eol; [contradiction|rewrite len_cons; pose proof (len_nonneg eol); lia]|rewrite len_cons; pose proof (len_nonneg body); lia]. }
    rewrite G1 in Hla. rewrite G1, G2, G3.
    assert (Hce0 : QS2Reloc.ceL0 (upto (from_ D o) (ls + len body + len eol)) (upto Q (epsB D (o + ls) + 2 + len body + len eol)) (sgO D o) ks).
    { unfold QS2Reloc.ceL0 in *. revert Hce. apply Forall_impl. intros b.
      apply (ceB0_ext _ _ (sgO D o) (upto (from_ D o) (ls + len body + len eol)) (upto Q (epsB D (o + ls) + 2 + len body + len eol)) ls (epsB D (o + ls))).
      - symmetry. apply upto_upto. lia.
      - symmetry. apply upto_upto. lia. }
    assert (Hce' : QS2Reloc.ceL (upto (from_ D o) (ls + len body + len eol)) (upto Q (epsB D (o + ls) + 2 + len body + len eol)) (sgO D o)
                     (OPd (upto (from_ D o) (ls + len body + len eol)) (sgO D o)) ks).
    { apply (strengthenL _ _ _ ls); [apply Forall_upto, Forall_from, D_cr| |exact Hla|exact Hce0].
      rewrite len_upto' by (rewrite len_from by lia; lia). lia. }
    destruct (line_step2 D D_tab D_cr D_nul o ls (o + ls) pre body eol post st stQ ks bq (dn, skel) Ho Hls eq_refl L Hcc Hce' Hst K1 K2 K3 E3 E2)
      as (bq' & dn' & P1 & P2 & P3 & P4 & P5 & P6 & P7 & P8). cbn [fst snd] in *.
    exists bq'. split; [exact P1|]. split.
    - split; [exact P2|]. split; [exact P3|]. split; [exact P4|]. split; [exists dn'; split; [rewrite P5; exact E1|split; assumption]|].
      replace (epsB D (o + (ls + len body + len eol))) with (epsB D (o + ls) + 2 + len body + len eol) by (symmetry; exact G3). exact P8.
    - split; [reflexivity|]. split; [lia|]. split; [lia|]. split; assumption.
  Qed.

  (* ---- a blank line between root blocks ---- *)
  Lemma trim_spaces : forall body rest, Forall (fun c => c = 32) body -> trimLeftSpTab (body ++ rest) = trimLeftSpTab rest.
  Proof. induction body as [|c b IH]; intros rest H; [reflexivity|]. inversion H as [|? ? Hc Hb]; subst. cbn [app trimLeftSpTab]. change (isSpTab 32) with true. apply IH, Hb. Qed.

  Lemma step_blank o stQ done bq : 0 <= o -> o < len D -> (o = 0 \/ at_ D (o - 1) = 10) ->
    let e := lineEnd (from_ D o) 0 in
    isBlankLine (upto (from_ D o) e) = true -> CorrK o (from_ D o) 0 [] done bq ->
    exists bq' st', processLine stQ [bq] (epsB D o) (upto Q (lineEnd Q (epsB D o))) = ([bq'], st', 0) /\
                CorrK (o + e) (from_ D (o + e)) 0 [] done bq' /\
                lineEnd Q (epsB D o) = epsB D (o + e) /\ epsB D o < epsB D (o + e) /\ 0 < e /\ LBA (o + e) /\ o + e <= len D.
  Proof.
    intros Ho Hlt Hb. cbv zeta. intros Hbl HC.
    replace o with (o + 0) in Hlt, Hb by lia.
    destruct (line_geom o 0 Ho ltac:(lia) Hlt Hb) as (pre & body & eol & post & L & G1 & _).
    destruct (step_line o 0 stDescending stQ [] done bq Ho ltac:(lia) Hlt Hb eq_refl ltac:(discriminate) HC
                ltac:(apply docRoot_parts; split; [lia|]; split; [cbn [tchain]; split; [lia|apply NT_empty; lia]|exact I])) as (bq' & P1 & P2 & P3 & P4 & P5 & P6 & P7).
    cbv zeta in *. replace (o + 0) with o in * by lia. set (e := lineEnd (from_ D o) 0) in *.
    pose proof L as (ED & Ha & Hbn & He & Hp & Hne). pose proof (len_nonneg body) as Hlb. pose proof (len_nonneg eol) as Hle.
    assert (Eline : upto (from_ D o) e = body ++ eol).
    { rewrite upto_from_comm by lia. pose proof (lineAt_line D _ _ _ _ _ L) as X. replace (o + e) with (o + len body + len eol) by lia. exact X. }
    assert (Hsp : Forall (fun c => c = 32) body).
    { rewrite Eline in Hbl. unfold isBlankLine in Hbl. rewrite forallb_app in Hbl. apply andb_true_iff in Hbl. destruct Hbl as [Hbb _].
      rewrite forallb_forall in Hbb. apply Forall_forall. intros c Hc. specialize (Hbb c Hc).
      assert (HcD : In c D) by (rewrite ED; apply in_or_app; right; apply in_or_app; left; exact Hc).
      unfold noTab in D_tab. unfold noCR in D_cr. unfold noLF in Hbn. rewrite Forall_forall in D_tab, D_cr, Hbn.
      specialize (D_tab c HcD). specialize (D_cr c HcD). specialize (Hbn c Hc).
      unfold isSpaceTabOrLineEnding in Hbb. repeat (apply orb_true_iff in Hbb; destruct Hbb as [Hbb|Hbb]); apply Z.eqb_eq in Hbb; congruence. }
    set (r := processLine stDescending [] 0 (upto (from_ D o) e)) in *.
    assert (Hr : fst (fst r) = [] /\ snd r = 0).
    { apply processLine_blank_nokids.
      - change (from_ (upto (from_ D o) e) 0) with (upto (from_ D o) e). rewrite Eline. exact Hne.
      - exact Hbl.
      - change (from_ (upto (from_ D o) e) 0) with (upto (from_ D o) e). rewrite Eline, (trim_spaces body eol Hsp).
        destruct He as [->|[-> _]]; [right|left]; reflexivity. }
    destruct Hr as [Hr1 Hr2]. rewrite Hr1 in P2. rewrite Hr2 in P1.
    exists bq', (snd (fst r)). split; [exact P1|]. split; [|repeat split; assumption || lia].
    destruct P2 as (K1 & K2 & K3 & (dn & E1 & E2 & E3) & _). split; [exact K1|]. split; [exact K2|]. split; [exact K3|]. split; [exists dn; repeat split; assumption|constructor].
  Qed.

  (* ---- the end of input ---- *)
  Hypothesis D_ne : D <> [].
  Lemma lenQ_eq : len Q = epsB D (len D). Proof. apply len_quote_epsB, D_ne. Qed.
  Lemma upto_all {A} (l : list A) : upto l (len l) = l.
  Proof. unfold upto, len. rewrite Nat2Z.id. apply firstn_all. Qed.
  Lemma from_all {A} (l : list A) : from_ l (len l) = [].
  Proof. unfold from_, len. rewrite Nat2Z.id. apply skipn_all. Qed.
  Lemma lineEnd_len (l : bytes) : lineEnd l (len l) = len l.
  Proof. pose proof (len_nonneg l). destruct (lineEnd_spec l (len l) ltac:(lia)) as [A _]. lia. Qed.

  Lemma eofClose_M f o ks ls : 0 <= o -> 0 <= ls -> o + ls = len D -> (ks = [] \/ 0 < ls) ->
    la (upto (from_ D o) ls) ls (docRoot ks) ->
    QS2Reloc.ceL0 (upto (from_ D o) ls) (upto Q (epsB D (o + ls))) (sgO D o) ks ->
    eofClose f (upto Q (epsB D (o + ls))) (map (MO2 D o) ks) (eBO D o ls) = map (MO2 D o) (eofClose f (upto (from_ D o) ls) ks ls) /\
    QS2Reloc.ceL0 (upto (from_ D o) ls) (upto Q (epsB D (o + ls))) (sgO D o) (eofClose f (upto (from_ D o) ls) ks ls).
  Proof.
    intros Ho Hls Hend Hk Hla Hce0. unfold eofClose. rewrite <- map_rev. destruct (rev ks) as [|c r] eqn:Er; [split; [reflexivity|exact Hce0]|]. cbn [map].
    assert (Hpos : 0 < ls).
    { destruct Hk as [->|Hk]; [discriminate Er|exact Hk]. }
    set (sD := upto (from_ D o) ls) in *. set (sQ := upto Q (epsB D (o + ls))) in *.
    assert (Hce : QS2Reloc.ceL sD sQ (sgO D o) (OPd sD (sgO D o)) ks).
    { apply (strengthenL _ _ _ ls); [apply Forall_upto, Forall_from, D_cr| |exact Hla|exact Hce0].
      unfold sD. rewrite len_upto' by (rewrite len_from by lia; lia). lia. }
    assert (Hc : QS2Reloc.ceB sD sQ (sgO D o) (OPd sD (sgO D o)) c).
    { unfold QS2Reloc.ceL in Hce. rewrite Forall_forall in Hce. apply Hce. apply in_rev. rewrite Er. left. reflexivity. }
    destruct (QS2Reloc.closeBlock_M sD sQ (sgO D o) (eBO D o) (lpO D o) (eBO_neg D o) (fun e He => eBO_pos D o e Ho He)
                (OPd sD (sgO D o)) (OPd_ext sD (sgO D o)) (lpO_kind D o)
                (fun b e => HocpC_line D D_nul o ls Ho Hpos ltac:(lia) b e)
                f c ls Hls Hc) as [E1 E2].
    unfold MO2 at 1 2. rewrite E1. split.
    - rewrite (removelast_map (rB (sgO D o) (eBO D o) (lpO D o))), <- map_app. reflexivity.
    - unfold QS2Reloc.ceL0, QS2Reloc.ceL in *. apply Forall_app. split.
      + rewrite Forall_forall in *. intros x Hx. apply Hce0. apply removelast_In'. exact Hx.
      + revert E2. apply Forall_impl. intros x. apply QS2Reloc.ceB_weak.
  Qed.

  Lemma step_eof o ls st stQ ks done bq : 0 <= o -> 0 <= ls -> o + ls = len D -> (st = stDescendTerminated -> HMk ks) ->
    CorrK o (from_ D o) ls ks done bq -> (ks = [] \/ 0 < ls) -> la (upto (from_ D o) ls) ls (docRoot ks) ->
    let r := processLine st ks ls (upto (from_ D o) ls) in
    snd r = 0 /\
    exists bqF dn, processLine stQ [bq] (len Q) (upto Q (lineEnd Q (len Q))) = ([bqF], stDescending, 0) /\
      bkind bqF = BlockQuoteKind /\ bend bqF = len Q /\ auxOf (set_bend bqF (-1)) = skel /\
      map er dn = map er done /\ Forall closedB dn /\ bkids bqF = dn ++ map (MO2 D o) (fst (fst r)) /\
      QS2Reloc.ceL0 (upto (from_ D o) ls) Q (sgO D o) (fst (fst r)).
  Proof.
    intros Ho Hls Hend Hst (K1 & K2 & K3 & (dn & E1 & E2 & E3) & Hce) Hk0 Hla. cbv zeta.
    assert (Lb : len (from_ D o) = ls) by (rewrite len_from by lia; lia).
    assert (EsD : upto (from_ D o) ls = from_ D o) by (rewrite <- Lb; apply upto_all).
    assert (EQe : upto Q (epsB D (o + ls)) = Q) by (rewrite Hend, <- lenQ_eq; apply upto_all).
    pose proof (fun f => eofClose_M f o ks ls Ho Hls Hend Hk0 Hla Hce) as HeofM. rewrite EQe in HeofM.
    rewrite EsD in *.
    assert (Hl : from_ (from_ D o) ls = []) by (rewrite <- Lb; apply from_all).
    rewrite (processLine_eof st ks ls (from_ D o) Hl). cbn [fst snd]. split; [reflexivity|].
    assert (Hs4 : eofSt st ks <> stDescendTerminated).
    { unfold eofSt, descState. destruct (lastBlock (root0 ks)) as [c|] eqn:El.
      - destruct (isOpen c && hasMatch (bkind c)) eqn:Ec; [discriminate|]. intros E4. specialize (Hst E4). unfold HMk in Hst. unfold lastBlock in El. cbn [root0 bkids] in El.
        destruct (rev ks) as [|x r]; [discriminate|]. inversion El; subst x. destruct Hst as [A B]. rewrite A, B in Ec. discriminate.
      - intros E4. specialize (Hst E4). unfold HMk in Hst. unfold lastBlock in El. cbn [root0 bkids] in El. destruct (rev ks); [exact Hst|discriminate]. }
    rewrite (eofK_close st ks ls (from_ D o) Hs4).
    rewrite Hend, <- lenQ_eq, upto_all in Hce.
    rewrite lineEnd_len, upto_all.
    rewrite (processLine_quoted_eof (dn, skel) stQ bq (map (MO2 D o) ks) (len Q) Q (from_all Q) K1 K2 E3 E2). cbn [fst].
    assert (Eh : bheight (root0 (map (MO2 D o) ks)) = bheight (root0 ks)).
    { apply bheight_kids_eq. cbn [root0 bkids]. rewrite map_map. apply map_ext. intros x. apply bheight_rB. }
    rewrite Eh.
    assert (EeB : eBO D o ls = len Q) by (unfold eBO; destruct (Z.ltb_spec ls 0); [lia|]; rewrite Hend; symmetry; apply lenQ_eq).
    destruct (HeofM (bheight (root0 ks) - 1)%nat) as [C1 C2]. rewrite EeB in C1. rewrite C1.
    eexists. exists dn. split; [reflexivity|]. pose proof (len_nonneg Q) as HQ.
    destruct bq as [k s e bk ik a n c l lb]. cbn [bkind auxOf set_blast set_bkids set_bend bend bkids] in *.
    repeat split; try assumption. inversion K3; subst. reflexivity.
  Qed.

  (* ---- cutting a root block off ---- *)
  Definition Gt : bytes -> Prop := fun _ => True.
  Definition DSt (s : bpst) (o : Z) : Prop :=
    buf s = from_ D o /\ 0 <= o <= len D /\ boff s = o /\ Total.DI s /\ LBA (o + bi s) /\
    la (upto (buf s) (bi s)) (bi s) (docRoot (pending s)) /\ invDL (pending s) = true.

  Lemma lbd_of_LBA o x : 0 <= o -> 0 <= x <= len (from_ D o) -> o <= len D -> LBA (o + x) -> x = 0 \/ lbd (from_ D o) x.
  Proof.
    intros Ho Hx Hol H. rewrite len_from in Hx by lia. destruct (Z.eq_dec x 0) as [->|N]; [left; reflexivity|right].
    destruct H as [H|[[H1 H2]|H]]; [lia| |right; left; rewrite len_from by lia; lia].
    right. right. rewrite at_from by lia. replace (o + (x - 1)) with (o + x - 1) by lia. rewrite H2. reflexivity.
  Qed.

  (* what is known about a root block of the plain run when it is cut off *)
  Definition GoodR (r : rootB) : Prop :=
    0 <= rb_start r /\ exists sD sQ M, len sD <= len D - rb_start r /\ M <= len sD /\ QS2Reloc.ceB0 sD sQ (sgO D (rb_start r)) (rb_blk r) /\
                                      la sD M (rb_blk r) /\ invD (rb_blk r) = true /\ cc (rb_blk r) = true.

  Lemma cut_facts s o ks ns r s' sQ : buf s = from_ D o -> 0 <= o <= len D -> boff s = o -> SI s ks ns -> ccF ks = true -> GoodL 0 ks -> PIc (bi s) ks ->
    LBA (o + bi s) -> la (upto (buf s) (bi s)) (bi s) (docRoot ks) -> QS2Reloc.ceL0 (upto (buf s) (bi s)) sQ (sgO D o) ks -> invDL ks = true -> makeRoot ks s = Some (r, s') ->
    exists b rest n, ks = b :: rest /\ isOpen b = false /\ n = bend b /\ rb_start r = o /\ rb_blk r = b /\
      DSt s' (o + n) /\ bi s' = bi s - n /\ 0 <= n <= bi s /\ pending s' = map (shiftB (- n)) rest /\
      map (MO2 D o) rest = map (MO2 D (o + n)) (pending s') /\
      QS2Reloc.ceL0 (upto (buf s') (bi s')) sQ (sgO D (o + n)) (pending s') /\ buf s' = from_ (buf s) n /\ GoodR r.
  Proof.
    intros Eb Ho Eo HS Hcc HG HP HL Hla Hce Hinv Hm.
    pose proof (DI_makeRoot s ks ns r s' HS Hcc HG HP Hm) as [HDI _].
    pose proof HS as (Hbi & Hbnd & _).
    assert (Hlbd : lbd (buf s) (bi s)).
    { rewrite Eb in *. destruct (lbd_of_LBA o (bi s) ltac:(lia) Hbi ltac:(lia) HL) as [E|E]; [left; exact E|exact E]. }
    assert (Hnn : noNul (buf s)) by (rewrite Eb; apply noNul_from).
    destruct (SL_makeRoot Gt (fun _ _ _ => I) (fun _ _ _ => I) s ks r s' Hbi I Hcc Hla (bnd0_noNul _ _ Hnn Hbi) (PadF_noNul _ Hnn) Hlbd Hm) as [_ HSL].
    destruct HSL as (_ & _ & _ & Hla' & _).
    unfold makeRoot in Hm. destruct ks as [|b rest]; [discriminate|]. destruct (isOpen b) eqn:Eop; [discriminate|]. inversion Hm; subst r s'. clear Hm.
    cbn [rb_start rb_blk buf bi boff pending] in *.
    assert (Hn0 : 0 <= bend b) by (unfold isOpen in Eop; apply Z.ltb_ge in Eop; exact Eop).
    assert (Hnb : bend b <= bi s).
    { unfold bndL in Hbnd. cbn [forallb] in Hbnd. apply andb_true_iff in Hbnd. destruct Hbnd as [Hb1 _]. destruct (bnd_end _ _ _ Hb1); lia. }
    set (n := bend b) in *.
    assert (Hlenb : len (buf s) = len D - o) by (rewrite Eb; apply len_from; lia).
    exists b, rest, n. split; [reflexivity|]. split; [exact Eop|]. split; [reflexivity|]. split; [exact Eo|]. split; [reflexivity|].
    apply docRoot_parts in Hla. destruct Hla as (_ & Hch & Hal). cbn [tchain allQ] in Hch, Hal. destruct Hch as (_ & _ & Hch). destruct Hal as [Hlab Halr].
    destruct (Z.ltb_spec (bend b) 0); [lia|]. destruct Hch as [_ Hch].
    unfold invDL in Hinv. cbn [forallb] in Hinv. apply andb_true_iff in Hinv. destruct Hinv as [Hinvb Hinvr].
    assert (Hccb : cc b = true /\ forall x, In x rest -> cc x = true).
    { unfold ccF, ccL in Hcc. cbn [forallb] in Hcc. apply andb_true_iff in Hcc. destruct Hcc as [_ Hcc]. apply andb_true_iff in Hcc. destruct Hcc as [Hcb Hcc]. rewrite forallb_forall in Hcc. split; [exact Hcb|exact Hcc]. }
    destruct Hccb as [Hccb Hccr].
    assert (Hge : Forall (geB2 n) rest).
    { apply Forall_forall. intros x Hx.
      apply (la_geB2 (upto (buf s) (bi s)) sQ (sgO D o) (upto (buf s) (bi s)) (bi s) x (Hccr x Hx)).
      - apply allQ_Forall in Halr. rewrite Forall_forall in Halr. apply Halr, Hx.
      - unfold QS2Reloc.ceL0 in Hce. rewrite Forall_forall in Hce. apply Hce. right. exact Hx.
      - rewrite forallb_forall in Hinvr. apply Hinvr, Hx.
      - split; [exact Hn0|apply (tchain_starts _ _ _ _ _ x Hch Hx)]. }
    split.
    { unfold DSt. cbn [buf bi boff pending]. split; [rewrite Eb; apply from_from; lia|]. split; [lia|]. split.
      - rewrite Eo. rewrite unpadded_noNul by (apply noNul_upto, Hnn). rewrite len_upto' by lia. reflexivity.
      - split; [exact HDI|]. split; [replace (o + n + (bi s - n)) with (o + bi s) by lia; exact HL|]. split; [exact Hla'|].
        unfold invDL. rewrite forallb_forall in *. intros y Hy. apply in_map_iff in Hy. destruct Hy as (x & <- & Hx). apply invD_shift; [exact Hn0|apply Hinvr, Hx]. }
    split; [reflexivity|]. split; [lia|]. split; [reflexivity|]. split.
    - rewrite map_map. apply map_ext_in. intros x Hx. rewrite Forall_forall in Hge. symmetry. apply MO2_cut; [lia|lia|apply Hge, Hx].
    - split; [|split; [reflexivity|unfold GoodR; cbn [rb_start rb_blk]; rewrite Eo; split; [lia|]; exists (upto (buf s) (bi s)), sQ, (bi s); split; [rewrite len_upto' by lia; lia|split; [rewrite len_upto' by lia; lia|split; [unfold QS2Reloc.ceL0 in Hce; inversion Hce; assumption|split; [exact Hlab|split; [exact Hinvb|exact Hccb]]]]]]].
      unfold QS2Reloc.ceL0 in *. apply Forall_forall. intros y Hy. apply in_map_iff in Hy. destruct Hy as (x & <- & Hx).
      rewrite <- (from_upto (buf s) (bi s) n) by lia. apply ceB0_cut; [rewrite len_upto' by lia; lia|rewrite Forall_forall in Hge; apply Hge, Hx|].
      rewrite Forall_forall in Hce. apply Hce. right. exact Hx.
  Qed.

  (* ---- the line loop ---- *)
  Definition FinK (o' : Z) (s' : bpst) (done : list block) (bqF : block) : Prop :=
    bi s' = len (buf s') /\ bkind bqF = BlockQuoteKind /\ bend bqF = len Q /\ auxOf (set_bend bqF (-1)) = skel /\
    (exists dn, map er dn = map er done /\ Forall closedB dn /\ bkids bqF = dn ++ map (MO2 D o') (pending s')) /\
    QS2Reloc.ceL0 (upto (buf s') (bi s')) Q (sgO D o') (pending s') /\ Forall closedB (pending s').
  Definition OutB (o lsq stQ : Z) (bq : block) (done : list block) (r : rootB) (s' : bpst) : Prop :=
    rb_start r = o /\ GoodR r /\ exists o', DSt s' o' /\
      ((exists k stQ' bq', QStep lsq stQ bq k (epsB D (o' + bi s')) stQ' bq' /\ CorrK o' (buf s') (bi s') (pending s') (done ++ [MO2 D o (rb_blk r)]) bq')
       \/ (exists k bqF, QDone lsq stQ bq k bqF /\ FinK o' s' (done ++ [MO2 D o (rb_blk r)]) bqF)).

  Lemma closedB_MO o b : isOpen b = false -> 0 <= o -> closedB (MO2 D o b).
  Proof. intros H Ho. unfold closedB, MO2. rewrite (isOpen_rB (sgO D o) (eBO D o) (lpO D o) (eBO_neg D o) (fun e He => eBO_pos D o e Ho He)). exact H. Qed.
  Lemma er_app_snoc (dn done : list block) x : map er dn = map er done -> map er (dn ++ [x]) = map er (done ++ [x]).
  Proof. intros E. rewrite !map_app, E. reflexivity. Qed.

  Lemma GoodL_all_closed : forall ks lo, GoodL lo ks -> lastClosed ks -> Forall closedB ks.
  Proof.
    induction ks as [|c rest IH]; intros lo HG Hl; [constructor|]. cbn [GoodL] in HG. destruct (isOpen c) eqn:Eo.
    - destruct HG as [-> _]. exfalso. destruct Hl as (pre & c2 & E & Hc2). destruct pre as [|x [|y pre]]; inversion E; subst; congruence.
    - destruct HG as [_ HG]. constructor; [exact Eo|]. destruct rest as [|c' r']; [constructor|]. apply (IH (bend c) HG).
      destruct Hl as (pre & c2 & E & Hc2). destruct pre as [|x pre]; [inversion E|]. inversion E; subst. exists pre, c2. split; [assumption|exact Hc2].
  Qed.
  Lemma closed_rest b rest n ks : GoodL 0 ks -> lastClosed ks -> ks = b :: rest -> isOpen b = false -> n = bend b -> Forall closedB (map (shiftB (- n)) rest).
  Proof.
    intros HG Hl -> Eop ->. pose proof (GoodL_all_closed _ _ HG Hl) as Hall. inversion Hall as [|? ? _ Hr]; subst.
    cbn [GoodL] in HG. rewrite Eop in HG. destruct HG as [Hn HG]. pose proof (GoodL_closed_gt _ _ HG) as Hgt.
    apply Forall_forall. intros y Hy. apply in_map_iff in Hy. destruct Hy as (x & <- & Hx). rewrite Forall_forall in Hr, Hgt.
    unfold closedB. rewrite isOpen_shiftB; [apply Hr, Hx|lia|apply Hgt, Hx].
  Qed.

  Lemma lineLoop_sim : forall fuel st ks ls s ns o stQ bq done,
    0 <= ls <= len (buf s) -> bi s = lineEnd (buf s) ls -> bndL ls ns ks = true -> (ns = false -> ls = len (buf s)) ->
    ccF ks = true -> GoodL 0 ks -> (ks = [] \/ (0 < ls /\ exists c, ks = [c])) ->
    (st = stDescendTerminated -> HM ks) ->
    (ks = [] -> isBlankLine (from_ (upto (buf s) (bi s)) ls) = false /\ (st = stOpening \/ st = stOpenMatched)) ->
    len (buf s) - ls + 1 <= Z.of_nat fuel ->
    la (upto (buf s) (bi s)) ls (docRoot ks) ->
    buf s = from_ D o -> 0 <= o <= len D -> boff s = o -> LBA (o + ls) ->
    CorrK o (buf s) ls ks done bq -> invDL ks = true ->
    match lineLoop fuel st ks ls s with
    | NBBlock r s' => OutB o (epsB D (o + ls)) stQ bq done r s'
    | _ => False
    end.
  Proof.
    induction fuel as [|f IH]; intros st ks ls s ns o stQ bq done Hls Hbi Hc Hn Hcc HG HK Hst Hemp Hfuel Hla Eb Ho Eo HL HC Hinv.
    { exfalso. cbn in Hfuel. lia. }
    cbn [lineLoop].
    destruct (lineEnd_spec (buf s) ls Hls) as [A B]. rewrite <- Hbi in A, B.
    set (ln := from_ (upto (buf s) (bi s)) ls).
    destruct (line_of (buf s) ls (bi s) ltac:(lia) ltac:(lia)) as [Ll _]. fold ln in Ll.
    set (ns' := if ns then hasByteSuffixEOL ln else false).
    assert (Hc' : bndL (bi s) ns' ks = true).
    { unfold ns'. destruct ns.
      - pose proof (bndL_mono ls (bi s) ks ltac:(lia) Hc) as Hm. destruct (hasByteSuffixEOL ln); [exact Hm|apply bndL_weaken, Hm].
      - rewrite (Hn eq_refl) in *. replace (bi s) with (len (buf s)) by lia. exact Hc. }
    assert (Hn' : ns' = false -> bi s = len (buf s)).
    { unfold ns'. destruct ns; [|intros _; rewrite (Hn eq_refl) in *; lia].
      intros Ee. destruct (Z.lt_ge_cases (bi s) (len (buf s))) as [Lt|Ge]; [|lia].
      exfalso. rewrite Hbi in Lt. pose proof (line_hasEOL (buf s) ls Hls Lt) as Hh. rewrite <- Hbi in Hh. fold ln in Hh. congruence. }
    set (src := upto (buf s) (bi s)) in *.
    assert (Hlen : len src = bi s) by (apply len_upto; lia).
    assert (Hnn : noNul (buf s)) by (rewrite Eb; apply noNul_from).
    pose proof (bnd_processLine (bi s) ns' st ks ls src ltac:(lia) ltac:(lia) ltac:(fold ln; lia)
                  ltac:(lia) ltac:(unfold ns'; fold ln; destruct ns; [tauto|discriminate]) Hc') as H1.
    pose proof (cc_processLine st ks ls src Hcc) as H2.
    pose proof (processLine_panic_range st ks ls src) as H3.
    pose proof (processLine_no_panic st ks ls src ltac:(lia) Hcc) as H3'.
    pose proof (processLine_good st ks ls src ltac:(lia) HG (UB_of_bnd ls ns ks ltac:(lia) Hc) Hcc HK Hst Hemp) as H4. cbv zeta in H4.
    pose proof (la_processLine st ks ls src ltac:(lia) (OcpLoopSpec_all src)
                  ltac:(unfold src; apply bnd0_upto; [lia|lia|apply bnd0_noNul; [exact Hnn|lia]|intros El; lia])
                  ltac:(unfold src; rewrite Hbi; apply eolEnd_line, Hls) Hcc Hla
                  ltac:(intros E4; destruct (Hst E4) as (pre & c & -> & Hoc & Hhc); exists c; split; [unfold docRoot; cbn [getAt]; unfold lastBlock; cbn [bkids]; rewrite rev_app_distr; reflexivity|split; [unfold isOpen in Hoc; apply Z.ltb_lt, Hoc|exact Hhc]])) as HP.
    cbv zeta in HP. assert (Hll : ls + len (from_ src ls) = bi s) by (fold ln; lia). rewrite Hll in HP.
    assert (Hst' : st = stDescendTerminated -> HMk ks) by (intros E4; apply HM_HMk, Hst, E4).
    pose proof (D_line src (bi s) ns' st ks ls ltac:(lia) ltac:(lia) Hll ltac:(lia)
                  ltac:(unfold ns'; fold ln; destruct ns; [tauto|discriminate]) Hc' Hla Hinv) as H6.
    destruct (Z.eq_dec ls (len (buf s))) as [Eeof|Neof].
    - (* the end of input *)
      assert (Ebi : bi s = ls) by lia.
      assert (Eend : o + ls = len D) by (rewrite Eeof, Eb, len_from by lia; lia).
      unfold src in *. rewrite Ebi in *. rewrite Eb in HC.
      assert (Hk0 : ks = [] \/ 0 < ls) by (destruct HK as [HK|[HK _]]; [left; exact HK|right; exact HK]).
      rewrite Eb in Hla.
      destruct (step_eof o ls st stQ ks done bq ltac:(lia) ltac:(lia) Eend Hst' HC Hk0 Hla) as (Pn & bqF & dn & PQ & F1 & F2 & F3 & F4 & F5 & F6 & F7). cbv zeta in *.
      rewrite <- Eb in *.
      destruct (processLine st ks ls (upto (buf s) ls)) as [[ks' st'] pn]. cbn [fst snd] in *. subst pn. change (negb (0 =? 0)) with false. cbv iota.
      destruct H4 as ((G1 & G1') & G2 & G3 & G4). destruct HP as [HP1 HP2].
      assert (HS : SI s ks' ns') by (unfold SI; rewrite Ebi; repeat split; try lia; assumption).
      assert (Hlc : lastClosed ks').
      { apply G3. fold (upto (buf s) ls). apply len0_nil. rewrite len_from by (rewrite len_upto by lia; lia). rewrite len_upto by lia. lia. }
      assert (HPI : PIc (bi s) ks').
      { intros pre c E Hoc. exfalso. destruct Hlc as (pre2 & c2 & E2 & Hc2). rewrite E in E2. apply app_inj_tail in E2. destruct E2 as [_ <-]. congruence. }
      destruct (makeRoot ks' s) as [[r s']|] eqn:Em.
      + rewrite <- Ebi in HP1 at 2. rewrite <- Ebi in HP1 at 1.
        destruct (cut_facts s o ks' ns' r s' Q Eb Ho Eo HS H2 G1 HPI ltac:(rewrite Ebi; exact HL) ltac:(rewrite Ebi in *; exact HP1) ltac:(rewrite Ebi; rewrite Eb; rewrite <- Eb; exact F7) H6 Em)
          as (b & rest & n & Ek & Eop & En & R1 & R2 & R3 & R4 & R5 & R6 & R7 & R8 & R9 & RG).
        split; [exact R1|]. split; [exact RG|]. exists (o + n). split; [exact R3|]. right.
        assert (ElQ : epsB D (o + ls) = len Q) by (rewrite Eend; symmetry; apply lenQ_eq).
        exists O, bqF. split.
        * split; [|rewrite ElQ; lia]. intros f0. rewrite ElQ. cbn [Nat.add]. apply (QL_fin Q f0 stQ bq (len Q) bqF stDescending PQ).
          unfold isOpen. rewrite F2. apply Z.ltb_ge. apply len_nonneg.
        * unfold FinK.
          split; [rewrite R4, R9, len_from by lia; lia|].
          split; [exact F1|]. split; [exact F2|]. split; [exact F3|]. split; [|split; [exact R8|]].
          -- exists (dn ++ [MO2 D o b]). rewrite R2. split; [apply er_app_snoc, F4|]. split.
             ++ apply Forall_app. split; [exact F5|constructor; [apply closedB_MO; [exact Eop|lia]|constructor]].
             ++ rewrite F6, Ek. cbn [map]. rewrite R7. rewrite <- app_assoc. reflexivity.
          -- rewrite R6. apply (closed_rest b rest n ks' G1 Hlc Ek Eop En).
      + exfalso. unfold makeRoot in Em. destruct ks' as [|c rest]; [congruence|]. destruct (isOpen c) eqn:Eoc; [|discriminate].
        pose proof (GoodL_first_open c rest G1 Eoc) as Er. subst rest. exact (lastClosed_single_open c Hlc Eoc).
    - (* a line of the document *)
      assert (Lt : ls < bi s) by (rewrite Hbi; apply lineEnd_progress; lia).
      assert (Hlt : o + ls < len D) by (rewrite Eb, len_from in Hls by lia; rewrite Eb, len_from in Neof by lia; lia).
      assert (Hbd : o + ls = 0 \/ at_ D (o + ls - 1) = 10) by (destruct HL as [E0|[[_ E1]|E2]]; [left; exact E0|right; exact E1|lia]).
      rewrite Eb in HC.
      destruct (step_line o ls st stQ ks done bq ltac:(lia) ltac:(lia) Hlt Hbd Hcc Hst' HC ltac:(rewrite <- Eb, <- Hbi; exact Hla)) as (bq' & PQ & C2 & Q1 & Q2 & Q3 & Q4 & Q5). cbv zeta in *.
      rewrite <- Eb in *. rewrite <- Hbi in *. fold src in PQ, C2.
      destruct (processLine st ks ls src) as [[ks' st'] pn]. cbn [fst snd] in *.
      assert (Epn : pn = 0).
      { destruct (Z.eq_dec pn 0) as [E0|N0]; [exact E0|]. exfalso. apply (H3' pn); [lia|reflexivity]. }
      subst pn. change (negb (0 =? 0)) with false. cbv iota.
      destruct H4 as ((G1 & G1') & G2 & G3 & G4). destruct HP as [HP1 HP2].
      assert (HS : SI s ks' ns') by (repeat split; try lia; assumption).
      assert (HPI : PIc (bi s) ks').
      { intros pre c E Hoc. split; [lia|]. specialize (G1' pre c E). revert G1'. apply Forall_impl. intros x Hx. lia. }
      assert (K2 : isOpen bq' = true) by apply C2.
      assert (QS1 : QStep (epsB D (o + ls)) stQ bq 1 (epsB D (o + bi s)) st' bq').
      { split; [|lia]. intros f0. change (1 + f0)%nat with (S f0). rewrite (QL_step Q f0 stQ bq (epsB D (o + ls)) bq' st' PQ K2), Q1. reflexivity. }
      destruct (makeRoot ks' s) as [[r s']|] eqn:Em.
      + destruct C2 as (K1 & _ & K3 & (dn & E1 & E2 & E3) & Hce).
        destruct (cut_facts s o ks' ns' r s' (upto Q (epsB D (o + bi s))) Eb Ho Eo HS H2 G1 HPI Q4 HP1 Hce H6 Em)
          as (b & rest & n & Ek & Eop & En & R1 & R2 & R3 & R4 & R5 & R6 & R7 & R8 & R9 & RG).
        split; [exact R1|]. split; [exact RG|]. exists (o + n). split; [exact R3|]. left.
        assert (Eo' : o + n + bi s' = o + bi s) by lia.
        exists 1%nat, st', bq'. rewrite Eo'. split; [exact QS1|].
        unfold CorrK. rewrite Eo'. split; [exact K1|]. split; [exact K2|]. split; [exact K3|]. split; [|exact R8].
        exists (dn ++ [MO2 D o b]). rewrite R2. split; [apply er_app_snoc, E1|]. split.
        * apply Forall_app. split; [exact E2|constructor; [apply closedB_MO; [exact Eop|lia]|constructor]].
        * rewrite E3, Ek. cbn [map]. rewrite R7, R6. rewrite <- app_assoc. reflexivity.
      + (* no root yet: one open child, go on *)
        unfold makeRoot in Em. destruct ks' as [|c rest]; [congruence|]. destruct (isOpen c) eqn:Eoc; [|discriminate].
        pose proof (GoodL_first_open c rest G1 Eoc) as Er. subst rest.
        assert (Hls' : 0 <= bi s <= len (buf s)) by lia. destruct (lineEnd_spec (buf s) (bi s) Hls') as [A' _].
        assert (Hlbi : lbd (buf s) (bi s)).
        { destruct (Z.eq_dec (bi s) (len (buf s))) as [E|N]; [right; left; exact E|]. destruct (B ltac:(lia)) as [B1 B2]. right; right. exact B2. }
        specialize (IH st' [c] (bi s) {| buf := buf s; bi := lineEnd (buf s) (bi s); boff := boff s; bline := bline s; pending := pending s |} ns' o st' bq' done).
        cbn [buf bi boff] in IH.
        specialize (IH Hls' eq_refl H1 Hn' H2 G1 ltac:(right; split; [lia|exists c; reflexivity])
                      ltac:(intros E; destruct (G4 E) as [Hl|Hh]; [exfalso; exact (lastClosed_single_open c Hl Eoc)|exact Hh])
                      ltac:(discriminate) ltac:(lia)).
        assert (Hla2 : la (upto (buf s) (lineEnd (buf s) (bi s))) (bi s) (docRoot [c])).
        { apply (la_agree src); [apply agree_upto; lia| | |exact HP1]; [intros e0 He0 Hbe0; unfold src in Hbe0; apply (bnd0_grow (buf s) (bi s)); try lia; [apply bnd0_noNul; [exact Hnn|lia]|assumption]|].
          apply growOK_upto; [lia|lia|exact Hlbi|]. intros El. lia. }
        specialize (IH Hla2 Eb Ho Eo Q4 C2 H6).
        destruct (lineLoop f st' [c] (bi s) _) as [r s'| | |]; try exact IH.
        destruct IH as (R1 & RG & o' & R3 & [(k & stQ' & bqn & S1 & S2)|(k & bqF & S1 & S2)]).
        * split; [exact R1|]. split; [exact RG|]. exists o'. split; [exact R3|]. left. exists (1 + k)%nat, stQ', bqn. split; [apply (QStep_trans _ _ _ _ _ _ _ _ _ _ _ QS1 S1)|exact S2].
        * split; [exact R1|]. split; [exact RG|]. exists o'. split; [exact R3|]. right. exists (1 + k)%nat, bqF. split; [apply (QStep_Done _ _ _ _ _ _ _ _ _ QS1 S1)|exact S2].
  Qed.

  (* ---- skipping blank lines; the next block ---- *)
  Definition OutR (lsq stQ : Z) (bq : block) (done : list block) (r : rootB) (s' : bpst) : Prop :=
    GoodR r /\ exists o', DSt s' o' /\
      ((exists k stQ' bq', QStep lsq stQ bq k (epsB D (o' + bi s')) stQ' bq' /\ CorrK o' (buf s') (bi s') (pending s') (done ++ [MO2 D (rb_start r) (rb_blk r)]) bq')
       \/ (exists k bqF, QDone lsq stQ bq k bqF /\ FinK o' s' (done ++ [MO2 D (rb_start r) (rb_blk r)]) bqF)).
  Lemma OutB_R o lsq stQ bq done r s' : OutB o lsq stQ bq done r s' -> OutR lsq stQ bq done r s'.
  Proof. intros (E & G & o' & A & B). split; [exact G|]. exists o'. rewrite E. split; [exact A|exact B]. Qed.
  (* the quoted run ends: the final quote block *)
  Definition FinQ (lsq stQ : Z) (bq : block) (done : list block) : Prop :=
    exists k bqF dn, QDone lsq stQ bq k bqF /\ bkind bqF = BlockQuoteKind /\ bend bqF = len Q /\ auxOf (set_bend bqF (-1)) = skel /\
                    map er dn = map er done /\ bkids bqF = dn.

  Lemma eof_nokids o stQ done bq : 0 <= o -> o = len D -> CorrK o (from_ D o) 0 [] done bq -> FinQ (epsB D o) stQ bq done.
  Proof.
    intros Ho Eo HC. destruct (step_eof o 0 stDescending stQ [] done bq Ho ltac:(lia) ltac:(lia) ltac:(discriminate) HC (or_introl eq_refl)
                ltac:(apply docRoot_parts; split; [lia|]; split; [cbn [tchain]; split; [lia|apply NT_empty; lia]|exact I])) as (_ & bqF & dn & PQ & F1 & F2 & F3 & F4 & F5 & F6 & _).
    cbv zeta in F6.
    assert (Er : fst (fst (processLine stDescending [] 0 (upto (from_ D o) 0))) = []).
    { rewrite (processLine_eof stDescending [] 0 (upto (from_ D o) 0)) by reflexivity. cbn [fst]. rewrite eofK_close by (cbn; discriminate). reflexivity. }
    rewrite Er in F6. cbn [map] in F6. rewrite app_nil_r in F6.
    assert (ElQ : epsB D o = len Q) by (rewrite Eo; symmetry; apply lenQ_eq).
    exists O, bqF, dn. split; [|repeat split; assumption].
    split; [|rewrite ElQ; lia]. intros f0. rewrite ElQ. cbn [Nat.add]. apply (QL_fin Q f0 stQ bq (len Q) bqF stDescending PQ).
    unfold isOpen. rewrite F2. apply Z.ltb_ge. apply len_nonneg.
  Qed.

  Lemma CorrK_nil o o' b0 bi0 b1 bi1 done bq : epsB D (o + bi0) = epsB D (o' + bi1) -> CorrK o b0 bi0 [] done bq -> CorrK o' b1 bi1 [] done bq.
  Proof. intros _ (K1 & K2 & K3 & (dn & E1 & E2 & E3) & _). split; [exact K1|]. split; [exact K2|]. split; [exact K3|]. split; [exists dn; repeat split; assumption|constructor]. Qed.

  Lemma skipLoop_sim : forall fuel s o stQ bq done, bi s = 0 -> pending s = [] -> len (buf s) + 2 <= Z.of_nat fuel ->
    buf s = from_ D o -> 0 <= o <= len D -> boff s = o -> LBA o -> CorrK o (buf s) 0 [] done bq ->
    match skipLoop fuel s with
    | NBBlock r s' => OutR (epsB D o) stQ bq done r s'
    | NBEof _ => FinQ (epsB D o) stQ bq done
    | _ => False
    end.
  Proof.
    induction fuel as [|f IH]; intros s o stQ bq done Hb Hp Hfuel Eb Ho Eo HL HC.
    { exfalso. pose proof (len_nonneg (buf s)). cbn in Hfuel. lia. }
    cbn [skipLoop]. cbv zeta. rewrite Hb.
    pose proof (len_nonneg (buf s)) as Hl0.
    destruct (lineEnd_spec (buf s) 0 ltac:(lia)) as [A _].
    assert (Hlenb : len (buf s) = len D - o) by (rewrite Eb; apply len_from; lia).
    destruct (Z.ltb_spec 0 (lineEnd (buf s) 0)) as [L|L]; cbn [negb].
    - assert (Hlt : o < len D) by lia.
      assert (Hbd : o = 0 \/ at_ D (o - 1) = 10) by (destruct HL as [E0|[[_ E1]|E2]]; [left; exact E0|right; exact E1|lia]).
      destruct (isBlankLine (upto (buf s) (lineEnd (buf s) 0))) eqn:Ebl.
      + rewrite Eb in Ebl, HC.
        destruct (step_blank o stQ done bq ltac:(lia) Hlt Hbd Ebl HC) as (bq' & st' & PQ & C2 & Q1 & Q2 & Q3 & Q4 & Q5). cbv zeta in *. rewrite <- Eb in *.
        set (e := lineEnd (buf s) 0) in *.
        set (s1 := {| buf := from_ (buf s) e; bi := 0; boff := boff s + unpadded (upto (buf s) e); bline := bline s + 1; pending := pending s |}).
        assert (Hnn : noNul (buf s)) by (rewrite Eb; apply noNul_from).
        assert (K2 : isOpen bq' = true) by apply C2.
        assert (QS1 : QStep (epsB D o) stQ bq 1 (epsB D (o + e)) st' bq').
        { split; [|lia]. intros f0. change (1 + f0)%nat with (S f0). rewrite (QL_step Q f0 stQ bq (epsB D o) bq' st' PQ K2), Q1. reflexivity. }
        specialize (IH s1 (o + e) st' bq' done eq_refl Hp).
        assert (Hlen1 : len (buf s1) = len (buf s) - e) by (cbn [buf s1]; apply len_from; lia).
        specialize (IH ltac:(rewrite Hlen1; lia) ltac:(cbn [buf s1]; rewrite Eb; apply from_from; lia) ltac:(lia)
                      ltac:(cbn [boff s1]; rewrite Eo, unpadded_noNul by (apply noNul_upto, Hnn); rewrite len_upto' by lia; reflexivity) Q4).
        specialize (IH ltac:(cbn [buf s1]; rewrite Eb, from_from by lia; exact C2)).
        destruct (skipLoop f s1) as [r s'|s'| |]; try exact IH.
        * destruct IH as (RG & o' & R3 & [(k & stQ' & bqn & S1 & S2)|(k & bqF & S1 & S2)]).
          -- split; [exact RG|]. exists o'. split; [exact R3|]. left. exists (1 + k)%nat, stQ', bqn. split; [apply (QStep_trans _ _ _ _ _ _ _ _ _ _ _ QS1 S1)|exact S2].
          -- split; [exact RG|]. exists o'. split; [exact R3|]. right. exists (1 + k)%nat, bqF. split; [apply (QStep_Done _ _ _ _ _ _ _ _ _ QS1 S1)|exact S2].
        * destruct IH as (k & bqF & dn & S1 & S2). exists (1 + k)%nat, bqF, dn. split; [apply (QStep_Done _ _ _ _ _ _ _ _ _ QS1 S1)|exact S2].
      + pose proof (lineLoop_sim f 0 [] 0 {| buf := buf s; bi := lineEnd (buf s) 0; boff := boff s; bline := bline s; pending := pending s |} true o stQ bq done) as HLs.
        cbn [buf bi boff] in HLs. specialize (HLs ltac:(lia) eq_refl eq_refl ltac:(discriminate) eq_refl I (or_introl eq_refl) ltac:(discriminate)).
        specialize (HLs ltac:(intros _; split; [exact Ebl|left; reflexivity]) ltac:(lia)).
        specialize (HLs ltac:(apply docRoot_parts; split; [lia|]; split; [cbn [tchain]; split; [lia|apply NT_empty; lia]|exact I]) Eb Ho Eo ltac:(replace (o + 0) with o by lia; exact HL) HC eq_refl).
        replace (o + 0) with o in HLs by lia.
        destruct (lineLoop f 0 [] 0 _) as [r s'| | |]; try (exfalso; exact HLs). apply (OutB_R _ _ _ _ _ _ _ HLs).
    - (* the buffer is exhausted *)
      assert (Eo' : o = len D).
      { destruct (Z.lt_ge_cases 0 (len (buf s))) as [Lp|Lp]; [pose proof (lineEnd_progress (buf s) 0 ltac:(lia)); lia|lia]. }
      rewrite Eb in HC. apply (eof_nokids o stQ done bq ltac:(lia) Eo' HC).
  Qed.

  Lemma nextBlock_sim s o stQ bq done : DSt s o -> CorrK o (buf s) (bi s) (pending s) done bq ->
    match nextBlock (3 + length (buf s))%nat s with
    | NBBlock r s' => OutR (epsB D (o + bi s)) stQ bq done r s'
    | NBEof _ => FinQ (epsB D (o + bi s)) stQ bq done
    | _ => False
    end.
  Proof.
    intros (Eb & Ho & Eo & HDI & HL & Hla & Hinv) HC. pose proof HDI as ((ns & HS) & Hcc & HG & HP). unfold nextBlock.
    destruct (makeRoot (pending s) s) as [[r s']|] eqn:Em.
    - destruct HC as (K1 & K2 & K3 & (dn & E1 & E2 & E3) & Hce).
      destruct (cut_facts s o (pending s) ns r s' (upto Q (epsB D (o + bi s))) Eb Ho Eo HS Hcc HG HP HL Hla Hce Hinv Em)
        as (b & rest & n & Ek & Eop & En & R1 & R2 & R3 & R4 & R5 & R6 & R7 & R8 & R9 & RG).
      split; [exact RG|]. exists (o + n). split; [exact R3|]. left. assert (Eo' : o + n + bi s' = o + bi s) by lia.
      exists O, stQ, bq. rewrite Eo'. split; [apply QStep_refl|].
      unfold CorrK. rewrite Eo'. split; [exact K1|]. split; [exact K2|]. split; [exact K3|]. split; [|exact R8].
      exists (dn ++ [MO2 D o b]). rewrite R1, R2. split; [apply er_app_snoc, E1|]. split.
      + apply Forall_app. split; [exact E2|constructor; [apply closedB_MO; [exact Eop|lia]|constructor]].
      + rewrite E3, Ek. cbn [map]. rewrite R7, R6. rewrite <- app_assoc. reflexivity.
    - destruct HS as (Hb & Hc & Hn). pose proof (len_nonneg (buf s)) as Hl0.
      assert (Hnn : noNul (buf s)) by (rewrite Eb; apply noNul_from).
      assert (Hlenb : len (buf s) = len D - o) by (rewrite Eb; apply len_from; lia).
      destruct (pending s) as [|b0 rest] eqn:Ep.
      + set (s1 := {| buf := from_ (buf s) (bi s); bi := 0; boff := boff s + unpadded (upto (buf s) (bi s)); bline := bline s + lineCount (upto (buf s) (bi s)); pending := [] |}).
        assert (Hlen : len (buf s1) = len (buf s) - bi s) by (cbn [buf s1]; apply len_from; lia).
        pose proof (skipLoop_sim (3 + length (buf s))%nat s1 (o + bi s) stQ bq done eq_refl eq_refl ltac:(rewrite Hlen; unfold len; lia)) as HSk.
        specialize (HSk ltac:(cbn [buf s1]; rewrite Eb; apply from_from; lia) ltac:(lia)
                       ltac:(cbn [boff s1]; rewrite Eo, unpadded_noNul by (apply noNul_upto, Hnn); rewrite len_upto' by lia; reflexivity) HL).
        specialize (HSk ltac:(apply (CorrK_nil o (o + bi s) (buf s) (bi s) (buf s1) 0 done bq); [f_equal; lia|exact HC])).
        destruct (skipLoop _ s1) as [r s'|s'| |]; exact HSk.
      + unfold makeRoot in Em. destruct (isOpen b0) eqn:Eob; [|discriminate].
        pose proof (GoodL_first_open b0 rest HG Eob) as Er. subst rest.
        destruct (HP [] b0 eq_refl Eob) as [Hpos _].
        destruct (lineEnd_spec (buf s) (bi s) Hb) as [A' _].
        assert (Hlbi : lbd (buf s) (bi s)).
        { rewrite Eb in *. destruct (lbd_of_LBA o (bi s) ltac:(lia) Hb ltac:(lia) HL) as [E|E]; [left; exact E|exact E]. }
        pose proof (lineLoop_sim (3 + length (buf s))%nat 0 [b0] (bi s) {| buf := buf s; bi := lineEnd (buf s) (bi s); boff := boff s; bline := bline s; pending := [b0] |} ns o stQ bq done) as HLs.
        cbn [buf bi boff] in HLs.
        specialize (HLs Hb eq_refl Hc Hn Hcc HG ltac:(right; split; [exact Hpos|exists b0; reflexivity]) ltac:(discriminate) ltac:(discriminate) ltac:(unfold len; lia)).
        specialize (HLs ltac:(apply (la_agree (upto (buf s) (bi s))); [apply agree_upto; lia| | |exact Hla];
                                [intros e0 He0 Hbe0; apply (bnd0_grow (buf s) (bi s)); try lia; [apply bnd0_noNul; [exact Hnn|lia]|assumption]|
                                 apply growOK_upto; [lia|lia|exact Hlbi|intros El; lia]]) Eb Ho Eo HL HC Hinv).
        destruct (lineLoop _ 0 [b0] (bi s) _) as [r s'| | |]; try (exfalso; exact HLs). apply (OutB_R _ _ _ _ _ _ _ HLs).
  Qed.

  (* ---- after the quote is closed: the remaining root blocks are already there ---- *)
  Definition doneOf (l : list rootB) : list block := map (fun r => MO2 D (rb_start r) (rb_blk r)) l.

  Lemma doneOf_snoc acc r : doneOf (acc ++ [r]) = doneOf acc ++ [MO2 D (rb_start r) (rb_blk r)].
  Proof. unfold doneOf. rewrite map_app. reflexivity. Qed.

  Lemma allBlocks_fin : forall fuel s acc o bqF done, DSt s o -> FinK o s done bqF -> (length (buf s) < fuel)%nat ->
    map er done = map er (doneOf acc) -> Forall GoodR acc ->
    snd (allBlocks fuel s acc) = 0 /\ map er (bkids bqF) = map er (doneOf (fst (allBlocks fuel s acc))) /\ Forall GoodR (fst (allBlocks fuel s acc)).
  Proof.
    induction fuel as [|f IH]; intros s acc o bqF done HD HF Hf Hacc HGa; [lia|]. cbn [allBlocks].
    pose proof HD as (Eb & Ho & Eo & HDI & HL & Hla & Hinv). pose proof HDI as ((ns & HS) & Hcc & HG & HP).
    destruct HF as (F0 & F1 & F2 & F3 & (dn & F4 & F5 & F6) & F7 & F8).
    pose proof (nextBlock_total s HDI) as HT. unfold nextBlock in *.
    destruct (makeRoot (pending s) s) as [[r s']|] eqn:Em.
    - cbn [okNB2] in HT. destruct HT as [HT1 HT2].
      destruct (cut_facts s o (pending s) ns r s' Q Eb Ho Eo HS Hcc HG HP HL Hla F7 Hinv Em) as (b & rest & n & Ek & Eop & En & R1 & R2 & R3 & R4 & R5 & R6 & R7 & R8 & R9 & RG).
      apply (IH s' (acc ++ [r]) (o + n) bqF (done ++ [MO2 D (rb_start r) (rb_blk r)]) R3); [|lia|rewrite doneOf_snoc, !map_app, Hacc; reflexivity|apply Forall_app; split; [exact HGa|constructor; [exact RG|constructor]]].
      unfold FinK. split; [rewrite R4, R9, len_from by lia; lia|]. split; [exact F1|]. split; [exact F2|]. split; [exact F3|]. split; [|split; [exact R8|]].
      + exists (dn ++ [MO2 D o b]). rewrite R1, R2. split; [apply er_app_snoc, F4|]. split.
        * apply Forall_app. split; [exact F5|constructor; [apply closedB_MO; [exact Eop|lia]|constructor]].
        * rewrite F6, Ek. cbn [map]. rewrite R7. rewrite <- app_assoc. reflexivity.
      + rewrite R6. rewrite Ek in F8, HG. inversion F8 as [|? ? _ Hr]; subst.
        cbn [GoodL] in HG. rewrite Eop in HG. destruct HG as [_ HG]. pose proof (GoodL_closed_gt _ _ HG) as Hgt.
        apply Forall_forall. intros y Hy. apply in_map_iff in Hy. destruct Hy as (x & <- & Hx). rewrite Forall_forall in Hr, Hgt.
        unfold closedB. rewrite isOpen_shiftB; [apply Hr, Hx|lia|apply Hgt, Hx].
    - destruct (pending s) as [|b0 rest] eqn:Ep.
      + (* nothing left: the buffer is exhausted *)
        assert (E1 : from_ (buf s) (bi s) = []) by (rewrite F0; apply from_all).
        rewrite E1. cbn [skipLoop Nat.add]. cbv zeta. cbn [buf bi]. change (lineEnd [] 0) with 0. cbn [Z.ltb negb snd fst].
        split; [reflexivity|]. split; [|exact HGa]. rewrite F6. cbn [map]. rewrite app_nil_r, F4. exact Hacc.
      + exfalso. unfold makeRoot in Em. inversion F8 as [|? ? Hc0 _]; subst. unfold closedB in Hc0. rewrite Hc0 in Em. discriminate.
  Qed.

  Definition FinShape (bqF : block) : Prop := bkind bqF = BlockQuoteKind /\ bend bqF = len Q /\ auxOf (set_bend bqF (-1)) = skel.

  Lemma allBlocks_run : forall fuel s acc o stQ bq done, DSt s o -> CorrK o (buf s) (bi s) (pending s) done bq -> (length (buf s) < fuel)%nat ->
    map er done = map er (doneOf acc) -> Forall GoodR acc ->
    snd (allBlocks fuel s acc) = 0 /\ Forall GoodR (fst (allBlocks fuel s acc)) /\
    exists k bqF, QDone (epsB D (o + bi s)) stQ bq k bqF /\ FinShape bqF /\ map er (bkids bqF) = map er (doneOf (fst (allBlocks fuel s acc))).
  Proof.
    induction fuel as [|f IH]; intros s acc o stQ bq done HD HC Hf Hacc HGa; [lia|]. cbn [allBlocks].
    pose proof HD as (Eb & Ho & Eo & HDI & HL & Hla & Hinv).
    pose proof (nextBlock_total s HDI) as HT. pose proof (nextBlock_sim s o stQ bq done HD HC) as HN.
    destruct (nextBlock (3 + length (buf s)) s) as [r s'|s'| |]; try (exfalso; exact HN).
    - cbn [okNB2] in HT. destruct HT as [HT1 HT2]. destruct HN as (RG & o' & R3 & HN').
      assert (HGa' : Forall GoodR (acc ++ [r])) by (apply Forall_app; split; [exact HGa|constructor; [exact RG|constructor]]).
      destruct HN' as [(k & stQ' & bqn & S1 & S2)|(k & bqF & S1 & S2)].
      + destruct (IH s' (acc ++ [r]) o' stQ' bqn (done ++ [MO2 D (rb_start r) (rb_blk r)]) R3 S2 ltac:(lia) ltac:(rewrite doneOf_snoc, !map_app, Hacc; reflexivity) HGa')
          as (C0 & CG & k2 & bqF & T1 & T2 & T3).
        split; [exact C0|]. split; [exact CG|]. exists (k + k2)%nat, bqF. split; [apply (QStep_Done _ _ _ _ _ _ _ _ _ S1 T1)|]. split; [exact T2|exact T3].
      + destruct (allBlocks_fin f s' (acc ++ [r]) o' bqF (done ++ [MO2 D (rb_start r) (rb_blk r)]) R3 S2 ltac:(lia) ltac:(rewrite doneOf_snoc, !map_app, Hacc; reflexivity) HGa') as (C0 & C1 & CG).
        split; [exact C0|]. split; [exact CG|]. exists k, bqF. split; [exact S1|]. split; [|exact C1]. destruct S2 as (_ & F1 & F2 & F3 & _). repeat split; assumption.
    - cbn [fst snd]. split; [reflexivity|]. split; [exact HGa|]. destruct HN as (k & bqF & dn & S1 & F1 & F2 & F3 & F4 & F5).
      exists k, bqF. split; [exact S1|]. split; [repeat split; assumption|]. rewrite F5, F4. exact Hacc.
  Qed.

  (* ---- the theorem ---- *)
  Definition quoteRootOf (lb : bool) (kids : list block) : rootB :=
    {| rb_line := 1; rb_start := 0; rb_end := len Q; rb_src := Q; rb_blk := Blk BlockQuoteKind 0 (len Q) kids [] 0 0 0 false lb |}.

  Theorem parseBlocks_quote_sim2 :
    exists lb kidsQ, parseBlocks Q = ([quoteRootOf lb kidsQ], 0) /\ map er kidsQ = map er (doneOf (fst (parseBlocks D))) /\
                     Forall GoodR (fst (parseBlocks D)).
  Proof.
    assert (EpD : pad D = D) by (apply pad_noNul, D_nul). assert (EpQ : pad Q = Q) by (apply pad_noNul, Q_nul).
    pose proof (len_nonneg D) as HlD.
    assert (HlDp : 0 < len D) by (destruct D; [contradiction|rewrite len_cons; pose proof (len_nonneg b); lia]).
    (* the plain run *)
    set (s0 := {| buf := D; bi := 0; boff := 0; bline := 1; pending := [] |}).
    assert (HD0 : DSt s0 0).
    { unfold DSt, s0. cbn [buf bi boff pending]. split; [reflexivity|]. split; [lia|]. split; [reflexivity|]. split.
      - split; [exists true; unfold SI; cbn [buf bi pending]; repeat split; try lia|]. split; [reflexivity|]. split; [exact I|]. intros pre c E. cbn [pending] in E. destruct pre; discriminate.
      - split; [left; reflexivity|]. split; [|reflexivity]. apply docRoot_parts. split; [lia|]. split; [cbn [tchain]; split; [lia|apply NT_empty; lia]|exact I]. }
    assert (HC0 : CorrK 0 (buf s0) (bi s0) (pending s0) [] skel).
    { unfold CorrK, s0. cbn [buf bi pending]. split; [reflexivity|]. split; [reflexivity|]. split; [reflexivity|]. split; [exists []; repeat split; constructor|constructor]. }
    destruct (allBlocks_run (S (length D)) s0 [] 0 0 skel [] HD0 HC0 ltac:(cbn [buf s0]; lia) eq_refl ltac:(constructor)) as (C0 & CG & k & bqF & (T1 & T1b) & (T2 & T3 & T4) & T5).
    change (epsB D (0 + bi s0)) with 0 in T1, T1b.
    assert (ED : parseBlocks D = allBlocks (S (length D)) s0 []) by (unfold parseBlocks; rewrite EpD; reflexivity).
    rewrite <- ED in T5, CG.
    (* the quoted run *)
    pose proof (len_nonneg Q) as HlQ.
    assert (Hq0 : exists rest, Q = 62 :: 32 :: rest).
    { unfold Qd, quote. destruct D as [|c r]; [contradiction|]. eexists. reflexivity. }
    destruct Hq0 as (qrest & Eq0).
    destruct bqF as [kF sF eF kidsF ikF aF nF cF lF lbF]. cbn [bkind bend auxOf set_bend set_bkids set_blast bkids] in T2, T3, T4, T5. subst kF eF. inversion T4; subst sF ikF aF nF cF lF.
    exists lbF, kidsF. split; [|split; [exact T5|exact CG]].
    unfold parseBlocks. rewrite EpQ. rewrite BlankPrefix.allBlocks_S. cbn [buf]. rewrite BlankPrefix.nextBlock_st0 || idtac.
    unfold nextBlock. cbn [pending makeRoot bi buf]. change (upto Q 0) with (@nil Z). change (from_ Q 0) with Q.
    change (0 + unpadded []) with 0. change (1 + lineCount []) with 1.
    cbn [skipLoop Nat.add]. cbv zeta. cbn [buf bi boff bline pending].
    assert (HlQp : 2 <= len Q) by (rewrite Eq0, !len_cons; pose proof (len_nonneg qrest); lia).
    assert (He : 0 < lineEnd Q 0) by (apply lineEnd_progress; lia).
    destruct (Z.ltb_spec 0 (lineEnd Q 0)) as [_|L]; [|lia]. cbn [negb].
    assert (Hnb : isBlankLine (upto Q (lineEnd Q 0)) = false).
    { rewrite Eq0 in He |- *. unfold upto. destruct (Z.to_nat (lineEnd (62 :: 32 :: qrest) 0)) as [|n0] eqn:En; [lia|]. reflexivity. }
    rewrite Hnb.
    (* the first line opens the quote: from there on the run is the loop under the open quote *)
    assert (Efl : forall f0, lineLoop (S f0) 0 [] 0 {| buf := Q; bi := lineEnd Q 0; boff := 0; bline := 1; pending := [] |} = QL Q (S f0) 0 skel 0).
    { intros f0. unfold QL, QS. cbn [lineLoop]. cbn [buf bi].
      assert (Efrom : from_ (upto Q (lineEnd Q 0)) 0 = 62 :: 32 :: upto qrest (lineEnd Q 0 - 2)).
      { change (from_ (upto Q (lineEnd Q 0)) 0) with (upto Q (lineEnd Q 0)). rewrite Eq0. unfold upto.
        assert (2 <= lineEnd (62 :: 32 :: qrest) 0).
        { destruct (Z.le_gt_cases 2 (lineEnd (62 :: 32 :: qrest) 0)) as [G|G]; [exact G|]. exfalso.
          destruct (lineEnd_spec (62 :: 32 :: qrest) 0 ltac:(rewrite !len_cons; pose proof (len_nonneg qrest); lia)) as [A B].
          specialize (B ltac:(rewrite !len_cons; pose proof (len_nonneg qrest); lia)). destruct B as [_ B].
          assert (lineEnd (62 :: 32 :: qrest) 0 = 1) by (rewrite Eq0 in He; lia). rewrite H in B. discriminate. }
        replace (Z.to_nat (lineEnd (62 :: 32 :: qrest) 0)) with (S (S (Z.to_nat (lineEnd (62 :: 32 :: qrest) 0 - 2)))) by lia. reflexivity. }
      rewrite (first_line (upto Q (lineEnd Q 0)) _ Efrom); [reflexivity|].
      rewrite <- Efrom. change (from_ (upto Q (lineEnd Q 0)) 0) with (upto Q (lineEnd Q 0)). apply noTab_upto.
      apply Forall_quoteAux; [discriminate|discriminate|exact D_tab]. }
    assert (Hk : (k + 1 <= 2 + length Q)%nat) by (unfold len in T1b; lia).
    rewrite Efl. replace (S (S (length Q))) with (k + S (S (length Q) - k))%nat by lia.
    rewrite (T1 (S (length Q) - k)%nat).
    (* the quote is cut off; nothing is left *)
    assert (HQlen : (1 <= length Q)%nat) by (rewrite Eq0; cbn [length]; lia).
    destruct (length Q) as [|nq] eqn:ElQ; [lia|]. cbn [allBlocks].
    unfold qend, qroot. cbn [bend buf]. rewrite from_all.
    assert (Fn : forall x : Z, from_ (@nil Z) x = []) by (intros x; unfold from_; destruct (Z.to_nat x); reflexivity).
    assert (Un : forall x : Z, upto (@nil Z) x = []) by (intros x; unfold upto; destruct (Z.to_nat x); reflexivity).
    unfold nextBlock. cbn [pending makeRoot bi buf length Nat.add]. cbv zeta. rewrite Fn, Un.
    cbn [skipLoop]. cbv zeta. cbn [buf bi]. change (lineEnd [] 0) with 0. change (0 <? 0) with false. cbn [negb app].
    rewrite upto_all, (unpadded_noNul Q Q_nul), (fillNulls_noNul Q Q_nul). reflexivity.
  Qed.
End Drv.

Check parseBlocks_quote_sim2.
Print Assumptions parseBlocks_quote_sim2.
