(* QS2Drv1.v -- T58: one line of the quoted run against one line of the plain run, for documents that may contain '['.
   QuoteSimDrv1.line_step redone with QS2Reloc.reloc_line: the hook equation of paragraphs and setext headings comes from the reader
   bisimulation QRdrOcp.q_onCloseParagraph(_setext). *)
From Coq Require Import List ZArith Lia Bool Arith.
Import ListNotations.
Require Import Base Tree Rdr Link Collect Html Recog LP Rules Starts Driver Rec16 Rec17 Rec18 L2Kind L2CC NoPanic47 StreamFuel SliceBase LADef IFBase BSOrph
  QuoteSimDefs QuoteSimTree QuoteSimNest QuoteSimQLine QuoteSimMap QuoteSimReloc QuoteSimAux QuoteSimLines QuoteSimDrv1 QuoteSimSpec
  QCutsDef QCuts QRdrBase QRdrLink QRdrCollect QRdrOcp QRdrKids QS2Reloc QS2Nest QS2QLine.
Require BlankPrefix.
Open Scope Z_scope.

(* ---- the bytes of quote D ---- *)
Lemma upto_cons (c : Z) (r : bytes) p : 0 < p -> upto (c :: r) p = c :: upto r (p - 1).
Proof. intros H. unfold upto. replace (Z.to_nat p) with (S (Z.to_nat (p - 1))) by lia. reflexivity. Qed.
Lemma at_nil i : at_ [] i = 0.
Proof. unfold at_. destruct (i <? 0); [reflexivity|]. destruct (Z.to_nat i); reflexivity. Qed.
Lemma at_app_l (a b : bytes) i : 0 <= i < len a -> at_ (a ++ b) i = at_ a i.
Proof. intros H. unfold at_. destruct (Z.ltb_spec i 0); [lia|]. apply app_nth1. unfold len in H. lia. Qed.

Lemma quoteAux_at : forall l b p, 0 <= p < len l ->
  at_ (quoteAux b l) (p + 2 * (nlc (upto l p) + (if b then 1 else 0))) = at_ l p.
Proof.
  induction l as [|c r IH]; intros b p Hp; [unfold len in Hp; cbn in Hp; lia|]. rewrite len_cons in Hp. cbn [quoteAux].
  destruct (Z.eq_dec p 0) as [->|N].
  - change (upto (c :: r) 0) with (@nil Z). cbn [nlc]. destruct b; cbn [app]; reflexivity.
  - rewrite upto_cons by lia. cbn [nlc]. specialize (IH (c =? 10) (p - 1) ltac:(lia)).
    rewrite (ShapesBase.at_S' c r p) by lia. rewrite <- IH.
    destruct b; cbn [app].
    + replace (p + 2 * ((if c =? 10 then 1 else 0) + nlc (upto r (p - 1)) + 1)) with ((p - 1 + 2 * (nlc (upto r (p - 1)) + (if c =? 10 then 1 else 0))) + 1 + 2) by (destruct (c =? 10); lia).
      rewrite at_cons2 by (pose proof (nlc_nonneg (upto r (p - 1))); destruct (c =? 10); lia).
      rewrite ShapesBase.at_S' by (pose proof (nlc_nonneg (upto r (p - 1))); destruct (c =? 10); lia). f_equal. lia.
    + replace (p + 2 * ((if c =? 10 then 1 else 0) + nlc (upto r (p - 1)) + 0)) with ((p - 1 + 2 * (nlc (upto r (p - 1)) + (if c =? 10 then 1 else 0))) + 1) by (destruct (c =? 10); lia).
      rewrite ShapesBase.at_S' by (pose proof (nlc_nonneg (upto r (p - 1))); destruct (c =? 10); lia). f_equal. lia.
Qed.
Lemma sigma_at D p : 0 <= p < len D -> at_ (quote D) (sigma D p) = at_ D p.
Proof. intros H. unfold quote, sigma, nl. apply (quoteAux_at D true p H). Qed.
Lemma sigma_mono D x y : 0 <= x -> x < y -> sigma D x < sigma D y.
Proof. intros Hx H. unfold sigma. pose proof (nl_mono D x y ltac:(lia)). lia. Qed.
Lemma sigma_nn D x : 0 <= x -> 0 <= sigma D x.
Proof. intros H. unfold sigma, nl. pose proof (nlc_nonneg (upto D x)). lia. Qed.
Lemma sigma_succ D x : 0 <= x < len D -> sigma D (x + 1) = sigma D x + 1 + (if at_ D x =? 10 then 2 else 0).
Proof. intros H. unfold sigma. rewrite (nl_succ D x H). destruct (at_ D x =? 10); lia. Qed.

(* ---- cuts depend only on the bytes of the span ---- *)
Lemma cutsF_ext (X Y : bytes) : forall n a x e, (forall y, x <= y < e -> at_ X y = at_ Y y) -> cutsF X n a x e = cutsF Y n a x e.
Proof.
  induction n as [|n IH]; intros a x e H; [reflexivity|]. cbn [cutsF]. destruct (Z.leb_spec e (x + 1)); [reflexivity|].
  rewrite (H x) by lia. destruct (at_ Y x =? 10); [f_equal|]; apply IH; intros y Hy; apply H; lia.
Qed.
Lemma cuts_ext (X Y : bytes) a e : (forall y, a <= y < e -> at_ X y = at_ Y y) -> cuts X a e = cuts Y a e.
Proof. intros H. unfold cuts. apply cutsF_ext, H. Qed.

Section Doc2.
  Variable D : bytes.
  Notation Q := (Qd D).
  (* the image of a label / destination / title entry: positions relative to the buffer offset o *)
  Definition lpO (o : Z) (u : inline) : inline :=
    match u with Inl k s e ind rf kids =>
      Inl k (sgO D o s) (epsG (sgO D o) s e) ind rf (flat_map (QRdrCollect.qK (from_ D o) (sgO D o)) kids) end.
  Definition MO2 (o : Z) : block -> block := rB (sgO D o) (eBO D o) (lpO o).
  Lemma lpO_kind o u : ikind (lpO o u) = ikind u. Proof. destruct u; reflexivity. Qed.

  Lemma at_upto_lt (X : bytes) n i : 0 <= i < n -> at_ (upto X n) i = at_ X i.
  Proof.
    intros H. unfold at_, upto. destruct (Z.ltb_spec i 0); [lia|]. apply QRdrBase.nth_firstn_lt'. lia.
  Qed.
  (* on nodes inside the prefix sD of the buffer, qK over the buffer is qK over sD *)
  Lemma qK_prefix o bi sg0 u : QRdrCollect.inR (upto (from_ D o) bi) u -> 0 <= bi <= len (from_ D o) ->
    QRdrCollect.qK (from_ D o) sg0 u = QRdrCollect.qK (upto (from_ D o) bi) sg0 u.
  Proof.
    intros (A & B & C) Hbi. destruct u as [k s e ind rf kids]. cbn [istart iend ikids] in *. unfold QRdrCollect.qK.
    destruct ((k =? TextKind) && (s <? e)); [|reflexivity]. f_equal. apply cuts_ext. intros y Hy. symmetry. apply at_upto_lt.
    rewrite len_upto' in B by lia. lia.
  Qed.
  Lemma lpO_spec o bi : 0 <= bi <= len (from_ D o) -> forall k s e rf kids, isLinkPart k = true -> Forall (QRdrCollect.inR (upto (from_ D o) bi)) kids ->
    lpO o (Inl k s e 0 rf kids) = Inl k (sgO D o s) (epsG (sgO D o) s e) 0 rf (flat_map (QRdrCollect.qK (upto (from_ D o) bi) (sgO D o)) kids).
  Proof.
    intros Hbi k s e rf kids _ Hk. unfold lpO. f_equal. induction kids as [|u kids IH]; [reflexivity|]. inversion Hk as [|? ? Hu Hr]; subst.
    cbn [flat_map]. rewrite (qK_prefix o bi _ u Hu Hbi), (IH Hr). reflexivity.
  Qed.
End Doc2.

(* ---- the blocks that onCloseParagraph returns ---- *)
Lemma ocp_forall (K Ko : block -> Prop) :
  (forall s e kids, Forall (QS2Reloc.lpOKk LinkReferenceDefinitionKind) kids -> K (refDefBlock s e kids)) -> (forall o, Ko o -> K o) ->
  (forall o pos i, Ko o -> Ko (set_bik (set_bstart o pos) (from_ (bik o) i))) ->
  (forall o, Ko o -> allUnp (bik o)) ->
  forall fuel rf src orig r res, Ko orig -> Forall K res -> Forall K (ocp_loop fuel rf src orig None r res).
Proof.
  intros Kref0 Kok Kcut Kunp. induction fuel as [|f IH]; intros rf src orig r res Ho Hres.
  { cbn [ocp_loop]. apply Forall_app. split; [exact Hres|constructor; [apply Kok, Ho|constructor]]. }
  assert (Hexit : Forall K (res ++ [orig])) by (apply Forall_app; split; [exact Hres|constructor; [apply Kok, Ho|constructor]]).
  assert (Hsn : forall x, K x -> Forall K (res ++ [x])) by (intros x Hx; apply Forall_app; split; [exact Hres|constructor; [exact Hx|constructor]]).
  assert (Hlp : forall k s e rf0 f0 p e0 esc, QuoteSimMap.isLinkPart k = true -> QS2Reloc.lpOKk LinkReferenceDefinitionKind (Inl k s e 0 rf0 (collectTextNodes f0 (newReader src (bik orig) p) e0 TextKind esc))).
  { intros k s e rf0 f0 p e0 esc Hk. split; [|intros _; exact Hk]. intros _. cbn [ikids]. apply (collectTextNodes_nokid f0 src (bik orig) p e0 TextKind esc). apply Kunp, Ho. }
  assert (Kref2 : forall s e a b, QS2Reloc.lpOKk LinkReferenceDefinitionKind a -> QS2Reloc.lpOKk LinkReferenceDefinitionKind b -> K (refDefBlock s e [a; b])) by (intros s e a b Ha Hb; apply Kref0; constructor; [exact Ha|constructor; [exact Hb|constructor]]).
  assert (Kref3 : forall s e a b c, QS2Reloc.lpOKk LinkReferenceDefinitionKind a -> QS2Reloc.lpOKk LinkReferenceDefinitionKind b -> QS2Reloc.lpOKk LinkReferenceDefinitionKind c -> K (refDefBlock s e [a; b; c])) by (intros s e a b c Ha Hb Hc; apply Kref0; constructor; [exact Ha|constructor; [exact Hb|constructor; [exact Hc|constructor]]]).
  cbn [ocp_loop]. cbv zeta.
  destruct (parseLinkLabel rf r) as [[lspan linner] r1]. destruct (negb (spanValid lspan)); [exact Hexit|].
  destruct (current r1) as [c r2]. destruct (negb (c =? 58)); [exact Hexit|].
  destruct (next r2) as [? r3]. destruct (skipLinkSpace rf r3) as [ok r4]. destruct (negb ok); [exact Hexit|].
  destruct (parseLinkDestination rf r4) as [[dspan dtext] r5]. destruct (negb (spanValid dspan)); [exact Hexit|].
  destruct (readEOL rf r5) as [destEOL r6]. destruct (current r6) as [c6 r7].
  destruct (_ && _ && _); [exact Hexit|].
  assert (Kref : K (refDefBlock (fst lspan) destEOL
     [Inl LinkLabelKind (fst linner) (snd linner) 0 (transformLinkReferenceSpan rf src (bik orig) (fst linner) (snd linner)) (collectTextNodes rf (newReader src (bik orig) (fst linner)) (snd linner) TextKind false);
      Inl LinkDestinationKind (fst dspan) (snd dspan) 0 [] (collectTextNodes rf (newReader src (bik orig) (fst dtext)) (snd dtext) TextKind true)])) by (apply Kref2; apply Hlp; reflexivity).
  destruct (skipLinkSpace rf r7) as [ok2 r8]. destruct (negb ok2); [apply Hsn, Kref|].
  destruct (parseLinkTitle rf r8) as [[tspan ttext] r9].
  destruct (negb (spanValid tspan)).
  { destruct (destEOL <? 0); [exact Hexit|]. destruct (_ <? 0); [apply Hsn, Kref|]. apply IH; [apply Kcut, Ho|apply Hsn, Kref]. }
  destruct (readEOL rf r9) as [titleEOL r10]. destruct (titleEOL <? 0).
  { destruct (destEOL <? 0); [exact Hexit|]. destruct (_ <? 0); [apply Hsn, Kref|].
    apply Forall_app. split; [exact Hres|]. constructor; [apply Kref|constructor; [apply Kok, Kcut, Ho|constructor]]. }
  destruct (_ <? 0); [apply Hsn, Kref3; apply Hlp; reflexivity|]. apply IH; [apply Kcut, Ho|apply Hsn, Kref3; apply Hlp; reflexivity].
Qed.

Section Line.
  Variable D : bytes.
  Notation Q := (Qd D).
  Hypothesis D_tab : noTab D.
  Hypothesis D_cr : noCR D.
  Hypothesis D_nul : noNul D.

  (* what the reader needs about an open paragraph / setext heading: supplied by the driver at the start of each line *)
  Definition OPd (sD : bytes) (sg : Z -> Z) (x : block) : Prop :=
    bik x = [] \/ (GoodIk sD sg (bik x) /\
                   (bkind x = SetextHeadingKind -> isOpen x = true ->
                    exists o1, bik o1 = bik x /\ bkind o1 <> SetextHeadingKind /\ lastIsPara (onCloseParagraph sD o1) = true)).
  Lemma OPd_ext sD sg x y : bik x = bik y -> bkind x = bkind y -> (isOpen y = true -> isOpen x = true) -> OPd sD sg x -> OPd sD sg y.
  Proof.
    intros E1 E2 Eo [H|[G S]]; [left; rewrite <- E1; exact H|right]. rewrite <- E1. split; [exact G|]. intros K O. rewrite <- E2 in K. apply (S K (Eo O)).
  Qed.
  Lemma OPd_nil sD sg x : bik x = [] -> OPd sD sg x. Proof. intros H. left. exact H. Qed.
  Lemma OPd_setext sD sg b lvl : OPd sD sg b -> bkind b = ParagraphKind -> lastIsPara (onCloseParagraph sD b) = true ->
    OPd sD sg (set_bn (set_bkind b SetextHeadingKind) lvl).
  Proof.
    intros [H|[G _]] K L; [left; destruct b; exact H|right]. assert (E : bik (set_bn (set_bkind b SetextHeadingKind) lvl) = bik b) by (destruct b; reflexivity).
    rewrite E. split; [exact G|]. intros _ _. exists b. split; [reflexivity|]. split; [rewrite K; discriminate|exact L].
  Qed.

  Notation ceB2 sD sQ sg := (QS2Reloc.ceB sD sQ sg (OPd sD sg)).
  Notation ceL2 sD sQ sg := (QS2Reloc.ceL sD sQ sg (OPd sD sg)).

  (* ---- the relocation facts of a region [o, o + bi) of the document (the lines of the open root block) ---- *)
  Lemma epsB_le_lenQ y : 0 < y <= len D -> epsB D y <= len Q.
  Proof.
    intros Hy. assert (Dne : D <> []) by (intros E; rewrite E in Hy; change (len (@nil Z)) with 0 in Hy; lia).
    unfold Qd. rewrite (len_quote_epsB D Dne). unfold epsB. destruct (Z.leb_spec y 0); [lia|]. destruct (Z.leb_spec (len D) 0); [lia|].
    destruct (Z.eq_dec y (len D)) as [->|N]; [lia|]. pose proof (sigma_mono D (y - 1) (len D - 1) ltac:(lia) ltac:(lia)). lia.
  Qed.

  Section Region.
    Variables (o bi : Z).
    Hypothesis Ho : 0 <= o.
    Hypothesis Hbi : 0 < bi.
    Hypothesis Hend : o + bi <= len D.
    Let sD := upto (from_ D o) bi.
    Let sQ := upto Q (epsB D (o + bi)).

    Lemma reg_lens : len sD = bi /\ len sQ = epsB D (o + bi) /\ bi <= len (from_ D o) /\ epsB D (o + bi) = sigma D (o + bi - 1) + 1.
    Proof.
      assert (Hbf : bi <= len (from_ D o)) by (rewrite len_from by lia; lia).
      assert (E : epsB D (o + bi) = sigma D (o + bi - 1) + 1) by (unfold epsB; destruct (Z.leb_spec (o + bi) 0); [lia|reflexivity]).
      split; [unfold sD; apply len_upto'; lia|]. split; [|split; [exact Hbf|exact E]].
      unfold sQ. apply len_upto'. split; [rewrite E; pose proof (sigma_nn D (o + bi - 1) ltac:(lia)); lia|apply epsB_le_lenQ; lia].
    Qed.

    Lemma sD_at x : 0 <= x < bi -> at_ sD x = at_ D (o + x).
    Proof. intros H. destruct reg_lens as (_ & _ & Hbf & _). unfold sD. rewrite at_upto_lt by lia. apply at_from; lia. Qed.
    Lemma sgO_abs x : 0 <= x -> sgO D o x = sigma D (o + x).
    Proof. intros H. unfold sgO. cbv zeta. destruct (Z.ltb_spec (o + x) 0); [lia|reflexivity]. Qed.

    Lemma SGood_line : SGood sD sQ (sgO D o).
    Proof.
      destruct reg_lens as (LsD & LsQ & Hbf & EQ).
      assert (Hlt : forall x, 0 <= x < len sD -> sgO D o x < len sQ).
      { intros x Hx. rewrite sgO_abs by lia. rewrite LsD in Hx. rewrite LsQ, EQ.
        destruct (Z.eq_dec x (bi - 1)) as [->|N]; [replace (o + (bi - 1)) with (o + bi - 1) by lia; lia|]. pose proof (sigma_mono D (o + x) (o + bi - 1) ltac:(lia) ltac:(lia)) as M. lia. }
      constructor.
      - intros x y Hx Hxy. rewrite !sgO_abs by lia. apply sigma_mono; lia.
      - intros x Hx. rewrite sgO_abs by lia. apply sigma_nn. lia.
      - intros x Hx. rewrite LsD in Hx. rewrite (sD_at x Hx). unfold sQ. rewrite at_upto_lt by (split; [rewrite sgO_abs by lia; apply sigma_nn; lia|rewrite <- LsQ; apply Hlt; rewrite LsD; lia]).
        rewrite sgO_abs by lia. apply sigma_at. lia.
      - exact Hlt.
      - intros x Hx Hx1 N. rewrite LsD in Hx1. rewrite sD_at in N by lia. rewrite !sgO_abs by lia. replace (o + (x + 1)) with (o + x + 1) by lia.
        rewrite sigma_succ by lia. destruct (Z.eqb_spec (at_ D (o + x)) 10); [contradiction|lia].
      - intros x Hx Hx1 N. rewrite LsD in Hx1. rewrite sD_at in N by lia. rewrite !sgO_abs by lia. replace (o + (x + 1)) with (o + x + 1) by lia.
        rewrite sigma_succ by lia. rewrite N. change (10 =? 10) with true. cbv iota. lia.
      - intros _. rewrite LsD, LsQ, EQ, sgO_abs by lia. replace (o + (bi - 1)) with (o + bi - 1) by lia. reflexivity.
      - intros x Hx. rewrite LsD in Hx. rewrite sD_at by lia. apply (Forall_at (fun c => c <> 0)); [exact D_nul|lia].
      - rewrite LsD. lia.
    Qed.

    Lemma eBO_m1 : eBO D o (-1) = -1. Proof. reflexivity. Qed.
    Lemma eBO_end q : 0 <= q < len sD -> eBO D o (q + 1) = sgO D o q + 1.
    Proof.
      intros Hq. unfold eBO. destruct (Z.ltb_spec (q + 1) 0); [lia|]. rewrite sgO_abs by lia. unfold epsB. destruct (Z.leb_spec (o + (q + 1)) 0); [lia|]. f_equal. f_equal. lia.
    Qed.
    Lemma lp_line : forall k s e rf kids, isLinkPart k = true -> Forall (QRdrCollect.inR sD) kids ->
      lpO D o (Inl k s e 0 rf kids) = Inl k (sgO D o s) (epsG (sgO D o) s e) 0 rf (flat_map (QRdrCollect.qK sD (sgO D o)) kids).
    Proof. destruct reg_lens as (_ & _ & Hbf & _). apply lpO_spec. lia. Qed.

    Notation M := (rB (sgO D o) (eBO D o) (lpO D o)).
    Notation OP := (OPd sD (sgO D o)).

    (* the hook equations *)
    Lemma ceB_cut_orig b pos i : ceB2 sD sQ (sgO D o) b -> isOpen b = false -> isParaK (bkind b) = true ->
      ceB2 sD sQ (sgO D o) (set_bik (set_bstart b pos) (from_ (bik b) i)) /\ isOpen (set_bik (set_bstart b pos) (from_ (bik b) i)) = false /\ isParaK (bkind (set_bik (set_bstart b pos) (from_ (bik b) i))) = true.
    Proof.
      intros H Hc Hk. apply QS2Reloc.ceB_eq in H. destruct H as (A & B & C & L4 & Dk).
      assert (E : bkind (set_bik (set_bstart b pos) (from_ (bik b) i)) = bkind b /\ bik (set_bik (set_bstart b pos) (from_ (bik b) i)) = from_ (bik b) i /\
                  bkids (set_bik (set_bstart b pos) (from_ (bik b) i)) = bkids b /\ isOpen (set_bik (set_bstart b pos) (from_ (bik b) i)) = isOpen b) by (destruct b; repeat split).
      destruct E as (E0 & E1 & E2 & E3). split; [|split; [rewrite E3; exact Hc|rewrite E0; exact Hk]].
      apply QS2Reloc.ceB_eq. rewrite E0, E1, E2.
      assert (Sub : forall (P : inline -> Prop), Forall P (bik b) -> Forall P (from_ (bik b) i)).
      { intros P HP. unfold from_. rewrite <- (firstn_skipn (Z.to_nat i) (bik b)) in HP. apply Forall_app in HP. apply HP. }
      split; [intros K; apply Sub, A, K|]. split; [intros K; apply Sub, B, K|]. split; [|split; [apply Sub, L4|exact Dk]].
      intros K. destruct (C K) as [En|[G _]].
      - left. rewrite E1, En. unfold from_. apply skipn_nil.
      - right. rewrite E1. split; [apply GoodIk_from, G|]. intros _ Ho'. rewrite E3, Hc in Ho'. discriminate Ho'.
    Qed.
    Lemma ceB_refDef s e kids : Forall (QS2Reloc.lpOKk LinkReferenceDefinitionKind) kids -> ceB2 sD sQ (sgO D o) (refDefBlock s e kids).
    Proof. intros Hk. apply QS2Reloc.ceB_eq. unfold refDefBlock. cbn [bkind bik bkids]. split; [intros K; exfalso; apply K; reflexivity|]. split; [discriminate|]. split; [discriminate|]. split; [exact Hk|constructor]. Qed.

    Lemma ocp_ceL b : ceB2 sD sQ (sgO D o) b -> isOpen b = false -> isParaK (bkind b) = true -> bkind b <> SetextHeadingKind \/ (exists o1, bik o1 = bik b /\ bkind o1 <> SetextHeadingKind /\ lastIsPara (onCloseParagraph sD o1) = true) ->
      ceL2 sD sQ (sgO D o) (onCloseParagraph sD b).
    Proof.
      intros H Hc Hk Hs.
      assert (En : orphanOf sD b = None \/ exists o1, bik o1 = bik b /\ bkind o1 <> SetextHeadingKind /\ lastIsPara (onCloseParagraph sD o1) = true).
      { destruct Hs as [Hs|Hs]; [left; apply orphanOf_para, Hs|right; exact Hs]. }
      clear Hs. destruct (bik b) as [|first rest] eqn:E; [rewrite (ocp_unfold_nil sD b E); constructor; [exact H|constructor]|].
      rewrite (ocp_unfold sD b first rest E).
      assert (Hnone : Forall (QS2Reloc.ceB sD sQ (sgO D o) OP) (ocp_loop (S (length (bik b))) (rfuelOf sD) sD b None (newReader sD (bik b) (istart first)) [])).
      { apply (ocp_forall (QS2Reloc.ceB sD sQ (sgO D o) OP) (fun x => QS2Reloc.ceB sD sQ (sgO D o) OP x /\ isOpen x = false /\ isParaK (bkind x) = true)).
        - intros s e kids. apply ceB_refDef.
        - intros x Hx. apply Hx.
        - intros x pos i (X1 & X2 & X3). apply ceB_cut_orig; assumption.
        - intros x (X1 & X2 & X3). apply QS2Reloc.ceB_eq in X1. destruct X1 as (_ & X1 & _). exact (X1 X3).
        - split; [exact H|split; assumption].
        - constructor. }
      destruct En as [En|(o1 & E1 & K1 & HL)]; [rewrite En; exact Hnone|].
      rewrite (ocp_unfold sD o1 first rest E1), (orphanOf_para sD o1 K1) in HL.
      rewrite E1, <- E in HL. rewrite (ocp_orphan_irrel _ _ sD o1 b _ _ [] [] ltac:(rewrite E1, E; reflexivity) HL). exact Hnone.
    Qed.

    Lemma M_set_bend b e : rB (sgO D o) (eBO D o) (lpO D o) (set_bend b e) = set_bend (rB (sgO D o) (eBO D o) (lpO D o) b) (eBO D o e).
    Proof. destruct b; reflexivity. Qed.

    Lemma HocpC_line b e : ceB2 sD sQ (sgO D o) b -> isParaK (bkind b) = true -> isOpen b = true -> 0 <= e ->
      onCloseParagraph sQ (M (set_bend b e)) = map M (onCloseParagraph sD (set_bend b e)) /\ ceL2 sD sQ (sgO D o) (onCloseParagraph sD (set_bend b e)).
    Proof.
      intros H Hk Hob He. pose proof (QS2Reloc.ceB_OP _ _ _ _ b H Hk) as Hop.
      assert (E : bkind (set_bend b e) = bkind b /\ bik (set_bend b e) = bik b /\ bkids (set_bend b e) = bkids b) by (destruct b; repeat split). destruct E as (E0 & E1 & E2).
      assert (Hcl : isOpen (set_bend b e) = false) by (destruct b; unfold isOpen; cbn [set_bend bend]; apply Z.ltb_ge; exact He).
      assert (H1 : ceB2 sD sQ (sgO D o) (set_bend b e)) by (apply (QS2Reloc.ceB_same sD sQ (sgO D o) OP (OPd_ext sD (sgO D o)) b); [exact E0|exact E1|exact E2|intros _; exact Hob|exact H]).
      destruct Hop as [En|[G S]].
      - split; [|rewrite (ocp_unfold_nil sD (set_bend b e)) by (rewrite E1; exact En); constructor; [exact H1|constructor]].
        rewrite (ocp_unfold_nil sD (set_bend b e)) by (rewrite E1; exact En). rewrite (ocp_unfold_nil sQ) by (rewrite (bik_rB (sgO D o) (eBO D o) (lpO D o)), E1, En; reflexivity). reflexivity.
      - assert (G1 : GoodIk sD (sgO D o) (bik (set_bend b e))) by (rewrite E1; exact G).
        destruct (Z.eq_dec (bkind b) SetextHeadingKind) as [Es|Ns].
        + destruct (S Es Hob) as (o1 & O1 & O2 & O3). split.
          * apply (q_onCloseParagraph_setext sD sQ (sgO D o) (eBO D o) (lpO D o) SGood_line eBO_m1 eBO_end lp_line (set_bend b e) o1 G1); [rewrite E1; exact O1|exact O2|exact O3].
          * apply ocp_ceL; [exact H1|exact Hcl|rewrite E0; exact Hk|right; exists o1; rewrite E1; repeat split; assumption].
        + split.
          * apply (q_onCloseParagraph sD sQ (sgO D o) (eBO D o) (lpO D o) SGood_line eBO_m1 eBO_end lp_line (set_bend b e) G1). rewrite E0. exact Ns.
          * apply ocp_ceL; [exact H1|exact Hcl|rewrite E0; exact Hk|left; rewrite E0; exact Ns].
    Qed.
    Lemma HocpP_line b : ceB2 sD sQ (sgO D o) b -> bkind b = ParagraphKind -> onCloseParagraph sQ (M b) = map M (onCloseParagraph sD b).
    Proof.
      intros H Hk. pose proof (QS2Reloc.ceB_OP _ _ _ _ b H ltac:(rewrite Hk; reflexivity)) as [En|[G _]].
      - rewrite (ocp_unfold_nil sD b En). rewrite (ocp_unfold_nil sQ) by (rewrite (bik_rB (sgO D o) (eBO D o) (lpO D o)), En; reflexivity). reflexivity.
      - apply (q_onCloseParagraph sD sQ (sgO D o) (eBO D o) (lpO D o) SGood_line eBO_m1 eBO_end lp_line b G). rewrite Hk. discriminate.
    Qed.
  End Region.

  Lemma line_lens o ls a pre body eol post : 0 <= o -> 0 <= ls -> a = o + ls -> lineAt D a pre body eol post ->
    let bi := ls + len body + len eol in
    a + len body + len eol <= len D /\ len (upto (from_ D o) bi) = bi /\ len (upto Q (epsB D a + 2 + len body + len eol)) = epsB D a + 2 + len body + len eol /\
    0 < len body + len eol /\ len eol <= 1 /\ bi <= len (from_ D o) /\ epsB D a + 2 + len body + len eol = epsB D (o + bi).
  Proof.
    intros Ho Hls Ea L. cbv zeta.
    pose proof L as (ED & Ha & Hb & He & Hp & Hne). pose proof (len_nonneg body) as Hlb. pose proof (len_nonneg eol) as Hle.
    destruct (lineAt_Q D a pre body eol post D_cr L) as (Q1 & Q2 & Q3 & Q4).
    assert (HlenD : a + len body + len eol <= len D) by (rewrite ED, !len_app; pose proof (len_nonneg post); lia).
    assert (Hpos : 0 < len body + len eol).
    { destruct body as [|c0 b0]; [|rewrite len_cons; pose proof (len_nonneg b0); lia]. destruct eol as [|c1 e1]; [contradiction|rewrite len_cons; pose proof (len_nonneg e1); change (len (@nil Z)) with 0; lia]. }
    assert (Hel : len eol <= 1) by (destruct He as [->|[-> _]]; [change (len [10]) with 1|change (len (@nil Z)) with 0]; lia).
    assert (Hbf : ls + len body + len eol <= len (from_ D o)) by (rewrite len_from by lia; lia).
    split; [exact HlenD|]. split; [apply len_upto'; lia|]. split; [apply len_upto'; pose proof (epsB_nonneg D a ltac:(lia)); unfold Qd; lia|].
    split; [exact Hpos|]. split; [exact Hel|]. split; [exact Hbf|].
    replace (o + (ls + len body + len eol)) with (a + (len body + len eol)) by lia. rewrite (lineAt_epsB_in D a pre body eol post (len body + len eol) L) by lia. lia.
  Qed.

  (* ---- one line, both runs ---- *)
  Lemma line_step2 o ls a pre body eol post st stQ ks bq (fr : frame) :
    0 <= o -> 0 <= ls -> a = o + ls -> lineAt D a pre body eol post ->
    let bi := ls + len body + len eol in
    let sD := upto (from_ D o) bi in
    let lsq := epsB D a in
    let sQ := upto Q (lsq + 2 + len body + len eol) in
    ccF ks = true -> ceL2 sD sQ (sgO D o) ks -> (st = stDescendTerminated -> HMk ks) ->
    bkind bq = BlockQuoteKind -> isOpen bq = true -> auxOf bq = snd fr -> bkids bq = fst fr ++ map (MO2 D o) ks -> Forall closedB (fst fr) ->
    exists bq' done',
      processLine stQ [bq] lsq sQ = ([bq'], snd (fst (processLine st ks ls sD)), snd (processLine st ks ls sD)) /\
      bkind bq' = BlockQuoteKind /\ isOpen bq' = true /\ auxOf bq' = snd fr /\
      map er done' = map er (fst fr) /\ Forall closedB done' /\
      bkids bq' = done' ++ map (MO2 D o) (fst (fst (processLine st ks ls sD))) /\
      QS2Reloc.ceL0 sD sQ (sgO D o) (fst (fst (processLine st ks ls sD))).
  Proof.
    intros Ho Hls Ea L. cbv zeta. intros Hcc Hce Hst Hk Hop Hax Hkids Hcl.
    set (bi := ls + len body + len eol). set (sD := upto (from_ D o) bi). set (lsq := epsB D a). set (sQ := upto Q (lsq + 2 + len body + len eol)).
    pose proof L as (ED & Ha & Hb & He & Hp & Hne). pose proof (len_nonneg body) as Hlb. pose proof (len_nonneg eol) as Hle.
    destruct (lineAt_Q D a pre body eol post D_cr L) as (Q1 & Q2 & Q3 & Q4). fold lsq in Q1, Q2, Q3, Q4. fold (Qd D) in Q2, Q3, Q4.
    destruct (line_lens o ls a pre body eol post Ho Hls Ea L) as (HlenD & LsD & LsQ & Hpos & Hel & Hbf & EQe). fold bi in LsD, Hbf, EQe. fold sD in LsD. fold lsq in LsQ, EQe. fold sQ in LsQ.
    assert (Hbi0 : 0 < bi) by (unfold bi; lia). assert (Hend : o + bi <= len D) by (unfold bi; lia).
    assert (EsQ2 : sQ = upto Q (epsB D (o + bi))) by (unfold sQ; rewrite EQe; reflexivity).
    assert (EsD : from_ sD ls = body ++ eol).
    { unfold sD, bi. rewrite upto_from_comm by lia. rewrite from_from by lia. replace (o + (ls + len body + len eol)) with (a + len body + len eol) by lia.
      rewrite <- Ea. apply (lineAt_line D a pre body eol post L). }
    assert (EsQ : from_ sQ lsq = lnq (body ++ eol)) by exact Q3.
    assert (Hlsq : 0 <= lsq) by (apply epsB_nonneg; lia).
    assert (Hne' : from_ sD ls <> []) by (rewrite EsD; exact Hne).
    rewrite (processLine_state st ks ls sD Hne' Hst).
    destruct (processLine_quoted fr stQ bq (map (MO2 D o) ks) lsq sQ (body ++ eol) EsQ Hk Hop Hax Hkids Hcl ltac:(unfold MO2; rewrite ccF_map_rB; exact Hcc))
      as (bq' & done' & EP & K1 & K2 & K3 & K4 & K5 & K6).
    assert (RL : processLineAt 2 2 stDescending (map (MO2 D o) ks) lsq sQ =
                 (map (MO2 D o) (fst (fst (processLine stDescending ks ls sD))), snd (fst (processLine stDescending ks ls sD)), snd (processLine stDescending ks ls sD)) /\
                 QS2Reloc.ceL0 sD sQ (sgO D o) (fst (fst (processLine stDescending ks ls sD)))).
    { apply (QS2Reloc.reloc_line sD sQ (sgO D o) (eBO D o) (lpO D o) ls lsq (body ++ eol) (len body)) with (OP := OPd sD (sgO D o)); try assumption.
      - apply eBO_neg.
      - intros e He0. apply eBO_pos; assumption.
      - rewrite <- EsD. apply noTab_from, noTab_upto, noTab_from, D_tab.
      - rewrite len_app. lia.
      - intros x Hx. unfold sgO. cbv zeta. replace (o + (ls + x)) with (a + x) by lia. destruct (Z.ltb_spec (a + x) 0); [lia|].
        apply (lineAt_sigma D a pre body eol post x L Hx).
      - unfold eBO. destruct (Z.ltb_spec ls 0); [lia|]. rewrite <- Ea. reflexivity.
      - intros x Hx. rewrite len_app in Hx. unfold eBO. destruct (Z.ltb_spec (ls + x) 0); [lia|]. replace (o + (ls + x)) with (a + x) by lia.
        apply (lineAt_epsB_in D a pre body eol post x L Hx).
      - intros x Hx. unfold sgO. cbv zeta. destruct (Z.ltb_spec (o + x) 0); [lia|]. apply (lineAt_mono_ge D a pre body eol post (o + x) L). lia.
      - intros x Hx. unfold sgO. cbv zeta. destruct (Z.ltb_spec (o + x) 0); [lia|]. apply (lineAt_mono_lt D a pre body eol post (o + x) L). lia.
      - apply OPd_ext.
      - apply OPd_nil.
      - apply lpO_kind.
      - intros b e Hb0 Hk0 Ho0 He0. revert Hb0. rewrite EsQ2. intros Hb0. apply (HocpC_line o bi Ho Hbi0 Hend b e Hb0 Hk0 Ho0 He0).
      - intros b Hb0 Hk0. revert Hb0. rewrite EsQ2. intros Hb0. apply (HocpP_line o bi Ho Hbi0 Hend b Hb0 Hk0).
      - intros Hlt. rewrite len_app in Hlt. destruct He as [->|[-> _]]; [|change (len (@nil Z)) with 0 in Hlt; lia].
        rewrite at_app_r by lia. replace (len body - len body) with 0 by lia. reflexivity.
      - rewrite LsD. unfold bi. lia.
      - rewrite LsQ. lia.
      - rewrite len_app. destruct He as [->|[-> _]]; [right|left; change (len (@nil Z)) with 0; lia].
        change (len [10]) with 1. split; [lia|]. rewrite at_app_r by lia. replace (len body - len body) with 0 by lia. reflexivity.
      - rewrite len_app. lia.
      - apply OPd_setext. }
    destruct RL as [RL1 RL2]. rewrite RL1 in EP, K6. cbn [fst snd] in EP, K6.
    exists bq', done'. repeat split; assumption.
  Qed.
  Lemma line_step3 o ls a pre body eol post st stQ ks bq (fr : frame) :
    0 <= o -> 0 <= ls -> a = o + ls -> lineAt D a pre body eol post ->
    let bi := ls + len body + len eol in
    let sD := upto (from_ D o) bi in
    let lsq := epsB D a in
    let sQ := upto Q (lsq + 2 + len body + len eol) in
    ccF ks = true -> ceL2 sD sQ (sgO D o) ks -> (st = stDescendTerminated -> HMk ks) ->
    bkind bq = BlockQuoteKind -> isOpen bq = true -> auxOf bq = snd fr -> bkids bq = fst fr ++ map (MO2 D o) ks -> Forall closedB (fst fr) ->
    exists bq' (beta : bool),
      processLine stQ [bq] lsq sQ = ([bq'], snd (fst (processLine st ks ls sD)), snd (processLine st ks ls sD)) /\
      bkind bq' = BlockQuoteKind /\ isOpen bq' = true /\ auxOf bq' = snd fr /\
      Forall closedB (fst (blankFr beta fr)) /\
      bkids bq' = fst (blankFr beta fr) ++ map (MO2 D o) (fst (fst (processLine st ks ls sD))) /\
      (beta = true -> fst (fst (processLine st ks ls sD)) = []) /\
      (ks = [] -> isBlankLine (body ++ eol) = true -> (trimLeftSpTab (body ++ eol) = [] \/ trimLeftSpTab (body ++ eol) = [10]) -> beta = true) /\
      QS2Reloc.ceL0 sD sQ (sgO D o) (fst (fst (processLine st ks ls sD))).
  Proof.
    intros Ho Hls Ea L. cbv zeta. intros Hcc Hce Hst Hk Hop Hax Hkids Hcl.
    set (bi := ls + len body + len eol). set (sD := upto (from_ D o) bi). set (lsq := epsB D a). set (sQ := upto Q (lsq + 2 + len body + len eol)).
    pose proof L as (ED & Ha & Hb & He & Hp & Hne). pose proof (len_nonneg body) as Hlb. pose proof (len_nonneg eol) as Hle.
    destruct (lineAt_Q D a pre body eol post D_cr L) as (Q1 & Q2 & Q3 & Q4). fold lsq in Q1, Q2, Q3, Q4. fold (Qd D) in Q2, Q3, Q4.
    destruct (line_lens o ls a pre body eol post Ho Hls Ea L) as (HlenD & LsD & LsQ & Hpos & Hel & Hbf & EQe). fold bi in LsD, Hbf, EQe. fold sD in LsD. fold lsq in LsQ, EQe. fold sQ in LsQ.
    assert (Hbi0 : 0 < bi) by (unfold bi; lia). assert (Hend : o + bi <= len D) by (unfold bi; lia).
    assert (EsQ2 : sQ = upto Q (epsB D (o + bi))) by (unfold sQ; rewrite EQe; reflexivity).
    assert (EsD : from_ sD ls = body ++ eol).
    { unfold sD, bi. rewrite upto_from_comm by lia. rewrite from_from by lia. replace (o + (ls + len body + len eol)) with (a + len body + len eol) by lia.
      rewrite <- Ea. apply (lineAt_line D a pre body eol post L). }
    assert (EsQ : from_ sQ lsq = lnq (body ++ eol)) by exact Q3.
    assert (Hlsq : 0 <= lsq) by (apply epsB_nonneg; lia).
    assert (Hne' : from_ sD ls <> []) by (rewrite EsD; exact Hne).
    rewrite (processLine_state st ks ls sD Hne' Hst).
    destruct (processLine_quoted2 fr stQ bq (map (MO2 D o) ks) lsq sQ (body ++ eol) EsQ Hk Hop Hax Hkids Hcl ltac:(unfold MO2; rewrite ccF_map_rB; exact Hcc))
      as (bq' & beta & EP & K1 & K2 & K3 & K4 & K6 & K7 & K8).
    assert (RL : processLineAt 2 2 stDescending (map (MO2 D o) ks) lsq sQ =
                 (map (MO2 D o) (fst (fst (processLine stDescending ks ls sD))), snd (fst (processLine stDescending ks ls sD)), snd (processLine stDescending ks ls sD)) /\
                 QS2Reloc.ceL0 sD sQ (sgO D o) (fst (fst (processLine stDescending ks ls sD)))).
    { apply (QS2Reloc.reloc_line sD sQ (sgO D o) (eBO D o) (lpO D o) ls lsq (body ++ eol) (len body)) with (OP := OPd sD (sgO D o)); try assumption.
      - apply eBO_neg.
      - intros e He0. apply eBO_pos; assumption.
      - rewrite <- EsD. apply noTab_from, noTab_upto, noTab_from, D_tab.
      - rewrite len_app. lia.
      - intros x Hx. unfold sgO. cbv zeta. replace (o + (ls + x)) with (a + x) by lia. destruct (Z.ltb_spec (a + x) 0); [lia|].
        apply (lineAt_sigma D a pre body eol post x L Hx).
      - unfold eBO. destruct (Z.ltb_spec ls 0); [lia|]. rewrite <- Ea. reflexivity.
      - intros x Hx. rewrite len_app in Hx. unfold eBO. destruct (Z.ltb_spec (ls + x) 0); [lia|]. replace (o + (ls + x)) with (a + x) by lia.
        apply (lineAt_epsB_in D a pre body eol post x L Hx).
      - intros x Hx. unfold sgO. cbv zeta. destruct (Z.ltb_spec (o + x) 0); [lia|]. apply (lineAt_mono_ge D a pre body eol post (o + x) L). lia.
      - intros x Hx. unfold sgO. cbv zeta. destruct (Z.ltb_spec (o + x) 0); [lia|]. apply (lineAt_mono_lt D a pre body eol post (o + x) L). lia.
      - apply OPd_ext.
      - apply OPd_nil.
      - apply lpO_kind.
      - intros b e Hb0 Hk0 Ho0 He0. revert Hb0. rewrite EsQ2. intros Hb0. apply (HocpC_line o bi Ho Hbi0 Hend b e Hb0 Hk0 Ho0 He0).
      - intros b Hb0 Hk0. revert Hb0. rewrite EsQ2. intros Hb0. apply (HocpP_line o bi Ho Hbi0 Hend b Hb0 Hk0).
      - intros Hlt. rewrite len_app in Hlt. destruct He as [->|[-> _]]; [|change (len (@nil Z)) with 0 in Hlt; lia].
        rewrite at_app_r by lia. replace (len body - len body) with 0 by lia. reflexivity.
      - rewrite LsD. unfold bi. lia.
      - rewrite LsQ. lia.
      - rewrite len_app. destruct He as [->|[-> _]]; [right|left; change (len (@nil Z)) with 0; lia].
        change (len [10]) with 1. split; [lia|]. rewrite at_app_r by lia. replace (len body - len body) with 0 by lia. reflexivity.
      - rewrite len_app. lia.
      - apply OPd_setext. }
    destruct RL as [RL1 RL2]. rewrite RL1 in EP, K6, K7. cbn [fst snd] in EP, K6, K7.
    exists bq', beta. split; [exact EP|]. split; [exact K1|]. split; [exact K2|]. split; [exact K3|]. split; [exact K4|]. split; [exact K6|].
    split; [intros Hbeta; specialize (K7 Hbeta); destruct (fst (fst (processLine stDescending ks ls sD))); [reflexivity|discriminate K7]|].
    split; [intros E0; apply K8; rewrite E0; reflexivity|exact RL2].
  Qed.
End Line.

Check line_step2.
Print Assumptions line_step2.

Check line_step3.
Print Assumptions line_step3.
