(* QS2FlagM.v -- T58b part M: TopPara under the growth of the source and under makeRoot's cut. *)
From Coq Require Import List ZArith Lia Bool.
Import ListNotations.
Require Import Base Tree Rdr Link Collect LP Driver Rec17 L2CC TDefs LADef LA1 LA11 LA12 ShDef QS2FlagA QS2FlagG.
Open Scope Z_scope.

(* the source may change beyond M *)
Lemma TopPara_agree src src' M ks : (forall q, q < M -> at_ src' q = at_ src q) -> TopPara src M ks -> TopPara src' M ks.
Proof.
  intros Ha H pre0 c E Ho Hk. destruct (H pre0 c E Ho Hk) as (preL & ul & A & B & C & (q & Hq & Hw)).
  exists preL, ul. split; [exact A|]. split; [exact B|]. split; [exact C|]. exists q. split; [exact Hq|]. rewrite Ha by lia. exact Hw.
Qed.
Lemma at_firstn : forall (l : bytes) n i, (i < n)%nat -> nth i (firstn n l) 0 = nth i l 0.
Proof.
  induction l as [|x l IH]; intros n i Hi; [rewrite firstn_nil; reflexivity|]. destruct n as [|n]; [lia|]. cbn [firstn].
  destruct i as [|i]; [reflexivity|]. cbn [nth]. apply IH. lia.
Qed.
Lemma at_upto_agree (buf : bytes) a b q : q < a -> a <= b -> at_ (upto buf b) q = at_ (upto buf a) q.
Proof.
  intros Hq Hab. unfold at_. destruct (Z.ltb_spec q 0) as [L|L]; [reflexivity|]. unfold upto. rewrite !at_firstn by lia. reflexivity.
Qed.
(* the step of lineLoop: the source is extended by the next line *)
Lemma TopPara_next_line (buf : bytes) a b ks : a <= b -> TopPara (upto buf a) a ks -> TopPara (upto buf b) a ks.
Proof. intros Hab. apply TopPara_agree. intros q Hq. apply at_upto_agree; assumption. Qed.

(* the last block only *)
Lemma TopPara_tail src M b rest : rest <> [] -> TopPara src M (b :: rest) -> TopPara src M rest.
Proof. intros _ H pre0 c E. apply (H (b :: pre0) c). rewrite E. reflexivity. Qed.

Lemma iend_shiftI n u : iend (shiftI n u) = if 0 <=? iend u then iend u + n else iend u. Proof. destruct u; reflexivity. Qed.
Lemma istart_shiftI n u : istart (shiftI n u) = istart u + n. Proof. destruct u; reflexivity. Qed.
Lemma ikind_shiftI n u : ikind (shiftI n u) = ikind u. Proof. destruct u; reflexivity. Qed.
Lemma bik_shiftB n b : bik (shiftB n b) = map (shiftI n) (bik b). Proof. destruct b; reflexivity. Qed.
Lemma bend_shiftB' n b : bend (shiftB n b) = if 0 <=? bend b then bend b + n else bend b. Proof. destruct b; reflexivity. Qed.
Lemma bkind_shiftB' n b : bkind (shiftB n b) = bkind b. Proof. destruct b; reflexivity. Qed.

Lemma TopPara_shift src ls ks n : 0 <= n <= ls ->
  (forall pre0 c, ks = pre0 ++ [c] -> isOpen c = false -> n <= bend c) ->
  (forall pre0 c preL ul, ks = pre0 ++ [c] -> isOpen c = true -> bkind c = ParagraphKind -> bik c = preL ++ [ul] -> n <= istart ul) ->
  TopPara src ls ks -> TopPara (from_ src n) (ls - n) (map (shiftB (- n)) ks).
Proof.
  intros Hn Hcl Hst H pre0 c' E Ho Hk.
  destruct (list_snoc_cases ks) as [E0|(pre1 & c & E0)]; [subst ks; destruct pre0; discriminate|].
  rewrite E0, map_app in E. cbn [map] in E. apply app_inj_tail in E. destruct E as [_ <-].
  assert (Ho' : isOpen c = true).
  { unfold isOpen in *. rewrite bend_shiftB' in Ho. destruct (Z.leb_spec 0 (bend c)) as [L|L]; [|apply Z.ltb_lt; exact L].
    apply Z.ltb_lt in Ho. exfalso. assert (Hc : isOpen c = false) by (unfold isOpen; apply Z.ltb_ge; exact L). pose proof (Hcl pre1 c E0 Hc). lia. }
  rewrite bkind_shiftB' in Hk.
  destruct (H pre1 c E0 Ho' Hk) as (preL & ul & A & B & C & (q & Hq & Hw)).
  pose proof (Hst pre1 c preL ul E0 Ho' Hk A) as Hs.
  exists (map (shiftI (- n)) preL), (shiftI (- n) ul). split; [rewrite bik_shiftB, A, map_app; reflexivity|].
  split; [rewrite ikind_shiftI; exact B|]. rewrite iend_shiftI, istart_shiftI, C.
  replace (0 <=? ls) with true by (symmetry; apply Z.leb_le; lia). split; [lia|].
  exists (q - n). split; [lia|]. rewrite at_from' by lia. exact Hw.
Qed.

(* positions in a chain of blocks *)
Lemma tchain_In src op : forall l lo hi c, tchain src op lo hi l -> In c l -> lo <= bstart c.
Proof.
  induction l as [|x r IH]; intros lo hi c H Hin; [destruct Hin|]. cbn [tchain] in H. destruct H as (A & _ & B).
  destruct Hin as [->|Hin]; [exact A|]. destruct (bend x <? 0); [destruct B as [_ ->]; destruct Hin|].
  destruct B as [B1 B2]. specialize (IH _ _ c B2 Hin). lia.
Qed.
Lemma tchain_after src op x r lo hi c : tchain src op lo hi (x :: r) -> In c r -> bend x <= bstart c.
Proof.
  cbn [tchain]. intros (_ & _ & B) Hin. destruct (bend x <? 0); [destruct B as [_ ->]; destruct Hin|]. destruct B as [_ B2]. eapply tchain_In; eassumption.
Qed.

(* makeRoot: the pending blocks after the cut *)
Lemma TopPara_makeRoot ks s r s' : 0 <= bi s <= len (buf s) ->
  la (upto (buf s) (bi s)) (bi s) (docRoot ks) -> TopPara (upto (buf s) (bi s)) (bi s) ks -> makeRoot ks s = Some (r, s') ->
  TopPara (upto (buf s') (bi s')) (bi s') (pending s').
Proof.
  intros Hbi Hla HT Hm. unfold makeRoot in Hm. destruct ks as [|b rest]; [discriminate|]. destruct (isOpen b) eqn:Eob; [discriminate|].
  inversion Hm; subst r s'. cbn [buf bi pending]. clear Hm.
  unfold docRoot in Hla. cbn [la] in Hla. change (-1 <? 0) with true in Hla. change (isLeafK documentKind) with false in Hla.
  change (documentKind =? ListMarkerKind) with false in Hla. change (documentKind =? LinkReferenceDefinitionKind) with false in Hla. cbv iota in Hla.
  destruct Hla as (_ & _ & _ & (Htc & _) & Hq).
  assert (Hb0 : 0 <= bend b) by (unfold isOpen in Eob; apply Z.ltb_ge in Eob; exact Eob).
  assert (Hlab : la (upto (buf s) (bi s)) (bi s) b) by (apply Hq).
  assert (Hbe : bend b <= bi s).
  { destruct b as [K s0 e bk ik a n c l lb]. cbn [la bend] in *. destruct Hlab as (_ & [L|(L & _)] & _); lia. }
  destruct rest as [|c0 rest0]; [intros pre0 c E; destruct pre0; discriminate|].
  rewrite <- (ShDef.from_upto (buf s) (bend b) (bi s) Hb0).
  apply TopPara_shift; [lia| | |eapply TopPara_tail; [discriminate|exact HT]].
  { intros pre0 c E Hoc.
    assert (Hin : In c (c0 :: rest0)) by (rewrite E; apply in_or_app; right; left; reflexivity).
    pose proof (tchain_after _ _ b (c0 :: rest0) 0 (bi s) c Htc Hin) as Hbs.
    assert (Hlc : la (upto (buf s) (bi s)) (bi s) c) by (destruct Hq as [_ Hq]; apply (allQ_In _ _ c Hq Hin)).
    unfold isOpen in Hoc. apply Z.ltb_ge in Hoc. destruct c as [K s0 e bk ik a n ch l lb]. cbn [la bend bstart] in *. destruct Hlc as (_ & [L|(L & _)] & _); lia. }
  intros pre0 c preL ul E Hoc Hkc Eik.
  assert (Hin : In c (c0 :: rest0)) by (rewrite E; apply in_or_app; right; left; reflexivity).
  pose proof (tchain_after _ _ b (c0 :: rest0) 0 (bi s) c Htc Hin) as Hbs.
  assert (Hlc : la (upto (buf s) (bi s)) (bi s) c) by (destruct Hq as [_ Hq]; apply (allQ_In _ _ c Hq Hin)).
  destruct (la_open_para _ _ c Hlc Hoc Hkc) as (_ & Ht & _). rewrite Eik, map_app in Ht. apply (proj1 (tileS_app _ _ _ _ _)) in Ht. destruct Ht as [Ht1 Ht2].
  pose proof (tileS_le _ _ _ _ Ht1) as Hle. cbn [map tileS ispan fst] in Ht2. lia.
Qed.
