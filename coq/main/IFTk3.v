From Coq Require Import List ZArith Lia Bool.
Import ListNotations.
Require Import Base Tables Utf8 Tree Rdr Link Collect Html Recog Inl3a Inl3b Inl3c Inl3d Driver Inl3e PEProof.
Require Import GI0 GI1 GI2 GI3 GI4 GI5 GI6 IFTree IFPe IFTk1 IFTk2 IFTokDef.
Open Scope Z_scope.

(* ================================================================ the invariant through parseEndBracket and one tokeniser step *)
Lemma nid_lfl : forall fuel st i, nid (fst (lfl fuel st i)) = nid st.
Proof.
  induction fuel as [|f IH]; intros st i; [reflexivity|]. cbn [lfl]. destruct (i <? 0); [reflexivity|].
  destruct (_ || _); [destruct (negb _); reflexivity|apply IH].
Qed.

Ltac zk := first [apply zkeys_kidsOf | apply zkeys_nil | (match goal with |- zkeys (if ?c then _ else _) => destruct c; [apply zkeys_kidsOf|apply zkeys_nil] end)].
Ltac gs :=
  match goal with
  | |- Good _ _ (fst (_, _)) => cbn [fst]
  | |- Good _ _ (finishLink _ _ _) => apply G_finishLink; [|lia]
  | |- Good _ _ (advanceTo _ _) => apply G_advanceTo
  | |- Good _ _ (appendKid _ _ (PN 0 _ _ _ 0 _ _)) => apply G_appendKid; [|zk]
  | |- Good _ _ (updN _ _ (fun n => setSpan n _ _)) => apply G_updSpan; [|lia]
  | |- Good _ _ (updN _ _ (fun n => setRef (setSpan n _ _) _)) => apply G_updSpanRef; [|lia]
  | |- Good _ _ (addText _ _ _) => apply G_addText
  | |- Good _ _ (setIgn _ _) => apply G_setIgn
  | |- Good _ _ (if ?c then _ else _) => destruct c
  end.

Lemma parseEndBracketF_Good rf tf st start : TKb (nid st) st ->
  Good (nid st) st (fst (parseEndBracketF rf tf st start)).
Proof.
  intros HT. unfold parseEndBracketF. cbv zeta.
  pose proof (lfl_Good (nid st) st (S (length (stk st))) st (len (stk st) - 1) (Good_refl _ _ HT)) as G1.
  pose proof (nid_lfl (S (length (stk st))) st (len (stk st) - 1)) as N1.
  pose proof (lfl_spec (S (length (stk st))) st (len (stk st) - 1) ltac:(lia)) as Hsp.
  unfold lookForLinkOrImage. destruct (lfl (S (length (stk st))) st (len (stk st) - 1)) as [st1 odi]. cbn [fst snd] in *.
  destruct (Z.ltb_spec odi 0) as [Hneg|Hodi]; [repeat gs; exact G1|].
  destruct Hsp as [(E & _)|(Hr & E1 & _)]; [lia|]. subst st1.
  assert (Hod : 0 < d_node (nthD (stk st) odi)).
  { destruct HT as (_ & _ & S1 & _). specialize (S1 _ (nthD_In (stk st) odi Hr)). lia. }
  assert (Hfail : Good (nid st) st (setStk (addText st start (start + 1)) (delStack (stk st) odi (odi + 1)))).
  { apply G_setStk; [apply G_addText, G1|]. rewrite stk_addText. apply Subl_map, Subl_delStack. lia. }
  match goal with |- context [match ?X with Some _ => _ | None => _ end] => destruct X as [[[[[ispan dspan] dtext] tspan] ttext]|] end.
  - match goal with |- context [wrap ?s ?k ?a ?b] => pose proof (G_wrap (nid st) st s k a b G1 Hod) as G2; pose proof (snd_wrap s k a b) as El;
      destruct (wrap s k a b) as [st2 lid]; cbn [fst snd] in G2, El end.
    subst lid. repeat gs; exact G2.
  - match goal with |- Good _ _ (fst (match ?X with pair _ _ => _ end)) => destruct X as [lspan linner] end.
    match goal with |- Good _ _ (fst (if ?c then _ else _)) => destruct c end.
    + destruct (negb (matchRef _ _)); [cbn [fst]; exact Hfail|].
      match goal with |- context [wrap ?s ?k ?a ?b] => pose proof (G_wrap (nid st) st s k a b G1 Hod) as G2; pose proof (snd_wrap s k a b) as El;
        destruct (wrap s k a b) as [st2 lid]; cbn [fst snd] in G2, El end.
      subst lid. repeat gs; exact G2.
    + destruct (spanValid lspan).
      * destruct (negb (matchRef _ _)); [cbn [fst]; exact Hfail|].
        match goal with |- context [wrap ?s ?k ?a ?b] => pose proof (G_wrap (nid st) st s k a b G1 Hod) as G2; pose proof (snd_wrap s k a b) as El;
          destruct (wrap s k a b) as [st2 lid]; cbn [fst snd] in G2, El end.
        subst lid. repeat gs; exact G2.
      * destruct (negb (matchRef _ _)); [cbn [fst]; exact Hfail|].
        match goal with |- context [wrap ?s ?k ?a ?b] => pose proof (G_wrap (nid st) st s k a b G1 Hod) as G2; pose proof (snd_wrap s k a b) as El;
          destruct (wrap s k a b) as [st2 lid]; cbn [fst snd] in G2, El end.
        subst lid. repeat gs; exact G2.
Qed.

(* the children of a code span are leaves with identity 0 *)
Definition leaf0 (n : pn) : Prop := pid n = 0 /\ pkids n = [].
Lemma cs_addSpan_leaf0 s0 acc s e : Forall leaf0 acc -> Forall leaf0 (cs_addSpan s0 acc s e).
Proof.
  intros H. unfold cs_addSpan. cbv zeta.
  repeat match goal with |- context [if ?c then _ else _] => destruct c end;
    repeat (apply Forall_app; split); try assumption; repeat constructor.
Qed.
Lemma leaf0_setInd n v : leaf0 n -> leaf0 (setInd n v). Proof. destruct n; cbn; tauto. Qed.
Lemma leaf0_setSpan n s e : leaf0 n -> leaf0 (setSpan n s e). Proof. destruct n; cbn; tauto. Qed.
Lemma Forall_rev'' {A} (P : A -> Prop) l : Forall P l -> Forall P (rev l).
Proof. intros H. rewrite Forall_forall in *. intros x Hx. apply H. apply in_rev. assumption. Qed.
Lemma strip_leaf0 s0 sl : Forall leaf0 sl -> Forall leaf0 (stripCodeSpanSpace s0 sl).
Proof.
  intros H. unfold stripCodeSpanSpace.
  destruct (negb (existsb _ sl)); [assumption|].
  destruct sl as [|f r]; [assumption|].
  destruct (rev (f :: r)) as [|lst rr] eqn:Er; [assumption|].
  destruct (negb _ || negb _); [assumption|].
  cbv zeta.
  assert (H1 : Forall leaf0 (if pkind f =? IndentKind
                             then if pind (setInd f (pind f - 1)) =? 0 then r else setInd f (pind f - 1) :: r
                             else if plen (setSpan f (ps f + 1) (pe f)) =? 0 then r else setSpan f (ps f + 1) (pe f) :: r)).
  { inversion H as [|? ? Hf Hr]; subst.
    destruct (pkind f =? IndentKind); [destruct (pind _ =? 0)|destruct (plen _ =? 0)]; try assumption;
      constructor; try assumption; [apply leaf0_setInd|apply leaf0_setSpan]; assumption. }
  set (sl1 := if pkind f =? IndentKind then _ else _) in *.
  destruct (rev sl1) as [|l rr'] eqn:Er1; [assumption|].
  assert (H2 : Forall leaf0 (l :: rr')) by (rewrite <- Er1; apply Forall_rev''; assumption).
  inversion H2 as [|? ? Hl Hrr]; subst.
  destruct (pkind l =? IndentKind); match goal with |- context [if ?c then _ else _] => destruct c end;
    try (apply Forall_rev''; assumption);
    apply (Forall_rev'' leaf0 (_ :: rr')); constructor; try assumption; [apply leaf0_setInd|apply leaf0_setSpan]; assumption.
Qed.

Lemma collectCodeSpan_Good b st0 st a bb c d : Good b st0 st -> Good b st0 (collectCodeSpan st a bb c d).
Proof.
  intros HG. unfold collectCodeSpan. cbv zeta. destruct (_ =? 0).
  - cbv beta iota. apply G_addNode; [exact HG|]. apply zkeys_leaves, strip_leaf0, cs_addSpan_leaf0. constructor.
  - match goal with |- context [match ?X with pair _ _ => _ end] =>
      match X with
      | context [match ?Y with pair _ _ => _ end] =>
        assert (Hacc : Forall leaf0 (fst Y)); [|destruct Y as [acc up]]
      end
    end.
    { match goal with |- Forall leaf0 (fst ((fix mid (k : nat) (acc : list pn) (up : Z) {struct k} : list pn * Z := _) ?kk ?aa ?uu)) =>
        assert (Ha : Forall leaf0 aa) by (apply cs_addSpan_leaf0; apply Forall_nil); revert Ha; generalize uu aa; generalize kk end.
      intros kk. induction kk as [|kk IH]; intros u0 a0 Ha0; [exact Ha0|].
      apply IH. destruct (_ =? UnparsedKind); [apply cs_addSpan_leaf0; exact Ha0|exact Ha0]. }
    cbn [fst] in Hacc. cbv beta iota. apply G_addNode; [apply G_setUpos, HG|]. apply zkeys_leaves, strip_leaf0, cs_addSpan_leaf0. exact Hacc.
Qed.
