(* QS2FlagG.v -- T58b part G: the call of processLine at the end of input (from_ src ls = []).
   TopPara src ls ks: when the last top-level child is an open paragraph, its last entry is an Unparsed entry that ends at ls
   and is not blank.  (True at every call of processLine in a run; tested by vm_compute, see the final report.) *)
From Coq Require Import List ZArith Lia Bool.
Import ListNotations.
Require Import Base Tree Rdr Link Collect Html Recog LP Rules Starts Driver L2Kind2 L2CC TDefs TOcp TInv TDesc TLine StreamFuel QuoteSimQLine LADef LA1 LA11 QS2FlagA QS2FlagF.
Open Scope Z_scope.

Definition lastOpen (ks : list block) : Prop := forall pre c, ks = pre ++ [c] -> isOpen c = true.
Definition TopPara (src : bytes) (ls : Z) (ks : list block) : Prop :=
  forall pre0 c, ks = pre0 ++ [c] -> isOpen c = true -> bkind c = ParagraphKind ->
    exists preL ul, bik c = preL ++ [ul] /\ ikind ul = UnparsedKind /\ iend ul = ls /\
      (exists q, istart ul <= q < iend ul /\ isSpaceTabOrLineEnding (at_ src q) = false).

Lemma TopPara_nil src ls : TopPara src ls [].
Proof. intros pre0 c E. destruct pre0; discriminate. Qed.

Lemma la_open_para src M c : la src M c -> isOpen c = true -> bkind c = ParagraphKind ->
  0 <= bstart c /\ tileS src (bstart c) M (map ispan (bik c)) /\ Forall (eok src ParagraphKind) (bik c) /\ indOK (bik c).
Proof.
  destruct c as [K s e bk ik a n ch l lb]. unfold isOpen. cbn [bend bkind bstart bik la]. intros H Ho Hk. subst K.
  rewrite Ho in H. change (isLeafK ParagraphKind) with true in H. cbv iota in H.
  destruct H as (A & _ & _ & (B & C & D) & _). split; [lia|]. split; [exact B|]. split; [exact C|apply D; reflexivity].
Qed.

Lemma eofSt_notTerm st ks : (st = stDescendTerminated -> HM ks) -> eofSt st ks <> stDescendTerminated.
Proof.
  intros Hst. unfold eofSt, descState. cbn [root0].
  destruct (lastBlock (root0 ks)) as [c|] eqn:El.
  - destruct (isOpen c && hasMatch (bkind c)) eqn:Ec; [discriminate|]. intros E0. destruct (Hst E0) as (pre & c' & Ek & Ho & Hh).
    unfold lastBlock, root0 in El. cbn [bkids] in El. rewrite Ek, rev_app_distr in El. cbn in El. inversion El; subst c'. rewrite Ho, Hh in Ec. discriminate.
  - intros E0. destruct (Hst E0) as (pre & c' & Ek & _). unfold lastBlock, root0 in El. cbn [bkids] in El. rewrite Ek, rev_app_distr in El. discriminate.
Qed.

Theorem processLine_gap_flag_eof st ks ls src :
  from_ src ls = [] -> 0 <= ls <= len src -> (st = stDescendTerminated -> HM ks) -> lastOpen ks -> GoodL 0 ks ->
  la src ls (docRoot ks) -> TopPara src ls ks ->
  forall pre b, fst (fst (processLine st ks ls src)) = pre ++ [b] -> isOpen b = false -> bend b < ls + len (from_ src ls) ->
  blastOf b = true.
Proof.
  intros Hl Hls Hst HO HG Hla HT pre b Ek Hob Hb. exfalso. rewrite Hl in Hb. change (len (@nil Z)) with 0 in Hb.
  rewrite (processLine_eof st ks ls src Hl) in Ek. cbn [fst] in Ek.
  rewrite (eofK_close st ks ls src (eofSt_notTerm st ks Hst)) in Ek. unfold eofClose in Ek.
  destruct (list_snoc_cases ks) as [E0|(pre0 & c & E0)].
  { subst ks. cbn in Ek. destruct pre; discriminate. }
  rewrite E0, rev_app_distr in Ek. cbn [rev app] in Ek. rewrite removelast_snoc in Ek.
  pose proof (HO pre0 c E0) as Hoc.
  assert (Hf : exists f, (bheight (root0 ks) - 1)%nat = S f).
  { destruct (bheight_last (root0 ks) c) as (f & Ef); [unfold lastBlock; cbn [bkids root0]; rewrite E0, rev_app_distr; reflexivity|].
    exists f. rewrite Ef. lia. }
  destruct Hf as (f & Ef). rewrite E0 in Ef. rewrite Ef in Ek.
  assert (Hres : exists pre1 x, closeBlock (S f) src c ls = pre1 ++ [x] /\ ls <= bend x).
  { assert (Nse : bkind c <> SetextHeadingKind).
    { rewrite E0 in HG. apply GoodL_app_inv in HG; [|discriminate]. destruct HG as (_ & _ & HG). cbn [GoodL] in HG. rewrite Hoc in HG. apply HG. }
    destruct (Z.eq_dec (bkind c) ParagraphKind) as [Ep|Np].
    - (* a paragraph: the definitions are split off *)
      assert (Hlc : la src ls c).
      { unfold docRoot in Hla. cbn [la] in Hla. destruct Hla as (_ & _ & _ & _ & Hq). apply (allQ_In _ _ c Hq). rewrite E0. apply in_or_app. right. left. reflexivity. }
      destruct (la_open_para src ls c Hlc Hoc Ep) as (P0 & P1 & P2 & P3).
      destruct (HT pre0 c E0 Hoc Ep) as (preL & ul & T1 & T2 & T3 & T4).
      cbn [closeBlock]. rewrite Hoc. cbn [negb]. cbv zeta. rewrite !bkind_set_bend, Ep.
      change (ParagraphKind =? ListKind) with false. change (ParagraphKind =? IndentedCodeBlockKind) with false.
      change ((ParagraphKind =? ParagraphKind) || (ParagraphKind =? SetextHeadingKind)) with true. cbv iota.
      apply (onCloseParagraph_last_hi src (set_bend c ls) ls preL ul).
      + rewrite bkind_set_bend. exact Nse.
      + apply bend_set_bend.
      + lia.
      + destruct c; exact P0.
      + rewrite bik_set_bend. destruct c; exact P1.
      + rewrite bik_set_bend. exact P2.
      + rewrite bik_set_bend. exact P3.
      + rewrite bik_set_bend. exact T1.
      + exact T2.
      + exact T3.
      + exact T4.
    - destruct (closeBlock_keep_end f src c ls Hoc Np Nse) as (x & E1 & E2 & _). exists [], x. split; [exact E1|lia]. }
  destruct Hres as (pre1 & x & E1 & E2). rewrite E1, app_assoc in Ek. apply app_inj_tail in Ek. destruct Ek as [_ <-]. lia.
Qed.
Print Assumptions processLine_gap_flag_eof.
