From Coq Require Import List ZArith Lia Bool.
Import ListNotations.
Require Import Base Tree Rdr Link Collect Html Recog LP Rules Starts Driver Render L2Kind L2CC GramDefs.
Open Scope Z_scope.

(* ================= tree-level lemmas for the block grammar invariant gb ================= *)

Lemma gb_eq b : gb b = gbLoc b && gbL (bkids b).
Proof. destruct b; reflexivity. Qed.
Lemma gb_parts b : gb b = true -> gbLoc b = true /\ gbL (bkids b) = true.
Proof. rewrite gb_eq. apply andb_true_iff. Qed.
Lemma gb_intro b : gbLoc b = true -> gbL (bkids b) = true -> gb b = true.
Proof. intros H1 H2. rewrite gb_eq, H1, H2. reflexivity. Qed.
Lemma gbL_app a b : gbL (a ++ b) = gbL a && gbL b. Proof. apply forallb_app. Qed.
Lemma gbL_one x : gbL [x] = gb x. Proof. unfold gbL. cbn [forallb]. apply andb_true_r. Qed.

(* kinds that never receive inline entries *)
Definition nikK (K : Z) : bool := (K =? ListMarkerKind) || (K =? ThematicBreakKind) || (K =? LinkReferenceDefinitionKind).
Definition isPara (k : Z) : bool := (k =? ParagraphKind) || (k =? SetextHeadingKind).
Definition isPR (k : Z) : bool := isPara k || (k =? LinkReferenceDefinitionKind).

(* ---- setters ---- *)
Lemma gb_set_bstart b v : gb (set_bstart b v) = gb b. Proof. destruct b; reflexivity. Qed.
Lemma gb_set_bindent b v : gb (set_bindent b v) = gb b. Proof. destruct b; reflexivity. Qed.
Lemma gb_set_blast b v : gb (set_blast b v) = gb b. Proof. destruct b; reflexivity. Qed.
Lemma gb_set_bik b v : nikK (bkind b) = false -> gb (set_bik b v) = gb b.
Proof.
  intros H. destruct b as [K s e bk ik a n c l lb]. cbn [bkind] in H. unfold nikK in H.
  apply orb_false_iff in H. destruct H as [H1 H2].
  cbn [set_bik gb]. f_equal. unfold gbLoc, gbLocK. cbn [bkind bkids bik bn bchar bloose]. rewrite H1, H2. reflexivity.
Qed.
Lemma gb_set_bn b v : isHeading (bkind b) = false -> gb (set_bn b v) = gb b.
Proof.
  intros H. destruct b as [K s e bk ik a n c l lb]. cbn [bkind] in H. unfold isHeading in H.
  apply orb_false_iff in H. destruct H as [H1 H2].
  cbn [set_bn gb]. f_equal. unfold gbLoc, gbLocK. cbn [bkind bkids bik bn bchar bloose]. rewrite H1, H2. reflexivity.
Qed.
Lemma gb_set_bchar b v : (bkind b =? ListKind) = false -> gb (set_bchar b v) = gb b.
Proof.
  intros H. destruct b as [K s e bk ik a n c l lb]. cbn [bkind] in H.
  cbn [set_bchar gb]. f_equal. unfold gbLoc, gbLocK. cbn [bkind bkids bik bn bchar bloose]. rewrite H. reflexivity.
Qed.
Lemma gb_set_bloose b v : (bkind b =? ListKind) = false -> gb (set_bloose b v) = gb b.
Proof.
  intros H. destruct b as [K s e bk ik a n c l lb]. cbn [bkind] in H.
  cbn [set_bloose gb]. f_equal. unfold gbLoc, gbLocK. cbn [bkind bkids bik bn bchar bloose]. rewrite H. reflexivity.
Qed.
Lemma gb_set_bend b v : (bkind b =? ListKind) && bloose b = false -> gb (set_bend b v) = gb b.
Proof.
  intros H. destruct b as [K s e bk ik a n c l lb]. cbn [bkind bloose] in H.
  cbn [set_bend gb]. f_equal. unfold gbLoc, gbLocK. cbn [bkind bkids bik bn bchar bloose].
  destruct (K =? ListKind) eqn:E; [|reflexivity]. cbn [andb] in H. subst l. reflexivity.
Qed.

Lemma bkids_set_bkids b v : bkids (set_bkids b v) = v. Proof. destruct b; reflexivity. Qed.
Lemma bchar_set_lastBlocks b v : bchar (set_lastBlocks b v) = bchar b. Proof. destruct b; reflexivity. Qed.
Lemma bloose_set_lastBlocks b v : bloose (set_lastBlocks b v) = bloose b. Proof. destruct b; reflexivity. Qed.
Lemma isOpen_set_lastBlocks b v : isOpen (set_lastBlocks b v) = isOpen b. Proof. destruct b; reflexivity. Qed.
Lemma gbLoc_set_bkids b v :
  gbLoc (set_bkids b v) = gbLocK (bkind b) v (bik b) (isOpen b) (bn b) (bchar b) (bloose b).
Proof. destruct b; reflexivity. Qed.

(* ---- replacing the last child ---- *)
Lemma lastBlock_kids b c : lastBlock b = Some c -> bkids b = removelast (bkids b) ++ [c].
Proof.
  unfold lastBlock. destruct (rev (bkids b)) as [|x r] eqn:Er; [discriminate|]. intros H. inversion H; subst x.
  assert (E : bkids b = rev r ++ [c]) by (rewrite <- (rev_involutive (bkids b)), Er; reflexivity).
  rewrite E. rewrite removelast_last. reflexivity.
Qed.

Definition sameAs (c y : block) : Prop :=
  bkind y = bkind c /\ (bkind c = ListItemKind -> bchar y = bchar c /\ bloose y = bloose c).
Definition relB (x y : block) : Prop := sameAs x y \/ (isPara (bkind x) = true /\ isPara (bkind y) = true).
Definition okRepl (c : block) (repl : list block) : Prop :=
  gbL repl = true /\
  ((exists y, repl = [y] /\ sameAs c y) \/ (isPara (bkind c) = true /\ forallb (fun y => isPR (bkind y)) repl = true)).

Lemma sameAs_refl c : sameAs c c. Proof. split; [reflexivity|tauto]. Qed.
Lemma relB_refl c : relB c c. Proof. left. apply sameAs_refl. Qed.
Lemma isPR_nmi y : isPR (bkind y) = true -> notMarkerItem y = true.
Proof.
  unfold isPR, isPara, notMarkerItem. intros H.
  destruct (Z.eqb_spec (bkind y) ParagraphKind) as [->|N1]; [reflexivity|].
  destruct (Z.eqb_spec (bkind y) SetextHeadingKind) as [->|N2]; [reflexivity|].
  destruct (Z.eqb_spec (bkind y) LinkReferenceDefinitionKind) as [->|N3]; [reflexivity|discriminate].
Qed.
Lemma isPara_nik k : isPara k = true -> nikK k = false.
Proof.
  unfold isPara, nikK. intros H.
  destruct (Z.eqb_spec k ParagraphKind) as [E1|N1]; [subst k; reflexivity|].
  destruct (Z.eqb_spec k SetextHeadingKind) as [E2|N2]; [subst k; reflexivity|discriminate].
Qed.
Lemma isPara_notList k : isPara k = true -> (k =? ListKind) = false.
Proof.
  unfold isPara. intros H.
  destruct (Z.eqb_spec k ParagraphKind) as [E1|N1]; [subst k; reflexivity|].
  destruct (Z.eqb_spec k SetextHeadingKind) as [E2|N2]; [subst k; reflexivity|discriminate].
Qed.
Lemma isPara_notItem k : isPara k = true -> k <> ListItemKind.
Proof. intros H ->. discriminate. Qed.
Lemma isPara_notMarker k : isPara k = true -> k <> ListMarkerKind.
Proof. intros H ->. discriminate. Qed.

Lemma gbLocK_repl K pre c repl ik op n ch lo :
  gbLocK K (pre ++ [c]) ik op n ch lo = true ->
  ((exists y, repl = [y] /\ sameAs c y) \/ (isPara (bkind c) = true /\ forallb (fun y => isPR (bkind y)) repl = true)) ->
  gbLocK K (pre ++ repl) ik op n ch lo = true.
Proof.
  intros H Hr. unfold gbLocK in *.
  destruct (K =? ListItemKind).
  { (* list item: the marker stays first, no new marker or item *)
    destruct pre as [|m pre'].
    - cbn [app itemKids] in H. apply andb_true_iff in H. destruct H as [Hm _]. apply Z.eqb_eq in Hm.
      destruct Hr as [(y & -> & Ek & _)|[Hp _]].
      + cbn [app itemKids forallb]. rewrite Ek, Hm. reflexivity.
      + rewrite Hm in Hp. discriminate.
    - cbn [app itemKids] in *. apply andb_true_iff in H. destruct H as [Hm Hf]. rewrite Hm. cbn [andb].
      rewrite forallb_app in *. apply andb_true_iff in Hf. destruct Hf as [Hf Hc]. rewrite Hf. cbn [andb].
      cbn [forallb] in Hc. rewrite andb_true_r in Hc.
      destruct Hr as [(y & -> & Ek & _)|[_ Hp]].
      + cbn [forallb]. rewrite andb_true_r. unfold notMarkerItem in *. rewrite Ek. exact Hc.
      + rewrite forallb_forall in *. intros y Hy. apply isPR_nmi, Hp, Hy. }
  destruct (_ || _); [destruct pre; cbn in H; discriminate|].
  destruct (K =? LinkReferenceDefinitionKind); [destruct pre; cbn in H; discriminate|].
  destruct (K =? ListKind); [|exact H].
  apply andb_true_iff in H. destruct H as [H1 H2].
  rewrite forallb_app in H1. apply andb_true_iff in H1. destruct H1 as [H1 Hc].
  cbn [forallb] in Hc. rewrite andb_true_r in Hc. apply andb_true_iff in Hc. destruct Hc as [Hk Hch].
  apply Z.eqb_eq in Hk.
  destruct Hr as [(y & -> & Ek & Ei)|[Hp _]]; [|rewrite Hk in Hp; discriminate].
  destruct (Ei Hk) as [Ec El].
  apply andb_true_iff. split.
  - rewrite forallb_app, H1. cbn [forallb andb]. rewrite Ek, Ec, Hk, Hch. reflexivity.
  - destruct lo.
    + destruct op; [reflexivity|]. cbn [orb] in *. rewrite forallb_app in *. cbn [forallb] in *. rewrite El. exact H2.
    + rewrite forallb_app in *. cbn [forallb] in *. rewrite El. exact H2.
Qed.

Lemma gb_set_lastBlocks b c repl : gb b = true -> lastBlock b = Some c -> okRepl c repl -> gb (set_lastBlocks b repl) = true.
Proof.
  intros H Hl [Hg Hr]. pose proof (lastBlock_kids b c Hl) as Ek. apply gb_parts in H. destruct H as [H1 H2].
  unfold set_lastBlocks. apply gb_intro.
  - rewrite gbLoc_set_bkids. eapply gbLocK_repl; [|exact Hr]. unfold gbLoc in H1. rewrite Ek in H1. exact H1.
  - rewrite bkids_set_bkids, gbL_app, Hg, andb_true_r. revert H2. apply forallb_sub. intros x. apply removelast_In.
Qed.

Lemma gb_lastBlock b c : gb b = true -> lastBlock b = Some c -> gb c = true.
Proof.
  intros H Hl. apply gb_parts in H. destruct H as [_ H]. unfold gbL in H. rewrite forallb_forall in H.
  apply H. eapply lastBlock_In. exact Hl.
Qed.

Lemma okRepl_one c y : gb y = true -> relB c y -> okRepl c [y].
Proof.
  intros Hy [Hs|[H1 H2]]; (split; [rewrite gbL_one; exact Hy|]).
  - left. exists y. tauto.
  - right. split; [exact H1|]. cbn [forallb]. unfold isPR. rewrite H2. reflexivity.
Qed.

Lemma sameAs_set_lastBlocks b v : sameAs b (set_lastBlocks b v).
Proof. split; [apply bkind_set_lastBlocks|]. intros _. split; [apply bchar_set_lastBlocks|apply bloose_set_lastBlocks]. Qed.

(* right-spine update *)
Lemma gb_updAt_at f : forall d b, gb b = true ->
  (forall x, getAt d b = Some x -> gb x = true -> gb (f x) = true /\ relB x (f x)) ->
  gb (updAt d f b) = true /\ relB b (updAt d f b).
Proof.
  induction d as [|d IH]; intros b H Hf; [apply Hf; [reflexivity|assumption]|]. cbn [updAt].
  destruct (lastBlock b) as [c|] eqn:El; [|split; [assumption|apply relB_refl]].
  pose proof (gb_lastBlock b c H El) as Hc.
  destruct (IH c Hc) as [Hc' Hk'].
  { intros x Hx. apply Hf. cbn [getAt]. rewrite El. exact Hx. }
  split; [|left; apply sameAs_set_lastBlocks].
  eapply gb_set_lastBlocks; [exact H|exact El|]. apply okRepl_one; assumption.
Qed.

(* ---- onClose handlers ---- *)
Lemma forallb_map {A B} (p : B -> bool) (g : A -> B) l : forallb p (map g l) = forallb (fun x => p (g x)) l.
Proof. induction l as [|x r IH]; [reflexivity|]. cbn [map forallb]. rewrite IH. reflexivity. Qed.
Lemma forallb_ext_in {A} (p q : A -> bool) l : (forall x, In x l -> p x = q x) -> forallb p l = forallb q l.
Proof.
  induction l as [|x r IH]; intros H; [reflexivity|]. cbn [forallb]. rewrite (H x (or_introl eq_refl)), IH; [reflexivity|].
  intros y Hy. apply H. right. exact Hy.
Qed.
Lemma bkind_set_bloose' b v : bkind (set_bloose b v) = bkind b. Proof. destruct b; reflexivity. Qed.
Lemma bchar_set_bloose b v : bchar (set_bloose b v) = bchar b. Proof. destruct b; reflexivity. Qed.
Lemma bloose_set_bloose b v : bloose (set_bloose b v) = v. Proof. destruct b; reflexivity. Qed.

Lemma gbLoc_list b : bkind b = ListKind ->
  gbLoc b = forallb (fun c => (bkind c =? ListItemKind) && (bchar c =? bchar b)) (bkids b) &&
            (if bloose b then isOpen b || forallb bloose (bkids b) else forallb (fun c => negb (bloose c)) (bkids b)).
Proof. intros E. unfold gbLoc. rewrite E. reflexivity. Qed.

Lemma gb_onCloseList b e : bkind b = ListKind -> gb b = true -> gb (onCloseList (set_bend b e)) = true.
Proof.
  intros Ek H. unfold onCloseList. cbv zeta.
  assert (Eb : bkids (set_bend b e) = bkids b) by (destruct b; reflexivity).
  assert (El : bloose (set_bend b e) = bloose b) by (destruct b; reflexivity).
  rewrite El, Eb.
  match goal with |- gb (if bloose b || ?X then _ else _) = true => destruct (bloose b || X) eqn:Eo end.
  - apply gb_parts in H. destruct H as [H1 H2]. rewrite (gbLoc_list b Ek) in H1.
    apply andb_true_iff in H1. destruct H1 as [H1 _].
    apply gb_intro.
    + rewrite gbLoc_set_bkids.
      replace (bkind (set_bloose (set_bend b e) true)) with ListKind by (rewrite <- Ek; destruct b; reflexivity).
      replace (bloose (set_bloose (set_bend b e) true)) with true by (destruct b; reflexivity).
      replace (bchar (set_bloose (set_bend b e) true)) with (bchar b) by (destruct b; reflexivity).
      change (forallb (fun c => (bkind c =? ListItemKind) && (bchar c =? bchar b)) (map (fun it => set_bloose it true) (bkids b)) &&
              (isOpen (set_bloose (set_bend b e) true) || forallb bloose (map (fun it => set_bloose it true) (bkids b))) = true).
      rewrite !forallb_map. apply andb_true_iff. split.
      * rewrite <- H1. apply forallb_ext_in. intros x _. rewrite bkind_set_bloose', bchar_set_bloose. reflexivity.
      * apply orb_true_iff. right. apply forallb_forall. intros x _. apply bloose_set_bloose.
    + rewrite bkids_set_bkids. unfold gbL in *. rewrite forallb_map. rewrite forallb_forall in *. intros x Hx.
      pose proof (H1 x Hx) as Hk. apply andb_true_iff in Hk. destruct Hk as [Hk _]. apply Z.eqb_eq in Hk.
      rewrite gb_set_bloose; [apply H2, Hx|rewrite Hk; reflexivity].
  - apply orb_false_iff in Eo. destruct Eo as [Eo _]. rewrite gb_set_bend; [exact H|rewrite Eo; apply andb_false_r].
Qed.
Lemma bkind_onCloseList b : bkind (onCloseList b) = bkind b.
Proof. unfold onCloseList. cbv zeta. destruct (bloose b || _); [|reflexivity]. rewrite bkind_set_bkids. apply bkind_set_bloose. Qed.

Lemma gb_onCloseIndented src b : nikK (bkind b) = false -> gb (onCloseIndented src b) = gb b.
Proof. intros H. unfold onCloseIndented. cbv zeta. apply gb_set_bik. exact H. Qed.

(* paragraph close: the pieces are paragraphs, setext headings and link reference definitions, each well-formed *)
Definition prOK (l : list block) : Prop := gbL l = true /\ forallb (fun y => isPR (bkind y)) l = true.
Lemma prOK_app a b : prOK a -> prOK b -> prOK (a ++ b).
Proof. intros [A1 A2] [B1 B2]. split; [rewrite gbL_app, A1, B1|rewrite forallb_app, A2, B2]; reflexivity. Qed.
Lemma prOK_one x : gb x = true -> isPR (bkind x) = true -> prOK [x].
Proof. intros H1 H2. split; [rewrite gbL_one; exact H1|cbn [forallb]; rewrite H2; reflexivity]. Qed.
Lemma prOK_refDef2 s e l d : ikind l = LinkLabelKind -> ikind d = LinkDestinationKind -> prOK [refDefBlock s e [l; d]].
Proof.
  intros El Ed. apply prOK_one; [|reflexivity]. unfold refDefBlock. cbn [gb forallb]. rewrite andb_true_r.
  unfold gbLoc, gbLocK. cbn [bkind bkids bik]. cbn [Z.eqb Pos.eqb orb nilb andb LinkReferenceDefinitionKind ListItemKind ListMarkerKind ThematicBreakKind refIk].
  rewrite El, Ed. reflexivity.
Qed.
Lemma prOK_refDef3 s e l d t : ikind l = LinkLabelKind -> ikind d = LinkDestinationKind -> ikind t = LinkTitleKind ->
  prOK [refDefBlock s e [l; d; t]].
Proof.
  intros El Ed Et. apply prOK_one; [|reflexivity]. unfold refDefBlock. cbn [gb forallb]. rewrite andb_true_r.
  unfold gbLoc, gbLocK. cbn [bkind bkids bik]. cbn [Z.eqb Pos.eqb orb nilb andb LinkReferenceDefinitionKind ListItemKind ListMarkerKind ThematicBreakKind refIk].
  rewrite El, Ed, Et. reflexivity.
Qed.

Lemma prOK_ocp : forall fuel rfuel src orig orphan r result,
  gb orig = true -> isPara (bkind orig) = true ->
  (match orphan with Some o => gb o = true /\ isPR (bkind o) = true | None => True end) -> prOK result ->
  prOK (ocp_loop fuel rfuel src orig orphan r result).
Proof.
  induction fuel as [|f IH]; intros rfuel src orig orphan r result Ho Hk Hor Hr.
  { cbn [ocp_loop]. apply prOK_app; [assumption|apply prOK_one; [assumption|unfold isPR; rewrite Hk; reflexivity]]. }
  assert (Hkeep : prOK (result ++ [orig])) by (apply prOK_app; [assumption|apply prOK_one; [assumption|unfold isPR; rewrite Hk; reflexivity]]).
  assert (Hwo : forall res, prOK res -> prOK (match orphan with Some o => res ++ [o] | None => res end)).
  { intros res Hres. destruct orphan as [o|]; [|assumption]. apply prOK_app; [assumption|apply prOK_one; tauto]. }
  assert (Hcut : forall pos ik, gb (set_bik (set_bstart orig pos) ik) = true /\ isPara (bkind (set_bik (set_bstart orig pos) ik)) = true).
  { intros pos ik. rewrite bkind_set_bik, bkind_set_bstart. split; [|exact Hk].
    rewrite gb_set_bik; [rewrite gb_set_bstart; exact Ho|]. rewrite bkind_set_bstart. apply isPara_nik, Hk. }
  assert (Hcut1 : forall pos ik, prOK [set_bik (set_bstart orig pos) ik]).
  { intros pos ik. destruct (Hcut pos ik) as [A B]. apply prOK_one; [exact A|unfold isPR; rewrite B; reflexivity]. }
  cbn [ocp_loop]. cbv zeta.
  destruct (parseLinkLabel rfuel r) as [[lspan linner] r1].
  destruct (negb (spanValid lspan)); [assumption|].
  destruct (current r1) as [c r2]. destruct (negb (c =? 58)); [assumption|].
  destruct (next r2) as [? r3]. destruct (skipLinkSpace rfuel r3) as [ok r4]. destruct (negb ok); [assumption|].
  destruct (parseLinkDestination rfuel r4) as [[dspan dtext] r5]. destruct (negb (spanValid dspan)); [assumption|].
  destruct (readEOL rfuel r5) as [destEOL r6]. destruct (current r6) as [c6 r7].
  destruct (_ && _ && _); [assumption|].
  set (labelInline := Inl LinkLabelKind _ _ 0 _ _). set (destInline := Inl LinkDestinationKind _ _ 0 [] _).
  assert (H2 : prOK (result ++ [refDefBlock (fst lspan) destEOL [labelInline; destInline]])).
  { apply prOK_app; [assumption|apply prOK_refDef2; reflexivity]. }
  destruct (skipLinkSpace rfuel r7) as [ok2 r8]. destruct (negb ok2); [apply Hwo; assumption|].
  destruct (parseLinkTitle rfuel r8) as [[tspan ttext] r9].
  destruct (negb (spanValid tspan)).
  { destruct (destEOL <? 0); [assumption|]. destruct (_ <? 0); [apply Hwo; assumption|].
    apply IH; [apply Hcut|apply Hcut|assumption|assumption]. }
  destruct (readEOL rfuel r9) as [titleEOL r10].
  destruct (titleEOL <? 0).
  { destruct (destEOL <? 0); [assumption|]. destruct (_ <? 0); [apply Hwo; assumption|].
    rewrite app_assoc. apply prOK_app; [assumption|apply Hcut1]. }
  set (titleInline := Inl LinkTitleKind _ _ 0 [] _).
  assert (H3 : prOK (result ++ [refDefBlock (fst lspan) titleEOL [labelInline; destInline; titleInline]])).
  { apply prOK_app; [assumption|apply prOK_refDef3; reflexivity]. }
  destruct (_ <? 0); [apply Hwo; assumption|]. apply IH; [apply Hcut|apply Hcut|assumption|assumption].
Qed.

Lemma prOK_onCloseParagraph src orig : gb orig = true -> isPara (bkind orig) = true -> prOK (onCloseParagraph src orig).
Proof.
  intros H Hk. unfold onCloseParagraph. destruct (bik orig) as [|first rest] eqn:Eb.
  { apply prOK_one; [assumption|unfold isPR; rewrite Hk; reflexivity]. }
  cbv zeta. rewrite <- Eb. apply prOK_ocp; [assumption|assumption| |split; reflexivity].
  destruct (bkind orig =? SetextHeadingKind); [|exact I]. split; reflexivity.
Qed.

Lemma gb_closeBlock src e : forall fuel b, gb b = true -> okRepl b (closeBlock fuel src b e).
Proof.
  assert (Hself : forall b, gb b = true -> okRepl b [b]).
  { intros b H. apply okRepl_one; [exact H|apply relB_refl]. }
  induction fuel as [|f IH]; intros b H; [apply Hself, H|]. cbn [closeBlock].
  destruct (negb (isOpen b)); [apply Hself, H|]. cbv zeta.
  set (closeLast := fun x : block => match lastBlock x with Some c => set_lastBlocks x (closeBlock f src c e) | None => x end).
  assert (Hcl : forall x, gb x = true -> gb (closeLast x) = true /\ sameAs x (closeLast x)).
  { intros x Hx. unfold closeLast. destruct (lastBlock x) as [c|] eqn:El; [|split; [exact Hx|apply sameAs_refl]].
    split; [|apply sameAs_set_lastBlocks].
    eapply gb_set_lastBlocks; [exact Hx|exact El|]. apply IH. eapply gb_lastBlock; eassumption. }
  rewrite bkind_set_bend.
  destruct (bkind b =? ListKind) eqn:EL.
  { apply Z.eqb_eq in EL. pose proof (gb_onCloseList b e EL H) as A. destruct (Hcl _ A) as [C [D _]].
    apply okRepl_one; [exact C|]. left. split.
    - etransitivity; [exact D|]. rewrite bkind_onCloseList. apply bkind_set_bend.
    - intros Ei. rewrite EL in Ei. discriminate. }
  assert (H1 : gb (set_bend b e) = true) by (rewrite gb_set_bend; [exact H|rewrite EL; reflexivity]).
  assert (S1 : sameAs b (set_bend b e)) by (destruct b; split; [reflexivity|intros _; split; reflexivity]).
  destruct (bkind b =? IndentedCodeBlockKind) eqn:EI.
  { apply Z.eqb_eq in EI.
    assert (A : gb (onCloseIndented src (set_bend b e)) = true).
    { rewrite gb_onCloseIndented; [exact H1|]. rewrite bkind_set_bend, EI. reflexivity. }
    destruct (Hcl _ A) as [C [D _]]. apply okRepl_one; [exact C|]. left. split.
    - etransitivity; [exact D|]. destruct (cc_onCloseIndented src (set_bend b e)) as [_ Ek]. rewrite Ek. apply bkind_set_bend.
    - intros Ei. rewrite EI in Ei. discriminate. }
  destruct ((bkind b =? ParagraphKind) || (bkind b =? SetextHeadingKind)) eqn:Ep.
  { change (isPara (bkind b) = true) in Ep.
    destruct (prOK_onCloseParagraph src (set_bend b e) H1) as [A B]; [rewrite bkind_set_bend; exact Ep|].
    split; [exact A|]. right. split; [exact Ep|exact B]. }
  destruct (Hcl _ H1) as [C D]. apply okRepl_one; [exact C|]. left.
  destruct S1 as [S1 S2]. destruct D as [D1 D2]. split; [etransitivity; [exact D1|exact S1]|].
  intros Ei. destruct (S2 Ei) as [S3 S4]. destruct D2 as [D3 D4]; [rewrite S1; exact Ei|].
  split; [etransitivity; [exact D3|exact S3]|etransitivity; [exact D4|exact S4]].
Qed.

(* ---- offsetTree ---- *)
Lemma bkind_shiftB' n b : bkind (shiftB n b) = bkind b. Proof. destruct b; reflexivity. Qed.
Lemma bchar_shiftB n b : bchar (shiftB n b) = bchar b. Proof. destruct b; reflexivity. Qed.
Lemma bloose_shiftB n b : bloose (shiftB n b) = bloose b. Proof. destruct b; reflexivity. Qed.
Lemma ikind_shiftI n i : ikind (shiftI n i) = ikind i. Proof. destruct i; reflexivity. Qed.
Lemma refIk_shift n ik : refIk (map (shiftI n) ik) = refIk ik.
Proof.
  destruct ik as [|a [|b [|c [|d r]]]]; try reflexivity; cbn [map refIk]; rewrite ?ikind_shiftI; reflexivity.
Qed.
Lemma nilb_map {A B} (g : A -> B) l : nilb (map g l) = nilb l. Proof. destruct l; reflexivity. Qed.
Lemma itemKids_shift n ks : itemKids (map (shiftB n) ks) = itemKids ks.
Proof.
  destruct ks as [|m r]; [reflexivity|]. cbn [map itemKids]. rewrite bkind_shiftB', forallb_map. f_equal.
  apply forallb_ext_in. intros x _. unfold notMarkerItem. rewrite bkind_shiftB'. reflexivity.
Qed.
Lemma gbLocK_shift m K ks ik op op' n ch lo : (op = true -> op' = true) ->
  gbLocK K ks ik op n ch lo = true -> gbLocK K (map (shiftB m) ks) (map (shiftI m) ik) op' n ch lo = true.
Proof.
  intros Ho H. unfold gbLocK in *. rewrite itemKids_shift, !nilb_map, refIk_shift.
  destruct (K =? ListItemKind); [exact H|]. destruct (_ || _); [exact H|].
  destruct (K =? LinkReferenceDefinitionKind); [exact H|]. destruct (K =? ListKind); [|exact H].
  rewrite !forallb_map. apply andb_true_iff in H. destruct H as [H1 H2]. apply andb_true_iff. split.
  - rewrite <- H1. apply forallb_ext_in. intros x _. rewrite bkind_shiftB', bchar_shiftB. reflexivity.
  - destruct lo.
    + apply orb_true_iff in H2. apply orb_true_iff. destruct H2 as [H2|H2]; [left; apply Ho, H2|right].
      rewrite <- H2. apply forallb_ext_in. intros x _. apply bloose_shiftB.
    + rewrite <- H2. apply forallb_ext_in. intros x _. rewrite bloose_shiftB. reflexivity.
Qed.
Lemma gb_shiftB n : forall b, gb b = true -> gb (shiftB n b) = true.
Proof.
  fix IH 1. intros [k s e bk ik a nn c l lb] H. apply gb_parts in H. destruct H as [H1 H2].
  cbn [shiftB]. apply gb_intro.
  - unfold gbLoc in *. cbn [bkind bkids bik bn bchar bloose isOpen bend] in *.
    eapply gbLocK_shift; [|exact H1]. unfold isOpen. cbn [bend]. intros Hlt. apply Z.ltb_lt in Hlt.
    replace (0 <=? e) with false by (symmetry; apply Z.leb_gt; exact Hlt). apply Z.ltb_lt. exact Hlt.
  - clear H1. cbn [bkids] in *. unfold gbL in *. induction bk as [|x r IHr]; [reflexivity|].
    cbn [map forallb] in *. apply andb_true_iff in H2. destruct H2 as [Hx Hr]. rewrite (IH x Hx), (IHr Hr). reflexivity.
Qed.
Lemma gbL_shift n l : gbL l = true -> gbL (map (shiftB n) l) = true.
Proof.
  unfold gbL. induction l as [|x r IH]; intros H; [reflexivity|]. cbn [map forallb] in *.
  apply andb_true_iff in H. destruct H as [Hx Hr]. rewrite (gb_shiftB n x Hx), (IH Hr). reflexivity.
Qed.

(* ---- the open spine: every block from the root down to depth d exists and is open ---- *)
Fixpoint so (d : nat) (b : block) : bool :=
  isOpen b && match d with O => true | S d' => match lastBlock b with Some c => so d' c | None => false end end.

Lemma so_S d b : so (S d) b = isOpen b && match lastBlock b with Some c => so d c | None => false end.
Proof. reflexivity. Qed.
Lemma so_open d b : so d b = true -> isOpen b = true.
Proof. destruct d; cbn [so]; intros H; apply andb_true_iff in H; tauto. Qed.
Lemma so_getAt : forall d b, so d b = true -> exists x, getAt d b = Some x /\ isOpen x = true.
Proof.
  induction d as [|d IH]; intros b H.
  - exists b. split; [reflexivity|apply (so_open 0 b H)].
  - rewrite so_S in H. apply andb_true_iff in H. destruct H as [_ H]. rewrite getAt_S.
    destruct (lastBlock b) as [c|]; [apply IH, H|discriminate].
Qed.
Lemma so_le : forall d d' b, (d' <= d)%nat -> so d b = true -> so d' b = true.
Proof.
  induction d as [|d IH]; intros d' b Hle H.
  - replace d' with O by lia. exact H.
  - destruct d' as [|d']; [cbn [so]; rewrite (so_open _ _ H); reflexivity|].
    rewrite so_S in *. apply andb_true_iff in H. destruct H as [H1 H2]. rewrite H1. cbn [andb].
    destruct (lastBlock b) as [c|]; [apply IH; [lia|exact H2]|discriminate].
Qed.
Lemma lastBlock_nonempty b c : lastBlock b = Some c -> bkids b <> [].
Proof. intros El E. unfold lastBlock in El. rewrite E in El. discriminate. Qed.

(* an update at depth d >= d' with a function that keeps the end *)
Lemma so_updAt f : (forall x, isOpen (f x) = isOpen x) ->
  forall d d' b, (d' <= d)%nat -> so d' b = true -> so d' (updAt d f b) = true.
Proof.
  intros Hf. induction d as [|d IH]; intros d' b Hle H.
  - replace d' with O in * by lia. cbn [updAt so] in *. rewrite Hf. exact H.
  - cbn [updAt]. destruct (lastBlock b) as [c|] eqn:El; [|exact H].
    destruct d' as [|d'].
    + cbn [so] in *. rewrite isOpen_set_lastBlocks. exact H.
    + rewrite so_S in *. rewrite isOpen_set_lastBlocks. rewrite lastBlock_set_last by (eapply lastBlock_nonempty; exact El).
      rewrite El in H. apply andb_true_iff in H. destruct H as [H1 H2]. rewrite H1. cbn [andb]. apply IH; [lia|exact H2].
Qed.
(* an update anywhere with a function that keeps the children and the end *)
Lemma so_updAt_keep f : (forall x, isOpen (f x) = isOpen x /\ bkids (f x) = bkids x) ->
  forall d d' b, so d' (updAt d f b) = so d' b.
Proof.
  intros Hf. induction d as [|d IH]; intros d' b.
  - cbn [updAt]. destruct d' as [|d']; [cbn [so]; rewrite (proj1 (Hf b)); reflexivity|].
    rewrite !so_S. rewrite (proj1 (Hf b)). unfold lastBlock. rewrite (proj2 (Hf b)). reflexivity.
  - cbn [updAt]. destruct (lastBlock b) as [c|] eqn:El; [|reflexivity].
    destruct d' as [|d']; [cbn [so]; rewrite isOpen_set_lastBlocks; reflexivity|].
    rewrite !so_S. rewrite isOpen_set_lastBlocks. rewrite lastBlock_set_last by (eapply lastBlock_nonempty; exact El).
    rewrite El. rewrite IH. reflexivity.
Qed.

Definition appendB (y b : block) : block := set_bkids b (bkids b ++ [y]).
Lemma lastBlock_appendB y b : lastBlock (appendB y b) = Some y.
Proof. destruct b. unfold appendB, lastBlock. cbn [set_bkids bkids]. rewrite rev_app_distr. reflexivity. Qed.
Lemma isOpen_appendB y b : isOpen (appendB y b) = isOpen b. Proof. destruct b; reflexivity. Qed.

Lemma so_append y : isOpen y = true -> forall d b, so d b = true -> so (S d) (updAt d (appendB y) b) = true.
Proof.
  intros Hy. induction d as [|d IH]; intros b H.
  - cbn [updAt]. rewrite so_S, isOpen_appendB, lastBlock_appendB. cbn [so] in *. rewrite andb_true_r in H. rewrite H, Hy. reflexivity.
  - rewrite so_S in H. apply andb_true_iff in H. destruct H as [H1 H2].
    destruct (lastBlock b) as [c|] eqn:El; [|discriminate].
    cbn [updAt]. rewrite El. rewrite so_S, isOpen_set_lastBlocks, H1. cbn [andb].
    rewrite lastBlock_set_last by (eapply lastBlock_nonempty; exact El). apply IH, H2.
Qed.
Lemma so_extend : forall d b c, so d b = true -> getAt (S d) b = Some c -> isOpen c = true -> so (S d) b = true.
Proof.
  induction d as [|d IH]; intros b c H Hg Hc.
  - rewrite getAt_S in Hg. rewrite so_S. cbn [so] in H. rewrite andb_true_r in H. rewrite H. cbn [andb].
    destruct (lastBlock b) as [x|]; [|discriminate]. cbn [getAt] in Hg. inversion Hg; subst. cbn [so]. rewrite Hc. reflexivity.
  - rewrite getAt_S in Hg. rewrite so_S in H. apply andb_true_iff in H. destruct H as [H1 H2].
    rewrite so_S, H1. cbn [andb]. destruct (lastBlock b) as [x|]; [|discriminate]. eapply IH; eassumption.
Qed.
Lemma so_tip : forall fuel b, isOpen b = true -> so (tipDepth fuel b) b = true.
Proof.
  induction fuel as [|f IH]; intros b H; cbn [tipDepth]; [cbn [so]; rewrite H; reflexivity|].
  destruct (lastBlock b) as [c|] eqn:El; [|cbn [so]; rewrite H; reflexivity].
  destruct (isOpen c) eqn:Ec; [|cbn [so]; rewrite H; reflexivity].
  rewrite so_S, H, El. cbn [andb]. apply IH, Ec.
Qed.

(* ---- fusing right-spine updates ---- *)
Lemma updAt_ext f g : (forall x, f x = g x) -> forall d b, updAt d f b = updAt d g b.
Proof.
  intros H. induction d as [|d IH]; intros b; [apply H|]. cbn [updAt]. destruct (lastBlock b); [rewrite IH|]; reflexivity.
Qed.
Lemma set_last_twice b u v : set_lastBlocks (set_lastBlocks b [u]) [v] = set_lastBlocks b [v].
Proof. destruct b. unfold set_lastBlocks. cbn [set_bkids bkids]. rewrite removelast_last. reflexivity. Qed.
Lemma updAt_fuse f g : forall d b, updAt d f (updAt d g b) = updAt d (fun x => f (g x)) b.
Proof.
  induction d as [|d IH]; intros b; [reflexivity|]. cbn [updAt].
  destruct (lastBlock b) as [c|] eqn:El.
  - rewrite lastBlock_set_last by (eapply lastBlock_nonempty; exact El). rewrite set_last_twice, IH. reflexivity.
  - rewrite El. reflexivity.
Qed.
Definition liftLast (f : block -> block) (b : block) : block :=
  match lastBlock b with Some c => set_lastBlocks b [f c] | None => b end.
Lemma updAt_S f : forall d b, updAt (S d) f b = updAt d (liftLast f) b.
Proof.
  induction d as [|d IH]; intros b; [reflexivity|].
  change (match lastBlock b with Some c => set_lastBlocks b [updAt (S d) f c] | None => b end =
          match lastBlock b with Some c => set_lastBlocks b [updAt d (liftLast f) c] | None => b end).
  destruct (lastBlock b) as [c|]; [|reflexivity]. rewrite (IH c). reflexivity.
Qed.
Lemma liftLast_appendB f y x : liftLast f (appendB y x) = appendB (f y) x.
Proof.
  unfold liftLast. rewrite lastBlock_appendB. destruct x. unfold appendB, set_lastBlocks. cbn [set_bkids bkids].
  rewrite removelast_last. reflexivity.
Qed.
Lemma updAt_S_append f y d b : updAt (S d) f (updAt d (appendB y) b) = updAt d (appendB (f y)) b.
Proof. rewrite updAt_S, updAt_fuse. apply updAt_ext. intros x. apply liftLast_appendB. Qed.

(* ---- gb implies the public checker ---- *)
Lemma gbLoc_gramLoc b : gbLoc b = true -> gramLoc b = true.
Proof.
  unfold gbLoc, gbLocK, gramLoc. cbv zeta.
  destruct (bkind b =? ListItemKind); [tauto|]. destruct (_ || _); [tauto|].
  destruct (bkind b =? LinkReferenceDefinitionKind); [tauto|].
  destruct (bkind b =? ListKind) eqn:EL; [|tauto].
  intros H. apply andb_true_iff in H. destruct H as [H1 H2]. apply andb_true_iff. split.
  - rewrite forallb_forall in *. intros c Hc. pose proof (H1 c Hc) as Hk. apply andb_true_iff in Hk. destruct Hk as [_ Hk].
    apply Z.eqb_eq in Hk. unfold isOrdered. rewrite Hk. apply eqb_reflx.
  - destruct (isOpen b); [reflexivity|]. rewrite forallb_forall in *. intros c Hc.
    pose proof (H1 c Hc) as Hk. apply andb_true_iff in Hk. destruct Hk as [Hk _]. apply Z.eqb_eq in Hk.
    unfold isTightList. rewrite Hk, EL. cbn [Z.eqb Pos.eqb orb andb ListItemKind ListKind].
    destruct (bloose b).
    + cbn [orb] in H2. rewrite forallb_forall in H2. rewrite (H2 c Hc). reflexivity.
    + rewrite forallb_forall in H2. pose proof (H2 c Hc) as Hn. apply negb_true_iff in Hn. rewrite Hn. reflexivity.
Qed.
Lemma gb_gram : forall b, gb b = true -> gramBlocks b = true.
Proof.
  fix IH 1. intros [k s e bk ik a n c l lb] H. apply gb_parts in H. destruct H as [H1 H2].
  cbn [gramBlocks]. rewrite (gbLoc_gramLoc _ H1). cbn [andb bkids] in *. clear H1.
  unfold gbL in H2. induction bk as [|x r IHr]; [reflexivity|]. cbn [forallb] in *.
  apply andb_true_iff in H2. destruct H2 as [Hx Hr]. rewrite (IH x Hx). cbn [andb]. apply IHr. exact Hr.
Qed.
