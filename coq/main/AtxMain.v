(* AtxMain.v — task T31 (property C15): the ATX heading recognizer of the main model (Recog.parseATXHeading)
   against the CommonMark 0.31 section 4.2 definition, with the implementation's extra "escaped trailing blank"
   rule (finding D22) characterised exactly. *)
From Coq Require Import List ZArith Lia Bool.
Import ListNotations.
Require Import Base Recog Rec16 Rec17 Rec18 RecBounds EolInv.
Open Scope Z_scope.

(* ================================================================================================================ *)
(* 1. Declarative definitions                                                                                        *)
(* ================================================================================================================ *)
Definition isHash (c : Z) : bool := c =? 35.
Fixpoint takeWhile (p : Z -> bool) (l : bytes) : bytes :=
  match l with c :: r => if p c then c :: takeWhile p r else [] | [] => [] end.
Fixpoint dropWhile (p : Z -> bool) (l : bytes) : bytes :=
  match l with c :: r => if p c then dropWhile p r else l | [] => [] end.
(* remove the longest suffix all of whose bytes satisfy p *)
Definition stripEnd (p : Z -> bool) (l : bytes) : bytes := rev (dropWhile p (rev l)).
Definition endsWith (p : Z -> bool) (l : bytes) : bool := match rev l with c :: _ => p c | [] => false end.
Definition isNil (l : bytes) : bool := match l with [] => true | _ => false end.

(* CommonMark 4.2 on one line WITHOUT its line ending (the 0-3 columns of indentation are consumed by the caller):
   an opening run of 1-6 '#'; then the end of the line, or at least one space/tab; the raw content is the rest of the
   line stripped of leading and trailing spaces/tabs; if it ends with a run of '#' that is preceded by a space/tab or
   is the whole content, that closing sequence and the spaces/tabs before it are removed.   Result: (level, content) *)
Definition atx_def (body : bytes) : option (Z * bytes) :=
  let n := len (takeWhile isHash body) in
  if (n =? 0) || (6 <? n) then None else
  match dropWhile isHash body with
  | [] => Some (n, [])
  | (c :: _) as rest =>
    if negb (isSpTab c) then None else
    let inner := stripEnd isSpTab (dropWhile isSpTab rest) in
    let pre := stripEnd isHash inner in
    Some (n, if endsWith isHash inner && (isNil pre || endsWith isSpTab pre) then stripEnd isSpTab pre else inner)
  end.

(* position at which the content starts: after the opening run and the spaces/tabs that follow it *)
Definition atx_start (body : bytes) : Z :=
  len (takeWhile isHash body) + len (takeWhile isSpTab (dropWhile isHash body)).

(* The implementation's variant of "strip trailing spaces/tabs": a space/tab that follows an odd run of backslashes
   is kept (and so is everything before it).  On the reversed list: *)
Definition oddBackslashes (r : bytes) : bool := trailingBackslashes r mod 2 =? 1.   (* r = the reversed prefix *)
Fixpoint dropBlankEsc (r : bytes) : bytes :=
  match r with
  | c :: t => if isSpTab c && negb (oddBackslashes t) then dropBlankEsc t else r
  | [] => []
  end.
Definition stripBlankEsc (l : bytes) : bytes := rev (dropBlankEsc (rev l)).

(* atx_def with stripEnd isSpTab replaced by stripBlankEsc at its two trailing-blank strips; nothing else differs *)
Definition atx_def_impl (body : bytes) : option (Z * bytes) :=
  let n := len (takeWhile isHash body) in
  if (n =? 0) || (6 <? n) then None else
  match dropWhile isHash body with
  | [] => Some (n, [])
  | (c :: _) as rest =>
    if negb (isSpTab c) then None else
    let inner := stripBlankEsc (dropWhile isSpTab rest) in
    let pre := stripEnd isHash inner in
    Some (n, if endsWith isHash inner && (isNil pre || endsWith isSpTab pre) then stripBlankEsc pre else inner)
  end.

(* the class of lines on which the extra rule can matter, coarse form: a backslash immediately followed by space/tab *)
Fixpoint escBlank (l : bytes) : bool :=
  match l with
  | c :: (d :: _) as r => ((c =? 92) && isSpTab d) || escBlank r
  | _ => false
  end.

(* what the recognizer's answer selects: None = "not a heading" (level 0), else (level, selected content) *)
Definition atx_view (line : bytes) : option (Z * bytes) :=
  let '(lv, cs, ce) := parseATXHeading line in
  if lv =? 0 then None else Some (lv, sub line cs ce).
(* the same with positions: the triple parseATXHeading must return for a given declarative answer *)
Definition atx_triple (body : bytes) (d : option (Z * bytes)) : Z * Z * Z :=
  match d with
  | None => (0, 0, 0)
  | Some (lv, content) => (lv, atx_start body, atx_start body + len content)
  end.

(* ================================================================================================================ *)
(* 2. Tests (vm_compute) before proving                                                                              *)
(* ================================================================================================================ *)
Definition opt_eqb (x y : option (Z * bytes)) : bool :=
  match x, y with
  | None, None => true
  | Some (a, l), Some (b, m) => (a =? b) && (len l =? len m) && forallb (fun p => fst p =? snd p) (combine l m)
  | _, _ => false
  end.
Definition tri_eqb (x y : Z * Z * Z) : bool :=
  let '(a, b, c) := x in let '(d, e, f) := y in (a =? d) && (b =? e) && (c =? f).

Definition samples : list bytes := [
  []; [35]; [35;32]; [35;9]; [35;35;35;35;35;35;35;32;120]; [35;35;35;35;35;35;32;120]; [35;120]; [35;32;120;32;35]; [35;32;120;35];
  [35;32;35]; [35;35;32;35;35]; [35;32;120;32;92;35]; [35;32;120;92;32;35]; [35;32;92;92;32]; [35;32;92;32]; [35;32;92;92;92;32;32];
  [35;32;32;120;32;32;35;35;32;32]; [35;32;120;32;35;35;121]; [35;9;120;9;35;9]; [35;9;9;120;92;9;35;35;9;9]; [120]; [32;35;32;120];
  [35;32;102;111;111;92;32]; [35;32;35;32;35]; [35;32;35;35;32;35;32;32]; [35;32;92;32;35]; [35;32;92;35]; [35;32;120;32;35;92;32];
  [35;32;120;32;35;32;92]; [35;35;35;32;32;32]; [35;32;32;32;35;35;35;32;32]; [35;32;120;92;92;32;35;32]; [35;32;120;92;32;32;35;32];
  [35;32;97;32;98;32;35;35;32;99;32;35]; [35;92;32]; [35;32;120;32;92;32;35]; [35;32;35;92;32;35] ].

Definition test_impl (b : bytes) : bool :=
  forallb (fun e => opt_eqb (atx_view (b ++ e)) (atx_def_impl b) && tri_eqb (parseATXHeading (b ++ e)) (atx_triple b (atx_def_impl b))) eols.
Definition test_def (b : bytes) : bool :=
  escBlank b || forallb (fun e => opt_eqb (atx_view (b ++ e)) (atx_def b) && tri_eqb (parseATXHeading (b ++ e)) (atx_triple b (atx_def b))) eols.
Eval vm_compute in (length samples, forallb test_impl samples, forallb test_def samples, map escBlank samples).
Eval vm_compute in map (fun b => (atx_def b, atx_def_impl b)) samples.

(* ================================================================================================================ *)
(* 3. List facts                                                                                                     *)
(* ================================================================================================================ *)
Lemma take_drop p (l : bytes) : takeWhile p l ++ dropWhile p l = l.
Proof. induction l as [|c r IH]; [reflexivity|]. cbn [takeWhile dropWhile]. destruct (p c); [cbn [app]; rewrite IH|]; reflexivity. Qed.
Lemma takeWhile_all p (l : bytes) : forallb p (takeWhile p l) = true.
Proof. induction l as [|c r IH]; [reflexivity|]. cbn [takeWhile]. destruct (p c) eqn:E; [cbn [forallb]; rewrite E, IH|]; reflexivity. Qed.
Lemma dropWhile_head p (l : bytes) : match dropWhile p l with c :: _ => p c = false | [] => True end.
Proof. induction l as [|c r IH]; [exact I|]. cbn [dropWhile]. destruct (p c) eqn:E; [exact IH|exact E]. Qed.
Lemma countWhile_take p (l : bytes) : countWhile p l = len (takeWhile p l).
Proof. induction l as [|c r IH]; [reflexivity|]. cbn [countWhile takeWhile]. destruct (p c); [rewrite len_cons, IH; lia|reflexivity]. Qed.
Lemma dropWhile_suffix p (r : bytes) : exists s, r = s ++ dropWhile p r.
Proof.
  induction r as [|c t [s IH]]; [exists []; reflexivity|]. cbn [dropWhile]. destruct (p c); [|exists []; reflexivity].
  exists (c :: s). cbn [app]. rewrite <- IH. reflexivity.
Qed.
Lemma dropBlankEsc_suffix (r : bytes) : exists s, r = s ++ dropBlankEsc r.
Proof.
  induction r as [|c t [s IH]]; [exists []; reflexivity|]. cbn [dropBlankEsc]. destruct (_ && _); [|exists []; reflexivity].
  exists (c :: s). cbn [app]. rewrite <- IH. reflexivity.
Qed.
Lemma upto_all {A} (l : list A) : upto l (len l) = l.
Proof. unfold upto, len. rewrite Nat2Z.id. apply firstn_all. Qed.
Lemma len_rev {A} (l : list A) : len (rev l) = len l.
Proof. unfold len. rewrite rev_length. reflexivity. Qed.
Lemma len_nil {A} : len (@nil A) = 0. Proof. reflexivity. Qed.
Lemma sub_mid (a x b : bytes) : sub (a ++ x ++ b) (len a) (len a + len x) = x.
Proof.
  unfold sub. rewrite from_app. replace (len a + len x - len a) with (len x) by lia.
  rewrite upto_app_le by lia. apply upto_all.
Qed.

Lemma tb_app_stop (a b : bytes) p : p <> 92 -> trailingBackslashes (a ++ p :: b) = trailingBackslashes a.
Proof.
  intros Hp. induction a as [|c t IH].
  - cbn [app trailingBackslashes]. destruct p as [|q|q]; try reflexivity.
    do 7 (destruct q as [q|q|]; try reflexivity). congruence.
  - cbn [app]. destruct (Z.eq_dec c 92) as [->|Nc].
    + cbn [trailingBackslashes]. rewrite IH. reflexivity.
    + assert (E : forall u, trailingBackslashes (c :: u) = 0).
      { intros u. destruct c as [|q|q]; try reflexivity. do 7 (destruct q as [q|q|]; try reflexivity). congruence. }
      rewrite !E. reflexivity.
Qed.
Lemma isEndEscaped_rev P' p (t : bytes) : p <> 92 -> isEndEscaped ((P' ++ [p]) ++ rev t) = oddBackslashes t.
Proof.
  intros Hp. unfold isEndEscaped, oddBackslashes. rewrite !rev_app_distr, rev_involutive. cbn [rev app].
  rewrite tb_app_stop by exact Hp. reflexivity.
Qed.

(* ================================================================================================================ *)
(* 4. The three backward loops of the recognizer, on a line  P ++ rev r  (r = the reversed raw content)              *)
(* ================================================================================================================ *)

Definition hdIs (p : Z -> bool) (r : bytes) : bool := match r with c :: _ => p c | [] => false end.

Lemma pair_eq {A B} (a a' : A) (b b' : B) : a = a' -> b = b' -> (a, b) = (a', b'). Proof. congruence. Qed.

Definition endsNon92 (P : bytes) : Prop := exists P' p, P = P' ++ [p] /\ p <> 92.
Lemma isEndEscaped_rev' P (t : bytes) : endsNon92 P -> isEndEscaped (P ++ rev t) = oddBackslashes t.
Proof. intros (P' & p & -> & Hp). apply isEndEscaped_rev. exact Hp. Qed.

Lemma scanBack_rev P : endsNon92 P -> forall r fuel, noEol r -> len r < Z.of_nat fuel ->
  atx_scanBack fuel (P ++ rev r) (len P) (len P + len r)
  = (len P + len (dropBlankEsc r), hdIs isHash (dropBlankEsc r)).
Proof.
  intros Hp. induction r as [|c t IH]; intros fuel Hn Hf.
  - destruct fuel as [|f]; [reflexivity|]. cbn [atx_scanBack]. rewrite len_nil.
    destruct (Z.leb_spec (len P + 0) (len P)); [reflexivity|lia].
  - rewrite len_cons in *. pose proof (len_nonneg t) as Lt. destruct fuel as [|f]; [lia|]. cbn [atx_scanBack].
    destruct (Z.leb_spec (len P + (len t + 1)) (len P)) as [G|_]; [lia|]. cbv zeta.
    cbn [rev]. rewrite app_assoc.
    assert (LL : len (P ++ rev t) = len P + (len t + 1) - 1) by (rewrite len_app, len_rev; lia).
    rewrite at_app_r by lia. rewrite LL. replace (len P + (len t + 1) - 1 - (len P + (len t + 1) - 1)) with 0 by lia. rewrite at_cons0.
    rewrite upto_app_le by lia. rewrite <- LL, upto_all. rewrite isEndEscaped_rev' by exact Hp.
    inversion Hn as [|c' t' [Hc1 Hc2] Hn']; subst c' t'.
    replace ((c =? 13) || (c =? 10)) with false by (symmetry; apply orb_false_iff; split; apply Z.eqb_neq; assumption).
    cbn [dropBlankEsc]. destruct (isSpTab c) eqn:Esp.
    + destruct (oddBackslashes t); cbn [negb andb].
      * cbn [hdIs]. apply pair_eq; [rewrite len_cons; reflexivity|].
        unfold isSpTab in Esp. unfold isHash. destruct (Z.eqb_spec c 35) as [->|]; [discriminate|reflexivity].
      * rewrite LL. rewrite (scanBack_app (P ++ rev t) [c] (len P) (len_nonneg P) f f) by lia.
        replace (len P + (len t + 1) - 1) with (len P + len t) by lia. apply IH; [exact Hn'|lia].
    + cbn [andb hdIs]. unfold isHash. destruct (c =? 35); (apply pair_eq; [rewrite len_cons; reflexivity|reflexivity]).
Qed.

Lemma trailing_rev (P : bytes) : forall r fuel, len r < Z.of_nat fuel ->
  atx_trailing fuel (P ++ rev r) (len P) (len P + len r - 1)
  = match dropWhile isHash r with
    | [] => (len P, 1)
    | (c :: _) as r' => if isSpTab c then (len P + len r', 2) else (0, 0)
    end.
Proof.
  induction r as [|c t IH]; intros fuel Hf.
  - rewrite len_nil. destruct fuel as [|f]; [reflexivity|]. cbn [atx_trailing dropWhile].
    destruct (Z.ltb_spec (len P + 0 - 1) (len P)); [reflexivity|lia].
  - rewrite len_cons in *. pose proof (len_nonneg t) as Lt. pose proof (len_nonneg P) as LP. destruct fuel as [|f]; [lia|]. cbn [atx_trailing].
    destruct (Z.ltb_spec (len P + (len t + 1) - 1) (len P)) as [G|_]; [lia|]. cbv zeta.
    cbn [rev]. rewrite app_assoc.
    assert (LL : len (P ++ rev t) = len P + (len t + 1) - 1) by (rewrite len_app, len_rev; lia).
    rewrite at_app_r by lia. rewrite LL. replace (len P + (len t + 1) - 1 - (len P + (len t + 1) - 1)) with 0 by lia. rewrite at_cons0.
    cbn [dropWhile]. unfold isHash at 1. destruct (c =? 35).
    + rewrite (trailing_app (P ++ rev t) [c] (len P) LP f f) by lia.
      replace (len P + (len t + 1) - 1 - 1) with (len P + len t - 1) by lia. apply IH. lia.
    + destruct (isSpTab c); [|reflexivity]. apply pair_eq; [rewrite len_cons; lia|reflexivity].
Qed.

Lemma trim_rev P : endsNon92 P -> forall r fuel, len r < Z.of_nat fuel ->
  atx_trim fuel (P ++ rev r) (len P) (len P + len r)
  = len P + len (dropBlankEsc r).
Proof.
  intros Hp. induction r as [|c t IH]; intros fuel Hf.
  - destruct fuel as [|f]; [reflexivity|]. cbn [atx_trim]. rewrite len_nil.
    destruct (Z.leb_spec (len P + 0) (len P)); [reflexivity|lia].
  - rewrite len_cons in *. pose proof (len_nonneg t) as Lt. pose proof (len_nonneg P) as LP. destruct fuel as [|f]; [lia|]. cbn [atx_trim].
    destruct (Z.leb_spec (len P + (len t + 1)) (len P)) as [G|_]; [lia|]. cbv zeta.
    cbn [rev]. rewrite app_assoc.
    assert (LL : len (P ++ rev t) = len P + (len t + 1) - 1) by (rewrite len_app, len_rev; lia).
    rewrite at_app_r by lia. rewrite LL. replace (len P + (len t + 1) - 1 - (len P + (len t + 1) - 1)) with 0 by lia. rewrite at_cons0.
    rewrite upto_app_le by lia. rewrite <- LL, upto_all. rewrite isEndEscaped_rev' by exact Hp.
    cbn [dropBlankEsc]. destruct (isSpTab c); cbn [negb orb andb]; [|rewrite len_cons; reflexivity].
    destruct (oddBackslashes t); cbn [negb]; [rewrite len_cons; reflexivity|].
    rewrite LL. rewrite (trim_app (P ++ rev t) [c] (len P) LP f f) by lia.
    replace (len P + (len t + 1) - 1) with (len P + len t) by lia. apply IH. lia.
Qed.

(* ================================================================================================================ *)
(* 5. Assembly: the recognizer on a body without line-ending bytes                                                   *)
(* ================================================================================================================ *)

(* the content computed on the reversed raw content *)
Definition contentRev (r : bytes) : bytes :=
  let r1 := dropBlankEsc r in
  let r2 := dropWhile isHash r1 in
  if hdIs isHash r1 && (isNil r2 || hdIs isSpTab r2) then dropBlankEsc r2 else r1.

Lemma noEol_app_inv (a b : bytes) : noEol (a ++ b) -> noEol a /\ noEol b.
Proof. unfold noEol. rewrite Forall_app. tauto. Qed.
Lemma noEol_rev (a : bytes) : noEol a -> noEol (rev a).
Proof. unfold noEol. rewrite !Forall_forall. intros H x Hx. apply H. apply in_rev. exact Hx. Qed.

Lemma atx_tail (level : Z) P r : endsNon92 P -> noEol r ->
  let line := P ++ rev r in let start := len P in let fuel := S (length line) in
  (let '(e1, hit) := atx_scanBack fuel line start (len line) in
   if negb hit then (level, start, e1) else
   let '(e2, mode) := atx_trailing fuel line start (e1 - 1) in
   if mode =? 0 then (level, start, e1)
   else (level, start, atx_trim fuel line start e2))
  = (level, start, start + len (contentRev r)).
Proof.
  intros HP Hn line start fuel. pose proof (len_nonneg P) as LP. pose proof (len_nonneg r) as Lr.
  assert (Lline : len line = len P + len r) by (unfold line; rewrite len_app, len_rev; reflexivity).
  assert (Hfuel : Z.of_nat fuel = len line + 1) by (unfold fuel, len; lia).
  rewrite Lline. unfold line at 1, start. rewrite (scanBack_rev P HP r fuel Hn) by lia.
  unfold contentRev. cbv zeta.
  destruct (dropBlankEsc_suffix r) as [s1 Es1]. remember (dropBlankEsc r) as r1 eqn:Er1. clear Er1.
  assert (L1 : len r = len s1 + len r1) by (rewrite Es1 at 1; apply len_app).
  pose proof (len_nonneg s1) as Ls1. pose proof (len_nonneg r1) as Lr1.
  destruct (hdIs isHash r1) eqn:Hhit; cbn [negb andb]; [|reflexivity].
  (* closing-sequence scan *)
  assert (E1 : line = (P ++ rev r1) ++ rev s1) by (unfold line; rewrite Es1 at 1; rewrite rev_app_distr, app_assoc; reflexivity).
  rewrite E1 at 1.
  rewrite (trailing_app (P ++ rev r1) (rev s1) (len P) LP fuel fuel) by (try rewrite len_app, len_rev; lia).
  rewrite (trailing_rev P r1 fuel) by lia.
  destruct (dropWhile_suffix isHash r1) as [s2 Es2]. remember (dropWhile isHash r1) as r2 eqn:Er2. clear Er2.
  assert (L2 : len r1 = len s2 + len r2) by (rewrite Es2 at 1; apply len_app).
  pose proof (len_nonneg s2) as Ls2. pose proof (len_nonneg r2) as Lr2.
  destruct r2 as [|c r2'].
  - cbn [isNil orb dropBlankEsc Z.eqb]. rewrite len_nil.
    unfold fuel. cbn [atx_trim]. destruct (Z.leb_spec (len P) (len P)); [|lia]. f_equal. lia.
  - cbn [isNil orb hdIs]. destruct (isSpTab c) eqn:Ec; [|reflexivity]. cbn [Z.eqb].
    assert (E2 : line = (P ++ rev (c :: r2')) ++ rev s2 ++ rev s1).
    { rewrite E1, Es2. rewrite rev_app_distr, !app_assoc. reflexivity. }
    rewrite E2.
    rewrite (trim_app (P ++ rev (c :: r2')) (rev s2 ++ rev s1) (len P) LP fuel fuel) by (try rewrite len_app, len_rev; lia).
    rewrite (trim_rev P HP (c :: r2') fuel) by lia. reflexivity.
Qed.

Definition implContent (raw : bytes) : bytes :=
  let inner := stripBlankEsc raw in
  let pre := stripEnd isHash inner in
  if endsWith isHash inner && (isNil pre || endsWith isSpTab pre) then stripBlankEsc pre else inner.

Lemma isNil_rev (l : bytes) : isNil (rev l) = isNil l.
Proof. destruct l as [|c t]; [reflexivity|]. cbn [rev isNil]. destruct (rev t); reflexivity. Qed.
Lemma endsWith_rev p (r : bytes) : endsWith p (rev r) = hdIs p r.
Proof. unfold endsWith. rewrite rev_involutive. reflexivity. Qed.

Lemma implContent_rev raw : implContent raw = rev (contentRev (rev raw)).
Proof.
  unfold implContent, contentRev, stripBlankEsc, stripEnd. cbv zeta.
  rewrite !rev_involutive, !endsWith_rev, isNil_rev.
  destruct (_ && _); reflexivity.
Qed.

Lemma atx_def_impl_unfold body : atx_def_impl body =
  let n := len (takeWhile isHash body) in
  if (n =? 0) || (6 <? n) then None else
  match dropWhile isHash body with
  | [] => Some (n, [])
  | (c :: _) as rest => if negb (isSpTab c) then None else Some (n, implContent (dropWhile isSpTab rest))
  end.
Proof. reflexivity. Qed.

Lemma endsNon92_blank (hs lead : bytes) c : forallb isSpTab (c :: lead) = true -> endsNon92 (hs ++ c :: lead).
Proof.
  intros H. destruct (exists_last (l := c :: lead) ltac:(discriminate)) as (l' & a & E). rewrite E in *.
  rewrite forallb_app in H. apply andb_true_iff in H as [_ H]. cbn [forallb] in H. rewrite andb_true_r in H.
  exists (hs ++ l'), a. split; [rewrite app_assoc; reflexivity|]. intros ->. discriminate.
Qed.

Theorem atx_body_impl body : noEol body -> parseATXHeading body = atx_triple body (atx_def_impl body).
Proof.
  intros Hn. rewrite atx_def_impl_unfold. unfold parseATXHeading, atx_triple, atx_start. cbv zeta.
  change (fun c : Z => c =? 35) with isHash. rewrite countWhile_take.
  pose proof (take_drop isHash body) as Eb.
  remember (takeWhile isHash body) as hs eqn:Ehs. remember (dropWhile isHash body) as rest eqn:Erest. clear Ehs Erest. subst body.
  pose proof (len_nonneg hs) as Lhs.
  destruct ((len hs =? 0) || (6 <? len hs)); [reflexivity|].
  destruct rest as [|c rest'].
  - rewrite app_nil_r. destruct (Z.leb_spec (len hs) (len hs)); [|lia]. cbn [orb takeWhile]. rewrite !len_nil. f_equal; [f_equal|]; lia.
  - pose proof (len_nonneg rest') as Lr. rewrite len_app, len_cons.
    destruct (Z.leb_spec (len hs + (len rest' + 1)) (len hs)) as [G|_]; [lia|]. cbn [orb].
    rewrite at_app_r by lia. replace (len hs - len hs) with 0 by lia. rewrite at_cons0.
    apply noEol_app_inv in Hn as [_ Hn]. inversion Hn as [|c' t' [Hc1 Hc2] Hn']; subst c' t'.
    replace ((c =? 10) || (c =? 13)) with false by (symmetry; apply orb_false_iff; split; apply Z.eqb_neq; assumption).
    destruct (isSpTab c) eqn:Ec; cbn [negb]; [|reflexivity].
    replace (hs ++ c :: rest') with ((hs ++ [c]) ++ rest') by (rewrite <- app_assoc; reflexivity).
    replace (len hs + 1) with (len (hs ++ [c])) by (rewrite len_app; reflexivity). rewrite from_app.
    rewrite countWhile_take. cbn [takeWhile dropWhile]. rewrite Ec.
    pose proof (take_drop isSpTab rest') as Er. pose proof (takeWhile_all isSpTab rest') as Hall.
    remember (takeWhile isSpTab rest') as lead eqn:El. remember (dropWhile isSpTab rest') as raw eqn:Eraw. clear El Eraw. subst rest'.
    apply noEol_app_inv in Hn' as [_ Hraw].
    set (P := hs ++ c :: lead).
    assert (HP : endsNon92 P) by (apply endsNon92_blank; cbn [forallb]; rewrite Ec, Hall; reflexivity).
    assert (EP : (hs ++ [c]) ++ lead ++ raw = P ++ rev (rev raw)).
    { unfold P. rewrite rev_involutive, <- !app_assoc. reflexivity. }
    assert (LP : len (hs ++ [c]) + len lead = len P) by (unfold P; rewrite !len_app, !len_cons, len_nil; lia).
    rewrite LP, EP. rewrite (len_cons c lead).
    replace (len hs + (len lead + 1)) with (len P) by (rewrite <- LP, len_app, len_cons, len_nil; lia).
    rewrite implContent_rev, len_rev.
    replace (len hs + (len (lead ++ raw) + 1)) with (len (P ++ rev (rev raw)))
      by (rewrite <- EP, !len_app, len_cons, len_nil; lia).
    exact (atx_tail (len hs) P (rev raw) HP (noEol_rev raw Hraw)).
Qed.

(* ---------- the selected content ---------- *)
Lemma stripEnd_prefix p (l : bytes) : exists t, l = stripEnd p l ++ t.
Proof.
  unfold stripEnd. destruct (dropWhile_suffix p (rev l)) as [s E]. exists (rev s).
  rewrite <- rev_app_distr, <- E, rev_involutive. reflexivity.
Qed.
Lemma stripBlankEsc_prefix (l : bytes) : exists t, l = stripBlankEsc l ++ t.
Proof.
  unfold stripBlankEsc. destruct (dropBlankEsc_suffix (rev l)) as [s E]. exists (rev s).
  rewrite <- rev_app_distr, <- E, rev_involutive. reflexivity.
Qed.
Lemma implContent_prefix raw : exists t, raw = implContent raw ++ t.
Proof.
  unfold implContent. cbv zeta. destruct (stripBlankEsc_prefix raw) as [t1 E1]. remember (stripBlankEsc raw) as inner eqn:Ei. clear Ei.
  destruct (_ && _); [|exists t1; exact E1].
  destruct (stripEnd_prefix isHash inner) as [t2 E2]. remember (stripEnd isHash inner) as pre eqn:Ep. clear Ep.
  destruct (stripBlankEsc_prefix pre) as [t3 E3]. exists (t3 ++ t2 ++ t1). rewrite app_assoc, <- E3, app_assoc, <- E2. exact E1.
Qed.

Lemma atx_def_impl_split body lv content : atx_def_impl body = Some (lv, content) ->
  1 <= lv <= 6 /\ exists pre t, body = pre ++ content ++ t /\ len pre = atx_start body.
Proof.
  rewrite atx_def_impl_unfold. unfold atx_start. cbv zeta. pose proof (take_drop isHash body) as Eb.
  remember (takeWhile isHash body) as hs eqn:Ehs. remember (dropWhile isHash body) as rest eqn:Erest. clear Ehs Erest.
  destruct (Z.eqb_spec (len hs) 0); [discriminate|]. destruct (Z.ltb_spec 6 (len hs)); [discriminate|]. cbn [orb].
  pose proof (len_nonneg hs) as Lhs. destruct rest as [|c rest'].
  - intros HS. injection HS as <- <-. split; [lia|]. exists hs, []. split; [rewrite <- Eb; reflexivity|]. cbn [takeWhile]. rewrite len_nil. lia.
  - destruct (isSpTab c) eqn:Ec; cbn [negb]; [|discriminate]. intros HS. injection HS as <- <-. split; [lia|].
    pose proof (take_drop isSpTab (c :: rest')) as Er.
    destruct (implContent_prefix (dropWhile isSpTab (c :: rest'))) as [t Et].
    exists (hs ++ takeWhile isSpTab (c :: rest')), t. split; [|apply len_app].
    rewrite <- app_assoc. change (if isSpTab c then dropWhile isSpTab rest' else c :: rest') with (dropWhile isSpTab (c :: rest')). rewrite <- Et, Er. symmetry. exact Eb.
Qed.

(* ---------- escBlank: the rule is inert when no backslash is followed by a blank ---------- *)
Lemma escBlank_app_false (a b : bytes) : escBlank (a ++ b) = false -> escBlank a = false /\ escBlank b = false.
Proof.
  induction a as [|c a' IH]; [intros H; split; [reflexivity|exact H]|].
  destruct a' as [|d a''].
  - cbn [app]. intros H. split; [reflexivity|]. destruct b as [|d b']; [reflexivity|].
    cbn [escBlank] in H. apply orb_false_iff in H as [_ H]. exact H.
  - intros H. change (escBlank (c :: d :: (a'' ++ b)) = false) in H. cbn [escBlank] in H. apply orb_false_iff in H as [H1 H2].
    destruct (IH H2) as [I1 I2]. split; [|exact I2]. cbn [escBlank]. cbn [escBlank] in I1. rewrite H1, I1. reflexivity.
Qed.
Lemma escBlank_snoc2 (a : bytes) c : isSpTab c = true -> escBlank (a ++ [92; c]) = true.
Proof.
  intros Hc. induction a as [|x a' IH]; [cbn [app escBlank]; rewrite Hc; reflexivity|].
  cbn [app]. destruct (a' ++ [92; c]) as [|d u] eqn:E; [destruct a'; discriminate|].
  cbn [escBlank]. cbn [escBlank] in IH. rewrite IH. apply orb_true_r.
Qed.
Lemma tb_non92 c u : c <> 92 -> trailingBackslashes (c :: u) = 0.
Proof. intros Hc. destruct c as [|q|q]; try reflexivity. do 7 (destruct q as [q|q|]; try reflexivity). congruence. Qed.
Lemma oddBackslashes_head t : oddBackslashes t = true -> exists t', t = 92 :: t'.
Proof.
  destruct t as [|x t']; [discriminate|]. destruct (Z.eq_dec x 92) as [->|Nx]; [exists t'; reflexivity|].
  unfold oddBackslashes. rewrite tb_non92 by exact Nx. discriminate.
Qed.
Lemma dropBlankEsc_noesc : forall r, escBlank (rev r) = false -> dropBlankEsc r = dropWhile isSpTab r.
Proof.
  induction r as [|c t IH]; [reflexivity|]. cbn [rev]. intros H.
  destruct (escBlank_app_false _ _ H) as [Ht _]. cbn [dropBlankEsc dropWhile].
  destruct (isSpTab c) eqn:Ec; [|reflexivity]. cbn [andb].
  destruct (oddBackslashes t) eqn:Eo; cbn [negb]; [|apply IH; exact Ht].
  destruct (oddBackslashes_head t Eo) as [t' ->]. cbn [rev] in H. rewrite <- app_assoc in H. cbn [app] in H.
  rewrite escBlank_snoc2 in H by exact Ec. discriminate.
Qed.
Lemma stripBlankEsc_noesc l : escBlank l = false -> stripBlankEsc l = stripEnd isSpTab l.
Proof. intros H. unfold stripBlankEsc, stripEnd. rewrite dropBlankEsc_noesc by (rewrite rev_involutive; exact H). reflexivity. Qed.

Definition defContent (raw : bytes) : bytes :=
  let inner := stripEnd isSpTab raw in
  let pre := stripEnd isHash inner in
  if endsWith isHash inner && (isNil pre || endsWith isSpTab pre) then stripEnd isSpTab pre else inner.
Lemma atx_def_unfold body : atx_def body =
  let n := len (takeWhile isHash body) in
  if (n =? 0) || (6 <? n) then None else
  match dropWhile isHash body with
  | [] => Some (n, [])
  | (c :: _) as rest => if negb (isSpTab c) then None else Some (n, defContent (dropWhile isSpTab rest))
  end.
Proof. reflexivity. Qed.

Lemma implContent_noesc raw : escBlank raw = false -> implContent raw = defContent raw.
Proof.
  intros H. unfold implContent, defContent. cbv zeta. rewrite (stripBlankEsc_noesc raw H).
  destruct (stripEnd_prefix isSpTab raw) as [t1 E1]. remember (stripEnd isSpTab raw) as inner eqn:Ei. clear Ei.
  destruct (stripEnd_prefix isHash inner) as [t2 E2]. remember (stripEnd isHash inner) as pre eqn:Ep. clear Ep.
  rewrite stripBlankEsc_noesc; [reflexivity|].
  rewrite E1 in H. apply escBlank_app_false in H as [H _]. rewrite E2 in H. apply escBlank_app_false in H as [H _]. exact H.
Qed.

Theorem atx_def_impl_noesc body : escBlank body = false -> atx_def_impl body = atx_def body.
Proof.
  intros H. rewrite atx_def_impl_unfold, atx_def_unfold. cbv zeta. pose proof (take_drop isHash body) as Eb.
  remember (dropWhile isHash body) as rest eqn:Erest. clear Erest.
  destruct (_ || _); [reflexivity|]. destruct rest as [|c rest']; [reflexivity|]. destruct (negb (isSpTab c)); [reflexivity|].
  rewrite implContent_noesc; [reflexivity|].
  rewrite <- Eb in H. apply escBlank_app_false in H as [_ H].
  destruct (dropWhile_suffix isSpTab (c :: rest')) as [s Es]. rewrite Es in H. apply escBlank_app_false in H as [_ H]. exact H.
Qed.

(* ================================================================================================================ *)
(* 6. Main theorems                                                                                                  *)
(* ================================================================================================================ *)

(* (5) exact characterisation WITH the rule, for ALL bodies: the returned triple ... *)
Theorem atx_impl_exact body eol : noEol body -> In eol eols ->
  parseATXHeading (body ++ eol) = atx_triple body (atx_def_impl body).
Proof. intros Hn He. rewrite atx_eol by (apply eols_eolRun; exact He). apply atx_body_impl. exact Hn. Qed.

(* ... and the content it selects *)
Lemma atx_triple_view body eol d :
  (forall lv content, d = Some (lv, content) -> 1 <= lv <= 6 /\ exists pre t, body = pre ++ content ++ t /\ len pre = atx_start body) ->
  (let '(lv, cs, ce) := atx_triple body d in if lv =? 0 then None else Some (lv, sub (body ++ eol) cs ce)) = d.
Proof.
  intros H. destruct d as [[lv content]|]; [|reflexivity]. destruct (H lv content eq_refl) as (Hlv & pre & t & Eb & Lp).
  cbn [atx_triple]. destruct (Z.eqb_spec lv 0); [lia|]. rewrite <- Lp. rewrite Eb at 1. rewrite <- !app_assoc. rewrite sub_mid. reflexivity.
Qed.
Theorem atx_impl_view body eol : noEol body -> In eol eols -> atx_view (body ++ eol) = atx_def_impl body.
Proof.
  intros Hn He. unfold atx_view. rewrite (atx_impl_exact body eol Hn He). apply atx_triple_view.
  intros lv content. apply atx_def_impl_split.
Qed.

(* (3) the property C15 on all lines outside the finding *)
Theorem atx_C15 body eol : noEol body -> In eol eols -> escBlank body = false ->
  parseATXHeading (body ++ eol) = atx_triple body (atx_def body) /\ atx_view (body ++ eol) = atx_def body.
Proof.
  intros Hn He Hb. rewrite <- (atx_def_impl_noesc body Hb). split; [apply atx_impl_exact|apply atx_impl_view]; assumption.
Qed.

(* the same, spelled out as in the task: level equal, content = the selected sub-list, "not a heading" iff atx_def = None *)
Corollary atx_C15_spelled body eol : noEol body -> In eol eols -> escBlank body = false ->
  match atx_def body with
  | None => parseATXHeading (body ++ eol) = (0, 0, 0)
  | Some (lv, content) => 1 <= lv <= 6 /\ exists cs ce, parseATXHeading (body ++ eol) = (lv, cs, ce) /\
                          0 <= cs <= ce /\ ce <= len body /\ sub (body ++ eol) cs ce = content
  end.
Proof.
  intros Hn He Hb. destruct (atx_C15 body eol Hn He Hb) as [HT HV]. pose proof (atx_def_impl_split body) as HS.
  rewrite (atx_def_impl_noesc body Hb) in HS.
  destruct (atx_def body) as [[lv content]|]; [|exact HT].
  destruct (HS lv content eq_refl) as (Hlv & pre & t & Eb & Lp). split; [exact Hlv|].
  exists (atx_start body), (atx_start body + len content). split; [exact HT|].
  pose proof (len_nonneg pre). pose proof (len_nonneg content). pose proof (len_nonneg t).
  assert (len body = len pre + (len content + len t)) by (rewrite Eb at 1; rewrite !len_app; reflexivity).
  repeat split; try lia.
  unfold atx_view in HV. rewrite HT in HV. cbn [atx_triple] in HV. destruct (lv =? 0); [discriminate|]. injection HV as HV. exact HV.
Qed.
Corollary atx_C15_none_iff body eol : noEol body -> In eol eols -> escBlank body = false ->
  (fst (fst (parseATXHeading (body ++ eol))) = 0 <-> atx_def body = None).
Proof.
  intros Hn He Hb. pose proof (atx_C15_spelled body eol Hn He Hb) as H. destruct (atx_def body) as [[lv content]|].
  - destruct H as (Hlv & cs & ce & -> & _). cbn [fst]. split; [lia|discriminate].
  - rewrite H. cbn [fst]. split; reflexivity.
Qed.

(* (4) the finding D22, formally: on "# foo\ " the recognizer selects "foo\ " but the CommonMark content is "foo\" *)
Definition d22_line : bytes := [35; 32; 102; 111; 111; 92; 32].
Example atx_D22_refuted : exists line lv cs ce content,
  parseATXHeading line = (lv, cs, ce) /\ atx_def line = Some (lv, content) /\ sub line cs ce <> content.
Proof.
  exists d22_line, 1, 2, 7, [102; 111; 111; 92]. split; [vm_compute; reflexivity|]. split; [vm_compute; reflexivity|].
  vm_compute. discriminate.
Qed.
Example atx_D22_view : escBlank d22_line = true /\ atx_view d22_line <> atx_def d22_line /\ atx_view d22_line = atx_def_impl d22_line.
Proof. split; [reflexivity|]. split; [vm_compute; discriminate|vm_compute; reflexivity]. Qed.


(* ================================================================================================================ *)
(* 7. (2) refined: the EXACT class of lines on which the extra rule changes the answer                               *)
(* ================================================================================================================ *)
(* Only two places matter: the blanks at the end of the raw content, and the blanks before the closing sequence.
   u = raw content without trailing blanks.  The rule fires iff
     (a) some trailing blank was there and u ends with an odd run of backslashes, or
     (b) u ends with '#': pre = u without that run of '#', v = pre without trailing blanks; pre had trailing blanks
         (so the run is a closing sequence) and v ends with an odd run of backslashes. *)
Definition escTailRaw (raw : bytes) : bool :=
  let u := stripEnd isSpTab raw in
  (negb (len u =? len raw) && isEndEscaped u) ||
  (endsWith isHash u &&
   (let pre := stripEnd isHash u in let v := stripEnd isSpTab pre in negb (len v =? len pre) && isEndEscaped v)).
Definition escTail (body : bytes) : bool := escTailRaw (dropWhile isSpTab (dropWhile isHash body)).

(* reversed-list versions *)
Definition defRev (r : bytes) : bytes :=
  let r1 := dropWhile isSpTab r in
  let r2 := dropWhile isHash r1 in
  if hdIs isHash r1 && (isNil r2 || hdIs isSpTab r2) then dropWhile isSpTab r2 else r1.
Definition escB (r : bytes) : bool := let u := dropWhile isSpTab r in negb (len u =? len r) && oddBackslashes u.
Definition escTailRev (r : bytes) : bool :=
  let u := dropWhile isSpTab r in escB r || (hdIs isHash u && escB (dropWhile isHash u)).

Lemma dropWhile_len p (r : bytes) : len (dropWhile p r) <= len r.
Proof. destruct (dropWhile_suffix p r) as [s E]. rewrite E at 2. rewrite len_app. pose proof (len_nonneg s). lia. Qed.
Lemma dropWhile_id p (r : bytes) : hdIs p r = false -> dropWhile p r = r.
Proof. destruct r as [|c t]; [reflexivity|]. cbn [hdIs dropWhile]. intros ->. reflexivity. Qed.
Lemma odd_not_blank t : oddBackslashes t = true -> dropWhile isSpTab t = t.
Proof. intros H. destruct (oddBackslashes_head t H) as [t' ->]. reflexivity. Qed.

Lemma dbe_cases : forall r, let u := dropWhile isSpTab r in
  if escB r then exists b, isSpTab b = true /\ dropBlankEsc r = b :: u else dropBlankEsc r = u.
Proof.
  induction r as [|c t IH]; [reflexivity|]. unfold escB in *. cbv zeta in *. cbn [dropWhile dropBlankEsc].
  destruct (isSpTab c) eqn:Ec; cbn [andb].
  - pose proof (dropWhile_len isSpTab t) as Lu. rewrite len_cons.
    destruct (Z.eqb_spec (len (dropWhile isSpTab t)) (len t + 1)) as [E|_]; [lia|]. cbn [negb andb].
    destruct (oddBackslashes t) eqn:Et; cbn [negb].
    + rewrite (odd_not_blank t Et). rewrite Et. exists c. split; [exact Ec|reflexivity].
    + destruct (oddBackslashes (dropWhile isSpTab t)) eqn:Eu.
      * destruct (Z.eqb_spec (len (dropWhile isSpTab t)) (len t)) as [E|N]; cbn [negb andb] in IH; [|exact IH].
        (* equal length: nothing dropped, so u = t, contradiction *)
        exfalso. destruct (dropWhile_suffix isSpTab t) as [s Es].
        assert (s = []). { assert (L : len t = len s + len (dropWhile isSpTab t)) by (rewrite Es at 1; apply len_app).
          destruct s; [reflexivity|]. rewrite len_cons in L. pose proof (len_nonneg s). lia. }
        subst s. cbn [app] in Es. rewrite <- Es in Eu. congruence.
      * rewrite andb_false_r in IH. exact IH.
  - rewrite Z.eqb_refl. reflexivity.
Qed.

Lemma defRev_len r : len (defRev r) <= len (dropWhile isSpTab r).
Proof.
  unfold defRev. cbv zeta. destruct (_ && _); [|lia].
  pose proof (dropWhile_len isSpTab (dropWhile isHash (dropWhile isSpTab r))).
  pose proof (dropWhile_len isHash (dropWhile isSpTab r)). lia.
Qed.
Lemma blank_not_hash b : isSpTab b = true -> isHash b = false.
Proof. unfold isSpTab, isHash. destruct (Z.eqb_spec b 35) as [->|]; [discriminate|reflexivity]. Qed.

Theorem contentRev_iff r : contentRev r = defRev r <-> escTailRev r = false.
Proof.
  unfold escTailRev. cbv zeta. pose proof (dbe_cases r) as C. cbv zeta in C. pose proof (defRev_len r) as DL.
  destruct (escB r) eqn:EA; cbn [orb].
  - (* (a): the implementation keeps one blank more than the whole stripped raw content *)
    destruct C as (b & Hb & E). split; [|discriminate]. intros H. exfalso.
    unfold contentRev in H. cbv zeta in H. rewrite E in H. cbn [hdIs] in H. rewrite (blank_not_hash b Hb) in H. cbn [andb] in H.
    rewrite <- H, len_cons in DL. lia.
  - unfold contentRev, defRev. cbv zeta. rewrite C. remember (dropWhile isSpTab r) as u eqn:Eu. clear Eu.
    destruct (hdIs isHash u) eqn:Hh; cbn [andb]; [|split; reflexivity].
    remember (dropWhile isHash u) as r2 eqn:Er2. clear Er2.
    pose proof (dbe_cases r2) as C2. cbv zeta in C2.
    destruct (isNil r2 || hdIs isSpTab r2) eqn:Ecl.
    + destruct (escB r2) eqn:EB.
      * destruct C2 as (b & Hb & E). split; [|discriminate]. intros H. exfalso. rewrite E in H.
        apply (f_equal len) in H. rewrite len_cons in H. lia.
      * split; [reflexivity|]. intros _. exact C2.
    + split; [|reflexivity]. intros _. apply orb_false_iff in Ecl as [_ Ecl].
      unfold escB. rewrite (dropWhile_id isSpTab r2 Ecl), Z.eqb_refl. reflexivity.
Qed.

Lemma defContent_rev raw : defContent raw = rev (defRev (rev raw)).
Proof.
  unfold defContent, defRev, stripEnd. cbv zeta. rewrite !rev_involutive, !endsWith_rev, isNil_rev.
  destruct (_ && _); reflexivity.
Qed.
Lemma escTailRaw_rev raw : escTailRaw raw = escTailRev (rev raw).
Proof.
  unfold escTailRaw, escTailRev, escB, stripEnd, isEndEscaped, oddBackslashes. cbv zeta.
  rewrite !rev_involutive, !endsWith_rev, !len_rev. rewrite <- (len_rev raw). reflexivity.
Qed.
Lemma rev_inj (a b : bytes) : rev a = rev b -> a = b.
Proof. intros H. rewrite <- (rev_involutive a), H. apply rev_involutive. Qed.

Theorem implContent_iff raw : implContent raw = defContent raw <-> escTailRaw raw = false.
Proof.
  rewrite implContent_rev, defContent_rev, escTailRaw_rev, <- contentRev_iff.
  split; [apply rev_inj|intros ->; reflexivity].
Qed.

(* the rule is inert exactly when escTail is false (for lines that are headings; on other lines both answers are None) *)
Theorem atx_def_impl_escTail body : escTail body = false -> atx_def_impl body = atx_def body.
Proof.
  intros H. rewrite atx_def_impl_unfold, atx_def_unfold. cbv zeta. unfold escTail in H.
  remember (dropWhile isHash body) as rest eqn:Erest. clear Erest.
  destruct (_ || _); [reflexivity|]. destruct rest as [|c rest']; [reflexivity|]. destruct (negb (isSpTab c)); [reflexivity|].
  apply implContent_iff in H. rewrite H. reflexivity.
Qed.
Theorem atx_def_impl_escTail_iff body : atx_def body <> None -> (atx_def_impl body = atx_def body <-> escTail body = false).
Proof.
  intros Hd. split; [|apply atx_def_impl_escTail]. revert Hd.
  rewrite atx_def_impl_unfold, atx_def_unfold. cbv zeta. unfold escTail.
  remember (dropWhile isHash body) as rest eqn:Erest. clear Erest.
  destruct (_ || _); [congruence|]. destruct rest as [|c rest']; [reflexivity|]. destruct (negb (isSpTab c)); [congruence|].
  intros _ H. apply implContent_iff. congruence.
Qed.
(* escBlank is an over-approximation of escTail *)
Lemma escTailRaw_escBlank raw : escBlank raw = false -> escTailRaw raw = false.
Proof. intros H. apply implContent_iff. apply implContent_noesc. exact H. Qed.
Theorem escTail_escBlank body : escTail body = true -> escBlank body = true.
Proof.
  intros H. destruct (escBlank body) eqn:Eb; [reflexivity|]. exfalso. unfold escTail in H.
  rewrite escTailRaw_escBlank in H; [discriminate|].
  destruct (dropWhile_suffix isHash body) as [s1 E1]. rewrite E1 in Eb. apply escBlank_app_false in Eb as [_ Eb].
  destruct (dropWhile_suffix isSpTab (dropWhile isHash body)) as [s2 E2]. rewrite E2 in Eb. apply escBlank_app_false in Eb as [_ Eb]. exact Eb.
Qed.

(* (3) with the refined class *)
Theorem atx_C15_fine body eol : noEol body -> In eol eols -> escTail body = false ->
  parseATXHeading (body ++ eol) = atx_triple body (atx_def body) /\ atx_view (body ++ eol) = atx_def body.
Proof.
  intros Hn He Hb. rewrite <- (atx_def_impl_escTail body Hb). split; [apply atx_impl_exact|apply atx_impl_view]; assumption.
Qed.
(* and its converse: on a heading line with escTail = true the recognizer's answer is NOT the CommonMark one *)
Theorem atx_C15_fine_converse body eol : noEol body -> In eol eols -> atx_def body <> None -> escTail body = true ->
  atx_view (body ++ eol) <> atx_def body.
Proof.
  intros Hn He Hd Ht H. rewrite (atx_impl_view body eol Hn He) in H. apply (atx_def_impl_escTail_iff body Hd) in H. congruence.
Qed.

(* the escaped blank inside the content is harmless: escBlank = true but escTail = false *)
Example escTail_finer : escBlank [35;32;120;92;32;121] = true /\ escTail [35;32;120;92;32;121] = false.
Proof. split; reflexivity. Qed.
(* on heading lines escTail is exact (theorem atx_def_impl_escTail_iff); on non-heading lines both answers are None *)
Eval vm_compute in forallb (fun b => match atx_def b with None => opt_eqb (atx_def_impl b) None | _ => Bool.eqb (escTail b) (negb (opt_eqb (atx_def_impl b) (atx_def b))) end) samples.

Print Assumptions atx_impl_exact.
Print Assumptions atx_impl_view.
Print Assumptions atx_C15.
Print Assumptions atx_C15_spelled.
Print Assumptions atx_C15_none_iff.
Print Assumptions atx_D22_refuted.
Print Assumptions atx_D22_view.
Print Assumptions atx_def_impl_escTail_iff.
Print Assumptions escTail_escBlank.
Print Assumptions atx_C15_fine.
Print Assumptions atx_C15_fine_converse.
Print Assumptions atx_body_impl.
