(* ChkComp3.v -- T30: the closed-leaf invariant through parseEndBracket, the tokeniser step, and parseInlines
   (after ShapesComp3.v); the end-to-end statement for the inline pass. *)
From Coq Require Import List ZArith Lia Bool.
Import ListNotations.
Require Import Base Tables Utf8 Tree Rdr Link Collect Html Recog Inl3a Inl3b Inl3c Inl3d Inl3e Driver Render Safe MainTok.
Require Import Leaf3b Leaf3d Leaf3e Leaf3n ShapesBase ShapesR C17bytes C17chk C17tags C17local ChkA ChkHT ChkCollect ChkComp1 ChkComp2.
Open Scope Z_scope.

Section St3.
  Variable src : bytes.
  Variable U : list inline.
  Hypothesis HU : Forall (QU src) U.
  Hypothesis HSep : sepEndsb src U = true.
  Hypothesis HInd : indBlank src U = true.
  Notation Inv := (Inv src U).
  Notation InvS := (InvS src U).

  Ltac kchain :=
    repeat match goal with
    | |- Inv _ (if ?c then _ else _) => destruct c
    | |- Inv _ (appendKid _ _ (PN 0 _ _ _ 0 _ _)) => apply I_appendKid; [ |lia|reflexivity|]
    | |- Inv _ (updN _ _ (fun n => setSpan n _ _)) => apply I_updSpan; [|lia]
    | |- Inv _ (updN _ _ (fun n => setRef (setSpan n _ _) _)) => apply I_updSpanRef; [|lia]
    | |- Inv _ (advanceTo _ _) => apply I_advanceTo
    end.

  Lemma S_parseEndBracket st start : InvS st -> InvS (fst (parseEndBracket st start)).
  Proof.
    intros H. pose proof (proj1 H) as Esrc. unfold parseEndBracket. cbv zeta. rewrite Esrc.
    assert (H1 : InvS (fst (lookForLinkOrImage st))).
    { unfold lookForLinkOrImage. apply (Inv_S src U (nid st)). apply I_lfl. exact H. }
    destruct (lookForLinkOrImage st) as [st1 odi]. cbn [fst] in H1.
    destruct (odi <? 0). { cbn [fst]. apply S_addText. exact H1. }
    remember (if d_typ (nthD (stk st1) odi) =? tImage then ImageKind else LinkKind) as kind eqn:Ekind.
    assert (Hk : prot kind = false) by (subst kind; destruct (_ =? tImage); reflexivity).
    destruct (I_wrap src U (nid st1) st1 kind (d_node (nthD (stk st1) odi)) None H1 Hk) as (HK & Hid & Hnid & Hstk).
    assert (Hfail : InvS (setStk (addText st1 start (start + 1)) (delStack (stk st1) odi (odi + 1)))).
    { pose proof (S_addText src U st1 start (start + 1) H1) as HT.
      apply I_setStk_incl; [exact HT|]. rewrite stk_addText. apply delStack_incl. }
    match goal with |- context [match ?X with Some _ => _ | None => _ end] => destruct X as [[[[[ispan dspan] dtext] tspan] ttext]|] end.
    - destruct (wrap st1 kind _ None) as [st2 lid]. cbn [fst snd] in *. subst lid.
      apply (Inv_S src U (nid st1)), I_finishLink. kchain; try exact HK;
        (intros HX; match goal with |- context [if ?c then _ else _] => destruct c end; [|reflexivity];
         eapply (kids_kgood_plain src U HU HSep); [exact HX|reflexivity]).
    - match goal with |- InvS (fst (match ?X with pair _ _ => _ end)) => destruct X as [lspan linner] end.
      destruct (_ && _ && _).
      + destruct (negb (matchRef _ _)); [cbn [fst]; assumption|].
        destruct (wrap st1 kind _ None) as [st2 lid]. cbn [fst snd] in *. subst lid.
        apply (Inv_S src U (nid st1)), I_finishLink. kchain; exact HK.
      + destruct (spanValid lspan).
        * destruct (negb (matchRef _ _)); [cbn [fst]; assumption|].
          destruct (wrap st1 kind _ None) as [st2 lid]. cbn [fst snd] in *. subst lid.
          apply (Inv_S src U (nid st1)), I_finishLink. kchain; try exact HK.
          intros _. eapply (kids_kgood_plain src U HU HSep); [exact H1|reflexivity].
        * destruct (negb (matchRef _ _)); [cbn [fst]; assumption|].
          destruct (wrap st1 kind _ None) as [st2 lid]. cbn [fst snd] in *. subst lid.
          apply (Inv_S src U (nid st1)), I_finishLink. kchain; exact HK.
  Qed.

  (* ---- collectCodeSpan: the children are childless Text / Indent nodes ---- *)
  Definition flatC (n : pn) : Prop := prot (pkind n) = false /\ pkids n = [].
  Lemma flatF_kgood l : Forall flatC l -> forallb (kgood src) l = true.
  Proof.
    intros H. apply forallb_forall. intros x Hx. rewrite Forall_forall in H. destruct (H x Hx) as (A & B).
    destruct x as [i k s e ind r ks]. cbn [pkind pkids kgood] in *. subst ks. rewrite A. reflexivity.
  Qed.
  Lemma cs_addSpan_flat s0 acc s e : Forall flatC acc -> Forall flatC (cs_addSpan s0 acc s e).
  Proof.
    intros H. unfold cs_addSpan. cbv zeta.
    repeat match goal with |- context [if ?c then _ else _] => destruct c end;
      repeat (apply Forall_app; split); try assumption; repeat constructor.
  Qed.
  Lemma flat_setInd n v : flatC n -> flatC (setInd n v). Proof. destruct n; cbn; tauto. Qed.
  Lemma flat_setSpan n s e : flatC n -> flatC (setSpan n s e). Proof. destruct n; cbn; tauto. Qed.
  Lemma Forall_rev' {A} (P : A -> Prop) l : Forall P l -> Forall P (rev l).
  Proof. intros H. rewrite Forall_forall in *. intros x Hx. apply H. apply in_rev. assumption. Qed.

  Lemma strip_flat s0 sl : Forall flatC sl -> Forall flatC (stripCodeSpanSpace s0 sl).
  Proof.
    intros H. unfold stripCodeSpanSpace.
    destruct (negb (existsb _ sl)); [assumption|].
    destruct sl as [|f r]; [assumption|].
    destruct (rev (f :: r)) as [|lst rr] eqn:Er; [assumption|].
    destruct (negb _ || negb _); [assumption|].
    cbv zeta.
    assert (H1 : Forall flatC (if pkind f =? IndentKind
                               then if pind (setInd f (pind f - 1)) =? 0 then r else setInd f (pind f - 1) :: r
                               else if plen (setSpan f (ps f + 1) (pe f)) =? 0 then r else setSpan f (ps f + 1) (pe f) :: r)).
    { inversion H as [|? ? Hf Hr]; subst.
      destruct (pkind f =? IndentKind); [destruct (pind _ =? 0)|destruct (plen _ =? 0)]; try assumption;
        constructor; try assumption; [apply flat_setInd|apply flat_setSpan]; assumption. }
    set (sl1 := if pkind f =? IndentKind then _ else _) in *.
    destruct (rev sl1) as [|l rr'] eqn:Er1; [assumption|].
    assert (H2 : Forall flatC (l :: rr')) by (rewrite <- Er1; apply Forall_rev'; assumption).
    inversion H2 as [|? ? Hl Hrr]; subst.
    destruct (pkind l =? IndentKind); match goal with |- context [if ?c then _ else _] => destruct c end;
      try (apply Forall_rev'; assumption);
      apply (Forall_rev' flatC (_ :: rr')); constructor; try assumption; [apply flat_setInd|apply flat_setSpan]; assumption.
  Qed.

  Lemma S_plain st kind s e kids : InvS st -> prot kind = false -> forallb (kgood src) kids = true ->
    InvS (fst (addNode st kind s e kids)).
  Proof. intros H Hk Hkids. apply (Inv_S src U (nid st)). apply I_addNode_plain; assumption. Qed.
  Lemma S_setIgn st v : InvS st -> InvS (setIgn st v). Proof. intros H; exact H. Qed.
  Lemma S_setUpos st v : InvS st -> InvS (setUpos st v). Proof. intros H; exact H. Qed.
  Lemma S_advanceTo st p : InvS st -> InvS (advanceTo st p).
  Proof. intros H. unfold advanceTo. destruct (0 <=? _); apply S_setUpos; exact H. Qed.

  Lemma S_collectCodeSpan st a b c d : InvS st -> InvS (collectCodeSpan st a b c d).
  Proof.
    intros H. unfold collectCodeSpan. cbv zeta.
    destruct (nodeIndexForPosition (unpFrom st) d =? 0).
    - apply S_plain; [assumption|reflexivity|]. apply flatF_kgood, strip_flat, cs_addSpan_flat. constructor.
    - match goal with |- context [?F (Z.to_nat _) (cs_addSpan (isrc st) [] ?x ?y) (upos st)] =>
        assert (HM : forall k acc up, Forall flatC acc -> Forall flatC (fst (F k acc up))) end.
      { induction k as [|k IHk]; intros acc up Ha; [exact Ha|]. cbn [fst]. apply IHk.
        destruct (ikind _ =? UnparsedKind); [apply cs_addSpan_flat|]; assumption. }
      match goal with |- context [?F (Z.to_nat ?n) (cs_addSpan (isrc st) [] ?x ?y) (upos st)] =>
        specialize (HM (Z.to_nat n) (cs_addSpan (isrc st) [] x y) (upos st) (cs_addSpan_flat _ _ _ _ (Forall_nil _)));
        destruct (F (Z.to_nat n) (cs_addSpan (isrc st) [] x y) (upos st)) as [acc up] end.
      cbn [fst] in HM.
      apply S_plain; [apply S_setUpos; assumption|reflexivity|].
      apply flatF_kgood, strip_flat, cs_addSpan_flat. assumption.
  Qed.

  Lemma S_push st kind s e kids (mk : Z -> delim) : InvS st -> prot kind = false ->
    forallb (kgood src) kids = true -> (forall id, d_node (mk id) = id) ->
    InvS (setStk (fst (addNode st kind s e kids))
                 (stk (fst (addNode st kind s e kids)) ++ [mk (snd (addNode st kind s e kids))])).
  Proof. intros H Hk Hkids Hmk. apply (Inv_S src U (nid st)). apply I_addNode_push; assumption. Qed.

  (* ---- spans of the source without '<' ---- *)
  Lemma nolt_sub p q : 0 <= p -> (forall i, p <= i < q -> at_ src i <> 60) -> nolt (sub src p q) = true.
  Proof.
    intros Hp H. unfold nolt. apply forallb_at. intros i Hi. pose proof (len_sub_le src p q) as Hl.
    rewrite at_sub by lia. apply negb_true_iff, Z.eqb_neq. apply H. lia.
  Qed.
  Lemma nodeOK_verb k s e : k = CharacterReferenceKind \/ k = SoftLineBreakKind -> nolt (sub src s e) = true -> nodeOK src k s e = true.
  Proof.
    intros Hk Hn. unfold nodeOK. pose proof (nolt_vsafe _ [97] Hn) as Hv. fold (closedVerb (sub src s e)) in Hv.
    destruct Hk as [-> | ->]; rewrite Hv; reflexivity.
  Qed.
  Lemma upto_upto' (l : bytes) m n : n <= len (upto l m) -> upto (upto l m) n = upto l n.
  Proof. unfold upto, len. intros H. rewrite firstn_firstn. f_equal. rewrite firstn_length in H. lia. Qed.

  (* ---- one step of the tokeniser ---- *)
  Lemma S_istep st pos pl : InvS st -> InvS (fst (fst (istep st pos pl))).
  Proof.
    intros H. pose proof (proj1 H) as Esrc. unfold istep. cbv zeta.
    assert (HT : InvS (addText st pl pos)) by (apply S_addText; assumption).
    destruct ((_ =? 42) || (_ =? 95)).
    { pose proof (S_parseDelimiterRun src U _ pos HT) as H2. destruct (parseDelimiterRun _ pos) as [st2 e]. exact H2. }
    destruct (_ =? 91).
    { match goal with |- context [addNode ?a ?b ?c ?d ?e] =>
        pose proof (fun mk => S_push a b c d e mk HT eq_refl eq_refl) as H2; destruct (addNode a b c d e) as [st2 id] end.
      cbn [fst snd] in *. apply (H2 (fun id => {| d_typ := _; d_flags := _; d_n := _; d_node := id |})). reflexivity. }
    destruct (_ =? 93).
    { pose proof (S_parseEndBracket _ pos HT) as H2. destruct (parseEndBracket _ pos) as [st2 e]. exact H2. }
    destruct (_ =? 33).
    { destruct (_ || _); [exact H|].
      match goal with |- context [addNode ?a ?b ?c ?d ?e] =>
        pose proof (fun mk => S_push a b c d e mk HT eq_refl eq_refl) as H2; destruct (addNode a b c d e) as [st2 id] end.
      cbn [fst snd] in *. apply (H2 (fun id => {| d_typ := _; d_flags := _; d_n := _; d_node := id |})). reflexivity. }
    destruct (_ =? 32).
    { destruct (parseHardLineBreakSpace _) as [e ok]. destruct (ok && _); [|exact H].
      cbn [fst]. apply S_setIgn. apply S_plain; [assumption|reflexivity|reflexivity]. }
    destruct (_ =? 96).
    { destruct (parseCodeSpan (rfuelOf st) st pos) as [[cS cE] sE]. destruct (0 <=? sE); [|exact H].
      cbn [fst]. apply S_collectCodeSpan. exact HT. }
    destruct (Z.eqb_spec (at_ (isrc st) pos) 60) as [E60|E60].
    { destruct (0 <=? parseAutolink _).
      - cbn [fst]. apply S_plain; [assumption|reflexivity|reflexivity].
      - destruct (parseHTMLTag _ _) as [ts te] eqn:Ept. destruct (spanValid (ts, te)) eqn:Ev; cbn [negb]; [|exact H]. cbn [fst].
        apply S_advanceTo.
        assert (HT' : InvS (addText st pl ts)) by (apply S_addText; assumption).
        assert (HIB : indBlank (r_src (newReader (isrc st) (unpFrom st) pos)) (r_spans (newReader (isrc st) (unpFrom st) pos)) = true).
        { unfold newReader; cbn [r_src r_spans]. rewrite Esrc. destruct H as (_ & E2 & _).
          unfold unpFrom. rewrite E2. apply indBlank_from, HInd. }
        destruct (parseHTMLTag_gt _ _ ts te HIB Ept Ev) as (Hs & _ & Hgt & H0).
        unfold newReader in Hgt, H0, Hs; cbn [r_src r_pos] in Hgt, H0, Hs. rewrite Esrc in Hgt.
        apply S_plain; [assumption|reflexivity|].
        rewrite Esrc.
        eapply (kids_kgood_raw src U HU HSep); [exact HT'|exact H0|exact Hgt]. }
    destruct (_ =? 92).
    { pose proof (S_parseBackslash src U _ pos HT) as H2. destruct (parseBackslash _ pos) as [st2 e]. exact H2. }
    destruct (Z.eqb_spec (at_ (isrc st) pos) 38) as [E38|E38].
    { destruct (Z.ltb_spec (parseCharacterEscape (sub (isrc st) pos (spanEnd st))) 0) as [Hlt|Hge]; [exact H|]. cbn [fst].
      assert (Hp0 : 0 <= pos) by (pose proof (at_nonzero_lt (isrc st) pos ltac:(lia)); lia).
      apply (I_addNode_prot src U); [exact HT| |reflexivity].
      apply nodeOK_verb; [left; reflexivity|].
      destruct (pce_inert _ _ eq_refl Hge) as (Hle & Hin). apply inertb_nolt in Hin. rewrite Esrc in *.
      unfold sub in Hin, Hle. rewrite upto_upto' in Hin by exact Hle.
      unfold sub. replace (pos + parseCharacterEscape (upto (from_ src pos) (spanEnd st - pos)) - pos)
        with (parseCharacterEscape (upto (from_ src pos) (spanEnd st - pos))) by lia. exact Hin. }
    destruct (Z.eqb_spec (at_ (isrc st) pos) 10) as [E10|E10].
    { cbn [fst]. destruct (negb _); [|assumption].
      assert (Hp0 : 0 <= pos) by (pose proof (at_nonzero_lt (isrc st) pos ltac:(lia)); lia).
      apply (I_addNode_prot src U); [exact HT| |reflexivity].
      apply nodeOK_verb; [right; reflexivity|]. apply nolt_sub; [exact Hp0|]. intros i Hi. replace i with pos by lia. rewrite <- Esrc. lia. }
    destruct (Z.eqb_spec (at_ (isrc st) pos) 13) as [E13|E13].
    { cbn [fst]. destruct (negb _); [|assumption].
      assert (Hp0 : 0 <= pos) by (pose proof (at_nonzero_lt (isrc st) pos ltac:(lia)); lia).
      apply (I_addNode_prot src U); [exact HT| |reflexivity].
      apply nodeOK_verb; [right; reflexivity|]. apply nolt_sub; [exact Hp0|]. intros i Hi. rewrite <- Esrc.
      match type of Hi with context [if ?c then _ else _] => destruct c eqn:Ew end.
      - apply andb_true_iff in Ew. destruct Ew as [_ Ew]. apply Z.eqb_eq in Ew.
        assert (Hc : i = pos \/ i = pos + 1) by lia. destruct Hc as [-> | ->]; [rewrite E13|rewrite Ew]; discriminate.
      - replace i with pos by lia. lia. }
    exact H.
  Qed.

  Lemma S_iloop : forall fuel st pos pl, InvS st -> InvS (fst (iloop fuel st pos pl)).
  Proof.
    induction fuel as [|f IH]; intros st pos pl H; [exact H|]. cbn [iloop].
    destruct (_ && _); [|exact H].
    pose proof (S_istep st pos pl H) as H2. destruct (istep st pos pl) as [[st2 pos2] pl2]. cbn [fst] in H2.
    apply IH. assumption.
  Qed.

  Lemma S_pushU st u : InvS st -> iClosed false src u = true -> InvS (setRk st (rk st ++ [ofInline u])).
  Proof.
    intros H Hu. pose proof (Inv_no0 src U _ st H) as H0. destruct H as (E1 & E2 & Hn & Hg & Hs).
    unfold InvS, ChkComp1.InvS, ChkComp1.Inv, sids, setRk. cbn [isrc unp nid rk stk].
    split; [assumption|]. split; [assumption|]. split; [assumption|]. split; [|assumption].
    rewrite gokF_app. unfold sids in Hg. rewrite Hg. cbn [andb]. unfold gokF. cbn [forallb]. rewrite andb_true_r.
    apply kgood_gok; [exact H0|lia|]. apply iClosed_ofInline, Hu.
  Qed.
  Lemma nthU_ok st : InvS st -> iClosed false src (nth (Z.to_nat (upos st)) (unp st) (mkI 0 0 0)) = true.
  Proof.
    intros (_ & E2 & _). rewrite E2.
    destruct (nth_in_or_default (Z.to_nat (upos st)) U (mkI 0 0 0)) as [Hin|Hd].
    - rewrite Forall_forall in HU. apply HU. assumption.
    - rewrite Hd. reflexivity.
  Qed.

  Lemma S_outer : forall fuel st, InvS st -> InvS (outer fuel st).
  Proof.
    induction fuel as [|f IH]; intros st H; [exact H|]. cbn [outer].
    destruct (len (unp st) <=? upos st); [exact H|].
    apply IH. apply S_setUpos.
    pose proof (nthU_ok st H) as Hu.
    destruct (ikind _ =? 0); [apply S_setIgn; assumption|].
    destruct (ikind _ =? IndentKind).
    { destruct (negb (ign st)); [apply S_pushU; assumption|assumption]. }
    destruct (ikind _ =? UnparsedKind).
    { match goal with |- context [iloop ?a ?b ?c ?d] =>
        pose proof (S_iloop a b c d (S_setIgn st false H)) as H2; destruct (iloop a b c d) as [st2 pl2] end.
      cbn [fst] in H2. apply S_addText. assumption. }
    apply (S_pushU (setIgn st false)); [apply S_setIgn; assumption|assumption].
  Qed.
End St3.

(* ================================================================ the end-to-end statement for the inline pass *)
(* what is assumed of the container's inline list (executable checks):
     every entry is closed in the sense of C17local.iClosed and starts at a non-negative offset;
     every non-Indent entry that is not the last one ends with a separator byte (line ending, or a byte of U+FFFD);
     Indent entries cover blanks only. *)
Definition bikIn (src : bytes) (l : list inline) : bool :=
  forallb (fun u => iClosed false src u && (0 <=? istart u)) l && sepEndsb src l && indBlank src l.

Theorem parseInlines_closed_partial src matcher b :
  bikIn src (bik b) = true ->
  forallb (iClosed false src) (parseInlines src matcher b) = true.
Proof.
  unfold bikIn. intros H. apply andb_true_iff in H. destruct H as [H H3]. apply andb_true_iff in H. destruct H as [H1 H2].
  assert (HU : Forall (QU src) (bik b)).
  { apply Forall_forall. rewrite forallb_forall in H1. intros u Hu. specialize (H1 u Hu). apply andb_true_iff in H1.
    destruct H1 as [A B]. split; [exact A|apply Z.leb_le, B]. }
  unfold parseInlines.
  set (st0 := {| rk := []; isrc := src; unp := bik b; upos := 0; stk := []; ign := false; nid := 1;
                 rootEnd := bend b; matcher := matcher |}).
  assert (H0 : InvS src (bik b) st0).
  { unfold InvS, Inv. cbn. split; [reflexivity|]. split; [reflexivity|]. split; [lia|]. split; [reflexivity|constructor]. }
  pose proof (S_outer src (bik b) HU H2 H3 (S (length (bik b))) st0 H0) as HO.
  pose proof (I_processEmphasis src (bik b) _ _ 0 HO) as HP.
  destruct HP as (_ & _ & _ & Hg & _).
  rewrite forallb_forall. intros x Hx. apply in_map_iff in Hx. destruct Hx as (n & <- & Hn).
  unfold gokF in Hg. rewrite forallb_forall in Hg. eapply gok_iClosed. apply Hg, Hn.
Qed.

Print Assumptions parseInlines_closed_partial.
