From Coq Require Import List ZArith Lia Bool.
Import ListNotations.
Require Import Base Tree Rdr Link Collect Html Recog LP Rules Starts Driver Rec16 Rec17 Rec18 L2Kind L2CC EolInv EolCRBytes EolCRLFSimTree
  Props LADef TOcp EolFinalDefs EolFinalSimBytes EolFinalSimTree EolFinalGenOcp.
Open Scope Z_scope.

(* C14 (i), final newline, every input: the in-line tree invariant of the last line, now with the two facts about paragraphs
   that make onCloseParagraph harmless on ONE run:
     nsP (EolFinalGenOcp): an open setext heading exists only when closing it cannot produce the orphan paragraph;
     peP: the entry list of an open paragraph-kind block is empty or one of the finitely many lists SS recorded at line entry
          (for which the facts PE needed by the two-run reader lemma are known). *)
Lemma allB_impl (P P' : block -> bool) : (forall b, P b = true -> P' b = true) -> forall b, allB P b = true -> allB P' b = true.
Proof.
  intros Hi. fix IH 1. intros [K s e bk ik a n c l lb] H. cbn [allB] in *. apply andb_true_iff in H. destruct H as [H1 H2].
  apply andb_true_iff. split; [apply Hi, H1|]. clear H1. induction bk as [|x r IHr]; [reflexivity|]. cbn [forallb] in *.
  apply andb_true_iff in H2. destruct H2 as [Hx Hr]. apply andb_true_iff. split; [apply IH, Hx|apply IHr, Hr].
Qed.
Lemma allB_leaf (P : block -> bool) b : bkids b = [] -> allB P b = P b.
Proof. intros E. rewrite allB_eq, E. cbn [forallb]. apply andb_true_r. Qed.

Lemma paraK_cases k : isParaK k = true -> k = ParagraphKind \/ k = SetextHeadingKind.
Proof. unfold isParaK. intros H. apply orb_true_iff in H. destruct H as [H|H]; apply Z.eqb_eq in H; tauto. Qed.
Lemma paraK_leaf b : cc b = true -> isParaK (bkind b) = true -> bkids b = [].
Proof.
  intros H E. apply cc_parts in H. destruct H as [H _]. apply forallb_false_nil.
  rewrite forallb_forall in *. intros c Hc. specialize (H c Hc). destruct (paraK_cases _ E) as [Ek|Ek]; rewrite Ek in H; discriminate H.
Qed.
Lemma isParaK_code' k : isParaK k = true -> negb (isCode k) = true.
Proof. intros H. destruct (paraK_cases _ H) as [->| ->]; reflexivity. Qed.

(* strict version: no open setext heading at all (holds at line boundaries) *)
Definition sxP (b : block) : bool := negb (isOpen b && (bkind b =? SetextHeadingKind)).
Definition sxB := allB sxP.

Section GenTree.
  Variable L : Z.
  Variable SS : list (list inline).
  Variable src : bytes.

  Definition peP (b : block) : bool :=
    negb (isParaK (bkind b)) || match bik b with [] => true | _ => sufIk (bik b) SS end.
  Definition qP2 (b : block) : bool := qP L b && nsP src b && peP b.
  Definition qB2 := allB qP2.
  Definition peB := allB peP.

  Lemma qP2_parts b : qP2 b = true -> qP L b = true /\ nsP src b = true /\ peP b = true.
  Proof. unfold qP2. intros H. apply andb_true_iff in H. destruct H as [H C]. apply andb_true_iff in H. tauto. Qed.
  Lemma qP2_mk b : qP L b = true -> nsP src b = true -> peP b = true -> qP2 b = true.
  Proof. intros A B C. unfold qP2. rewrite A, B, C. reflexivity. Qed.
  Lemma qB2_qB b : qB2 b = true -> qB L b = true. Proof. apply allB_impl. intros x H. apply qP2_parts in H. tauto. Qed.
  Lemma qB2_peB b : qB2 b = true -> peB b = true. Proof. apply allB_impl. intros x H. apply qP2_parts in H. tauto. Qed.
  Lemma sxP_nsP b : sxP b = true -> nsP src b = true. Proof. unfold sxP, nsP. intros ->. reflexivity. Qed.

  Lemma qP2_kids b ks : qP2 (set_bkids b ks) = qP2 b. Proof. destruct b; reflexivity. Qed.
  Lemma qP2_loose b v : qP2 (set_bloose b v) = qP2 b. Proof. destruct b; reflexivity. Qed.
  Lemma nsP_closed b : isOpen b = false -> nsP src b = true. Proof. unfold nsP. intros ->. reflexivity. Qed.
  Lemma peP_set_bend b e : peP (set_bend b e) = peP b. Proof. destruct b; reflexivity. Qed.
  Lemma nsP_nonSetext b : bkind b <> SetextHeadingKind -> nsP src b = true.
  Proof. intros N. unfold nsP. replace (bkind b =? SetextHeadingKind) with false by (symmetry; apply Z.eqb_neq; exact N). rewrite andb_false_r. reflexivity. Qed.
  Lemma peP_nonPara b : isParaK (bkind b) = false -> peP b = true. Proof. unfold peP. intros ->. reflexivity. Qed.
  Lemma isOpen_set_bend b e : isOpen (set_bend b e) = (e <? 0). Proof. destruct b; reflexivity. Qed.
  Lemma qP2_endo b e : isOpen b = true -> qP2 b = true -> qP2 (set_bend b e) = true.
  Proof.
    intros Ho H. apply qP2_parts in H. destruct H as (A & B & C). apply qP2_mk.
    - apply (qP_end L b e I A).
    - destruct (Z.ltb_spec e 0) as [Lt|Ge]; [|apply nsP_closed; rewrite isOpen_set_bend; apply Z.ltb_ge; exact Ge].
      unfold nsP in *. rewrite isOpen_set_bend. replace (e <? 0) with true by (symmetry; apply Z.ltb_lt; exact Lt). rewrite Ho in B. destruct b; exact B.
    - rewrite peP_set_bend. exact C.
  Qed.
  Lemma isParaK_code k : isCode k = true -> isParaK k = false.
  Proof. unfold isCode, isParaK. intros H. apply orb_true_iff in H. destruct H as [H|H]; apply Z.eqb_eq in H; subst k; reflexivity. Qed.
  Lemma qP2_indented s b : bkind b = IndentedCodeBlockKind -> qP2 b = true -> qP2 (onCloseIndented s b) = true.
  Proof.
    intros Ek H. apply qP2_parts in H. destruct H as (A & B & C). apply qP2_mk; [apply (qP_indented L s b A)| |].
    - apply nsP_nonSetext. rewrite bkind_onCloseIndented, Ek. discriminate.
    - apply peP_nonPara. rewrite bkind_onCloseIndented, Ek. reflexivity.
  Qed.
  Lemma qB2_set_bend_open b e : isOpen b = true -> qB2 b = true -> qB2 (set_bend b e) = true.
  Proof.
    intros Ho H. apply (allB_parts qP2) in H. destruct H as [H1 H2]. unfold qB2. rewrite allB_eq, (qP2_endo b e Ho H1).
    replace (bkids (set_bend b e)) with (bkids b) by (destruct b; reflexivity). exact H2.
  Qed.
  Lemma qB2_onCloseIndented s b : bkind b = IndentedCodeBlockKind -> qB2 b = true -> qB2 (onCloseIndented s b) = true.
  Proof.
    intros Ek H. apply (allB_parts qP2) in H. destruct H as [H1 H2]. unfold qB2. rewrite allB_eq, (qP2_indented s b Ek H1).
    replace (bkids (onCloseIndented s b)) with (bkids b) by (unfold onCloseIndented; destruct b; reflexivity). exact H2.
  Qed.

  (* the outputs of onCloseParagraph on a closing paragraph-kind leaf *)
  Lemma fixI_from ik fc : forallb (fixI L) ik = true -> forallb (fixI L) (from_ ik fc) = true.
  Proof. apply forallb_sub. intros x Hx. unfold from_ in Hx. revert Hx. generalize (Z.to_nat fc). intros n. revert ik. induction n as [|n IH]; intros ik Hx; [exact Hx|]. destruct ik as [|y r]; [destruct Hx|]. right. apply IH. exact Hx. Qed.
  Definition Ocl (o : block) : Prop := isOpen o = false /\ qP L o = true /\ forallb (allB qP2) (bkids o) = true /\ isParaK (bkind o) = true /\ peP o = true.
  Lemma Ocl_cut o pos fc : Ocl o -> Ocl (set_bik (set_bstart o pos) (from_ (bik o) fc)).
  Proof.
    intros (A & B & C & D & E). destruct o as [K s e bk ik a n c l lb]. unfold Ocl. cbn [set_bik set_bstart bik bkids bkind isOpen bend] in *.
    split; [exact A|]. split; [|split; [exact C|split; [exact D|]]].
    2:{ unfold peP in *. cbn [bkind bik] in *. rewrite D in *. cbn [negb orb] in *. destruct (from_ ik fc) as [|u r] eqn:Ef; [reflexivity|]. rewrite <- Ef.
        destruct ik as [|v ik']; [unfold from_ in Ef; rewrite skipn_nil in Ef; discriminate|]. apply (sufIk_suf _ (v :: ik')); [apply isSuf_from|exact E]. }
    unfold qP in *. cbn [bkind bik] in *.
    apply andb_true_iff in B. destruct B as [B1 B2]. apply andb_true_iff. split.
    - rewrite (isParaK_code' K D). reflexivity.
    - destruct (negb (K =? ParagraphKind)); [reflexivity|]. cbn [orb] in *. apply fixI_from, B2.
  Qed.
  Lemma Ocl_qB2 o : Ocl o -> qB2 o = true.
  Proof.
    intros (A & B & C & D & E). unfold qB2. rewrite allB_eq, C, andb_true_r. apply qP2_mk; [exact B|apply nsP_closed, A|exact E].
  Qed.
  Lemma refDef_qB2 s e k : qB2 (refDefBlock s e k) = true.
  Proof. unfold qB2. rewrite allB_leaf by reflexivity. apply qP2_mk; [reflexivity|apply nsP_nonSetext; discriminate|apply peP_nonPara; reflexivity]. Qed.
  Lemma qB2_ocp b e : 0 <= e -> isOpen b = true -> isParaK (bkind b) = true -> qB2 b = true ->
    forallb qB2 (onCloseParagraph src (set_bend b e)) = true.
  Proof.
    intros He Ho Hk H. apply (allB_parts qP2) in H. destruct H as [H1 Hkids]. apply qP2_parts in H1. destruct H1 as (A & B & C).
    rewrite (nsP_ocp src b e B Ho). rewrite forallb_forall. apply Forall_forall.
    apply (ocpN_all (fun x => qB2 x = true) Ocl refDef_qB2 Ocl_qB2 Ocl_cut).
    split; [rewrite isOpen_set_bend; apply Z.ltb_ge; exact He|]. split; [apply (qP_end L b e I A)|]. split; [|split; [destruct b; exact Hk|rewrite peP_set_bend; exact C]].
    replace (bkids (set_bend b e)) with (bkids b) by (destruct b; reflexivity). exact Hkids.
  Qed.
  Lemma qB2_closeBlock e : 0 <= e -> forall fuel b, qB2 b = true -> forallb qB2 (closeBlock fuel src b e) = true.
  Proof.
    intros He. induction fuel as [|f IH]; intros b H; [cbn; rewrite H; reflexivity|]. cbn [closeBlock].
    destruct (isOpen b) eqn:Eo; cbn [negb]; [|cbn; rewrite H; reflexivity]. cbv zeta.
    assert (Hcl : forall x, qB2 x = true -> qB2 (match lastBlock x with Some c => set_lastBlocks x (closeBlock f src c e) | None => x end) = true).
    { intros x Hx. destruct (lastBlock x) as [c|] eqn:El; [|exact Hx]. apply (allB_set_lastBlocks qP2 qP2_kids); [exact Hx|].
      apply IH. eapply allB_lastBlock; eassumption. }
    assert (H1 : qB2 (set_bend b e) = true) by (apply qB2_set_bend_open; assumption).
    assert (K1 : bkind (set_bend b e) = bkind b) by (destruct b; reflexivity). rewrite K1.
    destruct (bkind b =? ListKind) eqn:EL.
    { cbn [forallb]. rewrite Hcl; [reflexivity|apply (allB_onCloseList qP2 qP2_kids qP2_loose), H1]. }
    destruct (bkind b =? IndentedCodeBlockKind) eqn:EI.
    { apply Z.eqb_eq in EI. cbn [forallb]. rewrite Hcl; [reflexivity|apply qB2_onCloseIndented; [rewrite K1; exact EI|exact H1]]. }
    destruct ((bkind b =? ParagraphKind) || (bkind b =? SetextHeadingKind)) eqn:EP; [apply qB2_ocp; assumption|].
    cbn [forallb]. rewrite Hcl; [reflexivity|exact H1].
  Qed.

  (* ---- the other facts used along the line ---- *)
  Lemma qB2_newBlock k s : qB2 (newBlock k s) = true.
  Proof.
    unfold qB2. rewrite allB_leaf by reflexivity. apply qP2_mk.
    - unfold qP, newBlock. cbn [bik bkind nslbL forallb]. rewrite !orb_true_r. reflexivity.
    - unfold nsP, newBlock. cbn [bik]. apply orb_true_iff. right. reflexivity.
    - unfold peP, newBlock. cbn [bik]. apply orb_true_r.
  Qed.
  Lemma qB2_append x y : qB2 x = true -> qB2 y = true -> qB2 (set_bkids x (bkids x ++ [y])) = true.
  Proof.
    intros Hx Hy. unfold qB2 in *. apply (allB_set_bkids qP2 qP2_kids); [exact Hx|]. rewrite forallb_app. cbn [forallb]. rewrite Hy.
    apply (allB_parts qP2) in Hx. destruct Hx as [_ Hx]. rewrite Hx. reflexivity.
  Qed.
  Lemma qB2_add_ik x u : qB2 x = true -> ikind u <> SoftLineBreakKind -> isParaK (bkind x) = false -> qB2 (set_bik x (bik x ++ [u])) = true.
  Proof.
    intros H Hu Hk. apply (allB_parts qP2) in H. destruct H as [H1 H2]. unfold qB2. rewrite allB_eq.
    replace (bkids (set_bik x (bik x ++ [u]))) with (bkids x) by (destruct x; reflexivity). rewrite H2, andb_true_r.
    apply qP2_parts in H1. destruct H1 as (A & _ & _).
    assert (Ek : bkind (set_bik x (bik x ++ [u])) = bkind x) by (destruct x; reflexivity).
    assert (NP : bkind x <> ParagraphKind /\ bkind x <> SetextHeadingKind).
    { unfold isParaK in Hk. apply orb_false_iff in Hk. destruct Hk as [K1 K2]. apply Z.eqb_neq in K1, K2. tauto. }
    apply qP2_mk; [|apply nsP_nonSetext; rewrite Ek; tauto|apply peP_nonPara; rewrite Ek; exact Hk].
    unfold qP in *. rewrite Ek. replace (bik (set_bik x (bik x ++ [u]))) with (bik x ++ [u]) by (destruct x; reflexivity).
    apply andb_true_iff in A. destruct A as [A _]. apply andb_true_iff. split.
    - destruct (negb (isCode (bkind x))); [reflexivity|]. cbn [orb] in *. rewrite nslbL_app, A. cbn.
      replace (ikind u =? SoftLineBreakKind) with false by (symmetry; apply Z.eqb_neq; exact Hu). reflexivity.
    - replace (bkind x =? ParagraphKind) with false by (symmetry; apply Z.eqb_neq; tauto). reflexivity.
  Qed.
  Lemma qB2_set_bn x v : qB2 (set_bn x v) = qB2 x. Proof. destruct x; reflexivity. Qed.
  Lemma qB2_set_bchar x v : qB2 (set_bchar x v) = qB2 x. Proof. destruct x; reflexivity. Qed.
  Lemma qB2_set_bindent x v : qB2 (set_bindent x v) = qB2 x. Proof. destruct x; reflexivity. Qed.
  Lemma qB2_set_blast x v : qB2 (set_blast x v) = qB2 x. Proof. destruct x; reflexivity. Qed.
  Lemma qB2_set_bkind_setext x : bkind x = ParagraphKind -> leavesPara src (bik x) = true -> qB2 x = true -> qB2 (set_bkind x SetextHeadingKind) = true.
  Proof.
    intros Ek Hl H. apply (allB_parts qP2) in H. destruct H as [H1 H2]. unfold qB2. rewrite allB_eq.
    replace (bkids (set_bkind x SetextHeadingKind)) with (bkids x) by (destruct x; reflexivity). rewrite H2, andb_true_r.
    apply qP2_parts in H1. destruct H1 as (A & B & C). apply qP2_mk.
    - destruct x; reflexivity.
    - unfold nsP. replace (bik (set_bkind x SetextHeadingKind)) with (bik x) by (destruct x; reflexivity). rewrite Hl. apply orb_true_r.
    - destruct x as [K s e bk ik a n c l lb]. cbn [bkind] in Ek. subst K. exact C.
  Qed.
End GenTree.

Lemma sxP_kids b ks : sxP (set_bkids b ks) = sxP b. Proof. destruct b; reflexivity. Qed.
Lemma sxP_loose b v : sxP (set_bloose b v) = sxP b. Proof. destruct b; reflexivity. Qed.
Lemma peP_kids SS b ks : peP SS (set_bkids b ks) = peP SS b. Proof. destruct b; reflexivity. Qed.
Lemma peP_loose SS b v : peP SS (set_bloose b v) = peP SS b. Proof. destruct b; reflexivity. Qed.
