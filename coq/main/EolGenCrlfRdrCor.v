From Coq Require Import List ZArith Lia Bool.
Import ListNotations.
Require Import Base Tables Utf8 Tree Rdr Link Collect LP Rules Starts Driver Props LADef ShapesBase ShapesR IFBase EntBase EntRdr1
  EolCRLFDefs EolCRLFSimBytes EolCRLFSimStream EolGenCrlfRdrDefs EolGenCrlfRdrTlr EolGenCrlfRdrOcp EolGenCrlfRdrMain.
Open Scope Z_scope.

(* ---------------------------------------------------------------- (a) ContainerHasParagraphContent *)
Theorem lastKind_crlf R b : ~ In 13 R -> len (crlf R) + ibudget (bik b) < 999 -> PEc R (bik b) ->
  match rev (onCloseParagraph (crlf R) (phiB R b)) with l :: _ => bkind l =? ParagraphKind | [] => false end =
  match rev (onCloseParagraph R b) with l :: _ => bkind l =? ParagraphKind | [] => false end.
Proof.
  intros R13 Hl HP. rewrite (ocp_crlf R R13 b Hl HP), <- map_rev. destruct (rev (onCloseParagraph R b)) as [|l t]; [reflexivity|].
  cbn [map]. rewrite bkind_phiB. reflexivity.
Qed.
Theorem containerHasParagraphContent_crlf (p p' : lp) : ~ In 13 (source p) -> source p' = crlf (source p) ->
  contBlock p' = phiB (source p) (contBlock p) ->
  len (crlf (source p)) + ibudget (bik (contBlock p)) < 999 -> PEc (source p) (bik (contBlock p)) ->
  containerHasParagraphContent p' = containerHasParagraphContent p.
Proof.
  intros R13 Hs Hc Hl HP. unfold containerHasParagraphContent, containerKind. rewrite Hc, Hs, bkind_phiB.
  destruct (negb (bkind (contBlock p) =? ParagraphKind)); [reflexivity|]. apply lastKind_crlf; assumption.
Qed.
Print Assumptions containerHasParagraphContent_crlf.

(* ---------------------------------------------------------------- a boolean form of PEn *)
Definition PEnb (R : bytes) (ik : list inline) : bool :=
  spW R ik && forallb readableK ik && forallb neSp ik && forallb (indOK1 R) ik && (ibudget ik <=? len R + 9).
Lemma PEnb_sound R ik : PEnb R ik = true -> PEn R ik.
Proof.
  unfold PEnb, PEn. rewrite !andb_true_iff. intros ((((A & B) & C) & D) & E). apply Z.leb_le in E. tauto.
Qed.

(* ---------------------------------------------------------------- (c) PEc from the la-components, and from EntBase.lines *)
Lemma forallb_intro {A} (f : A -> bool) l : (forall x, In x l -> f x = true) -> forallb f l = true.
Proof. intros H. apply forallb_forall. exact H. Qed.

(* sorted spans inside [lo, hi] *)
Lemma tileS_le R : forall l lo hi, tileS R lo hi l -> lo <= hi.
Proof. induction l as [|a r IH]; intros lo hi H; cbn [tileS] in H; [tauto|]. destruct H as (A & _ & B & C). specialize (IH _ _ C). lia. Qed.
Lemma tileS_spW R : forall ik lo hi, 0 <= lo -> hi <= len R -> tileS R lo hi (map ispan ik) ->
  spW R ik = true /\ (forall u, In u ik -> lo <= istart u /\ iend u <= hi).
Proof.
  induction ik as [|u ik IH]; intros lo hi Hlo Hhi H; [split; [reflexivity|intros u []]|].
  cbn [map tileS ispan fst snd] in H. destruct H as (A & _ & B & C).
  destruct (IH (iend u) hi ltac:(lia) Hhi C) as [W1 W2].
  assert (Hle : iend u <= hi) by (apply tileS_le in C; exact C).
  split.
  - cbn [spW]. rewrite W1, andb_true_r.
    replace (0 <=? istart u) with true by (symmetry; apply Z.leb_le; lia).
    replace (istart u <=? iend u) with true by (symmetry; apply Z.leb_le; lia).
    replace (iend u <=? len R) with true by (symmetry; apply Z.leb_le; lia). cbn [andb].
    apply forallb_intro. intros j Hj. apply Z.leb_le. apply W2 in Hj. lia.
  - intros v [<-|Hv]; [lia|]. destruct (W2 v Hv). lia.
Qed.

Lemma eok_para R u : eok R ParagraphKind u ->
  (ikind u = IndentKind /\ iend u = istart u + 1 /\ iindent u <= 3) \/ (ikind u = UnparsedKind /\ LADef.lineOK R (istart u) (iend u)).
Proof. intros (_ & H & _). apply H. reflexivity. Qed.

(* the indentation budget: an Indent entry (<= 3 columns, one byte) is followed by a line tail of at least two bytes,
   or by a last one-byte line tail *)
Lemma la_ibudget R hi : hi <= len R -> forall n ik lo, (length ik <= n)%nat -> 0 <= lo -> tileS R lo hi (map ispan ik) ->
  Forall (eok R ParagraphKind) ik -> LADef.indOK ik -> ibudget ik <= hi - lo + 1.
Proof.
  intros Hhi. induction n as [|n IH]; intros ik lo Hn Hlo Ht Hf Hi.
  - destruct ik; [cbn [ibudget]; apply tileS_le in Ht; lia|cbn in Hn; lia].
  - destruct ik as [|u r]; [cbn [ibudget]; apply tileS_le in Ht; lia|]. cbn [length] in Hn.
    cbn [map tileS ispan fst snd] in Ht. destruct Ht as (A & _ & B & C). inversion Hf as [|? ? Hu Hr]; subst.
    cbn [LADef.indOK] in Hi. destruct Hi as [Hi1 Hi2].
    destruct (eok_para R u Hu) as [(K & Ke & Ki)|(K & KL)].
    + specialize (Hi1 K). destruct r as [|v r']; [contradiction|]. cbn [ibudget]. rewrite K. change (IndentKind =? IndentKind) with true. cbv iota.
      inversion Hr as [|? ? Hv Hr']; subst. destruct (eok_para R v Hv) as [(Kv & _)|(Kv & s1 & s2 & s3 & s4)]; [contradiction|].
      rewrite Kv. change (UnparsedKind =? IndentKind) with false. cbv iota.
      cbn [map tileS ispan fst snd] in C. destruct C as (A2 & _ & B2 & C2). cbn [LADef.indOK] in Hi2. destruct Hi2 as [_ Hi3].
      cbn [length] in Hn.
      pose proof (IH r' (iend v) ltac:(lia) ltac:(lia) C2 Hr' Hi3) as Hb. pose proof (tileS_le _ _ _ _ C2) as Hle.
      destruct (Z.le_gt_cases (istart v + 2) (iend v)) as [L|L]; [lia|].
      (* a one-byte line tail: it ends the source *)
      assert (Ee : iend v = len R).
      { destruct s4 as [s4|s4]; [exact s4|]. replace (iend v - 1) with (istart v) in s4 by lia. rewrite s2 in s4. discriminate s4. }
      assert (Er : r' = []).
      { destruct r' as [|w r'']; [reflexivity|exfalso]. cbn [map tileS ispan fst snd] in C2. destruct C2 as (A3 & _ & B3 & C3).
        apply tileS_le in C3. inversion Hr' as [|? ? Hw _]; subst.
        destruct (eok_para R w Hw) as [(_ & Q & _)|(_ & Q & _)]; lia. }
      subst r'. cbn [ibudget]. lia.
    + cbn [ibudget]. rewrite K. change (UnparsedKind =? IndentKind) with false. cbv iota.
      pose proof (IH r (iend u) ltac:(lia) ltac:(lia) C Hr Hi2) as Hb. lia.
Qed.

Theorem PEc_la R ik lo hi : 0 <= lo -> hi <= len R -> tileS R lo hi (map ispan ik) -> Forall (eok R ParagraphKind) ik -> LADef.indOK ik ->
  (forall u, In u ik -> ikind u = IndentKind -> at_ R (istart u) <> 10) -> PEc R ik.
Proof.
  intros Hlo Hhi Ht Hf Hi IL. left. destruct (tileS_spW R ik lo hi Hlo Hhi Ht) as [W1 W2]. rewrite Forall_forall in Hf.
  split; [exact W1|]. split.
  { apply forallb_intro. intros u Hu. unfold readableK. destruct (eok_para R u (Hf u Hu)) as [(K & _)|(K & _)]; rewrite K; reflexivity. }
  split.
  { apply forallb_intro. intros u Hu. unfold neSp. apply Z.ltb_lt. destruct (eok_para R u (Hf u Hu)) as [(_ & K & _)|(_ & K & _)]; lia. }
  split.
  { apply forallb_intro. intros u Hu. unfold indOK1. destruct (eok_para R u (Hf u Hu)) as [(K & Ke & _)|(K & _)]; rewrite K.
    - change (IndentKind =? IndentKind) with true. cbn [negb orb]. rewrite Ke, Z.eqb_refl. cbn [andb].
      apply negb_true_iff, Z.eqb_neq, IL; assumption.
    - reflexivity. }
  pose proof (la_ibudget R hi Hhi (length ik) ik lo (le_n _) Hlo Ht ltac:(apply Forall_forall; exact Hf) Hi) as Hb.
  pose proof (tileS_le _ _ _ _ Ht). lia.
Qed.
Print Assumptions PEc_la.

(* from T28's predicate on the entries of a paragraph (EntBase.lines; tree invariant EntTree.en) *)
Lemma lines_ind B M : forall ik u, lines B M ik -> In u ik -> ikind u = IndentKind -> iend u = istart u + 1 /\ at_ B (istart u) = 9.
Proof.
  induction ik as [|v r IH]; intros u H Hin K; [destruct Hin|]. destruct H as (A & _ & A2). destruct Hin as [<-|Hin]; [|apply IH; assumption].
  destruct A as [(B1 & _)|[(_ & _ & _ & B4 & B5 & _) _]]; [rewrite K in B1; discriminate B1|]. split; assumption.
Qed.
Theorem PEc_lines R M ik : lines R M ik -> M <= len R -> PEc R ik.
Proof.
  intros H HM. left. split; [apply spOK_spW, (lines_spOK R M ik H HM)|]. split.
  { apply forallb_intro. intros u Hu. destruct (lines_entry R M ik u H Hu) as (_ & _ & _ & _ & [K|K]); unfold readableK; rewrite K; reflexivity. }
  split.
  { apply forallb_intro. intros u Hu. destruct (lines_entry R M ik u H Hu) as (_ & L & _). unfold neSp. apply Z.ltb_lt. exact L. }
  split.
  { apply forallb_intro. intros u Hu. unfold indOK1. destruct (Z.eqb_spec (ikind u) IndentKind) as [K|K]; [|reflexivity]. cbn [negb orb].
    destruct (lines_ind R M ik u H Hu K) as [E1 E2]. rewrite E1, Z.eqb_refl, E2. reflexivity. }
  pose proof (lines_ibudget R M ik H HM). lia.
Qed.
Print Assumptions PEc_lines.
