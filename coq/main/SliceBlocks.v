(* SliceBlocks.v -- thematic breaks, ATX headings and fenced code blocks as members of a sequence of blocks (SliceDocs.blockOK). *)
From Coq Require Import List ZArith Lia Bool.
Import ListNotations.
Require Import Base Tables Utf8 Tree Rdr Link Collect Html Recog LP Rules Starts Driver Inl3a Inl3b Inl3c Inl3d Inl3e Render Fmt Entry Cursor
  SliceBase SlicePara SliceText SliceCode SliceTok SliceLine SliceFormat SliceReparse SliceNest SliceSpans SliceDocs SliceParas.
Open Scope Z_scope.

(* ---------------------------------------------------------------------------------------------- *)
(* 0. the writer on a line that is not started                                                      *)
(* ---------------------------------------------------------------------------------------------- *)
Lemma ws_nolf_gen ind st hw out s : concat ind = [] -> ~ In 10 s -> s <> [] ->
  ws {| indents := ind; started := st; hasWritten := hw; fout := out |} s = {| indents := ind; started := true; hasWritten := true; fout := out ++ s |}.
Proof.
  intros Hi Hn Hne. unfold ws. cbn [fws_loop]. rewrite (findEol10_none s 0 Hn). change (-1 <? 0) with true. cbv iota.
  destruct (Z.eqb_spec (len s) 0) as [E|_]; [destruct s; [contradiction|rewrite sl_len_cons in E; pose proof (sl_len_nonneg s); lia]|].
  destruct st; unfold fwSet, fwOut; cbn [indents started hasWritten fout negb]; [reflexivity|]. rewrite Hi, app_nil_r. reflexivity.
Qed.

(* ---------------------------------------------------------------------------------------------- *)
(* 1. thematic breaks  "---" / "***" / "___"                                                       *)
(* ---------------------------------------------------------------------------------------------- *)
Definition tbSrc (ch : Z) : bytes := [ch; ch; ch; 10].
Definition tbBlk (s e : Z) : block := Blk ThematicBreakKind s e [] [] 0 0 0 false false.
Definition isTbChar (ch : Z) : Prop := ch = 45 \/ ch = 42 \/ ch = 95.

Lemma processLine_tb src ls ch : isTbChar ch -> from_ src ls = tbSrc ch ->
  processLine 0 [] ls src = ([tbBlk (ls + 0) (ls + 4)], stLineConsumed, 0).
Proof.
  intros Hch Hl. unfold processLine, resetLP. rewrite Hl. destruct Hch as [-> | [-> | ->]]; reflexivity.
Qed.

Definition tbB (ch : Z) (k : nat) : bsrc := {| bx := tbSrc ch; bb := fun _ => tbBlk 0 4; bp := false; bk := k |}.
Definition tbPiece (hw : bool) : bytes := if hw then [10;45;45;45;10;10] else [42;42;42;10;10].
Definition tbFull (ch : Z) (k : nat) : bfull :=
  {| bf_b := tbB ch k; bf_final := fun _ => tbBlk 0 4; bf_piece := tbPiece; bf_html := [60;104;114;62] |}.

Lemma tb_step ch R f bo bl : isTbChar ch -> (length (tbSrc ch) + 2 <= f)%nat ->
  skipLoop f {| buf := tbSrc ch ++ R; bi := 0; boff := bo; bline := bl; pending := [] |} =
  NBBlock {| rb_line := bl; rb_start := bo; rb_end := bo + len (tbSrc ch); rb_src := tbSrc ch; rb_blk := tbBlk 0 4 |}
          {| buf := R; bi := 0; boff := bo + len (tbSrc ch); bline := bl + lineCount (tbSrc ch); pending := [] |}.
Proof.
  intros Hch Hf. destruct f as [|[|f]]; try (cbn [length tbSrc] in Hf; lia).
  rewrite sl_skipLoop_S. cbv zeta. cbn [buf bi boff bline pending].
  assert (Hne : noEolB [ch; ch; ch]) by (destruct Hch as [-> | [-> | ->]]; repeat constructor; lia).
  assert (Hle : lineEnd (tbSrc ch ++ R) 0 = 4).
  { change (tbSrc ch ++ R) with ([] ++ [ch; ch; ch] ++ 10 :: R). change 0 with (len (@nil Z)) at 1. rewrite (lineEnd_lf [] _ R Hne). reflexivity. }
  rewrite Hle. change (0 <? 4) with true. cbn [negb]. change (upto (tbSrc ch ++ R) 4) with (tbSrc ch).
  assert (Hnb : isBlankLine (tbSrc ch) = false) by (destruct Hch as [-> | [-> | ->]]; reflexivity). rewrite Hnb.
  rewrite sl_lineLoop_S. cbn [buf bi boff bline pending]. change (upto (tbSrc ch ++ R) 4) with (tbSrc ch).
  rewrite (processLine_tb (tbSrc ch) 0 ch Hch eq_refl).
  change (negb (0 =? 0)) with false. cbv iota. unfold makeRoot, tbBlk, isOpen. cbn [bend buf bi boff bline pending Z.add Z.ltb Z.compare].
  change (upto (tbSrc ch ++ R) 4) with (tbSrc ch). change (from_ (tbSrc ch ++ R) 4) with R.
  assert (Hnn : noNul (tbSrc ch)) by (destruct Hch as [-> | [-> | ->]]; repeat constructor; lia).
  rewrite (unpadded_noNul _ Hnn), (fillNulls_noNul _ Hnn). reflexivity.
Qed.

Lemma tb_ok c ch k : filterOn c = false -> isTbChar ch -> fullOK c (tbFull ch k).
Proof.
  intros Hc Hch. constructor.
  - constructor; unfold tbFull, tbB; cbn [bf_b bx bb bp].
    + intros f bo bl Hf. pose proof (tb_step ch [] f bo bl Hch Hf) as H. rewrite app_nil_r in H. exact H.
    + intros R f bo bl Hf. apply (tb_step ch (10 :: R) f bo bl Hch Hf).
  - cbn. lia.
  - intros fl acc. reflexivity.
  - intros fl. reflexivity.
  - intros fl hw out idx Hhw Hidx. unfold tbFull, tbPiece, wS. cbn [bf_final bf_piece bf_b tbB bx]. destruct hw; cbv -[app]; rewrite ?app_nil_r, <- ?app_assoc; reflexivity.
  - intros fl acc. reflexivity.
  - intros fl. unfold tbFull. cbn [bf_final bf_html bf_b tbB bx]. change (bheight (tbBlk 0 4)) with 1%nat. cbn [renderB].
    change (bkind (tbBlk 0 4)) with ThematicBreakKind. change (ThematicBreakKind =? ParagraphKind) with false.
    change (ThematicBreakKind =? ThematicBreakKind) with true. cbv iota. rewrite (openTag_nf c _ Hc). reflexivity.
Qed.

(* ---------------------------------------------------------------------------------------------- *)
(* 2. ATX headings  "#"^n " " text                                                                  *)
(* ---------------------------------------------------------------------------------------------- *)
Definition hashes (n : nat) : bytes := repeat 35 n.
Lemma len_hashes n : len (hashes n) = Z.of_nat n. Proof. unfold len, hashes. rewrite repeat_length. reflexivity. Qed.
Lemma countWhile_hashes n x r : x <> 35 -> countWhile (fun c => c =? 35) (hashes n ++ x :: r) = Z.of_nat n.
Proof.
  intros Hx. induction n as [|n IH].
  - cbn [hashes repeat app countWhile]. destruct (Z.eqb_spec x 35); [contradiction|reflexivity].
  - change (hashes (S n)) with (35 :: hashes n). cbn [app countWhile]. change (35 =? 35) with true. cbv iota. rewrite IH. lia.
Qed.

(* the content of the heading line: first byte not blank, last byte z not blank, and a final '#' is escaped *)
Definition headText (g : bytes) : Prop :=
  noEolB g /\ (exists c r, g = c :: r /\ isSpTab c = false) /\
  (exists g' z, g = g' ++ [z] /\ isSpTab z = false /\ (z = 35 -> exists g'', g' = g'' ++ [92])).

Lemma at_snoc (a : bytes) z (b : bytes) : at_ (a ++ z :: b) (len (a ++ z :: b) - len b - 1) = z.
Proof. replace (len (a ++ z :: b) - len b - 1) with (len a) by (rewrite sl_len_app, sl_len_cons; lia). apply sl_at_app_len. Qed.

Lemma parseATX_heading n g : (1 <= n <= 6)%nat -> headText g ->
  parseATXHeading (hashes n ++ 32 :: g ++ [10]) = (Z.of_nat n, Z.of_nat n + 1, Z.of_nat n + 1 + len g).
Proof.
  intros Hn (Heol & (c & r & Hg & Hc) & (g' & z & Hgz & Hz & H35)).
  set (X := hashes n ++ 32 :: g ++ [10]). unfold parseATXHeading. fold X.
  assert (Hcw : countWhile (fun c => c =? 35) X = Z.of_nat n) by (apply countWhile_hashes; lia).
  rewrite Hcw. destruct (Z.eqb_spec (Z.of_nat n) 0); [lia|]. destruct (Z.ltb_spec 6 (Z.of_nat n)); [lia|]. cbn [orb].
  pose proof (sl_len_nonneg g) as Hg0. pose proof (sl_len_nonneg r) as Hr0. pose proof (sl_len_nonneg g') as Hg'0.
  assert (HlenX : len X = Z.of_nat n + 1 + len g + 1) by (unfold X; rewrite sl_len_app, len_hashes, sl_len_cons, sl_len_app; change (len [10]) with 1; lia).
  assert (Hlg : len g = len r + 1) by (rewrite Hg, sl_len_cons; lia).
  assert (Hlg' : len g = len g' + 1) by (rewrite Hgz, sl_len_app; change (len [z]) with 1; lia).
  destruct (Z.leb_spec (len X) (Z.of_nat n)); [lia|].
  assert (Hat32 : at_ X (Z.of_nat n) = 32) by (unfold X; rewrite <- len_hashes; apply sl_at_app_len).
  rewrite Hat32. change (32 =? 10) with false. change (32 =? 13) with false. cbn [orb]. change (isSpTab 32) with true. cbn [negb].
  assert (Hfrom : from_ X (Z.of_nat n + 1) = g ++ [10]).
  { unfold X. replace (hashes n ++ 32 :: g ++ [10]) with ((hashes n ++ [32]) ++ g ++ [10]) by (rewrite <- app_assoc; reflexivity).
    replace (Z.of_nat n + 1) with (len (hashes n ++ [32])) by (rewrite sl_len_app, len_hashes; reflexivity). apply sl_from_app_len. }
  rewrite Hfrom. rewrite Hg. cbn [app countWhile]. rewrite Hc. rewrite Z.add_0_r. rewrite <- Hg.
  set (start := Z.of_nat n + 1).
  (* positions of the last bytes *)
  assert (Hat10 : at_ X (len X - 1) = 10).
  { unfold X. replace (hashes n ++ 32 :: g ++ [10]) with ((hashes n ++ 32 :: g) ++ [10]) by (rewrite <- app_assoc; reflexivity).
    replace (len ((hashes n ++ 32 :: g) ++ [10]) - 1) with (len (hashes n ++ 32 :: g)) by (rewrite (sl_len_app _ [10]); change (len [10]) with 1; lia).
    apply sl_at_app_len. }
  assert (Hatz : at_ X (len X - 1 - 1) = z).
  { unfold X. rewrite Hgz. replace (hashes n ++ 32 :: (g' ++ [z]) ++ [10]) with ((hashes n ++ 32 :: g') ++ z :: [10]) by (cbn [app]; rewrite <- !app_assoc; reflexivity).
    pose proof (at_snoc (hashes n ++ 32 :: g') z [10]) as Hs. change (len [10]) with 1 in Hs. exact Hs. }
  assert (Hz10 : (z =? 13) || (z =? 10) = false).
  { rewrite Hgz in Heol. apply Forall_app in Heol. destruct Heol as [_ Hzz]. apply Forall_cons_iff in Hzz. destruct Hzz as [[H1 H2] _].
    destruct (Z.eqb_spec z 13); [contradiction|]. destruct (Z.eqb_spec z 10); [contradiction|]. reflexivity. }
  assert (Hfl : exists f, length X = S (S f)).
  { unfold X. rewrite app_length. cbn [length]. rewrite app_length. cbn [length]. eexists. rewrite !Nat.add_succ_r. reflexivity. }
  destruct Hfl as [f Hfl]. rewrite Hfl. cbn [atx_scanBack].
  destruct (Z.leb_spec (len X) start); [unfold start in *; lia|]. rewrite Hat10. change ((10 =? 13) || (10 =? 10)) with true. cbv iota.
  destruct (Z.leb_spec (len X - 1) start); [unfold start in *; lia|]. rewrite Hatz, Hz10, Hz. cbv iota.
  destruct (Z.eqb_spec z 35) as [E35|N35].
  - (* the text ends with an escaped '#': no closing sequence *)
    cbn [negb]. destruct (H35 E35) as (g'' & Hg''). 
    assert (Hat92 : at_ X (len X - 1 - 1 - 1) = 92).
    { unfold X. rewrite Hgz, Hg''. replace (hashes n ++ 32 :: ((g'' ++ [92]) ++ [z]) ++ [10]) with ((hashes n ++ 32 :: g'') ++ 92 :: [z; 10]) by (cbn [app]; rewrite <- !app_assoc; reflexivity).
      pose proof (at_snoc (hashes n ++ 32 :: g'') 92 [z; 10]) as Hs. change (len [z; 10]) with 2 in Hs.
      replace (len ((hashes n ++ 32 :: g'') ++ [92; z; 10]) - 1 - 1 - 1) with (len ((hashes n ++ 32 :: g'') ++ [92; z; 10]) - 2 - 1) by lia. exact Hs. }
    assert (Hlg'' : len g' = len g'' + 1) by (rewrite Hg'', sl_len_app; change (len [92]) with 1; lia). pose proof (sl_len_nonneg g'').
    cbn [atx_trailing]. destruct (Z.ltb_spec (len X - 1 - 1) start); [unfold start in *; lia|]. rewrite Hatz. rewrite E35. change (35 =? 35) with true. cbv iota.
    destruct (Z.ltb_spec (len X - 1 - 1 - 1) start); [unfold start in *; lia|]. rewrite Hat92. change (92 =? 35) with false. change (isSpTab 92) with false. cbv iota.
    change (0 =? 0) with true. cbv iota. f_equal. unfold start. lia.
  - cbn [negb]. f_equal. unfold start. lia.
Qed.

Definition headBlk (s e n : Z) (iks : list inline) : block := Blk ATXHeadingKind s e [] iks 0 n 0 false false.
Definition headLine (n : nat) (g : bytes) : bytes := hashes n ++ 32 :: g ++ [10].

Lemma startATX_open p n g : (1 <= n <= 6)%nat -> headText g -> li p = 0 -> line p = headLine n g ->
  container p = Some O -> root p = rootDoc [] -> state p = stOpening ->
  exists cl tr, startATX p =
    setLP p (rootDoc [headBlk (lineStart p + 0) (lineStart p + len (headLine n g)) (Z.of_nat n)
                        [mkI UnparsedKind (lineStart p + (Z.of_nat n + 1)) (lineStart p + (Z.of_nat n + 1 + len g))]])
          (Some O) (len (headLine n g)) cl tr stLineConsumed (panicked p).
Proof.
  intros Hn Hg Hli Hln Hcont Hroot Hst.
  pose proof Hg as (Heol & (c & r & Eg & Hc) & _).
  destruct n as [|n']; [lia|]. set (n := S n') in *.
  assert (HX : headLine n g = 35 :: (hashes n' ++ 32 :: g ++ [10])) by reflexivity.
  assert (Hal : atLine p 35 (hashes n' ++ 32 :: g ++ [10])) by (split; [exact Hli|rewrite Hln; exact HX]).
  unfold startATX. rewrite (al_indent p 35 _ Hal eq_refl). cbn [codeBlockIndentLimit Z.leb Z.compare].
  rewrite (al_bai p 35 _ Hal eq_refl). rewrite <- HX. unfold headLine at 1. rewrite (parseATX_heading n g Hn Hg).
  destruct (Z.ltb_spec (Z.of_nat n) 1); [lia|].
  rewrite (consumeIndent_le0 p 0) by lia.
  rewrite (openBlock_empty_doc p ATXHeadingKind Hcont Hroot (or_introl Hst) eq_refl).
  pose proof (sl_len_nonneg g) as Hg0.
  assert (HlenX : len (headLine n g) = Z.of_nat n + 1 + len g + 1).
  { unfold headLine. rewrite sl_len_app, len_hashes, sl_len_cons, sl_len_app. change (len [10]) with 1. lia. }
  assert (Hlg : 0 < len g) by (rewrite Eg, sl_len_cons; pose proof (sl_len_nonneg r); lia).
  set (p1 := updCont (setLP p (rootDoc [newBlock ATXHeadingKind (lineStart p + li p)]) (Some 1%nat) (li p) (col p) (tabRem p) stOpenMatched (panicked p))
                     (fun b => set_bn b (Z.of_nat n))).
  destruct (advance_spec p1 (Z.of_nat n + 1)) as (cl2 & tr2 & E2).
  { lia. } { change (li p1) with (li p). change (line p1) with (line p). rewrite Hli, Hln, HlenX. lia. }
  rewrite E2. change (state p1 =? stOpening) with false. cbv iota. change (li p1) with (li p). rewrite Hli, Z.add_0_l.
  set (p2 := setLP p1 (root p1) (container p1) (Z.of_nat n + 1) cl2 tr2 (state p1) (panicked p1)).
  (* collectInline *)
  unfold collectInline. change (state p2 =? stDescendTerminated) with false. cbv iota. change (state p2 =? stOpening) with false. cbv iota.
  assert (Hal2 : atLineK p2 (hashes n ++ [32]) c (r ++ [10])).
  { split; [change (li p2) with (Z.of_nat n + 1); rewrite sl_len_app, len_hashes; reflexivity|].
    change (line p2) with (line p). rewrite Hln. unfold headLine. rewrite Eg. cbn [app]. rewrite <- app_assoc. reflexivity. }
  rewrite (alk_indent p2 _ c _ Hal2 Hc). change (0 <? 0) with false. cbv iota.
  replace (Z.of_nat n + 1 + len g - (Z.of_nat n + 1)) with (len g) by lia.
  destruct (advance_spec p2 (len g)) as (cl3 & tr3 & E3).
  { lia. } { change (li p2) with (Z.of_nat n + 1). change (line p2) with (line p). rewrite Hln, HlenX. lia. }
  rewrite E3. change (state p2 =? stOpening) with false. cbv iota. change (UnparsedKind =? InfoStringKind) with false. cbv iota.
  set (p3 := setLP p2 (root p2) (container p2) (li p2 + len g) cl3 tr3 (state p2) (panicked p2)).
  set (p4 := updCont p3 _).
  destruct (consumeLine_spec p4) as (cl5 & tr5 & E5).
  { change (li p4) with (Z.of_nat n + 1 + len g). lia. }
  { change (li p4) with (Z.of_nat n + 1 + len g). change (line p4) with (line p). rewrite Hln, HlenX. lia. }
  rewrite E5. exists cl5, tr5.
  subst p4 p3 p2 p1. destruct p as [src rt cont ls ln i cl tr st pn]. cbn [li line container root state] in *. subst i ln cont rt st.
  reflexivity.
Qed.

Lemma processLine_heading src ls n g : (1 <= n <= 6)%nat -> headText g -> from_ src ls = headLine n g ->
  processLine 0 [] ls src =
  ([headBlk (ls + 0) (ls + len (headLine n g)) (Z.of_nat n) [mkI UnparsedKind (ls + (Z.of_nat n + 1)) (ls + (Z.of_nat n + 1 + len g))]], stLineConsumed, 0).
Proof.
  intros Hn Hg Hl. unfold processLine, resetLP. rewrite Hl.
  destruct n as [|n']; [lia|]. set (n := S n') in *.
  assert (HX : headLine n g = 35 :: (hashes n' ++ 32 :: g ++ [10])) by reflexivity.
  assert (Etr : computeTabRem (headLine n g) 0 0 = 0) by (rewrite HX; apply computeTabRem_0; reflexivity). rewrite Etr.
  set (p0 := {| source := src; root := Blk documentKind 0 (-1) [] [] 0 0 0 false false; container := Some 0%nat;
               lineStart := ls; line := headLine n g; li := 0; col := 0; tabRem := 0; state := 0; panicked := 0 |}).
  assert (Hd : descendOpenBlocks p0 = (true, p0)) by reflexivity.
  rewrite Hd. change (negb (state p0 =? stDescendTerminated)) with true. cbv iota.
  destruct (startATX_open (withState p0 stOpening) n g Hn Hg eq_refl eq_refl eq_refl eq_refl eq_refl) as (cl & tr & Es).
  assert (Hal : atLine (withState p0 stOpening) 35 (hashes n' ++ 32 :: g ++ [10])) by (split; [reflexivity|exact HX]).
  assert (Ets : tryStarts blockStarts p0 = (true, startATX (withState p0 stOpening))).
  { unfold blockStarts. cbn [tryStarts].
    rewrite (stf_bq _ 35 _ (al_indent _ 35 _ Hal eq_refl) (al_bai _ 35 _ Hal eq_refl)) by lia.
    change (state (withState p0 stOpening)) with stOpening.
    change ((stOpening =? stOpenMatched) || (stOpening =? stLineConsumed)) with false. cbv iota.
    change (withState (withState p0 stOpening) stOpening) with (withState p0 stOpening).
    rewrite Es. reflexivity. }
  unfold openNewBlocks. change (line p0) with (headLine n g).
  assert (Hlen : 0 < len (headLine n g)) by (rewrite HX, sl_len_cons; pose proof (sl_len_nonneg (hashes n' ++ 32 :: g ++ [10])); lia).
  destruct (Z.eqb_spec (len (headLine n g)) 0); [lia|].
  assert (Hfl : exists f, length (headLine n g) = S f) by (rewrite HX; eexists; reflexivity). destruct Hfl as [f ->].
  cbn [opening_loop]. change (containerKind p0) with documentKind.
  change ((documentKind =? ParagraphKind) || negb (acceptsLines documentKind)) with true. cbv iota.
  rewrite Ets, Es. cbn [state setLP]. change (stLineConsumed =? stLineConsumed) with true. cbv iota.
  reflexivity.
Qed.

Lemma head_step n g R f bo bl : (1 <= n <= 6)%nat -> headText g -> noNul g -> (length (headLine n g) + 2 <= f)%nat ->
  let X := headLine n g in
  skipLoop f {| buf := X ++ R; bi := 0; boff := bo; bline := bl; pending := [] |} =
  NBBlock {| rb_line := bl; rb_start := bo; rb_end := bo + len X; rb_src := X;
             rb_blk := headBlk 0 (len X) (Z.of_nat n) [mkI UnparsedKind (Z.of_nat n + 1) (Z.of_nat n + 1 + len g)] |}
          {| buf := R; bi := 0; boff := bo + len X; bline := bl + lineCount X; pending := [] |}.
Proof.
  intros Hn Hg Hnul Hf X. pose proof Hg as (Heol & (c & r & Eg & Hc) & _).
  destruct f as [|[|f]]; try (cbn [length] in Hf; lia).
  rewrite sl_skipLoop_S. cbv zeta. cbn [buf bi boff bline pending].
  assert (HeolX : noEolB (hashes n ++ 32 :: g)).
  { apply Forall_app. split; [unfold hashes; apply Forall_forall; intros x Hx; apply repeat_spec in Hx; lia|]. constructor; [lia|exact Heol]. }
  assert (HXs : X = [] ++ (hashes n ++ 32 :: g) ++ [10]) by (unfold X, headLine; rewrite <- app_assoc; reflexivity).
  assert (HlenX : len X = len (hashes n ++ 32 :: g) + 1) by (rewrite HXs; cbn [app]; rewrite sl_len_app; reflexivity).
  pose proof (sl_len_nonneg (hashes n ++ 32 :: g)) as H0.
  assert (Hle : lineEnd (X ++ R) 0 = len X).
  { rewrite HXs. replace (([] ++ (hashes n ++ 32 :: g) ++ [10]) ++ R) with ([] ++ (hashes n ++ 32 :: g) ++ 10 :: R) by (cbn [app]; rewrite <- !app_assoc; reflexivity).
    change 0 with (len (@nil Z)) at 1. rewrite (lineEnd_lf [] _ R HeolX). rewrite (@sl_len_nil Z). cbn [app]. rewrite (sl_len_app _ [10]). change (len [10]) with 1. lia. }
  rewrite Hle. destruct (Z.ltb_spec 0 (len X)); [|lia]. cbn [negb]. rewrite sl_upto_app_len.
  assert (Hnb : isBlankLine X = false).
  { unfold X, headLine. destruct n as [|n']; [lia|]. reflexivity. }
  rewrite Hnb. rewrite sl_lineLoop_S. cbn [buf bi boff bline pending]. rewrite sl_upto_app_len.
  rewrite (processLine_heading X 0 n g Hn Hg eq_refl).
  change (negb (0 =? 0)) with false. cbv iota. unfold makeRoot, headBlk, isOpen. cbn [bend buf bi boff bline pending]. rewrite !Z.add_0_l.
  fold X. destruct (Z.ltb_spec (len X) 0); [lia|]. rewrite sl_upto_app_len, sl_from_app_len, Z.sub_diag.
  assert (HnX : noNul X).
  { unfold X, headLine. apply noNul_app; [unfold hashes; apply Forall_forall; intros x Hx; apply repeat_spec in Hx; lia|]. constructor; [lia|].
    apply noNul_app; [exact Hnul|constructor; [lia|constructor]]. }
  rewrite (unpadded_noNul X HnX), (fillNulls_noNul X HnX). reflexivity.
Qed.

(* ---- the tokeniser on a span that stops BEFORE the line ending (heading content) ---- *)
Definition ISe (st : ist) (L : bytes) (s e : Z) : Prop :=
  isrc st = L /\ unp st = [mkI UnparsedKind s e] /\ upos st = 0 /\ stk st = [].
Lemma ISe_spanEnd st L s e : ISe st L s e -> spanEnd st = e.
Proof. intros (H1 & H2 & H3 & H4). unfold spanEnd. rewrite H2, H3. reflexivity. Qed.
Lemma ISe_inspan st L s e : ISe st L s e -> (upos st <? len (unp st)) = true.
Proof. intros (H1 & H2 & H3 & H4). rewrite H2, H3. reflexivity. Qed.
Lemma addText_nodes_e st L s0 e0 s e : ISe st L s0 e0 -> 0 <= s <= e ->
  ISe (addText st s e) L s0 e0 /\ map toInline (rk (addText st s e)) = map toInline (rk st) ++ textNode s e.
Proof.
  intros HI Hse. unfold addText, addNode, spanLen, textNode.
  assert (E : (0 <=? s) && (0 <=? e) && (s <=? e) = true).
  { repeat (apply andb_true_iff; split); apply Z.leb_le; lia. }
  rewrite E. destruct (Z.eqb_spec (e - s) 0) as [Z0|NZ]; cbn [fst].
  - split; [exact HI|]. rewrite app_nil_r. reflexivity.
  - split; [exact HI|]. cbn [rk bumpId setRk]. rewrite map_app. reflexivity.
Qed.

Lemma iloop_genH : forall mt prevSp, okTextM prevSp mt = true ->
  forall pre0 mid rest L e fuel st s0, L = pre0 ++ mid ++ genEscM mt ++ rest -> hd 0 rest <> 91 ->
  e = len pre0 + len mid + len (genEscM mt) -> ISe st L s0 e -> (length (genEscM mt) < fuel)%nat ->
  exists st' ps', iloop fuel st (len pre0 + len mid) (len pre0) = (st', ps') /\ ISe st' L s0 e /\ 0 <= ps' <= e /\
              map toInline (rk (addText st' ps' e)) = map toInline (rk st) ++ tokSpecM (len pre0) (len pre0 + len mid) mt.
Proof.
  induction mt as [|[c b] r IH]; intros prevSp Hok pre0 mid rest L e fuel st s0 HL Hrest He HI Hfuel.
  - destruct fuel as [|f]; [cbn in Hfuel; lia|]. cbn [genEscM flat_map app length] in HL, He. rewrite sl_len_nil, Z.add_0_r in He.
    pose proof (sl_len_nonneg pre0) as Hp0. pose proof (sl_len_nonneg mid) as Hm0.
    rewrite iloop_S. rewrite (ISe_inspan st L s0 e HI), (ISe_spanEnd st L s0 e HI).
    destruct (Z.ltb_spec (len pre0 + len mid) e); [lia|]. cbn [andb].
    exists st, (len pre0). split; [reflexivity|]. split; [exact HI|]. split; [lia|].
    destruct (addText_nodes_e st L s0 e (len pre0) e HI ltac:(lia)) as (_ & HR). rewrite HR. cbn [tokSpecM]. rewrite He. reflexivity.
  - cbn [okTextM] in Hok.
    pose proof (sl_len_nonneg pre0) as Hp0. pose proof (sl_len_nonneg mid) as Hm0.
    destruct (Z.eqb_spec c 32) as [E32'|N32].
    + subst c. apply andb_true_iff in Hok. destruct Hok as [Hok1 Hok]. apply andb_true_iff in Hok1. destruct Hok1 as [Hb _].
      destruct b; [discriminate Hb|].
      rewrite genEscM_raw in HL, Hfuel, He. cbn [length] in Hfuel. destruct fuel as [|f]; [lia|].
      rewrite sl_len_cons in He. pose proof (sl_len_nonneg (genEscM r)) as Hr0.
      rewrite iloop_S. rewrite (ISe_inspan st L s0 e HI), (ISe_spanEnd st L s0 e HI).
      destruct (Z.ltb_spec (len pre0 + len mid) e); [|lia]. cbn [andb].
      assert (Hat : at_ (isrc st) (len pre0 + len mid) = 32).
      { destruct HI as (Hsrc & _). rewrite Hsrc, HL. cbn [app]. apply at_mid. }
      assert (Hh : parseHardLineBreakSpace (sub (isrc st) (len pre0 + len mid) (spanEnd st)) = (1, false)).
      { rewrite (ISe_spanEnd st L s0 e HI). destruct HI as (Hsrc & _). rewrite Hsrc. rewrite HL.
        replace e with (len pre0 + len mid + len (32 :: genEscM r)) by (rewrite sl_len_cons; lia).
        rewrite sub_mid_x.
        destruct r as [|[c' b'] r']; [discriminate Hok|]. cbn [okTextM] in Hok.
        destruct (Z.eqb_spec c' 32) as [->|Nc']; [destruct b'; discriminate Hok|].
        destruct b'.
        - rewrite genEscM_E. apply hlbs_single. lia.
        - rewrite genEscM_raw. apply hlbs_single. exact Nc'. }
      rewrite (istep_space st _ _ Hat Hh).
      destruct (IH true Hok pre0 (mid ++ [32]) rest L e f st s0) as (st' & ps' & Hrun & HI' & Hps & HR').
      { rewrite HL. rewrite <- !app_assoc. reflexivity. } { exact Hrest. }
      { rewrite sl_len_app. change (len [32]) with 1. lia. } { exact HI. } { lia. }
      exists st', ps'. rewrite sl_len_app in Hrun, HR'. change (len [32]) with 1 in Hrun, HR'. rewrite Z.add_assoc in Hrun, HR'.
      split; [exact Hrun|]. split; [exact HI'|]. split; [exact Hps|]. cbn [tokSpecM]. exact HR'.
    + apply andb_true_iff in Hok. destruct Hok as [Hcl Hok].
      destruct b.
      * rewrite genEscM_E in HL, Hfuel, He. cbn [length] in Hfuel. destruct fuel as [|f]; [lia|].
        rewrite !sl_len_cons in He. pose proof (sl_len_nonneg (genEscM r)) as Hr0.
        rewrite iloop_S. rewrite (ISe_inspan st L s0 e HI), (ISe_spanEnd st L s0 e HI).
        destruct (Z.ltb_spec (len pre0 + len mid) e); [|lia]. cbn [andb].
        assert (Hat : at_ (isrc st) (len pre0 + len mid) = 92).
        { destruct HI as (Hsrc & _). rewrite Hsrc, HL. cbn [app]. apply at_mid. }
        assert (Hat1 : at_ (isrc st) (len pre0 + len mid + 1) = c).
        { destruct HI as (Hsrc & _). rewrite Hsrc, HL. cbn [app]. apply at_mid1. }
        rewrite (istep_escape st _ _ c Hat Hat1 Hcl) by (rewrite (ISe_spanEnd st L s0 e HI); lia).
        destruct (addText_nodes_e st L s0 e (len pre0) (len pre0 + len mid) HI ltac:(lia)) as (HI1 & HR1).
        destruct (addText_nodes_e _ L s0 e (len pre0 + len mid + 1) (len pre0 + len mid + 2) HI1 ltac:(lia)) as (HI2 & HR2).
        destruct (IH false Hok (pre0 ++ mid ++ [92; c]) [] rest L e f
                     (addText (addText st (len pre0) (len pre0 + len mid)) (len pre0 + len mid + 1) (len pre0 + len mid + 2)) s0)
          as (st' & ps' & Hrun & HI' & Hps & HR').
        { rewrite HL. rewrite <- !app_assoc. reflexivity. } { exact Hrest. }
        { rewrite !sl_len_app. change (len [92; c]) with 2. rewrite (@sl_len_nil Z). lia. } { exact HI2. } { lia. }
        exists st', ps'. rewrite !sl_len_app in Hrun, HR'. change (len [92; c]) with 2 in Hrun, HR'. rewrite sl_len_nil in Hrun, HR'.
        rewrite Z.add_0_r in Hrun, HR'. rewrite Z.add_assoc in Hrun, HR'.
        split; [exact Hrun|]. split; [exact HI'|]. split; [exact Hps|]. cbn [tokSpecM]. rewrite HR', HR2, HR1.
        unfold textNode at 2. replace (len pre0 + len mid + 2 - (len pre0 + len mid + 1)) with 1 by lia. change (1 =? 0) with false. cbv iota.
        rewrite <- !app_assoc. reflexivity.
      * rewrite genEscM_raw in HL, Hfuel, He. cbn [length] in Hfuel. destruct fuel as [|f]; [lia|].
        rewrite sl_len_cons in He. pose proof (sl_len_nonneg (genEscM r)) as Hr0.
        rewrite iloop_S. rewrite (ISe_inspan st L s0 e HI), (ISe_spanEnd st L s0 e HI).
        destruct (Z.ltb_spec (len pre0 + len mid) e); [|lia]. cbn [andb].
        assert (Hat : at_ (isrc st) (len pre0 + len mid) = c).
        { destruct HI as (Hsrc & _). rewrite Hsrc, HL. cbn [app]. apply at_mid. }
        assert (Hnx : exists y z, genEscM r ++ rest = y :: z /\ y <> 91 \/ (genEscM r ++ rest = [] /\ True)).
        { destruct r as [|[c' b'] r'].
          - cbn [genEscM flat_map app]. destruct rest as [|y z]; [exists 0, []; right; split; [reflexivity|exact I]|]. exists y, z. left. split; [reflexivity|exact Hrest].
          - cbn [okTextM] in Hok. destruct b'.
            + rewrite genEscM_E. cbn [app]. eexists. eexists. left. split; [reflexivity|lia].
            + rewrite genEscM_raw. cbn [app]. eexists. eexists. left. split; [reflexivity|].
              destruct (Z.eqb_spec c' 32) as [->|N']; [lia|]. apply andb_true_iff in Hok. destruct Hok as [Hr' _]. intros ->. discriminate Hr'. }
        assert (Hstep : istep st (len pre0 + len mid) (len pre0) = (st, len pre0 + len mid + 1, len pre0)).
        { unfold rawOK in Hcl. destruct (Z.eqb_spec c 33) as [E33|N33].
          - apply istep_bang; [rewrite Hat; exact E33|]. destruct HI as (Hsrc & _). rewrite Hsrc, HL. cbn [app].
            destruct Hnx as (y & z & [[Ey Hy]|[Ey _]]).
            + rewrite Ey. rewrite at_mid1. exact Hy.
            + rewrite Ey. replace (pre0 ++ mid ++ [c]) with ((pre0 ++ mid ++ [c]) ++ []) by apply app_nil_r.
              unfold at_. destruct (len pre0 + len mid + 1 <? 0); [lia|]. rewrite nth_overflow; [lia|].
              rewrite app_nil_r, !app_length. cbn [length]. unfold len in *. lia.
          - rewrite orb_false_r in Hcl. apply istep_inert. rewrite Hat. exact Hcl. }
        rewrite Hstep.
        destruct (IH false Hok pre0 (mid ++ [c]) rest L e f st s0) as (st' & ps' & Hrun & HI' & Hps & HR').
        { rewrite HL. rewrite <- !app_assoc. reflexivity. } { exact Hrest. }
        { rewrite sl_len_app. change (len [c]) with 1. lia. } { exact HI. } { lia. }
        exists st', ps'. rewrite sl_len_app in Hrun, HR'. change (len [c]) with 1 in Hrun, HR'. rewrite Z.add_assoc in Hrun, HR'.
        split; [exact Hrun|]. split; [exact HI'|]. split; [exact Hps|]. cbn [tokSpecM]. exact HR'.
Qed.

Lemma parseInlines_head mt pre0 rest X m (b : block) : okTextM true mt = true -> X = pre0 ++ genEscM mt ++ rest -> hd 0 rest <> 91 ->
  bik b = [mkI UnparsedKind (len pre0) (len pre0 + len (genEscM mt))] ->
  parseInlines X m b = tokSpecM (len pre0) (len pre0) mt.
Proof.
  intros Hok HX Hrest Hb. unfold parseInlines. rewrite Hb. cbn [length].
  set (e := len pre0 + len (genEscM mt)).
  set (st0 := {| rk := []; isrc := X; unp := [mkI UnparsedKind (len pre0) e]; upos := 0; stk := []; ign := false; nid := 1;
                 rootEnd := bend b; matcher := m |}).
  assert (HI0 : ISe (setIgn st0 false) X (len pre0) e) by (repeat split).
  destruct (iloop_genH mt true Hok pre0 [] rest X e (S (length X)) (setIgn st0 false) (len pre0)) as (st' & ps' & Hrun & HI' & Hps & HR').
  { exact HX. } { exact Hrest. } { unfold e. rewrite (@sl_len_nil Z). lia. } { exact HI0. }
  { rewrite HX, !app_length. lia. }
  rewrite sl_len_nil, Z.add_0_r in Hrun, HR'.
  assert (Hout : outer 2 st0 = setUpos (addText st' ps' e) 1).
  { cbn [outer]. change (len (unp st0) <=? upos st0) with false. cbv iota.
    change (nth (Z.to_nat (upos st0)) (unp st0) (mkI 0 0 0)) with (mkI UnparsedKind (len pre0) e).
    change (ikind (mkI UnparsedKind (len pre0) e)) with UnparsedKind.
    change (UnparsedKind =? 0) with false. change (UnparsedKind =? IndentKind) with false. change (UnparsedKind =? UnparsedKind) with true.
    cbv iota. change (ign st0) with false. cbv iota. change (istart (mkI UnparsedKind (len pre0) e)) with (len pre0).
    change (isrc (setIgn st0 false)) with X. rewrite Hrun.
    rewrite (ISe_spanEnd st' X _ _ HI').
    destruct (addText_nodes_e st' X (len pre0) e ps' e HI' Hps) as ((H1 & H2 & H3 & H4) & _).
    change (unp (setUpos (addText st' ps' e) (upos (addText st' ps' e) + 1))) with (unp (addText st' ps' e)).
    change (upos (setUpos (addText st' ps' e) (upos (addText st' ps' e) + 1))) with (upos (addText st' ps' e) + 1).
    rewrite H2, H3. reflexivity. }
  rewrite Hout.
  destruct (addText_nodes_e st' X (len pre0) e ps' e HI' Hps) as ((H1 & H2 & H3 & H4) & _).
  rewrite processEmphasis_nostack by exact H4.
  change (rk (setUpos (addText st' ps' e) 1)) with (rk (addText st' ps' e)). rewrite HR'. reflexivity.
Qed.

(* X spells the ATX heading of level n with text t *)
Definition noRawHash (mt : list (Z * bool)) : bool := forallb (fun cb : Z * bool => negb (fst cb =? 35) || snd cb) mt.
Definition headSpell (X : bytes) (n : nat) (t : bytes) : Prop := exists mt,
  X = headLine n (genEscM mt) /\ plainOf mt = t /\ okTextM true mt = true /\ cover 0 mt = true /\ noRawHash mt = true /\
  (1 <= n <= 6)%nat /\ t <> [] /\ asciiText t.

Lemma okTextM_last : forall mt' p z b, okTextM p (mt' ++ [(z, b)]) = true -> z <> 32.
Proof.
  induction mt' as [|[c b0] r IH]; intros p z b H.
  - cbn [app okTextM] in H. destruct (Z.eqb_spec z 32) as [->|N]; [|exact N]. rewrite andb_false_r in H. discriminate H.
  - cbn [app okTextM] in H. destruct (c =? 32); apply andb_true_iff in H; destruct H as [_ H]; apply (IH _ z b H).
Qed.
Lemma genEscM_app a b : genEscM (a ++ b) = genEscM a ++ genEscM b.
Proof. unfold genEscM. apply flat_map_app. Qed.
Lemma genEscM_bytes mt : forall x, In x (genEscM mt) -> x = 92 \/ In x (plainOf mt).
Proof.
  induction mt as [|[c b] r IH]; intros x H; [destruct H|]. destruct b.
  - rewrite genEscM_E in H. destruct H as [<-|[<-|H]]; [left; reflexivity|right; left; reflexivity|].
    destruct (IH x H) as [E|E]; [left; exact E|right; right; exact E].
  - rewrite genEscM_raw in H. destruct H as [<-|H]; [right; left; reflexivity|]. destruct (IH x H) as [E|E]; [left; exact E|right; right; exact E].
Qed.

Lemma headText_of mt : okTextM true mt = true -> noRawHash mt = true -> plainOf mt <> [] -> asciiText (plainOf mt) ->
  headText (genEscM mt) /\ noNul (genEscM mt).
Proof.
  intros Hok Hh Hne Ha.
  assert (Hb : forall x, In x (genEscM mt) -> 32 <= x <= 126).
  { intros x Hx. destruct (genEscM_bytes mt x Hx) as [->|Hx']; [lia|]. unfold asciiText in Ha. rewrite Forall_forall in Ha. apply Ha. exact Hx'. }
  split; [|apply Forall_forall; intros x Hx; specialize (Hb x Hx); lia].
  split; [apply Forall_forall; intros x Hx; specialize (Hb x Hx); lia|]. split.
  - destruct mt as [|[c b] r]; [contradiction Hne; reflexivity|]. cbn [okTextM] in Hok.
    destruct (Z.eqb_spec c 32) as [->|N]; [rewrite andb_false_r in Hok; discriminate Hok|].
    destruct b; [rewrite genEscM_E; exists 92, (c :: genEscM r); split; reflexivity|].
    rewrite genEscM_raw. exists c, (genEscM r). split; [reflexivity|].
    assert (Hc : 32 <= c <= 126) by (apply Hb; rewrite genEscM_raw; left; reflexivity).
    unfold isSpTab. destruct (Z.eqb_spec c 32); [contradiction|]. destruct (Z.eqb_spec c 9); [lia|]. reflexivity.
  - destruct (exists_last (l := mt)) as (mt' & [z b] & Em); [intros ->; apply Hne; reflexivity|]. subst mt.
    pose proof (okTextM_last mt' true z b Hok) as Hz.
    assert (Hzr : 32 <= z <= 126).
    { unfold asciiText in Ha. rewrite Forall_forall in Ha. apply Ha. unfold plainOf. rewrite map_app. apply in_or_app. right. left. reflexivity. }
    assert (Hzs : isSpTab z = false) by (unfold isSpTab; destruct (Z.eqb_spec z 32); [contradiction|]; destruct (Z.eqb_spec z 9); [lia|reflexivity]).
    rewrite genEscM_app. destruct b.
    + exists (genEscM mt' ++ [92]), z. split; [cbn [genEscM flat_map fst snd app]; rewrite <- app_assoc; reflexivity|].
      split; [exact Hzs|]. intros _. exists (genEscM mt'). reflexivity.
    + exists (genEscM mt'), z. split; [reflexivity|]. split; [exact Hzs|]. intros ->.
      unfold noRawHash in Hh. rewrite forallb_app in Hh. apply andb_true_iff in Hh. destruct Hh as [_ Hh]. cbn in Hh. discriminate Hh.
Qed.

Definition hTagB (n : nat) : bytes := [104; 48 + Z.of_nat n].
Definition headB (X : bytes) (n : nat) (gl : Z) (k : nat) : bsrc :=
  {| bx := X; bb := fun _ => headBlk 0 (len X) (Z.of_nat n) [mkI UnparsedKind (Z.of_nat n + 1) (Z.of_nat n + 1 + gl)]; bp := false; bk := k |}.
Definition headFull (X : bytes) (n : nat) (gl : Z) (t : bytes) (k : nat) : bfull :=
  {| bf_b := headB X n gl k;
     bf_final := fun _ => headBlk 0 (len X) (Z.of_nat n)
                   (parseInlines X [] (headBlk 0 (len X) (Z.of_nat n) [mkI UnparsedKind (Z.of_nat n + 1) (Z.of_nat n + 1 + gl)]));
     bf_piece := fun hw => (if hw then [10] else []) ++ hashes n ++ [32] ++ fesc t ++ [10];
     bf_html := ([60] ++ hTagB n ++ [62]) ++ escapeHTML t ++ ([60; 47] ++ hTagB n ++ [62]) |}.

Lemma head_ok c X n t k mt : filterOn c = false ->
  X = headLine n (genEscM mt) -> plainOf mt = t -> okTextM true mt = true -> cover 0 mt = true -> noRawHash mt = true ->
  (1 <= n <= 6)%nat -> t <> [] -> asciiText t ->
  fullOK c (headFull X n (len (genEscM mt)) t k).
Proof.
  intros Hc HX Ht Hok Hcov Hh Hn Hne Ha.
  destruct (headText_of mt Hok Hh ltac:(rewrite Ht; exact Hne) ltac:(rewrite Ht; exact Ha)) as [Hg Hnul].
  set (g := genEscM mt) in *. set (s := Z.of_nat n + 1).
  assert (HXp : X = (hashes n ++ [32]) ++ genEscM mt ++ [10]) by (rewrite HX; unfold headLine; rewrite <- app_assoc; reflexivity).
  assert (Hs : s = len (hashes n ++ [32])) by (unfold s; rewrite sl_len_app, len_hashes; reflexivity).
  set (hb0 := headBlk 0 (len X) (Z.of_nat n) [mkI UnparsedKind s (s + len g)]).
  assert (Hpi : parseInlines X [] hb0 = tokSpecM s s mt).
  { rewrite Hs. apply (parseInlines_head mt (hashes n ++ [32]) [10] X [] hb0 Hok HXp); [cbn; lia|]. unfold hb0. cbn [headBlk bik]. rewrite <- Hs. reflexivity. }
  constructor.
  - constructor; unfold headFull, headB; cbn [bf_b bx bb bp].
    + intros f bo bl Hf. pose proof (head_step n g [] f bo bl Hn Hg Hnul) as H. cbv zeta in H. rewrite <- HX in H. rewrite app_nil_r in H. apply H. exact Hf.
    + intros R f bo bl Hf. pose proof (head_step n g (10 :: R) f bo bl Hn Hg Hnul) as H. cbv zeta in H. rewrite <- HX in H. apply H. exact Hf.
  - unfold headFull, headB. cbn [bf_b bx]. rewrite HX. unfold headLine. rewrite app_length. cbn [length]. lia.
  - intros fl acc. reflexivity.
  - intros fl. reflexivity.
  - intros fl hw out idx Hhw Hidx. unfold headFull. cbn [bf_final bf_piece bf_b headB bx]. fold s. fold hb0. rewrite Hpi.
    set (nodes := tokSpecM s s mt). set (hb := headBlk 0 (len X) (Z.of_nat n) nodes). change (bheight hb) with 1%nat.
    cbn [fmtB]. change (bkind hb) with ATXHeadingKind.
    change (ATXHeadingKind =? ParagraphKind) with false. change (ATXHeadingKind =? ThematicBreakKind) with false.
    change (ATXHeadingKind =? ListKind) with false. change (ATXHeadingKind =? ListItemKind) with false.
    change (ATXHeadingKind =? LinkReferenceDefinitionKind) with false. change (ATXHeadingKind =? BlockQuoteKind) with false.
    change (ATXHeadingKind =? IndentedCodeBlockKind) with false. change (ATXHeadingKind =? FencedCodeBlockKind) with false.
    change (ATXHeadingKind =? ATXHeadingKind) with true. cbv iota.
    change (bkids hb) with (@nil block). change (bik hb) with nodes. change (bn hb) with (Z.of_nat n). rewrite Nat2Z.id. fold (hashes n).
    assert (Hnl : (if hasWritten (wS hw out) then ws (wS hw out) [10] else wS hw out) = wS hw (out ++ (if hw then [10] else []))).
    { destruct hw; [apply ws_lf_blank|rewrite app_nil_r; reflexivity]. }
    rewrite Hnl. set (o1 := out ++ (if hw then [10] else [])).
    assert (E1 : ws (wS hw o1) (hashes n) = {| indents := []; started := true; hasWritten := true; fout := o1 ++ hashes n |}).
    { unfold wS. apply (ws_nolf_gen [] false hw o1 (hashes n) eq_refl).
      - intros H10. unfold hashes in H10. apply repeat_spec in H10. lia.
      - destruct n; [lia|discriminate]. }
    rewrite E1.
    assert (E2 : ws {| indents := []; started := true; hasWritten := true; fout := o1 ++ hashes n |} [32] =
                 {| indents := []; started := true; hasWritten := true; fout := (o1 ++ hashes n) ++ [32] |}).
    { apply (ws_nolf_gen [] true true _ [32] eq_refl); [intros [H|[]]; lia|discriminate]. }
    rewrite E2.
    change (push {| indents := []; started := true; hasWritten := true; fout := (o1 ++ hashes n) ++ [32] |} []) with (wIn true true ((o1 ++ hashes n) ++ [32])).
    unfold nodes. rewrite Hs.
    rewrite (kids_fmt X ATXHeadingKind (hashes n ++ [32]) mt [10] true true _ eq_refl eq_refl HXp Hcov ltac:(rewrite Ht; exact Hne) ltac:(rewrite Ht; exact Ha)).
    rewrite Ht. unfold pop, wIn. cbn [indents started hasWritten fout removelast]. rewrite ws_lf_started. unfold o1. rewrite <- !app_assoc. reflexivity.
  - intros fl acc. reflexivity.
  - intros fl. unfold headFull. cbn [bf_final bf_html bf_b headB bx]. fold s. fold hb0. rewrite Hpi.
    set (nodes := tokSpecM s s mt). set (hb := headBlk 0 (len X) (Z.of_nat n) nodes). change (bheight hb) with 1%nat.
    cbn [renderB]. change (bkind hb) with ATXHeadingKind. change (ATXHeadingKind =? ParagraphKind) with false. change (ATXHeadingKind =? ThematicBreakKind) with false.
    change (isHeading ATXHeadingKind) with true. cbv iota. change (bkids hb) with (@nil block). change (bik hb) with nodes. change (bn hb) with (Z.of_nat n).
    unfold nodes. rewrite Hs. rewrite (kids_html c X (hashes n ++ [32]) mt [10] HXp), Ht.
    assert (Htag : hTag (Z.of_nat n) = hTagB n).
    { unfold hTag, hTagB. destruct n as [|[|[|[|[|[|[|n']]]]]]]; try reflexivity; lia. }
    rewrite Htag, (openTag_nf c _ Hc), (closeTag_nf c _ Hc). reflexivity.
Qed.

(* ---------------------------------------------------------------------------------------------- *)
(* 3. fenced code blocks                                                                           *)
(* ---------------------------------------------------------------------------------------------- *)
(* does the content line l close a block opened by a fence of n backticks? (the parser's own test, on a cursor at the line start) *)
Definition curOf (ln : bytes) : lp := lpIn [] 0 0 [] 0 ln 1 stDescending.
Definition closes (n : Z) (l : bytes) : bool :=
  fenceClose (indent (curOf (l ++ [10]))) (bytesAfterIndent (curOf (l ++ [10]))) 96 n.
Lemma closes_lpIn src s m texts ls l n :
  fenceClose (indent (lpIn src s m texts ls (l ++ [10]) 1 stDescending)) (bytesAfterIndent (lpIn src s m texts ls (l ++ [10]) 1 stDescending)) 96 n = closes n l.
Proof. reflexivity. Qed.
Lemma noFenceLine_closes n l : noFenceLine n l -> closes n l = false.
Proof. intros H. unfold closes. apply (fenceClose_content _ l); try reflexivity. exact H. Qed.

Lemma nextLine_lineEndR n ls pre R : Forall noEolB ls ->
  lineEnd (pre ++ codeBody ls ++ fence n ++ [10] ++ R) (len pre) = len pre + len (nextLine n ls).
Proof.
  intros H. destruct ls as [|l ls'].
  - cbn [codeBody map concat app nextLine]. rewrite (lineEnd_lf pre (fence n) R (noEolB_fence n)). rewrite sl_len_app. change (len [10]) with 1. lia.
  - apply Forall_cons_iff in H. destruct H as [Hl _]. rewrite codeBody_cons. cbn [nextLine].
    replace (pre ++ ((l ++ [10]) ++ codeBody ls') ++ fence n ++ [10] ++ R) with (pre ++ l ++ 10 :: (codeBody ls' ++ fence n ++ [10] ++ R))
      by (rewrite <- !app_assoc; reflexivity).
    rewrite (lineEnd_lf pre l _ Hl). rewrite sl_len_app. change (len [10]) with 1. lia.
Qed.

Lemma lineLoop_codeR n R : (3 <= n)%nat -> forall ls pre texts st f bo bl B,
  B = pre ++ codeBody ls ++ fence n ++ [10] ++ R ->
  Forall noEolB ls -> Forall (fun l => closes (Z.of_nat n) l = false) ls -> (length ls < f)%nat ->
  let X := pre ++ codeBody ls ++ fence n ++ [10] in
  lineLoop f st [fencedOpen 0 (Z.of_nat n) texts] (len pre)
           {| buf := B; bi := len pre + len (nextLine n ls); boff := bo; bline := bl; pending := [] |} =
  NBBlock {| rb_line := bl; rb_start := bo; rb_end := bo + unpadded X; rb_src := fillNulls X;
             rb_blk := fencedClosed 0 (len X) (Z.of_nat n) (texts ++ textsOf (len pre) ls) |}
          {| buf := R; bi := 0; boff := bo + unpadded X; bline := bl + lineCount X; pending := [] |}.
Proof.
  intros Hn. induction ls as [|l ls' IH]; intros pre texts st f bo bl B HB Heol Hnf Hf X.
  - destruct f as [|f]; [cbn [length] in Hf; lia|]. unfold X. cbn [codeBody map concat app nextLine textsOf] in *.
    set (X0 := pre ++ fence n ++ [10]).
    assert (HBX : B = X0 ++ R) by (rewrite HB; unfold X0; rewrite <- !app_assoc; reflexivity).
    assert (HlenX : len X0 = len pre + len (fence n ++ [10])) by (unfold X0; rewrite sl_len_app; reflexivity).
    rewrite sl_lineLoop_S. cbn [buf bi boff bline pending]. rewrite <- HlenX. rewrite HBX, sl_upto_app_len.
    destruct n as [|n']; [lia|].
    assert (Hfr : from_ X0 (len pre) = 96 :: (fence n' ++ [10])) by (unfold X0; rewrite sl_from_app_len; reflexivity).
    assert (Hline : 96 :: (fence n' ++ [10]) = fence (S n') ++ [10]) by reflexivity.
    rewrite (processLine_code_close st X0 0 (Z.of_nat (S n')) texts (len pre) (96 :: (fence n' ++ [10])) Hfr ltac:(discriminate)).
    2:{ apply (fenceClose_fence _ (S n') (fence n' ++ [10]) Hn); [split; reflexivity|exact Hline]. }
    change (negb (0 =? 0)) with false. cbv iota.
    rewrite Hline, <- HlenX.
    unfold makeRoot, fencedClosed, isOpen. cbn [bend buf bi boff bline pending].
    pose proof (sl_len_nonneg X0). destruct (Z.ltb_spec (len X0) 0); [lia|].
    rewrite sl_upto_app_len, sl_from_app_len, Z.sub_diag. rewrite app_nil_r. reflexivity.
  - destruct f as [|f]; [cbn [length] in Hf; lia|]. cbn [length] in Hf.
    apply Forall_cons_iff in Heol. destruct Heol as [Hl Heol']. apply Forall_cons_iff in Hnf. destruct Hnf as [Hnl Hnf'].
    rewrite codeBody_cons in HB. cbn [nextLine].
    set (pre' := pre ++ l ++ [10]).
    assert (HB' : B = pre' ++ codeBody ls' ++ fence n ++ [10] ++ R) by (subst pre'; rewrite HB; rewrite <- !app_assoc; reflexivity).
    assert (Hlp : len pre + len (l ++ [10]) = len pre') by (subst pre'; rewrite !sl_len_app; lia).
    rewrite sl_lineLoop_S. cbn [buf bi boff bline pending]. rewrite Hlp.
    assert (Hup : upto B (len pre') = pre') by (rewrite HB'; apply sl_upto_app_len).
    rewrite Hup.
    assert (Hfr : from_ pre' (len pre) = l ++ [10]) by (subst pre'; apply sl_from_app_len).
    rewrite (processLine_code_line st pre' 0 (Z.of_nat n) texts (len pre) (l ++ [10]) Hfr).
    2:{ destruct l; discriminate. }
    2:{ apply hasByteSuffixEOL_lf. }
    2:{ rewrite closes_lpIn. exact Hnl. }
    change (negb (0 =? 0)) with false. cbv iota.
    change (makeRoot [fencedOpen 0 (Z.of_nat n) (texts ++ [mkI TextKind (len pre) (len pre + len (l ++ [10]))])]
                     {| buf := B; bi := len pre'; boff := bo; bline := bl; pending := [] |}) with (@None (rootB * bpst)).
    cbv iota. rewrite HB' at 2. rewrite (nextLine_lineEndR n ls' pre' R Heol').
    pose proof (IH pre' (texts ++ [mkI TextKind (len pre) (len pre + len (l ++ [10]))]) stDescending f bo bl B HB' Heol' Hnf' ltac:(lia)) as IHr.
    cbv zeta in IHr. rewrite IHr.
    assert (HXe : pre' ++ codeBody ls' ++ fence n ++ [10] = X) by (unfold X; subst pre'; rewrite codeBody_cons; rewrite <- !app_assoc; reflexivity).
    rewrite HXe. cbn [textsOf]. rewrite Hlp. rewrite <- app_assoc. reflexivity.
Qed.

Definition codeOK (n : nat) (ls : list bytes) : Prop :=
  (3 <= n)%nat /\ Forall noEolB ls /\ Forall noNul ls /\ Forall (fun l => closes (Z.of_nat n) l = false) ls.

Lemma code_step n ls R f bo bl : codeOK n ls -> (length (codeDoc n ls) + 2 <= f)%nat ->
  let X := codeDoc n ls in
  skipLoop f {| buf := X ++ R; bi := 0; boff := bo; bline := bl; pending := [] |} =
  NBBlock {| rb_line := bl; rb_start := bo; rb_end := bo + len X; rb_src := X;
             rb_blk := fencedClosed 0 (len X) (Z.of_nat n) (textsOf (len (fence n ++ [10])) ls) |}
          {| buf := R; bi := 0; boff := bo + len X; bline := bl + lineCount X; pending := [] |}.
Proof.
  intros (Hn & Heol & Hnul & Hcl) Hf X.
  assert (HnulX : noNul X) by (apply noNul_codeDoc; exact Hnul).
  assert (HX : X = (fence n ++ [10]) ++ codeBody ls ++ fence n ++ [10]) by (unfold X, codeDoc; rewrite <- !app_assoc; reflexivity).
  assert (HB : X ++ R = (fence n ++ [10]) ++ codeBody ls ++ fence n ++ [10] ++ R) by (rewrite HX; rewrite <- !app_assoc; reflexivity).
  destruct n as [|n']; [lia|].
  assert (Hlen1 : len (fence (S n') ++ [10]) = Z.of_nat (S n') + 1) by (rewrite sl_len_app, len_fence; reflexivity).
  pose (l1 := fence (S n') ++ [10]).
  assert (HlenX : (length ls + length l1 <= length X)%nat).
  { rewrite HX. fold l1. rewrite !app_length. pose proof (length_codeBody ls). lia. }
  assert (Hl1 : (1 <= length l1)%nat) by (unfold l1; rewrite app_length; cbn [length]; lia).
  fold X in Hf. destruct f as [|f]; [lia|].
  rewrite sl_skipLoop_S. cbv zeta. cbn [buf bi boff bline pending].
  assert (Hle : lineEnd (X ++ R) 0 = len (fence (S n') ++ [10])).
  { change 0 with (len (@nil Z)) at 1. replace (X ++ R) with ([] ++ fence (S n') ++ 10 :: (codeBody ls ++ fence (S n') ++ [10] ++ R)).
    - rewrite (lineEnd_lf [] (fence (S n')) _ (noEolB_fence (S n'))). rewrite (@sl_len_nil Z), sl_len_app. change (len [10]) with 1. lia.
    - rewrite HB. rewrite <- !app_assoc. reflexivity. }
  rewrite Hle. destruct (Z.ltb_spec 0 (len (fence (S n') ++ [10]))); [|lia]. cbn [negb].
  assert (Hup : upto (X ++ R) (len (fence (S n') ++ [10])) = fence (S n') ++ [10]) by (rewrite HB; apply sl_upto_app_len).
  rewrite Hup. change (isBlankLine (fence (S n') ++ [10])) with false. cbv iota.
  destruct f as [|f]; [lia|].
  rewrite sl_lineLoop_S. cbn [buf bi boff bline pending]. rewrite Hup.
  rewrite (processLine_fence_open (fence (S n') ++ [10]) 0 (S n') (fence n' ++ [10]) Hn eq_refl eq_refl).
  change (negb (0 =? 0)) with false. cbv iota.
  change (makeRoot [fencedOpen 0 (Z.of_nat (S n')) []] {| buf := X ++ R; bi := len (fence (S n') ++ [10]); boff := bo; bline := bl; pending := [] |})
    with (@None (rootB * bpst)). cbv iota.
  rewrite HB at 2. rewrite (nextLine_lineEndR (S n') ls (fence (S n') ++ [10]) R Heol).
  pose proof (lineLoop_codeR (S n') R Hn ls (fence (S n') ++ [10]) [] stLineConsumed f bo bl (X ++ R) HB Heol Hcl ltac:(lia)) as HLL.
  cbv zeta in HLL. rewrite <- HX in HLL. rewrite HLL.
  rewrite (unpadded_noNul X HnulX), (fillNulls_noNul X HnulX). reflexivity.
Qed.

(* ---- the formatter's fence length, as a function of the code lines ---- *)
Definition cflLines (ls : list bytes) (st : Z * Z * Z) : Z * Z * Z :=
  fold_left (fun st l => fold_left (cfl_text 96) (l ++ [10]) st) ls st.
Definition fenceLenZ (ls : list bytes) : Z := let '(_, _, mf) := cflLines ls ((-1), 0, 2) in mf + 1.
Definition fenceLen (ls : list bytes) : nat := Z.to_nat (fenceLenZ ls).

Lemma cfl_text_mf st c : let '(_, _, mf) := st in let '(_, _, mf') := cfl_text 96 st c in mf <= mf'.
Proof.
  destruct st as [[s i] mf]. unfold cfl_text. destruct (c =? 32).
  - destruct (s =? -1); [destruct (4 <=? i + 1)|]; lia.
  - destruct (c =? 10); [destruct (Z.ltb_spec mf s); lia|]. destruct (c =? 96); [destruct (s <? 0); [lia|destruct (0 <? s); lia]|lia].
Qed.
Lemma cfl_fold_mf : forall s st, let '(_, _, mf) := st in let '(_, _, mf') := fold_left (cfl_text 96) s st in mf <= mf'.
Proof.
  induction s as [|c r IH]; intros st; [destruct st as [[a b] m]; cbn; lia|]. cbn [fold_left].
  pose proof (cfl_text_mf st c) as H1. specialize (IH (cfl_text 96 st c)).
  destruct st as [[a b] m]. destruct (cfl_text 96 (a, b, m) c) as [[a' b'] m']. destruct (fold_left (cfl_text 96) r (a', b', m')) as [[a'' b''] m'']. lia.
Qed.
Lemma cflLines_mf : forall ls st, let '(_, _, mf) := st in let '(_, _, mf') := cflLines ls st in mf <= mf'.
Proof.
  induction ls as [|l r IH]; intros st; [destruct st as [[a b] m]; cbn; lia|]. unfold cflLines in *. cbn [fold_left].
  pose proof (cfl_fold_mf (l ++ [10]) st) as H1. specialize (IH (fold_left (cfl_text 96) (l ++ [10]) st)).
  destruct st as [[a b] m]. destruct (fold_left (cfl_text 96) (l ++ [10]) (a, b, m)) as [[a' b'] m'].
  destruct (fold_left (fun st l => fold_left (cfl_text 96) (l ++ [10]) st) r (a', b', m')) as [[a'' b''] m'']. lia.
Qed.
Lemma fenceLenZ_ge3 ls : 3 <= fenceLenZ ls.
Proof. unfold fenceLenZ. pose proof (cflLines_mf ls ((-1), 0, 2)) as H. cbv beta iota in H. destruct (cflLines ls (-1, 0, 2)) as [[a b] m]. lia. Qed.

Lemma cfl_texts X : forall ls pre rest st, X = pre ++ codeBody ls ++ rest ->
  fold_left (fun st i => let '(state, indent, minFence) := st in
      if ikind i =? TextKind then fold_left (cfl_text 96) (spanOf X i) st
      else if (ikind i =? SoftLineBreakKind) || (ikind i =? HardLineBreakKind) then ((-1), 0, if minFence <? state then state else minFence)
      else if ikind i =? IndentKind then
        (if state =? -1 then (let indent := indent + iindent i in if 4 <=? indent then (0, indent, minFence) else (state, indent, minFence)) else st)
      else st) (textsOf (len pre) ls) st = cflLines ls st.
Proof.
  induction ls as [|l r IH]; intros pre rest st HX; [reflexivity|]. cbn [textsOf fold_left]. unfold cflLines. cbn [fold_left]. fold (cflLines r).
  destruct st as [[a b] m]. cbn [mkI ikind]. change (TextKind =? TextKind) with true. cbv iota.
  assert (Hsp : spanOf X (mkI TextKind (len pre) (len pre + len (l ++ [10]))) = l ++ [10]).
  { unfold spanOf. cbn [mkI istart iend]. rewrite HX, codeBody_cons.
    replace (pre ++ ((l ++ [10]) ++ codeBody r) ++ rest) with (pre ++ (l ++ [10]) ++ (codeBody r ++ rest)) by (rewrite <- !app_assoc; reflexivity).
    apply sl_sub_app. }
  rewrite Hsp. rewrite <- sl_len_app. apply (IH (pre ++ l ++ [10]) rest). rewrite HX, codeBody_cons. rewrite <- !app_assoc. reflexivity.
Qed.

(* ---- writing one code line ---- *)
Lemma findEol10_app : forall a r i, ~ In 10 a -> findEol10 (a ++ 10 :: r) i = i + len a.
Proof.
  induction a as [|x a IH]; intros r i H; [cbn [app findEol10]; change (10 =? 10) with true; rewrite (@sl_len_nil Z); lia|].
  cbn [app findEol10]. destruct (Z.eqb_spec x 10) as [->|]; [exfalso; apply H; left; reflexivity|].
  rewrite IH by (intros Hin; apply H; right; exact Hin). rewrite sl_len_cons. lia.
Qed.
Lemma ws_blank_in hw out : ws (wIn false hw out) [10] = wIn false true (out ++ [10]).
Proof.
  unfold ws. cbn [length fws_loop findEol10]. change (10 =? 10) with true. cbv iota. change (0 <? 0) with false. cbv iota.
  unfold wIn, fwSet, fwOut. cbn [indents started hasWritten fout negb andb]. change (0 =? 0) with true. cbv iota.
  change (trimmedIndent (rev [[]])) with (@nil Z). change (from_ [10] 1) with (@nil Z). cbn [findEol10]. change (-1 <? 0) with true. cbv iota.
  change (len (@nil Z) =? 0) with true. cbv iota. rewrite app_nil_r. reflexivity.
Qed.
Lemma fws_S f w s : fws_loop (S f) w s =
    let i := findEol10 s 0 in
    if i <? 0 then
      if len s =? 0 then w else
      let w := fwSet w (started w) true in
      let w := if negb (started w) then fwOut w (concat (indents w)) else w in
      fwSet (fwOut w s) true true
    else
      let w := fwSet w (started w) true in
      if negb (started w) && (i =? 0) then
        fws_loop f (fwOut (fwOut w (trimmedIndent (rev (indents w)))) [10]) (from_ s 1)
      else
        let w := if negb (started w) then fwOut w (concat (indents w)) else w in
        fws_loop f (fwSet (fwOut w (upto s (i + 1))) false true) (from_ s (i + 1)).
Proof. reflexivity. Qed.
Lemma fws_nil f w : fws_loop f w [] = w.
Proof. destruct f; reflexivity. Qed.
Lemma ws_code_line out l : ~ In 10 l -> ws (wIn false true out) (l ++ [10]) = wIn false true (out ++ l ++ [10]).
Proof.
  intros Hn. destruct l as [|x l']; [apply ws_blank_in|].
  unfold ws. rewrite fws_S. cbv zeta.
  rewrite (findEol10_app (x :: l') [] 0 Hn). pose proof (sl_len_nonneg l') as H0. rewrite sl_len_cons.
  destruct (Z.ltb_spec (0 + (len l' + 1)) 0); [lia|].
  destruct (Z.eqb_spec (0 + (len l' + 1)) 0); [lia|]. rewrite andb_false_r.
  replace (0 + (len l' + 1) + 1) with (len ((x :: l') ++ [10])) by (rewrite sl_len_app, sl_len_cons; change (len [10]) with 1; lia).
  rewrite sl_upto_all, sl_from_all, fws_nil.
  unfold wIn, fwSet, fwOut. cbn [indents started hasWritten fout negb concat app]. rewrite app_nil_r. reflexivity.
Qed.

Lemma fold_code_lines X : forall ls pre rest out prevs, X = pre ++ codeBody ls ++ rest -> Forall noEolB ls ->
  fst (fold_left (fun (wp : fw * list inline) i => let '(w, prevs) := wp in
                    (fmtI (isize i) X FencedCodeBlockKind (leadingDigits X prevs 0) w i, i :: prevs)) (textsOf (len pre) ls) (wIn false true out, prevs)) =
  wIn false true (out ++ codeBody ls).
Proof.
  induction ls as [|l r IH]; intros pre rest out prevs HX Heol; [cbn; rewrite app_nil_r; reflexivity|].
  apply Forall_cons_iff in Heol. destruct Heol as [Hl Hr]. cbn [textsOf fold_left].
  assert (Hsp : spanOf X (mkI TextKind (len pre) (len pre + len (l ++ [10]))) = l ++ [10]).
  { unfold spanOf. cbn [mkI istart iend]. rewrite HX, codeBody_cons.
    replace (pre ++ ((l ++ [10]) ++ codeBody r) ++ rest) with (pre ++ (l ++ [10]) ++ (codeBody r ++ rest)) by (rewrite <- !app_assoc; reflexivity).
    apply sl_sub_app. }
  assert (Hf : forall dg w, fmtI (isize (mkI TextKind (len pre) (len pre + len (l ++ [10])))) X FencedCodeBlockKind dg w (mkI TextKind (len pre) (len pre + len (l ++ [10]))) =
               ws w (l ++ [10])).
  { intros dg w. cbn [mkI isize fold_right fmtI ikind]. change (TextKind =? LinkKind) with false. change (TextKind =? TextKind) with true. cbv iota.
    change (isCode FencedCodeBlockKind) with true. cbv iota. fold (mkI TextKind (len pre) (len pre + len (l ++ [10]))). rewrite Hsp. reflexivity. }
  rewrite Hf. rewrite ws_code_line by (intros H10; unfold noEolB in Hl; rewrite Forall_forall in Hl; specialize (Hl 10 H10); lia).
  rewrite <- sl_len_app. rewrite (IH (pre ++ l ++ [10]) rest); [|rewrite HX, codeBody_cons; rewrite <- !app_assoc; reflexivity|exact Hr].
  rewrite codeBody_cons. rewrite <- !app_assoc. reflexivity.
Qed.

Definition codeBlk (n : nat) (ls : list bytes) : block :=
  fencedClosed 0 (len (codeDoc n ls)) (Z.of_nat n) (textsOf (len (fence n ++ [10])) ls).
Definition codeB (n : nat) (ls : list bytes) (k : nat) : bsrc := {| bx := codeDoc n ls; bb := fun _ => codeBlk n ls; bp := false; bk := k |}.
Definition preCode (h : bytes) : bytes := [60;112;114;101;62;60;99;111;100;101;62] ++ h ++ [60;47;99;111;100;101;62;60;47;112;114;101;62].
Definition codeFull (n : nat) (ls : list bytes) (k : nat) : bfull :=
  {| bf_b := codeB n ls k; bf_final := fun _ => codeBlk n ls;
     bf_piece := fun hw => (if hw then [10] else []) ++ codeDoc (fenceLen ls) ls;
     bf_html := preCode (escapeHTML (codeBody ls)) |}.

Lemma code_ok c n ls k : filterOn c = false -> codeOK n ls -> fullOK c (codeFull n ls k).
Proof.
  intros Hc Hok. pose proof Hok as (Hn & Heol & Hnul & Hcl).
  set (X := codeDoc n ls). set (texts := textsOf (len (fence n ++ [10])) ls).
  assert (HX : X = (fence n ++ [10]) ++ codeBody ls ++ (fence n ++ [10])) by (unfold X, codeDoc; rewrite <- !app_assoc; reflexivity).
  assert (HT : Forall (fun i => ikind i = TextKind) texts) by apply textsOf_kind.
  assert (Hinfo : infoOf (codeBlk n ls) = None).
  { unfold infoOf, codeBlk, fencedClosed. cbn [bkind bik]. change (FencedCodeBlockKind =? FencedCodeBlockKind) with true. cbv iota. fold texts.
    destruct HT as [|i r Hi _]; [reflexivity|]. rewrite Hi. reflexivity. }
  constructor.
  - constructor; unfold codeFull, codeB; cbn [bf_b bx bb bp].
    + intros f bo bl Hf. pose proof (code_step n ls [] f bo bl Hok Hf) as H. cbv zeta in H. rewrite app_nil_r in H. exact H.
    + intros R f bo bl Hf. apply (code_step n ls (10 :: R) f bo bl Hok Hf).
  - unfold codeFull, codeB. cbn [bf_b bx]. unfold codeDoc. rewrite !app_length. cbn [length]. lia.
  - intros fl acc. reflexivity.
  - intros fl. unfold codeFull, codeB. cbn [bf_b bx bb bf_final]. unfold codeBlk at 1. change (bheight (fencedClosed _ _ _ _)) with 1%nat. cbn [rewriteB].
    unfold hasUnparsed. fold texts. change (bik (codeBlk n ls)) with texts. rewrite (noUnparsed_texts texts HT). rewrite andb_false_r. reflexivity.
  - intros fl hw out idx Hhw Hidx. unfold codeFull. cbn [bf_final bf_piece bf_b codeB bx]. fold X.
    set (cb := codeBlk n ls). change (bheight cb) with 1%nat. assert (Hinfo' : infoOf cb = None) by exact Hinfo.
    cbn [fmtB]. change (bkind cb) with FencedCodeBlockKind.
    change (FencedCodeBlockKind =? ParagraphKind) with false. change (FencedCodeBlockKind =? ThematicBreakKind) with false.
    change (FencedCodeBlockKind =? ListKind) with false. change (FencedCodeBlockKind =? ListItemKind) with false.
    change (FencedCodeBlockKind =? LinkReferenceDefinitionKind) with false. change (FencedCodeBlockKind =? BlockQuoteKind) with false.
    change (FencedCodeBlockKind =? IndentedCodeBlockKind) with false. change (FencedCodeBlockKind =? FencedCodeBlockKind) with true. cbv iota.
    change (bkids cb) with (@nil block). change (bik cb) with texts. rewrite Hinfo'.
    assert (Hch : codeFenceChar X cb = 96) by (unfold codeFenceChar; rewrite Hinfo'; reflexivity).
    assert (Hlen : codeFenceLength X cb = fenceLenZ ls).
    { unfold codeFenceLength. rewrite Hch. change (bik cb) with texts. unfold texts.
      rewrite (cfl_texts X ls (fence n ++ [10]) (fence n ++ [10]) _ HX). reflexivity. }
    rewrite Hch, Hlen. fold (fenceLen ls). fold (fence (fenceLen ls)). set (F := fence (fenceLen ls)).
    assert (HF10 : ~ In 10 F) by (unfold F, fence; intros H; apply repeat_spec in H; lia).
    assert (HFne : F <> []).
    { unfold F, fenceLen. pose proof (fenceLenZ_ge3 ls). destruct (Z.to_nat (fenceLenZ ls)) eqn:E; [lia|discriminate]. }
    assert (Hnl : (if hasWritten (wS hw out) then ws (wS hw out) [10] else wS hw out) = wS hw (out ++ (if hw then [10] else []))).
    { destruct hw; [apply ws_lf_blank|rewrite app_nil_r; reflexivity]. }
    rewrite Hnl. set (o1 := out ++ (if hw then [10] else [])).
    assert (E1 : ws (wS hw o1) F = {| indents := []; started := true; hasWritten := true; fout := o1 ++ F |}).
    { unfold wS. apply (ws_nolf_gen [] false hw o1 F eq_refl HF10 HFne). }
    rewrite E1. rewrite ws_lf_started.
    change (push {| indents := []; started := false; hasWritten := true; fout := (o1 ++ F) ++ [10] |} []) with (wIn false true ((o1 ++ F) ++ [10])).
    unfold texts. rewrite (fold_code_lines X ls (fence n ++ [10]) (fence n ++ [10]) _ [] HX Heol).
    unfold pop, wIn. cbn [indents started hasWritten fout removelast].
    assert (E2 : ws {| indents := []; started := false; hasWritten := true; fout := ((o1 ++ F) ++ [10]) ++ codeBody ls |} F =
                 {| indents := []; started := true; hasWritten := true; fout := (((o1 ++ F) ++ [10]) ++ codeBody ls) ++ F |}).
    { apply (ws_nolf_gen [] false true _ F eq_refl HF10 HFne). }
    rewrite E2, ws_lf_started. unfold wS, o1, codeDoc. fold F. rewrite <- !app_assoc. reflexivity.
  - intros fl acc. reflexivity.
  - intros fl. unfold codeFull. cbn [bf_final bf_html bf_b codeB bx]. fold X. set (cb := codeBlk n ls). change (bheight cb) with 1%nat.
    cbn [renderB]. change (bkind cb) with FencedCodeBlockKind. change (bkids cb) with (@nil block). change (bik cb) with texts.
    change (FencedCodeBlockKind =? ParagraphKind) with false. change (FencedCodeBlockKind =? ThematicBreakKind) with false.
    change (isHeading FencedCodeBlockKind) with false. change (isCode FencedCodeBlockKind) with true.
    change (FencedCodeBlockKind =? FencedCodeBlockKind) with true. cbv iota.
    assert (Hi : match texts with i0 :: _ => if ikind i0 =? InfoStringKind then Some i0 else None | [] => None end = None).
    { destruct HT as [|i r Hi _]; [reflexivity|]. rewrite Hi. reflexivity. }
    rewrite Hi. unfold texts. rewrite HX. rewrite (render_texts c ls (fence n ++ [10]) (fence n ++ [10])).
    rewrite (openTag_nf c _ Hc), (openTagAttr_nf c _ Hc), !(closeTag_nf c _ Hc). unfold preCode. cbn [app]. rewrite <- ?app_assoc. reflexivity.
Qed.
