From Coq Require Import List ZArith Lia Bool.
Import ListNotations.
Require Import Base Tree Rdr Link Collect Html Recog LP Rules Starts Driver Rec17 Rec18 L2Kind L2CC BSDef BSRdr BSTree BSOrph BSClose BSLine1 BSLine2 BSLine3
  LADef LA1 LA2.
Open Scope Z_scope.

(* ===== the line-parser invariants for "lines accounted" (mirrors BSLine1-3) ===== *)

(* the line is the tail of the source at lineStart *)
Definition ST (p : lp) : Prop := line p = from_ (source p) (lineStart p) /\ lineStart p <= len (source p) /\ OcpLoopSpec (source p) /\ bnd0 (source p) (lineStart p).
Definition LB (M : Z) (p : lp) : Prop := curP p /\ ST p /\ la (source p) M (root p) /\ spineOpen p /\ ccP p.
Definition LBP (p : lp) : Prop := LB (Mc p) p.
Definition LC1 (p : lp) : Prop := forall c, getAt (S (cdepth p)) (root p) = Some c -> bend c < 0 -> la (source p) (lineStart p) c.
Definition LcleanC (p : lp) : Prop := forall x, getAt (cdepth p) (root p) = Some x -> la (source p) (lineStart p) x.
Definition LLI (p : lp) : Prop := forall x, getAt (cdepth p) (root p) = Some x -> la (source p) (lineStart p) x \/ wide (bkind x).
Definition LOP (p : lp) : Prop := LBP p /\ LC1 p.

Lemma ST_env p p' : env p p' -> ST p -> ST p'.
Proof. intros (E1 & E2 & E3) H. unfold ST. rewrite E1, E2, E3. exact H. Qed.
Lemma ST_len p : curP p -> ST p -> lineStart p + len (line p) = len (source p).
Proof. intros (A & _) (E & L & _). rewrite E. rewrite len_from by lia. lia. Qed.
Lemma Mc_le p : curP p -> ST p -> 0 <= Mc p <= len (source p).
Proof. intros C St. pose proof (ST_len p C St). destruct C as (A & B). unfold Mc. lia. Qed.
Lemma line_at p i : curP p -> ST p -> 0 <= i -> at_ (line p) i = at_ (source p) (lineStart p + i).
Proof. intros (A & _) (E & _) Hi. rewrite E. apply at_from; lia. Qed.

(* ---- cursor steps over bytes that need no cover ---- *)
Definition NTl (p : lp) (a b : Z) : Prop := forall i, a <= i < b -> tx (at_ (line p) i) = false.
Lemma NTl_NT p a b : curP p -> ST p -> 0 <= a -> NTl p a b -> NT (source p) (lineStart p + a) (lineStart p + b).
Proof.
  intros C St Ha H q Hq. specialize (H (q - lineStart p) ltac:(lia)). rewrite line_at in H by (try assumption; lia).
  replace (lineStart p + (q - lineStart p)) with q in H by lia. exact H.
Qed.
Definition ntstep (p p' : lp) : Prop := cstep p p' /\ NTl p (li p) (li p').
Lemma ntstep_refl p : ntstep p p. Proof. split; [apply cstep_refl|intros i Hi; lia]. Qed.
Lemma ntstep_trans a b c : curP a -> ntstep a b -> ntstep b c -> ntstep a c.
Proof.
  intros Ca [A1 A2] [B1 B2]. split; [eapply cstep_trans; eassumption|]. intros i Hi.
  destruct A1 as (_ & (_ & E2 & _) & A5). unfold NTl in B2. rewrite E2 in B2.
  destruct (Z.lt_ge_cases i (li b)); [apply A2; lia|apply B2; lia].
Qed.
Lemma ntstep_of_cstep p p' : cstep p p' -> li p' = li p -> ntstep p p'.
Proof. intros H E. split; [exact H|intros i Hi; lia]. Qed.
Lemma ntstep_opened p : ntstep p (if state p =? stOpening then withState p stOpenMatched else p).
Proof. apply ntstep_of_cstep; [apply cstep_opened|destruct (_ =? _); reflexivity]. Qed.
Lemma ntstep_withState p s : ntstep p (withState p s). Proof. apply ntstep_of_cstep; [apply cstep_withState|reflexivity]. Qed.

Lemma sp_tab_nt c : c = 32 \/ c = 9 -> tx c = false. Proof. intros [-> | ->]; reflexivity. Qed.

Lemma ntstep_consumeIndent_loop : forall fuel p n, curP p -> ntstep p (consumeIndent_loop fuel p n).
Proof.
  induction fuel as [|f IH]; intros p n Cp; [apply ntstep_refl|]. cbn [consumeIndent_loop].
  destruct (n <=? 0); [apply ntstep_refl|]. cbv zeta.
  eapply ntstep_trans; [exact Cp|apply ntstep_opened|]. set (p0 := if state p =? stOpening then withState p stOpenMatched else p).
  assert (C0 : curP p0) by (unfold p0; destruct (_ =? _); exact Cp).
  destruct (Z.ltb_spec (li p0) (len (line p0))) as [L|L]; cbn [andb]; [|apply ntstep_of_cstep; [apply cstep_panic|reflexivity]].
  assert (Hs : forall cl tr, (at_ (line p0) (li p0) = 32 \/ at_ (line p0) (li p0) = 9) -> ntstep p0 (withCursor p0 (li p0 + 1) cl tr)).
  { intros cl tr Hc. split; [repeat split; cbn [li withCursor setLP]; lia|]. intros i Hi. cbn [li withCursor setLP] in Hi.
    replace i with (li p0) by lia. apply sp_tab_nt, Hc. }
  assert (Cn : forall cl tr, curP (withCursor p0 (li p0 + 1) cl tr)) by (intros; destruct C0 as (A & B); split; cbn [lineStart li line withCursor setLP]; lia).
  destruct (Z.eqb_spec (at_ (line p0) (li p0)) 32) as [E32|N32].
  { eapply ntstep_trans; [exact C0|apply Hs; left; exact E32|apply IH, Cn]. }
  destruct (Z.eqb_spec (at_ (line p0) (li p0)) 9) as [E9|N9]; [|apply ntstep_of_cstep; [apply cstep_panic|reflexivity]].
  destruct (n <? _); [apply ntstep_of_cstep; [repeat split; cbn [li withCursor setLP]; lia|reflexivity]|].
  eapply ntstep_trans; [exact C0|apply Hs; right; exact E9|apply IH, Cn].
Qed.
Lemma ntstep_consumeIndent p n : curP p -> ntstep p (consumeIndent p n). Proof. apply ntstep_consumeIndent_loop. Qed.

Lemma li_advance p n : curP p -> 0 <= n -> li p + n <= len (line p) -> li (advance p n) = li p + n.
Proof.
  intros C Hn Hl. unfold advance. destruct (Z.ltb_spec n 0); [lia|]. destruct (Z.eqb_spec n 0) as [->|N]; [lia|]. cbv zeta.
  set (p0 := if state p =? stOpening then withState p stOpenMatched else p).
  assert (E : li p0 = li p /\ line p0 = line p) by (unfold p0; destruct (_ =? _); split; reflexivity). destruct E as [E1 E2].
  rewrite E1, E2. destruct (Z.ltb_spec (len (line p)) (li p + n)); [lia|]. reflexivity.
Qed.
Lemma li_advance_le p n : curP p -> li p <= li (advance p n) /\ (li (advance p n) <= li p + n \/ n < 0).
Proof.
  intros C. unfold advance. destruct (Z.ltb_spec n 0); [cbn; lia|]. destruct (Z.eqb_spec n 0) as [->|N]; [lia|]. cbv zeta.
  set (p0 := if state p =? stOpening then withState p stOpenMatched else p).
  assert (E : li p0 = li p /\ line p0 = line p) by (unfold p0; destruct (_ =? _); split; reflexivity). destruct E as [E1 E2].
  rewrite E1, E2. destruct (Z.ltb_spec (len (line p)) (li p + n)); cbn [li panic withCursor setLP]; rewrite ?E1; lia.
Qed.
Lemma ntstep_advance p n : curP p -> NTl p (li p) (li p + n) -> ntstep p (advance p n).
Proof.
  intros C H. split; [apply cstep_advance|]. intros i Hi. apply H. destruct (li_advance_le p n C) as [_ [L|L]]; [lia|].
  unfold advance in Hi. destruct (Z.ltb_spec n 0); [cbn in Hi|]; lia.
Qed.
Lemma li_consumeLine p : curP p -> li (consumeLine p) = len (line p).
Proof.
  intros C. pose proof C as (A & B). unfold consumeLine. cbv zeta.
  assert (E : li (advance p (len (line p) - li p)) = len (line p)) by (rewrite li_advance by (try assumption; lia); lia).
  destruct (_ || _); [exact E|]. destruct (_ =? stDescending); exact E.
Qed.
Lemma ntstep_consumeLine p : curP p -> NTl p (li p) (len (line p)) -> ntstep p (consumeLine p).
Proof.
  intros C H. split; [apply cstep_consumeLine|]. rewrite li_consumeLine by exact C. exact H.
Qed.

(* ---- LB under cursor steps ---- *)
Lemma LB_cstep M M' p p' : cstep p p' -> LB M p -> M <= M' -> NT (source p) M M' -> LB M' p'.
Proof.
  intros Hc (A & St & B & C & D) Hle Hnt. destruct (cstep_Mc p p' Hc A) as (A' & _). pose proof Hc as ((E1 & E2) & Henv & _).
  pose proof Henv as (_ & _ & E5).
  split; [exact A'|]. split; [eapply ST_env; eassumption|]. split; [rewrite E1, E5; eapply la_mono; eassumption|].
  split; [|eapply ccP_same; [split; eassumption|exact D]].
  intros d x Hd. unfold cdepth in *. rewrite E1. rewrite E2 in Hd. apply C, Hd.
Qed.
Lemma LBP_ntstep p p' : ntstep p p' -> LBP p -> LBP p'.
Proof.
  intros [Hc Hn] H. pose proof H as (A & St & _). destruct (cstep_Mc p p' Hc A) as (_ & Hm & E1 & _).
  eapply LB_cstep; [exact Hc|exact H|exact Hm|]. unfold Mc. rewrite E1. apply NTl_NT; [exact A|exact St|apply A|exact Hn].
Qed.
Lemma LC1_cstep p p' : cstep p p' -> LC1 p -> LC1 p'.
Proof. intros ((E1 & E2) & (E3 & _ & E5) & _) H c. unfold cdepth. rewrite E1, E2, E3, E5. apply H. Qed.
Lemma LLI_cstep p p' : cstep p p' -> LLI p -> LLI p'.
Proof. intros ((E1 & E2) & (E3 & _ & E5) & _) H c. unfold cdepth. rewrite E1, E2, E3, E5. apply H. Qed.
Lemma LcleanC_cstep p p' : cstep p p' -> LcleanC p -> LcleanC p'.
Proof. intros ((E1 & E2) & (E3 & _ & E5) & _) H c. unfold cdepth. rewrite E1, E2, E3, E5. apply H. Qed.
Lemma LOP_ntstep p p' : ntstep p p' -> LOP p -> LOP p'.
Proof. intros H [A B]. split; [eapply LBP_ntstep; eassumption|eapply LC1_cstep; [apply H|exact B]]. Qed.

(* ---- the gap between two accounts of the same open block ---- *)
Lemma tchain_gap src (P : block -> Prop) M1 M2 : M1 <= M2 ->
  (forall c, P c -> bend c < 0 -> NT src M1 M2) ->
  forall l lo, (forall c, In c l -> P c) -> tchain src true lo M1 l -> tchain src true lo M2 l -> NT src M1 M2.
Proof.
  intros Hle HP. induction l as [|c r IH]; intros lo Hin H1 H2; cbn [tchain] in *.
  - destruct H1 as [A1 _]. destruct H2 as [_ B2]. eapply NT_sub; [| |exact B2]; lia.
  - destruct H1 as (_ & _ & A). destruct H2 as (_ & _ & B).
    destruct (Z.ltb_spec (bend c) 0) as [L|L].
    + apply (HP c); [apply Hin; left; reflexivity|exact L].
    + destruct A as [_ A]. destruct B as [_ B]. eapply IH; [intros x Hx; apply Hin; right; exact Hx|exact A|exact B].
Qed.
Lemma la_gap src M1 M2 : M1 <= M2 -> forall b, bend b < 0 -> la src M1 b -> la src M2 b -> NT src M1 M2.
Proof.
  intros Hle. fix IH 1. intros [K s e bk ik a n c l lb] Ho. cbn [bend] in Ho. cbn [la].
  assert (E : (e <? 0) = true) by (apply Z.ltb_lt; exact Ho). rewrite E.
  intros (A1 & _ & _ & C1 & D1) (A2 & _ & _ & C2 & D2).
  assert (Htile : forall l0, tileS src s M1 l0 -> tileS src s M2 l0 -> NT src M1 M2).
  { intros l0 T1 T2. destruct (tileS_end _ _ _ _ T1) as [P1 _]. destruct (tileS_end _ _ _ _ T2) as [_ P2]. eapply NT_sub; [| |exact P2]; lia. }
  destruct (isLeafK K); [apply (Htile (map ispan ik)); tauto|].
  destruct (K =? ListMarkerKind); [eapply NT_sub; [| |apply (proj1 C2 Ho)]; lia|].
  destruct (K =? LinkReferenceDefinitionKind); [apply (Htile (defSpans ik)); [apply C1|apply C2]|].
  destruct C1 as [C1 _]. destruct C2 as [C2 _]. clear A1 A2 Htile. revert s C1 C2. induction bk as [|x r IHr]; intros s C1 C2; cbn [tchain] in *.
  - destruct C1 as [P1 _]. destruct C2 as [_ P2]. eapply NT_sub; [| |exact P2]; lia.
  - destruct C1 as (_ & _ & P). destruct C2 as (_ & _ & Q). destruct D1 as [X1 Y1]. destruct D2 as [X2 Y2].
    destruct (Z.ltb_spec (bend x) 0) as [L|L].
    + apply (IH x L X1 X2).
    + destruct P as [_ P]. destruct Q as [_ Q]. apply (IHr Y1 Y2 (bend x)); assumption.
Qed.

(* ---- right-spine update along the open spine with a change of the bound ---- *)
Lemma la_kids_closed_mono src M M' pre : M <= M' -> ccL pre = true -> (forall c, In c pre -> 0 <= bend c) ->
  allQ (la src M) pre -> allQ (la src M') pre.
Proof.
  intros Hle. induction pre as [|x r IH]; intros Hc Hb H; [exact I|]. destruct H as [H1 H2].
  unfold ccL in Hc. cbn [forallb] in Hc. apply andb_true_iff in Hc. destruct Hc as [Cx Cr]. split.
  - apply (la_closed_any src M M' x); [apply Hb; left; reflexivity|pose proof (la_bounds _ _ _ H1); lia|exact Cx|exact H1].
  - apply IH; [exact Cr|intros c Hc'; apply Hb; right; exact Hc'|exact H2].
Qed.
Lemma ccL_app a b : ccL (a ++ b) = ccL a && ccL b. Proof. apply forallb_app. Qed.

Lemma la_updAt_at2 src M M' f : M <= M' -> forall d b, cc b = true -> la src M b -> (exists x0, getAt d b = Some x0) ->
  (forall j y, (j <= d)%nat -> getAt j b = Some y -> bend y < 0) ->
  (forall x, getAt d b = Some x -> la src M x -> la src M' (f x) /\ bstart (f x) = bstart x /\ bend (f x) = bend x) ->
  la src M' (updAt d f b) /\ bstart (updAt d f b) = bstart b /\ bend (updAt d f b) = bend b.
Proof.
  intros Hle. induction d as [|d IH]; intros b Hcc Hb Hex Hop Hf; [apply Hf; [reflexivity|exact Hb]|]. cbn [updAt].
  destruct (lastBlock b) as [c|] eqn:El.
  2:{ exfalso. destruct Hex as (x0 & Hx0). cbn [getAt] in Hx0. rewrite El in Hx0. discriminate. }
  destruct (cc_lastBlock b c Hcc El) as [Cc Kc].
  assert (Oc : bend c < 0) by (apply (Hop 1%nat c); [lia|cbn [getAt]; rewrite El; reflexivity]).
  assert (Ob : bend b < 0) by (apply (Hop O b); [lia|reflexivity]).
  destruct (IH c Cc (la_lastBlock src M b c Hb El)) as (A & B & C).
  { destruct Hex as (x0 & Hx0). cbn [getAt] in Hx0. rewrite El in Hx0. eauto. }
  { intros j y Hj Ey. apply (Hop (S j) y); [lia|cbn [getAt]; rewrite El; exact Ey]. }
  { intros x Hx. apply Hf. cbn [getAt]. rewrite El. exact Hx. }
  split; [|split; [apply bstart_set_lastBlocks|apply bend_set_lastBlocks]].
  pose proof (lastBlock_split b c El) as Es. pose proof (canContain_cont _ _ Kc) as Ek.
  pose proof Hb as Hb'. rewrite la_eq in Hb'. destruct Hb' as (P1 & P2 & P3 & P4 & P5).
  rewrite body_cont in P4 by exact Ek. destruct P4 as [P4 P4ik]. rewrite hiOf_open in P4 by exact Ob. rewrite Es in P4.
  destruct (tchain_split src _ _ _ _ [c] ltac:(discriminate) P4) as (mid & M1 & M2 & M3 & M4).
  unfold set_lastBlocks. rewrite la_eq, bstart_set_bkids, bend_set_bkids, bkind_set_bkids, bkids_set_bkids.
  split; [lia|]. split; [left; exact Ob|]. split; [exact P3|]. split.
  - rewrite body_set_bkids_cont by exact Ek. rewrite hiOf_open by exact Ob. split; [apply (tchain_last_open src _ _ M _ c Oc P4); [exact B|lia]|exact P4ik].
  - rewrite Es in P5. apply allQ_app in P5. destruct P5 as [P5 _]. apply allQ_app. split; [|split; [exact A|exact I]].
    apply cc_parts in Hcc. destruct Hcc as [_ Hcc]. rewrite Es, ccL_app in Hcc. apply andb_true_iff in Hcc. destruct Hcc as [Hcc _].
    apply (la_kids_closed_mono src M M'); [exact Hle|exact Hcc|intros x Hx; apply M4, Hx|exact P5].
Qed.
