From Coq Require Import List ZArith Lia Bool.
Import ListNotations.
Require Import Base Tables Utf8 Tree Rdr Link Collect Html Recog LP Rules Starts Driver Rec16 Rec17 Rec18 L2Kind L2CC L2Bnd L2BndS BSDef BSRdr BSTree BSShift.
Require Import GI0 SpanHypDef LADef LA1 LA2 LARec LAR1 LA6 LA11 LA12 LAPad LA13 LAOcp ExOcp ExInv2 DefSpansOcp DefSpansClose DefSpansWalk.
Open Scope Z_scope.

(* ================================================================================================
   T56 (a), part 4 (DefSpansDrv): invD through the stream layer.  At the start of every line the open paragraphs of the
   pending tree satisfy GoodP (from LinesAccounted's invariant la, whose driver LA13 is repeated here together with the
   bounds driver of L2BndS); `mem` is membership of (start, entries) in the list of these paragraphs.
   ================================================================================================ *)

(* ---- equality of inline nodes, as a checker ---- *)
Fixpoint inl_eqb (a b : inline) : bool :=
  match a, b with
  | Inl k s e i r ks, Inl k' s' e' i' r' ks' =>
    (k =? k') && (s =? s') && (e =? e') && (i =? i') && eqbL r r' &&
    (fix go (l l' : list inline) : bool :=
       match l, l' with [], [] => true | x :: l1, y :: l2 => inl_eqb x y && go l1 l2 | _, _ => false end) ks ks'
  end.
Fixpoint ikl_eqb (l l' : list inline) : bool :=
  match l, l' with [], [] => true | x :: l1, y :: l2 => inl_eqb x y && ikl_eqb l1 l2 | _, _ => false end.
Lemma inl_eqb_eq a b : inl_eqb a b = (match a, b with Inl k s e i r ks, Inl k' s' e' i' r' ks' =>
  (k =? k') && (s =? s') && (e =? e') && (i =? i') && eqbL r r' && ikl_eqb ks ks' end).
Proof.
  destruct a as [k s e i r ks], b as [k' s' e' i' r' ks']. cbn [inl_eqb]. f_equal.
Qed.
Lemma inl_eqb_true : forall a b, inl_eqb a b = true -> a = b.
Proof.
  fix IH 1. intros [k s e i r ks] [k' s' e' i' r' ks'] H. rewrite inl_eqb_eq in H.
  apply andb_true_iff in H. destruct H as [H H6]. apply andb_true_iff in H. destruct H as [H H5]. apply andb_true_iff in H. destruct H as [H H4].
  apply andb_true_iff in H. destruct H as [H H3]. apply andb_true_iff in H. destruct H as [H1 H2].
  apply Z.eqb_eq in H1, H2, H3, H4. apply eqbL_true in H5. subst.
  f_equal. clear -IH H6. revert ks' H6. induction ks as [|x l IHl]; intros [|y l'] H; cbn [ikl_eqb] in H; try discriminate; [reflexivity|].
  apply andb_true_iff in H. destruct H as [A B]. rewrite (IH x y A), (IHl l' B). reflexivity.
Qed.
Lemma inl_eqb_refl : forall a, inl_eqb a a = true.
Proof.
  fix IH 1. intros [k s e i r ks]. rewrite inl_eqb_eq, !Z.eqb_refl. cbn [andb]. replace (eqbL r r) with true by (symmetry; apply eqbL_true; reflexivity). cbn [andb].
  induction ks as [|x l IHl]; [reflexivity|]. cbn [ikl_eqb]. rewrite (IH x), IHl. reflexivity.
Qed.
Lemma ikl_eqb_true : forall l l', ikl_eqb l l' = true -> l = l'.
Proof.
  induction l as [|x l IH]; intros [|y l'] H; cbn [ikl_eqb] in H; try discriminate; [reflexivity|].
  apply andb_true_iff in H. destruct H as [A B]. rewrite (inl_eqb_true x y A), (IH l' B). reflexivity.
Qed.
Lemma ikl_eqb_refl : forall l, ikl_eqb l l = true.
Proof. induction l as [|x l IH]; [reflexivity|]. cbn [ikl_eqb]. rewrite inl_eqb_refl, IH. reflexivity. Qed.

Definition memQ (L : list (Z * list inline)) (s : Z) (ik : list inline) : bool :=
  existsb (fun p => (fst p =? s) && ikl_eqb (snd p) ik) L.
Lemma memQ_sound L s ik : memQ L s ik = true -> In (s, ik) L.
Proof.
  unfold memQ. intros H. apply existsb_exists in H. destruct H as ([s' ik'] & Hin & H). cbn [fst snd] in H.
  apply andb_true_iff in H. destruct H as [A B]. apply Z.eqb_eq in A. apply ikl_eqb_true in B. subst. exact Hin.
Qed.
Lemma memQ_true L s ik : In (s, ik) L -> memQ L s ik = true.
Proof. intros H. unfold memQ. apply existsb_exists. exists (s, ik). split; [exact H|]. cbn [fst snd]. rewrite Z.eqb_refl, ikl_eqb_refl. reflexivity. Qed.

(* ---- the open paragraphs of a tree ---- *)
Fixpoint openPS (b : block) : list (Z * list inline) :=
  match b with Blk K s e bk ik _ _ _ _ _ =>
    (if (e <? 0) && isPSb K then [(s, ik)] else []) ++ flat_map openPS bk end.
Lemma openPS_eq b : openPS b = (if (bend b <? 0) && isPSb (bkind b) then [(bstart b, bik b)] else []) ++ flat_map openPS (bkids b).
Proof. destruct b; reflexivity. Qed.

Lemma la_good src M : M <= len src -> forall b, la src M b -> forall s ik, In (s, ik) (openPS b) -> GoodP src M s ik.
Proof.
  intros HM. fix IH 1. intros b Hla s ik Hin. rewrite openPS_eq in Hin. apply in_app_or in Hin. pose proof Hla as Hla'.
  rewrite la_eq in Hla'. destruct Hla' as (L1 & L2 & L3 & Lb & Lk). destruct Hin as [Hin|Hin].
  - destruct (Z.ltb_spec (bend b) 0) as [Lo|Lo]; [|destruct Hin]. destruct (isPSb (bkind b)) eqn:Ep; [|destruct Hin]. cbn [andb] in Hin.
    destruct Hin as [E|[]]. inversion E; subst s ik. clear E.
    assert (EK : bkind b = ParagraphKind).
    { unfold isPSb in Ep. apply orb_true_iff in Ep. destruct Ep as [Ep|Ep]; apply Z.eqb_eq in Ep; [exact Ep|exfalso; apply (L3 Lo), Ep]. }
    unfold body in Lb. rewrite EK in Lb. change (isLeafK ParagraphKind) with true in Lb. cbv iota in Lb. destruct Lb as (T & F & I0).
    assert (Eh : hiOf M b = M) by (unfold hiOf; destruct (Z.ltb_spec (bend b) 0); [reflexivity|lia]). rewrite Eh in T.
    split; [lia|]. split; [exact HM|]. split; [exact T|]. split; [apply (ENT_of_tile src (bstart b) M); [lia|exact HM|exact T|exact F]|apply I0; reflexivity].
  - destruct b as [K s0 e bk ik0 a n c l lb]. cbn [bkids] in *. clear -IH Lk Hin. induction bk as [|x r IHr]; [destruct Hin|].
    cbn [flat_map] in Hin. cbn [allQ] in Lk. destruct Lk as [A B]. apply in_app_or in Hin. destruct Hin as [Hin|Hin]; [apply (IH x A s ik Hin)|apply IHr; assumption].
Qed.

Lemma inv3_of_la src M L : forall b, la src M b -> (forall p, In p (openPS b) -> In p L) -> invD b = true -> inv3 (memQ L) src b = true.
Proof.
  fix IH 1. intros b Hla HL Hx. pose proof Hla as Hla'. rewrite la_eq in Hla'. destruct Hla' as (_ & _ & L3 & _ & Lk).
  apply invD_parts in Hx. destruct Hx as [Hx Hxk]. apply inv3_mk; [|exact Hx|].
  - unfold locQ3. destruct (Z.ltb_spec (bend b) 0) as [Lo|Lo]; [|reflexivity]. destruct (isPSb (bkind b)) eqn:Ep; [|reflexivity]. cbn [andb negb orb].
    rewrite (memQ_true L (bstart b) (bik b)), orb_true_r.
    + cbn [andb]. pose proof (L3 Lo) as N. apply Z.eqb_neq in N. rewrite N. reflexivity.
    + apply HL. rewrite openPS_eq. apply in_or_app. left. destruct (Z.ltb_spec (bend b) 0); [|lia]. rewrite Ep. left. reflexivity.
  - assert (HLk : forall c, In c (bkids b) -> forall p, In p (openPS c) -> In p L).
    { intros c Hc p Hp. apply HL. rewrite openPS_eq. apply in_or_app. right. apply in_flat_map. exists c. split; assumption. }
    destruct b as [K s0 e bk ik0 a n c l lb]. cbn [bkids] in *. clear -IH Lk Hxk HLk. unfold DefSpansOcp.inv3L. unfold invDL in Hxk.
    induction bk as [|x r IHr]; [reflexivity|]. cbn [forallb allQ] in *. destruct Lk as [A B]. apply andb_true_iff in Hxk. destruct Hxk as [C D].
    rewrite (IH x A (HLk x (or_introl eq_refl)) C). apply IHr; [exact D|exact B|intros c0 Hc0; apply HLk; right; exact Hc0].
Qed.

(* ---- one line, from the facts of the two drivers ---- *)
Lemma D_line src H ns st children ls : 0 <= H -> 0 <= ls <= len src -> ls + len (from_ src ls) = H -> len src <= H ->
  (ns = true -> hasByteSuffixEOL (from_ src ls) = true) -> bndL H ns children = true ->
  la src ls (docRoot children) -> invDL children = true -> invDL (fst (fst (processLine st children ls src))) = true.
Proof.
  intros H0 Hls Hhi Hsrc Hns Hb Hla Hx. apply docRoot_parts in Hla. destruct Hla as (_ & _ & Hq).
  set (L := flat_map openPS children).
  assert (Hmem : forall s ik, memQ L s ik = true -> GoodP src ls s ik).
  { intros s ik Hm. apply memQ_sound in Hm. unfold L in Hm. apply in_flat_map in Hm. destruct Hm as (b & Hb' & Hin).
    apply (la_good src ls ltac:(lia) b); [eapply allQ_In; eassumption|exact Hin]. }
  apply (D_processLine (memQ L) src ls Hmem H H0 ns st children ls); try assumption; try lia.
  unfold DefSpansOcp.inv3L. apply forallb_forall. intros b Hb'. apply (inv3_of_la src ls L b).
  - eapply allQ_In; eassumption.
  - intros p Hp. unfold L. apply in_flat_map. exists b. split; assumption.
  - unfold invDL in Hx. rewrite forallb_forall in Hx. apply Hx, Hb'.
Qed.

(* ---- the shift of the pending blocks ---- *)
Lemma ordX_shift n : forall l lo hi, 0 <= lo -> forallb vkid l = true -> ordered_inX lo hi l = true ->
  ordered_inX (lo + - n) (hi + - n) (map (shiftI (- n)) l) = true.
Proof.
  induction l as [|k r IH]; intros lo hi Hlo Hv H; [reflexivity|]. cbn [map ordered_inX forallb] in *.
  apply andb_true_iff in Hv. destruct Hv as [V Vr]. unfold vkid in V. apply Z.leb_le in V.
  apply andb_true_iff in H. destruct H as [H Hr]. apply andb_true_iff in H. destruct H as [A B]. apply Z.leb_le in A, B.
  destruct k as [kd a b ind rf ks]. cbn [shiftI istart iend] in *. destruct (Z.leb_spec 0 b); [|lia].
  rewrite (IH b hi ltac:(lia) Vr Hr), andb_true_r. apply andb_true_iff. split; apply Z.leb_le; lia.
Qed.
Lemma vkid_shift n l : (forall k, In k l -> 0 <= istart k) -> forallb vkid l = true -> forallb vkid (map (shiftI (- n)) l) = true.
Proof.
  intros H0 H. rewrite forallb_forall in *. intros x Hx. apply in_map_iff in Hx. destruct Hx as (k & <- & Hk). specialize (H k Hk). specialize (H0 k Hk).
  unfold vkid in *. apply Z.leb_le in H. destruct k as [kd a b ind rf ks]. cbn [shiftI istart iend] in *. destruct (Z.leb_spec 0 b); [|lia]. apply Z.leb_le. lia.
Qed.
Lemma ordX_starts : forall l lo hi k, ordered_inX lo hi l = true -> forallb vkid l = true -> In k l -> lo <= istart k.
Proof.
  induction l as [|x r IH]; intros lo hi k H Hv Hin0; [destruct Hin0|]. destruct Hin0 as [->|Hin]; cbn [ordered_inX forallb] in *.
  - apply andb_true_iff in H. destruct H as [H _]. apply andb_true_iff in H. destruct H as [A _]. apply Z.leb_le, A.
  - apply andb_true_iff in H. destruct H as [H Hr]. apply andb_true_iff in H. destruct H as [A _]. apply Z.leb_le in A.
    apply andb_true_iff in Hv. destruct Hv as [V Vr]. unfold vkid in V. apply Z.leb_le in V. specialize (IH _ _ k Hr Vr Hin). lia.
Qed.
Lemma entD_shift n u : 0 <= istart u -> entD u = true -> entD (shiftI (- n) u) = true.
Proof.
  intros H0 H. unfold entD in *. apply andb_true_iff in H. destruct H as [H V]. apply andb_true_iff in H. destruct H as [A O]. apply Z.leb_le in A.
  destruct u as [kd a b ind rf ks]. cbn [shiftI istart iend ikids] in *. destruct (Z.leb_spec 0 b); [|lia].
  rewrite (ordX_shift n ks a b H0 V O), (vkid_shift n ks (fun k Hk => Z.le_trans _ _ _ H0 (ordX_starts ks a b k O V Hk)) V), !andb_true_r. apply Z.leb_le. lia.
Qed.
Lemma ordX_entries n : forall l lo hi, 0 <= lo -> forallb entD l = true -> ordered_inX lo hi l = true ->
  ordered_inX (lo + - n) (hi + - n) (map (shiftI (- n)) l) = true /\ forallb entD (map (shiftI (- n)) l) = true.
Proof.
  induction l as [|u r IH]; intros lo hi Hlo Hd H; [split; reflexivity|]. cbn [map ordered_inX forallb] in *.
  apply andb_true_iff in Hd. destruct Hd as [D Dr]. apply andb_true_iff in H. destruct H as [H Hr]. apply andb_true_iff in H. destruct H as [A B]. apply Z.leb_le in A, B.
  assert (Hv : istart u <= iend u) by (unfold entD in D; apply andb_true_iff in D; destruct D as [D _]; apply andb_true_iff in D; destruct D as [D _]; apply Z.leb_le, D).
  rewrite (entD_shift n u ltac:(lia) D). destruct (IH (iend u) hi ltac:(lia) Dr Hr) as [I1 I2].
  destruct u as [kd a b ind rf ks]. cbn [shiftI istart iend] in *. destruct (Z.leb_spec 0 b); [|lia]. rewrite I1, I2, !andb_true_r. split; [|reflexivity].
  apply andb_true_iff. split; apply Z.leb_le; lia.
Qed.
Lemma invD_shift n : 0 <= n -> forall b, invD b = true -> invD (shiftB (- n) b) = true.
Proof.
  intros Hn. fix IH 1. intros [k s e bk ik a nn c l lb] H. cbn [invD] in H. apply andb_true_iff in H. destruct H as [Hx Hk].
  cbn [shiftB invD]. apply andb_true_iff. split.
  - clear Hk. unfold locD in *. cbn [bkind bstart bend bik] in *. destruct (k =? LinkReferenceDefinitionKind); [|reflexivity]. cbn [negb orb] in *.
    destruct (Z.leb_spec 0 (s + - n)) as [L|L]; [|reflexivity]. cbn [negb orb].
    destruct (Z.leb_spec 0 s) as [L'|L']; [|lia]. cbn [negb orb] in Hx. apply andb_true_iff in Hx. destruct Hx as [Hx D]. apply andb_true_iff in Hx. destruct Hx as [A O].
    apply Z.leb_le in A. destruct (Z.leb_spec 0 e); [|lia]. destruct (ordX_entries n ik s e L' D O) as [O' D']. rewrite O', D', !andb_true_r. apply Z.leb_le. lia.
  - clear Hx. induction bk as [|x r IHr]; [reflexivity|]. cbn [map forallb] in *. apply andb_true_iff in Hk. destruct Hk as [A B']. rewrite (IH x A), (IHr B'). reflexivity.
Qed.

(* ---- the stream layer: LA13's and L2BndS's drivers run side by side, with invD added ---- *)
Definition Gd : bytes -> Prop := fun _ => True.
Lemma Gd_ocp : forall src, Gd src -> OcpLoopSpec src. Proof. intros src _. apply OcpLoopSpec_all. Qed.
Lemma Gd_upto : forall (src : bytes) (n : Z), Gd src -> Gd (upto src n). Proof. intros; exact I. Qed.
Lemma Gd_from : forall (src : bytes) (n : Z), Gd src -> Gd (from_ src n). Proof. intros; exact I. Qed.

Definition okD (r : rootB) : Prop := invD (rb_blk r) = true.
Definition DS (s : bpst) : Prop := SL Gd s /\ (exists ns, SI s (pending s) ns) /\ invDL (pending s) = true.
Definition okND (x : nb) : Prop := match x with NBBlock r s' => okD r /\ DS s' | _ => True end.

Lemma D_makeRoot s children ns r s' : 0 <= bi s <= len (buf s) -> ccF children = true ->
  la (upto (buf s) (bi s)) (bi s) (docRoot children) -> bnd0 (buf s) (bi s) -> PadF (buf s) -> lbd (buf s) (bi s) ->
  SI s children ns -> invDL children = true -> makeRoot children s = Some (r, s') -> okD r /\ DS s'.
Proof.
  intros Hbi Hcc Hla Hbb Hpf Hlb HS Hx Hm.
  destruct (SL_makeRoot Gd Gd_upto Gd_from s children r s' Hbi I Hcc Hla Hbb Hpf Hlb Hm) as [_ HL].
  destruct (SI_makeRoot _ _ _ _ _ HS Hm) as [_ HS'].
  unfold makeRoot in Hm. destruct children as [|b rest]; [discriminate|].
  destruct (isOpen b) eqn:Eo; [discriminate|]. inversion Hm; subst. clear Hm. unfold isOpen in Eo. apply Z.ltb_ge in Eo.
  unfold invDL in Hx. cbn [forallb] in Hx. apply andb_true_iff in Hx. destruct Hx as [B1 B2].
  split; [exact B1|]. split; [exact HL|]. split; [exists ns; exact HS'|]. cbn [pending].
  unfold invDL. rewrite forallb_forall in *. intros x Hx. apply in_map_iff in Hx. destruct Hx as (y & <- & Hy). apply invD_shift; [exact Eo|apply B2, Hy].
Qed.

Lemma D_lineLoop : forall fuel st children ls s ns, 0 <= ls <= len (buf s) -> bi s = lineEnd (buf s) ls -> ccF children = true ->
  la (upto (buf s) (bi s)) ls (docRoot children) -> bnd0 (buf s) ls -> PadF (buf s) ->
  (st = stDescendTerminated -> exists c1, getAt 1 (docRoot children) = Some c1 /\ bend c1 < 0 /\ hasMatch (bkind c1) = true) ->
  bndL ls ns children = true -> (ns = false -> ls = len (buf s)) -> invDL children = true ->
  okND (lineLoop fuel st children ls s).
Proof.
  induction fuel as [|f IH]; intros st children ls s ns Hls Hbi Hcc Hla Hb0 Hpf Hst Hc Hn Hx; [exact I|]. cbn [lineLoop].
  destruct (lineEnd_spec (buf s) ls Hls) as [A B]. rewrite <- Hbi in A, B.
  set (src := upto (buf s) (bi s)) in *.
  assert (Hlen : len src = bi s) by (apply len_upto; lia).
  assert (Hlbi : lbd (buf s) (bi s)).
  { destruct (Z.eq_dec (bi s) (len (buf s))) as [E|N]; [right; left; exact E|]. destruct (B ltac:(lia)) as [B1 B2]. right; right. exact B2. }
  pose proof (lbd_bnd0 _ _ Hlbi) as Hbbi.
  set (ln := from_ src ls).
  destruct (line_of (buf s) ls (bi s) ltac:(lia) ltac:(lia)) as [Ll _]. fold src in Ll. fold ln in Ll.
  set (ns' := if ns then hasByteSuffixEOL ln else false).
  assert (Hc' : bndL (bi s) ns' children = true).
  { unfold ns'. destruct ns.
    - pose proof (bndL_mono ls (bi s) children ltac:(lia) Hc) as Hm. destruct (hasByteSuffixEOL ln); [exact Hm|apply bndL_weaken, Hm].
    - rewrite (Hn eq_refl) in *. replace (bi s) with (len (buf s)) by lia. exact Hc. }
  assert (Hn' : ns' = false -> bi s = len (buf s)).
  { unfold ns'. destruct ns; [|intros _; rewrite (Hn eq_refl) in *; lia].
    intros Ee. destruct (Z.lt_ge_cases (bi s) (len (buf s))) as [Lt|Ge]; [|lia].
    exfalso. rewrite Hbi in Lt. pose proof (line_hasEOL (buf s) ls Hls Lt) as Hh. rewrite <- Hbi in Hh. fold src in Hh. fold ln in Hh. congruence. }
  assert (Hnsc : ns' = true -> hasByteSuffixEOL (from_ src ls) = true) by (unfold ns'; fold ln; destruct ns; [tauto|discriminate]).
  assert (Hll : ls + len (from_ src ls) = bi s) by (fold ln; lia).
  pose proof (la_processLine st children ls src ltac:(lia) (Gd_ocp _ I)
                ltac:(unfold src; apply bnd0_upto; [lia|lia|exact Hb0|intros El; lia])
                ltac:(unfold src; rewrite Hbi; apply eolEnd_line, Hls) Hcc Hla Hst) as HP.
  pose proof (cc_processLine st children ls src Hcc) as H3. cbv zeta in HP. rewrite Hll in HP.
  pose proof (bnd_processLine (bi s) ns' st children ls src ltac:(lia) ltac:(lia) Hll ltac:(lia) Hnsc Hc') as H1.
  pose proof (D_line src (bi s) ns' st children ls ltac:(lia) ltac:(lia) Hll ltac:(lia) Hnsc Hc' Hla Hx) as H6.
  destruct (processLine st children ls src) as [[children' st'] pn]. cbn [fst snd] in HP, H3, H1, H6. destruct HP as [HP1 HP2].
  destruct (negb (pn =? 0)); [exact I|].
  assert (HS : SI s children' ns') by (repeat split; try lia; assumption).
  destruct (makeRoot children' s) as [[r s']|] eqn:Em.
  - cbn [okND]. apply (D_makeRoot s children' ns' r s'); try assumption. lia.
  - assert (Hls' : 0 <= bi s <= len (buf s)) by lia. destruct (lineEnd_spec (buf s) (bi s) Hls') as [A' _].
    apply (IH st' children' (bi s) _ ns'); cbn [buf bi]; try assumption; try reflexivity; try lia.
    + apply (la_agree src); [apply agree_upto; lia| | |exact HP1]; [intros e0 He0 Hbe0; unfold src in Hbe0; apply (bnd0_grow (buf s) (bi s)); try lia; assumption|].
      apply growOK_upto; [lia|lia|exact Hlbi|]. intros El. destruct (lineEnd_spec (buf s) (bi s) Hls') as [A2 _]. lia.
    + intros Est. destruct (HP2 Est) as (c1 & E1 & E2). exists c1. split; [exact E1|].
      unfold makeRoot in Em. destruct children' as [|b rest]; [cbn in E1; discriminate|].
      destruct (isOpen b) eqn:Eo; [|discriminate]. unfold isOpen in Eo. apply Z.ltb_lt in Eo.
      apply docRoot_parts in HP1. destruct HP1 as (_ & Hch & _). cbn [tchain] in Hch. destruct Hch as (_ & _ & Hch).
      destruct (Z.ltb_spec (bend b) 0); [|lia]. destruct Hch as [_ ->]. cbn in E1. inversion E1; subst c1. split; [exact Eo|apply E2, Eo].
Qed.

Lemma D_skipLoop : forall fuel s, bi s = 0 -> PadF (buf s) -> okND (skipLoop fuel s).
Proof.
  induction fuel as [|f IH]; intros s Hb Hpf; [exact I|]. cbn [skipLoop]. cbv zeta.
  pose proof (len_nonneg (buf s)) as Hl.
  destruct (negb _); [exact I|]. destruct (isBlankLine _).
  { apply IH; [reflexivity|]. cbn [buf]. destruct (lineEnd_spec (buf s) (bi s) ltac:(lia)) as [A B].
    apply (PadF_cut (buf s) _ Hpf); [lia|]. destruct (Z.eq_dec (lineEnd (buf s) (bi s)) (len (buf s))) as [E|N]; [right; left; exact E|].
    destruct (B ltac:(lia)) as [B1 B2]. right; right. unfold isEOLb in B2. apply orb_true_iff in B2. destruct B2 as [B2|B2]; apply Z.eqb_eq in B2; rewrite B2; discriminate. }
  apply (D_lineLoop f 0 [] 0 _ true); cbn [buf bi]; [lia|rewrite Hb; reflexivity|reflexivity| |left; reflexivity|exact Hpf|discriminate|reflexivity|discriminate|reflexivity].
  apply docRoot_parts. split; [lia|]. split; [cbn [tchain]; split; [lia|apply NT_empty; lia]|exact I].
Qed.

Lemma D_nextBlock fuel s : DS s -> okND (nextBlock fuel s).
Proof.
  intros ((Hb & Hg & Hcc & Hla & Hbb & Hpf & Hlb) & (ns & HS) & Hx). unfold nextBlock. destruct (makeRoot (pending s) s) as [[r s']|] eqn:Em.
  - cbn [okND]. apply (D_makeRoot s (pending s) ns r s'); assumption.
  - destruct (pending s) as [|b0 rest] eqn:Ep; [apply D_skipLoop; [reflexivity|apply (PadF_cut (buf s) (bi s) Hpf Hb Hbb)]|].
    destruct (lineEnd_spec (buf s) (bi s) Hb) as [A' _]. destruct HS as (S1 & S2 & S3).
    apply (D_lineLoop fuel 0 (b0 :: rest) (bi s) _ ns); cbn [buf bi]; try assumption; try reflexivity; [|discriminate].
    apply (la_agree (upto (buf s) (bi s))); [apply agree_upto; lia| | |exact Hla]; [intros e0 He0 Hbe0; apply (bnd0_grow (buf s) (bi s)); try lia; assumption|].
    apply growOK_upto; [lia|lia|exact Hlb|]. intros El. lia.
Qed.

Lemma D_allBlocks : forall fuel s acc, DS s -> Forall okD acc -> Forall okD (fst (allBlocks fuel s acc)).
Proof.
  induction fuel as [|f IH]; intros s acc HS Ha; [exact Ha|]. cbn [allBlocks].
  pose proof (D_nextBlock (3 + length (buf s)) s HS) as Hn.
  destruct (nextBlock _ s) as [r s'| | |]; try exact Ha.
  destruct Hn as [Hr Hs']. apply IH; [exact Hs'|]. apply Forall_app. split; [exact Ha|]. constructor; [exact Hr|constructor].
Qed.

Theorem parseBlocks_invD input : Forall (fun r => invD (rb_blk r) = true) (fst (parseBlocks input)).
Proof.
  unfold parseBlocks. apply D_allBlocks; [|constructor]. pose proof (len_nonneg (pad input)) as Hl.
  split; [|split; [exists true; unfold SI; cbn [buf bi pending]; repeat split; try lia|reflexivity]].
  split; [cbn [buf bi]; lia|]. split; [exact I|]. split; [reflexivity|].
  split; [|split; [left; reflexivity|split; [exists input; reflexivity|left; reflexivity]]]. cbn [buf bi pending]. apply docRoot_parts. split; [lia|]. split; [cbn [tchain]; split; [lia|apply NT_empty; lia]|exact I].
Qed.
Print Assumptions parseBlocks_invD.
