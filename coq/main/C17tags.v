(* C17tags.v — C17, second clause, for whole documents: after tag filtering no rejected start tag can be seen by an HTML tokenizer.

   RESULT.  The statement as asked (C17_no_rejected_start_doc_statement, for ARBITRARY trees b) is FALSE
   (C17_no_rejected_start_doc_statement_false): the renderer filters each raw-HTML node on its own and copies
   character-reference / soft-line-break spans verbatim, so a tree can spell "<script>" across two leaves or inside a verbatim leaf.
   It is proved under the boolean side condition   chkB fuel c refs src pt b [] = true   (C17chk.v):
       C17_no_rejected_start_doc_partial       (renderB, any fuel / parentTight / block)
       C17_no_rejected_start_renderDoc_partial (renderDoc c input, side condition chkDoc c input = true)
   The side condition is exact for the output invariant ltokb (C17exact.v: chkB_exact), does not depend on the predicate
   (chkB_setP), holds for the case "HTML block without final line ending followed by </blockquote>" and for the whole
   specification corpus (C17examples.v), and follows from a purely local condition on the leaves (C17local.v).
   NOT proved: that every tree the parser produces satisfies the side condition (chkDoc c input = true for all input). *)
From Coq Require Import List ZArith Lia Bool.
Import ListNotations.
Require Import Base Tables Utf8 Tree Recog Inl3b Driver Inl3e Render Safe MainTok C17bytes C17chk.
Open Scope Z_scope.

Lemma lowname_lit n : startsLetter n = true -> forallb nameCh n = true -> map toLowerASCII n = n -> lowname n.
Proof. intros; repeat split; assumption. Qed.
Ltac lown := apply lowname_lit; reflexivity.

Lemma hTag_cases l : hTag l = [104;49] \/ hTag l = [104;50] \/ hTag l = [104;51] \/ hTag l = [104;52] \/ hTag l = [104;53] \/ hTag l = [104;54].
Proof.
  unfold hTag. destruct (Z.leb_spec 1 l); cbn [andb]; [|tauto]. destruct (Z.leb_spec l 5); [|tauto].
  assert (l = 1 \/ l = 2 \/ l = 3 \/ l = 4 \/ l = 5) as [->|[->|[->|[->| ->]]]] by lia; tauto.
Qed.
Lemma hTag_lowname l : lowname (hTag l).
Proof. destruct (hTag_cases l) as [->|[->|[->|[->|[->| ->]]]]]; lown. Qed.
Lemma hTag_nolt l : nolt (hTag l) = true.
Proof. destruct (hTag_cases l) as [->|[->|[->|[->|[->| ->]]]]]; reflexivity. Qed.

Lemma ok_attr p n v t : nolt n = true -> nolt v = true -> ltokb p t = true -> ltokb p (attr n v ++ t) = true.
Proof. intros Hn Hv Ht. apply ok_nolt; [|exact Ht]. unfold attr. rewrite !nolt_app, Hn, Hv. reflexivity. Qed.

Section R.
  Variable c : cfg.
  Variable refs : list (bytes * linkDef).
  Variable src : bytes.
  Hypothesis Hon : filterOn c = true.
  Let p := filterP c.

  Lemma chkAlt_ok : forall fuel i t, chkAlt fuel src i t = true -> ltokb p t = true -> ltokb p (altText fuel src i ++ t) = true.
  Proof.
    induction fuel as [|f IH]; intros i t; [intros _ Ht; exact Ht|]. cbn [altText chkAlt]. cbv zeta.
    destruct (ikind i =? TextKind).
    { intros _ Ht. apply ok_nolt; [apply inertb_nolt, escapeHTML_inert|exact Ht]. }
    destruct (ikind i =? CharacterReferenceKind).
    { intros Hc Ht. apply ok_verb; assumption. }
    destruct ((ikind i =? IndentKind) || (ikind i =? SoftLineBreakKind) || (ikind i =? HardLineBreakKind)).
    { intros _ Ht. apply ok_nolt; [reflexivity|exact Ht]. }
    destruct ((ikind i =? LinkDestinationKind) || (ikind i =? LinkTitleKind) || (ikind i =? LinkLabelKind)).
    { intros _ Ht. exact Ht. }
    apply ok_chkL. intros x _. apply IH.
  Qed.

  (* one output piece at a time, left to right *)
  Ltac piece Hk :=
    match goal with
    | H : ltokb _ ?t = true |- ltokb _ ?t = true => exact H
    | |- ltokb _ (openTag c _ ++ _) = true => apply (ok_openTag c Hon); [match goal with |- lowname (hTag _) => apply hTag_lowname | _ => lown end|]
    | |- ltokb _ (closeTag c _ ++ _) = true => apply (ok_closeTag c); [match goal with |- nolt (hTag _) = true => apply hTag_nolt | _ => reflexivity end|]
    | |- ltokb _ (attr _ _ ++ _) = true => apply ok_attr; [reflexivity|apply inertb_nolt, escapeString_inert|]
    | |- ltokb _ (escapeString _ ++ _) = true => apply ok_nolt; [apply inertb_nolt, escapeString_inert|]
    | |- ltokb _ (escapeHTML _ ++ _) = true => apply ok_nolt; [apply inertb_nolt, escapeHTML_inert|]
    | |- ltokb _ ((if ?b then _ else _) ++ _) = true => destruct b
    | |- ltokb ?q ([] ++ ?x) = true => change (ltokb q x = true)
    | |- ltokb _ (flat_map _ _ ++ _) = true => apply Hk; [assumption|]
    | |- ltokb _ (match bkids _ with [] => _ | _ :: _ => _ end ++ _) = true => apply Hk; [assumption|]
    | |- ltokb _ ((_ :: _) ++ _) = true => apply ok_nolt; [reflexivity|]
    | |- ltokb _ (s_alt ++ _) = true => apply ok_nolt; [reflexivity|]
    | |- ltokb _ (s_href ++ _) = true => apply ok_nolt; [reflexivity|]
    end.

  Lemma chkI_ok : forall fuel i t, chkI fuel c refs src i t = true -> ltokb p t = true -> ltokb p (renderI fuel c refs src i ++ t) = true.
  Proof.
    induction fuel as [|f IH]; intros i t; [intros _ Ht; exact Ht|]. cbn [renderI chkI]. cbv zeta.
    assert (Hk : forall t', chkL (renderI f c refs src) (chkI f c refs src) (ikids i) t' = true -> ltokb p t' = true ->
                 ltokb p (flat_map (renderI f c refs src) (ikids i) ++ t') = true).
    { apply ok_chkL. intros x _. apply IH. }
    destruct ((ikind i =? TextKind) || (ikind i =? UnparsedKind)).
    { intros _ Ht. piece Hk. piece Hk. }
    destruct (ikind i =? CharacterReferenceKind).
    { intros Hc Ht. apply ok_verb; assumption. }
    destruct (ikind i =? RawHTMLKind).
    { destruct (ignoreRaw c); [intros _ Ht; exact Ht|]. rewrite Hon. intros Hc Ht. apply (ok_filterRaw c); assumption. }
    destruct (ikind i =? SoftLineBreakKind).
    { destruct (softBreak c =? 2); [intros _ Ht; rewrite <- app_assoc; repeat (piece Hk)|].
      destruct (softBreak c =? 1); [intros _ Ht; repeat (piece Hk)|].
      destruct (0 <? iend i - istart i); [intros Hc Ht; apply ok_verb; assumption|intros _ Ht; repeat (piece Hk)]. }
    destruct (ikind i =? HardLineBreakKind).
    { intros _ Ht. rewrite <- app_assoc. repeat (piece Hk). }
    destruct (ikind i =? EmphasisKind).
    { intros Hc Ht. rewrite <- !app_assoc. piece Hk. repeat (piece Hk). }
    destruct (ikind i =? StrongKind).
    { intros Hc Ht. rewrite <- !app_assoc. piece Hk. repeat (piece Hk). }
    destruct (ikind i =? CodeSpanKind).
    { intros Hc Ht. rewrite <- !app_assoc. piece Hk. repeat (piece Hk). }
    destruct (ikind i =? LinkKind).
    { intros Hc Ht. rewrite <- !app_assoc.
      apply (ok_openTagAttr c Hon); [lown|reflexivity|].
      repeat (piece Hk). }
    destruct (ikind i =? ImageKind).
    { intros Hc Ht. rewrite <- !app_assoc.
      apply (ok_openTagAttr c Hon); [lown|reflexivity|].
      piece Hk.
      assert (Halt : ltokb p (attr s_alt (altText (isize i) src i) ++ [62] ++ t) = true).
      { unfold attr. rewrite <- !app_assoc. piece Hk. piece Hk. piece Hk. apply chkAlt_ok; [exact Hc|]. cbn [app]. rewrite !ltokb_cons_other by reflexivity. exact Ht. }
      piece Hk; [piece Hk|cbn [app]]; exact Halt. }
    destruct (ikind i =? AutolinkKind).
    { intros _ Ht. rewrite <- !app_assoc.
      apply (ok_openTagAttr c Hon); [lown|reflexivity|]. repeat (piece Hk). }
    destruct (ikind i =? IndentKind).
    { intros _ Ht. apply ok_nolt; [apply inertb_nolt, repeat_space_inert|exact Ht]. }
    destruct (ikind i =? HTMLTagKind).
    { intros Hc Ht. apply Hk; assumption. }
    intros _ Ht. exact Ht.
  Qed.

  Lemma chkB_ok : forall fuel pt b t, chkB fuel c refs src pt b t = true -> ltokb p t = true -> ltokb p (renderB fuel c refs src pt b ++ t) = true.
  Proof.
    induction fuel as [|f IH]; intros pt b t; [intros _ Ht; exact Ht|]. cbn [renderB chkB]. cbv zeta.
    assert (Hk : forall t',
      (match bkids b with
       | [] => chkL (fun i => renderI (isize i) c refs src i) (fun i => chkI (isize i) c refs src i) (bik b)
       | _ :: _ => chkL (renderB f c refs src (isTightList b)) (chkB f c refs src (isTightList b)) (bkids b) end) t' = true ->
      ltokb p t' = true ->
      ltokb p ((match bkids b with
                | [] => flat_map (fun i => renderI (isize i) c refs src i) (bik b)
                | _ :: _ => flat_map (renderB f c refs src (isTightList b)) (bkids b) end) ++ t') = true).
    { destruct (bkids b) as [|b0 bs].
      - apply ok_chkL. intros x _. apply chkI_ok.
      - apply ok_chkL. intros x _. apply IH. }
    destruct (bkind b =? ParagraphKind).
    { destruct pt; intros Hc Ht; [apply Hk; assumption|]. rewrite <- !app_assoc. repeat (piece Hk). }
    destruct (bkind b =? ThematicBreakKind).
    { intros _ Ht. repeat (piece Hk). }
    destruct (isHeading (bkind b)).
    { intros Hc Ht. rewrite <- !app_assoc. repeat (piece Hk). }
    destruct (isCode (bkind b)).
    { intros Hc Ht. rewrite <- !app_assoc. piece Hk.
      match goal with |- ltokb _ (openTagAttr c _ ++ ?cls ++ _) = true => set (CLS := cls) end.
      assert (HC : CLS = [] \/ exists w, CLS = [32;99;108;97;115;115;61;34;108;97;110;103;117;97;103;101;45] ++ escapeString w ++ [34]).
      { unfold CLS. destruct (bkind b =? FencedCodeBlockKind); [|left; reflexivity].
        destruct (bik b) as [|i0 rest]; [left; reflexivity|]. destruct (ikind i0 =? InfoStringKind); [|left; reflexivity].
        destruct (0 <? len _); [right; eexists; reflexivity|left; reflexivity]. }
      clearbody CLS. destruct HC as [->|[w ->]].
      - apply (ok_openTagAttr c Hon); [lown|reflexivity|]. repeat (piece Hk).
      - apply (ok_openTagAttr c Hon); [lown|reflexivity|]. rewrite <- !app_assoc. repeat (piece Hk). }
    destruct (bkind b =? BlockQuoteKind).
    { intros Hc Ht. rewrite <- !app_assoc. repeat (piece Hk). }
    destruct (bkind b =? ListKind).
    { destruct (isOrdered b); intros Hc Ht; rewrite <- !app_assoc; [|repeat (piece Hk)].
      set (N := match bkids b with it :: _ => listItemNumber src it | [] => -1 end).
      destruct ((0 <=? N) && negb (N =? 1)) eqn:EN.
      - apply andb_true_iff in EN. destruct EN as [EN _]. apply Z.leb_le in EN.
        apply (ok_openTagAttr c Hon); [lown|reflexivity|]. rewrite <- !app_assoc.
        piece Hk. apply ok_nolt; [apply inertb_nolt, decimal_inert; exact EN|]. repeat (piece Hk).
      - apply (ok_openTagAttr c Hon); [lown|reflexivity|]. repeat (piece Hk). }
    destruct (bkind b =? ListItemKind).
    { intros Hc Ht. rewrite <- !app_assoc. repeat (piece Hk). }
    destruct (bkind b =? HTMLBlockKind).
    { destruct (ignoreRaw c); intros Hc Ht; [exact Ht|apply Hk; assumption]. }
    intros _ Ht. exact Ht.
  Qed.
End R.

(* ================= main results ================= *)

(* The statement as asked. *)
Definition C17_no_rejected_start_doc_statement : Prop :=
  forall c refs src fuel pt b, filterOn c = true -> prefix_closed (filterP c) ->
    forall n, In n (start_tags (renderB fuel c refs src pt b)) -> filterP c n = false.

(* What is proved: the statement under the boolean side condition  chkB fuel c refs src pt b [] = true  (C17chk.v). *)
Theorem C17_ltok_doc c refs src fuel pt b : filterOn c = true ->
  chkB fuel c refs src pt b [] = true -> ltokb (filterP c) (renderB fuel c refs src pt b) = true.
Proof.
  intros Hon Hc. rewrite <- (app_nil_r (renderB fuel c refs src pt b)). apply chkB_ok; [exact Hon|exact Hc|reflexivity].
Qed.

Theorem C17_no_rejected_start_doc_partial : forall c refs src fuel pt b, filterOn c = true -> prefix_closed (filterP c) ->
  chkB fuel c refs src pt b [] = true ->
  forall n, In n (start_tags (renderB fuel c refs src pt b)) -> filterP c n = false.
Proof.
  intros c refs src fuel pt b Hon Hpc Hc. apply ltokb_no_rejected_start; [exact Hpc|]. apply C17_ltok_doc; assumption.
Qed.
Print Assumptions C17_no_rejected_start_doc_partial.

(* Whole documents: renderDoc joins the root blocks with two line feeds. *)
Lemma ok_chkJoin {A} p (g : A -> bytes) (chk : A -> bytes -> bool) :
  (forall x t, chk x t = true -> ltokb p t = true -> ltokb p (g x ++ t) = true) ->
  forall l, chkJoin g chk l = true -> ltokb p (joinBlocks (map g l)) = true.
Proof.
  intros H. induction l as [|x r IH]; intros Hc; [reflexivity|]. destruct r as [|y r].
  - cbn [map joinBlocks]. cbn [chkJoin] in Hc. rewrite <- (app_nil_r (g x)). apply H; [exact Hc|reflexivity].
  - change (chkJoin g chk (x :: y :: r)) with (chk x ([10; 10] ++ joinBlocks (map g (y :: r))) && chkJoin g chk (y :: r)) in Hc.
    apply andb_true_iff in Hc. destruct Hc as [H1 H2].
    change (joinBlocks (map g (x :: y :: r))) with (g x ++ [10; 10] ++ joinBlocks (map g (y :: r))).
    apply H; [exact H1|]. apply ok_nolt; [reflexivity|]. apply IH. exact H2.
Qed.

Theorem C17_no_rejected_start_renderDoc_partial : forall c input, filterOn c = true -> prefix_closed (filterP c) ->
  chkDoc c input = true ->
  forall n, In n (start_tags (renderDoc c input)) -> filterP c n = false.
Proof.
  intros c input Hon Hpc Hc. apply ltokb_no_rejected_start; [exact Hpc|].
  unfold renderDoc, chkDoc in *. destruct (parseFull input) as [roots code]. unfold chkRoots in Hc.
  revert Hc. apply ok_chkJoin. intros x t. apply chkB_ok. exact Hon.
Qed.
Print Assumptions C17_no_rejected_start_renderDoc_partial.

(* ---- the side condition cannot be dropped: the statement as asked is false for arbitrary trees ---- *)
Definition cx_script : bytes := [115;99;114;105;112;116].
Definition cx_p (n : bytes) : bool := if list_eq_dec Z.eq_dec n cx_script then true else false.
Definition cx_cfg : cfg := {| softBreak := 0; ignoreRaw := false; filterOn := true; filterP := cx_p |}.
Definition cx_src : bytes := [60;115;99;114;105;112;116;62].      (* "<script>" *)
(* a paragraph whose inline children are two raw-HTML nodes "<scr" and "ipt>" (no parser produces this) *)
Definition cx_split : block := Blk ParagraphKind 0 8 [] [Inl RawHTMLKind 0 4 0 [] []; Inl RawHTMLKind 4 8 0 [] []] 0 0 0 false false.
(* a paragraph whose inline child is a character-reference node spanning "<script>" (copied verbatim by the renderer) *)
Definition cx_verb : block := Blk ParagraphKind 0 8 [] [Inl CharacterReferenceKind 0 8 0 [] []] 0 0 0 false false.

Lemma cx_prefix_closed : prefix_closed cx_p.
Proof.
  intros n H. unfold cx_p in *. destruct (list_eq_dec Z.eq_dec n cx_script) as [->|]; [reflexivity|discriminate].
Qed.
Lemma cx_split_out : renderB 1 cx_cfg [] cx_src false cx_split = [60;112;62] ++ cx_src ++ [60;47;112;62].   (* "<p><script></p>" *)
Proof. vm_compute. reflexivity. Qed.
Lemma cx_split_tags : start_tags (renderB 1 cx_cfg [] cx_src false cx_split) = [[112]; cx_script].
Proof. vm_compute. reflexivity. Qed.
Lemma cx_split_chk : chkB 1 cx_cfg [] cx_src false cx_split [] = false.
Proof. vm_compute. reflexivity. Qed.
Lemma cx_verb_tags : start_tags (renderB 1 cx_cfg [] cx_src false cx_verb) = [[112]; cx_script].
Proof. vm_compute. reflexivity. Qed.
Lemma cx_verb_chk : chkB 1 cx_cfg [] cx_src false cx_verb [] = false.
Proof. vm_compute. reflexivity. Qed.

Theorem C17_no_rejected_start_doc_statement_false : ~ C17_no_rejected_start_doc_statement.
Proof.
  intros H. specialize (H cx_cfg [] cx_src 1%nat false cx_split eq_refl cx_prefix_closed cx_script).
  rewrite cx_split_tags in H. specialize (H (or_intror (or_introl eq_refl))). vm_compute in H. discriminate.
Qed.
Print Assumptions C17_no_rejected_start_doc_statement_false.
