(* T63-F1 (D2).  Copy of En3Info.v over the invariant EolFinalFullHbE4Tree.en = En3Tree.en plus one clause (lastX): the last entry of a
   PARAGRAPH holds a byte that is not space / tab / line ending, and once the paragraph is closed it ends at the end of the block.
   Changes w.r.t. En3Info.v: module names; the places that build or use that clause; closing lemmas take "a paragraph is open -> e = lineStart". *)
From Coq Require Import List ZArith Lia Bool.
Import ListNotations.
Require Import Base Tables Utf8 Tree Rdr Link Collect LP Rules Driver Props Rec17 Rec18 LADef LA1 LARpce LAInfo.
Require Import ShapesBase EolFinalFullHbE4Tree.
Open Scope Z_scope.

(* ================================================================================================
   T46 (3), part: the children of an InfoString entry (parseInfoString) are leaves inside the entry, and every byte of the
   entry that is not the backslash of an escape lies in one of them; in particular every textual (or NUL) byte does.
   ================================================================================================ *)
Definition covK (ks : list inline) (p : Z) : Prop := exists k, In k ks /\ istart k <= p < iend k.
Lemma covK_app_l a b p : covK a p -> covK (a ++ b) p.
Proof. intros (k & H1 & H2). exists k. split; [apply in_or_app; left; exact H1|exact H2]. Qed.
Lemma covK_app_r a b p : covK b p -> covK (a ++ b) p.
Proof. intros (k & H1 & H2). exists k. split; [apply in_or_app; right; exact H1|exact H2]. Qed.
Lemma covK_one k s e p : s <= p < e -> covK [mkI k s e] p.
Proof. intros H. exists (mkI k s e). split; [left; reflexivity|exact H]. Qed.

(* what the loop keeps: the nodes so far are leaves inside [s, ps], and they hold every textual byte of [s, ps) *)
Definition accOK (src : bytes) (s ps : Z) (acc : list inline) : Prop :=
  s <= ps /\
  (forall k, In k acc -> ikids k = [] /\ s <= istart k /\ istart k <= iend k /\ iend k <= ps) /\
  (forall p, s <= p < ps -> txz (at_ src p) = true -> covK acc p).
Lemma accOK_snoc src s ps acc k a b : accOK src s ps acc -> ps <= a -> a <= b ->
  (forall p, ps <= p < a -> txz (at_ src p) = false) -> accOK src s b (acc ++ [mkI k a b]).
Proof.
  intros (A0 & A1 & A2) Ha Hb Hgap. split; [lia|split].
  - intros x Hx. apply in_app_or in Hx. destruct Hx as [Hx|[<-|[]]].
    + destruct (A1 x Hx) as (X1 & X2 & X3 & X4). repeat split; try assumption; lia.
    + cbn [mkI ikids istart iend]. repeat split; try reflexivity; lia.
  - intros p Hp Ht. destruct (Z.lt_ge_cases p ps) as [L|L]; [apply covK_app_l, A2; [lia|exact Ht]|].
    destruct (Z.lt_ge_cases p a) as [L2|L2]; [rewrite Hgap in Ht by lia; discriminate|]. apply covK_app_r, covK_one. lia.
Qed.
(* flushing the plain text before position i *)
Lemma accOK_flush src s ps acc i : accOK src s ps acc -> ps <= i ->
  accOK src s i (if ps <? i then acc ++ [mkI TextKind ps i] else acc).
Proof.
  intros H Hi. destruct (Z.ltb_spec ps i) as [L|L].
  - apply (accOK_snoc src s ps acc TextKind ps i H); [lia|lia|intros; lia].
  - replace i with ps by lia. exact H.
Qed.

Lemma isl_cov src s e : forall fuel i ps acc, ps <= i -> i <= e -> accOK src s ps acc ->
  let res := infoString_loop fuel src i e ps acc in snd res <= e /\ accOK src s (snd res) (fst res).
Proof.
  induction fuel as [|f IH]; intros i ps acc Hps Hie Ha; cbv zeta; cbn [infoString_loop].
  { cbn [fst snd]. split; [lia|exact Ha]. }
  destruct (Z.leb_spec e i) as [L|L]; [cbn [fst snd]; split; [lia|exact Ha]|].
  destruct (Z.eqb_spec (at_ src i) 92) as [E92|N92].
  - destruct ((e <=? i + 1) || negb (isASCIIPunctuation (at_ src (i + 1)))) eqn:Ee; [apply IH; [lia|lia|exact Ha]|].
    apply orb_false_iff in Ee. destruct Ee as [Ee _]. apply Z.leb_gt in Ee.
    apply IH; [lia|lia|].
    apply (accOK_snoc src s i _ TextKind (i + 1) (i + 2)); [apply accOK_flush; [exact Ha|lia]|lia|lia|].
    intros p Hp. replace p with i by lia. rewrite E92. reflexivity.
  - destruct (at_ src i =? 38); [|apply IH; [lia|lia|exact Ha]].
    destruct (Z.ltb_spec (parseCharacterEscape (sub src i e)) 0) as [Ln|Ln]; [apply IH; [lia|lia|exact Ha]|].
    destruct (pce_spec _ Ln) as [[P1 P2] _]. pose proof (LAInfo.len_sub_le src i e ltac:(lia)) as Hl.
    apply IH; [lia|lia|].
    apply (accOK_snoc src s i _ CharacterReferenceKind i (i + parseCharacterEscape (sub src i e))); [apply accOK_flush; [exact Ha|lia]|lia|lia|intros; lia].
Qed.

Theorem info_spec src s e : s <= e -> infoC src (parseInfoString src s e).
Proof.
  intros Hse. unfold parseInfoString.
  pose proof (isl_cov src s e (S (Z.to_nat (e - s))) s s [] ltac:(lia) Hse) as H. cbv zeta in H.
  destruct (infoString_loop _ src s e s []) as [acc ps]. cbn [fst snd] in H.
  destruct H as (H1 & H0 & H2 & H3).
  { split; [lia|split; [intros k []|intros p Hp; lia]]. }
  set (ks := if ps <? e then acc ++ [mkI TextKind ps e] else acc).
  assert (Hks : accOK src s e ks).
  { unfold ks. apply accOK_flush; [split; [exact H0|split; assumption]|exact H1]. }
  destruct Hks as (K0 & K1 & K2).
  unfold infoC. cbn [istart iend ikids]. split; [|split; [exact Hse|split]].
  - intros k Hk. apply (K1 k Hk).
  - intros k Hk. destruct (K1 k Hk) as (_ & X2 & X3 & _). split; assumption.
  - intros p Hp Ht. apply (K2 p Hp Ht).
Qed.
Print Assumptions info_spec.

(* the same against a buffer that agrees with the source on the entry *)
Lemma infoC_agree src B u : infoC src u -> (forall p, istart u <= p < iend u -> at_ B p = at_ src p) -> infoC B u.
Proof.
  intros (A1 & A2 & A3 & A4) Hag. split; [exact A1|split; [exact A2|split; [exact A3|]]].
  intros p Hp Ht. rewrite (Hag p Hp) in Ht. apply (A4 p Hp Ht).
Qed.
