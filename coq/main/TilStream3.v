From Coq Require Import List ZArith Lia Bool.
Import ListNotations.
Require Import Base Tables Utf8 Tree Rdr Link Collect Html Recog LP Rules Starts Driver Render L2Kind L2CC L2Bnd L2BndS GramDefs GramTree GramLP4 GramBlocks
  Rec17 Rec18 Cursor C01a C01b Props BSDef BSRdr BSTree BSShift BSLine10 BlockSpans StreamFuel
  TilBase TilDefs TilLP2 TilLP6 TilLP12 TilShift TilStream TilStream2.
Open Scope Z_scope.

(* ================= skipLoop, NextBlock and the whole run ================= *)

Section Run.
  Hypothesis HOP : OcpPara.
  Hypothesis HOS : OcpSetext.
  Variable input : bytes.
  Notation BK := (BK input).
  Notation okT := (okT input).

  (* skipping a blank prefix of the buffer that ends at a line boundary *)
  Lemma BK_skip s pre rest n : BK s pre rest -> 0 <= n <= len (buf s) -> LBd (buf s) n -> blankR (buf s) 0 n ->
    exists g0 rest0, rest = g0 ++ rest0 /\ forallb blk g0 = true /\ from_ (buf s) n = pad rest0 /\
      unpadded (upto (buf s) n) = len g0 /\ lineCount (upto (buf s) n) = lineCount g0 /\
      1 + lineCount pre + lineCount (upto (buf s) n) = 1 + lineCount (pre ++ g0) /\
      nosplit (pre ++ g0) rest0 /\ input = (pre ++ g0) ++ rest0.
  Proof.
    intros HB Hn HL Hb. destruct (BK_cut input s pre rest n HB Hn (LBd_good _ _ HL)) as (g0 & rest0 & Er & Eu & Ef & Eun & _ & Eli & Hs & Ein).
    exists g0, rest0. split; [exact Er|]. split.
    - rewrite <- forallb_blk_pad, <- Eu. apply blankR_forallb. rewrite len_upto by lia. apply blankR_upto; [lia|exact Hb].
    - split; [exact Ef|]. split; [exact Eun|]. split; [rewrite Eu; apply lineCount_pad|]. split; [exact Eli|]. split; assumption.
  Qed.

  Lemma isBlankLine_blankR (l : bytes) : isBlankLine l = true -> blankR l 0 (len l).
  Proof. intros H. apply blankR_forallb. exact H. Qed.

  Lemma skipLoop_ok : forall fuel s pre rest, BK s pre rest -> bi s = 0 -> okT pre rest (skipLoop fuel s).
  Proof.
    induction fuel as [|f IH]; intros s pre rest HB Hb0; [exact I|]. cbn [skipLoop]. cbv zeta. rewrite Hb0.
    pose proof (len_nonneg (buf s)) as Hnn.
    destruct (lineEnd_spec (buf s) 0 ltac:(lia)) as [A B].
    set (e := lineEnd (buf s) 0) in *.
    destruct (Z.ltb_spec 0 e) as [Lt|Ge]; cbn [negb].
    2:{ (* the buffer is empty *)
      cbn [TilStream.okT]. assert (El : len (buf s) = 0).
      { destruct (Z.lt_ge_cases e (len (buf s))) as [L|G]; [destruct (B L); lia|lia]. }
      destruct HB as (_ & E2 & _). rewrite E2 in El. destruct (pad rest) as [|x t] eqn:Ep; [|rewrite len_cons in El; pose proof (len_nonneg t); lia].
      apply pad_nil_inv in Ep. subst rest. reflexivity. }
    assert (HL : LBd (buf s) e) by (apply lineEnd_LBd; lia).
    destruct (isBlankLine (upto (buf s) e)) eqn:Ebl.
    - (* a blank line *)
      assert (Hbl : blankR (buf s) 0 e).
      { apply isBlankLine_blankR in Ebl. rewrite len_upto in Ebl by lia. apply (blankR_upto (buf s) e 0 e); [lia|exact Ebl]. }
      destruct (BK_skip s pre rest e HB ltac:(lia) HL Hbl) as (g0 & rest0 & Er & Hg0 & Ef & Eun & Elc & Eli & Hs & Ein).
      apply (okT_shift input pre g0 rest0 rest _ Er Hg0).
      destruct (Z.lt_ge_cases e (len (buf s))) as [L|G].
      + (* more input follows: the line holds one line ending *)
        apply IH; [|reflexivity]. destruct HB as (E1 & E2 & E3 & E4 & E5).
        unfold TilStream.BK. cbn [buf boff bline]. split; [exact Ein|]. split; [exact Ef|]. split; [rewrite len_app; lia|]. split; [|exact Hs].
        pose proof (lineCount_line (buf s) L) as H1. fold e in H1. lia.
      + (* the blank line was the last one *)
        assert (Er0 : rest0 = []).
        { apply pad_nil_inv. rewrite <- Ef. unfold from_. apply skipn_all2. unfold len in *. lia. }
        subst rest0. destruct f as [|f']; [exact I|]. cbn [skipLoop]. cbv zeta. cbn [buf bi].
        rewrite Ef. change (pad []) with (@nil Z). change (lineEnd [] 0) with 0. cbn [Z.ltb negb]. reflexivity.
    - (* the first line of a block *)
      apply (lineLoop_ok HOP HOS input f 0 [] 0 _ true pre rest);
        [exact HB|cbn [buf]; lia|reflexivity|left; reflexivity|reflexivity|discriminate|reflexivity|split; exact I|reflexivity|apply KS_nil|
         intros c Hc; discriminate Hc].
  Qed.

  Lemma nextBlock_ok fuel s ns pre rest : BK s pre rest -> NB s ns -> okT pre rest (nextBlock fuel s).
  Proof.
    intros HB (HS & Hg & HL & HK & Hnil). unfold nextBlock.
    destruct (makeRoot (pending s) s) as [[r s']|] eqn:Em.
    - apply (makeRoot_ok input s (pending s) ns pre rest r s' HB HS Hg HL HK Em).
    - pose proof HS as ((Hb & Hc & Hn) & Hcc & Hk).
      destruct (pending s) as [|b0 rest'] eqn:Ep.
      + (* nothing pending: skip what was read and the blank lines *)
        specialize (Hnil eq_refl).
        destruct (BK_skip s pre rest (bi s) HB Hb HL Hnil) as (g0 & rest0 & Er & Hg0 & Ef & Eun & Elc & Eli & Hs & Ein).
        apply (okT_shift input pre g0 rest0 rest _ Er Hg0). apply skipLoop_ok; [|reflexivity].
        destruct HB as (E1 & E2 & E3 & E4 & E5). unfold TilStream.BK. cbn [buf boff bline].
        split; [exact Ein|]. split; [exact Ef|]. split; [rewrite len_app; lia|]. split; [lia|exact Hs].
      + apply (lineLoop_ok HOP HOS input fuel 0 (b0 :: rest') (bi s) _ ns pre rest); cbn [buf bi]; try assumption; try reflexivity.
        intros c Hcl. destruct (makeRoot_None _ _ Em) as [E|(c0 & t & E & Ho)]; [discriminate E|]. inversion E; subst c0 t.
        destruct rest' as [|x t'].
        * cbn in Hcl. inversion Hcl; subst c. exact Ho.
        * exfalso. destruct HK as (_ & KB & _). rewrite (KB b0) in Ho; [discriminate|].
          change (removelast (b0 :: x :: t')) with (b0 :: removelast (x :: t')). left. reflexivity.
  Qed.

  Lemma allBlocks_ok : forall fuel s acc ns pre rest, BK s pre rest -> NB s ns ->
    tilesP input 0 acc = true -> lastEnd 0 acc = len pre ->
    tilesP input 0 (fst (allBlocks fuel s acc)) = true /\
    (snd (allBlocks fuel s acc) = 0 -> tiles input 0 (fst (allBlocks fuel s acc)) = true).
  Proof.
    induction fuel as [|f IH]; intros s acc ns pre rest HB HN Ht Hl; [cbn [allBlocks fst snd]; split; [exact Ht|discriminate]|].
    cbn [allBlocks]. pose proof (nextBlock_ok (3 + length (buf s)) s ns pre rest HB HN) as Hx.
    destruct (nextBlock (3 + length (buf s)) s) as [r s'|s'| |site]; cbn [fst snd].
    - destruct Hx as (g & r1 & r2 & Er & Hg & S1 & S2 & S3 & S4 & HB' & (ns' & HN')).
      apply (IH s' (acc ++ [r]) ns' (pre ++ g ++ r1) r2 HB' HN').
      + rewrite tilesP_app, Ht. cbn [andb tilesP]. rewrite andb_true_r. rewrite Hl.
        destruct HB as (E1 & _). apply (rootOK_intro input pre g r1 r2 r); [rewrite E1, Er; reflexivity|assumption..].
      + rewrite lastEnd_app. cbn [lastEnd]. rewrite S2, S1, !len_app. lia.
    - split; [exact Ht|]. intros _. rewrite tiles_split, Ht. cbn [andb]. rewrite Hl.
      destruct HB as (E1 & _). rewrite E1, from_app. cbn [TilStream.okT] in Hx. rewrite <- Hx.
      clear. induction rest as [|c r IHr]; [reflexivity|]. cbn [forallb]. rewrite IHr, isBlankByte_blk. reflexivity.
    - split; [exact Ht|discriminate].
    - split; [exact Ht|]. intros E. exfalso. cbn [TilStream.okT] in Hx. contradiction.
  Qed.
End Run.
