From Coq Require Import List ZArith Lia Bool.
Import ListNotations.
Require Import Base Tables Utf8 Tree Rdr Link Collect Html Recog Inl3a Inl3b Inl3c Inl3d Driver Inl3e PEProof IFTree IFPe.
Open Scope Z_scope.

(* ================================================================ C04 (3)/(4): the forest / stack invariant through the tokeniser
   TKb b st : the forest part FI, a bound b <= nid st below which all the stack identities lie, non-negative starts of the stack nodes. *)
Definition TKb (b : Z) (st : ist) : Prop :=
  FI st /\ 1 <= b <= nid st /\ (forall d, In d (stk st) -> 0 < d_node d < b) /\ (forall d, In d (stk st) -> startOK (d_node d) (Hs st)).
Lemma TKb_TI b st : TKb b st -> TI st.
Proof. intros ([U B] & Hb & S1 & S2). split; [exact U|]. split; [exact B|]. split; [intros d Hd; specialize (S1 d Hd); lia|exact S2]. Qed.
Lemma TI_TKb st : TI st -> 1 <= nid st -> TKb (nid st) st.
Proof. intros (U & B & S1 & S2) Hn. split; [split; assumption|]. split; [lia|]. split; assumption. Qed.
Lemma TKb_weaken b b' st : TKb b st -> b <= b' <= nid st -> TKb b' st.
Proof. intros (F & Hb & S1 & S2) Hb'. split; [exact F|]. split; [lia|]. split; [intros d Hd; specialize (S1 d Hd); lia|exact S2]. Qed.

(* lengths of the protected identities do not grow *)
Definition Mb (b : Z) (st st' : ist) : Prop :=
  nid st <= nid st' /\ (forall x, 0 < x < b -> startOK x (Hs st) -> Wh x (Hs st') <= Wh x (Hs st) /\ startOK x (Hs st')).
Lemma Mb_refl b st : Mb b st st. Proof. split; [lia|]. intros x _ H. split; [lia|exact H]. Qed.
Lemma Mb_trans b a c d : Mb b a c -> Mb b c d -> Mb b a d.
Proof.
  intros (A1 & A3) (B1 & B3). split; [lia|]. intros x Hx Hs0. destruct (A3 x Hx Hs0) as [P1 P2]. destruct (B3 x Hx P2) as [Q1 Q2]. split; [lia|exact Q2].
Qed.
Lemma Mb_same b st st' : nid st <= nid st' -> (forall x, 0 < x < b -> hfind x (Hs st') = hfind x (Hs st)) -> Mb b st st'.
Proof. intros Hn H. split; [exact Hn|]. intros x Hx Hs0. unfold Wh, startOK in *. rewrite (H x Hx). split; [lia|exact Hs0]. Qed.
Lemma Mono_Mb st st' : Mono st st' -> Mb (nid st) st st'. Proof. intros (A & _ & C). split; assumption. Qed.
Lemma Mb_weaken b b' st st' : Mb b st st' -> b' <= b -> Mb b' st st'.
Proof. intros (A & B) Hb. split; [exact A|]. intros x Hx. apply B. lia. Qed.

Lemma sumW_sub st st' b : (forall x, 0 < x < b -> startOK x (Hs st) -> Wh x (Hs st') <= Wh x (Hs st) /\ startOK x (Hs st')) ->
  forall l' l, Subl l' l -> (forall d, In d l -> 0 < d_node d < b /\ startOK (d_node d) (Hs st)) -> sumW st' l' <= sumW st l.
Proof.
  intros Hm l' l HS. induction HS as [|d a c HS IH|d a c HS IH]; intros Hl; [cbn; lia| |].
  - cbn [sumW]. destruct (Hl d (or_introl eq_refl)) as [P1 P2]. destruct (Hm _ P1 P2) as [Q _]. specialize (IH (fun d0 Hd0 => Hl d0 (or_intror Hd0))).
    unfold W. lia.
  - cbn [sumW]. specialize (IH (fun d0 Hd0 => Hl d0 (or_intror Hd0))). pose proof (W_nonneg st (d_node d)). lia.
Qed.

(* the transfer lemma: a step that keeps FI, does not lengthen protected nodes and only drops delimiters *)
Lemma TKb_step b st st' : TKb b st -> FI st' -> Mb b st st' -> Subl (stk st') (stk st) ->
  TKb b st' /\ sumW st' (stk st') <= sumW st (stk st).
Proof.
  intros (F & Hb & S1 & S2) F' (M1 & M3) HS. split.
  - split; [exact F'|]. split; [lia|]. split.
    + intros d Hd. apply S1. eapply Subl_In; eassumption.
    + intros d Hd. pose proof (Subl_In _ _ HS d Hd) as Hd0. apply (M3 (d_node d) (S1 d Hd0) (S2 d Hd0)).
  - apply (sumW_sub st st' b M3 _ _ HS). intros d Hd. split; [apply S1, Hd|apply S2, Hd].
Qed.

(* ================================================================ primitives *)
(* lists of nodes without positive identities *)
Definition zkeys (l : list pn) : Prop := posH (hdrs l) = [].
Lemma zkeys_nil : zkeys []. Proof. reflexivity. Qed.
Lemma zkeys_kidsOf l : zkeys (kidsOf l). Proof. apply posH_kidsOf. Qed.
Lemma zkeys_leaves l : Forall (fun n => pid n = 0 /\ pkids n = []) l -> zkeys l.
Proof.
  unfold zkeys. induction 1 as [|n l [A B] H IH]; [reflexivity|]. rewrite hdrs_cons, posH_app, IH, hdrN_eq, B, A. reflexivity.
Qed.
Lemma posH_nil_keys H : posH H = [] -> forall h, In h H -> key h <= 0.
Proof.
  induction H as [|h0 H IH]; intros E h Hin; [destruct Hin|]. unfold posH in E. cbn [filter] in E. fold (posH H) in E.
  destruct (Z.ltb_spec 0 (key h0)); [discriminate|]. destruct Hin as [<-|Hin]; [lia|apply IH; assumption].
Qed.
Lemma posH_nil_hfind H x : posH H = [] -> 0 < x -> hfind x H = None.
Proof. intros E Hx. rewrite <- hfind_posH by exact Hx. rewrite E. reflexivity. Qed.
Lemma posH_nil_cnt H x : posH H = [] -> 0 < x -> cnt x H = 0.
Proof. intros E Hx. rewrite <- cnt_posH by exact Hx. rewrite E. reflexivity. Qed.

(* addNode *)
Lemma Hs_addNode st k s e kids : spanLen s e <> 0 -> Hs (fst (addNode st k s e kids)) = Hs st ++ (nid st, s, e) :: hdrs kids.
Proof.
  intros H. unfold addNode. destruct (Z.eqb_spec (spanLen s e) 0); [contradiction|]. cbn [fst]. unfold Hs. cbn [rk bumpId setRk].
  rewrite hdrs_app. cbn [hdrs]. rewrite hdrN_eq. cbn [pid ps pe pkids]. rewrite app_nil_r. reflexivity.
Qed.
Lemma addNode_FM st k s e kids : FI st -> 1 <= nid st -> zkeys kids ->
  FI (fst (addNode st k s e kids)) /\ Mb (nid st) st (fst (addNode st k s e kids)).
Proof.
  intros [U B] Hn Hz. destruct (Z.eq_dec (spanLen s e) 0) as [E|E].
  { unfold addNode. rewrite E. cbn [Z.eqb fst]. split; [split; assumption|apply Mb_refl]. }
  pose proof (Hs_addNode st k s e kids E) as EH.
  assert (En : nid (fst (addNode st k s e kids)) = nid st + 1).
  { unfold addNode. destruct (Z.eqb_spec (spanLen s e) 0); [contradiction|reflexivity]. }
  split; [split|].
  - intros x Hx. rewrite EH, cnt_app, cnt_cons, (posH_nil_cnt _ x Hz Hx). unfold key. cbn [fst].
    destruct (Z.eqb_spec (nid st) x) as [<-|Hne]; [rewrite (cnt_zero_bound (nid st) (Hs st) B); lia|specialize (U x Hx); lia].
  - intros h Hin. rewrite En. rewrite EH in Hin. apply in_app_or in Hin. destruct Hin as [Hin|[<-|Hin]]; [specialize (B h Hin); lia|cbn; lia|].
    pose proof (posH_nil_keys _ Hz h Hin). lia.
  - apply Mb_same; [lia|]. intros x Hx. rewrite EH, hfind_app. destruct (hfind x (Hs st)); [reflexivity|].
    rewrite hfind_cons. unfold key at 1. cbn [fst]. destruct (Z.eqb_spec (nid st) x); [lia|]. apply posH_nil_hfind; [exact Hz|lia].
Qed.
Lemma addText_FM st s e : FI st -> 1 <= nid st -> FI (addText st s e) /\ Mb (nid st) st (addText st s e).
Proof. intros. apply addNode_FM; [assumption|assumption|apply zkeys_nil]. Qed.
Lemma stk_addNode st k s e kids : stk (fst (addNode st k s e kids)) = stk st.
Proof. unfold addNode. destruct (_ =? 0); reflexivity. Qed.
Lemma stk_addText st s e : stk (addText st s e) = stk st. Proof. apply stk_addNode. Qed.
Lemma nid_addNode_le st k s e kids : nid st <= nid (fst (addNode st k s e kids)).
Proof. unfold addNode. destruct (_ =? 0); cbn; lia. Qed.

(* appending an entry node (identity 0 throughout) *)
Lemma setRk_app_FM st u : FI st -> 1 <= nid st ->
  FI (setRk st (rk st ++ [ofInline u])) /\ Mb (nid st) st (setRk st (rk st ++ [ofInline u])).
Proof.
  intros [U B] Hn. assert (EH : Hs (setRk st (rk st ++ [ofInline u])) = Hs st ++ hdrN (ofInline u)).
  { unfold Hs. cbn [rk setRk]. rewrite hdrs_app. cbn [hdrs]. rewrite app_nil_r. reflexivity. }
  pose proof (posH_ofInline u) as Hz. split; [split|].
  - intros x Hx. rewrite EH, cnt_app, (posH_nil_cnt _ x Hz Hx). specialize (U x Hx). lia.
  - intros h Hin. cbn [nid setRk]. rewrite EH in Hin. apply in_app_or in Hin. destruct Hin as [Hin|Hin]; [apply B, Hin|].
    pose proof (posH_nil_keys _ Hz h Hin). lia.
  - apply Mb_same; [cbn; lia|]. intros x Hx. rewrite EH, hfind_app. destruct (hfind x (Hs st)); [reflexivity|]. apply posH_nil_hfind; [exact Hz|lia].
Qed.

(* wrap around a positive start identity *)
Lemma wrap_FM st kind o endId : FI st -> 0 < o ->
  FI (fst (wrap st kind o endId)) /\ Mb (nid st) st (fst (wrap st kind o endId)) /\ nid (fst (wrap st kind o endId)) = nid st + 1.
Proof.
  intros [U B] Ho. pose proof (wrapIn_Ins (nid st) kind o endId (match endId with Some i => Some (ps (nodeOf st i)) | None => None end)
                                 (fsize (rk st)) (rootEnd st) (rk st)) as [I C].
  rewrite <- Hs_wrap in I, C. fold (Hs st) in I, C. split; [split|split; [|reflexivity]].
  - intros x Hx. destruct (Z.eq_dec x (nid st)) as [->|Hne]; [|rewrite (Ins_cnt (nid st) x Hne _ _ I); apply U, Hx].
    rewrite (cnt_zero_bound (nid st) (Hs st) B) in C. specialize (U o Ho). lia.
  - intros h Hin. change (nid (fst (wrap st kind o endId))) with (nid st + 1).
    destruct (Ins_In _ _ _ I h Hin) as [Hin'|E]; [specialize (B h Hin'); lia|lia].
  - apply Mb_same; [cbn; lia|]. intros x Hx. apply (Ins_hfind (nid st) x ltac:(lia) _ _ I).
Qed.

(* updating the span / reference of a node whose identity is not protected *)
Lemma updN_span_FM st id g G b : FI st -> b <= id ->
  (forall n, pid (g n) = pid n) -> (forall n, pkids (g n) = pkids n) -> (forall n, hd1 (g n) = G (hd1 n)) -> (forall h, key (G h) = key h) ->
  FI (updN st id g) /\ Mb b st (updN st id g).
Proof.
  intros [U B] Hb g1 g2 g3 g4. pose proof (updNode_rel id g G g2 g3 (fsize (rk st)) (rk st)) as R. rewrite <- Hs_updN in R. fold (Hs st) in R.
  split; [split|].
  - intros x Hx. rewrite (rel_cnt id G g4 x _ _ R). apply U, Hx.
  - intros h Hin. change (nid (updN st id g)) with (nid st). apply (keys_bound_transfer (Hs st) _ (nid st) (rel_keys id G g4 _ _ R) B h Hin).
  - apply Mb_same; [cbn; lia|]. intros x Hx. apply (rel_hfind_other id G g4 x ltac:(lia) _ _ R).
Qed.
Lemma hd1_setSpan n a b : hd1 (setSpan n a b) = (pid n, a, b). Proof. destruct n; reflexivity. Qed.
Lemma hd1_setRef n r : hd1 (setRef n r) = hd1 n. Proof. destruct n; reflexivity. Qed.
Lemma pid_setRef n r : pid (setRef n r) = pid n. Proof. destruct n; reflexivity. Qed.
Lemma pkids_setRef n r : pkids (setRef n r) = pkids n. Proof. destruct n; reflexivity. Qed.

(* appending a child without positive identities *)
Lemma appendKid_FM st id k : FI st -> 1 <= nid st -> posH (hdrN k) = [] ->
  FI (appendKid st id k) /\ Mb (nid st) st (appendKid st id k).
Proof.
  intros [U B] Hn Hz.
  assert (EP : posH (Hs (appendKid st id k)) = posH (Hs st)).
  { unfold appendKid. rewrite Hs_updN. apply updNode_posH_kids. intros n. rewrite !hdrN_eq. destruct n as [i kk s e ind rf ks].
    cbn [setKids pid ps pe pkids]. change ((i, s, e) :: hdrs (ks ++ [k])) with ([(i, s, e)] ++ hdrs (ks ++ [k])).
    change ((i, s, e) :: hdrs ks) with ([(i, s, e)] ++ hdrs ks). rewrite !posH_app, hdrs_app, posH_app. cbn [hdrs]. rewrite app_nil_r, Hz, app_nil_r. reflexivity. }
  split; [split|].
  - intros x Hx. rewrite <- cnt_posH, EP, cnt_posH by exact Hx. apply U, Hx.
  - intros h Hin. change (nid (appendKid st id k)) with (nid st). destruct (Z.ltb_spec 0 (key h)) as [L|L]; [|lia].
    assert (Hp : In h (posH (Hs (appendKid st id k)))) by (apply filter_In; split; [exact Hin|apply Z.ltb_lt; exact L]).
    rewrite EP in Hp. apply filter_In in Hp. apply B, Hp.
  - apply Mb_same; [cbn; lia|]. intros x Hx. rewrite <- hfind_posH, EP, hfind_posH by lia. reflexivity.
Qed.
Lemma posH_PN0 k s e r l : posH (hdrs l) = [] -> posH (hdrN (PN 0 k s e 0 r l)) = [].
Proof. intros H. rewrite hdrN_eq. cbn [pid ps pe pkids]. change ((0, s, e) :: hdrs l) with ([(0, s, e)] ++ hdrs l). rewrite posH_app, H. reflexivity. Qed.

(* removing a node *)
Lemma removeNode_FM st id b : FI st -> FI (removeNode st id) /\ Mb b st (removeNode st id).
Proof.
  intros F. destruct (R_tree st id F) as [F' M]. split; [exact F'|]. split; [cbn; lia|]. intros x Hx. apply M. lia.
Qed.
