From Coq Require Import List ZArith Lia Bool.
Import ListNotations.
Require Import Base Tree Rdr Link Collect Html Recog LP Rules Starts Driver Rec16 Rec17 Rec18 RecBounds Cursor CursorX L2Kind L2CC SpanSmall NoPanic12
  ShEnv GramTree GramLP GramLP2 EolInv EolCRBytes EolHtmlInv EolCRLFSimTree EolFinalDefs EolFinalSimBytes EolFinalSimTree EolFinalGenOcp EolFinalGenTree EolFinalGenClose EolFinalGenInv.
Open Scope Z_scope.

(* C14 (i), final newline, every input: the line parser on the last line of an input (run p, line without
   ending) and on the same line followed by LF (run q).  L is the length of p's source = the end of the line.
   The tree of q is the image under finB L of the tree of p; the cursors agree (any position of the line, its end
   included) or both are "consumed": behind the respective line. *)
Definition FQ (L : Z) (p q : lp) : Prop :=
  0 <= len (source p) /\ source q = source p ++ [10] /\ len (source p) = L /\
  0 <= lineStart p /\ line p = from_ (source p) (lineStart p) /\ lineStart p + len (line p) = L /\ lastOK (line p) /\
  line q = line p ++ [10] /\ lineStart q = lineStart p /\
  0 <= li p <= len (line p) /\
  ((li q = li p /\ col q = col p /\ tabRem q = tabRem p) \/ (li p = len (line p) /\ li q = len (line p) + 1)) /\
  root q = finB L (root p) /\ container q = container p /\ state q = state p /\ panicked q = panicked p.

(* the single-run facts about p used along the way *)
Definition Sp (L : Z) (p : lp) : Prop := G p /\ ccP p /\ QP L p.

Ltac fqsplit H :=
  match type of H with FQ ?L0 ?p ?q =>
    let S91 := fresh "S91" in let ES := fresh "ES" in let Ls0 := fresh "Ls0" in let Eln := fresh "Eln" in let Elen := fresh "Elen" in let Lok := fresh "Lok" in
    let Li := fresh "Li" in let Hcur := fresh "Hcur" in
    let S := fresh "S" in let rt := fresh "rt" in let cont := fresh "cont" in let ls := fresh "ls" in let ln := fresh "ln" in
    let i := fresh "i" in let cl := fresh "cl" in let tr := fresh "tr" in let st := fresh "st" in let pn := fresh "pn" in
    let S' := fresh "S'" in let rt' := fresh "rt'" in let cont' := fresh "cont'" in let ls' := fresh "ls'" in let ln' := fresh "ln'" in
    let i' := fresh "i'" in let cl' := fresh "cl'" in let tr' := fresh "tr'" in let st' := fresh "st'" in let pn' := fresh "pn'" in
    destruct p as [S rt cont ls ln i cl tr st pn]; destruct q as [S' rt' cont' ls' ln' i' cl' tr' st' pn'];
    unfold FQ in H; cbn [source line root container lineStart li col tabRem state panicked] in H;
    destruct H as (S91 & -> & ES & Ls0 & Eln & Elen & Lok & -> & -> & Li & Hcur & -> & -> & -> & ->) end.
Ltac flds := cbv beta iota delta [source line root container lineStart li col tabRem state panicked setLP withRoot withCont withState withCursor panic updCont cdepth].

Lemma FQ_mk L S rt cont ls ln i i' cl tr cl' tr' st pn : len S = L -> 0 <= ls -> ln = from_ S ls -> ls + len ln = L -> lastOK ln -> 0 <= i <= len ln ->
  ((i' = i /\ cl' = cl /\ tr' = tr) \/ (i = len ln /\ i' = len ln + 1)) ->
  FQ L {| source := S; root := rt; container := cont; lineStart := ls; line := ln; li := i; col := cl; tabRem := tr; state := st; panicked := pn |}
       {| source := S ++ [10]; root := finB L rt; container := cont; lineStart := ls; line := ln ++ [10]; li := i'; col := cl'; tabRem := tr'; state := st; panicked := pn |}.
Proof. intros. unfold FQ. flds. pose proof (len_nonneg S). repeat split; try assumption; try reflexivity; lia. Qed.

(* simple state changes *)
Lemma FQ_withState L p q s : FQ L p q -> FQ L (withState p s) (withState q s).
Proof. intros H. fqsplit H. unfold withState. flds. apply FQ_mk; assumption. Qed.
Lemma FQ_withCont L p q c : FQ L p q -> FQ L (withCont p c) (withCont q c).
Proof. intros H. fqsplit H. unfold withCont. flds. apply FQ_mk; assumption. Qed.
Lemma FQ_panic L p q n : FQ L p q -> FQ L (panic p n) (panic q n).
Proof. intros H. fqsplit H. unfold panic. flds. apply FQ_mk; assumption. Qed.
Lemma FQ_state L p q : FQ L p q -> state q = state p. Proof. intros H. apply H. Qed.
Lemma FQ_panicked L p q : FQ L p q -> panicked q = panicked p. Proof. intros H. apply H. Qed.
Lemma FQ_opened L p q : FQ L p q -> FQ L (if state p =? stOpening then withState p stOpenMatched else p) (if state q =? stOpening then withState q stOpenMatched else q).
Proof. intros H. rewrite (FQ_state L p q H). destruct (_ =? _); [apply FQ_withState, H|exact H]. Qed.
Lemma FQ_L0 L p q : FQ L p q -> 0 <= L. Proof. intros (_ & _ & E & _). rewrite <- E. apply len_nonneg. Qed.
Lemma FQ_ls_lt L p q : FQ L p q -> lineStart p < L.
Proof. intros (_ & _ & _ & _ & _ & E & Lok & _). pose proof (lastOK_pos _ Lok). lia. Qed.

(* observations *)
Lemma FQ_rest L p q : FQ L p q -> ext (rest p) (rest q).
Proof.
  intros H. fqsplit H. unfold rest. flds. destruct Hcur as [(-> & _ & _)|[-> ->]].
  - left. apply from_app10. lia.
  - right. split; [apply Rec16.from_nil; lia|apply from_app10_end].
Qed.
Lemma FQ_bai L p q : FQ L p q -> ext (bytesAfterIndent p) (bytesAfterIndent q) /\ endOK (bytesAfterIndent p).
Proof.
  intros H. split; [apply ext_trim, (FQ_rest L p q H)|].
  apply endOK_trim. unfold rest. apply endOK_from, lastOK_endOK. apply H.
Qed.
Lemma FQ_isRestBlank L p q : FQ L p q -> isRestBlank q = isRestBlank p.
Proof. intros H. apply ext_blank, (FQ_rest L p q H). Qed.
Lemma upto_app10_ind (r : bytes) : upto (r ++ [10]) (indentLength r) = upto r (indentLength r).
Proof. apply upto_app_le. apply indentLength_le. Qed.
Lemma FQ_indent L p q : FQ L p q -> indent q = indent p.
Proof.
  intros H. fqsplit H. unfold indent. flds. rewrite fs_len_app, fs_len1. destruct Hcur as [(-> & -> & ->)|[-> ->]].
  - destruct (Z.leb_spec (len ln) i) as [Le|Lt].
    + assert (i = len ln) by lia. subst i. replace (len ln + 1 <=? len ln) with false by (symmetry; apply Z.leb_gt; lia).
      rewrite at_app10_end. reflexivity.
    + replace (len ln + 1 <=? i) with false by (symmetry; apply Z.leb_gt; lia). rewrite at_app10_lt by lia.
      rewrite from_app10 by lia. rewrite indentLength_app10, upto_app10_ind. reflexivity.
  - replace (len ln + 1 <=? len ln + 1) with true by (symmetry; apply Z.leb_le; lia).
    replace (len ln <=? len ln) with true by (symmetry; apply Z.leb_le; lia). reflexivity.
Qed.
Lemma FQ_contBlock L p q : FQ L p q -> cc (root p) = true -> contBlock q = finB L (contBlock p).
Proof.
  intros H Hc. pose proof (FQ_L0 L p q H) as L0. fqsplit H. unfold contBlock. flds. cbn [root] in Hc. rewrite (getAt_F L _ _ Hc).
  destruct (getAt _ rt); [reflexivity|]. cbn [option_map]. symmetry. apply F_newBlock, L0.
Qed.
Lemma FQ_containerKind L p q : FQ L p q -> cc (root p) = true -> containerKind q = containerKind p.
Proof. intros H Hc. unfold containerKind. rewrite (FQ_contBlock L p q H Hc). apply bkind_F. Qed.
Lemma FQ_cdepth L p q : FQ L p q -> cdepth q = cdepth p. Proof. intros H. fqsplit H. reflexivity. Qed.
Lemma FQ_tipKind L p q : FQ L p q -> cc (root p) = true -> tipKind q = tipKind p.
Proof.
  intros H Hc. pose proof (FQ_L0 L p q H) as L0. fqsplit H. unfold tipKind. flds. cbn [root] in Hc.
  rewrite bheight_F, (tipDepth_F L L0 _ _ Hc), (getAt_F L _ _ Hc). destruct (getAt _ rt); [apply bkind_F|reflexivity].
Qed.
Lemma FQ_getAt L p q d : FQ L p q -> cc (root p) = true -> getAt d (root q) = option_map (finB L) (getAt d (root p)).
Proof. intros H Hc. replace (root q) with (finB L (root p)) by (symmetry; apply H). apply getAt_F, Hc. Qed.
Lemma FQ_bheight L p q : FQ L p q -> bheight (root q) = bheight (root p).
Proof. intros H. replace (root q) with (finB L (root p)) by (symmetry; apply H). apply bheight_F. Qed.
Lemma FQ_field L p q : FQ L p q -> cc (root p) = true ->
  bindent (contBlock q) = bindent (contBlock p) /\ bn (contBlock q) = bn (contBlock p) /\ bchar (contBlock q) = bchar (contBlock p).
Proof. intros H Hc. rewrite (FQ_contBlock L p q H Hc). repeat split; [apply bindent_F|apply bn_F|apply bchar_F]. Qed.

(* ---- the cursor ---- *)
Lemma FQ_advance' L p q n : FQ L p q -> li p + n <= len (line p) ->
  FQ L (advance p n) (advance q n) /\ (li q = li p -> li (advance q n) = li (advance p n)).
Proof.
  intros H Hb. unfold advance. destruct (Z.ltb_spec n 0); [split; [apply FQ_panic, H|intros E; exact E]|].
  destruct (Z.eqb_spec n 0); [split; [exact H|intros E; exact E]|]. cbv zeta.
  pose proof (FQ_opened L p q H) as H1.
  assert (Eli : li (if state p =? stOpening then withState p stOpenMatched else p) = li p /\ line (if state p =? stOpening then withState p stOpenMatched else p) = line p)
    by (destruct (_ =? _); split; reflexivity).
  set (p0 := if state p =? stOpening then withState p stOpenMatched else p) in *.
  set (q0 := if state q =? stOpening then withState q stOpenMatched else q) in *. clearbody p0 q0.
  destruct Eli as [E1 E2]. rewrite <- E1, <- E2 in Hb. clear E1 E2 H.
  fqsplit H1. flds. cbn [li line] in Hb. rewrite fs_len_app, fs_len1.
  destruct Hcur as [(-> & -> & ->)|[-> ->]]; [|lia].
  replace (len ln <? i + n) with false by (symmetry; apply Z.ltb_ge; lia).
  replace (len ln + 1 <? i + n) with false by (symmetry; apply Z.ltb_ge; lia).
  replace (i <? len ln + 1) with true by (symmetry; apply Z.ltb_lt; lia).
  replace (i <? len ln) with true by (symmetry; apply Z.ltb_lt; lia).
  rewrite at_app10_lt by lia. rewrite !sub_app10 by lia. rewrite computeTabRem_app10 by lia.
  split; [|intros _; reflexivity].
  apply FQ_mk; try assumption; [lia|left; repeat split; reflexivity].
Qed.
Lemma FQ_advance L p q n : FQ L p q -> li p + n <= len (line p) -> FQ L (advance p n) (advance q n).
Proof. intros H Hb. apply (FQ_advance' L p q n H Hb). Qed.

Definition nst (s : Z) : Z := if (s =? stOpening) || (s =? stOpenMatched) then stLineConsumed else if s =? stDescending then stDescendTerminated else s.
Lemma consumeLine_shape p : 0 <= li p <= len (line p) -> exists cl tr, consumeLine p =
  {| source := source p; root := root p; container := container p; lineStart := lineStart p; line := line p; li := len (line p); col := cl; tabRem := tr;
     state := nst (state p); panicked := panicked p |}.
Proof.
  intros Hi. unfold consumeLine, advance. cbv zeta. destruct (Z.ltb_spec (len (line p) - li p) 0); [lia|].
  destruct (Z.eqb_spec (len (line p) - li p) 0) as [E0|E0].
  - exists (col p), (tabRem p). destruct p as [S rt cont ls ln i cl tr st pn]. cbn [li line] in *. assert (i = len ln) by lia. subst i. unfold nst. flds.
    destruct ((st =? stOpening) || (st =? stOpenMatched)); [reflexivity|]. destruct (st =? stDescending); reflexivity.
  - destruct p as [S rt cont ls ln i cl tr st pn]. cbn [li line state] in *. unfold nst.
    unfold withState. flds.
    destruct (st =? stOpening) eqn:Es; flds; replace (i + (len ln - i)) with (len ln) by lia; rewrite Z.ltb_irrefl; flds; rewrite ?Es;
      eexists; eexists.
    + cbn [orb]. change ((stOpenMatched =? stOpening) || (stOpenMatched =? stOpenMatched)) with true. cbv iota. reflexivity.
    + cbn [orb]. destruct (st =? stOpenMatched); [reflexivity|]. destruct (st =? stDescending); reflexivity.
Qed.
Lemma FQ_consumeLine L p q : FQ L p q -> FQ L (consumeLine p) (consumeLine q) /\ li (consumeLine p) = len (line p).
Proof.
  intros H.
  assert (Hp : 0 <= li p <= len (line p)) by apply H.
  assert (Hq : 0 <= li q <= len (line q)).
  { destruct H as (_ & _ & _ & _ & _ & _ & _ & E & _ & Li & Hc & _). rewrite E, fs_len_app, fs_len1. destruct Hc as [(-> & _)|[_ ->]]; lia. }
  destruct (consumeLine_shape p Hp) as (c1 & t1 & ->). destruct (consumeLine_shape q Hq) as (c2 & t2 & ->). split; [|reflexivity].
  fqsplit H. flds. rewrite fs_len_app, fs_len1. apply FQ_mk; try assumption; [pose proof (len_nonneg ln); lia|right; split; reflexivity].
Qed.

(* consumeIndent: any amount, any two fuels beyond the rest of the line *)
Definition FQs (L : Z) (p q : lp) : Prop := FQ L p q /\ li q = li p.
Lemma FQ_consumeIndent_loop' L : forall f f' p q n, FQ L p q ->
  (len (line p) - li p < Z.of_nat f) -> (len (line p) - li p < Z.of_nat f') ->
  FQ L (consumeIndent_loop f p n) (consumeIndent_loop f' q n) /\ (li q = li p -> li (consumeIndent_loop f' q n) = li (consumeIndent_loop f p n)).
Proof.
  induction f as [|f IH]; intros f' p q n H Hf Hf'.
  { exfalso. destruct H as (_ & _ & _ & _ & _ & _ & _ & _ & _ & Li & _). lia. }
  destruct f' as [|f']. { exfalso. destruct H as (_ & _ & _ & _ & _ & _ & _ & _ & _ & Li & _). lia. }
  cbn [consumeIndent_loop]. destruct (n <=? 0); [split; [exact H|intros E; exact E]|]. cbv zeta.
  pose proof (FQ_opened L p q H) as H1.
  assert (Eli : li (if state p =? stOpening then withState p stOpenMatched else p) = li p /\ line (if state p =? stOpening then withState p stOpenMatched else p) = line p)
    by (destruct (_ =? _); split; reflexivity).
  assert (Eli' : li (if state q =? stOpening then withState q stOpenMatched else q) = li q) by (destruct (state q =? stOpening); reflexivity).
  set (p0 := if state p =? stOpening then withState p stOpenMatched else p) in *.
  set (q0 := if state q =? stOpening then withState q stOpenMatched else q) in *. clearbody p0 q0.
  destruct Eli as [E1 E2]. rewrite <- E1, <- E2 in Hf, Hf'. rewrite <- E1, <- Eli'. clear E1 E2 Eli' H.
  assert (Hpan : FQ L (panic p0 3) (panic q0 3) /\ (li q0 = li p0 -> li (panic q0 3) = li (panic p0 3))) by (split; [apply FQ_panic, H1|intros E; exact E]).
  fqsplit H1. flds. cbv beta iota delta [li line] in Hf, Hf'. rewrite fs_len_app, fs_len1.
  destruct Hcur as [(-> & -> & ->)|[-> ->]].
  - destruct (Z.ltb_spec i (len ln)) as [Lt|Ge].
    + replace (i <? len ln + 1) with true by (symmetry; apply Z.ltb_lt; lia). cbn [andb]. rewrite at_app10_lt by lia.
      assert (Hstep : forall c t, FQ L (withCursor {| source := S; root := rt; container := cont; lineStart := ls; line := ln; li := i; col := cl; tabRem := tr; state := st; panicked := pn |} (i + 1) c t)
                                (withCursor {| source := S ++ [10]; root := finB L rt; container := cont; lineStart := ls; line := ln ++ [10]; li := i; col := cl; tabRem := tr; state := st; panicked := pn |} (i + 1) c t)).
      { intros c t. unfold withCursor. flds. apply FQ_mk; try assumption; [lia|left; repeat split; reflexivity]. }
      destruct (at_ ln i =? 32).
      { rewrite computeTabRem_app10 by lia.
        match goal with |- FQ L (consumeIndent_loop f ?a ?m) (consumeIndent_loop f' ?b ?m) /\ _ =>
          destruct (IH f' a b m (Hstep _ _)) as [A B]; [unfold withCursor; cbv beta iota delta [li line setLP]; lia|unfold withCursor; cbv beta iota delta [li line setLP]; lia|] end.
        split; [exact A|intros _; apply B; reflexivity]. }
      destruct (at_ ln i =? 9); [|exact Hpan].
      destruct (n <? tr).
      { unfold withCursor. flds. split; [|intros _; reflexivity]. apply FQ_mk; try assumption; left; repeat split; reflexivity. }
      rewrite computeTabRem_app10 by lia.
      match goal with |- FQ L (consumeIndent_loop f ?a ?m) (consumeIndent_loop f' ?b ?m) /\ _ =>
        destruct (IH f' a b m (Hstep _ _)) as [A B]; [unfold withCursor; cbv beta iota delta [li line setLP]; lia|unfold withCursor; cbv beta iota delta [li line setLP]; lia|] end.
      split; [exact A|intros _; apply B; reflexivity].
    + assert (i = len ln) by lia. subst i. replace (len ln <? len ln + 1) with true by (symmetry; apply Z.ltb_lt; lia).
      rewrite at_app10_end. cbn [andb]. change (10 =? 32) with false. change (10 =? 9) with false. cbv iota. exact Hpan.
  - rewrite !Z.ltb_irrefl. cbn [andb]. exact Hpan.
Qed.
Lemma FQ_consumeIndent' L p q n : FQ L p q -> FQ L (consumeIndent p n) (consumeIndent q n) /\ (li q = li p -> li (consumeIndent q n) = li (consumeIndent p n)).
Proof.
  intros H. unfold consumeIndent.
  assert (Hb : 0 <= li p /\ line q = line p ++ [10]) by (split; apply H). destruct Hb as [Hb Eq].
  apply FQ_consumeIndent_loop'; [exact H| |].
  - rewrite Nat2Z.inj_succ. unfold len. lia.
  - rewrite Nat2Z.inj_succ, Eq, app_length. unfold len. cbn [length]. lia.
Qed.
Lemma FQ_consumeIndent L p q n : FQ L p q -> FQ L (consumeIndent p n) (consumeIndent q n).
Proof. intros H. apply (FQ_consumeIndent' L p q n H). Qed.
