From Coq Require Import List ZArith Lia Bool Permutation.
Import ListNotations.
Require Import Base Tables Utf8 Tree Rdr Link Collect Html Recog Inl3a Inl3b Inl3c Inl3d Inl3e Driver Props Leaf3a RdrBound.
Require Import SpanForest SpanIds SpanStack SpanEmph SpanSmall SpanTok SpanBridge SpanRdr SpanCollect SpanScan SpanHtml SpanCode CoverLeaves CoverEmph CoverUpos.
Open Scope Z_scope.

(* ================================================================================================
   C03, coverage: the invariant through the tokeniser.
   ================================================================================================ *)

Lemma textual_ge48 c : textual c = true -> 48 <= c.
Proof. unfold textual, isASCIIDigit, isASCIILetter. rewrite !orb_true_iff, !andb_true_iff, !Z.leb_le. lia. Qed.
Lemma nontextual_lt48 c : c < 48 -> textual c = false.
Proof. intros H. destruct (textual c) eqn:E; [apply textual_ge48 in E; lia|reflexivity]. Qed.
Lemma textual_not c d : textual c = true -> textual d = false -> c <> d.
Proof. intros A B E. subst. congruence. Qed.

Lemma runEnd_all : forall fuel src e lim c q, e <= q < runEnd fuel src e lim c -> at_ src q = c.
Proof.
  induction fuel as [|f IH]; intros src e lim c q H; cbn [runEnd] in H; [lia|].
  destruct ((e <? lim) && (at_ src e =? c)) eqn:E; [|lia]. apply andb_true_iff in E. destruct E as [_ E]. apply Z.eqb_eq in E.
  destruct (Z.eq_dec q e) as [->|N]; [exact E|]. apply (IH src (e + 1) lim c q). lia.
Qed.

Lemma al_uri_close : forall l e, 0 <= al_uri l e -> at_ l (al_uri l e - e - 1) = 62.
Proof.
  induction l as [|c r IH]; intros e H; cbn [al_uri] in *; [lia|].
  destruct (Z.eqb_spec c 62) as [->|N]; [replace (e + 1 - e - 1) with 0 by lia; reflexivity|].
  destruct (_ || _ || _); [lia|]. destruct (al_uri_bounds r (e + 1)) as [X|X]; [lia|].
  rewrite at_consS by lia. replace (al_uri r (e + 1) - e - 1 - 1) with (al_uri r (e + 1) - (e + 1) - 1) by lia. apply IH. exact H.
Qed.
Lemma parseAutolink_close t : 0 <= parseAutolink t -> at_ t (parseAutolink t - 1) = 62.
Proof.
  unfold parseAutolink. destruct (Z.ltb_spec (len t) 5) as [A|A]; cbn [orb]; [lia|].
  destruct (negb _); [lia|]. cbv zeta.
  assert (Huri : forall e0, 2 <= e0 -> e0 + 1 <= len t -> 0 <= al_uri (from_ t (e0 + 1)) (e0 + 1) -> at_ t (al_uri (from_ t (e0 + 1)) (e0 + 1) - 1) = 62).
  { intros e0 H2 Hl H. pose proof (al_uri_close _ _ H) as X. destruct (al_uri_bounds (from_ t (e0 + 1)) (e0 + 1)) as [Y|Y]; [lia|].
    rewrite at_from in X by lia. replace (e0 + 1 + (al_uri (from_ t (e0 + 1)) (e0 + 1) - (e0 + 1) - 1)) with (al_uri (from_ t (e0 + 1)) (e0 + 1) - 1) in X by lia. exact X. }
  destruct ((0 <=? parseEmail (from_ t 1)) && (1 + parseEmail (from_ t 1) <? len t) && (at_ t (1 + parseEmail (from_ t 1)) =? 62)) eqn:Em.
  - intros _. apply andb_true_iff in Em. destruct Em as [_ Em]. apply Z.eqb_eq in Em. replace (2 + parseEmail (from_ t 1) - 1) with (1 + parseEmail (from_ t 1)) by lia. exact Em.
  - destruct (negb _); [lia|]. destruct (Z.ltb_spec (2 + countWhile isSchemeChar (from_ t 2)) 3) as [D|D]; cbn [orb]; [lia|].
    destruct (33 <? _); [lia|]. destruct (Z.leb_spec (len t) (2 + countWhile isSchemeChar (from_ t 2))) as [F|F]; cbn [orb]; [lia|].
    destruct (negb _); [lia|]. intros H. apply Huri; [lia|lia|exact H].
Qed.

Lemma skipSpTab_all : forall fuel src pos lim q, pos <= q < skipSpTab fuel src pos lim -> isSpTab (at_ src q) = true.
Proof.
  induction fuel as [|f IH]; intros src pos lim q H; cbn [skipSpTab] in H; [lia|].
  destruct ((pos <? lim) && isSpTab (at_ src pos)) eqn:E; [|lia]. apply andb_true_iff in E. destruct E as [_ E].
  destruct (Z.eq_dec q pos) as [->|N]; [exact E|]. apply (IH src (pos + 1) lim q). lia.
Qed.
Lemma spTab_nontextual c : isSpTab c = true -> textual c = false.
Proof. unfold isSpTab. intros H. apply orb_true_iff in H. destruct H as [H|H]; apply Z.eqb_eq in H; subst; reflexivity. Qed.

Section CovTok.
  Variables (src : bytes) (U : list inline) (lo hi re : Z).
  Hypothesis HEC : EC src U lo hi.
  Notation nU := (nthU U).
  Let HU := ec_ok _ _ _ _ HEC.
  Let Hhi := ec_hi _ _ _ _ HEC.
  Let Hlo := ec_lo _ _ _ _ HEC.
  Let HSp := scanner_specs src U lo hi HEC.
  Notation TI := (SpanTok.TI src U lo hi re).
  Notation Pre := (SpanTok.Pre src U lo hi re).
  Notation Post := (SpanTok.Post src U lo hi re).
  Notation NT := (CoverEmph.NT src).

  (* positions that must be covered: textual bytes of Unparsed entries *)
  Definition EU (p : Z) : Prop := exists i, 0 <= i < len U /\ ikind (nU i) = UnparsedKind /\ istart (nU i) <= p < iend (nU i).
  Definition Need (p : Z) : Prop := EU p /\ textual (at_ src p) = true.
  Definition CV (st : ist) (m : Z) : Prop := forall p, Need p -> p < m -> covF p (rk st).
  Definition NTS (st : ist) : Prop := forall n, In n (rk st) -> In (pid n) (map d_node (stk st)) -> NT n.
  Definition CI (st : ist) (m : Z) : Prop := CV st m /\ NTS st.

  Lemma CV_le st m m' : CV st m -> m' <= m -> CV st m'.
  Proof. intros H Hm p Hp Hl. apply H; [exact Hp|lia]. Qed.
  Lemma CV_raise st m m' : CV st m -> (forall p, Need p -> m <= p < m' -> False) -> CV st m'.
  Proof. intros H Hn p Hp Hl. destruct (Z.lt_ge_cases p m) as [L|L]; [apply H; assumption|exfalso; apply (Hn p Hp); lia]. Qed.

  (* appending a node *)
  Definition push (st : ist) (n : pn) : ist := bumpId (setRk st (rk st ++ [n])).
  Lemma CV_push st m m' n : CV st m -> (forall p, Need p -> m <= p < m' -> covN p n) -> CV (push st n) m'.
  Proof.
    intros H Hn p Hp Hl. cbn [rk push bumpId setRk]. apply covF_app. destruct (Z.lt_ge_cases p m) as [L|L]; [left; apply H; assumption|].
    right. apply covF_cons. left. apply Hn; [exact Hp|lia].
  Qed.
  Lemma addNode_eq st kind s e kids : 0 <= s ->
    (s < e /\ fst (addNode st kind s e kids) = push st (PN (nid st) kind s e 0 [] kids) /\ snd (addNode st kind s e kids) = nid st) \/
    (e <= s /\ fst (addNode st kind s e kids) = st).
  Proof.
    intros Hs. unfold addNode. destruct (spanLen s e =? 0) eqn:E.
    - right. apply spanLen_zero in E. split; [lia|reflexivity].
    - left. apply spanLen_pos in E. split; [lia|split; reflexivity].
  Qed.
  Lemma CV_addNode st m m' kind s e kids : CV st m -> 0 <= s ->
    (s < e -> forall p, Need p -> m <= p < m' -> covN p (PN (nid st) kind s e 0 [] kids)) ->
    (e <= s -> forall p, Need p -> m <= p < m' -> False) ->
    CV (fst (addNode st kind s e kids)) m'.
  Proof.
    intros H Hs H1 H2. destruct (addNode_eq st kind s e kids Hs) as [(L & E & _)|(L & E)]; rewrite E.
    - apply (CV_push st m); [exact H|apply H1; exact L].
    - apply (CV_raise st m); [exact H|apply H2; exact L].
  Qed.
  Lemma CV_flush st pl pos : CV st pl -> 0 <= pl -> pl <= pos -> CV (addText st pl pos) pos.
  Proof.
    intros H H0 Hl. unfold addText. apply (CV_addNode st pl); [exact H|exact H0| |].
    - intros _ p _ Hp. apply covN_leaf. exact Hp.
    - intros L p _ Hp. lia.
  Qed.

  (* stack identities lie below the allocation counter *)
  Lemma subIds_in : forall ds L d, subIds ds L -> In d ds -> exists n, In n L /\ pid n = d /\ 0 < d.
  Proof.
    induction ds as [|a ds IH]; intros L d H Hd; [destruct Hd|]. cbn [subIds] in H. destruct H as (pre & n & post & -> & E & Lf & Hs).
    destruct Hd as [<-|Hd].
    - exists n. split; [apply in_or_app; right; left; reflexivity|]. split; [exact E|]. rewrite <- E. apply Lf.
    - destruct (IH post d Hs Hd) as (x & Hx & Ex & Px). exists x. split; [apply in_or_app; right; right; exact Hx|tauto].
  Qed.
  Lemma stack_lt st le d : TI st le -> In d (map d_node (stk st)) -> 0 < d < nid st.
  Proof.
    intros [A (B1 & B2 & B3) C _ _ _ _] Hd. destruct (subIds_in _ _ d C Hd) as (n & Hn & E & Pd). split; [exact Pd|].
    rewrite Forall_forall in B2. apply B2. eapply in_pidsF; [exact Hn|]. rewrite <- E. apply pid_in_pidsN. lia.
  Qed.
  Lemma NTS_push st le n : TI st le -> pid n = nid st -> NTS st -> NTS (push st n).
  Proof.
    intros HT E H x Hx Hd. cbn [rk stk push bumpId setRk] in *. apply in_app_or in Hx. destruct Hx as [Hx|[<-|[]]]; [apply H; assumption|].
    rewrite E in Hd. pose proof (stack_lt st le _ HT Hd). exfalso. lia.
  Qed.
  Lemma NTS_addNode st le kind s e kids : TI st le -> 0 <= s -> NTS st -> NTS (fst (addNode st kind s e kids)).
  Proof.
    intros HT Hs H. destruct (addNode_eq st kind s e kids Hs) as [(L & E & _)|(L & E)]; rewrite E; [|exact H].
    apply (NTS_push st le); [exact HT|reflexivity|exact H].
  Qed.
  Lemma CI_flush st le pl pos : TI st le -> CI st pl -> 0 <= pl -> pl <= pos -> CI (addText st pl pos) pos.
  Proof. intros HT [A B] H0 Hl. split; [apply CV_flush; assumption|apply (NTS_addNode st le); assumption]. Qed.

  (* adding a delimiter node and pushing it on the stack *)
  Lemma CI_addDelim st le m s e typ flags n : TI st le -> CI st m -> 0 <= s -> s < e -> m <= s ->
    (forall q, s <= q < e -> textual (at_ src q) = false) -> (forall p, Need p -> m <= p < s -> False) ->
    let '(st1, id) := addNode st TextKind s e [] in
    CI (setStk st1 (stk st1 ++ [{| d_typ := typ; d_flags := flags; d_n := n; d_node := id |}])) e.
  Proof.
    intros HT [A B] Hs Hl Hm Hnt Hgap. destruct (addNode_eq st TextKind s e [] Hs) as [(_ & E1 & E2)|(L & _)]; [|lia].
    destruct (addNode st TextKind s e []) as [st1 id]. cbn [fst snd] in E1, E2. subst st1 id. split.
    - cbn [CV rk setStk]. apply (CV_push st m); [exact A|]. intros p Hp Hr. apply covN_leaf. destruct (Z.lt_ge_cases p s) as [L|L]; [exfalso; apply (Hgap p Hp); lia|lia].
    - intros x Hx Hd. cbn [rk stk push bumpId setRk setStk] in *. rewrite map_app in Hd. cbn [map d_node] in Hd.
      apply in_app_or in Hx. apply in_app_or in Hd. destruct Hx as [Hx|[<-|[]]].
      + destruct Hd as [Hd|[Hd|[]]]; [apply B; assumption|]. exfalso.
        destruct HT as [_ (_ & B2 & B3) _ _ _ _ _]. rewrite Forall_forall in B2.
        destruct (Z.ltb_spec 0 (pid x)) as [Lp|Lp]; [|lia]. pose proof (B2 (pid x) ltac:(eapply in_pidsF; [exact Hx|apply pid_in_pidsN; exact Lp])). lia.
      + intros q Hq. cbn [ps pe] in Hq. apply Hnt. exact Hq.
  Qed.

  (* ---- what the tokeniser needs from the reader-based scanners ---- *)
  Definition CSpecHTML : Prop := forall st pos, inEntry src U st pos ->
    let '(ts, te) := parseHTMLTag (rfuelOf st) (newReader src (unpFrom st) pos) in
    spanValid (ts, te) = true ->
    forall p, Need p -> ts <= p < te -> covF p (kidsOf (collectTextNodes (rfuelOf st) (newReader src (unpFrom st) ts) te RawHTMLKind false)).
  Definition CSpecCode : Prop := forall st pos, inEntry src U st pos ->
    let '(cS, cE, sE) := parseCodeSpan (rfuelOf st) st pos in
    0 <= sE -> forall st1, sameU st st1 ->
      exists st2 kids, collectCodeSpan st1 pos sE cS cE = fst (addNode st2 CodeSpanKind pos sE kids) /\
        (st2 = st1 \/ exists up, st2 = setUpos st1 up) /\
        forall p id, Need p -> pos <= p < sE -> covN p (PN id CodeSpanKind pos sE 0 [] kids).
  Definition CSpecInline : Prop := forall st s, inEntry src U st (s - 1) -> s < spanEnd st -> at_ src s = 40 ->
    let '(ispan, (dspan, dtext), (tspan, ttext)) := parseInlineLink (rfuelOf st) st s in
    spanValid ispan = true ->
    forall p, Need p -> s <= p < snd ispan -> covF p (linkExtras src (rfuelOf st) (unpFrom st) dspan dtext tspan ttext).
  Definition CSpecLabel : Prop := forall st s, inEntry src U st (s - 1) -> s < spanEnd st -> at_ src s = 91 ->
    let '(lspan, linner, _) := parseLinkLabel (rfuelOf st) (newReader src (unpFrom st) s) in
    spanValid lspan = true ->
    forall p id ref, Need p -> s <= p < snd lspan ->
      covN p (PN id LinkLabelKind (fst lspan) (snd lspan) 0 ref (kidsOf (collectTextNodes (rfuelOf st) (newReader src (unpFrom st) (fst linner)) (snd linner) TextKind false))).

  Hypothesis HcHtml : CSpecHTML.
  Hypothesis HcCode : CSpecCode.
  Hypothesis HcInline : CSpecInline.
  Hypothesis HcLabel : CSpecLabel.

  Let flush := Flush src U lo hi re HU Hhi Hlo.
  Lemma Pre_pl st pos pl : Pre st pos pl -> 0 <= pl /\ pl <= pos.
  Proof. intros HP. destruct (Pre_facts src U lo hi re HU Hhi Hlo st pos pl HP) as (le & _ & _ & A & _ & _ & B & _). lia. Qed.
  Lemma Pre_TI st pos pl : Pre st pos pl -> exists le, TI st le.
  Proof. intros (le & HT & _). exists le. exact HT. Qed.

  Lemma CI_flushP st pos pl : Pre st pos pl -> CI st pl -> CI (addText st pl pos) pos.
  Proof. intros HP HC. destruct (Pre_TI _ _ _ HP) as (le & HT). destruct (Pre_pl _ _ _ HP). apply (CI_flush st le); assumption. Qed.

  Lemma CI_add st le m m' kind s e kids : TI st le -> CI st m -> 0 <= s ->
    (s < e -> forall p, Need p -> m <= p < m' -> covN p (PN (nid st) kind s e 0 [] kids)) ->
    (e <= s -> forall p, Need p -> m <= p < m' -> False) ->
    CI (fst (addNode st kind s e kids)) m'.
  Proof. intros HT [A B] Hs H1 H2. split; [apply (CV_addNode st m); assumption|apply (NTS_addNode st le); assumption]. Qed.

  Lemma CI_node st pos pl kind e kids : Pre st pos pl -> CI st pl ->
    (forall p id, Need p -> pos <= p < e -> covN p (PN id kind pos e 0 [] kids)) ->
    CI (fst (addNode (addText st pl pos) kind pos e kids)) e.
  Proof.
    intros HP HC Hk. destruct (flush st pos pl HP) as (T1 & _ & P0 & _). pose proof (CI_flushP st pos pl HP HC) as HC1.
    apply (CI_add _ pos pos); try assumption.
    - intros _ p Hp Hr. apply Hk; assumption.
    - intros L p _ Hr. lia.
  Qed.
  Lemma CI_leaf st pos pl kind e : Pre st pos pl -> CI st pl -> CI (fst (addNode (addText st pl pos) kind pos e [])) e.
  Proof. intros HP HC. apply CI_node; try assumption. intros p id _ Hr. apply covN_leaf. exact Hr. Qed.
  Lemma CI_setIgn st m v : CI st m -> CI (setIgn st v) m. Proof. exact (fun H => H). Qed.
  Lemma CI_setUpos st m v : CI st m -> CI (setUpos st v) m. Proof. exact (fun H => H). Qed.
  Lemma CI_advanceTo st m p : CI st m -> CI (advanceTo st p) m.
  Proof. intros H. unfold advanceTo. destruct (0 <=? _); exact H. Qed.

  (* reading the source inside the current entry *)
  Lemma Need_src p : Need p -> textual (at_ src p) = true. Proof. intros [_ H]. exact H. Qed.

  Lemma istep_cov_nb st pos pl : Pre st pos pl -> CI st pl -> at_ (isrc st) pos <> 93 ->
    let '(st', pos', pl') := istep st pos pl in CI st' pl'.
  Proof.
    intros HP HC N93. unfold istep. cbv zeta.
    destruct (flush st pos pl HP) as (T1 & Hs & P0 & F & G & D & I0).
    pose proof HP as (le0 & T0 & _ & _ & C & _).
    pose proof (ti_src _ _ _ _ _ _ _ T0) as Esrc.
    pose proof (CI_flushP st pos pl HP HC) as HC1.
    destruct (Pre_pl _ _ _ HP) as [Hpl0 Hpl1].
    destruct ((at_ (isrc st) pos =? 42) || (at_ (isrc st) pos =? 95)) eqn:Ed.
    { unfold parseDelimiterRun. cbv zeta. rewrite (sameU_spanEnd _ _ Hs). destruct Hs as (_ & _ & Hs3). rewrite Hs3.
      destruct (runEnd_bounds (length (isrc st)) (isrc st) (pos + 1) (spanEnd st) (at_ (isrc st) pos)) as [R1 R2].
      pose proof (runEnd_all (length (isrc st)) (isrc st) (pos + 1) (spanEnd st) (at_ (isrc st) pos)) as Rall.
      set (e := runEnd (length (isrc st)) (isrc st) (pos + 1) (spanEnd st) (at_ (isrc st) pos)) in *.
      pose proof (CI_addDelim (addText st pl pos) pos pos pos e (if at_ (isrc st) pos =? 42 then tStar else tUnder)
                    (fActive + emphasisFlags (isrc st) pos e) (spanLen pos e) T1 HC1 P0 ltac:(lia) ltac:(lia)) as H.
      destruct (addNode (addText st pl pos) TextKind pos e []) as [st1 id]. apply H.
      - intros q Hq. rewrite <- Esrc. destruct (Z.eq_dec q pos) as [->|Nq]; [|rewrite (Rall q ltac:(lia))].
        + apply orb_true_iff in Ed. destruct Ed as [X|X]; apply Z.eqb_eq in X; rewrite X; reflexivity.
        + apply orb_true_iff in Ed. destruct Ed as [X|X]; apply Z.eqb_eq in X; rewrite X; reflexivity.
      - intros p _ Hp. lia. }
    destruct (Z.eqb_spec (at_ (isrc st) pos) 91) as [E91|N91].
    { pose proof (CI_addDelim (addText st pl pos) pos pos pos (pos + 1) tLink fActive 0 T1 HC1 P0 ltac:(lia) ltac:(lia)) as H.
      destruct (addNode (addText st pl pos) TextKind pos (pos + 1) []) as [st1 id]. apply H.
      - intros q Hq. replace q with pos by lia. rewrite <- Esrc, E91. reflexivity.
      - intros p _ Hp. lia. }
    destruct (Z.eqb_spec (at_ (isrc st) pos) 93) as [E93|_]; [contradiction|].
    destruct (Z.eqb_spec (at_ (isrc st) pos) 33) as [E33|N33].
    { destruct (Z.leb_spec (spanEnd st) (pos + 1)) as [A|A]; cbn [orb]; [exact HC|].
      destruct (Z.eqb_spec (at_ (isrc st) (pos + 1)) 91) as [E2|N2]; cbn [negb]; [|exact HC].
      pose proof (CI_addDelim (addText st pl pos) pos pos pos (pos + 2) tImage fActive 0 T1 HC1 P0 ltac:(lia) ltac:(lia)) as H.
      destruct (addNode (addText st pl pos) TextKind pos (pos + 2) []) as [st1 id]. apply H.
      - intros q Hq. rewrite <- Esrc. destruct (Z.eq_dec q pos) as [->|Nq]; [rewrite E33; reflexivity|]. replace q with (pos + 1) by lia. rewrite E2. reflexivity.
      - intros p _ Hp. lia. }
    destruct (at_ (isrc st) pos =? 32).
    { destruct (parseHardLineBreakSpace (sub (isrc st) pos (spanEnd st))) as [e ok].
      destruct (ok && negb (isLastSpan st)); [|exact HC]. apply CI_setIgn. apply CI_leaf; assumption. }
    destruct (at_ (isrc st) pos =? 96).
    { pose proof (Pre_inEntry src U lo hi re st pos pl HP I0) as HE. pose proof (HcCode st pos HE) as HS.
      destruct (parseCodeSpan (rfuelOf st) st pos) as [[cS cE] sE]. destruct (Z.leb_spec 0 sE) as [A|A]; [|exact HC].
      destruct (HS A (addText st pl pos) Hs) as (st2 & kids & E & Hst2 & Hk). rewrite E.
      assert (T2 : TI st2 pos) by (destruct Hst2 as [->|(up & ->)]; [exact T1|apply (TI_setUpos src U lo hi re), T1]).
      assert (HC2 : CI st2 pos) by (destruct Hst2 as [->|(up & ->)]; [exact HC1|exact HC1]).
      apply (CI_add st2 pos pos); try assumption.
      - intros _ p Hp Hr. apply Hk; assumption.
      - intros L p _ Hr. lia. }
    destruct (Z.eqb_spec (at_ (isrc st) pos) 60) as [E60|N60].
    { destruct (Z.leb_spec 0 (parseAutolink (sub (isrc st) pos (spanEnd st)))) as [A|A].
      - pose proof (parseAutolink_bounds _ A) as Hb. pose proof (parseAutolink_close _ A) as Hcl.
        rewrite (sub_len_entry src st pos Esrc) in Hb by lia.
        set (ae := parseAutolink (sub (isrc st) pos (spanEnd st))) in *.
        rewrite Esrc in Hcl. rewrite at_sub in Hcl by lia.
        apply CI_node; try assumption. intros p id Hp Hr. apply covN_kids; [discriminate|]. apply covF_cons. left. apply covN_leaf.
        pose proof (Need_src p Hp) as Ht.
        assert (p <> pos) by (intros ->; rewrite <- Esrc, E60 in Ht; discriminate).
        assert (p <> pos + (ae - 1)) by (intros ->; rewrite Hcl in Ht; discriminate). lia.
      - pose proof (Pre_inEntry src U lo hi re st pos pl HP I0) as HE. pose proof (HcHtml st pos HE) as HS.
        destruct HSp as (SH & _). pose proof (SH st pos HE) as HS2.
        destruct HE as (EU' & ES & _). rewrite ES.
        destruct (parseHTMLTag (rfuelOf st) (newReader src (unpFrom st) pos)) as [ts te].
        destruct (spanValid (ts, te)) eqn:Ev; cbn [negb]; [|exact HC].
        destruct (HS2 eq_refl) as (-> & H1 & H2 & H3). specialize (HS eq_refl). cbv zeta.
        rewrite (unpFrom_same _ _ Hs). apply CI_advanceTo. apply CI_node; try assumption.
        intros p id Hp Hr. pose proof (HS p Hp Hr) as Hcov. apply covN_kids; [|exact Hcov]. intros X. rewrite X in Hcov. exact (covF_nil p Hcov). }
    destruct (Z.eqb_spec (at_ (isrc st) pos) 92) as [E92|N92].
    { unfold parseBackslash. cbv zeta. rewrite (sameU_spanEnd _ _ Hs), (sameU_isLast _ _ Hs).
      assert (Hs3 : isrc (addText st pl pos) = isrc st) by (destruct Hs as (_ & _ & X); exact X). rewrite Hs3.
      destruct ((spanEnd st <=? pos + 1) || _ || _) eqn:E1.
      - destruct (isLastSpan st).
        + cbn [fst snd]. unfold addText at 1. apply (CI_add _ pos pos); try assumption; [intros _ p _ Hr; apply covN_leaf; exact Hr|intros L p _ Hr; lia].
        + cbn [fst snd]. apply (CI_add (setIgn (addText st pl pos) true) pos pos); try assumption; [apply (TI_setIgn src U lo hi re), T1|intros _ p _ Hr; apply covN_leaf; exact Hr|intros L p _ Hr; lia].
      - destruct (isASCIIPunctuation _); cbn [fst snd].
        + unfold addText at 1. apply (CI_add _ pos pos); try assumption; [lia| |intros L; lia].
          intros _ p Hp Hr. apply covN_leaf. assert (p <> pos) by (intros ->; pose proof (Need_src pos Hp) as Ht; rewrite <- Esrc, E92 in Ht; discriminate). lia.
        + unfold addText at 1. apply (CI_add _ pos pos); try assumption; [intros _ p _ Hr; apply covN_leaf; exact Hr|intros L p _ Hr; lia]. }
    destruct (at_ (isrc st) pos =? 38).
    { destruct (Z.ltb_spec (parseCharacterEscape (sub (isrc st) pos (spanEnd st))) 0) as [A|A]; [exact HC|]. apply CI_leaf; assumption. }
    destruct (Z.eqb_spec (at_ (isrc st) pos) 10) as [E10|N10].
    { destruct (negb (isLastSpan (addText st pl pos))); [apply CI_leaf; assumption|].
      destruct HC1 as [A B]. split; [|exact B]. apply (CV_raise _ pos); [exact A|]. intros p Hp Hr. replace p with pos in Hp by lia.
      pose proof (Need_src pos Hp) as Ht. rewrite <- Esrc, E10 in Ht. discriminate. }
    destruct (Z.eqb_spec (at_ (isrc st) pos) 13) as [E13|N13].
    { set (w := if (pos + 1 <? spanEnd (addText st pl pos)) && (at_ (isrc st) (pos + 1) =? 10) then 2 else 1).
      destruct (negb (isLastSpan (addText st pl pos))); [apply CI_leaf; assumption|].
      destruct HC1 as [A B]. split; [|exact B]. apply (CV_raise _ pos); [exact A|]. intros p Hp Hr.
      pose proof (Need_src p Hp) as Ht. destruct (Z.eq_dec p pos) as [->|Np]; [rewrite <- Esrc, E13 in Ht; discriminate|].
      unfold w in Hr. destruct ((pos + 1 <? spanEnd (addText st pl pos)) && (at_ (isrc st) (pos + 1) =? 10)) eqn:Ew; [|lia].
      apply andb_true_iff in Ew. destruct Ew as [_ Ew]. apply Z.eqb_eq in Ew. replace p with (pos + 1) in Ht by lia. rewrite <- Esrc, Ew in Ht. discriminate. }
    exact HC.
  Qed.

  (* ---- the closing bracket ---- *)
  Notation CovRel := (CoverEmph.CovRel src).
  Notation NTG := (CoverEmph.NTG src).

  Lemma finishLink_cov st kind S1 od S2 pre bracket lid kd s E ref K G :
    rk st = pre ++ [bracket; PN lid kd s E 0 ref K] -> IdsOK st -> stk st = S1 ++ od :: S2 ->
    pid bracket = d_node od -> 0 < d_node od -> subIds (map d_node S2) K -> GOK G st ->
    exists K', rk (finishLink st kind (len S1)) = pre ++ [PN lid kd s E 0 ref K'] /\ CovRel G K K' /\
       map d_node (stk (finishLink st kind (len S1))) = map d_node S1.
  Proof.
    intros Hrk Hids Hs Eb Pb HS2 HG. unfold finishLink.
    assert (Eod : nthD (stk st) (len S1) = od) by (rewrite Hs; apply nthD_app_len; reflexivity). rewrite Eod.
    set (c := CLast (pre ++ [bracket]) (PN lid kd s E 0 ref K)).
    assert (HP : PEI c (len S1 + 1) st K).
    { constructor; [|exact Hids| |].
      - rewrite Hrk. cbn [plug c setKids]. rewrite <- app_assoc. reflexivity.
      - rewrite Hs. change (od :: S2) with ([od] ++ S2). rewrite app_assoc.
        rewrite (from_app_len (S1 ++ [od]) S2) by (rewrite len_app, len_cons, len_nil; lia). exact HS2.
      - rewrite Hs, len_app, len_cons. pose proof (len_nonneg S1). pose proof (len_nonneg S2). lia. }
    destruct (processEmphasis_cov src c (len S1 + 1) G st K HP HG) as (K' & R1 & I1 & Hrel & F1 & St1).
    set (st1 := processEmphasis st (len S1 + 1)) in *.
    cbn [plug c setKids] in R1. rewrite <- app_assoc in R1. cbn [app] in R1.
    assert (St1' : stk st1 = S1 ++ [od]).
    { rewrite St1, Hs. change (od :: S2) with ([od] ++ S2). rewrite app_assoc. apply upto_app_len. rewrite len_app, len_cons, len_nil. lia. }
    destruct (IdsOK_remove CRoot pre bracket [PN lid kd s E 0 ref K'] (d_node od) st1 R1 Pb Eb I1) as [R2 I2].
    cbn [plug] in R2. set (st2 := removeNode st1 (d_node od)) in *.
    assert (St3 : delStack (stk st2) (len S1) (len S1 + 1) = S1).
    { change (stk st2) with (stk st1). rewrite St1'. rewrite <- (app_nil_r (S1 ++ [od])). rewrite <- app_assoc.
      rewrite (delStack_spec S1 [od] [] (len S1) (len S1 + 1)); [apply app_nil_r|reflexivity|rewrite len_cons, len_nil; lia]. }
    rewrite St3. exists K'.
    destruct (kind =? LinkKind); cbn [rk stk setStk].
    - split; [exact R2|]. split; [exact Hrel|]. apply clear_map. rewrite map_length, seq_length. reflexivity.
    - split; [exact R2|]. split; [exact Hrel|reflexivity].
  Qed.

  Lemma lfl_cov : forall fuel st i, rk (fst (lfl fuel st i)) = rk st /\ incl (stk (fst (lfl fuel st i))) (stk st).
  Proof.
    induction fuel as [|f IH]; intros st i; cbn [lfl]; [split; [reflexivity|apply incl_refl]|].
    destruct (i <? 0); [split; [reflexivity|apply incl_refl]|]. destruct (_ || _); [|apply IH].
    destruct (negb _); cbn [fst]; [split; [reflexivity|cbn [stk setStk]; apply incl_delStack]|split; [reflexivity|apply incl_refl]].
  Qed.
  Lemma NTS_sub st st' : NTS st -> rk st' = rk st -> incl (stk st') (stk st) -> NTS st'.
  Proof.
    intros H E Hi n Hn Hd. rewrite E in Hn. apply H; [exact Hn|]. apply in_map_iff in Hd. destruct Hd as (d & <- & Hd). apply in_map. apply Hi. exact Hd.
  Qed.
  Lemma CI_sub st st' m : CI st m -> rk st' = rk st -> incl (stk st') (stk st) -> CI st' m.
  Proof. intros [A B] E Hi. split; [intros p Hp Hl; rewrite E; apply A; assumption|apply (NTS_sub st); assumption]. Qed.

  Lemma pidsN_zero_notin G n : pid n = 0 -> (forall d, In d G -> 0 < d) -> ~ In (pid n) G.
  Proof. intros E H X. rewrite E in X. specialize (H 0 X). lia. Qed.

  Lemma B_close_cov st pos pl : Pre st pos pl -> CI st pl -> at_ (isrc st) pos = 93 ->
    let '(st', e) := parseEndBracket (addText st pl pos) pos in CI st' e.
  Proof.
    intros HP HC E93. pose proof (Pre_IS src U lo hi re st pos pl HP) as Hin. pose proof (Pre_inEntry src U lo hi re st pos pl HP Hin) as HE.
    destruct (flush st pos pl HP) as (T1 & Hs & P0 & F & G & D & I0).
    pose proof (CI_flushP st pos pl HP HC) as HC1.
    pose proof HP as (le0 & T0 & _ & _ & C & _). pose proof (ti_src _ _ _ _ _ _ _ T0) as Esrc0.
    set (sta := addText st pl pos) in *.
    pose proof (inEntry_same src U st sta pos HE Hs) as HEa.
    assert (Hse : spanEnd sta = spanEnd st) by (apply sameU_spanEnd; exact Hs).
    assert (N93 : textual (at_ src pos) = false) by (rewrite <- Esrc0, E93; reflexivity).
    unfold parseEndBracket.
    destruct (lookFor_spec src U lo hi re sta pos T1) as (T2 & Hs2 & Hodi).
    pose proof (lfl_cov (S (length (stk sta))) sta (len (stk sta) - 1)) as Hl. fold (lookForLinkOrImage sta) in Hl.
    destruct (lookForLinkOrImage sta) as [stb odi]. cbn [fst snd] in T2, Hs2, Hodi, Hl. destruct Hl as [Hl1 Hl2].
    assert (HCb : CI stb pos) by (apply (CI_sub sta); assumption).
    (* a text node for the bracket itself *)
    assert (Htxt : forall stx, TI stx pos -> CI stx pos -> CI (addText stx pos (pos + 1)) (pos + 1)).
    { intros stx Tx Cx. unfold addText. apply (CI_add stx pos pos); try assumption; [intros _ p _ Hr; apply covN_leaf; lia|intros L; lia]. }
    destruct (Z.ltb_spec odi 0) as [Hneg|Hpos]; [apply Htxt; assumption|].
    destruct Hodi as [Hodi|[-> Hodi]]; [lia|].
    destruct (stack_split (stk sta) odi Hodi) as (S1 & S2 & ES & LS1).
    set (od := nthD (stk sta) odi) in *.
    set (kind := if d_typ od =? tImage then ImageKind else LinkKind).
    destruct (wrap_none src U lo hi re sta pos kind S1 od S2 T1 ES) as (pre & bracket & post & Erk & Eb & Lb & Nb & SA & SB & Wid & Pn & Rw & Iw & Sw & Uw & Rew).
    rewrite Nb. rewrite (ti_src _ _ _ _ _ _ _ T1).
    assert (Hnid1 : nid (fst (wrap sta kind (d_node od) None)) = nid sta + 1) by reflexivity.
    destruct (wrap sta kind (d_node od) None) as [st1 lid] eqn:Ew. cbn [fst snd] in Wid, Rw, Iw, Sw, Uw, Rew, Hnid1.
    assert (Rw' : rk st1 = (pre ++ [bracket]) ++ [PN lid kind (pe bracket) re 0 [] post]) by (rewrite Rw, Wid, <- app_assoc; reflexivity).
    assert (Pl : 0 < lid) by (rewrite Wid; exact Pn).
    assert (HEa1 : unpFrom st1 = unpFrom sta) by (apply (unpFrom_same sta st1); exact Uw).
    destruct HC1 as [HCV HNT].
    (* failure *)
    assert (Hfail : CI (setStk (addText sta pos (pos + 1)) (delStack (stk sta) odi (odi + 1))) (pos + 1)).
    { apply (CI_sub (addText sta pos (pos + 1))); [apply Htxt; [exact T1|split; assumption]|reflexivity|].
      cbn [stk setStk]. rewrite stk_addText. apply incl_delStack. }
    set (G0 := map d_node (stk sta)).
    assert (HGpos : forall d, In d G0 -> 0 < d < nid sta) by (intros d Hd; apply (stack_lt sta pos d T1 Hd)).
    assert (Pod : 0 < d_node od) by (apply HGpos; unfold G0; rewrite ES, map_app; apply in_or_app; right; left; reflexivity).
    assert (NTb : NT bracket).
    { apply HNT; [rewrite Erk; apply in_or_app; right; left; reflexivity|]. rewrite Eb. unfold G0 in *. rewrite ES, map_app. apply in_or_app. right. left. reflexivity. }
    (* success: the generic ending *)
    assert (Hfin : forall st2 E ref extras, rk st2 = (pre ++ [bracket]) ++ [PN lid kind (ps bracket) E 0 ref (post ++ extras)] -> IdsOK st2 ->
              stk st2 = stk sta -> nid st2 = nid st1 -> Forall (fun x => pid x = 0) extras ->
              (forall p, Need p -> pos <= p < E -> covF p extras) ->
              CI (finishLink st2 kind odi) E).
    { intros st2 E ref extras R2 I2 S2' N2 Hz Hex. rewrite <- app_assoc in R2. cbn [app] in R2. rewrite <- LS1.
      assert (HG : GOK G0 st2).
      { split; [rewrite S2'; apply incl_refl|]. apply Forall_forall. intros d Hd. specialize (HGpos d Hd). lia. }
      destruct (finishLink_cov st2 kind S1 od S2 pre bracket lid kind (ps bracket) E ref (post ++ extras) G0 R2 I2 ltac:(rewrite S2'; exact ES) Eb Pod
                  ltac:(apply subIds_appr; exact SB) HG) as (K' & R3 & (Hne & Hrel) & Sd).
      assert (HNTK : NTG G0 (post ++ extras)).
      { intros n Hn Hd. apply in_app_or in Hn. destruct Hn as [Hn|Hn].
        - apply HNT; [rewrite Erk; apply in_or_app; right; right; exact Hn|exact Hd].
        - rewrite Forall_forall in Hz. rewrite (Hz n Hn) in Hd. specialize (HGpos 0 Hd). lia. }
      destruct (Hrel HNTK) as [_ Hcov].
      assert (HK : forall p, Need p -> covF p (post ++ extras) -> covF p (pre ++ [PN lid kind (ps bracket) E 0 ref K'])).
      { intros p Hp X. apply covF_app. right. apply covF_cons. left. apply covN_kids; [|apply Hcov; [apply Need_src; exact Hp|exact X]].
        apply Hne. intros Y. rewrite Y in X. exact (covF_nil p X). }
      split.
      - intros p Hp Hlt. rewrite R3.
        destruct (Z.lt_ge_cases p pos) as [L|L]; [|apply HK; [exact Hp|]; apply covF_app; right; apply Hex; [exact Hp|lia]].
        specialize (HCV p Hp L). rewrite Erk in HCV. apply covF_app in HCV. destruct HCV as [X|X]; [apply covF_app; left; exact X|].
        apply covF_cons in X. destruct X as [X|X]; [|apply HK; [exact Hp|]; apply covF_app; left; exact X].
        exfalso. apply covN_iff in X. destruct X as [[_ X]|[X _]]; [|destruct Lb as (Kb & _); contradiction].
        destruct Hp as [_ Hp]. rewrite (NTb p X) in Hp. discriminate.
      - intros n Hn Hd. rewrite R3 in Hn. rewrite Sd in Hd.
        assert (HdG : In (pid n) G0) by (unfold G0; rewrite ES, map_app; apply in_or_app; left; exact Hd).
        apply in_app_or in Hn. destruct Hn as [Hn|[<-|[]]].
        + apply HNT; [rewrite Erk; apply in_or_app; left; exact Hn|exact HdG].
        + cbn [pid] in HdG. specialize (HGpos lid HdG). lia. }
    (* the fields of the states between wrap and finishLink *)
    assert (Hfin2 : forall st3 E ref extras, rk st3 = (pre ++ [bracket]) ++ [PN lid kind (ps bracket) E 0 ref (post ++ extras)] -> IdsOK st3 ->
              stk st3 = stk sta -> nid st3 = nid st1 -> Forall (fun x => pid x = 0) extras ->
              (forall p, Need p -> pos <= p < E -> covF p extras) ->
              CI (finishLink (advanceTo st3 (E - 1)) kind odi) E).
    { intros st3 E ref extras R3 I3 S3 N3 Hz Hex. destruct (advanceTo_fields st3 (E - 1)) as (Q1 & Q2 & Q3 & Q4 & Q5 & Q6).
      apply (Hfin _ E ref extras); try congruence; try assumption. unfold IdsOK. rewrite Q1, Q6. exact I3. }
    assert (Hsimple : forall E L, pos + 1 <= E -> (forall q, pos <= q < E -> textual (at_ src q) = false) ->
              let '(st', e) := (if negb (matchRef sta L)
                                then (setStk (addText sta pos (pos + 1)) (delStack (stk sta) odi (odi + 1)), pos + 1)
                                else (finishLink (updN st1 lid (fun n : pn => setRef (setSpan n (ps bracket) E) L)) kind odi, E)) in
              CI st' e).
    { intros E L HE1 Hnt. destruct (negb (matchRef sta L)); [exact Hfail|].
      destruct (setRefSpan_last st1 (pre ++ [bracket]) lid kind (pe bracket) re 0 [] post (ps bracket) E L Rw' Pl Iw) as [R2 I2].
      rewrite <- (app_nil_r post) in R2.
      apply (Hfin _ E L []); try assumption; try reflexivity; [constructor|].
      intros p Hp Hr. destruct Hp as [_ Hp]. rewrite (Hnt p Hr) in Hp. discriminate. }
    set (ti := if (pos + 1 <? spanEnd sta) && (at_ src (pos + 1) =? 40)
               then let '(ispan, (dspan, dtext), (tspan, ttext)) := parseInlineLink (rfuelOf sta) sta (pos + 1) in
                    if spanValid ispan then Some (ispan, dspan, dtext, tspan, ttext) else None
               else None).
    destruct ti as [[[[[ispan dspan] dtext] tspan] ttext]|] eqn:Eti.
    - (* inline link *)
      unfold ti in Eti. destruct ((pos + 1 <? spanEnd sta) && (at_ src (pos + 1) =? 40)) eqn:Ec; [|discriminate].
      apply andb_true_iff in Ec. destruct Ec as [Ec Ec40]. apply Z.ltb_lt in Ec. apply Z.eqb_eq in Ec40.
      pose proof (HcInline sta (pos + 1) ltac:(replace (pos + 1 - 1) with pos by lia; exact HEa) Ec Ec40) as HS.
      destruct (parseInlineLink (rfuelOf sta) sta (pos + 1)) as [[ispan' [dspan' dtext']] [tspan' ttext']].
      destruct (spanValid ispan') eqn:Ev; [|discriminate]. inversion Eti; subst ispan' dspan' dtext' tspan' ttext'. clear Eti.
      specialize (HS eq_refl).
      destruct (setSpan_last st1 (pre ++ [bracket]) lid kind (pe bracket) re 0 [] post (ps bracket) (snd ispan) Rw' Pl Iw) as [R2 I2].
      set (st2 := updN st1 lid (fun n : pn => setSpan n (ps bracket) (snd ispan))) in *.
      assert (Euf : unpFrom st2 = unpFrom sta) by exact HEa1.
      unfold linkExtras in HS.
      assert (Hex : forall extras, extras = (if spanValid dspan then [destNode src (rfuelOf sta) (unpFrom sta) dspan dtext] else []) ++
                                             (if spanValid tspan then [titleNode src (rfuelOf sta) (unpFrom sta) tspan ttext] else []) ->
                    forall p, Need p -> pos <= p < snd ispan -> covF p extras).
      { intros extras -> p Hp Hr. destruct (Z.eq_dec p pos) as [->|Np]; [destruct Hp as [_ Hp]; rewrite N93 in Hp; discriminate|]. apply HS; [exact Hp|lia]. }
      destruct (spanValid dspan) eqn:Ed; destruct (spanValid tspan) eqn:Et.
      * rewrite Euf.
        destruct (appendKid_last st2 (pre ++ [bracket]) lid kind (ps bracket) (snd ispan) 0 [] post (destNode src (rfuelOf sta) (unpFrom sta) dspan dtext) R2 Pl I2 (pidsN_destNode _ _ _ _ _)) as [R3 I3].
        fold (destNode src (rfuelOf sta) (unpFrom sta) dspan dtext).
        set (st3 := appendKid st2 lid (destNode src (rfuelOf sta) (unpFrom sta) dspan dtext)) in *.
        assert (Euf3 : unpFrom st3 = unpFrom sta) by exact Euf. rewrite Euf3.
        destruct (appendKid_last st3 (pre ++ [bracket]) lid kind (ps bracket) (snd ispan) 0 [] (post ++ [destNode src (rfuelOf sta) (unpFrom sta) dspan dtext]) (titleNode src (rfuelOf sta) (unpFrom sta) tspan ttext) R3 Pl I3 (pidsN_titleNode _ _ _ _ _)) as [R4 I4].
        fold (titleNode src (rfuelOf sta) (unpFrom sta) tspan ttext).
        apply (Hfin2 _ (snd ispan) [] ([destNode src (rfuelOf sta) (unpFrom sta) dspan dtext] ++ [titleNode src (rfuelOf sta) (unpFrom sta) tspan ttext])); try assumption; try reflexivity.
        -- rewrite (app_assoc post). exact R4.
        -- repeat constructor.
        -- apply Hex. reflexivity.
      * rewrite Euf.
        destruct (appendKid_last st2 (pre ++ [bracket]) lid kind (ps bracket) (snd ispan) 0 [] post (destNode src (rfuelOf sta) (unpFrom sta) dspan dtext) R2 Pl I2 (pidsN_destNode _ _ _ _ _)) as [R3 I3].
        fold (destNode src (rfuelOf sta) (unpFrom sta) dspan dtext).
        apply (Hfin2 _ (snd ispan) [] [destNode src (rfuelOf sta) (unpFrom sta) dspan dtext]); try assumption; try reflexivity.
        -- repeat constructor.
        -- apply Hex. rewrite app_nil_r. reflexivity.
      * rewrite Euf.
        destruct (appendKid_last st2 (pre ++ [bracket]) lid kind (ps bracket) (snd ispan) 0 [] post (titleNode src (rfuelOf sta) (unpFrom sta) tspan ttext) R2 Pl I2 (pidsN_titleNode _ _ _ _ _)) as [R3 I3].
        fold (titleNode src (rfuelOf sta) (unpFrom sta) tspan ttext).
        apply (Hfin2 _ (snd ispan) [] [titleNode src (rfuelOf sta) (unpFrom sta) tspan ttext]); try assumption; try reflexivity.
        -- repeat constructor.
        -- apply Hex. reflexivity.
      * rewrite <- (app_nil_r post) in R2.
        apply (Hfin2 _ (snd ispan) [] []); try assumption; try reflexivity; [constructor|]. apply Hex. reflexivity.
    - (* reference links *)
      clear Eti ti.
      destruct ((pos + 2 <? spanEnd sta) && (at_ src (pos + 1) =? 91) && (at_ src (pos + 2) =? 93)) eqn:EC.
      + cbn [negb andb]. apply andb_true_iff in EC. destruct EC as [EC EC3]. apply andb_true_iff in EC. destruct EC as [_ EC2]. apply Z.eqb_eq in EC2, EC3.
        apply (Hsimple (pos + 3)); [lia|]. intros q Hq.
        destruct (Z.eq_dec q pos) as [->|N0]; [exact N93|]. destruct (Z.eq_dec q (pos + 1)) as [->|N1]; [rewrite EC2; reflexivity|].
        replace q with (pos + 2) by lia. rewrite EC3. reflexivity.
      + cbn [negb andb].
        destruct ((pos + 1 <? spanEnd sta) && (at_ src (pos + 1) =? 91)) eqn:EL.
        * apply andb_true_iff in EL. destruct EL as [EL EL91]. apply Z.ltb_lt in EL. apply Z.eqb_eq in EL91.
          pose proof (HcLabel sta (pos + 1) ltac:(replace (pos + 1 - 1) with pos by lia; exact HEa) EL EL91) as HS.
          destruct (parseLinkLabel (rfuelOf sta) (newReader src (unpFrom sta) (pos + 1))) as [[lspan linner] rl].
          destruct (spanValid lspan) eqn:Evl; [|apply (Hsimple (pos + 1)); [lia|intros q Hq; replace q with pos by lia; exact N93]].
          specialize (HS eq_refl).
          destruct (negb (matchRef sta _)); [exact Hfail|].
          set (lkids := collectTextNodes (rfuelOf sta) (newReader src (unpFrom sta) (fst linner)) (snd linner) TextKind false) in *.
          set (LN := PN 0 LinkLabelKind (fst lspan) (snd lspan) 0 (transformLinkReference (rfuelOf sta) src lkids) (kidsOf lkids)).
          assert (HLN : pidsN LN = []) by (unfold LN; cbn [pidsN]; change (0 <? 0) with false; cbn [app]; apply pidsF_kidsOf).
          destruct (appendKid_last st1 (pre ++ [bracket]) lid kind (pe bracket) re 0 [] post LN Rw' Pl Iw HLN) as [R2 I2].
          set (st2 := appendKid st1 lid LN) in *.
          destruct (setSpan_last st2 (pre ++ [bracket]) lid kind (pe bracket) re 0 [] (post ++ [LN]) (ps bracket) (snd lspan) R2 Pl I2) as [R3 I3].
          apply (Hfin2 _ (snd lspan) [] [LN]); try assumption; try reflexivity; [repeat constructor|].
          intros p Hp Hr. apply covF_cons. left. destruct (Z.eq_dec p pos) as [->|Np]; [destruct Hp as [_ Hp]; rewrite N93 in Hp; discriminate|].
          apply HS; [exact Hp|lia].
        * change (spanValid nullSpan) with false. cbv iota. apply (Hsimple (pos + 1)); [lia|intros q Hq; replace q with pos by lia; exact N93].
  Qed.

  (* ---- one step, the loops ---- *)
  Let HS1 := proj1 HSp. Let HS2 := proj1 (proj2 HSp). Let HS3 := proj1 (proj2 (proj2 HSp)). Let HS4 := proj2 (proj2 (proj2 HSp)).

  Lemma istep_cov st pos pl : Pre st pos pl -> CI st pl -> let '(st', pos', pl') := istep st pos pl in CI st' pl'.
  Proof.
    intros HP HC. destruct (Z.eq_dec (at_ (isrc st) pos) 93) as [E|N]; [|apply istep_cov_nb; assumption].
    unfold istep. cbv zeta. rewrite E. cbn [Z.eqb Pos.eqb orb].
    pose proof (B_close_cov st pos pl HP HC E) as H. destruct (parseEndBracket (addText st pl pos) pos) as [st' e]. exact H.
  Qed.

  Lemma iloop_cov : forall fuel st pos pl, Post st pos pl -> CI st pl -> upos st <= len U ->
    let '(st', pl') := iloop fuel st pos pl in CI st' pl' /\ upos st <= upos st' <= len U.
  Proof.
    induction fuel as [|f IH]; intros st pos pl HP HC Hu; cbn [iloop]; [split; [exact HC|lia]|].
    pose proof HP as [(le & HT & A & B & C & D) HI].
    rewrite (ti_unp _ _ _ _ _ _ _ HT).
    destruct (Z.ltb_spec (upos st) (len U)) as [L1|L1]; cbn [andb]; [|split; [exact HC|lia]].
    destruct (Z.ltb_spec pos (spanEnd st)) as [L2|L2]; [|split; [exact HC|lia]].
    assert (HPre : Pre st pos pl).
    { exists le. split; [exact HT|]. split; [exact A|]. split; [exact B|]. split; [exact L2|]. split; [lia|]. apply HI. exact L1. }
    pose proof (istep_ok src U lo hi re HU Hhi Hlo HS1 HS2 HS3 HS4 st pos pl HPre) as H1.
    pose proof (istep_cov st pos pl HPre HC) as H2.
    pose proof (UQ_istep st pos pl ltac:(rewrite (ti_unp _ _ _ _ _ _ _ HT); lia)) as (Q1 & Q2 & Q3).
    destruct (istep st pos pl) as [[st' pos'] pl']. cbn [fst] in Q1, Q2, Q3. rewrite (ti_unp _ _ _ _ _ _ _ HT) in Q3. specialize (Q3 ltac:(lia)).
    specialize (IH st' pos' pl' H1 H2 Q3). destruct (iloop f st' pos' pl') as [st2 pl2]. destruct IH as [I1 I2]. split; [exact I1|lia].
  Qed.

  (* between entries: everything needed before the current entry is covered *)
  Definition OC (st : ist) : Prop :=
    (forall p, Need p -> (upos st < len U -> p < istart (nU (upos st))) -> covF p (rk st)) /\ NTS st.

  Lemma Need_before j p : 0 <= j < len U -> Need p -> p < istart (nU (j + 1)) \/ len U <= j + 1 -> ikind (nU j) <> UnparsedKind -> p < istart (nU j).
  Proof.
    intros Hj [(i & Hi & Ki & Pi) _] Hp Nk.
    destruct (Z.lt_trichotomy i j) as [L|[L|L]].
    - pose proof (entry_order U lo hi HU i j ltac:(lia) L ltac:(lia)). lia.
    - subst i. contradiction.
    - exfalso. destruct Hp as [Hp|Hp]; [|lia]. destruct (Z.eq_dec i (j + 1)) as [->|N]; [lia|].
      pose proof (entry_order U lo hi HU (j + 1) i ltac:(lia) ltac:(lia) ltac:(lia)). destruct (entry_bounds U lo hi HU (j + 1) ltac:(lia)) as (_ & X & _). lia.
  Qed.
  Lemma Need_upto j p : 0 <= j < len U -> Need p -> p < istart (nU (j + 1)) \/ len U <= j + 1 -> p < iend (nU j).
  Proof.
    intros Hj [(i & Hi & Ki & Pi) _] Hp.
    destruct (Z.le_gt_cases i j) as [L|L].
    - destruct (Z.eq_dec i j) as [->|N]; [lia|]. pose proof (entry_order U lo hi HU i j ltac:(lia) ltac:(lia) ltac:(lia)). destruct (entry_bounds U lo hi HU j Hj) as (_ & X & _). lia.
    - exfalso. destruct Hp as [Hp|Hp]; [|lia]. destruct (Z.eq_dec i (j + 1)) as [->|N]; [lia|].
      pose proof (entry_order U lo hi HU (j + 1) i ltac:(lia) ltac:(lia) ltac:(lia)). destruct (entry_bounds U lo hi HU (j + 1) ltac:(lia)) as (_ & X & _). lia.
  Qed.

  Lemma outer_cov : forall fuel st, OI src U lo hi re st -> OC st -> (Z.to_nat (len U - upos st) <= fuel)%nat ->
    (forall p, Need p -> covF p (rk (outer fuel st))) /\ NTS (outer fuel st).
  Proof.
    induction fuel as [|f IH]; intros st (le & HT & H0 & Hle) [HO HN] Hf.
    { cbn [outer]. split; [|exact HN]. intros p Hp. apply HO; [exact Hp|]. intros X. lia. }
    cbn [outer]. rewrite (ti_unp _ _ _ _ _ _ _ HT).
    destruct (Z.leb_spec (len U) (upos st)) as [L|L]; [split; [|exact HN]; intros p Hp; apply HO; [exact Hp|intros X; lia]|].
    specialize (Hle L). destruct (entry_bounds U lo hi HU (upos st) ltac:(lia)) as (B1 & B2 & B3 & B4).
    fold (nthU U (upos st)). set (u := nU (upos st)) in *.
    assert (Hnext : forall st1 le1, TI st1 le1 -> upos st1 = upos st -> le1 <= iend u -> OI src U lo hi re (setUpos st1 (upos st1 + 1))).
    { intros st1 le1 T1 E1 H1. exists le1. split; [apply (TI_setUpos src U lo hi re), T1|]. cbn [upos setUpos]. split; [lia|]. intros L2.
      rewrite E1 in *. pose proof (entry_order U lo hi HU (upos st) (upos st + 1) H0 ltac:(lia) L2) as Ho. fold u in Ho. lia. }
    (* an entry that is not tokenised: the forest may only grow by a node without identity *)
    assert (Hskip : forall st1, upos st1 = upos st -> stk st1 = stk st -> (forall q, covF q (rk st) -> covF q (rk st1)) ->
              (forall n, In n (rk st1) -> In n (rk st) \/ pid n = 0) -> ikind u <> UnparsedKind -> OC (setUpos st1 (upos st1 + 1))).
    { intros st1 E1 E2 Hmono Hin Nk. split.
      - intros q Hq Hb. cbn [rk upos setUpos] in *. apply Hmono. apply HO; [exact Hq|]. intros _. rewrite E1 in Hb.
        apply (Need_before (upos st) q ltac:(lia) Hq); [|exact Nk]. destruct (Z.lt_ge_cases (upos st + 1) (len U)); [left; apply Hb; lia|right; lia].
      - intros n Hn Hd. cbn [rk stk setUpos] in *. rewrite E2 in Hd. destruct (Hin n Hn) as [X|X]; [apply HN; assumption|].
        rewrite X in Hd. pose proof (stack_lt st le 0 HT Hd). lia. }
    assert (Hcopy : forall st0, rk st0 = rk st -> forall q, covF q (rk st) -> covF q (rk (setRk st0 (rk st0 ++ [ofInline u])))).
    { intros st0 E q Hq. cbn [rk setRk]. rewrite E. apply covF_app. left. exact Hq. }
    assert (Hcopyin : forall st0, rk st0 = rk st -> forall n, In n (rk (setRk st0 (rk st0 ++ [ofInline u]))) -> In n (rk st) \/ pid n = 0).
    { intros st0 E n Hn. cbn [rk setRk] in Hn. rewrite E in Hn. apply in_app_or in Hn. destruct Hn as [Hn|[<-|[]]]; [left; exact Hn|right; destruct u; reflexivity]. }
    destruct (Z.eqb_spec (ikind u) 0) as [E0|N0].
    { apply IH; [apply (Hnext _ le); [apply (TI_setIgn src U lo hi re), HT|reflexivity|lia]| |cbn [upos setUpos setIgn]; lia].
      apply (Hskip (setIgn st false)); try reflexivity; [tauto|intros n Hn; left; exact Hn|rewrite E0; discriminate]. }
    destruct (Z.eqb_spec (ikind u) IndentKind) as [Ei|Ni].
    { destruct (negb (ign st)).
      - apply IH; [apply (Hnext _ (iend u)); [apply (TI_copy src U lo hi re st le); assumption|reflexivity|lia]| |cbn [upos setUpos setRk]; lia].
        apply (Hskip (setRk st (rk st ++ [ofInline u]))); try reflexivity; [apply Hcopy; reflexivity|apply Hcopyin; reflexivity|rewrite Ei; discriminate].
      - apply IH; [apply (Hnext _ le); [exact HT|reflexivity|lia]| |cbn [upos setUpos]; lia].
        apply (Hskip st); try reflexivity; [tauto|intros n Hn; left; exact Hn|rewrite Ei; discriminate]. }
    destruct (Z.eqb_spec (ikind u) UnparsedKind) as [Eu|Nu].
    2:{ apply IH; [apply (Hnext _ (iend u)); [apply (TI_copy src U lo hi re (setIgn st false) le); [apply (TI_setIgn src U lo hi re), HT|assumption|assumption|assumption]|reflexivity|lia]| |cbn [upos setUpos setRk setIgn]; lia].
        apply (Hskip (setRk (setIgn st false) (rk st ++ [ofInline u]))); try reflexivity; [apply (Hcopy (setIgn st false)); reflexivity|apply (Hcopyin (setIgn st false)); reflexivity|exact Nu]. }
    (* an Unparsed entry is tokenised *)
    assert (Hse : spanEnd st = iend u) by (apply (spanEnd_in U); [exact (ti_unp _ _ _ _ _ _ _ HT)|lia]).
    change (isrc (setIgn st false)) with (isrc st).
    pose proof (skipSpTab_all (length (isrc st)) (isrc st) (istart u) (spanEnd st)) as Hall.
    set (pos0 := if ign st then skipSpTab (length (isrc st)) (isrc st) (istart u) (spanEnd st) else istart u) in *.
    assert (Hp0 : istart u <= pos0 <= spanEnd st).
    { unfold pos0. destruct (ign st); [|lia]. destruct (skipSpTab_bounds (length (isrc st)) (isrc st) (istart u) (spanEnd st)) as [X1 X2]. specialize (X2 ltac:(lia)). lia. }
    assert (HPost : Post (setIgn st false) pos0 pos0).
    { split.
      - exists le. split; [apply (TI_setIgn src U lo hi re), HT|]. change (spanEnd (setIgn st false)) with (spanEnd st). cbn [upos setIgn]. lia.
      - unfold IS. cbn [upos setIgn]. intros _. fold u. lia. }
    assert (HC0 : CI (setIgn st false) pos0).
    { split; [|exact HN]. intros q Hq Hl. cbn [rk setIgn].
      destruct (Z.lt_ge_cases q (istart u)) as [X|X]; [apply HO; [exact Hq|intros _; exact X]|]. exfalso.
      assert (Hsk : isSpTab (at_ (isrc st) q) = true) by (unfold pos0 in Hl; destruct (ign st); [apply Hall; lia|lia]).
      rewrite (ti_src _ _ _ _ _ _ _ HT) in Hsk. destruct Hq as [_ Hq]. rewrite (spTab_nontextual _ Hsk) in Hq. discriminate. }
    pose proof (iloop_ok src U lo hi re HU Hhi Hlo HS1 HS2 HS3 HS4 (S (length (isrc st))) (setIgn st false) pos0 pos0 HPost) as H.
    pose proof (iloop_cov (S (length (isrc st))) (setIgn st false) pos0 pos0 HPost HC0 ltac:(cbn [upos setIgn]; lia)) as Hc.
    destruct (iloop (S (length (isrc st))) (setIgn st false) pos0 pos0) as [st' pl']. destruct H as (le' & T' & A' & B' & C'). destruct Hc as [Hc Hup]. cbn [upos setIgn] in Hup.
    pose proof (spanEnd_le U lo hi HU st' (ti_unp _ _ _ _ _ _ _ T') (U_nonempty U st ltac:(lia)) C') as Hb.
    pose proof (TI_addText src U lo hi re st' le' pl' (spanEnd st') T' A' B' ltac:(lia)) as T2.
    pose proof (sameU_addText st' pl' (spanEnd st')) as (_ & Eu' & _).
    pose proof (TI_lo src U lo hi re st' le' T') as Hlo'.
    apply IH; [| |cbn [upos setUpos]; rewrite Eu'; lia].
    - exists (spanEnd st'). split; [apply (TI_setUpos src U lo hi re), T2|]. cbn [upos setUpos]. rewrite Eu'. split; [lia|]. intros L2.
      rewrite (spanEnd_in U st' (ti_unp _ _ _ _ _ _ _ T') ltac:(lia)). apply (entry_order U lo hi HU); lia.
    - pose proof (CI_flush st' le' pl' (spanEnd st') T' Hc ltac:(lia) B') as [HcV HcN]. split; [|exact HcN].
      intros q Hq Hbq. cbn [rk upos setUpos] in *. rewrite Eu' in Hbq. apply HcV; [exact Hq|].
      destruct (Z.lt_ge_cases (upos st') (len U)) as [X|X].
      + rewrite (spanEnd_in U st' (ti_unp _ _ _ _ _ _ _ T') ltac:(lia)).
        apply (Need_upto (upos st') q ltac:(lia) Hq). destruct (Z.lt_ge_cases (upos st' + 1) (len U)); [left; apply Hbq; lia|right; lia].
      + rewrite (spanEnd_out src U st' (ti_unp _ _ _ _ _ _ _ T') (ti_src _ _ _ _ _ _ _ T') X).
        destruct Hq as [(i & Hi & _ & Pi) _]. pose proof (P_ge src U lo hi HEC i Hi). unfold SpanRdr.P in *. lia.
  Qed.

  Theorem parseInlines_covF m : forall p, Need p ->
    covF p (rk (processEmphasis (outer (S (length U)) {| rk := []; isrc := src; unp := U; upos := 0; stk := []; ign := false; nid := 1; rootEnd := re; matcher := m |}) 0)).
  Proof.
    set (st0 := {| rk := []; isrc := src; unp := U; upos := 0; stk := []; ign := false; nid := 1; rootEnd := re; matcher := m |}).
    assert (H0 : OI src U lo hi re st0).
    { exists lo. split.
      - constructor; cbn [rk stk unp isrc rootEnd st0]; try reflexivity; try exact I; try apply (lo_le_hi U lo hi HU).
        + cbn. lia.
        + unfold IdsOK. cbn [rk nid st0 pidsF flat_map]. split; [constructor|]. split; [constructor|lia].
      - cbn [upos st0]. split; [lia|]. intros L. apply (entry_bounds U lo hi HU 0). lia. }
    assert (HC0 : OC st0).
    { split; [|intros n []]. intros p [(i & Hi & _ & Pi) _] Hb. exfalso. cbn [upos st0] in Hb. specialize (Hb ltac:(lia)).
      destruct (Z.eq_dec i 0) as [->|N]; [lia|]. pose proof (entry_order U lo hi HU 0 i ltac:(lia) ltac:(lia) ltac:(lia)). destruct (entry_bounds U lo hi HU 0 ltac:(lia)) as (_ & X & _). lia. }
    destruct (outer_cov (S (length U)) st0 H0 HC0 ltac:(cbn [upos st0]; unfold len; lia)) as [Hcov HNT].
    destruct (outer_ok src U lo hi re HU Hhi Hlo HS1 HS2 HS3 HS4 (S (length U)) st0 H0) as (le & HT).
    set (st1 := outer (S (length U)) st0) in *.
    assert (HP : PEI CRoot 0 st1 (rk st1)).
    { constructor; [reflexivity|exact (ti_ids _ _ _ _ _ _ _ HT)|exact (ti_stk _ _ _ _ _ _ _ HT)|]. pose proof (len_nonneg (stk st1)). lia. }
    assert (HG : GOK (map d_node (stk st1)) st1).
    { split; [apply incl_refl|]. apply Forall_forall. intros d Hd. apply (stack_lt st1 le d HT Hd). }
    destruct (processEmphasis_cov src CRoot 0 (map d_node (stk st1)) st1 (rk st1) HP HG) as (L' & R1 & _ & (_ & Hrel) & _).
    cbn [plug] in R1. intros p Hp. rewrite R1. destruct (Hrel HNT) as [_ Hc]. apply Hc; [apply Need_src; exact Hp|apply Hcov; exact Hp].
  Qed.
End CovTok.
Print Assumptions parseInlines_covF.
