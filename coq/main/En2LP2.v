From Coq Require Import List ZArith Lia Bool.
Import ListNotations.
Require Import Base Tree Rdr Link Collect Html Recog LP Rules Starts Driver L2Kind L2CC BSDef BSRdr BSTree BSOcp BSOrph BSClose BSLine1 BSLine2 BSLine3 BSLine4
  GramTree GramLP GramLP2 Cursor CursorX NoPanic12 ShDef ShRdr ShClose ShEnv ShLine1 ShLine2 ShFresh ShStarts2.
Require Import ShapesBase EntBase EntOcpDefs En2Tree EntCur En2LP1.
Open Scope Z_scope.

(* ================================================================================================
   T28, part 5: cursor moves, collectInline on containers without entry conditions, the match rules and
   descendOpenBlocks.  Through the descent only prefix bytes are consumed (`clean`), unless the line is consumed.
   ================================================================================================ *)
Lemma EP_advance B p n : EP B p -> EP B (advance p n).
Proof. intros H. apply (EP_cstep B p); [apply cstep_advance|apply Itab_advance, H|exact H]. Qed.
Lemma EP_consumeLine B p : EP B p -> EP B (consumeLine p).
Proof. intros H. apply (EP_cstep B p); [apply cstep_consumeLine|apply Itab_consumeLine, H|exact H]. Qed.
Lemma EP_consumeIndent B p n : EP B p -> EP B (consumeIndent p n).
Proof. intros H. apply (EP_cstep B p); [apply cstep_consumeIndent|apply Itab_consumeIndent, H|exact H]. Qed.
Lemma EP_panic B p s : EP B p -> EP B (panic p s).
Proof. intros H. apply (EP_cstep B p); [apply cstep_panic| |exact H]. destruct H as (_ & _ & _ & H & _). exact H. Qed.

Lemma root_cstep p p' : cstep p p' -> root p' = root p. Proof. intros ((E & _) & _). exact E. Qed.

Lemma ckind_bik p g K : ckind p K -> ckind (updCont p (fun b => set_bik b (g b))) K.
Proof. apply ckind_updCont. intros b. destruct b; reflexivity. Qed.

Lemma noU_snoc a u : noU a -> ikind u <> UnparsedKind -> noU (a ++ [u]).
Proof. intros Ha Hu. apply noU_app; [exact Ha|]. intros v [<-|[]]. exact Hu. Qed.
Lemma ikind_info src s e : ikind (parseInfoString src s e) = InfoStringKind.
Proof. unfold parseInfoString. destruct (infoString_loop _ _ _ _ _ _). reflexivity. Qed.

Lemma EP_collectInline_free B p kind n K : EP B p -> ckind p K -> freeK K -> kind <> UnparsedKind ->
  EP B (collectInline p kind n) /\ (ppT (root (collectInline p kind n)) -> ppT (root p)).
Proof.
  intros HE Hck HK Hkind. unfold collectInline. destruct (_ =? stDescendTerminated); [split; [apply EP_panic, HE|tauto]|]. cbv zeta.
  set (p0 := if state p =? stOpening then withState p stOpenMatched else p).
  assert (H0 : EP B p0) by (apply EP_opened, HE).
  assert (K0 : ckind p0 K) by (eapply ckind_cstep; [apply cstep_opened|exact Hck]).
  assert (R0 : root p0 = root p) by (unfold p0; destruct (_ =? _); reflexivity).
  set (p1 := if 0 <? indent p0 then _ else p0).
  assert (H1 : EP B p1 /\ ckind p1 K /\ (ppT (root p1) -> ppT (root p))).
  { unfold p1. destruct (0 <? indent p0); [|rewrite R0; tauto].
    set (q := advance p0 (indentLength (rest p0))).
    assert (Hq : EP B q) by (apply EP_advance, H0).
    assert (Kq : ckind q K) by (eapply ckind_cstep; [apply cstep_advance|exact K0]).
    assert (Rq : root q = root p) by (unfold q; rewrite (root_cstep _ _ (cstep_advance p0 _)); exact R0).
    match goal with |- EP B (updCont q (fun b => set_bik b (@?G b))) /\ _ =>
      destruct (EP_addik_free B q G K Hq Kq HK ltac:(intros b Hb; apply noU_snoc; [exact Hb|discriminate])) as [E1 E2];
      split; [exact E1|split; [apply ckind_bik, Kq|rewrite <- Rq; exact E2]] end. }
  destruct H1 as (H1 & K1 & P1).
  set (q2 := advance p1 n).
  assert (H2 : EP B q2) by (apply EP_advance, H1).
  assert (K2 : ckind q2 K) by (eapply ckind_cstep; [apply cstep_advance|exact K1]).
  assert (R2 : root q2 = root p1) by apply (root_cstep _ _ (cstep_advance p1 n)).
  assert (Hnode : forall src s e, ikind (if kind =? InfoStringKind then parseInfoString src s e else mkI kind s e) <> UnparsedKind).
  { intros src s e. destruct (kind =? InfoStringKind); [rewrite ikind_info; discriminate|exact Hkind]. }
  match goal with |- EP B (updCont q2 (fun b => set_bik b (@?G b))) /\ _ =>
    destruct (EP_addik_free B q2 G K H2 K2 HK ltac:(intros b Hb; apply noU_snoc; [exact Hb|apply Hnode])) as [E1 E2];
    split; [exact E1|intros Hp; apply P1; rewrite <- R2; apply E2, Hp] end.
Qed.

(* ---- match rules ---- *)
Lemma gstep_cstep p p' : gstep p p' -> cstep p p'. Proof. intros [A _]. exact A. Qed.

Lemma gstep_eatQuoteMarker p : curP p -> hasBytePrefix (bytesAfterIndent p) [62] = true -> gstep p (eatQuoteMarker p (indent p)).
Proof.
  intros Hc Hp. unfold eatQuoteMarker. cbv zeta.
  pose proof (spstep_consumeIndent p (indent p)) as S1. set (p1 := consumeIndent p (indent p)) in *.
  destruct (after_blanks p p1 62 Hc S1 Hp eq_refl) as (A1 & A2 & A3 & A4).
  assert (Hb : gapB (at_ (line p1) (li p1))).
  { rewrite (cstep_line p p1 (proj1 S1)). destruct (Z.eq_dec (li p1) (li p + indentLength (rest p))) as [E|N].
    - rewrite E, A2. right. right. reflexivity.
    - apply isSpTab_gapB, A4. lia. }
  pose proof (gstep_advance1 p1 Hb) as S2. set (p2 := advance p1 1) in *.
  assert (S12 : gstep p p2) by (eapply gstep_trans; [apply gstep_of_spstep, S1|exact S2]).
  destruct (0 <? indent p2); [|exact S12]. eapply gstep_trans; [exact S12|apply gstep_consumeIndent].
Qed.

(* what a match rule does: either it only consumes prefix bytes, or it consumes the line in descending state *)
Lemma matchRule_ent B q : EP B q -> state q = stDescending ->
  EP B (snd (matchRule q)) /\
  ((state (snd (matchRule q)) = stDescendTerminated /\ li (snd (matchRule q)) = len (line (snd (matchRule q)))) \/
   (gstep q (snd (matchRule q)) /\ state (snd (matchRule q)) = stDescending)) /\
  (fst (matchRule q) = true -> containerKind q = ParagraphKind -> isRestBlank (snd (matchRule q)) = false).
Proof.
  intros HE Hs. pose proof HE as (A & A1 & A2 & A3 & A4).
  assert (Hg : forall q', gstep q q' -> sstep q q' -> Itab q' ->
            EP B q' /\ ((state q' = stDescendTerminated /\ li q' = len (line q')) \/ (gstep q q' /\ state q' = stDescending))).
  { intros q' Hq Hst Hi. split; [apply (EP_cstep B q); [apply gstep_cstep, Hq|exact Hi|exact HE]|right; split; [exact Hq|]].
    destruct Hst as [X|[X _]]; [congruence|rewrite Hs in X; discriminate]. }
  unfold matchRule. cbv zeta.
  destruct ((containerKind q =? documentKind) || (containerKind q =? ListKind)) eqn:E1.
  { cbn [fst snd]. destruct (Hg q (gstep_refl q) (sstep_refl q) A3) as [G1 G2]. split; [exact G1|split; [exact G2|]].
    intros _ Ek. rewrite Ek in E1. discriminate. }
  destruct (Z.eqb_spec (containerKind q) ListItemKind) as [E2|N2].
  { unfold matchListItem. assert (Np : containerKind q = ParagraphKind -> False) by (intros Ek; rewrite Ek in E2; discriminate).
    destruct (isRestBlank q).
    - destruct (negb _); cbn [fst snd].
      + destruct (Hg q (gstep_refl q) (sstep_refl q) A3) as [G1 G2]. split; [exact G1|split; [exact G2|intros _ Ek; contradiction]].
      + destruct (Hg _ (gstep_consumeIndent q (indent q)) (sstep_consumeIndent q (indent q)) (Itab_consumeIndent q _ A3)) as [G1 G2]. split; [exact G1|split; [exact G2|intros _ Ek; contradiction]].
    - destruct (_ <=? _); cbn [fst snd].
      + destruct (Hg _ (gstep_consumeIndent q (bindent (contBlock q))) (sstep_consumeIndent q (bindent (contBlock q))) (Itab_consumeIndent q _ A3)) as [G1 G2]. split; [exact G1|split; [exact G2|intros _ Ek; contradiction]].
      + destruct (Hg q (gstep_refl q) (sstep_refl q) A3) as [G1 G2]. split; [exact G1|split; [exact G2|intros _ Ek; contradiction]]. }
  destruct (Z.eqb_spec (containerKind q) BlockQuoteKind) as [E3|N3].
  { unfold matchBlockQuote. cbv zeta. assert (Np : containerKind q = ParagraphKind -> False) by (intros Ek; rewrite Ek in E3; discriminate).
    destruct (_ <=? _); cbn [fst snd]; [destruct (Hg q (gstep_refl q) (sstep_refl q) A3) as [G1 G2]; split; [exact G1|split; [exact G2|intros _ Ek; contradiction]]|].
    destruct (hasBytePrefix (bytesAfterIndent q) [62]) eqn:Eq; cbn [negb fst snd];
      [|destruct (Hg q (gstep_refl q) (sstep_refl q) A3) as [G1 G2]; split; [exact G1|split; [exact G2|intros _ Ek; contradiction]]].
    pose proof (gstep_eatQuoteMarker q A1 Eq) as Sq.
    assert (Hi : Itab (eatQuoteMarker q (indent q))).
    { unfold eatQuoteMarker. cbv zeta. destruct (0 <? _); [apply Itab_consumeIndent|]; apply Itab_advance, Itab_consumeIndent, A3. }
    assert (Hss : sstep q (eatQuoteMarker q (indent q))).
    { unfold eatQuoteMarker. cbv zeta. destruct (0 <? _); [eapply sstep_trans; [|apply sstep_consumeIndent]|]; (eapply sstep_trans; [apply sstep_consumeIndent|apply sstep_advance]). }
    destruct (Hg _ Sq Hss Hi) as [G1 G2]. split; [exact G1|split; [exact G2|intros _ Ek; contradiction]]. }
  destruct (Z.eqb_spec (containerKind q) FencedCodeBlockKind) as [E4|N4].
  { unfold matchFenced. cbv zeta. assert (Np : containerKind q = ParagraphKind -> False) by (intros Ek; rewrite Ek in E4; discriminate).
    destruct (if _ <? _ then _ else false); cbn [fst snd].
    - split; [apply EP_consumeLine, HE|]. split; [left; split; [apply state_consumeLine_desc, Hs|]|intros; discriminate].
      rewrite (li_consumeLine q (proj2 A1)). destruct (env_parts _ _ (env_consumeLine q)) as (_ & _ & X). rewrite X. reflexivity.
    - match goal with |- context [consumeIndent q ?n] => destruct (Hg _ (gstep_consumeIndent q n) (sstep_consumeIndent q n) (Itab_consumeIndent q n A3)) as [G1 G2] end.
      split; [exact G1|split; [exact G2|intros _ Ek; contradiction]]. }
  destruct (Z.eqb_spec (containerKind q) IndentedCodeBlockKind) as [E5|N5].
  { unfold matchIndented. cbv zeta. assert (Np : containerKind q = ParagraphKind -> False) by (intros Ek; rewrite Ek in E5; discriminate).
    destruct (_ <? _); [destruct (negb _)|]; cbn [fst snd].
    - destruct (Hg q (gstep_refl q) (sstep_refl q) A3) as [G1 G2]. split; [exact G1|split; [exact G2|intros _ Ek; contradiction]].
    - destruct (Hg _ (gstep_consumeIndent q (indent q)) (sstep_consumeIndent q (indent q)) (Itab_consumeIndent q _ A3)) as [G1 G2]. split; [exact G1|split; [exact G2|intros _ Ek; contradiction]].
    - destruct (Hg _ (gstep_consumeIndent q codeBlockIndentLimit) (sstep_consumeIndent q codeBlockIndentLimit) (Itab_consumeIndent q _ A3)) as [G1 G2]. split; [exact G1|split; [exact G2|intros _ Ek; contradiction]]. }
  destruct (Z.eqb_spec (containerKind q) HTMLBlockKind) as [E6|N6].
  { unfold matchHTML. assert (Np : containerKind q = ParagraphKind -> False) by (intros Ek; rewrite Ek in E6; discriminate).
    destruct (htmlEnd _ _); [|cbn [fst snd]; destruct (Hg q (gstep_refl q) (sstep_refl q) A3) as [G1 G2]; split; [exact G1|split; [exact G2|intros _ Ek; contradiction]]].
    destruct (isRestBlank q); cbn [fst snd]; [destruct (Hg q (gstep_refl q) (sstep_refl q) A3) as [G1 G2]; split; [exact G1|split; [exact G2|intros; discriminate]]|].
    assert (Hck : ckind q HTMLBlockKind).
    { intros b Hb. unfold containerKind, contBlock in E6. rewrite Hb in E6. exact E6. }
    destruct (EP_collectInline_free B q RawHTMLKind (len (bytesAfterIndent q)) HTMLBlockKind HE Hck ltac:(repeat split; discriminate) ltac:(discriminate)) as [C1 _].
    split; [apply EP_consumeLine, C1|]. split; [|intros; discriminate]. left. split.
    - apply state_consumeLine_desc.
      destruct (sstep_collectInline q RawHTMLKind (len (bytesAfterIndent q))) as [Hst|[Hst _]]; [congruence|rewrite Hs in Hst; discriminate].
    - pose proof C1 as (_ & (_ & X1) & _). rewrite (li_consumeLine _ X1). destruct (env_parts _ _ (env_consumeLine (collectInline q RawHTMLKind (len (bytesAfterIndent q))))) as (_ & _ & X). rewrite X. reflexivity. }
  cbn [fst snd]. destruct (Hg q (gstep_refl q) (sstep_refl q) A3) as [G1 G2]. split; [exact G1|split; [exact G2|]].
  intros Hb _. apply negb_true_iff in Hb. exact Hb.
Qed.

(* ---- descendOpenBlocks ---- *)
Lemma EP_withCont B p d : EP B p -> (exists x, getAt d (root p) = Some x) -> EP B (withCont p (Some d)).
Proof.
  intros HE Hx. pose proof HE as (A & A1 & A2 & A3 & A4).
  apply (EP_tree B p); [reflexivity|repeat split|apply ccP_withCont; assumption|exact A4|exact HE].
Qed.
Lemma EP_withState B p s : EP B p -> EP B (withState p s).
Proof. intros H. apply (EP_cstep B p); [apply cstep_withState| |exact H]. destruct H as (_ & _ & _ & H & _). exact H. Qed.

Definition paraNB (p : lp) : Prop := containerKind p = ParagraphKind -> isRestBlank p = false.

Lemma paraNB_ext p p' : root p' = root p -> cdepth p' = cdepth p -> rest p' = rest p -> paraNB p -> paraNB p'.
Proof. intros R C E H. unfold paraNB, containerKind, contBlock, isRestBlank in *. rewrite R, C, E. exact H. Qed.

Lemma paraNB_child p : ccP p -> (exists c, getAt (S (cdepth p)) (root p) = Some c) -> paraNB p.
Proof.
  intros (_ & Hcc & (x & Hx)) (c & Hc) E. exfalso. pose proof (cc_spine (cdepth p) (root p) x c Hcc Hx Hc) as Hcan.
  unfold containerKind, contBlock in E. rewrite Hx in E. rewrite E in Hcan. discriminate.
Qed.

Lemma descend_ent B : forall fuel p d, EP B p -> clean p -> cdepth p = d -> paraNB p ->
  EP B (snd (descend_loop fuel p d)) /\
  (state (snd (descend_loop fuel p d)) = stDescendTerminated \/
   (clean (snd (descend_loop fuel p d)) /\ root (snd (descend_loop fuel p d)) = root p /\ paraNB (snd (descend_loop fuel p d)))).
Proof.
  induction fuel as [|f IH]; intros p d HE Hcl Ed Hnb.
  - cbn [descend_loop fst snd]. pose proof HE as (_ & _ & (_ & _ & Hw) & _). unfold wf in Hw. rewrite Ed in Hw.
    split; [apply EP_withCont; assumption|]. right. split; [exact Hcl|split; [reflexivity|]].
    apply (paraNB_ext p); [reflexivity|cbn; symmetry; exact Ed|reflexivity|exact Hnb].
  - assert (Hexit : EP B (withCont p (Some d)) /\
              (state (withCont p (Some d)) = stDescendTerminated \/
               (clean (withCont p (Some d)) /\ root (withCont p (Some d)) = root p /\ paraNB (withCont p (Some d))))).
    { pose proof HE as (_ & _ & (_ & _ & Hw) & _). unfold wf in Hw. rewrite Ed in Hw.
      split; [apply EP_withCont; assumption|]. right. split; [exact Hcl|split; [reflexivity|]].
      apply (paraNB_ext p); [reflexivity|cbn; symmetry; exact Ed|reflexivity|exact Hnb]. }
    cbn [descend_loop]. cbv zeta.
    destruct (getAt (S d) (root p)) as [c|] eqn:Ec; [|exact Hexit].
    destruct (isOpen c) eqn:Eo; cbn [negb]; [|exact Hexit].
    assert (H1 : EP B (withCont p (Some (S d)))) by (apply EP_withCont; [exact HE|eauto]).
    destruct (negb (hasMatch (bkind c))); [cbn [fst snd]; exact Hexit|].
    set (q := withState (withCont p (Some (S d))) stDescending).
    assert (Hq : EP B q) by (apply EP_withState, H1).
    assert (Hclq : clean q) by exact Hcl.
    destruct (matchRule_ent B q Hq eq_refl) as (M1 & M2 & M3). pose proof (cdepth_matchRule q) as Ecd. change (cdepth q) with (S d) in Ecd.
    destruct (matchRule q) as [ok p2]. cbn [fst snd] in M1, M2, M3, Ecd.
    destruct (Z.eqb_spec (state p2) stDescendTerminated) as [Et|Et].
    { cbn [fst snd]. pose proof M1 as (Ae & (C0 & C1) & _).
      assert (Hbd : bdy B (lineStart p2 + li p2)).
      { destruct M2 as [[_ M2]|M2]; [rewrite M2; apply bdy_H, Ae|].
        destruct M2 as [_ M2]. rewrite M2 in Et. discriminate. }
      destruct (EP_closeAt B p2 d (lineStart p2 + li p2) d M1 ltac:(lia) ltac:(lia) ltac:(lia) Hbd) as [H3 _].
      split; [exact H3|left; exact Et]. }
    destruct M2 as [[M2 _]|[M2 _]]; [contradiction|].
    assert (Hcl2 : clean p2) by (eapply clean_gstep; eassumption).
    assert (R2 : root p2 = root p) by (rewrite (root_cstep q p2 (gstep_cstep _ _ M2)); reflexivity).
    destruct (negb ok) eqn:Eok.
    { cbn [fst snd].
      assert (HEx : EP B (withCont p2 (Some d))).
      { apply EP_withCont; [exact M1|]. pose proof HE as (_ & _ & (_ & _ & Hw) & _). unfold wf in Hw. rewrite Ed in Hw. rewrite R2. exact Hw. }
      split; [exact HEx|]. right. split; [exact Hcl2|split; [exact R2|]].
      apply paraNB_child; [apply HEx|]. exists c. cbn [cdepth container withCont setLP root]. rewrite R2. exact Ec. }
    apply negb_false_iff in Eok. subst ok.
    assert (Hnb2 : paraNB p2).
    { intros Ek. apply (M3 eq_refl). unfold containerKind, contBlock in *. rewrite Ecd, R2 in Ek. exact Ek. }
    destruct (IH p2 (S d) M1 Hcl2 Ecd Hnb2) as [I1 I2]. split; [exact I1|].
    destruct I2 as [I2|(I2 & I3 & I4)]; [left; exact I2|right]. split; [exact I2|split; [congruence|exact I4]].
Qed.
