From Coq Require Import List ZArith Lia Bool.
Import ListNotations.
Require Import Base Tables Utf8 Tree Rdr Link Collect Html Recog Inl3a Inl3b Inl3c Inl3d Inl3e Props Leaf3a Leaf3e RdrBound.
Require Import SpanForest SpanIds SpanStack SpanEmph SpanSmall SpanTok SpanRdr SpanCollect SpanScan SpanHtml CoverLeaves CoverEmph CoverUpos CoverTok.
Open Scope Z_scope.

(* ================================================================================================
   T41, part 2, scanner layer 1: collectTextNodes covers every textual byte of an Unparsed entry in
   its range by a leaf (a Text piece, or a CharacterReference leaf); the only bytes it leaves out are
   the backslash of a backslash escape and bytes outside the Unparsed entries.
   ================================================================================================ *)
Section CCol.
  Variables (src : bytes) (U : list inline) (lo hi : Z).
  Hypothesis HEC : EC src U lo hi.
  Notation nU := (nthU U).
  Notation P := (SpanRdr.P src U).
  Notation AliveAt := (SpanRdr.AliveAt src U).
  Notation Off := (SpanRdr.Off src U).
  Notation RS := (SpanRdr.RS src U).
  Notation foc := (SpanRdr.foc U).
  Notation byteAt := (SpanRdr.byteAt src U).
  Notation EU := (CoverTok.EU U).
  Notation Need := (CoverTok.Need src U).

  Lemma notEU_between k q : 0 <= k -> k + 1 < len U -> iend (nU k) <= q < istart (nU (k + 1)) -> ~ EU q.
  Proof.
    intros Hk Hk1 Hq (i & Hi & _ & Hin).
    destruct (Z.lt_trichotomy i k) as [L|[L|L]].
    - pose proof (eo src U lo hi HEC i k ltac:(lia) L ltac:(lia)). destruct (eb src U lo hi HEC k ltac:(lia)). lia.
    - subst i. lia.
    - destruct (Z.eq_dec i (k + 1)) as [->|N]; [lia|].
      pose proof (eo src U lo hi HEC (k + 1) i ltac:(lia) ltac:(lia) ltac:(lia)). destruct (eb src U lo hi HEC (k + 1) ltac:(lia)). lia.
  Qed.
  Lemma notEU_after k q : 0 <= k -> k + 1 = len U -> iend (nU k) <= q -> ~ EU q.
  Proof.
    intros Hk Hk1 Hq (i & Hi & _ & Hin).
    destruct (Z.eq_dec i k) as [->|N]; [lia|].
    pose proof (eo src U lo hi HEC i k ltac:(lia) ltac:(lia) ltac:(lia)). destruct (eb src U lo hi HEC k ltac:(lia)). lia.
  Qed.
  Lemma notEU_indent k q : 0 <= k < len U -> ikind (nU k) = IndentKind -> istart (nU k) <= q < iend (nU k) -> ~ EU q.
  Proof.
    intros Hk Ei Hq (i & Hi & Eu & Hin).
    pose proof (entry_unique src U lo hi HEC k i q Hk Hi Hq Hin) as ->. rewrite Ei in Eu. discriminate.
  Qed.

  (* between two consecutive reader positions there is no byte of an Unparsed entry *)
  Lemma next_gap r k : AliveAt r k -> forall q, r_pos r < q < r_pos (snd (next r)) -> ~ EU q.
  Proof.
    intros A q Hq. pose proof (alive_pos src U lo hi HEC r k A) as (A1 & A2 & _).
    destruct (next_alive src U lo hi HEC r k A) as (_ & _ & [(_ & _ & [[_ Z]|[_ Z]])|[(_ & Hk & Ep & Hl & _)|(_ & _ & _ & Ep & _)]]); try lia.
    rewrite Ep in Hq.
    destruct (Z.lt_ge_cases q (iend (nU k))) as [L|L].
    - destruct Hl as [Ei|El]; [|lia]. apply (notEU_indent k q A2 Ei). lia.
    - apply (notEU_between k q); lia.
  Qed.

  Lemma skipSame_gap : forall fuel r k, AliveAt r k -> ikind (nU k) = IndentKind -> 0 <= r_vpos r ->
    (Z.to_nat (iindent (nU k) - r_vpos r) < fuel)%nat ->
    forall q, r_pos r <= q < r_pos (skipSameNode fuel r (nU k)) -> ~ EU q.
  Proof.
    induction fuel as [|f IH]; intros r k A Ei Hv Hf; [lia|]. cbn [skipSameNode].
    pose proof (alive_pos src U lo hi HEC r k A) as (A1 & A2 & A3 & A4 & A5).
    pose proof (next_gap r k A) as Hg.
    destruct (Z.lt_ge_cases (r_vpos r) (iindent (nU k))) as [L|L].
    - destruct (next_indent src U lo hi HEC r k A Ei L) as (X & Y & Zp & Zv & Zw). destruct (next r) as [ok r1]. cbn [fst snd] in *. subst ok. cbn [negb].
      rewrite (curNode_alive src U lo hi HEC r1 k Y). rewrite !Z.eqb_refl. cbn [andb]. fold (foc r1 k).
      intros q Hq. apply (IH (foc r1 k) k (AliveAt_foc src U r1 k Y) Ei ltac:(cbn [r_vpos SpanRdr.foc]; lia) ltac:(cbn [r_vpos SpanRdr.foc]; lia) q).
      cbn [r_pos SpanRdr.foc]. lia.
    - assert (Hfin : forall q, r_pos r <= q < r_pos (snd (next r)) -> ~ EU q).
      { intros q Hq. destruct (Z.eq_dec q (r_pos r)) as [->|N]; [apply (notEU_indent k _ A2 Ei); lia|apply Hg; lia]. }
      destruct (next_leave src U lo hi HEC r k A Ei L) as (Epv & Ep & [(X & Hk & Y)|(X & Y)]); destruct (next r) as [ok r1]; cbn [fst snd] in *; subst ok; cbn [negb].
      + destruct Y as [Y|Y].
        * rewrite (curNode_alive src U lo hi HEC r1 (k + 1) Y).
          assert (Ne : (istart (nU (k + 1)) =? istart (nU k)) = false).
          { apply Z.eqb_neq. pose proof (eo src U lo hi HEC k (k + 1) ltac:(lia) ltac:(lia) Hk). lia. }
          rewrite Ne, andb_false_r. cbn [andb r_pos]. exact Hfin.
        * rewrite (curNode_off src U r1 Y). cbn [okind andb r_pos].
          exact Hfin.
      + exact Hfin.
  Qed.

  Lemma textual_92 : textual 92 = false. Proof. reflexivity. Qed.

  Section Loop.
    Variables (tk : Z) (esc : bool) (e a0 : Z).

    Definition CA (acc : list inline) (ps : Z) : Prop := forall q, Need q -> a0 <= q < ps -> covF q (kidsOf acc).
    Definition NG (r : reader) (ps : Z) : Prop := forall q, ps <= q -> r_prev r < q < r_pos r -> ~ EU q.
    Definition CJ (fuel : nat) (r : reader) (ps : Z) (acc : list inline) : Prop :=
      RS false r /\ 0 <= r_vpos r /\ r_prev r < r_pos r /\ ps <= r_pos r /\ (ps = r_pos r \/ ps <= r_prev r + 1) /\
      CA acc ps /\ NG r ps /\ (Z.to_nat (P - r_pos r) + 4 <= fuel)%nat.

    Lemma covF_snoc q acc x : covF q (kidsOf (acc ++ [x])) <-> covF q (kidsOf acc) \/ covN q (ofInline x).
    Proof.
      rewrite kidsOf_app, covF_app. cbn [kidsOf map]. rewrite covF_cons. pose proof (covF_nil q). tauto.
    Qed.
    Lemma covN_mkI q k s e' : covN q (ofInline (mkI k s e')) <-> s <= q < e'.
    Proof. reflexivity. Qed.

    Lemma CA_snoc acc x ps : CA acc ps -> CA (acc ++ [x]) ps.
    Proof. intros H q Hn Hq. apply covF_snoc. left. apply H; assumption. Qed.
    (* extend the covered prefix by a leaf [s, e') and a stretch without needed bytes *)
    Lemma CA_leaf acc ps k s e' ps' : CA acc ps -> s <= ps ->
      (forall q, Need q -> e' <= q < ps' -> ps <= q -> False) -> CA (acc ++ [mkI k s e']) ps'.
    Proof.
      intros H Hs Hg q Hn Hq. apply covF_snoc.
      destruct (Z.lt_ge_cases q ps) as [L|L]; [left; apply H; [exact Hn|lia]|].
      destruct (Z.lt_ge_cases q e') as [L2|L2]; [right; apply covN_mkI; lia|].
      exfalso. apply (Hg q Hn); lia.
    Qed.
    Lemma CA_skip acc ps ps' : CA acc ps -> (forall q, Need q -> ps <= q < ps' -> False) -> CA acc ps'.
    Proof.
      intros H Hg q Hn Hq. destruct (Z.lt_ge_cases q ps) as [L|L]; [apply H; [exact Hn|lia]|].
      exfalso. apply (Hg q Hn); lia.
    Qed.

    Lemma collect_loop_cov : forall fuel r ps acc, CJ fuel r ps acc ->
      CA (fst (collect_loop fuel r e tk esc ps acc)) (snd (collect_loop fuel r e tk esc ps acc)).
    Proof.
      induction fuel as [|f IH]; intros r ps acc (HR & Hv & Hpv & Hps & Hpp & HCA & HNG & Hf); [exact HCA|].
      cbn [collect_loop].
      destruct (Z.leb_spec e (r_pos r)) as [Le|Le]; [exact HCA|].
      (* the common tail *)
      assert (Htail : forall r' ps' acc', RS false r' -> 0 <= r_vpos r' ->
                ((exists k, AliveAt r' k /\ ikind (nU k) <> IndentKind) \/ Off r') -> ps' <= r_pos r' -> CA acc' ps' ->
                (Z.to_nat (P - r_pos r') + 4 <= S f)%nat ->
                CA (fst (if e <=? r_pos r' then (acc', ps') else
                          let '(ok, r1) := next r' in
                          if negb ok then (acc', ps') else
                          if jumped r1 then collect_loop f r1 e tk esc (r_pos r1)
                                              (if ps' <=? r_prev r1 then acc' ++ [mkI tk ps' (r_prev r1 + 1)] else acc')
                          else collect_loop f r1 e tk esc ps' acc'))
                    (snd (if e <=? r_pos r' then (acc', ps') else
                          let '(ok, r1) := next r' in
                          if negb ok then (acc', ps') else
                          if jumped r1 then collect_loop f r1 e tk esc (r_pos r1)
                                              (if ps' <=? r_prev r1 then acc' ++ [mkI tk ps' (r_prev r1 + 1)] else acc')
                          else collect_loop f r1 e tk esc ps' acc'))).
      { intros r' ps' acc' HR' Hv' Hcl Hps' HCA' Hf'.
        destruct (Z.leb_spec e (r_pos r')) as [Hpe|Hpe]; [exact HCA'|].
        destruct (RS_next src U lo hi HEC false r' HR') as (N1 & N2 & N3 & N4).
        pose proof (vpos_next r' Hv') as Hv1.
        destruct Hcl as [(k & A & Ni)|HO].
        2:{ destruct (next_off src U r' HO) as (X & _). destruct (next r') as [ok r1]. cbn [fst] in X. subst ok. exact HCA'. }
        pose proof (RS_next_strict src U lo hi HEC r' k A Ni) as Hst.
        pose proof (next_gap r' k A) as Hg.
        pose proof (alive_pos src U lo hi HEC r' k A) as (A1 & A2 & A3 & A4 & A5).
        destruct (next r') as [ok r1]. cbn [fst snd] in *. destruct ok; cbn [negb]; [|exact HCA'].
        destruct (N3 eq_refl) as (M1 & M2 & M3 & _). specialize (Hst eq_refl).
        destruct (jumped r1) eqn:Ej.
        - apply jumped_true in Ej.
          apply IH. split; [exact N1|]. split; [exact Hv1|]. split; [lia|]. split; [lia|]. split; [left; reflexivity|].
          split; [|split; [intros q Q1 Q2; lia|lia]].
          replace (ps' <=? r_prev r1) with true by (symmetry; apply Z.leb_le; lia).
          apply (CA_leaf acc' ps'); [exact HCA'|lia|].
          intros q (Hq & _) Q1 Q2. apply (Hg q); [lia|exact Hq].
        - apply jumped_false in Ej. apply IH. split; [exact N1|]. split; [exact Hv1|]. split; [lia|]. split; [lia|]. split; [right; lia|].
          split; [exact HCA'|]. split; [intros q Q1 Q2; lia|lia]. }
      destruct HR as ([(k & A)|[HO _]] & HB1 & HB2).
      2:{ rewrite (curNode_off src U r HO). cbn [okind]. change (0 =? IndentKind) with false. change (0 =? UnparsedKind) with false. rewrite andb_false_r. cbv iota.
          match goal with |- context [if e <=? ?x then _ else _] => destruct (e <=? x) end; [exact HCA|]. fold (SpanRdr.dead r).
          destruct (next_off src U (SpanRdr.dead r) (Off_dead src U r HO)) as (X & _).
          destruct (next (SpanRdr.dead r)) as [ok r1]. cbn [fst] in X. subst ok. exact HCA. }
      pose proof (alive_pos src U lo hi HEC r k A) as (A1 & A2 & A3 & A4 & A5).
      pose proof (AliveAt_foc src U r k A) as A'.
      rewrite (curNode_alive src U lo hi HEC r k A). cbn [okind]. fold (foc r k).
      destruct (ec_kind _ _ _ _ HEC k A2) as [Ek|Ek]; rewrite Ek.
      2:{ (* an Indent entry is copied whole; none of its bytes is needed *)
          change (IndentKind =? IndentKind) with true. cbv iota. cbn [r_pos r_prev SpanRdr.foc].
          pose proof (ec_width _ _ _ _ HEC k A2 Ek) as Hw. pose proof (ec_indent _ _ _ _ HEC k A2 Ek) as Hi.
          destruct (skipSame_spec src U lo hi HEC (S f) (foc r k) k A' Ek ltac:(cbn [r_vpos SpanRdr.foc]; lia) ltac:(cbn [r_vpos SpanRdr.foc]; lia)) as (S1 & S2 & S3).
          pose proof (skipSame_gap (S f) (foc r k) k A' Ek ltac:(cbn [r_vpos SpanRdr.foc]; lia) ltac:(cbn [r_vpos SpanRdr.foc]; lia)) as Sg.
          cbn [r_pos SpanRdr.foc] in S3, Sg.
          apply IH. split; [exact S1|]. split; [apply vpos_skipSame; cbn [r_vpos SpanRdr.foc]; exact Hv|]. split; [lia|]. split; [lia|]. split; [left; reflexivity|].
          split; [|split; [intros q Q1 Q2; lia|lia]].
          apply CA_snoc.
          assert (Hrest : forall q, Need q -> ps <= q -> r_prev r < q -> q < r_pos (skipSameNode (S f) (foc r k) (nU k)) -> False).
          { intros q (Hq & _) Q1 Q2 Q3. destruct (Z.lt_ge_cases q (r_pos r)) as [L|L]; [apply (HNG q Q1); [lia|exact Hq]|apply (Sg q); [lia|exact Hq]]. }
          destruct (Z.ltb_spec ps (r_pos r)) as [Lp|Lp].
          - apply (CA_leaf acc ps); [exact HCA|lia|]. intros q Hn Q1 Q2. apply (Hrest q Hn); lia.
          - apply (CA_skip acc ps); [exact HCA|]. intros q Hn Q1. apply (Hrest q Hn); lia. }
      change (UnparsedKind =? IndentKind) with false. change (UnparsedKind =? UnparsedKind) with true. rewrite andb_true_r. cbv iota.
      assert (Nk : ikind (nU k) <> IndentKind) by (rewrite Ek; discriminate).
      assert (HRf : RS false (foc r k)) by (split; [left; exists k; exact A'|cbn [r_prev SpanRdr.foc]; lia]).
      assert (Htail0 : forall r', AliveAt r' k -> r_pos r' = r_pos r -> r_prev r' = r_prev r -> r_vpos r' = r_vpos r ->
                CA (fst (if e <=? r_pos r' then (acc, ps) else
                          let '(ok, r1) := next r' in
                          if negb ok then (acc, ps) else
                          if jumped r1 then collect_loop f r1 e tk esc (r_pos r1) (if ps <=? r_prev r1 then acc ++ [mkI tk ps (r_prev r1 + 1)] else acc)
                          else collect_loop f r1 e tk esc ps acc))
                    (snd (if e <=? r_pos r' then (acc, ps) else
                          let '(ok, r1) := next r' in
                          if negb ok then (acc, ps) else
                          if jumped r1 then collect_loop f r1 e tk esc (r_pos r1) (if ps <=? r_prev r1 then acc ++ [mkI tk ps (r_prev r1 + 1)] else acc)
                          else collect_loop f r1 e tk esc ps acc))).
      { intros r' Ar Ep Epv Evv. apply Htail; try lia.
        - split; [left; exists k; exact Ar|lia].
        - left. exists k. tauto.
        - exact HCA. }
      destruct esc; [|apply (Htail0 (foc r k)); [exact A'|reflexivity|reflexivity|reflexivity]].
      (* escapes *)
      rewrite (current_alive src U lo hi HEC (foc r k) k A'). pose proof (AliveAt_foc src U (foc r k) k A') as A''.
      set (r1 := foc (foc r k) k) in *.
      assert (Eb : byteAt (foc r k) k = if at_ src (r_pos r) =? 0 then nullRepl (r_vpos r) else at_ src (r_pos r)).
      { unfold SpanRdr.byteAt. rewrite Ek. reflexivity. }
      destruct (Z.eqb_spec (byteAt (foc r k) k) 92) as [E92|N92].
      - (* backslash *)
        assert (Es92 : at_ src (r_pos r) = 92).
        { rewrite Eb in E92. destruct (at_ src (r_pos r) =? 0); [|exact E92]. unfold nullRepl in E92. destruct (_ =? 0); [discriminate|]. destruct (_ =? 1); discriminate. }
        assert (HR1 : RS false r1) by (split; [left; exists k; exact A''|cbn; lia]).
        destruct (RS_next src U lo hi HEC false r1 HR1) as (N1 & N2 & N3 & N4).
        pose proof (vpos_next r1 ltac:(cbn; lia)) as Hv2.
        pose proof (RS_next_strict src U lo hi HEC r1 k A'' Nk) as Hst.
        destruct (next_alive src U lo hi HEC r1 k A'') as (_ & Epv & Hcases).
        destruct (next r1) as [ok r2] eqn:En. cbn [fst snd] in *.
        destruct ok.
        + destruct (N3 eq_refl) as (M1 & M2 & M3 & _). specialize (Hst eq_refl). cbn [r_pos SpanRdr.foc r1] in M2, Hst.
          assert (A2k : AliveAt r2 k /\ r_pos r2 = r_pos r + 1).
          { destruct Hcases as [(_ & Y & [[Z _]|[_ Z]])|[(_ & Hk & Ep & [Hl|Hl] & _)|(X & _)]]; try contradiction; try discriminate.
            - split; [exact Y|exact Z].
            - exfalso. cbn [r_pos SpanRdr.foc r1] in Hl. destruct (ec_eol _ _ _ _ HEC k ltac:(lia) Hk) as (_ & He). specialize (He Nk).
              replace (iend (nU k) - 1) with (r_pos r) in He by lia. rewrite Es92 in He. discriminate. }
          destruct A2k as [A2k Ep2].
          cbn [andb]. destruct ((r_pos r2 <? e) && isASCIIPunctuation (cur r2)) eqn:Ec.
          * apply Htail; try lia.
            -- exact N1.
            -- left. exists k. tauto.
            -- rewrite M2. cbn [r_pos SpanRdr.foc r1].
               assert (Hbs : forall q, Need q -> r_pos r <= q < r_pos r2 -> False).
               { intros q (_ & Ht) Q. replace q with (r_pos r) in Ht by lia. rewrite Es92, textual_92 in Ht. discriminate. }
               destruct (Z.ltb_spec ps (r_pos r)) as [Lp|Lp].
               ++ apply (CA_leaf acc ps); [exact HCA|lia|]. intros q Hn Q1 Q2. apply (Hbs q Hn); lia.
               ++ apply (CA_skip acc ps); [exact HCA|]. intros q Hn Q1. apply (Hbs q Hn); lia.
          * apply Htail; try lia.
            -- exact N1.
            -- left. exists k. tauto.
            -- exact HCA.
        + cbn [andb].
          destruct Hcases as [(X & _)|[(X & _)|(_ & _ & Y & _)]]; try discriminate.
          destruct (e <=? r_pos r2); [exact HCA|].
          destruct (next_off src U r2 Y) as (X & _). destruct (next r2) as [ok r3]. cbn [fst] in X. subst ok. exact HCA.
      - destruct (Z.eqb_spec (byteAt (foc r k) k) 38) as [E38|N38]; [|apply (Htail0 r1); [exact A''|reflexivity|reflexivity|reflexivity]].
        (* character reference *)
        rewrite (remaining_alive src U lo hi HEC r1 k A''). cbn [r_pos SpanRdr.foc r1].
        set (rem := sub src (r_pos r) (iend (nU k))). fold (foc r1 k). pose proof (AliveAt_foc src U r1 k A'') as Af3.
        destruct (Z.leb_spec 0 (parseCharacterEscape rem)) as [Len|Len]; [|apply (Htail0 (foc r1 k)); [exact Af3|reflexivity|reflexivity|reflexivity]].
        pose proof (parseCharacterEscape_bounds rem Len) as Hb.
        pose proof (ec_hi _ _ _ _ HEC) as Hhi. destruct (eb src U lo hi HEC k A2) as (B1 & B2 & B3).
        assert (Hlr : len rem = iend (nU k) - r_pos r) by (apply len_sub; lia).
        set (en := parseCharacterEscape rem) in *.
        destruct (nextN_inside src U lo hi HEC (Z.to_nat (en - 1)) (foc r1 k) k Af3 Nk ltac:(cbn [r_pos SpanRdr.foc r1]; lia) ltac:(cbn; lia)) as (Q1 & Q2 & Q3 & Q4).
        cbn [r_pos SpanRdr.foc r1] in Q2, Q4. set (r3 := nextN (Z.to_nat (en - 1)) (foc r1 k)) in *.
        pose proof (P_ge src U lo hi HEC k A2) as Pg.
        assert (HR3 : RS false r3).
        { split; [left; exists k; exact Q1|]. destruct (Z.eq_dec en 1) as [E1|N1]; [|rewrite Q4 by lia; lia].
          unfold r3. replace (Z.to_nat (en - 1)) with O by lia. cbn [nextN r_prev SpanRdr.foc r1]. lia. }
        destruct (RS_next src U lo hi HEC false r3 HR3) as (N1 & N2 & N3 & N4).
        pose proof (vpos_next r3 Q3) as Hv4. pose proof (RS_next_strict src U lo hi HEC r3 k Q1 Nk) as Hst.
        pose proof (next_gap r3 k Q1) as Hg.
        assert (HCA2 : CA ((if ps <? r_pos r then acc ++ [mkI tk ps (r_pos r)] else acc) ++ [mkI CharacterReferenceKind (r_pos r) (r_pos r + en)]) (r_pos r + en)).
        { destruct (Z.ltb_spec ps (r_pos r)) as [Lp|Lp].
          - apply (CA_leaf _ (r_pos r)); [|lia|intros; lia]. apply (CA_leaf acc ps); [exact HCA|lia|intros; lia].
          - apply (CA_leaf acc ps); [exact HCA|lia|intros; lia]. }
        destruct (next r3) as [ok r4]. cbn [fst snd] in *. destruct ok; cbn [negb]; [|exact HCA2].
        destruct (N3 eq_refl) as (M1 & M2 & M3 & _). specialize (Hst eq_refl).
        apply IH. split; [exact N1|]. split; [exact Hv4|]. split; [lia|]. split; [lia|]. split; [right; lia|]. split; [exact HCA2|].
        split; [|lia]. intros q Q5 Q6. apply Hg. lia.
    Qed.
  End Loop.

  Lemma collect_cov fuel r e tk esc : RS false r -> 0 <= r_vpos r -> r_prev r < r_pos r -> (Z.to_nat (P - r_pos r) + 4 <= fuel)%nat ->
    forall q, Need q -> r_pos r <= q < e -> covF q (kidsOf (collectTextNodes fuel r e tk esc)).
  Proof.
    intros HR Hv Hpv Hf q Hn Hq. unfold collectTextNodes.
    pose proof (collect_loop_cov tk esc e (r_pos r) fuel r (r_pos r) []) as H.
    destruct (collect_loop fuel r e tk esc (r_pos r) []) as [acc ps]. cbn [fst snd] in H.
    assert (HC : CA (r_pos r) acc ps).
    { apply H. split; [exact HR|]. split; [exact Hv|]. split; [exact Hpv|]. split; [lia|]. split; [left; reflexivity|].
      split; [intros q' _ Q; lia|]. split; [intros q' Q1 Q2; lia|exact Hf]. }
    destruct (Z.ltb_spec ps e) as [L|L].
    - destruct (Z.lt_ge_cases q ps) as [L2|L2].
      + apply covF_snoc. left. apply HC; [exact Hn|lia].
      + apply covF_snoc. right. apply covN_mkI. lia.
    - apply HC; [exact Hn|lia].
  Qed.

  Lemma collect_new_cov fuel j a e tk esc : RS false (newReader src (from_ U j) a) -> (Z.to_nat P + 4 <= fuel)%nat ->
    forall q, Need q -> a <= q < e -> covF q (kidsOf (collectTextNodes fuel (newReader src (from_ U j) a) e tk esc)).
  Proof.
    intros HR Hf q Hn Hq.
    pose proof (RS_pos0 src U lo hi HEC false _ HR) as Hp0. cbn [r_pos newReader] in Hp0.
    apply collect_cov; try assumption; cbn [r_vpos r_prev r_pos newReader]; lia.
  Qed.
End CCol.

(* ---- the raw-HTML scanner: its children are the collected text of the tag ---- *)
Section CHtml.
  Variables (src : bytes) (U : list inline) (lo hi : Z).
  Hypothesis HEC : EC src U lo hi.

  Theorem CSpecHTML_holds : CSpecHTML src U.
  Proof.
    intros st pos HE. destruct (inEntry_reader src U st pos HE) as (Eu & Es & Hj & Hp & Hse). rewrite Eu.
    pose proof (RS_new src U lo hi HEC true pos (upos st) (upos st) ltac:(lia) ltac:(lia) Hp) as HR.
    pose proof (SpanHtml.parseHTMLTag_spec src U lo hi HEC (rfuelOf st) _ HR) as H.
    destruct (parseHTMLTag (rfuelOf st) (newReader src (from_ U (upos st)) pos)) as [ts te]. cbn [fst snd r_pos newReader] in H.
    intros Hv. destruct (H Hv) as (H1 & H2). subst ts. intros p Hn Hq.
    apply (collect_new_cov src U lo hi HEC (rfuelOf st) (upos st) pos te RawHTMLKind false
             (RS_weaken src U true _ HR) (fuel_ok src U lo hi HEC st (upos st) Es Hj) p Hn Hq).
  Qed.
End CHtml.
Print Assumptions collect_new_cov.
Print Assumptions CSpecHTML_holds.
