From Coq Require Import List ZArith Lia Bool.
Import ListNotations.
Require Import Base Tree Rdr Link Collect Html Recog LP Rules Starts Driver L2Kind2.
Open Scope Z_scope.

(* T64-pure, second goal, part 1.  An ATX heading block has at most one inline entry.
   Tree invariant `atT`: every ATX heading block has no block children and at most one entry.
   Line-parser invariant `J`: the tree invariant, and no block on the right spine down to the container is an ATX heading
   (so nothing is ever added to an ATX heading, except by startATX itself, which is handled separately in part 2). *)

Definition atl (K : Z) (bk : list block) (ik : list inline) : bool :=
  negb (K =? ATXHeadingKind) || (match bk with [] => true | _ => false end) && (len ik <=? 1).
Fixpoint atT (b : block) : bool :=
  match b with Blk K _ _ bk ik _ _ _ _ _ => atl K bk ik && forallb atT bk end.
Definition atL (l : list block) : bool := forallb atT l.

Lemma atl_other K bk ik : K <> ATXHeadingKind -> atl K bk ik = true.
Proof. intros N. unfold atl. replace (K =? ATXHeadingKind) with false by (symmetry; apply Z.eqb_neq; exact N). reflexivity. Qed.
Lemma atl_kids K bk ik : atl K bk ik = true -> bk <> [] -> K <> ATXHeadingKind.
Proof.
  unfold atl. intros H Hn ->. cbn [negb orb] in H. change (ATXHeadingKind =? ATXHeadingKind) with true in H. cbn [negb orb] in H.
  destruct bk; [apply Hn; reflexivity|discriminate].
Qed.
Lemma atl_le K bk ik ik' : atl K bk ik = true -> len ik' <= len ik -> atl K bk ik' = true.
Proof.
  unfold atl. intros H Hl. destruct (negb (K =? ATXHeadingKind)); [reflexivity|]. cbn [orb] in *.
  apply andb_true_iff in H. destruct H as [H1 H2]. rewrite H1. apply Z.leb_le in H2. apply Z.leb_le. lia.
Qed.

Lemma atT_eq b : atT b = atl (bkind b) (bkids b) (bik b) && atL (bkids b).
Proof. destruct b; reflexivity. Qed.
Lemma atT_parts b : atT b = true -> atl (bkind b) (bkids b) (bik b) = true /\ atL (bkids b) = true.
Proof. rewrite atT_eq. apply andb_true_iff. Qed.
Lemma atT_intro b : atl (bkind b) (bkids b) (bik b) = true -> atL (bkids b) = true -> atT b = true.
Proof. intros A B. rewrite atT_eq, A, B. reflexivity. Qed.
Lemma atT_kids_notATX b : atT b = true -> bkids b <> [] -> bkind b <> ATXHeadingKind.
Proof. intros H. apply atT_parts in H. destruct H as [H _]. eapply atl_kids. exact H. Qed.

Lemma atT_set_bend b v : atT (set_bend b v) = atT b. Proof. destruct b; reflexivity. Qed.
Lemma atT_set_bstart b v : atT (set_bstart b v) = atT b. Proof. destruct b; reflexivity. Qed.
Lemma atT_set_bn b v : atT (set_bn b v) = atT b. Proof. destruct b; reflexivity. Qed.
Lemma atT_set_bchar b v : atT (set_bchar b v) = atT b. Proof. destruct b; reflexivity. Qed.
Lemma atT_set_bindent b v : atT (set_bindent b v) = atT b. Proof. destruct b; reflexivity. Qed.
Lemma atT_set_bloose b v : atT (set_bloose b v) = atT b. Proof. destruct b; reflexivity. Qed.
Lemma atT_set_blast b v : atT (set_blast b v) = atT b. Proof. destruct b; reflexivity. Qed.
Lemma atT_set_bkind b K' : K' <> ATXHeadingKind -> atT b = true -> atT (set_bkind b K') = true.
Proof.
  intros N H. apply atT_parts in H. destruct H as [_ Hk]. destruct b as [K s e bk ik a n c l lb].
  cbn [atT set_bkind bkids] in *. rewrite (atl_other _ _ _ N). exact Hk.
Qed.
Lemma atT_set_bkids b ks : bkind b <> ATXHeadingKind -> atL ks = true -> atT (set_bkids b ks) = true.
Proof. intros N Hk. destruct b. cbn [atT set_bkids bkind] in *. rewrite (atl_other _ _ _ N). exact Hk. Qed.
Lemma atT_set_bik b ik : bkind b <> ATXHeadingKind -> atT b = true -> atT (set_bik b ik) = true.
Proof. intros N H. apply atT_parts in H. destruct H as [_ H]. destruct b. cbn [atT set_bik bkind bkids] in *. rewrite (atl_other _ _ _ N). exact H. Qed.
Lemma atT_set_bik_le b ik : atT b = true -> len ik <= len (bik b) -> atT (set_bik b ik) = true.
Proof.
  intros H Hl. apply atT_parts in H. destruct H as [H Hk]. destruct b. cbn [atT set_bik bkind bkids bik] in *.
  rewrite (atl_le _ _ _ _ H Hl). exact Hk.
Qed.
Lemma atT_newBlock K pos : atT (newBlock K pos) = true.
Proof. unfold newBlock. cbn [atT forallb]. unfold atl. destruct (K =? ATXHeadingKind); reflexivity. Qed.

Lemma atL_app a b : atL (a ++ b) = atL a && atL b. Proof. apply forallb_app. Qed.
Lemma atL_removelast l : atL l = true -> atL (removelast l) = true.
Proof. apply forallb_sub. intros x. apply removelast_In. Qed.
Lemma atT_lastBlock b c : atT b = true -> lastBlock b = Some c -> atT c = true.
Proof.
  intros H Hl. apply atT_parts in H. destruct H as [_ H]. unfold atL in H. rewrite forallb_forall in H.
  apply H. eapply lastBlock_In. exact Hl.
Qed.
Lemma lastBlock_kids b c : lastBlock b = Some c -> bkids b <> [].
Proof. unfold lastBlock. intros H E. rewrite E in H. discriminate. Qed.
Lemma atT_lastBlock_notATX b c : atT b = true -> lastBlock b = Some c -> bkind b <> ATXHeadingKind.
Proof. intros H Hl. apply (atT_kids_notATX b H). eapply lastBlock_kids. exact Hl. Qed.
Lemma bkind_set_lastBlocks b repl : bkind (set_lastBlocks b repl) = bkind b. Proof. destruct b; reflexivity. Qed.
Lemma atT_set_lastBlocks b c repl : atT b = true -> lastBlock b = Some c -> atL repl = true -> atT (set_lastBlocks b repl) = true.
Proof.
  intros H Hl Hr. unfold set_lastBlocks. apply atT_set_bkids; [eapply atT_lastBlock_notATX; eassumption|].
  rewrite atL_app, Hr, andb_true_r. apply atL_removelast. apply atT_parts in H. tauto.
Qed.

Lemma atT_updAt f : (forall b, atT b = true -> atT (f b) = true) ->
  forall d b, atT b = true -> atT (updAt d f b) = true.
Proof.
  intros Hf. induction d as [|d IH]; intros b H; [apply Hf; assumption|]. cbn [updAt].
  destruct (lastBlock b) as [c|] eqn:El; [|assumption].
  apply (atT_set_lastBlocks b c); [assumption|exact El|]. unfold atL. cbn [forallb]. rewrite andb_true_r.
  apply IH. eapply atT_lastBlock; eassumption.
Qed.
Lemma atT_updAt_at f : forall d b, atT b = true ->
  (forall x, getAt d b = Some x -> atT x = true -> atT (f x) = true) -> atT (updAt d f b) = true.
Proof.
  induction d as [|d IH]; intros b H Hf; [apply Hf; [reflexivity|assumption]|]. cbn [updAt].
  destruct (lastBlock b) as [c|] eqn:El; [|assumption].
  apply (atT_set_lastBlocks b c); [assumption|exact El|]. unfold atL. cbn [forallb]. rewrite andb_true_r.
  apply IH; [eapply atT_lastBlock; eassumption|]. intros x Hx. apply Hf. cbn [getAt]. rewrite El. exact Hx.
Qed.

(* ---- onClose handlers ---- *)
Lemma atT_onCloseIndented src b : bkind b <> ATXHeadingKind -> atT b = true -> atT (onCloseIndented src b) = true.
Proof. intros N H. unfold onCloseIndented. apply atT_set_bik; assumption. Qed.
Lemma bkind_set_bloose b v : bkind (set_bloose b v) = bkind b. Proof. destruct b; reflexivity. Qed.
Lemma atT_onCloseList b : bkind b <> ATXHeadingKind -> atT b = true -> atT (onCloseList b) = true.
Proof.
  intros N H. unfold onCloseList. cbv zeta. destruct (bloose b || _); [|assumption].
  apply atT_set_bkids; [rewrite bkind_set_bloose; exact N|].
  apply atT_parts in H. destruct H as [_ H]. unfold atL in *. rewrite forallb_forall in *.
  intros x Hx. apply in_map_iff in Hx. destruct Hx as (y & <- & Hy). rewrite atT_set_bloose. apply H, Hy.
Qed.
Lemma atT_refDef s e kids : atT (refDefBlock s e kids) = true.
Proof. reflexivity. Qed.
Lemma len_from_le {A} (l : list A) n : len (from_ l n) <= len l.
Proof. unfold len, from_. rewrite skipn_length. lia. Qed.

Lemma atT_ocp : forall fuel rfuel src orig orphan r result,
  atT orig = true -> (match orphan with Some o => atT o = true | None => True end) -> atL result = true ->
  atL (ocp_loop fuel rfuel src orig orphan r result) = true.
Proof.
  induction fuel as [|f IH]; intros rfuel src orig orphan r result Ho Hor Hr.
  { cbn [ocp_loop]. rewrite atL_app, Hr. cbn. rewrite Ho. reflexivity. }
  assert (Hkeep : atL (result ++ [orig]) = true) by (rewrite atL_app, Hr; cbn; rewrite Ho; reflexivity).
  assert (Hwo : forall res, atL res = true -> atL (match orphan with Some o => res ++ [o] | None => res end) = true).
  { intros res Hres. destruct orphan as [o|]; [|assumption]. rewrite atL_app, Hres. cbn. rewrite Hor. reflexivity. }
  assert (Hcut : forall pos, atT (set_bik (set_bstart orig pos) (from_ (bik orig) (nodeIndexForPosition (bik orig) pos))) = true).
  { intros pos. apply atT_set_bik_le; [rewrite atT_set_bstart; assumption|]. rewrite bik_set_bstart. apply len_from_le. }
  cbn [ocp_loop]. cbv zeta.
  destruct (parseLinkLabel rfuel r) as [[lspan linner] r1].
  destruct (negb (spanValid lspan)); [assumption|].
  destruct (current r1) as [c r2]. destruct (negb (c =? 58)); [assumption|].
  destruct (next r2) as [? r3]. destruct (skipLinkSpace rfuel r3) as [ok r4]. destruct (negb ok); [assumption|].
  destruct (parseLinkDestination rfuel r4) as [[dspan dtext] r5]. destruct (negb (spanValid dspan)); [assumption|].
  destruct (readEOL rfuel r5) as [destEOL r6]. destruct (current r6) as [c6 r7].
  destruct (_ && _ && _); [assumption|].
  set (labelInline := Inl LinkLabelKind _ _ 0 _ _). set (destInline := Inl LinkDestinationKind _ _ 0 [] _).
  assert (H2 : atL (result ++ [refDefBlock (fst lspan) destEOL [labelInline; destInline]]) = true).
  { rewrite atL_app, Hr. reflexivity. }
  destruct (skipLinkSpace rfuel r7) as [ok2 r8]. destruct (negb ok2); [apply Hwo; assumption|].
  destruct (parseLinkTitle rfuel r8) as [[tspan ttext] r9].
  destruct (negb (spanValid tspan)).
  { destruct (destEOL <? 0); [assumption|]. destruct (_ <? 0); [apply Hwo; assumption|].
    apply IH; [apply Hcut|assumption|assumption]. }
  destruct (readEOL rfuel r9) as [titleEOL r10].
  destruct (titleEOL <? 0).
  { destruct (destEOL <? 0); [assumption|]. destruct (_ <? 0); [apply Hwo; assumption|].
    rewrite app_assoc, atL_app, H2. cbn. rewrite Hcut. reflexivity. }
  set (titleInline := Inl LinkTitleKind _ _ 0 [] _).
  assert (H3 : atL (result ++ [refDefBlock (fst lspan) titleEOL [labelInline; destInline; titleInline]]) = true).
  { rewrite atL_app, Hr. reflexivity. }
  destruct (_ <? 0); [apply Hwo; assumption|]. apply IH; [apply Hcut|assumption|assumption].
Qed.

Lemma atT_onCloseParagraph src orig : atT orig = true -> atL (onCloseParagraph src orig) = true.
Proof.
  intros H. unfold onCloseParagraph. destruct (bik orig) as [|first rest] eqn:Eb; [cbn; rewrite H; reflexivity|].
  cbv zeta. rewrite <- Eb. apply atT_ocp; [assumption| |reflexivity].
  destruct (bkind orig =? SetextHeadingKind); [|exact I]. reflexivity.
Qed.

Lemma atT_closeBlock src e : forall fuel b, atT b = true -> atL (closeBlock fuel src b e) = true.
Proof.
  induction fuel as [|f IH]; intros b H; [cbn; rewrite H; reflexivity|]. cbn [closeBlock].
  destruct (negb (isOpen b)); [cbn; rewrite H; reflexivity|]. cbv zeta.
  assert (Hcl : forall x, atT x = true ->
            atT (match lastBlock x with Some c => set_lastBlocks x (closeBlock f src c e) | None => x end) = true).
  { intros x Hx. destruct (lastBlock x) as [c|] eqn:El; [|assumption].
    apply (atT_set_lastBlocks x c); [assumption|exact El|]. apply IH. eapply atT_lastBlock; eassumption. }
  assert (H1 : atT (set_bend b e) = true) by (rewrite atT_set_bend; assumption).
  destruct (Z.eqb_spec (bkind (set_bend b e)) ListKind) as [E1|N1].
  { cbn [atL forallb]. rewrite Hcl; [reflexivity|]. apply atT_onCloseList; [rewrite E1; discriminate|assumption]. }
  destruct (Z.eqb_spec (bkind (set_bend b e)) IndentedCodeBlockKind) as [E2|N2].
  { cbn [atL forallb]. rewrite Hcl; [reflexivity|]. apply atT_onCloseIndented; [rewrite E2; discriminate|assumption]. }
  destruct (_ || _); [apply atT_onCloseParagraph; assumption|].
  cbn [atL forallb]. rewrite Hcl; [reflexivity|assumption].
Qed.

(* ---- the right spine ---- *)
Definition spineNA (n : nat) (rt : block) : Prop :=
  forall k b, (k <= n)%nat -> getAt k rt = Some b -> bkind b <> ATXHeadingKind.
Definition J (p : lp) : Prop := atT (root p) = true /\ spineNA (cdepth p) (root p).
(* the container is one level below a spine without ATX heading (inside startATX) *)
Definition JU (d : nat) (p : lp) : Prop := cdepth p = S d /\ atT (root p) = true /\ spineNA d (root p).

Lemma spineNA_le n m rt : (m <= n)%nat -> spineNA n rt -> spineNA m rt.
Proof. intros L H k b Hk. apply H. lia. Qed.
Lemma spineNA_kinds n r r' : (forall k, (k <= n)%nat -> option_map bkind (getAt k r') = option_map bkind (getAt k r)) ->
  spineNA n r -> spineNA n r'.
Proof.
  intros Hk H k b Lk Hb. specialize (Hk k Lk). rewrite Hb in Hk. cbn in Hk.
  destruct (getAt k r) as [b0|] eqn:E0; [|discriminate]. cbn in Hk. injection Hk as Hk. rewrite Hk. apply (H k b0 Lk E0).
Qed.
Lemma getAt_prefix : forall n k rt b, getAt n rt = Some b -> (k <= n)%nat -> exists x, getAt k rt = Some x.
Proof.
  induction n as [|n IH]; intros k rt b H L.
  - replace k with O by lia. exists rt. reflexivity.
  - destruct k as [|k]; [exists rt; reflexivity|]. cbn [getAt] in *. destruct (lastBlock rt) as [c|]; [|discriminate].
    apply (IH k c b H). lia.
Qed.
Lemma getAt_S_kids : forall k rt x y, getAt k rt = Some x -> getAt (S k) rt = Some y -> bkids x <> [].
Proof.
  induction k as [|k IH]; intros rt x y Hx Hy.
  - cbn [getAt] in Hx. injection Hx as <-. cbn [getAt] in Hy. destruct (lastBlock rt) as [c|] eqn:El; [|discriminate].
    eapply lastBlock_kids. exact El.
  - change (getAt (S (S k)) rt) with (match lastBlock rt with Some c => getAt (S k) c | None => None end) in Hy.
    cbn [getAt] in Hx. destruct (lastBlock rt) as [c|]; [|discriminate]. apply (IH c x y Hx Hy).
Qed.
Lemma atT_getAt : forall k rt x, atT rt = true -> getAt k rt = Some x -> atT x = true.
Proof.
  induction k as [|k IH]; intros rt x H Hx; [cbn in Hx; injection Hx as <-; exact H|].
  cbn [getAt] in Hx. destruct (lastBlock rt) as [c|] eqn:El; [|discriminate]. apply (IH c x); [eapply atT_lastBlock; eassumption|exact Hx].
Qed.
(* a spine that reaches a block which is not an ATX heading has no ATX heading above it *)
Lemma spineNA_tip n rt t : atT rt = true -> getAt n rt = Some t -> bkind t <> ATXHeadingKind -> spineNA n rt.
Proof.
  intros H Ht Nt k b Lk Hb. destruct (Nat.eq_dec k n) as [->|Nk]; [rewrite Ht in Hb; injection Hb as <-; exact Nt|].
  destruct (getAt_prefix n (S k) rt t Ht ltac:(lia)) as [y Hy].
  apply atT_kids_notATX; [eapply atT_getAt; eassumption|]. eapply getAt_S_kids; eassumption.
Qed.

Lemma bkind_updAt g : (forall x, bkind (g x) = bkind x) -> forall d r, bkind (updAt d g r) = bkind r.
Proof. intros Hg. destruct d as [|d]; intros r; [apply Hg|]. cbn [updAt]. destruct (lastBlock r); [apply bkind_set_lastBlocks|reflexivity]. Qed.
Lemma kindAt_updAt_lt g : forall d k r, (k < d)%nat -> option_map bkind (getAt k (updAt d g r)) = option_map bkind (getAt k r).
Proof.
  induction d as [|d IH]; intros k r L; [lia|]. cbn [updAt]. destruct (lastBlock r) as [c|] eqn:El; [|reflexivity].
  destruct k as [|k]; [cbn [getAt option_map]; rewrite bkind_set_lastBlocks; reflexivity|].
  cbn [getAt]. rewrite El. rewrite lastBlock_set_last; [apply IH; lia|]. eapply lastBlock_kids. exact El.
Qed.
Lemma kindAt_updAt_le g : (forall x, bkind (g x) = bkind x) ->
  forall d k r, (k <= d)%nat -> option_map bkind (getAt k (updAt d g r)) = option_map bkind (getAt k r).
Proof.
  intros Hg d k r L. destruct (Nat.eq_dec k d) as [->|N]; [|apply kindAt_updAt_lt; lia].
  rewrite getAt_updAt_same. destruct (getAt d r); [cbn; rewrite Hg; reflexivity|reflexivity].
Qed.
Lemma spineNA_updAt_lt g n d r : (n < d)%nat -> spineNA n r -> spineNA n (updAt d g r).
Proof. intros L. apply spineNA_kinds. intros k Lk. apply kindAt_updAt_lt. lia. Qed.
Lemma spineNA_updAt_le g n d r : (forall x, bkind (g x) = bkind x) -> (n <= d)%nat -> spineNA n r -> spineNA n (updAt d g r).
Proof. intros Hg L. apply spineNA_kinds. intros k Lk. apply kindAt_updAt_le; [exact Hg|lia]. Qed.

(* ---- the line parser ---- *)
Lemma J_same p p' : same_tree p p' -> J p -> J p'.
Proof. intros [E1 E2]. unfold J, cdepth. rewrite E1, E2. tauto. Qed.
Lemma JU_same d p p' : same_tree p p' -> JU d p -> JU d p'.
Proof. intros [E1 E2]. unfold JU, cdepth. rewrite E1, E2. tauto. Qed.
Lemma J_advance p n : J p -> J (advance p n). Proof. apply J_same, same_advance. Qed.
Lemma J_consumeLine p : J p -> J (consumeLine p). Proof. apply J_same, same_consumeLine. Qed.
Lemma J_consumeIndent p n : J p -> J (consumeIndent p n). Proof. apply J_same, same_consumeIndent. Qed.
Lemma J_opened p : J p -> J (if state p =? stOpening then withState p stOpenMatched else p).
Proof. apply J_same, same_opened. Qed.

(* an update of the container that keeps "not an ATX heading" *)
Lemma J_updCont p g : J p ->
  (forall b, bkind b <> ATXHeadingKind -> atT b = true -> atT (g b) = true /\ bkind (g b) <> ATXHeadingKind) -> J (updCont p g).
Proof.
  intros [H Hs] Hg. unfold J, updCont. cbn [root container withRoot setLP cdepth]. fold (cdepth p). split.
  - apply atT_updAt_at; [exact H|]. intros x Hx Hax. apply Hg; [apply (Hs _ x (le_n _) Hx)|exact Hax].
  - intros k b Lk Hb. destruct (Nat.eq_dec k (cdepth p)) as [->|Nk].
    + rewrite getAt_updAt_same in Hb. destruct (getAt (cdepth p) (root p)) as [x|] eqn:Ex; [|discriminate]. cbn in Hb. injection Hb as <-.
      apply Hg; [apply (Hs _ x (le_n _) Ex)|eapply atT_getAt; eassumption].
    + change (cdepth (withRoot p (updAt (cdepth p) g (root p)))) with (cdepth p) in Lk.
      pose proof (kindAt_updAt_lt g (cdepth p) k (root p) ltac:(lia)) as E. rewrite Hb in E. cbn in E.
      destruct (getAt k (root p)) as [b0|] eqn:E0; [|discriminate]. cbn in E. injection E as E. rewrite E. apply (Hs k b0 Lk E0).
Qed.
Lemma J_updCont_keep p g : J p -> (forall b, atT (g b) = atT b) -> (forall b, bkind (g b) = bkind b) -> J (updCont p g).
Proof. intros H Ha Hk. apply J_updCont; [exact H|]. intros b Nb Hb. rewrite Ha, Hk. tauto. Qed.
Lemma J_add_ik p u : J p -> J (updCont p (fun b => set_bik b (bik b ++ [u]))).
Proof. intros H. apply J_updCont; [exact H|]. intros b Nb Hb. split; [apply atT_set_bik; assumption|rewrite bkind_set_bik; exact Nb]. Qed.

Lemma atT_closeChild src f e b : atT b = true ->
  atT (match lastBlock b with Some c => set_lastBlocks b (closeBlock f src c e) | None => b end) = true.
Proof.
  intros Hb. destruct (lastBlock b) as [c|] eqn:El; [|assumption].
  apply (atT_set_lastBlocks b c); [assumption|exact El|]. apply atT_closeBlock. eapply atT_lastBlock; eassumption.
Qed.
Lemma bkind_closeChild src f e b :
  bkind (match lastBlock b with Some c => set_lastBlocks b (closeBlock f src c e) | None => b end) = bkind b.
Proof. destruct (lastBlock b); [apply bkind_set_lastBlocks|reflexivity]. Qed.
Lemma atT_closeLastChildAt p d e : atT (root p) = true -> atT (root (closeLastChildAt p d e)) = true.
Proof. intros H. unfold closeLastChildAt. cbn. apply atT_updAt; [|assumption]. intros b Hb. apply atT_closeChild, Hb. Qed.
Lemma spineNA_closeLastChildAt p d e n : (n <= d)%nat -> spineNA n (root p) -> spineNA n (root (closeLastChildAt p d e)).
Proof.
  intros L H. unfold closeLastChildAt. cbn [root withRoot setLP]. apply spineNA_updAt_le; [|exact L|exact H].
  intros x. apply bkind_closeChild.
Qed.
(* close the last child of the container / of its parent (and move the container there) *)
Lemma J_closeHere p e : J p -> J (closeLastChildAt p (cdepth p) e).
Proof. intros [H Hs]. split; [apply atT_closeLastChildAt, H|]. change (cdepth (closeLastChildAt p (cdepth p) e)) with (cdepth p). apply spineNA_closeLastChildAt; [lia|exact Hs]. Qed.
Lemma J_closeUp p d e : atT (root p) = true -> spineNA d (root p) -> J (withCont (closeLastChildAt p d e) (Some d)).
Proof. intros H Hs. split; [apply (atT_closeLastChildAt p d e H)|]. apply (spineNA_closeLastChildAt p d e d (le_n _) Hs). Qed.

Lemma J_openBlock_up : forall fuel p kind, J p -> J (openBlock_up fuel p kind).
Proof.
  induction fuel as [|f IH]; intros p kind H; [assumption|]. cbn [openBlock_up].
  destruct (canContain _ _); [assumption|]. destruct (cdepth p) as [|d] eqn:Ed; [exact H|].
  apply IH. destruct H as [H Hs]. apply J_closeUp; [exact H|]. rewrite Ed in Hs. eapply spineNA_le; [|exact Hs]. lia.
Qed.

(* openBlock: the new block is the new container, one level below a spine without ATX heading *)
Lemma openBlock_core p kind : J p -> (state p =? stDescending) || (state p =? stDescendTerminated) = false ->
  exists d pos, JU d (openBlock p kind) /\ (forall b, getAt (S d) (root (openBlock p kind)) = Some b -> b = newBlock kind pos).
Proof.
  intros H Hst. unfold openBlock. rewrite Hst. cbv zeta.
  set (p0 := if state p =? stOpening then withState p stOpenMatched else p).
  set (pu := openBlock_up (S (cdepth p0)) p0 kind).
  assert (Hu : J pu) by (apply J_openBlock_up, J_opened, H).
  set (pc := closeLastChildAt pu (cdepth pu) (lineStart pu)).
  assert (Hc : J pc) by (apply J_closeHere, Hu).
  set (nb := newBlock kind (lineStart pc + li pc)).
  set (pa := updCont pc (fun b => set_bkids b (bkids b ++ [nb]))).
  assert (Ha : J pa).
  { apply J_updCont; [exact Hc|]. intros b Nb Hb. split; [|destruct b; exact Nb].
    apply atT_set_bkids; [exact Nb|]. rewrite atL_app. apply atT_parts in Hb. destruct Hb as [_ Hb]. rewrite Hb. unfold atL. cbn [forallb andb]. unfold nb. rewrite atT_newBlock. reflexivity. }
  exists (cdepth pu), (lineStart pc + li pc). split.
  - split; [reflexivity|]. destruct Ha as [A B]. split; [exact A|exact B].
  - intros b Hb. cbn [root withCont setLP] in Hb. unfold pa, updCont in Hb. cbn [root withRoot setLP] in Hb.
    change (cdepth pc) with (cdepth pu) in Hb. apply getAt_S_append in Hb. exact Hb.
Qed.
Lemma JU_J d p : JU d p -> (forall b, getAt (S d) (root p) = Some b -> bkind b <> ATXHeadingKind) -> J p.
Proof.
  intros (E & H & Hs) Hk. split; [exact H|]. rewrite E. intros k b Lk Hb.
  destruct (Nat.eq_dec k (S d)) as [->|Nk]; [apply (Hk b Hb)|apply (Hs k b ltac:(lia) Hb)].
Qed.
Lemma J_openBlock p kind : kind <> ATXHeadingKind -> J p -> J (openBlock p kind).
Proof.
  intros N H. destruct ((state p =? stDescending) || (state p =? stDescendTerminated)) eqn:Hst.
  - unfold openBlock. rewrite Hst. exact H.
  - destruct (openBlock_core p kind H Hst) as (d & pos & HU & Hb). apply (JU_J d _ HU). intros b Hg. rewrite (Hb b Hg). exact N.
Qed.
Lemma J_endBlock p : J p -> J (endBlock p).
Proof.
  intros H. unfold endBlock. destruct (_ || _); [exact H|]. cbv zeta.
  pose proof (J_opened p H) as [H0 Hs0]. set (p0 := if state p =? stOpening then withState p stOpenMatched else p) in *.
  destruct (cdepth p0) as [|d] eqn:Ed; [rewrite <- Ed in Hs0; exact (conj H0 Hs0)|].
  apply J_closeUp; [exact H0|]. eapply spineNA_le; [|exact Hs0]. lia.
Qed.
(* endBlock inside startATX: the container (the ATX heading) is left for its parent *)
Lemma JU_endBlock d p : st3 p -> JU d p -> J (endBlock p).
Proof.
  intros Hst (E & H & Hs). unfold endBlock.
  replace ((state p =? stDescending) || (state p =? stDescendTerminated)) with false
    by (destruct (st3_cases p Hst) as [-> |[-> | ->]]; reflexivity).
  cbv zeta. set (p0 := if state p =? stOpening then withState p stOpenMatched else p).
  assert (E0 : cdepth p0 = S d) by (unfold p0; destruct (_ =? _); exact E).
  assert (R0 : root p0 = root p) by (unfold p0; destruct (_ =? _); reflexivity).
  rewrite E0. apply J_closeUp; rewrite R0; assumption.
Qed.

Lemma J_collectInline p kind n : J p -> J (collectInline p kind n).
Proof.
  intros H. unfold collectInline. destruct (_ =? stDescendTerminated); [exact H|]. cbv zeta.
  apply J_add_ik, J_advance. destruct (0 <? _); [apply J_add_ik, J_advance|]; apply J_opened, H.
Qed.
Lemma container_opened p : container (if state p =? stOpening then withState p stOpenMatched else p) = container p.
Proof. destruct (_ =? _); reflexivity. Qed.
Lemma container_collectInline p kind n : container (collectInline p kind n) = container p.
Proof.
  unfold collectInline. destruct (_ =? stDescendTerminated); [reflexivity|]. cbv zeta.
  unfold updCont at 1. cbn [container withRoot setLP]. rewrite (proj2 (same_advance _ _)).
  destruct (0 <? _).
  - unfold updCont. cbn [container withRoot setLP]. rewrite (proj2 (same_advance _ _)). apply container_opened.
  - apply container_opened.
Qed.

(* match rules *)
Lemma J_matchRule p : J p -> J (snd (matchRule p)) /\ container (snd (matchRule p)) = container p.
Proof.
  intros H. unfold matchRule. cbv zeta.
  assert (Hsame : forall q, same_tree p q -> J q /\ container q = container p).
  { intros q Hq. split; [eapply J_same; eassumption|apply Hq]. }
  destruct (_ || _); [apply Hsame, same_refl|].
  destruct (_ =? ListItemKind).
  { unfold matchListItem. destruct (isRestBlank p); [destruct (negb _); [apply Hsame, same_refl|apply Hsame, same_consumeIndent]|].
    destruct (_ <=? _); [apply Hsame, same_consumeIndent|apply Hsame, same_refl]. }
  destruct (_ =? BlockQuoteKind).
  { unfold matchBlockQuote. cbv zeta. destruct (_ <=? _); [apply Hsame, same_refl|]. destruct (negb _); [apply Hsame, same_refl|]. cbn [snd].
    unfold eatQuoteMarker. cbv zeta. apply Hsame.
    destruct (0 <? _); [eapply same_trans; [|apply same_consumeIndent]|]; (eapply same_trans; [apply same_consumeIndent|apply same_advance]). }
  destruct (_ =? FencedCodeBlockKind).
  { unfold matchFenced. cbv zeta. destruct (if _ <? _ then _ else false); cbn [snd]; apply Hsame; [apply same_consumeLine|apply same_consumeIndent]. }
  destruct (_ =? IndentedCodeBlockKind).
  { unfold matchIndented. cbv zeta. destruct (_ <? _); [destruct (negb _)|]; cbn [snd]; apply Hsame; first [apply same_consumeIndent|apply same_refl]. }
  destruct (_ =? HTMLBlockKind).
  { unfold matchHTML. destruct (htmlEnd _ _); [|apply Hsame, same_refl]. destruct (isRestBlank _); [apply Hsame, same_refl|]. cbn [snd].
    split; [apply J_consumeLine, J_collectInline, H|].
    rewrite (proj2 (same_consumeLine _)). apply container_collectInline. }
  apply Hsame, same_refl.
Qed.

Lemma J_descend_loop : forall fuel p d, atT (root p) = true -> spineNA d (root p) -> J (snd (descend_loop fuel p d)).
Proof.
  induction fuel as [|f IH]; intros p d H Hs; [split; assumption|]. cbn [descend_loop]. cbv zeta.
  destruct (getAt (S d) (root p)) as [c|] eqn:Ec; [|split; assumption].
  destruct (negb (isOpen c)); [split; assumption|].
  destruct (hasMatch (bkind c)) eqn:Hm; cbn [negb]; [|split; assumption].
  assert (Nc : bkind c <> ATXHeadingKind) by (intros E; rewrite E in Hm; discriminate).
  set (p' := withState (withCont p (Some (S d))) stDescending).
  assert (H' : J p').
  { split; [exact H|]. cbn [p' cdepth container withState withCont setLP root]. intros k b Lk Hb.
    destruct (Nat.eq_dec k (S d)) as [->|Nk]; [rewrite Ec in Hb; injection Hb as <-; exact Nc|apply (Hs k b ltac:(lia) Hb)]. }
  destruct (J_matchRule p' H') as [H2 C2].
  destruct (matchRule p') as [ok p2]. cbn [snd] in H2, C2.
  assert (E2 : cdepth p2 = S d) by (unfold cdepth; rewrite C2; reflexivity).
  destruct H2 as [A2 S2]. rewrite E2 in S2.
  destruct (state p2 =? stDescendTerminated).
  { cbn [snd]. apply J_closeUp; [exact A2|]. eapply spineNA_le; [|exact S2]. lia. }
  destruct (negb ok); [cbn [snd]; split; [exact A2|eapply spineNA_le; [|exact S2]; cbn; lia]|].
  apply IH; assumption.
Qed.
