From Coq Require Import List ZArith Lia Bool.
Import ListNotations.
Require Import Base Tables Utf8 Tree Rdr Link Collect Html Recog Inl3a Inl3b Inl3c Inl3d Inl3e Driver Render Props SpanForest SpanIds SpanStack SpanEmph SpanTok.
Open Scope Z_scope.

(* ================================================================================================
   Bridge between the Prop-level forest predicate okF (on parse-time nodes) and the boolean
   checkers of Props.v (spansI) on finished inline nodes.
   ================================================================================================ *)

(* ordered_in lo hi ks: first start >= lo, each end <= next start, every end <= hi *)
Fixpoint ordered_in (lo hi : Z) (ks : list inline) : bool :=
  match ks with
  | [] => true
  | k :: r => (lo <=? istart k) && (iend k <=? hi) && ordered_in (iend k) hi r
  end.

Lemma istart_toInline n : istart (toInline n) = ps n. Proof. destruct n; reflexivity. Qed.
Lemma iend_toInline n : iend (toInline n) = pe n. Proof. destruct n; reflexivity. Qed.

Lemma okN_spansI src : forall n lo hi, okN n -> lo <= ps n -> pe n <= hi -> pe n <= len src -> spansI false src lo hi (toInline n) = true.
Proof.
  fix IH 1. intros [id k s e ind r ks] lo hi H H1 H2 H3. apply okN_eq in H. destruct H as (A & B & C). cbn [ps pe] in *.
  cbn [toInline spansI]. unfold span_valid.
  replace (0 <=? s) with true by (symmetry; apply Z.leb_le; lia). replace (s <=? e) with true by (symmetry; apply Z.leb_le; lia).
  replace (e <=? len src) with true by (symmetry; apply Z.leb_le; lia). replace (lo <=? s) with true by (symmetry; apply Z.leb_le; lia).
  replace (e <=? hi) with true by (symmetry; apply Z.leb_le; lia). cbn [andb].
  assert (G : forall prev, okF prev e ks -> s <= prev ->
            (fix go (prev : Z) (l : list inline) : bool :=
               match l with [] => true | k0 :: r0 => (prev <=? istart k0) && spansI false src s e k0 && go (iend k0) r0 end) prev (map toInline ks) = true).
  { clear C. induction ks as [|x ks IHks]; intros prev Hok Hp; [reflexivity|]. cbn [map]. cbn [okF] in Hok. destruct Hok as (D1 & D2 & D3).
    pose proof (okN_valid _ D2) as V. pose proof (okF_le _ _ _ D3) as V2.
    rewrite istart_toInline, iend_toInline. replace (prev <=? ps x) with true by (symmetry; apply Z.leb_le; lia).
    rewrite (IH x s e D2 ltac:(lia) ltac:(lia) ltac:(lia)). cbn [andb]. apply IHks; [exact D3|lia]. }
  apply G; [exact C|lia].
Qed.

Lemma okF_checks src : forall l lo hi, okF lo hi l -> hi <= len src ->
  ordered_in lo hi (map toInline l) = true /\ forallb (spansI false src lo hi) (map toInline l) = true.
Proof.
  induction l as [|x l IH]; intros lo hi H Hh; [split; reflexivity|]. cbn [okF] in H. destruct H as (A & B & C).
  pose proof (okN_valid _ B) as V. pose proof (okF_le _ _ _ C) as V2.
  destruct (IH (pe x) hi C Hh) as [I1 I2]. cbn [map ordered_in forallb]. rewrite istart_toInline, iend_toInline.
  replace (lo <=? ps x) with true by (symmetry; apply Z.leb_le; lia). replace (pe x <=? hi) with true by (symmetry; apply Z.leb_le; lia).
  rewrite I1. rewrite (okN_spansI src x lo hi B ltac:(lia) ltac:(lia) ltac:(lia)). cbn [andb]. split; [reflexivity|].
  (* the remaining nodes are inside [lo, hi] as well *)
  clear - I2 V A. rewrite forallb_forall in *. intros y Hy. specialize (I2 y Hy).
  destruct y as [k s e ind r ks]. cbn [spansI] in *. rewrite !andb_true_iff in *. destruct I2 as ((((S1 & S2) & S3) & S4) & S5).
  apply Z.leb_le in S2. repeat split; try assumption. apply Z.leb_le. lia.
Qed.

(* entries: from the checkers to okF *)
Lemma spansI_okN src : forall u lo hi, spansI false src lo hi u = true ->
  okN (ofInline u) /\ lo <= istart u /\ iend u <= hi /\ iend u <= len src.
Proof.
  fix IH 1. intros [k s e ind r ks] lo hi H. cbn [spansI] in H. rewrite !andb_true_iff in H. destruct H as ((((S1 & S2) & S3) & _) & S5).
  unfold span_valid in S1. rewrite !andb_true_iff in S1. destruct S1 as ((V1 & V2) & V3). apply Z.leb_le in V1, V2, V3, S2, S3.
  cbn [istart iend]. split; [|lia]. cbn [ofInline]. apply okN_eq. split; [lia|]. split; [lia|].
  assert (G : forall prev, prev <= e ->
            (fix go (prev : Z) (l : list inline) : bool :=
               match l with [] => true | k0 :: r0 => (prev <=? istart k0) && spansI false src s e k0 && go (iend k0) r0 end) prev ks = true ->
            okF prev e (map ofInline ks)).
  { clear S5. induction ks as [|x ks IHks]; intros prev Hp Hg; [cbn; lia|]. rewrite !andb_true_iff in Hg. destruct Hg as ((G1 & G2) & G3).
    apply Z.leb_le in G1. destruct (IH x s e G2) as (X1 & X2 & X3 & X4). cbn [map okF].
    assert (Eps : ps (ofInline x) = istart x) by (destruct x; reflexivity). assert (Epe : pe (ofInline x) = iend x) by (destruct x; reflexivity).
    rewrite Eps, Epe. split; [lia|]. split; [exact X1|]. apply IHks; [lia|exact G3]. }
  apply G; [lia|exact S5].
Qed.

Lemma chain_okF (src : bytes) : forall U a hi, Forall (fun u => okN (ofInline u) /\ iend u <= len src) U -> a <= Z.min hi (len src) ->
  ordered_in a hi U = true -> okF a (Z.min hi (len src)) (map ofInline U).
Proof.
  induction U as [|u U IH]; intros a hi HF Ha Ho; [cbn; exact Ha|]. inversion HF as [|? ? [X1 X2] HF']; subst.
  cbn [ordered_in] in Ho. rewrite !andb_true_iff in Ho. destruct Ho as ((O1 & O2) & O3). apply Z.leb_le in O1, O2.
  assert (Eps : ps (ofInline u) = istart u) by (destruct u; reflexivity). assert (Epe : pe (ofInline u) = iend u) by (destruct u; reflexivity).
  cbn [map okF]. rewrite Eps, Epe. split; [lia|]. split; [exact X1|]. apply IH; [exact HF'|lia|exact O3].
Qed.
Lemma entries_okF (src : bytes) U lo hi : U <> [] -> ordered_in lo hi U = true -> forallb (spansI false src lo hi) U = true ->
  okF lo (Z.min hi (len src)) (map ofInline U).
Proof.
  intros HN Ho Hs.
  assert (HF : Forall (fun u => okN (ofInline u) /\ iend u <= len src) U).
  { apply Forall_forall. intros u Hu. rewrite forallb_forall in Hs. destruct (spansI_okN src u lo hi (Hs u Hu)) as (X1 & _ & _ & X4). tauto. }
  apply chain_okF; [exact HF| |exact Ho].
  destruct U as [|u U]; [contradiction|]. cbn [ordered_in] in Ho. rewrite !andb_true_iff in Ho. destruct Ho as ((O1 & O2) & _). apply Z.leb_le in O1, O2.
  inversion HF as [|? ? [X1 X2] _]; subst. pose proof (okN_valid _ X1) as V.
  assert (Eps : ps (ofInline u) = istart u) by (destruct u; reflexivity). assert (Epe : pe (ofInline u) = iend u) by (destruct u; reflexivity).
  rewrite Eps, Epe in V. lia.
Qed.

Lemma okF_all : forall l lo hi, okF lo hi l -> Forall (fun n => okN n /\ lo <= ps n /\ pe n <= hi) l.
Proof.
  induction l as [|x l IH]; intros lo hi H; [constructor|]. cbn [okF] in H. destruct H as (A & B & C).
  pose proof (okN_valid _ B) as V. pose proof (okF_le _ _ _ C) as V2. constructor; [repeat split; try assumption; lia|].
  specialize (IH _ _ C). rewrite Forall_forall in *. intros y Hy. destruct (IH y Hy) as (Y1 & Y2 & Y3). repeat split; try assumption; lia.
Qed.
Lemma okF_ordered : forall l lo hi lo2 hi2, okF lo hi l -> lo2 <= lo -> hi <= hi2 -> ordered_in lo2 hi2 (map toInline l) = true.
Proof.
  induction l as [|x l IH]; intros lo hi lo2 hi2 H H1 H2; [reflexivity|]. cbn [okF] in H. destruct H as (A & B & C).
  pose proof (okN_valid _ B) as V. pose proof (okF_le _ _ _ C) as V2.
  cbn [map ordered_in]. rewrite istart_toInline, iend_toInline.
  replace (lo2 <=? ps x) with true by (symmetry; apply Z.leb_le; lia). replace (pe x <=? hi2) with true by (symmetry; apply Z.leb_le; lia).
  cbn [andb]. apply (IH (pe x) hi); [exact C|lia|exact H2].
Qed.
Lemma okF_checks2 src l lo hi lo2 hi2 : okF lo hi l -> hi <= len src -> lo2 <= lo -> hi <= hi2 ->
  ordered_in lo2 hi2 (map toInline l) = true /\ forallb (spansI false src lo2 hi2) (map toInline l) = true.
Proof.
  intros H Hs H1 H2. split; [eapply okF_ordered; eassumption|].
  apply forallb_forall. intros y Hy. apply in_map_iff in Hy. destruct Hy as (n & <- & Hn).
  pose proof (okF_all _ _ _ H) as HA. rewrite Forall_forall in HA. destruct (HA n Hn) as (Y1 & Y2 & Y3).
  apply okN_spansI; [exact Y1|lia|lia|lia].
Qed.
