(* ItemSimMain.v -- T65: property C09, list-item clause, at the block layer: the statement ItemSimDefs.parseBlocks_item_statement,
   for bullets and for ordered markers (1-9 digits and '.' or ')'), N in 1..4, every non-empty document D without tab, CR and NUL that starts
   with a non-space byte and has no whitespace-only line, provided the first line of the result is not a thematic break.
   From the simulation theorem ItemSimDrv5.parseBlocks_item_sim, the identification MOI = iB o shiftB (ItemSimSpec.MOI_iB),
   and the evaluation of the looseness that onCloseList computed at the end of input. *)
From Coq Require Import List ZArith Lia Bool Arith.
Import ListNotations.
Require Import Base Tree Rdr Link Collect Html Recog LP Rules Starts Driver Props SliceBase SliceNest L2Bnd L2BndS L2CC BShDef BlockShapes TDefs TDesc LADef LA11 DefSpansWalk Rec16 Rec17 Rec18 EolInv
  QuoteSimDefs QuoteSimTree QuoteSimNest QuoteSimMap QuoteSimReloc QuoteSimAux QuoteSimQLine QuoteSimLines QuoteSimDrv1 QuoteSimSpec
  ItemSimDefs ItemSimQLine ItemSimFirst ItemSimLines ItemSimDrv1 ItemSimSpec ItemSimDrv5.
Require BlankPrefix.
Open Scope Z_scope.

(* ================= the looseness of the one-item list ================= *)
Lemma ewbl_fuel : forall f b f', (bheight b <= f)%nat -> (bheight b <= f')%nat -> endsWithBlankLine f b = endsWithBlankLine f' b.
Proof.
  induction f as [|f IH]; intros b f' H H'; [pose proof (bheight_pos b); lia|]. destruct f' as [|f']; [pose proof (bheight_pos b); lia|].
  cbn [endsWithBlankLine]. destruct (blastBlank b); [reflexivity|]. destruct (negb _); [reflexivity|].
  destruct (lastBlock b) as [c|] eqn:El; [|reflexivity]. pose proof (bheight_last _ _ El). apply IH; lia.
Qed.
Lemma blast_rB sg eB lp b : blastBlank (rB sg eB lp b) = blastBlank b. Proof. destruct b; reflexivity. Qed.
Lemma ewbl_rB sg eB lp : forall h b, endsWithBlankLine h (rB sg eB lp b) = endsWithBlankLine h b.
Proof.
  induction h as [|h IH]; intros b; [reflexivity|]. cbn [endsWithBlankLine]. rewrite blast_rB, bkind_rB, lastBlock_rB.
  destruct (blastBlank b); [reflexivity|]. destruct (negb _); [reflexivity|]. destruct (lastBlock b) as [c|]; [apply IH|reflexivity].
Qed.

(* the result of closing a block: every block but the last is a link reference definition (or nothing) *)
Definition nbl (x : block) : Prop := forall h, endsWithBlankLine h x = false.
Lemma nbl_refDef s e kids : nbl (refDefBlock s e kids).
Proof. intros h. destruct h as [|h]; reflexivity. Qed.
Lemma ocp_loop_shape : forall fuel rfuel src orig orphan r res, Forall nbl res ->
  exists init l, ocp_loop fuel rfuel src orig orphan r res = init ++ [l] /\ Forall nbl init.
Proof.
  induction fuel as [|f IH]; intros rfuel src orig orphan r res Hr; [exists res, orig; split; [reflexivity|exact Hr]|].
  assert (Hkeep : exists init l, res ++ [orig] = init ++ [l] /\ Forall nbl init) by (exists res, orig; split; [reflexivity|exact Hr]).
  assert (Hwo : forall x, nbl x -> exists init l, (match orphan with Some o => (res ++ [x]) ++ [o] | None => res ++ [x] end) = init ++ [l] /\ Forall nbl init).
  { intros x Hx. destruct orphan as [o|]; [exists (res ++ [x]), o; split; [reflexivity|apply Forall_app; split; [exact Hr|constructor; [exact Hx|constructor]]]|exists res, x; split; [reflexivity|exact Hr]]. }
  cbn [ocp_loop]. cbv zeta.
  destruct (parseLinkLabel rfuel r) as [[lspan linner] r1].
  destruct (negb (spanValid lspan)); [exact Hkeep|].
  destruct (current r1) as [c r2]. destruct (negb (c =? 58)); [exact Hkeep|].
  destruct (next r2) as [? r3]. destruct (skipLinkSpace rfuel r3) as [ok r4]. destruct (negb ok); [exact Hkeep|].
  destruct (parseLinkDestination rfuel r4) as [[dspan dtext] r5]. destruct (negb (spanValid dspan)); [exact Hkeep|].
  destruct (readEOL rfuel r5) as [destEOL r6]. destruct (current r6) as [c6 r7].
  destruct (_ && _ && _); [exact Hkeep|].
  set (labelInline := Inl LinkLabelKind _ _ 0 _ _). set (destInline := Inl LinkDestinationKind _ _ 0 [] _).
  assert (H2 : Forall nbl (res ++ [refDefBlock (fst lspan) destEOL [labelInline; destInline]])) by (apply Forall_app; split; [exact Hr|constructor; [apply nbl_refDef|constructor]]).
  destruct (skipLinkSpace rfuel r7) as [ok2 r8]. destruct (negb ok2); [apply Hwo, nbl_refDef|].
  destruct (parseLinkTitle rfuel r8) as [[tspan ttext] r9].
  destruct (negb (spanValid tspan)).
  { destruct (destEOL <? 0); [exact Hkeep|]. destruct (_ <? 0); [apply Hwo, nbl_refDef|]. apply IH, H2. }
  destruct (readEOL rfuel r9) as [titleEOL r10].
  destruct (titleEOL <? 0).
  { destruct (destEOL <? 0); [exact Hkeep|]. destruct (_ <? 0); [apply Hwo, nbl_refDef|].
    eexists _, _. split; [rewrite app_assoc; reflexivity|exact H2]. }
  set (titleInline := Inl LinkTitleKind _ _ 0 [] _).
  destruct (_ <? 0); [apply Hwo, nbl_refDef|]. apply IH. apply Forall_app; split; [exact Hr|constructor; [apply nbl_refDef|constructor]].
Qed.
Lemma closeBlock_shape f src c e : exists init l, closeBlock f src c e = init ++ [l] /\ Forall nbl init.
Proof.
  assert (One : forall x : block, exists init l, [x] = init ++ [l] /\ Forall nbl init) by (intros x; exists [], x; split; [reflexivity|constructor]).
  destruct f as [|f]; [apply One|]. cbn [closeBlock]. destruct (negb (isOpen c)); [apply One|]. cbv zeta.
  destruct (_ =? ListKind); [apply One|]. destruct (_ =? IndentedCodeBlockKind); [apply One|].
  destruct (_ || _); [|apply One].
  unfold onCloseParagraph. destruct (bik (set_bend c e)) as [|first rest]; [apply One|]. cbv zeta. apply ocp_loop_shape. constructor.
Qed.

Lemma removelast_app_snoc {A} (a b : list A) x : removelast (a ++ b ++ [x]) = a ++ b.
Proof. rewrite app_assoc. apply removelast_last. Qed.

Lemma existsb_ext_in {A} (f g : A -> bool) l : (forall x, In x l -> f x = g x) -> existsb f l = existsb g l.
Proof. induction l as [|x l IH]; intros H; [reflexivity|]. cbn [existsb]. rewrite (H x (or_introl eq_refl)), IH; [reflexivity|]. intros y Hy. apply H. right. exact Hy. Qed.
Lemma existsb_nbl {A} (g : A -> bool) (l : list A) : (forall x, In x l -> g x = false) -> existsb g l = false.
Proof. induction l as [|x l IH]; intros H; [reflexivity|]. cbn [existsb]. rewrite (H x (or_introl eq_refl)), IH; [reflexivity|]. intros y Hy. apply H. right. exact Hy. Qed.
Lemma removelast_In'' {A} (l : list A) x : In x (removelast l) -> In x l.
Proof.
  induction l as [|y l IH]; [intros []|]. destruct l as [|z l]; [intros []|].
  change (removelast (y :: z :: l)) with (y :: removelast (z :: l)). intros [->|H]; [left; reflexivity|right; apply IH, H].
Qed.
Lemma ewbl_strip m t : nbl m -> existsb ewbl (removelast (m :: t)) = existsb ewbl (removelast t).
Proof.
  intros Hm. destruct t as [|y t]; [reflexivity|]. change (removelast (m :: y :: t)) with (m :: removelast (y :: t)). cbn [existsb]. unfold ewbl at 1. rewrite (Hm _). reflexivity.
Qed.

(* the looseness computed just before the end-of-input close is the looseness read off the final children of the item *)
Lemma loose_final KK D bl lo mkb kidsTail : nbl mkb -> LooseOK KK D bl lo (mkb :: kidsTail) -> lo = looseOf kidsTail.
Proof.
  intros Hm (oE & P & ksE & fE & srcE & eE & Elo & Ekids & Hh & Hbl). unfold looseOf. rewrite <- (ewbl_strip mkb kidsTail Hm). rewrite Ekids.
  rewrite Elo. unfold looseI. rewrite Hbl. cbn [orb]. rewrite looseAt_removelast.
  set (M := MOI KK D oE) in *. set (hb := bheight bl) in *.
  assert (Key : exists A B, removelast (P ++ map M ksE) = A /\ removelast (P ++ map M (eofClose fE srcE ksE eE)) = A ++ B /\ Forall nbl B).
  { unfold eofClose. destruct (rev ksE) as [|c r] eqn:Er.
    - exists (removelast (P ++ map M ksE)), []. rewrite app_nil_r. repeat split. constructor.
    - assert (Eks : ksE = rev r ++ [c]) by (apply (f_equal (@rev block)) in Er; rewrite rev_involutive in Er; exact Er).
      destruct (closeBlock_shape fE srcE c eE) as (init & l & Ec & Hi). rewrite Ec.
      exists (P ++ map M (rev r)), (map M init). split; [|split].
      + rewrite Eks, map_app. cbn [map]. apply removelast_app_snoc.
      + rewrite Eks, removelast_last. rewrite !map_app. cbn [map]. rewrite (app_assoc (map M (rev r))). rewrite removelast_app_snoc. rewrite <- app_assoc. reflexivity.
      + apply Forall_forall. intros x Hx. apply in_map_iff in Hx. destruct Hx as (y & <- & Hy). rewrite Forall_forall in Hi. intros h. unfold M, MOI. rewrite ewbl_rB. apply (Hi y Hy). }
  destruct Key as (A & B & EA & EF & HB). rewrite EA, EF. rewrite existsb_app.
  rewrite (existsb_nbl ewbl B) by (intros x Hx; rewrite Forall_forall in HB; unfold ewbl; apply (HB x Hx)). rewrite orb_false_r.
  apply existsb_ext_in. intros x Hx. unfold ewbl. apply ewbl_fuel; [|lia].
  assert (Hin : In x (P ++ map M ksE)) by (apply removelast_In''; rewrite EA; exact Hx). specialize (Hh x Hin). unfold hb. lia.
Qed.

(* ================= the final list block, explicitly ================= *)
Lemma finalOf_explicit mk NN D delim KK lo bl it kids : auxOf bl = lSk delim -> auxOf it = iSk delim KK ->
  finalOf mk NN D lo bl it kids =
  Blk ListKind 0 (len (Idoc mk NN D)) [Blk ListItemKind 0 (len (Idoc mk NN D)) kids [] KK 0 delim lo (blastBlank it)] [] 0 0 delim lo (blastBlank bl).
Proof.
  intros Hl Hi. destruct bl as [k1 s1 e1 bk1 ik1 a1 n1 c1 l1 lb1]. destruct it as [k2 s2 e2 bk2 ik2 a2 n2 c2 l2 lb2].
  unfold auxOf, lSk, listSk, listBlk, iSk, itemSk, itemBlk in Hl, Hi. cbn [set_blast set_bkids] in Hl, Hi. inversion Hl; subst. inversion Hi; subst.
  unfold finalOf, closedList, closedItem. destruct lo; reflexivity.
Qed.

(* ================= the images of the root blocks ================= *)
Lemma doneI_itemKids KK D roots : 1 <= KK -> noCR D -> Forall (GoodR KK D) roots -> Forall (fun r => nnB (rb_blk r)) roots ->
  doneI KK D roots = itemKids KK D roots.
Proof.
  intros HK Hcr HG HN. unfold doneI, itemKids. apply map_ext_in. intros r Hr. rewrite Forall_forall in HG, HN.
  destruct (HG r Hr) as (Go & sD & sQ & M & Gl & GM & Gc & Gla & Ginv & _).
  apply (MOI_iB KK D (rb_start r) HK Hcr Go sD sQ M Gl GM (rb_blk r) (HN r Hr) Gc Gla Ginv).
Qed.

(* ================= the hypotheses of the statement ================= *)
(* the lines of D *)
Lemma linesOf_noLF : forall x cur y, noLF x -> linesOf cur (x ++ y) = linesOf (rev x ++ cur) y.
Proof.
  induction x as [|c x IH]; intros cur y H; [reflexivity|]. inversion H as [|? ? Hc Hx]; subst. cbn [app linesOf].
  destruct (Z.eqb_spec c 10); [contradiction|]. rewrite (IH (c :: cur) y Hx). cbn [rev]. rewrite <- app_assoc. reflexivity.
Qed.
Lemma linesOf_after : forall pre0 cur rest l, In l (linesOf [] rest) -> In l (linesOf cur (pre0 ++ 10 :: rest)).
Proof.
  induction pre0 as [|c p IH]; intros cur rest l H.
  - cbn [app linesOf]. change (10 =? 10) with true. cbv iota. right. exact H.
  - cbn [app linesOf]. destruct (c =? 10); [right; apply IH, H|apply IH, H].
Qed.
Lemma lineAt_in_linesOf D a pre body eol post : lineAt D a pre body eol post -> In body (linesOf [] D).
Proof.
  intros (E & _ & Hb & He & Hp & Hn).
  assert (H0 : In body (linesOf [] (body ++ eol ++ post))).
  { rewrite (linesOf_noLF body [] _ Hb). rewrite app_nil_r. destruct He as [->|[-> ->]].
    - cbn [app linesOf]. change (10 =? 10) with true. cbv iota. left. apply rev_involutive.
    - cbn [app linesOf]. destruct (rev body) as [|x r] eqn:Er.
      + exfalso. apply Hn. rewrite app_nil_r. apply (f_equal (@rev Z)) in Er. rewrite rev_involutive in Er. exact Er.
      + left. rewrite <- Er. apply rev_involutive. }
  subst D. destruct Hp as [->|(pre0 & ->)]; [exact H0|]. rewrite <- app_assoc. cbn [app]. apply linesOf_after. exact H0.
Qed.
Lemma okDoc_nb D : okDoc D -> forall a pre body eol post, lineAt D a pre body eol post -> isBlankLine (body ++ eol) = false.
Proof.
  intros [_ H] a pre body eol post L. rewrite Forall_forall in H. pose proof (H body (lineAt_in_linesOf _ _ _ _ _ _ L)) as Hb.
  unfold isBlankLine in *. rewrite forallb_app, Hb. reflexivity.
Qed.
Lemma okDoc_first D : tabFreeD D -> okDoc D -> exists c0 r0, D = c0 :: r0 /\ isSpaceTabOrLineEnding c0 = false.
Proof.
  intros HT [(c & r & E & Hc) H]. exists c, r. split; [exact E|]. subst D. inversion HT as [|? ? (H9 & H13 & _) _]; subst.
  unfold isSpaceTabOrLineEnding. destruct (Z.eqb_spec c 32); [contradiction|]. destruct (Z.eqb_spec c 9); [contradiction|]. destruct (Z.eqb_spec c 13); [contradiction|].
  destruct (Z.eqb_spec c 10) as [E10|_]; [|reflexivity]. exfalso. subst c. cbn [linesOf] in H. change (10 =? 10) with true in H. cbv iota in H. cbn [rev] in H.
  inversion H as [|? ? Hb _]. discriminate Hb.
Qed.
Lemma firstLine_lineAt D body eol post : lineAt D 0 [] body eol post -> firstLine D = body.
Proof.
  intros (E & _ & Hb & He & _ & Hn). cbn [app] in E. subst D. unfold firstLine. rewrite (linesOf_noLF body [] _ Hb). rewrite app_nil_r.
  destruct He as [->|[-> ->]].
  - cbn [app linesOf]. change (10 =? 10) with true. cbv iota. apply rev_involutive.
  - cbn [app linesOf]. destruct (rev body) as [|x r] eqn:Er.
    + exfalso. apply Hn. rewrite app_nil_r. apply (f_equal (@rev Z)) in Er. rewrite rev_involutive in Er. exact Er.
    + rewrite <- Er. apply rev_involutive.
Qed.

(* ================= the markers ================= *)
Lemma digit_range c : isASCIIDigit c = true -> 48 <= c <= 57.
Proof. unfold isASCIIDigit. intros H. apply andb_true_iff in H. destruct H as [A B]. apply Z.leb_le in A, B. lia. Qed.
Lemma bullet_mkOK mk delim : bulletMk mk delim -> mkOK mk delim 0 /\ BlankPrefix.noEol mk /\ noTab mk /\ noNul mk.
Proof.
  intros [-> Hd]. split; [|split; [|split]].
  - constructor.
    + exists delim, []. split; [reflexivity|]. destruct Hd as [->|[->| ->]]; repeat split; try reflexivity; discriminate.
    + intros rest. cbn [app]. apply parseListMarker_complete. apply LM_bullet; [exact Hd|reflexivity].
    + constructor; [destruct Hd as [->|[->| ->]]; split; lia || discriminate|constructor].
  - constructor; [destruct Hd as [->|[->| ->]]; reflexivity|constructor].
  - constructor; [destruct Hd as [->|[->| ->]]; discriminate|constructor].
  - constructor; [destruct Hd as [->|[->| ->]]; discriminate|constructor].
Qed.
Lemma ordered_mkOK mk delim : orderedMk mk delim -> exists n, mkOK mk delim n /\ BlankPrefix.noEol mk /\ noTab mk /\ noNul mk.
Proof.
  intros (ds & -> & Hne & Hlen & Hd & Hdl). exists (value ds 0).
  assert (Hdig : forallb isASCIIDigit ds = true).
  { apply forallb_forall. intros c Hc. rewrite Forall_forall in Hd. specialize (Hd c Hc). unfold isASCIIDigit. apply andb_true_iff. split; apply Z.leb_le; lia. }
  assert (Hall : forall (P : Z -> Prop), (forall c, 48 <= c <= 57 -> P c) -> P 46 -> P 41 -> Forall P (ds ++ [delim])).
  { intros P H1 H2 H3. apply Forall_app. split; [revert Hd; apply Forall_impl; exact H1|constructor; [destruct Hdl as [->| ->]; assumption|constructor]]. }
  split; [|split; [|split]].
  - constructor.
    + destruct ds as [|c0 r0]; [contradiction|]. exists c0, (r0 ++ [delim]). split; [reflexivity|]. inversion Hd as [|? ? Hc0 _]; subst.
      unfold isSpTab. repeat split; lia.
    + intros rest. rewrite <- app_assoc. cbn [app]. rewrite len_app. change (len [delim]) with 1. apply parseListMarker_complete.
      apply LM_ordered; [destruct ds; [contradiction|cbn [length] in *; lia]|exact Hdig|exact Hdl|reflexivity].
    + apply Hall; [intros c Hc; lia|lia|lia].
  - apply Hall; [intros c Hc|reflexivity|reflexivity]. destruct (Z.eqb_spec c 10); [lia|]. destruct (Z.eqb_spec c 13); [lia|]. reflexivity.
  - apply Hall; [intros c Hc; lia|discriminate|discriminate].
  - apply Hall; [intros c Hc; lia|discriminate|discriminate].
Qed.

(* ================= the theorem ================= *)
Lemma nbl_mkr mk : nbl (mkr mk).
Proof. intros h. destruct h as [|h]; reflexivity. Qed.

Theorem parseBlocks_item : parseBlocks_item_statement.
Proof.
  intros mk delim N D Hmk HN HT Hok Htb. cbv zeta.
  assert (H9 : noTab D) by (unfold tabFreeD in HT; unfold noTab; eapply Forall_impl; [|exact HT]; cbv beta; tauto).
  assert (H13 : noCR D) by (unfold tabFreeD in HT; unfold noCR; eapply Forall_impl; [|exact HT]; cbv beta; tauto).
  assert (H0 : noNul D) by (unfold tabFreeD in HT; unfold noNul; eapply Forall_impl; [|exact HT]; cbv beta; tauto).
  assert (HM : exists n, mkOK mk delim n /\ BlankPrefix.noEol mk /\ noTab mk /\ noNul mk).
  { destruct Hmk as [Hb|Ho]; [exists 0; apply bullet_mkOK, Hb|apply ordered_mkOK, Ho]. }
  destruct HM as (nmk & Mok & Meol & Mtab & Mnul).
  set (K := len mk + N).
  assert (HW : 0 < len mk) by (destruct Mok as [(m0 & mr & E & _) _ _]; rewrite E, len_cons; pose proof (len_nonneg mr); lia).
  assert (HTB : forall body eol post, lineAt D 0 [] body eol post -> parseThematicBreak (mk ++ spaces N ++ body ++ eol) < 0).
  { intros body eol post L. rewrite (firstLine_lineAt D body eol post L) in Htb.
    replace (mk ++ spaces N ++ body ++ eol) with ((mk ++ spaces N ++ body) ++ eol) by (rewrite <- !app_assoc; reflexivity).
    rewrite thematicBreak_eol; [exact Htb|]. destruct L as (_ & _ & _ & He & _). destruct He as [->|[-> _]]; [constructor; [left; reflexivity|constructor]|constructor]. }
  destruct (parseBlocks_item_sim mk delim nmk N K D ltac:(unfold K; lia) HN Mok Meol Mtab Mnul H9 H13 H0 (okDoc_first D HT Hok) (okDoc_nb D Hok) HTB)
    as (bl & it & lo & E & Al & Ai & HL & HG).
  assert (Hz : forallb (fun c => negb (c =? 0)) D = true).
  { apply forallb_forall. intros c Hc. unfold noNul in H0. rewrite Forall_forall in H0. apply negb_true_iff, Z.eqb_neq, H0, Hc. }
  pose proof (parseBlocks_block_shapes_partial D Hz) as HS.
  assert (HN' : Forall (fun r => nnB (rb_blk r)) (fst (parseBlocks D))).
  { rewrite Forall_forall in *. intros r Hr. apply (bshapes_nnB (rb_src r)), HS, Hr. }
  rewrite (doneI_itemKids K D (fst (parseBlocks D)) ltac:(unfold K; lia) H13 HG HN') in E, HL.
  pose proof (loose_final K D bl lo (mkr mk) _ (nbl_mkr mk) HL) as Elo.
  exists (blastBlank bl), (blastBlank it). unfold Idoc in E. rewrite E. rewrite (finalOf_explicit mk N D delim K lo bl it _ Al Ai). rewrite Elo.
  unfold itemRootOf, itemRoot, Idoc. cbv zeta. reflexivity.
Qed.
Check parseBlocks_item.
Print Assumptions parseBlocks_item.
